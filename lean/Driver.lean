import ApdVerif.Model.Arith
import ApdVerif.Oracle.Exact
import ApdVerif.Oracle.Ops
import ApdVerif.Driver.Proto
/-!
# Model driver: reads harness lines on stdin, runs the model and the specification oracles,
prints one line per problem and a summary.  Core Lean only (compiled as `lean_exe driver`).
-/
open Apd Apd.Proto Apd.Oracle

structure Stats where
  lines : Nat := 0
  bad : Nat := 0        -- unparsable lines
  mismatch : Nat := 0
  propfail : Nat := 0

/-- run a context operation of the model -/
def runCtxOp (op : String) (c : Ctx) (x y : Dec) (iarg : Int) : Option Out :=
  match op with
  | "add" => some (addOp c x y false)
  | "sub" => some (addOp c x y true)
  | "mul" => some (mulOp c x y)
  | "quo" => some (quoOp c x y)
  | "quoint" => some (quoIntegerOp c x y)
  | "rem" => some (remOp c x y)
  | "abs" => some (absOp c x)
  | "neg" => some (negOp c x)
  | "round" => some (roundOp c x)
  | "reduce" => some (reduceOp c x)
  | "cmp" => some (cmpOp c x y)
  | "quantize" => some (quantizeOp c x iarg)
  | "rtie" => some (roundToIntegralExactOp c x)
  | "rtiv" => some (roundToIntegralValueOp c x)
  | "ceil" => some (ceilOp c x)
  | "floor" => some (floorOp c x)
  | _ => none

/-- exact mathematical result of an exactly-rounded operation on finite operands -/
def exactOf (op : String) (c : Ctx) (x y : Dec) : Option Exact :=
  if x.form != .finite then none else
  match op with
  | "round" => some (exactRound x)
  | "abs" => some (exactAbs x)
  | "neg" => some (exactNeg x)
  | "add" => if y.form != .finite then none else some (exactAdd c x y false)
  | "sub" => if y.form != .finite then none else some (exactAdd c x y true)
  | "mul" => if y.form != .finite then none else some (exactMul x y)
  | "quo" => if y.form != .finite || y.coeff == 0 then none else some (exactQuo x y)
  | _ => none

def fitsOps : List String :=
  ["add", "sub", "mul", "quo", "abs", "neg", "round", "rem", "reduce", "quantize", "quoint",
   "sqrt", "cbrt", "exp", "ln", "log10", "pow", "setstring"]

def showOut (o : Out) : String :=
  showDec o.d ++ " " ++ toString o.fl.toNat ++ " " ++ showErr o.err ++ " " ++ toString o.aux

def valueEq (a b : Dec) : Bool :=
  a.form == b.form && a.neg == b.neg &&
  (a.form != .finite ||
    (if a.exp ≥ b.exp then a.coeff * 10 ^ (a.exp - b.exp).toNat == b.coeff
     else a.coeff == b.coeff * 10 ^ (b.exp - a.exp).toNat))


/-- handle one `ctxop` line; returns the problem lines -/
def handleCtxOp (id : String) (t : List String) : Option (List String × Nat × Nat) :=
  match t with
  | [op, p, emax, emin, traps, mode, xs, ys, ia, "=>", ds, fls, errs, auxs] => do
    let c ← parseCtx p emax emin traps mode
    let x ← parseDec xs
    let y ← if ys == "-" then some ({ d := {} } : PDec) else parseDec ys
    let iarg ← ia.toInt?
    let di ← parseDec ds
    let fli ← fls.toNat?
    let erri ← parseErr errs
    let auxi ← auxs.toInt?
    let impl : Out := { d := di.d, fl := Cond.ofNat fli, err := erri, aux := auxi }
    let mut out : List String := []
    let mut mm := 0
    let mut pf := 0
    -- model correspondence, by projection
    match runCtxOp op c x.d y.d iarg with
    | none => out := out ++ [s!"{id} NOMODEL {op}"]
    | some m =>
      let mut projs : List String := []
      if m.err != impl.err then projs := projs ++ ["err"]
      if delivered m.err && delivered impl.err then
        if m.fl != impl.fl then projs := projs ++ ["flags"]
        if !valueEq m.d impl.d then projs := projs ++ ["value"]
        else if m.d != impl.d then projs := projs ++ ["repr"]
        if m.aux != impl.aux then projs := projs ++ ["aux"]
      if !projs.isEmpty then
        mm := mm + 1
        out := out ++ [s!"{id} MISMATCH {",".intercalate projs} model= {showOut m}"]
    -- specification oracles on the implementation's output
    if fli ≥ 4096 then
      pf := pf + 1; out := out ++ [s!"{id} PROPFAIL C02 flag bit outside the twelve conditions"]
    if di.coeffNeg then
      pf := pf + 1; out := out ++ [s!"{id} PROPFAIL C04 negative coefficient"]
    if delivered impl.err then
      if fitsOps.contains op && !fits c impl.d then
        pf := pf + 1; out := out ++ [s!"{id} PROPFAIL C07 result does not fit the context"]
      if op == "quoint" && impl.d.form == .finite && impl.d.exp != 0 then
        pf := pf + 1; out := out ++ [s!"{id} PROPFAIL C07 QuoInteger exponent not 0"]
      match exactOf op c x.d y.d with
      | none => pure ()
      | some ex =>
        let spec? := if c.prec == 0 then specExact c ex else some (specRound c ex)
        match spec? with
        | none => pure ()
        | some s =>
          if !s.matches impl.d then
            pf := pf + 1
            out := out ++ [s!"{id} PROPFAIL C01 spec= inf={s.inf} neg={s.neg} m={s.m} q={s.q}"]
          let f := impl.fl
          if f.inexact != s.inexact then
            pf := pf + 1; out := out ++ [s!"{id} PROPFAIL C02 inexact impl={f.inexact} spec={s.inexact}"]
          if f.subnormal != s.subnormal then
            pf := pf + 1; out := out ++ [s!"{id} PROPFAIL C02 subnormal impl={f.subnormal} spec={s.subnormal}"]
          if f.underflow != s.underflow then
            pf := pf + 1; out := out ++ [s!"{id} PROPFAIL C02 underflow impl={f.underflow} spec={s.underflow}"]
          if f.overflow != s.overflow then
            pf := pf + 1; out := out ++ [s!"{id} PROPFAIL C02 overflow impl={f.overflow} spec={s.overflow}"]
          if f.inexact && !f.rounded && impl.d.form == .finite then
            pf := pf + 1; out := out ++ [s!"{id} PROPFAIL C02 inexact without rounded"]
          if f.overflow && !f.inexact then
            pf := pf + 1; out := out ++ [s!"{id} PROPFAIL C02 overflow without inexact"]
      for (prop, why) in opOracle op c x.d y.d iarg impl do
        pf := pf + 1; out := out ++ [s!"{id} PROPFAIL {prop} {why}"]
    pure (out, mm, pf)
  | [_op, _p, _emax, _emin, _traps, _mode, _xs, _ys, _ia, "=>", what] =>
    -- PANIC / HANG
    some ([s!"{id} PROPFAIL C04 {what}"], 0, 1)
  | _ => none

def handleLine (line : String) : Option (List String × Nat × Nat) :=
  match line.splitOn " " with
  | id :: "ctxop" :: rest => handleCtxOp id rest
  | _ => none

partial def loop (h : IO.FS.Stream) (out : IO.FS.Stream) (st : Stats) : IO Stats := do
  let line ← h.getLine
  if line.isEmpty then return st
  let line := line.trimAsciiEnd.toString
  if line.isEmpty || line.startsWith "#" then loop h out st
  else
    match handleLine line with
    | none =>
      out.putStrLn s!"BADLINE {line.take 200}"
      loop h out { st with lines := st.lines + 1, bad := st.bad + 1 }
    | some (msgs, mm, pf) =>
      for m in msgs do out.putStrLn m
      loop h out { st with lines := st.lines + 1, mismatch := st.mismatch + mm, propfail := st.propfail + pf }

def main : IO UInt32 := do
  let stdin ← IO.getStdin
  let stdout ← IO.getStdout
  let st ← loop stdin stdout {}
  stdout.putStrLn s!"SUMMARY lines={st.lines} bad={st.bad} mismatch={st.mismatch} propfail={st.propfail}"
  return 0
