import ApdVerif.Model.Arith
import ApdVerif.Model.Conv
import ApdVerif.Model.Dispatch
import ApdVerif.Model.BigInt
import ApdVerif.Model.Text
import ApdVerif.Imp.Ops
import ApdVerif.Imp.TransOps
import ApdVerif.Spec.Grammar
import ApdVerif.Oracle.Roots
import ApdVerif.Spec.Specials
import ApdVerif.Spec.Order
import ApdVerif.Oracle.Exact
import ApdVerif.Oracle.Ops
import ApdVerif.Driver.Proto
import ApdVerif.Model.Decompose
import ApdVerif.Lemmas.SqrtDefs
import ApdVerif.Model.TransObs
import ApdVerif.Oracle.ExpTapeOK
import ApdVerif.Oracle.LnTapeOK
import ApdVerif.Oracle.Log10TapeOK
/-!
# Model driver: reads harness lines on stdin, runs the model and the specification oracles,
prints one line per problem and a summary.  Core Lean only (compiled as `lean_exe driver`).
-/
open Apd Apd.Proto Apd.Oracle

structure Stats where
  lines : Nat := 0
  bad : Nat := 0        -- unparsable lines
  mismatch : Nat := 0
  propfail : Nat := 0

/-- exact mathematical result of an exactly-rounded operation on finite operands -/
def exactOf (op : String) (c : Ctx) (x y : Dec) : Option Exact :=
  if x.form != .finite then none else
  match op with
  | "round" => some (exactRound x)
  | "abs" => some (exactAbs x)
  | "neg" => some (exactNeg x)
  | "add" => if y.form != .finite then none else some (exactAdd c x y false)
  | "sub" => if y.form != .finite then none else some (exactAdd c x y true)
  | "mul" => if y.form != .finite then none else some (exactMul x y)
  | "quo" => if y.form != .finite || y.coeff == 0 then none else some (exactQuo x y)
  | _ => none

def fitsOps : List String :=
  ["add", "sub", "mul", "quo", "abs", "neg", "round", "rem", "reduce", "quantize", "quoint",
   "sqrt", "cbrt", "exp", "ln", "log10", "pow", "setstring"]

def showOut (o : Out) : String :=
  showDec o.d ++ " " ++ toString o.fl.toNat ++ " " ++ showErr o.err ++ " " ++ toString o.aux

def valueEq (a b : Dec) : Bool :=
  a.form == b.form && a.neg == b.neg &&
  (a.form != .finite ||
    (if a.exp ≥ b.exp then a.coeff * 10 ^ (a.exp - b.exp).toNat == b.coeff
     else a.coeff == b.coeff * 10 ^ (b.exp - a.exp).toNat))


/-- the specification oracles for one outcome of a context operation (whatever aliasing pattern or
destination pre-state produced it): returns the PROPFAIL lines -/
def ctxOracles (id op : String) (c : Ctx) (x y : Dec) (iarg : Int) (impl : Out) (fli : Nat) (coeffNeg : Bool) : List String := Id.run do
  let delivered : ErrKind → Bool := fun e => e == .none || (e == .trap && (impl.fl &&& c.traps).any)
  let mut out : List String := []
  if fli ≥ 4096 then
    out := out ++ [s!"{id} PROPFAIL C02 flag bit outside the twelve conditions"]
  if coeffNeg then
    out := out ++ [s!"{id} PROPFAIL C04 negative coefficient"]
  -- C01/C02/C07 quantify over well-formed contexts with Precision ≤ MaxExponent (properties.jsonl, C01)
  let wfRange : Bool := decide ((c.prec : Int) ≤ c.emax)
  if delivered impl.err then
    if wfRange && fitsOps.contains op && !fits c impl.d then
      out := out ++ [s!"{id} PROPFAIL C07 result does not fit the context"]
    -- Exp, Ln, Log10: on finite results Inexact implies Rounded, Overflow implies Inexact (C02's closing
    -- implications; for these functions they are theorems of the tape model: C02T_exp_inexact_rounded)
    if (op == "exp" || op == "ln" || op == "log10") then
      if impl.fl.inexact && !impl.fl.rounded && impl.d.form == .finite then
        out := out ++ [s!"{id} PROPFAIL C02 inexact without rounded on a finite result of {op}"]
      if impl.fl.overflow && !impl.fl.inexact then
        out := out ++ [s!"{id} PROPFAIL C02 overflow without inexact ({op})"]
    -- compare with an infinite operand (no NaN): the specification's numeric order (GDA compare; C08 names
    -- infinities as operands, C15 owns the order)
    if op == "cmp" && !x.isNaN && !y.isNaN && (x.form == .infinite || y.form == .infinite) then
      let want := Apd.specCmp x y
      let got : Int := if impl.d.neg then -(impl.d.coeff : Int) else (impl.d.coeff : Int)
      if !(impl.d.form == .finite && impl.d.exp == 0 && got == want && impl.fl == {}) then
        out := out ++ [s!"{id} PROPFAIL C08 compare with an infinite operand: expected {want} and no condition",
                       s!"{id} PROPFAIL C15 compare with an infinite operand: expected {want}"]
    if op == "quoint" && impl.d.form == .finite && impl.d.exp != 0 then
      out := out ++ [s!"{id} PROPFAIL C07 QuoInteger exponent not 0"]
    match (if wfRange then exactOf op c x y else none) with
    | none => pure ()
    | some ex =>
      let spec? := if c.prec == 0 then specExact c ex else some (specRound c ex)
      match spec? with
      | none => pure ()
      | some s =>
        if !s.matches impl.d then
          out := out ++ [s!"{id} PROPFAIL C01 spec= inf={s.inf} neg={s.neg} m={s.m} q={s.q}"]
        let f := impl.fl
        if f.inexact != s.inexact then
          out := out ++ [s!"{id} PROPFAIL C02 inexact impl={f.inexact} spec={s.inexact}"]
        if f.subnormal != s.subnormal then
          out := out ++ [s!"{id} PROPFAIL C02 subnormal impl={f.subnormal} spec={s.subnormal}"]
        if f.underflow != s.underflow then
          out := out ++ [s!"{id} PROPFAIL C02 underflow impl={f.underflow} spec={s.underflow}"]
        if f.overflow != s.overflow then
          out := out ++ [s!"{id} PROPFAIL C02 overflow impl={f.overflow} spec={s.overflow}"]
        if f.inexact && !f.rounded && impl.d.form == .finite then
          out := out ++ [s!"{id} PROPFAIL C02 inexact without rounded"]
        if f.overflow && !f.inexact then
          out := out ++ [s!"{id} PROPFAIL C02 overflow without inexact"]
    match Apd.Spec.specials op x y with
    | some e =>
      if !(e.meets impl.d impl.fl) then
        out := out ++ [s!"{id} PROPFAIL C08 special-value rule: expected form={repr e.form} neg={repr e.neg} invalid={e.invalid} divByZero={e.divByZero} divUndefined={e.divUndefined}"]
      if impl.fl.invalidOp != e.invalid || impl.fl.divByZero != e.divByZero || impl.fl.divUndefined != e.divUndefined || impl.fl.divImpossible then
        out := out ++ [s!"{id} PROPFAIL C02 InvalidOperation/DivisionByZero/DivisionUndefined/DivisionImpossible not as the specification assigns them: expected invalid={e.invalid} divByZero={e.divByZero} divUndefined={e.divUndefined}"]
    | none => pure ()
    for (prop, why) in opOracle op c x y iarg impl do
      out := out ++ [s!"{id} PROPFAIL {prop} {why}"]
  else if op == "cbrt" && (impl.err == .sys || impl.err == .other) then
    -- C11 promises a value for every finite operand: an error return of Cbrt is judged (C11_cbrt_returns)
    for (prop, why) in opOracle op c x y iarg impl do
      out := out ++ [s!"{id} PROPFAIL {prop} {why}"]
  else if op == "quantize" && x.form == .finite && x.exp - iarg > 100000 then
    -- a rescaling beyond the package limit must still end in InvalidOperation (or, for a zero, in that zero):
    -- an error of another class is judged too
    for (prop, why) in opOracle op c x y iarg impl do
      out := out ++ [s!"{id} PROPFAIL {prop} {why}"]
  return out

/-- `T=c19,n16,ef:1:23:-1` → tape -/
def parseTape (s : String) : Option Tape :=
  if !s.startsWith "T=" then none else
  let body := (s.drop 2).toString
  if body.isEmpty then some [] else
  (body.splitOn ",").mapM fun tok =>
    if tok.startsWith "c" then (tok.drop 1).toString.toNat?.map TapeE.cp
    else if tok.startsWith "n" then (tok.drop 1).toString.toInt?.map TapeE.n
    else if tok.startsWith "e" then (parseDec (tok.drop 1).toString).map (fun d => TapeE.est d.d)
    else none

/-- one `ctxop` line with its fields split; `tape?` = the decision tape, when the line carries one -/
def handleCtxOpCore (id op p emax emin traps mode xs ys ia ds fls errs auxs : String) (tape? : Option Tape)
    (modelOut : Option (Option Out) := none) : Option (List String × Nat × Nat) := do
  let c ← parseCtx p emax emin traps mode
  let x ← parseDec xs
  let y ← if ys == "-" then some ({ d := {} } : PDec) else parseDec ys
  let iarg ← ia.toInt?
  let di ← parseDec ds
  let fli ← fls.toNat?
  let erri ← parseErr errs
  let auxi ← auxs.toInt?
  let impl : Out := { d := di.d, fl := Cond.ofNat fli, err := erri, aux := auxi }
  -- a result is delivered with a nil error or with a trap error explained by the returned flags; a
  -- composite function that returns the error of an internal step (flags 0) leaves d untouched
  let delivered : ErrKind → Bool := fun e => e == .none || (e == .trap && (Cond.ofNat fli &&& c.traps).any)
  let mut out : List String := []
  let mut mm := 0
  let mut pf := 0
  -- model correspondence, by projection
  match (match modelOut with
         | some m => m
         | none => (match tape? with | some tp => runCtxOpT op c x.d y.d iarg tp | none => runCtxOp op c x.d y.d iarg)) with
  | none =>
    if tape?.isSome then
      mm := mm + 1
      out := out ++ [s!"{id} MISMATCH tape model= the recorded decision tape does not fit the model's control flow"]
    else if oracleOnlyOps.contains op then pure () else out := out ++ [s!"{id} NOMODEL {op}"]
  | some m =>
    let mut projs : List String := []
    if m.err != impl.err then projs := projs ++ ["err"]
    if (m.err == .none || (m.err == .trap && (m.fl &&& c.traps).any)) && delivered impl.err then
      if m.fl != impl.fl then projs := projs ++ ["flags"]
      if !valueEq m.d impl.d then projs := projs ++ ["value"]
      else if m.d != impl.d then projs := projs ++ ["repr"]
      if m.aux != impl.aux then projs := projs ++ ["aux"]
    if !projs.isEmpty then
      mm := mm + 1
      out := out ++ [s!"{id} MISMATCH {",".intercalate projs} model= {showOut m}"]
  let ol := ctxOracles id op c x.d y.d iarg impl fli di.coeffNeg
  out := out ++ ol
  pf := pf + ol.length
  pure (out, mm, pf)

/-- observation point inside `Context.Sqrt` (hook `verifTape("sqrt.iter", …)` after the precision-doubling loop):
the Newton iterate the real call ended its loop with is compared, field by field, with `SqrtD.iter` — the object
the correctness theorem `C11_sqrt_correct_partial` is about.  `T=` (no observation) must coincide with the
model taking a special-value exit or failing inside the loop. -/
def sqrtObservation (id p emax emin traps mode xs tapes : String) : Option (List String × Nat × Nat) := do
  let c ← parseCtx p emax emin traps mode
  let x := (← parseDec xs).d
  let reach : Bool := (rootSpecials c x 2).isNone && !(Apd.SqrtD.iter c x).1.failed
  if tapes == "T=" then
    if reach then some ([s!"{id} MISMATCH iter model= reaches the end of the loop with {showDec (Apd.SqrtD.iter c x).2}, the implementation did not"], 1, 0)
    else some ([], 0, 0)
  else if tapes.startsWith "T=a" then
    let a := (← parseDec (tapes.drop 3).toString).d
    if reach && (Apd.SqrtD.iter c x).2 == a then some ([], 0, 0)
    else some ([s!"{id} MISMATCH iter model= {if reach then showDec (Apd.SqrtD.iter c x).2 else "no-iterate"}"], 1, 0)
  else none

/-- observation point inside `Context.Cbrt` (hook `verifTape("cbrt.iter", …)` after the Newton loop): the iterate the
real loop ended with is compared, field by field, with `cbrtLastIter` — the intermediate value that
`C11_cbrt_within_ulp` / `C11_cbrt_exact` reason about and from which the model's result is computed
(`C11_cbrt_obs_factor`).  `T=` (no observation) must coincide with the model leaving before the end of the loop. -/
def cbrtObservation (id : String) (pfx : Option (Sum Out (Cond × Dec))) (tapes : String) : Option (List String × Nat × Nat) := do
  match pfx with
  | none => some ([s!"{id} MISMATCH iter model= out of fuel"], 1, 0)
  | some s =>
    let mz : Option Dec := match s with | .inl _ => none | .inr (_, z) => some z
    if tapes == "T=" then
      match mz with
      | some z => some ([s!"{id} MISMATCH iter model= reaches the end of the loop with {showDec z}, the implementation did not"], 1, 0)
      | none => some ([], 0, 0)
    else if tapes.startsWith "T=b" then
      let a := (← parseDec (tapes.drop 3).toString).d
      if mz == some a then some ([], 0, 0)
      else some ([s!"{id} MISMATCH iter model= {match mz with | some z => showDec z | none => "no-iterate"}"], 1, 0)
    else none

/-- handle one `ctxop` line; returns the problem lines -/
def handleCtxOp (id : String) (t : List String) : Option (List String × Nat × Nat) :=
  match t with
  | ["cbrt", p, emax, emin, traps, mode, xs, ys, ia, "=>", ds, fls, errs, auxs, tapes] => do
    -- one run of the model serves both comparisons: `cbrtOp` is `cbrtPrefix` followed by `cbrtTail`
    -- (C11_cbrt_obs_factor), and the observed iterate is the one the prefix ends with
    let c ← parseCtx p emax emin traps mode
    let x := (← parseDec xs).d
    let pfx := cbrtPrefix c x
    let mo : Option Out := pfx.map (fun s => match s with | .inl o => o | .inr (fl0, z) => cbrtTail c x fl0 z)
    let core ← handleCtxOpCore id "cbrt" p emax emin traps mode xs ys ia ds fls errs auxs none (some mo)
    let obs ← cbrtObservation id pfx tapes
    pure (core.1 ++ obs.1, core.2.1 + obs.2.1, core.2.2 + obs.2.2)
  | ["sqrt", p, emax, emin, traps, mode, xs, ys, ia, "=>", ds, fls, errs, auxs, tapes] => do
    let core ← handleCtxOpCore id "sqrt" p emax emin traps mode xs ys ia ds fls errs auxs none
    let obs ← sqrtObservation id p emax emin traps mode xs tapes
    pure (core.1 ++ obs.1, core.2.1 + obs.2.1, core.2.2 + obs.2.2)
  | [op, p, emax, emin, traps, mode, xs, ys, ia, "=>", ds, fls, errs, auxs, tapes] =>
    match parseTape tapes with
    | none => none
    | some tape => do
      let core ← handleCtxOpCore id op p emax emin traps mode xs ys ia ds fls errs auxs (some tape)
      -- Exp on its main path (a two-entry tape: working precision, number of series terms): the decisions the real
      -- call took in float64 arithmetic must satisfy ExpTapeOK, the hypothesis under which C12_exp_accurate bounds
      -- the error of the result for every operand
      match op, tape with
      | "exp", [TapeE.cp cp, TapeE.n n] =>
        let c ← parseCtx p emax emin traps mode
        let x := (← parseDec xs).d
        if Apd.ExpTapeOK c x cp n then pure core
        else pure (core.1 ++ [s!"{id} MISMATCH tapeok model= the float64 decisions cp={cp} n={n} of this call fall outside ExpTapeOK, the hypothesis of C12_exp_accurate"], core.2.1 + 1, core.2.2)
      | "ln", _ :: _ =>
        -- Ln / Log10 that consult the tape: the recorded decisions must satisfy LnTapeOK / Log10TapeOK, the hypotheses
        -- of C12_ln_accurate / C12_log10_accurate (the constants ln 10 and 1/ln 10 are certified to 95 digits only,
        -- hence the precision guard)
        let c ← parseCtx p emax emin traps mode
        let x := (← parseDec xs).d
        if c.prec + 4 > 90 || Apd.LnTapeOK c x tape then pure core
        else pure (core.1 ++ [s!"{id} MISMATCH tapeok model= the recorded decisions of this Ln call fall outside LnTapeOK, the hypothesis of C12_ln_accurate"], core.2.1 + 1, core.2.2)
      | "log10", _ :: _ =>
        let c ← parseCtx p emax emin traps mode
        let x := (← parseDec xs).d
        if c.prec + 4 > 90 || Apd.Log10TapeOK c x tape then pure core
        else pure (core.1 ++ [s!"{id} MISMATCH tapeok model= the recorded decisions of this Log10 call fall outside Log10TapeOK, the hypothesis of C12_log10_accurate"], core.2.1 + 1, core.2.2)
      | _, _ => pure core
  | [op, p, emax, emin, traps, mode, xs, ys, ia, "=>", ds, fls, errs, auxs] =>
    handleCtxOpCore id op p emax emin traps mode xs ys ia ds fls errs auxs none
  | [_op, _p, _emax, _emin, _traps, _mode, _xs, _ys, _ia, "=>", what] =>
    -- PANIC / HANG
    some ([s!"{id} PROPFAIL C04 {what}"], 0, 1)
  | _ => none

/-- compare a model value with the implementation's, as strings -/
def cmpRes (id what model impl : String) : List String × Nat × Nat :=
  if model == impl then ([], 0, 0) else ([s!"{id} MISMATCH {what} model= {model}"], 1, 0)

def merge (a b : List String × Nat × Nat) : List String × Nat × Nat :=
  (a.1 ++ b.1, a.2.1 + b.2.1, a.2.2 + b.2.2)

def propfail (id prop why : String) : List String × Nat × Nat := ([s!"{id} PROPFAIL {prop} {why}"], 0, 1)

def sameReprB (d x : Dec) : Bool :=
  d.form == x.form && d.neg == x.neg &&
  (match d.form with
   | .finite => d.coeff == x.coeff && d.exp == x.exp
   | .infinite => true
   | _ => d.coeff == x.coeff)

/-- `numdigits <int> => <n>` : NumDigits on a big integer (C19, C04) -/
def handleNumDigits (id : String) (t : List String) : Option (List String × Nat × Nat) :=
  match t with
  | [b, "=>", r] => do
    let bi ← b.toInt?
    if r == "PANIC" || r == "HANG" then return propfail id "C04" s!"NumDigits {r}"
    let ri ← r.toInt?
    let m := numDigitsImpl bi
    let res := cmpRes id "result" (toString m) (toString ri)
    let spec := ndigits bi.natAbs
    if ri != (spec : Int) then
      return merge res (merge (propfail id "C19" s!"NumDigits returned {ri}, the integer has {spec} digits") (propfail id "C04" "-"))
    return res
  | _ => none

/-- `order3 x y z => c(x,y) c(y,x) c(y,z) c(x,z) t(x,y) t(y,x) t(y,z) t(x,z)` (C15) -/
def handleOrder3 (id : String) (t : List String) : Option (List String × Nat × Nat) :=
  match t with
  | [xs, ys, zs, "=>", cxy, cyx, cyz, cxz, txy, tyx, tyz, txz] => do
    let x := (← parseDec xs).d
    let y := (← parseDec ys).d
    let z := (← parseDec zs).d
    let cxy ← cxy.toInt?; let cyx ← cyx.toInt?; let cyz ← cyz.toInt?; let cxz ← cxz.toInt?
    let txy ← txy.toInt?; let tyx ← tyx.toInt?; let tyz ← tyz.toInt?; let txz ← txz.toInt?
    -- the exact order, without materialising 10^gap when an operand is zero or the exponents are billions apart
    let specCmp (d x : Dec) : Int :=
      if d.form == .finite && x.form == .finite && (d.coeff == 0 || x.coeff == 0) then
        let sg (v : Dec) : Int := if v.coeff == 0 then 0 else if v.neg then -1 else 1
        cmpInt (sg d) (sg x)
      else if d.form == .finite && x.form == .finite && (d.exp - x.exp > 400000 || x.exp - d.exp > 400000) then
        -- non-zero, far apart: the adjusted exponents decide
        let sg (v : Dec) : Int := if v.neg then -1 else 1
        if sg d != sg x then cmpInt (sg d) (sg x)
        else sg d * cmpInt ((ndigits d.coeff : Int) + d.exp) ((ndigits x.coeff : Int) + x.exp)
      else Apd.specCmp d x
    let model := s!"{x.cmp y} {y.cmp x} {y.cmp z} {x.cmp z} {x.cmpTotal y} {y.cmpTotal x} {y.cmpTotal z} {x.cmpTotal z}"
    let impl := s!"{cxy} {cyx} {cyz} {cxz} {txy} {tyx} {tyz} {txz}"
    let mut r := cmpRes id "result" model impl
    let nn (d : Dec) := !d.isNaN
    -- Cmp is the sign of the exact difference on non-NaN operands
    if nn x && nn y && cxy != specCmp x y then r := merge r (propfail id "C15" s!"Cmp(x,y)={cxy}, exact order {specCmp x y}")
    if nn x && nn y && cyx != specCmp y x then r := merge r (propfail id "C15" s!"Cmp(y,x)={cyx}, exact order {specCmp y x}")
    if nn y && nn z && cyz != specCmp y z then r := merge r (propfail id "C15" s!"Cmp(y,z)={cyz}, exact order {specCmp y z}")
    if nn x && nn z && cxz != specCmp x z then r := merge r (propfail id "C15" s!"Cmp(x,z)={cxz}, exact order {specCmp x z}")
    -- CmpTotal: antisymmetric, transitive, zero exactly on identical representations, agrees with Cmp
    if tyx != -txy then r := merge r (propfail id "C15" "CmpTotal not antisymmetric")
    if txy ≤ 0 && tyz ≤ 0 && !(txz ≤ 0) then r := merge r (propfail id "C15" "CmpTotal not transitive")
    if txy ≥ 0 && tyz ≥ 0 && !(txz ≥ 0) then r := merge r (propfail id "C15" "CmpTotal not transitive")
    if (txy == 0) != sameReprB x y then r := merge r (propfail id "C15" "CmpTotal zero iff identical representation")
    if nn x && nn y && specCmp x y != 0 && txy != specCmp x y then r := merge r (propfail id "C15" "CmpTotal disagrees with Cmp on different values")
    if x.cmpOrder < y.cmpOrder && txy != -1 then r := merge r (propfail id "C15" "CmpTotal form order")
    if x.form == .finite && y.form == .finite && x.neg == y.neg && specCmp x y == 0 && x.exp < y.exp &&
        txy != (if x.neg then 1 else -1) then r := merge r (propfail id "C15" "CmpTotal exponent tie-break")
    return r
  | _ => none

def intValueOf (d : Dec) : Option Int :=
  -- the integer denoted by a finite decimal, if it is one
  if d.exp ≥ 0 then some ((if d.neg then -1 else 1) * ((d.coeff * 10 ^ d.exp.toNat : Nat) : Int))
  else
    let p := 10 ^ (-d.exp).toNat
    if d.coeff % p == 0 then some ((if d.neg then -1 else 1) * ((d.coeff / p : Nat) : Int)) else none

/-- `int64 d => <v>|err` (C17) -/
def handleInt64 (id : String) (t : List String) : Option (List String × Nat × Nat) :=
  match t with
  | [ds, "=>", r] => do
    let d := (← parseDec ds).d
    if r == "PANIC" || r == "HANG" then return propfail id "C04" s!"Int64 {r}"
    let m := match int64Op d with | some v => toString v | none => "err"
    let mut res := cmpRes id "result" m r
    let spec : Option Int :=
      if d.form != .finite then none else
      match intValueOf d with
      | some v => if -2 ^ 63 ≤ v && v ≤ 2 ^ 63 - 1 then some v else none
      | none => none
    let specS := match spec with | some v => toString v | none => "err"
    if specS != r then res := merge res (propfail id "C17" s!"Int64 returned {r}, exact answer {specS}")
    return res
  | _ => none

/-- `modf d => integ frac` with `-` for a nil output (C17) -/
def handleModf (id : String) (t : List String) : Option (List String × Nat × Nat) :=
  match t with
  | [ds, "=>", is, fs] => do
    let d := (← parseDec ds).d
    if is == "PANIC" || is == "HANG" then return propfail id "C04" s!"Modf {is}"
    let m := modf d
    let mut res : List String × Nat × Nat := ([], 0, 0)
    let integ? ← if is == "-" then some none else (parseDec is).map (fun p => some p.d)
    let frac? ← if fs == "-" then some none else (parseDec fs).map (fun p => some p.d)
    match integ? with
    | some i => res := merge res (cmpRes id "integ" (showDec m.1) (showDec i))
    | none => pure ()
    match frac? with
    | some f => res := merge res (cmpRes id "frac" (showDec m.2) (showDec f))
    | none => pure ()
    -- specification on the implementation's outputs
    if d.form == .finite then
      match integ? with
      | some i =>
        if !(i.form == .finite && i.neg == d.neg && i.exp ≥ 0) then res := merge res (propfail id "C17" "integ is not an integer with d's sign and exponent >= 0")
        let e := min d.exp 0
        let want := (d.coeff * 10 ^ (d.exp - e).toNat) / 10 ^ (-e).toNat
        if i.coeff * 10 ^ i.exp.toNat != want then res := merge res (propfail id "C17" s!"integ value wrong, expected {want}")
      | none => pure ()
      match frac? with
      | some f =>
        if !(f.form == .finite && f.neg == d.neg && f.exp ≤ 0 && f.coeff < 10 ^ (-f.exp).toNat) then
          res := merge res (propfail id "C17" "frac is not a fraction below one with d's sign")
        let e := min d.exp 0
        let want := (d.coeff * 10 ^ (d.exp - e).toNat) % 10 ^ (-e).toNat
        -- frac value scaled to 10^e
        let got := if f.exp ≥ e then f.coeff * 10 ^ (f.exp - e).toNat else f.coeff / 10 ^ (e - f.exp).toNat
        if f.coeff != 0 && got != want then res := merge res (propfail id "C17" s!"frac value wrong")
        if f.coeff == 0 && want != 0 then res := merge res (propfail id "C17" s!"frac value wrong")
      | none => pure ()
    return res
  | _ => none

/-- `reduced x => d n` : Decimal.Reduce (C19) -/
def handleReduced (id : String) (t : List String) : Option (List String × Nat × Nat) :=
  match t with
  | [xs, "=>", ds, ns] => do
    let x := (← parseDec xs).d
    if ds == "PANIC" || ds == "HANG" then return propfail id "C04" s!"Reduce {ds}"
    let d := (← parseDec ds).d
    let n ← ns.toInt?
    let m := reduceD x
    let mut res := merge (cmpRes id "result" (showDec m.1) (showDec d)) (cmpRes id "count" (toString m.2) (toString n))
    if x.form == .finite then
      if x.coeff == 0 then
        if !(d.form == .finite && d.coeff == 0 && d.exp == 0 && n == 0) then res := merge res (propfail id "C19" "Reduce of zero is not 0E0 with count 0")
      else
        let z := (stripZeros x.coeff).2
        if !(d.form == .finite && d.neg == x.neg && d.coeff % 10 != 0 && d.exp == x.exp + n &&
             d.coeff * 10 ^ n.toNat == x.coeff && n == z) then
          res := merge res (propfail id "C19" s!"Reduce: wrong value, trailing zero left, or count != {z}")
    return res
  | _ => none

def modeNames : List String := ["down", "half_up", "half_even", "ceiling", "floor", "half_down", "up", "05up"]

def parseOuts : List String → Option (List Out)
  | [] => some []
  | ds :: fls :: errs :: rest => do
    let d ← parseDec ds
    let fl ← fls.toNat?
    let e ← parseErr errs
    let tl ← parseOuts rest
    pure ({ d := d.d, fl := Cond.ofNat fl, err := e } :: tl)
  | _ => none

def absDec (d : Dec) : Dec := { d with neg := false }
/-- same value; the sign of an exact zero may depend on the mode (RoundFloor gives -0 for a cancelling sum) -/
def valEq (a b : Dec) : Bool := specCmp a b == 0 && (a.neg == b.neg || (a.isZero && b.isZero))

/-- are `lo ≤ hi` equal or adjacent representable values in context `c` (infinity adjacent to the
largest finite number)? -/
def adjacentOrEqual (c : Ctx) (lo hi : Dec) : Bool :=
  if specCmp lo hi == 0 then true else
  let largest (d : Dec) : Bool := d.form == .finite && d.coeff + 1 == 10 ^ c.prec && d.exp == c.emax - (c.prec : Int) + 1
  match lo.form, hi.form with
  | .finite, .finite =>
    let e := min lo.exp hi.exp
    signedScaled hi e - signedScaled lo e == 1
  | .finite, .infinite => !hi.neg && !lo.neg && largest lo
  | .infinite, .finite => lo.neg && hi.neg && largest hi
  | _, _ => false

/-- `modes op prec emax emin traps x y iarg => 8 × (dec flags err)` (C20) -/
def handleModes (id : String) (t : List String) : Option (List String × Nat × Nat) :=
  match t with
  | op :: p :: emax :: emin :: traps :: xs :: ys :: ia :: "=>" :: rest => do
    let c0 ← parseCtx p emax emin traps "down"
    let x := (← parseDec xs).d
    let y ← if ys == "-" then some ({} : Dec) else (parseDec ys).map (·.d)
    let iarg ← ia.toInt?
    if rest == ["PANIC"] || rest == ["HANG"] then return propfail id "C04" "panic or hang"
    let outs ← parseOuts rest
    if outs.length != 8 then none
    let mut res : List String × Nat × Nat := ([], 0, 0)
    -- correspondence, mode by mode
    for (mn, o) in modeNames.zip outs do
      let c := { c0 with mode := parseMode mn }
      match runCtxOp op c x y iarg with
      | none => res := merge res ([s!"{id} NOMODEL {op}"], 0, 0)
      | some m =>
        if m.err != o.err || (delivered m.err && (m.fl != o.fl || m.d != o.d)) then
          res := merge res ([s!"{id} MISMATCH modes model[{mn}]= {showOut m}"], 1, 0)
    -- relations between the eight implementation results
    let ok := outs.all (fun o => delivered o.err && !o.d.isNaN)
    if ok then
      match outs with
      | [dn, hu, he, ce, fl, hd, up, r5] =>
        for (mn, o) in modeNames.zip outs do
          if !(specCmp fl.d o.d ≤ 0 && specCmp o.d ce.d ≤ 0) then
            res := merge res (propfail id "C20" s!"floor <= {mn} <= ceiling violated")
          if !(specCmp (absDec dn.d) (absDec o.d) ≤ 0 && specCmp (absDec o.d) (absDec up.d) ≤ 0) then
            res := merge res (propfail id "C20" s!"|down| <= |{mn}| <= |up| violated")
          if !(valEq o.d dn.d || valEq o.d up.d) then
            res := merge res (propfail id "C20" s!"{mn} is neither the down nor the up result")
          if o.fl.inexact != dn.fl.inexact then
            res := merge res (propfail id "C20" s!"Inexact depends on the mode ({mn})")
          if !dn.fl.inexact && !valEq o.d dn.d then
            res := merge res (propfail id "C20" s!"exact result but {mn} differs from down")
        if dn.fl.inexact && !up.fl.overflow && valEq dn.d up.d then
          res := merge res (propfail id "C20" "Inexact raised but down = up")
        let digitLimited := !(op == "rtie" || op == "quantize")
        if (digitLimited || (fl.d.form == .finite && ce.d.form == .finite)) && !(adjacentOrEqual c0 fl.d ce.d) then
          res := merge res (propfail id "C20" "floor and ceiling results are neither equal nor adjacent")
        let _ := (hu, he, hd, r5)
      | _ => pure ()
    return res
  | _ => none

def negDec (d : Dec) : Dec := { d with neg := !d.neg }

/-- `rel kind op ctx x y k => out1 out2` : relations between two calls (C20) -/
def handleRel (id : String) (t : List String) : Option (List String × Nat × Nat) :=
  match t with
  | kind :: op :: p :: emax :: emin :: traps :: mode :: xs :: ys :: ks :: "=>" :: rest => do
    let c ← parseCtx p emax emin traps mode
    let x := (← parseDec xs).d
    let y ← if ys == "-" then some ({} : Dec) else (parseDec ys).map (·.d)
    let k ← ks.toInt?
    if rest == ["PANIC"] || rest == ["HANG"] then return propfail id "C04" "panic or hang"
    let outs ← parseOuts rest
    match outs with
    | [a, b] =>
      let mut res : List String × Nat × Nat := ([], 0, 0)
      let fin := delivered a.err && delivered b.err && !a.d.isNaN && !b.d.isNaN
      let sameOut (u v : Out) : Bool := u.err == v.err && (!(delivered u.err) || (u.fl == v.fl && u.d == v.d))
      let mirrorMode : Mode → Mode | .floor => .ceiling | .ceiling => .floor | m => m
      -- model of both calls
      let shiftD (d : Dec) : Dec := if d.form == .finite then { d with exp := d.exp + k } else d
      let (m1, m2) : Option Out × Option Out :=
        match kind with
        | "comm" => (runCtxOp op c x y 0, runCtxOp op c y x 0)
        | "subneg" => (runCtxOp "sub" c x y 0, runCtxOp "add" c x (negDec y) 0)
        | "mirror" =>
          let cm := { c with mode := mirrorMode c.mode }
          if op == "add" || op == "sub" then (runCtxOp op c x y 0, runCtxOp op cm (negDec x) (negDec y) 0)
          else (runCtxOp op c x y 0, runCtxOp op cm (negDec x) y 0)
        | "scale" =>
          if op == "mul" || op == "quo" then (runCtxOp op c x y 0, runCtxOp op c (shiftD x) y 0)
          else (runCtxOp op c x y 0, runCtxOp op c (shiftD x) (shiftD y) 0)
        | "mono" => (runCtxOp "round" c x y 0, runCtxOp "round" c y x 0)
        | _ => (none, none)
      match m1, m2 with
      | some m1, some m2 =>
        if !(sameOut m1 a) then res := merge res ([s!"{id} MISMATCH rel model[1]= {showOut m1}"], 1, 0)
        if !(sameOut m2 b) then res := merge res ([s!"{id} MISMATCH rel model[2]= {showOut m2}"], 1, 0)
      | _, _ => res := merge res ([s!"{id} NOMODEL rel {kind} {op}"], 0, 0)
      -- the relation itself, on the implementation's results
      match kind with
      | "comm" =>
        if x.form == .finite && y.form == .finite && !(sameOut a b) then res := merge res (propfail id "C20" s!"{op} does not commute")
      | "subneg" =>
        if !y.isNaN && !(sameOut a b) then res := merge res (propfail id "C20" "Sub(x,y) differs from Add(x,-y)")
      | "mirror" =>
        if fin && !(a.d.form == .finite && a.d.coeff == 0) then
          if !(specCmp (negDec a.d) b.d == 0 && a.d.neg != b.d.neg && a.fl == b.fl) then
            res := merge res (propfail id "C20" "negated operands under the mirrored mode do not give the negated result")
      | "scale" =>
        let normal (o : Out) : Bool := o.d.form == .finite && !o.fl.subnormal && !o.fl.overflow && !o.fl.clamped && o.d.coeff != 0
        if fin && normal a && normal b then
          if !(specCmp (shiftD a.d) b.d == 0 && a.d.neg == b.d.neg && a.fl.inexact == b.fl.inexact) then
            res := merge res (propfail id "C20" "scaling the operands by a power of ten does not scale the result")
      | "mono" =>
        if fin && !x.isNaN && !y.isNaN && specCmp x y ≤ 0 && !(specCmp a.d b.d ≤ 0) then
          res := merge res (propfail id "C20" "Round is not monotone")
        if fin && !x.isNaN && !y.isNaN && specCmp x y ≥ 0 && !(specCmp a.d b.d ≥ 0) then
          res := merge res (propfail id "C20" "Round is not monotone")
      | _ => pure ()
      return res
    | _ => none
  | _ => none

def singleRoundingOps : List String :=
  ["add", "sub", "mul", "quo", "quoint", "rem", "abs", "neg", "round", "quantize", "rtie", "rtiv", "reduce", "cmp", "ceil", "floor"]

/-- `traps op ctx x y iarg => out(T) out(0)` : the same call under trap set T and under no traps (C03) -/
def handleTraps (id : String) (t : List String) : Option (List String × Nat × Nat) :=
  match t with
  | op :: p :: emax :: emin :: traps :: mode :: xs :: ys :: ia :: "=>" :: rest => do
    let c ← parseCtx p emax emin traps mode
    let c0 := { c with traps := {} }
    let x := (← parseDec xs).d
    let y ← if ys == "-" then some ({} : Dec) else (parseDec ys).map (·.d)
    let iarg ← ia.toInt?
    if rest == ["PANIC"] || rest == ["HANG"] then return propfail id "C04" "panic or hang"
    match ← parseOuts rest with
    | [oT, o0] =>
      let mut res : List String × Nat × Nat := ([], 0, 0)
      let dlv (cx : Ctx) (o : Out) : Bool := o.err == .none || (o.err == .trap && (o.fl &&& cx.traps).any)
      let sameOut (cx : Ctx) (u v : Out) : Bool := u.err == v.err && (!(dlv cx u) || (u.fl == v.fl && u.d == v.d))
      match runCtxOp op c x y iarg, runCtxOp op c0 x y iarg with
      | some mT, some m0 =>
        if !(sameOut c mT oT) then res := merge res ([s!"{id} MISMATCH traps model[T]= {showOut mT}"], 1, 0)
        if !(sameOut c0 m0 o0) then res := merge res ([s!"{id} MISMATCH traps model[0]= {showOut m0}"], 1, 0)
      | _, _ => if oracleOnlyOps.contains op then pure () else res := merge res ([s!"{id} NOMODEL {op}"], 0, 0)
      -- the property, on the implementation's two outcomes
      if singleRoundingOps.contains op then
        let expErr : ErrKind :=
          if o0.err != .none then o0.err
          else if (o0.fl &&& c.traps).any then .trap else .none
        if oT.err != expErr then
          res := merge res (propfail id "C03" s!"error class {showErr oT.err}, expected {showErr expErr} (flags&traps / system limit)")
        if (oT.err == .none || oT.err == .trap) && !(oT.d == o0.d && oT.fl == o0.fl) then
          res := merge res (propfail id "C03" "result or flags under traps differ from the trap-free run")
      else
        if oT.err == .none && !(o0.err == .none && oT.d == o0.d && oT.fl == o0.fl) then
          res := merge res (propfail id "C03" "nil error under traps but result/flags differ from the trap-free run")
        if o0.err == .none && (o0.fl &&& c.traps).any && oT.err == .none then
          res := merge res (propfail id "C03" "a trapped condition is raised but the error is nil")
        if o0.err != .none && oT.err == .none then
          res := merge res (propfail id "C03" "error without traps but none with traps")
      return res
    | _ => none
  | _ => none

def sentinelDec : Dec := { form := .finite, neg := true, exp := -40, coeff := 987654321 }

def parseSteps : Nat → List String → Option (List (String × Dec × Dec × Int) × List String)
  | 0, rest => some ([], rest)
  | n+1, op :: xs :: ys :: ia :: rest => do
    let x := (← parseDec xs).d
    let y ← if ys == "-" then some ({} : Dec) else (parseDec ys).map (·.d)
    let i ← ia.toInt?
    let (tl, r) ← parseSteps n rest
    pure ((op, x, y, i) :: tl, r)
  | _, _ => none

/-- `errdec ctx n (op x y iarg)^n => (d flags err)^n` : a sequence of ErrDecimal wrapper calls (C03) -/
def handleErrDec (id : String) (t : List String) : Option (List String × Nat × Nat) :=
  match t with
  | p :: emax :: emin :: traps :: mode :: ns :: rest => do
    let c ← parseCtx p emax emin traps mode
    let n ← ns.toNat?
    let (steps, rest) ← parseSteps n rest
    match rest with
    | "=>" :: outsS =>
      if outsS == ["PANIC"] || outsS == ["HANG"] then return propfail id "C04" "panic or hang"
      -- optional last token `direct=K`: index of the first step whose direct Context call returns an error
      let direct? : Option Int := match outsS.getLast? with
        | some l => if l.startsWith "direct=" then (l.drop 7).toString.toInt? else none
        | none => none
      let outsS := if direct?.isSome then outsS.dropLast else outsS
      let outs ← parseOuts outsS
      if outs.length != n then none
      let mut res : List String × Nat × Nat := ([], 0, 0)
      -- the abstract machine: sticky first error, accumulated flags, skip after error
      let mut e : ED := { c := c }
      let mut k := 0
      let mut prev : Option Out := none
      for ((op, x, y, i), o) in steps.zip outs do
        k := k + 1
        let wasFailed := e.failed
        let mo : Out := match runCtxOp op e.c x y i with | some m => m | none => { err := .other }
        let r := e.step sentinelDec (fun _ => mo)
        e := r.1
        let mErr := e.errOf
        let modelKnown := (runCtxOp op c x y i).isSome
        if modelKnown then
          -- the destination is comparable when the step was skipped (untouched) or delivered a result
          let dl := wasFailed || mo.err == .none || (mo.err == .trap && (mo.fl &&& c.traps).any)
          if !(mErr == o.err && e.fl == o.fl && (!dl || r.2 == o.d)) then
            res := merge res ([s!"{id} MISMATCH errdec step {k} model= {showDec r.2} {e.fl.toNat} {showErr mErr}"], 1, 0)
        -- the property on the implementation: after an error, later destinations are untouched
        match prev with
        | some pv =>
          if pv.err != .none then
            if !(o.d == sentinelDec && o.fl == pv.fl && o.err == pv.err) then
              res := merge res (propfail id "C03" s!"ErrDecimal step {k} ran after an error (destination touched or state changed)")
          else if (pv.fl &&& o.fl) != pv.fl then
            res := merge res (propfail id "C03" s!"ErrDecimal step {k} lost accumulated flags")
        | none => pure ()
        prev := some o
      -- ErrDecimal reports its first error exactly at the first step whose direct call fails
      match direct? with
      | some dk =>
        let edFirst : Int := match (outs.zipIdx.find? (fun p => p.1.err != .none)) with
          | some p => (p.2 : Int) | none => -1
        if edFirst != dk then
          res := merge res (propfail id "C03" s!"ErrDecimal.Err() first reports an error at step {edFirst} (-1 = never), the same calls made directly fail first at step {dk}")
      | none => pure ()
      return res
    | _ => none
  | _ => none

namespace BigDrv
open Apd.BigInt

/-- value/sign/bitlen/isint64/isuint64/cmp0 of a model receiver, in the harness's format -/
def desc (r : Rep) : String :=
  let b (x : Bool) := if x then "1" else "0"
  s!"{r.abs}/{Sign r}/{BitLen r}/{b (IsInt64 r)}/{b (IsUint64 r)}/{Cmp r zero}"

def setAt (l : List Rep) (i : Nat) (v : Rep) : List Rep := l.set i v

/-- drop the trailing "/<canon>" field of an implementation descriptor -/
def stripCanon (s : String) : String × String :=
  match s.splitOn "/" |>.reverse with
  | c :: rest => ("/".intercalate rest.reverse, c)
  | [] => (s, "")

end BigDrv

/-- `bigseq v0 v1 v2 n (m zi xi yi)^n => (res ref mut)^n` : method sequences on live BigInt receivers (C16) -/
def handleBigSeq (id : String) (t : List String) : Option (List String × Nat × Nat) :=
  match t with
  | v0 :: v1 :: v2 :: ns :: rest => do
    let n ← ns.toNat?
    let i0 ← v0.toInt?; let i1 ← v1.toInt?; let i2 ← v2.toInt?
    let mk (v : Int) : Apd.BigInt.Rep := Apd.BigInt.updateInner Apd.BigInt.zero v
    let stepsToks := rest.take (4 * n)
    let after := rest.drop (4 * n)
    match after with
    | "=>" :: outs =>
      if outs == ["PANIC"] || outs == ["HANG"] then return propfail id "C04" "BigInt panic or hang"
      if outs.length != 3 * n then none
      let mut pool : List Apd.BigInt.Rep := [mk i0, mk i1, mk i2]
      let mut res : List String × Nat × Nat := ([], 0, 0)
      for k in [0:n] do
        let m := stepsToks[4 * k]!
        let zi ← (stepsToks[4 * k + 1]!).toNat?
        let xi ← (stepsToks[4 * k + 2]!).toNat?
        let yi ← (stepsToks[4 * k + 3]!).toNat?
        let impl := outs[3 * k]!
        let ref := outs[3 * k + 1]!
        let mut_ := outs[3 * k + 2]!
        let z ← pool[zi]?; let x ← pool[xi]?; let y ← pool[yi]?
        if mut_ != "ok" then res := merge res (propfail id "C16" s!"step {k} {m}: an operand that is not the receiver changed ({mut_})")
        if impl == "skip" then continue
        -- the property: same value, sign, bit length, predicates as math/big; zero never negative
        let parts := impl.splitOn "|"
        let stripped := parts.map (fun p => (BigDrv.stripCanon p))
        let isMut := ["Add", "Sub", "Mul", "Quo", "Rem", "QuoRem", "Abs", "Neg", "Set", "SetInt64", "SetUint64"].contains m
        let implCmp := if isMut then "|".intercalate (stripped.map (·.1)) else impl
        if implCmp != ref then res := merge res (propfail id "C16" s!"step {k} {m}: apd.BigInt gives {implCmp}, math/big gives {ref}")
        if isMut && stripped.any (fun p => p.2 == "negzero") then
          res := merge res (propfail id "C16" s!"step {k} {m}: negative zero representation")
        -- the model
        let ra := isMut && (stripped.head?.map (·.2) == some "h")
        if m == "QuoRem" then
          match Apd.BigInt.QuoRem z x y Apd.BigInt.zero ra ra with
          | some (q, r) =>
            let ms := BigDrv.desc q ++ "|" ++ BigDrv.desc r
            if ms != implCmp then res := merge res ([s!"{id} MISMATCH bigint step {k} {m} model= {ms}"], 1, 0)
            pool := BigDrv.setAt pool zi q
          | none => res := merge res ([s!"{id} MISMATCH bigint step {k} {m} model= none"], 1, 0)
        else
          -- the harness always asks for bit 0 (the fast path); the model takes the index from its argument
          let x := if m == "Bit" then Apd.BigInt.zero else x
          match Apd.BigInt.stepWith ra z m x y with
          | some (z', s) =>
            let ms := if isMut then BigDrv.desc z' else
              (if s == "true" then "1" else if s == "false" then "0" else s)
            if ms != implCmp then res := merge res ([s!"{id} MISMATCH bigint step {k} {m} model= {ms}"], 1, 0)
            if isMut then pool := BigDrv.setAt pool zi z'
          | none => res := merge res ([s!"{id} MISMATCH bigint step {k} {m} model= none"], 1, 0)
      return res
    | _ => none
  | _ => none

/-- `bigwrap m x y k => apd mathbig` : a wrapper method compared with math/big directly (C16) -/
def handleBigWrap (id : String) (t : List String) : Option (List String × Nat × Nat) :=
  match t with
  | [mp, _, _, _, "=>", a, b] =>
    -- `Mod@z=y`: method and alias pattern
    let m := (mp.splitOn "@").headD mp
    if a == "skip" then some ([], 0, 0)
    else if a == "PANIC" then some (propfail id "C04" s!"BigInt.{m} panic")
    else
      -- a = value descriptors (each ending in /canon...), b = math/big's
      let parts := a.splitOn "|"
      let lastCanon := (BigDrv.stripCanon (parts.getLast?.getD "")).2
      let body := if ["Text", "Bytes", "TrailingZeroBits"].contains m then a
                  else "|".intercalate (parts.dropLast ++ [(BigDrv.stripCanon (parts.getLast?.getD "")).1])
      let r1 := if body != b then propfail id "C16" s!"{mp}: apd.BigInt gives {body}, math/big gives {b}" else ([], 0, 0)
      let r2 := if (lastCanon.splitOn "negzero").length > 1 then propfail id "C16" s!"{m}: negative zero representation" else ([], 0, 0)
      some (merge r1 r2)
  | [m, _, _, _, "=>", a] => if a == "PANIC" || a == "HANG" then some (propfail id "C04" s!"BigInt.{m} {a}") else none
  | _ => none

/-- split a token list at ";" tokens -/
def splitSemi (l : List String) : List (List String) :=
  let r := l.foldl (fun (acc : List (List String) × List String) t =>
    if t == ";" then (acc.1 ++ [acc.2], []) else (acc.1, acc.2 ++ [t])) ([], [])
  r.1 ++ [r.2]

/-- `alias op ctx x y iarg => fresh D F E A ; fresh-nan … ; d=x … ; imm ok ; snap ok` (C05, C06) -/
def handleAlias (id : String) (t : List String) : Option (List String × Nat × Nat) :=
  match t with
  | op :: p :: emax :: emin :: traps :: mode :: xs :: ys :: ia :: "=>" :: rest => do
    let c ← parseCtx p emax emin traps mode
    let x := (← parseDec xs).d
    let y ← if ys == "-" then some ({} : Dec) else (parseDec ys).map (·.d)
    let iarg ← ia.toInt?
    if rest == ["PANIC"] || rest == ["HANG"] then return propfail id "C04" "panic or hang"
    let groups := splitSemi rest
    let mut res : List String × Nat × Nat := ([], 0, 0)
    let mut base : Option Out := none
    for g in groups do
      match g with
      | [name, ds, fls, errs, auxs] =>
        let d ← parseDec ds
        let fl ← fls.toNat?
        let e ← parseErr errs
        let aux ← auxs.toInt?
        let o : Out := { d := d.d, fl := Cond.ofNat fl, err := e, aux := aux }
        let dlv (o : Out) : Bool := o.err == .none || (o.err == .trap && (o.fl &&& c.traps).any)
        let same (u v : Out) : Bool := u.err == v.err && (!(dlv u) || (u.fl == v.fl && u.d == v.d && u.aux == v.aux))
        -- the store-level program of the operation, run under the same aliasing pattern
        -- "~heap" patterns: the same aliasing pattern, operands with heap-backed coefficients
        let heapPat := name.endsWith "~heap"
        let name := if heapPat then (name.dropEnd 5).toString else name
        let cells : Option (Nat × Nat × Nat × Dec) := match name with
          | "fresh" => some (0, 1, 2, {})
          | "fresh-nan" => some (0, 1, 2, { form := .nan, neg := true })
          | "fresh-big" => some (0, 1, 2, { form := .infinite, neg := true, exp := 77, coeff := 123456789012345678901234567890123456789012345678901234567890 })
          | "d=x" => some (1, 1, 2, {})
          | "d=y" => some (2, 1, 2, {})
          | "x=y" => some (0, 1, 1, {})
          | "d=x=y" => some (1, 1, 1, {})
          | _ => none
        -- a fractional power of an operand at the edge of the exponent range (the internal-error exits of Pow) costs
        -- the models and the interval oracle seconds per outcome: those cases are here for the comparison of the
        -- real outcomes across aliasing patterns and destination pre-states only
        let heavy : Bool := op == "pow" && y.exp < 0 && (x.exp > 20000 || x.exp < -20000)
        match (if heavy then none else cells) with
        | some (dc, xc, yc, pre) =>
          let h : Apd.Imp.Heap := fun cell => if cell == 0 then pre else if cell == 1 then x else if cell == 2 then y else {}
          match Apd.Imp.execCtxOp op c dc xc yc iarg h with
          | some ((mfl, merr, maux), h') =>
            let mo : Out := { d := h' dc, fl := mfl, err := merr, aux := maux }
            if !(same mo o) then res := merge res ([s!"{id} MISMATCH alias-imp[{name}] model= {showOut mo}"], 1, 0)
          | none =>
            -- the composite functions (Imp/TransOps.lean; C05_sqrt … C05_pow): Sqrt, Cbrt and the integer path of Pow
            -- consult no decision tape
            match Apd.Imp.execTransOp op c dc xc yc [] h with
            | some (some ((mfl, merr, maux), _), h') =>
              let mo : Out := { d := h' dc, fl := mfl, err := merr, aux := maux }
              if !(same mo o) then res := merge res ([s!"{id} MISMATCH alias-imp[{name}] model= {showOut mo}"], 1, 0)
            | _ => pure ()
        | none => pure ()
        let ol := if heavy then [] else ctxOracles id op c x y iarg o fl d.coeffNeg
        if !ol.isEmpty then res := merge res (ol.map (fun l => l ++ s!" [pattern {name}]"), 0, ol.length)
        if name == "fresh" && !heapPat then
          base := some o
          match (if heavy then none else runCtxOp op c x y iarg) with
          | some m => if !(same m o) then res := merge res ([s!"{id} MISMATCH alias model= {showOut m}"], 1, 0)
          | none => if heavy || oracleOnlyOps.contains op then pure () else res := merge res ([s!"{id} NOMODEL {op}"], 0, 0)
        else
          match base with
          | some b =>
            -- the returned Condition is part of the outcome even when the call fails; only Mul and Quo are
            -- exempt on a failed call (their flags then depend on a stale exponent: DESIGN.md §5, noted)
            let sameFl : Bool := op == "mul" || op == "quo" || dlv b || b.fl == o.fl
            if !(same b o) || !sameFl then
              if name == "fresh" then
                res := merge res (propfail id "C06" s!"outcome depends on how the operands' coefficients are stored (heap-backed after an earlier large value)")
              else if name == "fresh-nan" || name == "fresh-big" then
                res := merge res (propfail id "C06" s!"outcome depends on the previous contents of the destination ({name})")
              else
                res := merge res (propfail id "C05" s!"outcome under aliasing pattern {name}{if heapPat then " (heap-backed operands)" else ""} differs from the non-aliased call")
          | none => pure ()
      | ["imm", v] => if v != "ok" then res := merge res (propfail id "C06" s!"an input was modified: {v}")
      | ["snap", v] => if v != "ok" then res := merge res (propfail id "C06" s!"shared package state changed: {v}")
      | _ => res := merge res ([s!"BADLINE alias group"], 0, 0)
    return res
  | _ => none

/-- `methalias x => neg A B ; abs A B ; reduce A/n B/n ; set A B ; modf i0,f0 i1,f1 i2,f2` (C05) -/
def handleMethAlias (id : String) (t : List String) : Option (List String × Nat × Nat) :=
  match t with
  | xs :: "=>" :: rest => do
    let x := (← parseDec xs).d
    if rest == ["PANIC"] || rest == ["HANG"] then return propfail id "C04" "panic or hang"
    let mut res : List String × Nat × Nat := ([], 0, 0)
    for g in splitSemi rest do
      match g with
      | [name, a, b] =>
        if name == "modf" then
          match a.splitOn ",", b.splitOn "," with
          | [i0, f0], [i1, f1] =>
            if !(i0 == i1 && f0 == f1) then res := merge res (propfail id "C05" "Modf with integ = receiver differs from fresh outputs")
            let m := modf x
            if !(showDec m.1 == i0 && showDec m.2 == f0) then res := merge res ([s!"{id} MISMATCH methalias modf model= {showDec m.1},{showDec m.2}"], 1, 0)
          | _, _ => pure ()
        else
          if a != b then
            res := merge res (propfail id "C05" s!"Decimal.{name} in place differs from a fresh destination")
            -- the two calls differ only in what the destination held before (the operand itself / a junk value)
            res := merge res (propfail id "C06" s!"Decimal.{name}: the result depends on the previous contents of the destination")
          let m : Option String := match name with
            | "neg" => some (showDec x.negD)
            | "abs" => some (showDec x.absD)
            | "set" => some (showDec x)
            | "reduce" => let r := reduceD x; some (showDec r.1 ++ "/" ++ toString r.2)
            | _ => none
          match m with
          | some ms => if ms != a then res := merge res ([s!"{id} MISMATCH methalias {name} model= {ms}"], 1, 0)
          | none => pure ()
      | [name, a, b, c3] =>
        if name == "modf" then
          match a.splitOn ",", b.splitOn ",", c3.splitOn "," with
          | [i0, f0], [i1, f1], [i2, f2] =>
            if !(i0 == i1 && f0 == f1) then res := merge res (propfail id "C05" "Modf with integ = receiver differs from fresh outputs")
            if !(i0 == i2 && f0 == f2) then res := merge res (propfail id "C05" "Modf with frac = receiver differs from fresh outputs")
            let m := modf x
            if !(showDec m.1 == i0 && showDec m.2 == f0) then res := merge res ([s!"{id} MISMATCH methalias modf model= {showDec m.1},{showDec m.2}"], 1, 0)
          | _, _, _ => pure ()
      | _ => pure ()
    return res
  | _ => none

/-- well-formedness of a successfully parsed decimal (C04) -/
def parsedWF (pd : PDec) : Bool :=
  !pd.coeffNeg &&
  (pd.d.form != .finite ||
    (decide (-100000 ≤ pd.d.exp ∧ pd.d.exp ≤ 100000) &&
     decide (-100000 ≤ pd.d.exp + (ndigits pd.d.coeff : Int) - 1 ∧ pd.d.exp + (ndigits pd.d.coeff : Int) - 1 ≤ 100000)))

def hexVal (c : Char) : Option Nat :=
  if '0' ≤ c && c ≤ '9' then some (c.toNat - '0'.toNat)
  else if 'a' ≤ c && c ≤ 'f' then some (c.toNat - 'a'.toNat + 10) else none

/-- decode a hex string into bytes -/
def unhex : List Char → Option (List UInt8)
  | [] => some []
  | a :: b :: rest => do
    let x ← hexVal a; let y ← hexVal b
    let tl ← unhex rest
    pure (UInt8.ofNat (16 * x + y) :: tl)
  | _ => none

def bytesToString (bs : List UInt8) : String := String.ofList (bs.map (fun b => Char.ofNat b.toNat))

def decodeHex (h : String) : Option String :=
  if h == "-" then some "" else (unhex h.toList).map bytesToString

/-- `parse ctx hex => ok d flags err base agree | err kind base agree` (C04, C13, C14) -/
def handleParse (id : String) (t : List String) : Option (List String × Nat × Nat) :=
  match t with
  | p :: emax :: emin :: traps :: mode :: hx :: "=>" :: rest => do
    let c ← parseCtx p emax emin traps mode
    let str ← decodeHex hx
    let ascii := str.toList.all (fun ch => ch.toNat < 128)
    let model := Apd.Text.ctxSetString c str
    -- the specification: numeric-string grammar, exponent and adjusted exponent within the package limits
    let specOK : Bool := decide (Apd.Spec.GdaNumeric str ∧ Apd.Spec.ExpInt32 str ∧ Apd.Spec.WithinLimits str)
    let mut res : List String × Nat × Nat := ([], 0, 0)
    let chkBase (bk : String) (r : List String × Nat × Nat) : List String × Nat × Nat :=
      if (bk == "ok") != specOK then
        merge r (propfail id "C14" s!"SetString (BaseContext) {if bk == "ok" then "accepts" else "rejects"} a string that is {if specOK then "" else "not "}a numeric string within the limits")
      else r
    match rest with
    | ["ok", ds, fls, errs, bk, agree] =>
      let pd ← parseDec ds
      let fl ← fls.toNat?
      let e ← parseErr errs
      if !(parsedWF pd) then res := merge res (propfail id "C04" "a successfully parsed Decimal is ill-formed (negative coefficient or exponent outside the limits)")
      if agree != "same" then
        res := merge res (propfail id "C14" "SetString, UnmarshalText and Scan disagree on acceptance or on the parsed Decimal")
        res := merge res (propfail id "C13" "UnmarshalText / Scan (fresh or reused destination) do not yield the Decimal that SetString yields for the same text")
      res := chkBase bk res
      if !(Apd.Spec.GdaNumeric str) then res := merge res (propfail id "C14" "a string outside the numeric-string grammar was accepted")
      match model with
      | some m =>
        if !(m.err == e && m.fl == Cond.ofNat fl && m.d == pd.d) then
          res := merge res ([s!"{id} MISMATCH parse model= {showOut m}"], 1, 0)
      | none => res := merge res ([s!"{id} MISMATCH parse model= reject"], 1, 0)
      -- C01/C02: context-aware parsing returns the denoted value rounded once (C01_value_parse_partial: whenever
      -- the error is the one the flags imply and no system limit was hit), in C01's domain Precision ≤ MaxExponent
      let l := str.toList
      let flc := Cond.ofNat fl
      if c.prec > 0 && decide ((c.prec : Int) ≤ c.emax) && Apd.Spec.numericString l && !(Apd.Spec.isSpecial l)
          && decide (Apd.Spec.ExpInt32 str) && e == goError c.traps flc && !flc.sysOverflow && !flc.sysUnderflow then
        let s := specRound c { neg := l.head? == some '-', num := Apd.Spec.coeffOf l, den := 1, e10 := Apd.Spec.denotedExp l }
        if !(s.matches pd.d) then
          res := merge res (propfail id "C01" s!"context-aware parsing: spec= inf={s.inf} neg={s.neg} m={s.m} q={s.q}")
        if flc.inexact != s.inexact || flc.subnormal != s.subnormal || flc.underflow != s.underflow || flc.overflow != s.overflow then
          res := merge res (propfail id "C02" s!"context-aware parsing: flags differ from the specification inexact={s.inexact} subnormal={s.subnormal} overflow={s.overflow}")
      -- the sign of the parsed value is the written one, whatever the destination held before (C13 round trip,
      -- C06 independence of the destination's previous contents)
      if Apd.Spec.numericString l && pd.d.neg != (l.head? == some '-') then
        res := merge res (propfail id "C13" "the parsed value does not carry the written sign")
        res := merge res (propfail id "C06" "the sign of the parsed value is not the written one: it depends on the destination's previous contents")
      -- a special value (Infinity, NaN, sNaN with an optional payload) written into a used destination: the fields
      -- that carry no value for that form are what the string denotes (exponent 0, coefficient 0),
      -- not leftovers of the destination's previous contents (C06; observable through CmpTotal and NaN propagation)
      if Apd.Spec.numericString l && Apd.Spec.isSpecial l && pd.d.form != .finite then
        -- (apd checks the digits of a NaN payload and does not store them: what the string denotes is what the model
        -- of setString - proved against the grammar, C14_parse_accepts_iff / C13_setString_roundtrip - returns)
        match model with
        | some m =>
          if pd.d.exp != m.d.exp || pd.d.coeff != m.d.coeff then
            res := merge res (propfail id "C06" "a special value parsed into a used destination keeps the coefficient or exponent the destination held before")
        | none => pure ()
      -- C07: the context-rounded result fits
      if (e == .none || e == .trap) && c.prec > 0 && !(fits c pd.d) then
        res := merge res (propfail id "C07" "parsed and rounded result does not fit the context")
      return res
    | ["err", k, bk, agree] =>
      if agree != "same" then res := merge res (propfail id "C14" "SetString, UnmarshalText and Scan disagree on acceptance")
      res := chkBase bk res
      let mk : String := match model with
        | none => "other"
        | some m => showErr m.err
      if ascii && mk != k then res := merge res ([s!"{id} MISMATCH parse model= {mk}"], 1, 0)
      return res
    | ["err-with-partial", _, _, _] => return propfail id "C14" "an error was returned together with a partial value"
    | [w] => if w == "PANIC" || w == "HANG" then return propfail id "C04" s!"parser {w}" else none
    | _ => none
  | _ => none

/-- `text d verb flags width => (hex reparsed)×5 fmt same compose` (C13, C14) -/
def handleText (id : String) (t : List String) : Option (List String × Nat × Nat) :=
  match t with
  | [ds, verb, flh, ws, "=>", hG, rG, hg, rg, hE, rE, he, re, hf, rf, hfmt, same, comp, hbase] => do
    let d := (← parseDec ds).d
    let w ← ws.toInt?
    let flags ← decodeHex flh
    let v := verb.toList.headD 'G'
    let mut res : List String × Nat × Nat := ([], 0, 0)
    -- model of Text(verb) for the five verbs
    for (vb, h) in [('G', hG), ('g', hg), ('E', hE), ('e', he), ('f', hf)] do
      let txt ← decodeHex h
      let m := Apd.Text.append d vb
      if m != txt then res := merge res ([s!"{id} MISMATCH text {vb} model= {m}"], 1, 0)
    -- Format through fmt
    let fm := Apd.Text.format d v (flags.contains '+') (flags.contains '-') (flags.contains ' ') (flags.contains '0')
                (if w < 0 then none else some w.toNat)
    let fimpl ← decodeHex hfmt
    if fm != fimpl then res := merge res ([s!"{id} MISMATCH format model= {fm}"], 1, 0)
    -- C14, the padding rules of fmt (C14_format_width / _minus / _left, and zero padding after the sign for finite
    -- values only) evaluated on the implementation's own unpadded output for the same verb and sign flags
    let base := (← decodeHex hbase).toList
    let padN : Nat := if w < 0 then 0 else w.toNat - base.length
    let minus := flags.contains '-'
    let zero := flags.contains '0'
    let expected : List Char :=
      if minus then base ++ List.replicate padN ' '
      else if zero && d.form == .finite then
        match base with
        | c :: t => if c == '-' || c == '+' || c == ' ' then c :: (List.replicate padN '0' ++ t) else List.replicate padN '0' ++ base
        | [] => List.replicate padN '0'
      else List.replicate padN ' ' ++ base
    if "eEfFgGvs".contains v && fimpl.toList != expected then
      res := merge res (propfail id "C14" s!"Format does not pad as fmt prescribes (spaces for NaN/Infinity, zeros after the sign for finite values, '-' wins): expected {String.ofList expected}")
    -- C14: String() is the to-scientific-string (zeros with exponent in [-2000,-7] are written plain)
    let sG ← decodeHex hG
    let zeroPlain := d.form == .finite && d.coeff == 0 && d.exp ≥ -2000 && d.exp ≤ -7
    if !zeroPlain && sG != Apd.Spec.toSci d then
      res := merge res (propfail id "C14" s!"String() is not the to-scientific-string {Apd.Spec.toSci d}")
    if zeroPlain then
      let want := (if d.neg then "-" else "") ++ "0." ++ String.ofList (List.replicate (-d.exp).toNat '0')
      if sG != want then res := merge res (propfail id "C14" "zero with exponent in [-2000,-1] is not written in plain notation")
    if same != "same" then res := merge res (propfail id "C13" "String, MarshalText, Value and Text('G') differ")
    -- C13: re-parsing reproduces the decimal field-wise (specials: form and sign)
    let canon (x : Dec) : Dec := if x.form == .finite then x else { form := x.form, neg := x.neg }
    for (vb, r) in [("G", rG), ("g", rg), ("E", rE), ("e", re)] do
      match parseDec r with
      | some pd => if canon pd.d != canon d then res := merge res (propfail id "C13" s!"Text('{vb}') does not round-trip: {r}")
      | none => res := merge res (propfail id "C13" s!"Text('{vb}') is not re-parsed: {r}")
    match parseDec rf with
    | some pd =>
      if !(canon pd.d == canon d || (d.form == .finite && pd.d.form == .finite && pd.d.neg == d.neg && specCmp { pd.d with neg := false } { d with neg := false } == 0)) then
        res := merge res (propfail id "C13" s!"Text('f') does not round-trip the value: {rf}")
    | none =>
      -- plain notation of a huge exponent can exceed what is sensible to print; still must re-parse
      res := merge res (propfail id "C13" s!"Text('f') is not re-parsed: {rf}")
    -- Compose(Decompose(d)) (signalling NaN becomes quiet)
    let want : Dec := match d.form with
      | .finite => d
      | .infinite => { form := .infinite, neg := d.neg }
      | _ => { form := .nan, neg := d.neg }
    match parseDec comp with
    | some pd =>
      let got := if pd.d.form == .finite then pd.d else { form := pd.d.form, neg := pd.d.neg }
      if got != want then res := merge res (propfail id "C13" s!"Compose(Decompose(d)) = {comp}")
    | none => res := merge res (propfail id "C13" "Compose(Decompose(d)) failed")
    return res
  | [_, _, _, _, "=>", w] => if w == "PANIC" || w == "HANG" then some (propfail id "C04" s!"formatting {w}") else none
  | _ => none

/-- `float bits => d roundtrip shortest` (C13) -/
def handleFloat (id : String) (t : List String) : Option (List String × Nat × Nat) :=
  match t with
  | [_, "=>", _d, rt, short] =>
    let r1 := if rt != "roundtrip" then propfail id "C13" "SetFloat64 followed by Float64 does not return the original float64" else ([], 0, 0)
    let r2 := if short != "shortest" then propfail id "C13" "SetFloat64 does not store the shortest round-tripping coefficient" else ([], 0, 0)
    some (merge r1 r2)
  | [_, "=>", w] =>
    if w == "PANIC" || w == "HANG" then some (propfail id "C04" s!"float conversion {w}")
    else some (propfail id "C13" s!"float conversion failed: {w}")
  | [_, "=>", _, w] => some (propfail id "C13" s!"float conversion failed: {w}")
  | _ => none

/-- `decomp d cap pre pad badform => form neg hex exp r1 r2 r3 operand` : Decompose into a buffer of capacity `cap`,
Compose into a destination holding `pre`; again from the coefficient padded with `pad` zero bytes; again with an
unknown form byte (C13; C06 for the operand and the rejected destination) -/
def handleDecomp (id : String) (t : List String) : Option (List String × Nat × Nat) :=
  match t with
  | [ds, caps, pres, pads, bads, "=>", fs, ns, hxs, es, r1, r2, r3, op] => do
    let d := (← parseDec ds).d
    let pre := (← parseDec pres).d
    let cap ← caps.toNat?
    let pad ← pads.toNat?
    let bad ← bads.toNat?
    let f ← fs.toNat?
    let e ← es.toInt?
    let co ← if hxs == "-" then some [] else unhex hxs.toList
    let parts : Apd.Decomp.Parts := { form := UInt8.ofNat f, neg := ns == "1", coeff := co, exp := e }
    let mut res : List String × Nat × Nat := ([], 0, 0)
    -- correspondence: Decompose, and the three Compose calls on the parts the implementation returned
    if Apd.Decomp.decomposeBuf d cap != some parts then
      res := merge res ([s!"{id} MISMATCH decomp model= {repr (Apd.Decomp.decomposeBuf d cap)}"], 1, 0)
    let showC (o : Option Dec) : String := match o with | some y => showDec y | none => "compose-err"
    let m1 := Apd.Decomp.compose pre parts
    if showC m1 != r1 then res := merge res ([s!"{id} MISMATCH compose model= {showC m1}"], 1, 0)
    let m2 := Apd.Decomp.compose pre { parts with coeff := List.replicate pad 0 ++ co }
    if showC m2 != r2 then res := merge res ([s!"{id} MISMATCH compose(padded) model= {showC m2}"], 1, 0)
    -- the property, on the implementation's outputs
    let want : Form := if d.form == .nanSignaling then .nan else d.form
    match parseDec r1 with
    | some y =>
      let y := y.d
      if !(y.form == want && y.neg == d.neg && (d.form != .finite || (y.coeff == d.coeff && y.exp == d.exp))) then
        res := merge res (propfail id "C13" "Compose(Decompose(d)) does not reproduce d")
    | none => res := merge res (propfail id "C13" "Compose rejects what Decompose returned")
    if r2 != r1 then res := merge res (propfail id "C13" "Compose of a zero-padded coefficient differs")
    if r3 != "rejected:" ++ showDec pre then
      res := merge res (propfail id "C13" "Compose with an unknown form byte is not rejected with the destination untouched")
    if d.form == .finite && (co.head? == some 0 || (d.coeff == 0 && !co.isEmpty)) then
      res := merge res (propfail id "C13" "Decompose returns a coefficient with a leading zero byte")
    if op != "operand-same" then res := merge res (propfail id "C06" "Decompose modified its operand")
    return res
  | _ :: _ :: _ :: _ :: _ :: "=>" :: [w] =>
    if w == "PANIC" || w == "HANG" then some (propfail id "C04" s!"Decompose/Compose {w}") else none
  | _ => none

def handleLine (line : String) : Option (List String × Nat × Nat) :=
  match line.splitOn " " with
  | id :: "ctxop" :: rest => handleCtxOp id rest
  | id :: "numdigits" :: rest => handleNumDigits id rest
  | id :: "order3" :: rest => handleOrder3 id rest
  | id :: "int64" :: rest => handleInt64 id rest
  | id :: "modf" :: rest => handleModf id rest
  | id :: "reduced" :: rest => handleReduced id rest
  | id :: "modes" :: rest => handleModes id rest
  | id :: "rel" :: rest => handleRel id rest
  | id :: "traps" :: rest => handleTraps id rest
  | id :: "errdec" :: rest => handleErrDec id rest
  | id :: "bigseq" :: rest => handleBigSeq id rest
  | id :: "alias" :: rest => handleAlias id rest
  | id :: "parse" :: rest => handleParse id rest
  | id :: "f64" :: rest =>
    (match rest.getLast? with
     | some "same" => some ([], 0, 0)
     | some "noref" => some ([], 0, 0)
     | some "PANIC" | some "HANG" => some (propfail id "C04" "Float64 panic or hang")
     | some w => some (propfail id "C17" ("Float64 is not the float64 nearest to the decimal value: " ++ w))
     | none => none)
  | [id, "consts", name, "=>", ds] =>
    -- the pre-rounded tables of ln 10 and 1/ln 10 as the package holds them vs the model's derivation
    (match parseDec ds with
     | none => none
     | some d =>
       let (isLn, rest) := if name.startsWith "ln10." then (true, (name.drop 5).toString) else (false, (name.drop 8).toString)
       let (co, ex, len) := if isLn then (ln10Coeff, ln10Exp, ln10StrLen) else (invLn10Coeff, invLn10Exp, invLn10StrLen)
       let model? : Option Dec :=
         if rest == "unrounded" then some { coeff := co, exp := ex }
         else if rest.startsWith "vals[" then
           match ((rest.drop 5).toString.dropEnd 1).toString.toNat? with
           | some i => if i < constVals len then some (constGet co ex len (2 ^ i)) else none
           | none => none
         else none
       match model? with
       | some m => if m == d.d then some ([], 0, 0) else some ([s!"{id} MISMATCH consts model= {m.coeff}E{m.exp}"], 1, 0)
       | none => some ([s!"{id} MISMATCH consts model= no such table entry"], 1, 0))
  | [id, "snapshot", a, b, "=>", st] =>
    -- the package's shared tables and constants compared with their state at the start of the stream
    if st == "same" then some ([], 0, 0)
    else some (propfail id "C06" s!"shared package state (lookup tables / constants) changed while the cases {a}..{b} of this stream ran")
  | id :: "conc" :: rest =>
    (match rest.getLast? with
     | some "same" => some ([], 0, 0)
     | some "differs" => some (propfail id "C18" "a call run concurrently over shared context/operands returned a different outcome than when run alone")
     | some "RACE" => some (propfail id "C18" "the Go race detector reported a data race")
     | _ => none)
  | [id, "sci", ds, "=>", hS, hE, he, hg] =>
    -- String()/Text of a decimal whose exponent lies beyond the package limits (scientific notation only)
    (match parseDec ds, decodeHex hS, decodeHex hE, decodeHex he, decodeHex hg with
     | some pd, some sS, some sE, some se, some sg =>
       let d := pd.d
       let r1 := [('G', sS), ('E', sE), ('e', se), ('g', sg)].foldl (fun (res : List String × Nat × Nat) (p : Char × String) =>
         let m := Apd.Text.append d p.1
         if m != p.2 then merge res ([s!"{id} MISMATCH text {p.1} model= {m}"], 1, 0) else res) ([], 0, 0)
       let r2 := if sS != Apd.Spec.toSci d then
         propfail id "C14" s!"String() is not the to-scientific-string {Apd.Spec.toSci d}" else ([], 0, 0)
       some (merge r1 r2)
     | _, _, _, _, _ => none)
  | id :: "text" :: rest => handleText id rest
  | id :: "float" :: rest => handleFloat id rest
  | id :: "decomp" :: rest => handleDecomp id rest
  | id :: "api" :: rest =>
    (match rest.getLast? with
     | some "ok" => some ([], 0, 0)
     | some "PANIC" => some (propfail id "C04" ("panic in " ++ (rest.headD "?")))
     | some "HANG" => some (propfail id "C04" ("no return from " ++ (rest.headD "?")))
     | _ => none)
  | id :: "methalias" :: rest => handleMethAlias id rest
  | id :: "history" :: rest =>
    (match rest.getLast? with
     | some "same" => some ([], 0, 0)
     | some "differs" => some (propfail id "C06" "a call repeated later in the process returned a different outcome")
     | some "PANIC" | some "HANG" => some (propfail id "C04" "panic or hang")
     | _ => none)
  | id :: "bigwrap" :: rest => handleBigWrap id rest
  | _ => none

partial def loop (h : IO.FS.Stream) (out : IO.FS.Stream) (st : Stats) : IO Stats := do
  let line ← h.getLine
  if line.isEmpty then return st
  let line := line.trimAsciiEnd.toString
  if line.isEmpty || line.startsWith "#" then loop h out st
  else
    match handleLine line with
    | none =>
      out.putStrLn s!"BADLINE {line.take 200}"
      loop h out { st with lines := st.lines + 1, bad := st.bad + 1 }
    | some (msgs, mm, pf) =>
      for m in msgs do out.putStrLn m
      loop h out { st with lines := st.lines + 1, mismatch := st.mismatch + mm, propfail := st.propfail + pf }

def main : IO UInt32 := do
  let stdin ← IO.getStdin
  let stdout ← IO.getStdout
  let st ← loop stdin stdout {}
  stdout.putStrLn s!"SUMMARY lines={st.lines} bad={st.bad} mismatch={st.mismatch} propfail={st.propfail}"
  return 0
