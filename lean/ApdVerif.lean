import ApdVerif.Model.Basic
import ApdVerif.Model.Round
import ApdVerif.Model.Arith
import ApdVerif.Oracle.Round
import ApdVerif.Driver.Proto
