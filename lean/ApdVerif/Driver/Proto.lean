import ApdVerif.Model.Basic
/-!
# Line protocol between the Go harness and the model driver (core only)

A decimal is `form:neg:coeff:exp` with `form ∈ {f,i,s,n}`, `neg ∈ {0,1}`.
A context is five tokens `prec emax emin traps mode`.
-/
namespace Apd.Proto
open Apd

def parseForm : String → Option Form
  | "f" => some .finite | "i" => some .infinite | "s" => some .nanSignaling | "n" => some .nan
  | _ => none

def showForm : Form → String
  | .finite => "f" | .infinite => "i" | .nanSignaling => "s" | .nan => "n"

def parseMode : String → Mode
  | "down" => .down | "half_up" => .halfUp | "half_even" => .halfEven | "ceiling" => .ceiling
  | "floor" => .floor | "half_down" => .halfDown | "up" => .up | "05up" => .r05up
  | _ => .halfUp   -- "" (printed as "-") and unknown strings: ShouldAddOne's default branch

/-- a parsed decimal keeps the *signed* coefficient so that an ill-formed (negative) one is visible -/
structure PDec where
  d : Dec
  coeffNeg : Bool := false
deriving Repr, Inhabited

def parseDec (s : String) : Option PDec :=
  match s.splitOn ":" with
  | [f, n, c, e] => do
    let form ← parseForm f
    let neg := n == "1"
    let ci ← c.toInt?
    let ei ← e.toInt?
    pure { d := { form := form, neg := neg, exp := ei, coeff := ci.natAbs }, coeffNeg := decide (ci < 0) }
  | _ => none

def showDec (d : Dec) : String :=
  showForm d.form ++ ":" ++ (if d.neg then "1" else "0") ++ ":" ++ toString d.coeff ++ ":" ++ toString d.exp

def parseErr : String → Option ErrKind
  | "none" => some .none | "sys" => some .sys | "trap" => some .trap
  | "zeroprec" => some .zeroPrec | "other" => some .other | _ => none

def showErr : ErrKind → String
  | .none => "none" | .sys => "sys" | .trap => "trap" | .zeroPrec => "zeroprec" | .other => "other"

def parseCtx (p emax emin traps mode : String) : Option Ctx := do
  let p ← p.toNat?
  let emax ← emax.toInt?
  let emin ← emin.toInt?
  let t ← traps.toNat?
  pure { prec := p, emax := emax, emin := emin, traps := Cond.ofNat t, mode := parseMode mode }

end Apd.Proto
