import ApdVerif.Imp.TransOps
import ApdVerif.Model.Conv
import ApdVerif.Model.Text
/-!
# Store-level programs of the read-only `Decimal` methods (core Lean only, executable)

Transcribed from `/repo/decimal.go` (`CmpTotal`, `cmpOrder`, `Int64`, `Float64`) and `/repo/format.go` (`Text`, `String`,
`Append`, `fmtE`, `fmtF`) with the conventions of `Imp/Ops.lean`: the receiver and the argument are `Src`s, every read
of one of their fields appears at the point and in the order where Go performs it (including the short-circuit
evaluation of `&&` and the re-reads of `d.Exponent` by the loop of `fmtF`), Go locals (`buf`, `digits`, `integ`,
`frac`, …) are Lean values.  None of these programs contains a write.

The other read-only methods already exist: `cmpP` (`Decimal.Cmp`), `signP`, `isZeroP`, `numDigitsP` (`Imp/Ops.lean`),
`modfLoc2` (`Decimal.Modf` into two fresh `Decimal`s, `Imp/TransOps.lean`); so do the methods with a destination
(`setDec`, `negDec`, `absDec`, `reduceDec`, `modfP`).
-/
namespace Apd.Imp
open Apd Prog

/-! ## `CmpTotal` -/

/-- `Decimal.cmpOrder` -/
def cmpOrderP (s : Src) : Prog Int := do
  let f ← rdForm s                                         -- v := int(d.Form) + 1
  let v : Int := match f with | .finite => 1 | .infinite => 2 | .nanSignaling => 3 | .nan => 4
  let n ← rdNeg s                                          -- if d.Negative { v = -v }
  pure (if n then -v else v)

/-- `Decimal.CmpTotal` -/
def cmpTotalP (d x : Src) : Prog Int := do
  let dord ← cmpOrderP d
  let xord ← cmpOrderP x
  if dord < xord then pure (-1) else if dord > xord then pure 1 else do
    let f ← rdForm d                                       -- switch d.Form
    match f with
    | .finite => do
      let c ← cmpP d x                                     -- if c := d.Cmp(x); c != 0 { return c }
      if c != 0 then pure c else do
        let n ← rdNeg d
        let lt : Int := if n then 1 else -1
        let gt : Int := if n then -1 else 1
        let de ← rdExp d                                   -- if d.Exponent < x.Exponent
        let xe ← rdExp x
        if de < xe then pure lt else do
          let de ← rdExp d                                 -- if d.Exponent > x.Exponent
          let xe ← rdExp x
          if de > xe then pure gt else pure 0
    | .infinite => pure 0
    | _ => do
      let dc ← rdCoeff d                                   -- return d.Coeff.Cmp(&x.Coeff)
      let xc ← rdCoeff x
      pure (cmpNat dc xc)

/-! ## `Append` / `Text` / `String` -/

/-- the loop `for i := int32(0); i < d.Exponent; i++ { buf = append(buf, '0') }` of `fmtF`: it reads `d.Exponent`
before every iteration; returns the number of zeros appended.  The fuel is the value the preceding test
`d.Exponent >= 0` has read, plus one. -/
def zerosLoopP (d : Src) : Nat → Int → Prog Int
  | 0, i => pure i
  | fuel+1, i => do
    let e ← rdExp d
    if i < e then zerosLoopP d fuel (i + 1) else pure i

/-- `fmtF(buf, d, digits)`: the characters appended -/
def fmtFP (d : Src) (digits : List Char) : Prog (List Char) := do
  let e1 ← rdExp d                                         -- if d.Exponent < 0
  if e1 < 0 then do
    let e2 ← rdExp d                                       -- left := -int(d.Exponent) - len(digits)
    let left : Int := -e2 - (digits.length : Int)
    if left ≥ 0 then pure ('0' :: '.' :: (Text.zeros left.toNat ++ digits))
    else
      let offset := (-left).toNat
      pure (digits.take offset ++ '.' :: digits.drop offset)
  else do
    let e2 ← rdExp d                                       -- else if d.Exponent >= 0
    if e2 ≥ 0 then do
      let n ← zerosLoopP d (e2.toNat + 1) 0
      pure (digits ++ Text.zeros n.toNat)
    else pure []

/-- `fmtE(buf, fmt, d, digits)`: the characters appended -/
def fmtEP (fmt : Char) (d : Src) (digits : List Char) : Prog (List Char) := do
  let e ← rdExp d                                          -- adj := int64(d.Exponent) + int64(len(digits)) - 1
  pure (Text.fmtE fmt { exp := e } digits)

/-- `Decimal.Append(nil, verb)` -/
def appendLP (d : Src) (verb : Char) : Prog (List Char) := do
  let n ← rdNeg d                                          -- if d.Negative { buf = append(buf, '-') }
  let sign : List Char := if n then ['-'] else []
  let f ← rdForm d                                         -- switch d.Form
  match f with
  | .nan => pure (sign ++ ['N', 'a', 'N'])
  | .nanSignaling => pure (sign ++ ['s', 'N', 'a', 'N'])
  | .infinite => pure (sign ++ ['I', 'n', 'f', 'i', 'n', 'i', 't', 'y'])
  | .finite => do
    let cf ← rdCoeff d                                     -- digits := d.Coeff.Append(scratch[:0], 10)
    let digits := natDigits cf
    if verb = 'e' ∨ verb = 'E' then do
      let t ← fmtEP verb d digits
      pure (sign ++ t)
    else if verb = 'f' then do
      let t ← fmtFP d digits
      pure (sign ++ t)
    else if verb = 'g' ∨ verb = 'G' then do
      let digitLen0 : Int := (digits.length : Int)
      -- if d.Coeff.BitLen() == 0 && d.Exponent >= lowest… && d.Exponent < 0 { digitLen += int(-d.Exponent) }
      let cf0 ← rdCoeff d
      let digitLen : Int ← (if cf0 = 0 then do
                              let e1 ← rdExp d
                              if e1 ≥ Text.lowestZeroNegativeCoefficientCockroach then do
                                let e2 ← rdExp d
                                if e2 < 0 then do
                                  let e3 ← rdExp d
                                  pure (digitLen0 + (-e3))
                                else pure digitLen0
                              else pure digitLen0
                            else pure digitLen0)
      let e4 ← rdExp d                                     -- adj := int(d.Exponent) + (digitLen - 1)
      let adj : Int := e4 + (digitLen - 1)
      let e5 ← rdExp d                                     -- if d.Exponent <= 0 && adj >= adjExponentLimit
      if e5 ≤ 0 ∧ adj ≥ Text.adjExponentLimit then do
        let t ← fmtFP d digits
        pure (sign ++ t)
      else do
        let t ← fmtEP (if verb = 'g' then 'e' else 'E') d digits
        pure (sign ++ t)
    else do
      let _n ← rdNeg d                                     -- if d.Negative { buf = buf[:len(buf)-1] }
      pure ['%', verb]

/-- `Decimal.Text(verb)` / `Decimal.Append(nil, verb)` as a string -/
def textP (d : Src) (verb : Char) : Prog String := do
  let l ← appendLP d verb
  pure (String.ofList l)

/-- `Decimal.String` -/
def stringP (d : Src) : Prog String := textP d 'G'

/-- `Decimal.Float64`: `strconv.ParseFloat(d.String(), 64)`.  The program returns the string handed to
`strconv.ParseFloat`; the conversion itself (which touches no `Decimal`) is outside the model. -/
def float64P (d : Src) : Prog String := stringP d

/-! ## `Int64` -/

/-- `Decimal.Int64`: `some v` on success, `none` when an error is returned (the error messages are built from
`d.String()`, which reads `d` again) -/
def int64P (d : Src) : Prog (Option Int) := do
  let f ← rdForm d
  if f != .finite then do
    let _ ← stringP d                                      -- fmt.Errorf("%s is not finite", d.String())
    pure none
  else do
    let m ← modfLoc2 d                                     -- var integ, frac Decimal; d.Modf(&integ, &frac)
    if !m.2.isZero then do
      let _ ← stringP d
      pure none
    else if m.1.cmp decMaxInt64 > 0 then do
      let _ ← stringP d
      pure none
    else if m.1.cmp decMinInt64 < 0 then do
      let _ ← stringP d
      pure none
    else do
      let v0 := wrap64 ((m.1.coeff % 2 ^ 64 : Nat) : Int)  -- v := integ.Coeff.Int64()
      let v := mul10Loop m.1.exp.toNat v0                  -- for i := int32(0); i < integ.Exponent; i++ { v *= 10 }
      let n ← rdNeg d                                      -- if d.Negative { v = -v }
      pure (some (if n then wrap64 (-v) else v))

end Apd.Imp
