import ApdVerif.Imp.Prog
import ApdVerif.Model.Arith
/-!
# Store-level programs: one `Prog` per Go method (core Lean only, executable)

Transcribed from `/repo/decimal.go`, `/repo/context.go`, `/repo/round.go`, keeping the statement order and
the order of the field reads and writes.  Conventions:

* a destination / receiver that is written is a `Cell`;
* an operand pointer is a `Src`: either a cell or a package-level constant (`decimalNaN`, `decimalOne`, …,
  which are Lean values; `Set`'s pointer comparison `d == x` is `x = .cell d`);
* a `*BigInt` that may point into an operand (`upscale`'s results: `&a.Coeff`, `&b.Coeff` or the temporary) is a
  `BRef`, dereferenced where Go does;
* Go locals (`var tmp Decimal`, `BigInt` temporaries, flags) are Lean `let`s; arithmetic on values that have
  already been read uses the pure helpers of `Model/*.lean` (`shouldAddOne`, `roundAddOne`, `stripZeros`,
  `checkXs`, `goError`, …);
* the `*Context` is passed as a value (no method writes to it);
* `BigInt`s are magnitudes (`Nat`): where Go keeps a transient sign in `d.Coeff` (`Context.add`) the sign
  lives in a Lean local.

Every `Context` method returns `(flags, error class, aux int)`.
-/
namespace Apd.Imp
open Apd Apd.Cond Prog

/-- an operand pointer -/
inductive Src where
  | cell (c : Cell)
  | const (v : Dec)
deriving DecidableEq

/-- the value an operand pointer points to -/
def Src.val : Src → Heap → Dec
  | .cell c, h => h c
  | .const v, _ => v

def rdForm : Src → Prog Form
  | .cell c => getForm c ret
  | .const v => ret v.form
def rdNeg : Src → Prog Bool
  | .cell c => getNeg c ret
  | .const v => ret v.neg
def rdExp : Src → Prog Int
  | .cell c => getExp c ret
  | .const v => ret v.exp
def rdCoeff : Src → Prog Nat
  | .cell c => getCoeff c ret
  | .const v => ret v.coeff

def wrForm (c : Cell) (v : Form) : Prog Unit := setForm c v (ret ())
def wrNeg (c : Cell) (v : Bool) : Prog Unit := setNeg c v (ret ())
def wrExp (c : Cell) (v : Int) : Prog Unit := setExp c v (ret ())
def wrCoeff (c : Cell) (v : Nat) : Prog Unit := setCoeff c v (ret ())

/-- a `*BigInt` returned by `upscale(a, b, &tmp)`: the temporary (with its value), `&a.Coeff` or `&b.Coeff` -/
inductive BRef where
  | val (n : Nat)
  | fst
  | snd

/-- dereference a `*BigInt` returned by `upscale(a, b, &tmp)` -/
def rdB (a b : Src) : BRef → Prog Nat
  | .val n => pure n
  | .fst => rdCoeff a
  | .snd => rdCoeff b

/-! ## read-only `Decimal` methods -/

/-- `Decimal.Sign` -/
def signP (s : Src) : Prog Int := do
  let f ← rdForm s
  if f = .finite then do
    let cf ← rdCoeff s
    if cf = 0 then pure 0 else do
      let n ← rdNeg s
      pure (if n then -1 else 1)
  else do
    let n ← rdNeg s
    pure (if n then -1 else 1)

/-- `Decimal.IsZero` -/
def isZeroP (s : Src) : Prog Bool := do
  let v ← signP s
  pure (v == 0)

/-- `Decimal.NumDigits` -/
def numDigitsP (s : Src) : Prog Nat := do
  let cf ← rdCoeff s
  pure (ndigits cf)

/-- `x.Form == NaNSignaling || x.Form == NaN` -/
def isNaNP (s : Src) : Prog Bool := do
  let f ← rdForm s
  if f = .nanSignaling then pure true else do
    let f ← rdForm s
    pure (f == .nan)

/-- `Context.shouldSetAsNaN` -/
def shouldSetAsNaNP (x : Src) (y : Option Src) : Prog Bool := do
  let xn ← isNaNP x
  if xn then pure true else
    match y with
    | some y => isNaNP y
    | none => pure false

/-- `Decimal.Cmp` -/
def cmpP (d x : Src) : Prog Int := do
  let ds ← signP d
  let xs ← signP x
  if ds < xs then pure (-1) else if ds > xs then pure 1 else if ds == 0 && xs == 0 then pure 0 else do
    let gt : Int := if ds == -1 then -1 else 1
    let lt : Int := if ds == -1 then 1 else -1
    let df ← rdForm d
    if df == .infinite then do
      let xf ← rdForm x
      pure (if xf == .infinite then 0 else gt)
    else do
      let xf ← rdForm x
      if xf == .infinite then pure lt else do
        let de ← rdExp d
        let xe ← rdExp x
        if de == xe then do
          let dc ← rdCoeff d
          let xc ← rdCoeff x
          let cmp := cmpNat dc xc
          pure (if ds < 0 then -cmp else cmp)
        else do
          let dnd ← numDigitsP d
          let de ← rdExp d
          let dn : Int := (dnd : Int) + de
          let xnd ← numDigitsP x
          let xe ← rdExp x
          let xn : Int := (xnd : Int) + xe
          if dn < xn then pure lt else if dn > xn then pure gt else do
            let de ← rdExp d
            let xe ← rdExp x
            if de < xe then do
              let xc ← rdCoeff x                       -- xScaled.Set(&x.Coeff)
              let xe ← rdExp x
              let de ← rdExp d
              let dc ← rdCoeff d
              let cmp := cmpNat dc (xc * 10 ^ (xe - de).toNat)
              pure (if ds < 0 then -cmp else cmp)
            else do
              let dc ← rdCoeff d                       -- dScaled.Set(&d.Coeff)
              let de ← rdExp d
              let xe ← rdExp x
              let xc ← rdCoeff x
              let cmp := cmpNat (dc * 10 ^ (de - xe).toNat) xc
              pure (if ds < 0 then -cmp else cmp)

/-- `upscale(a, b, &tmp)`: two `*BigInt`s and the common exponent; `none` = "exponent out of range" -/
def upscaleP (a b : Src) : Prog (Option (BRef × BRef × Int)) := do
  let ae ← rdExp a
  let be ← rdExp b
  if ae == be then do
    let ae ← rdExp a
    pure (some (.fst, .snd, ae))
  else do
    let ae ← rdExp a
    let be ← rdExp b
    if ae < be then do
      -- swapped: b, a = a, b
      let be ← rdExp b
      let ae ← rdExp a
      let s := be - ae
      if s > MaxExponent then pure none else do
        let bc ← rdCoeff b                             -- x.Mul(&a.Coeff, e)
        let ae ← rdExp a
        pure (some (.fst, .val (bc * 10 ^ s.toNat), ae))
    else do
      let ae ← rdExp a
      let be ← rdExp b
      let s := ae - be
      if s > MaxExponent then pure none else do
        let ac ← rdCoeff a
        let be ← rdExp b
        pure (some (.val (ac * 10 ^ s.toNat), .snd, be))

/-! ## `Decimal` methods that write their receiver -/

/-- `Decimal.Set` (with the `d == x` fast path) -/
def setDec (d : Cell) (x : Src) : Prog Unit :=
  if x = .cell d then pure () else do
    let f ← rdForm x
    wrForm d f
    let n ← rdNeg x
    wrNeg d n
    let e ← rdExp x
    wrExp d e
    let cf ← rdCoeff x
    wrCoeff d cf

/-- `Decimal.SetInt64` = `SetFinite(x, 0)` = `setCoefficient(x); d.Exponent = 0` -/
def setInt64P (d : Cell) (v : Int) : Prog Unit := do
  wrNeg d (decide (v < 0))
  wrCoeff d v.natAbs                                   -- d.Coeff.SetInt64(x)
  let cf ← rdCoeff (.cell d)                           -- d.Coeff.Abs(&d.Coeff)
  wrCoeff d cf
  wrForm d .finite
  wrExp d 0

/-- `Decimal.Neg` -/
def negDec (d : Cell) (x : Src) : Prog Unit := do
  setDec d x
  let z ← isZeroP (.cell d)
  if z then wrNeg d false else do
    let n ← rdNeg (.cell d)
    wrNeg d (!n)

/-- `Decimal.Abs` -/
def absDec (d : Cell) (x : Src) : Prog Unit := do
  setDec d x
  wrNeg d false

/-- `Decimal.Reduce`: returns the number of zeros removed.  The two digit-stripping loops (the
`uint64` fast path and the `BigInt` loop, which only touch `d.Coeff`) are the kernel `stripZeros`. -/
def reduceDec (d : Cell) (x : Src) : Prog Int := do
  let f ← rdForm x
  if f != .finite then do
    setDec d x
    pure 0
  else do
    let sg ← signP x
    if sg = 0 then do
      let nd ← numDigitsP x
      setInt64P d 0
      pure ((nd - 1 : Nat) : Int)
    else do
      let neg := decide (sg = -1)
      setDec d x
      let cf ← rdCoeff (.cell d)
      if cf < 2 ^ 64 then do
        -- d.Coeff.IsUint64(): strip on a uint64 copy
        let r := stripZeros cf
        if r.2 != 0 then do
          let e ← rdExp (.cell d)
          wrExp d (e + (r.2 : Int))
          wrCoeff d r.1
          wrNeg d neg
          pure (r.2 : Int)
        else pure (r.2 : Int)
      else do
        let _zc ← rdCoeff (.cell d)                    -- d.setBig(&z)
        let _zn ← rdNeg (.cell d)
        let cf ← rdCoeff (.cell d)                     -- loop: z.QuoRem(&d.Coeff, 10, &r); d.Coeff.Set(&z)
        let r := stripZeros cf
        wrCoeff d r.1
        let e ← rdExp (.cell d)
        wrExp d (e + (r.2 : Int))
        pure (r.2 : Int)

/-- `Decimal.Modf(integ, frac)`; either output may be nil, either may be the receiver. -/
def modfP (d : Src) (integ frac : Option Cell) : Prog Unit :=
  if integ = none ∧ frac = none then pure () else do
  let neg ← rdNeg d
  let e0 ← rdExp d
  if e0 > 0 then do
    (match integ with
     | some i => setDec i d
     | none => pure ())
    (match frac with
     | some f => do wrForm f .finite; wrNeg f neg; wrExp f 0; wrCoeff f 0
     | none => pure ())
  else do
    let nd ← numDigitsP d
    let dexp ← rdExp d
    let exp : Int := -dexp
    if exp > (nd : Int) then do
      (match frac with
       | some f => setDec f d
       | none => pure ())
      (match integ with
       | some i => do wrForm i .finite; wrNeg i neg; wrExp i 0; wrCoeff i 0
       | none => pure ())
    else do
      let e := 10 ^ exp.toNat
      (match integ with
       | some i => do wrForm i .finite; wrExp i 0; wrNeg i neg
       | none => pure ())
      match frac with
      | some f => do
        -- icoeff.QuoRem(&d.Coeff, e, &frac.Coeff)
        let dc ← rdCoeff d
        (match integ with
         | some i => wrCoeff i (dc / e)
         | none => pure ())
        wrCoeff f (dc % e)
        wrForm f .finite
        wrExp f dexp
        wrNeg f neg
      | none => do
        -- icoeff.Quo(&d.Coeff, e)
        let dc ← rdCoeff d
        (match integ with
         | some i => wrCoeff i (dc / e)
         | none => pure ())

/-- `d.Modf(integ, &frac)` where `frac` is a Go local (`var frac Decimal`): the local's final value is
returned (this is the call made by `Context.Ceil` / `Floor`). -/
def modfLocFrac (d : Src) (integ : Cell) : Prog Dec := do
  let neg ← rdNeg d
  let e0 ← rdExp d
  if e0 > 0 then do
    setDec integ d
    pure { form := .finite, neg := neg, exp := 0, coeff := 0 }
  else do
    let nd ← numDigitsP d
    let dexp ← rdExp d
    let exp : Int := -dexp
    if exp > (nd : Int) then do
      let f ← rdForm d                                 -- frac.Set(d)
      let n ← rdNeg d
      let e ← rdExp d
      let cf ← rdCoeff d
      wrForm integ .finite
      wrNeg integ neg
      wrExp integ 0
      wrCoeff integ 0
      pure { form := f, neg := n, exp := e, coeff := cf }
    else do
      let e := 10 ^ exp.toNat
      wrForm integ .finite
      wrExp integ 0
      wrNeg integ neg
      let dc ← rdCoeff d
      wrCoeff integ (dc / e)
      pure { form := .finite, neg := neg, exp := dexp, coeff := dc % e }

/-! ## `setExponent`, `Rounder.Round` -/

/-- the common tail of `setExponent`: `if res.Inexact() && res.Subnormal() { res |= Underflow }; d.Exponent = r` -/
def seFinishP (d : Cell) (r : Int) (res : Cond) : Prog Cond := do
  let res := if res.inexact && res.subnormal then res ||| cUnderflow else res
  wrExp d r
  pure res

/-- `if nd == unknownNumDigits { nd = d.NumDigits() }` -/
def ndOrCountP (d : Cell) (nd : Option Nat) : Prog Nat :=
  match nd with
  | some n => pure n
  | none => numDigitsP (.cell d)

/-- `Decimal.setExponent(c, nd, res, xs...)`; `nd = none` is `unknownNumDigits`.  The loop over `xs`
works on locals only (`checkXs`, `sumInts`), as does the `tmp.Modf(&integ, &frac)` block. -/
def setExponentP (c : Ctx) (d : Cell) (nd : Option Nat) (res : Cond) (xs : List Int) : Prog Cond :=
  match checkXs xs with
  | some fl => pure fl
  | none => do
    let sum := sumInts xs
    let r := sum
    let nd ← ndOrCountP d nd                           -- if nd == unknownNumDigits { nd = d.NumDigits() }
    let adj := sum + (nd : Int) - 1
    if adj > MaxExponent then pure (cSysOverflow ||| cOverflow)
    else if adj < MinExponent then pure (cSysUnderflow ||| cUnderflow)
    else if adj < c.emin then do
      let z ← isZeroP (.cell d)
      let res := if !z then res ||| cSubnormal else res
      let etiny : Int := c.emin - ((c.prec : Int) - 1)
      if r < etiny then do
        let tc ← rdCoeff (.cell d)                     -- tmp.Coeff.Set(&d.Coeff)
        let tn ← rdNeg (.cell d)                       -- tmp.Negative = d.Negative
        let k := (etiny - r).toNat                     -- tmp.Exponent = r - Etiny; tmp.Modf(&integ, &frac)
        let integ := tc / 10 ^ k
        let frac := tc % 10 ^ k
        let res := if frac != 0 then res ||| cInexact else res
        let integ := if frac != 0 && shouldAddOne c.mode integ tn (cmpNat (2 * frac) (10 ^ k)) then integ + 1 else integ
        let res := if integ == 0 then res ||| cClamped else res
        wrCoeff d integ                                -- d.Coeff.Set(&integ.Coeff)
        seFinishP d etiny (res ||| cRounded)
      else seFinishP d r res
    else if adj > c.emax then do
      let z ← isZeroP (.cell d)
      if z then seFinishP d c.emax (res ||| cClamped)
      else do
        wrForm d .infinite
        seFinishP d r (res ||| cOverflow ||| cInexact)
    else seFinishP d r res

/-- the end of `Rounder.Round`: `d.Coeff.Set(&y); res |= d.setExponent(c, unknown, res, d.Exponent, diff)` -/
def roundTailP (c : Ctx) (d : Cell) (res : Cond) (yd : Nat × Int) : Prog Cond := do
  wrCoeff d yd.1
  let de ← rdExp (.cell d)
  let r ← setExponentP c d none res [de, yd.2]
  pure (res ||| r)

/-- `Rounder.Round` from `nd := x.NumDigits()` on (finite `x`, already copied into `d`).  The unreachable
`diff < MinExponent` exit (inside `diff > 0`) is omitted. -/
def roundFinP (c : Ctx) (d : Cell) (x : Src) (disableIfPrecisionZero : Bool) : Prog Cond := do
  let nd ← numDigitsP x
  let xs ← signP x
  if disableIfPrecisionZero && c.prec == 0 then do
    let de ← rdExp (.cell d)
    setExponentP c d (some nd) {} [de]
  else do
    let xe ← rdExp x
    let adj := xe + (nd : Int) - 1
    if xs != 0 && adj < c.emin then do
      let res := cSubnormal
      let de ← rdExp (.cell d)
      let r ← setExponentP c d (some nd) res [de]
      pure (res ||| r)
    else
      let diff : Int := (nd : Int) - (c.prec : Int)
      if diff > 0 then
        if diff > MaxExponent then pure (cSysOverflow ||| cOverflow)
        else do
          let res := cRounded
          let e := 10 ^ diff.toNat
          let dc ← rdCoeff (.cell d)                   -- y.QuoRem(&d.Coeff, e, &m)
          let y := dc / e
          let m := dc % e
          if m != 0 then do
            let res := res ||| cInexact
            let xn ← rdNeg x
            if shouldAddOne c.mode y xn (cmpNat (2 * m) e) then roundTailP c d res (roundAddOne y diff)
            else roundTailP c d res (y, diff)
          else roundTailP c d res (y, diff)
      else do
        let de ← rdExp (.cell d)
        setExponentP c d (some nd) {} [de, 0]

/-- `Rounder.Round(c, d, x, disableIfPrecisionZero)` (the rounder is `c.Rounding`):
`d.Set(x); if x.Form != Finite { return 0 }; …` — infinities and NaNs are copied, not rounded.  (When `d == x`
the read of `x.Form` comes after the copy, which is then a no-op.) -/
def roundP (c : Ctx) (d : Cell) (x : Src) (disableIfPrecisionZero : Bool) : Prog Cond := do
  setDec d x
  let xf ← rdForm x
  if xf != .finite then pure {}
  else roundFinP c d x disableIfPrecisionZero

/-! ## NaN handling -/

/-- `Context.setAsNaN(d, x, y)`: flags and error class.  The local `nan *Decimal` is `x` (`some true`),
`y` (`some false`) or unset. -/
def setAsNaNP (c : Ctx) (d : Cell) (x : Src) (y : Option Src) : Prog (Cond × ErrKind) := do
  let xf ← rdForm x
  let sel : Option Bool ←
    (if xf = .nanSignaling then pure (some true) else
      match y with
      | some y => do
        let yf ← rdForm y
        if yf = .nanSignaling then pure (some false) else do
          let xf ← rdForm x
          if xf = .nan then pure (some true) else do
            let yf ← rdForm y
            if yf = .nan then pure (some false) else pure none
      | none => do
        let xf ← rdForm x
        if xf = .nan then pure (some true) else pure none)
  match sel with
  | none => pure ({}, .other)                            -- "no NaN value found"
  | some b => do
    let nan : Src := if b then x else y.getD x
    setDec d nan
    let nf ← rdForm nan
    if nf = .nanSignaling then do
      wrForm d .nan
      pure (cInvalidOp, goError c.traps cInvalidOp)
    else pure ({}, .none)

/-! ## `Context` methods -/

abbrev Res := Cond × ErrKind × Int

/-- `return c.goError(res)` -/
def retFlags (c : Ctx) (res : Cond) : Prog Res := pure (res, goError c.traps res, 0)

/-- the finite part of `Context.add`, from `d.Negative = xn` on; `abs` is what `upscale` returned -/
def addFiniteP (c : Ctx) (d : Cell) (x y : Src) (xn yn : Bool) (abs : BRef × BRef × Int) : Prog Res := do
  wrNeg d xn
  (if xn == yn then do
    let av ← rdB x y abs.1
    let bv ← rdB x y abs.2.1
    wrCoeff d (av + bv)                                -- d.Coeff.Add(a, b)
  else do
    let av ← rdB x y abs.1
    let bv ← rdB x y abs.2.1
    wrCoeff d (if av < bv then bv - av else av - bv)   -- d.Coeff.Sub(a, b); its sign is `av < bv`
    if av < bv then do                                 -- case -1
      let dn ← rdNeg (.cell d)
      wrNeg d (!dn)
      let cf ← rdCoeff (.cell d)                       -- d.Coeff.Neg(&d.Coeff)
      wrCoeff d cf
    else do
      let cf ← rdCoeff (.cell d)
      if cf == 0 then wrNeg d (c.mode == .floor) else pure ())
  wrExp d abs.2.2
  wrForm d .finite
  let res ← roundP c d (.cell d) true
  retFlags c res

/-- `Context.add` -/
def addP (c : Ctx) (d : Cell) (x y : Src) (subtract : Bool) : Prog Res := do
  let isn ← shouldSetAsNaNP x (some y)
  if isn then do
    let r ← setAsNaNP c d x (some y)
    pure (r.1, r.2, 0)
  else do
    let xn ← rdNeg x
    let yn0 ← rdNeg y
    let yn := yn0 != subtract
    let xf ← rdForm x
    let yf ← rdForm y
    let xi := xf == .infinite
    let yi := yf == .infinite
    if xi || yi then
      if xi && yi && xn != yn then do
        setDec d (.const decNaN)
        retFlags c cInvalidOp
      else if xi then do
        setDec d x
        pure ({}, .none, 0)
      else do
        setDec d (.const decInf)
        wrNeg d yn
        pure ({}, .none, 0)
    else do
      let u ← upscaleP x y
      match u with
      | none => pure ({}, .sys, 0)
      | some abs => addFiniteP c d x y xn yn abs

/-- `Context.Abs` -/
def absP (c : Ctx) (d : Cell) (x : Src) : Prog Res := do
  let isn ← shouldSetAsNaNP x none
  if isn then do
    let r ← setAsNaNP c d x none
    pure (r.1, r.2, 0)
  else do
    absDec d x
    let res ← roundP c d (.cell d) true
    retFlags c res

/-- `Context.Neg` -/
def negP (c : Ctx) (d : Cell) (x : Src) : Prog Res := do
  let isn ← shouldSetAsNaNP x none
  if isn then do
    let r ← setAsNaNP c d x none
    pure (r.1, r.2, 0)
  else do
    negDec d x
    let res ← roundP c d (.cell d) true
    retFlags c res

/-- `Context.Round` -/
def roundOpP (c : Ctx) (d : Cell) (x : Src) : Prog Res := do
  let isn ← shouldSetAsNaNP x none
  if isn then do
    let r ← setAsNaNP c d x none
    pure (r.1, r.2, 0)
  else do
    let res ← roundP c d x true
    retFlags c res

/-- `Context.Mul` -/
def mulP (c : Ctx) (d : Cell) (x y : Src) : Prog Res := do
  let isn ← shouldSetAsNaNP x (some y)
  if isn then do
    let r ← setAsNaNP c d x (some y)
    pure (r.1, r.2, 0)
  else do
    let xn ← rdNeg x
    let yn ← rdNeg y
    let neg := xn != yn
    let xf ← rdForm x
    let yf ← rdForm y
    if xf == .infinite || yf == .infinite then do
      let xz ← isZeroP x
      let z ← (if xz then pure true else isZeroP y)
      if z then do
        setDec d (.const decNaN)
        retFlags c cInvalidOp
      else do
        setDec d (.const decInf)
        wrNeg d neg
        pure ({}, .none, 0)
    else do
      let xc ← rdCoeff x
      let yc ← rdCoeff y
      wrCoeff d (xc * yc)                              -- d.Coeff.Mul(&x.Coeff, &y.Coeff)
      wrNeg d neg
      wrForm d .finite
      let xe ← rdExp x
      let ye ← rdExp y
      let r1 ← setExponentP c d none {} [xe, ye]
      let r2 ← roundP c d (.cell d) true
      retFlags c (r1 ||| r2)

/-- `Context.quoSpecials`: `some` = the result has been set -/
def quoSpecialsP (c : Ctx) (d : Cell) (x y : Src) (canClamp : Bool) : Prog (Option (Cond × ErrKind)) := do
  let isn ← shouldSetAsNaNP x (some y)
  if isn then do
    let r ← setAsNaNP c d x (some y)
    pure (some r)
  else do
    let xn ← rdNeg x
    let yn ← rdNeg y
    let neg := xn != yn
    let xf ← rdForm x
    let yf ← rdForm y
    let xi := xf == .infinite
    let yi := yf == .infinite
    if xi || yi then
      if xi && yi then do
        setDec d (.const decNaN)
        pure (some (cInvalidOp, goError c.traps cInvalidOp))
      else if xi then do
        setDec d (.const decInf)
        wrNeg d neg
        pure (some ({}, .none))
      else do
        setInt64P d 0
        wrNeg d neg
        if canClamp then do
          wrExp d (c.emin - (c.prec : Int) + 1)
          pure (some (cClamped, goError c.traps cClamped))
        else pure (some ({}, .none))
    else do
      let yz ← isZeroP y
      if yz then do
        let xz ← isZeroP x
        if xz then do
          setDec d (.const decNaN)
          pure (some (cDivUndefined, goError c.traps cDivUndefined))
        else do
          setDec d (.const decInf)
          wrNeg d neg
          pure (some (cDivByZero, goError c.traps cDivByZero))
      else if c.prec == 0 then pure (some ({}, .zeroPrec))
      else pure none

/-- result of the integer kernel of `Context.Quo` -/
structure QuoK where
  q : Nat
  rem : Nat
  divisor : Nat
  adjCoeffs : Int
  adjExp10 : Int

/-- the integer kernel of `Context.Quo`, on the two coefficients already copied into the locals `dividend`
and `divisor`: digit alignment, scaling by `10^(Precision-1)`, `QuoRem` -/
def quoK (prec : Nat) (xc yc : Nat) : QuoK :=
  let ndDiff : Int := (ndigits xc : Int) - (ndigits yc : Int)
  let dividend := if ndDiff < 0 then xc * 10 ^ (-ndDiff).toNat else xc
  let divisor := if ndDiff > 0 then yc * 10 ^ ndDiff.toNat else yc
  let lt := decide (dividend < divisor)
  let dividend := if lt then dividend * 10 else dividend
  let adjCoeffs : Int := if lt then -ndDiff + 1 else -ndDiff
  let adjExp10 : Int := (prec : Int) - 1
  let dividend := dividend * 10 ^ adjExp10.toNat
  { q := dividend / divisor, rem := dividend % divisor, divisor := divisor,
    adjCoeffs := adjCoeffs, adjExp10 := adjExp10 }

/-- the end of `Context.Quo`: `res |= d.setExponent(c, nd, res, shift, -adjCoeffs, -adjExp10, carry)` -/
def quoTailP (c : Ctx) (d : Cell) (nd : Option Nat) (res : Cond) (xs : List Int) : Prog Res := do
  let r ← setExponentP c d nd res xs
  retFlags c (res ||| r)

/-- `Context.Quo` -/
def quoP (c : Ctx) (d : Cell) (x y : Src) : Prog Res := do
  let sp ← quoSpecialsP c d x y true
  match sp with
  | some r => pure (r.1, r.2, 0)
  | none => do
    let xn ← rdNeg x
    let yn ← rdNeg y
    let neg := xn != yn
    let xe ← rdExp x
    let ye ← rdExp y
    let shift := xe - ye
    let xz ← isZeroP x
    if xz then do
      setDec d (.const decZero)
      wrNeg d neg
      let r ← setExponentP c d none {} [shift]
      retFlags c r
    else do
      let xc ← rdCoeff x                               -- dividend.Abs(&x.Coeff)
      let yc ← rdCoeff y                               -- divisor.Abs(&y.Coeff)
      let k := quoK c.prec xc yc                       -- alignment and dividend.Mul(.., 10^adjExp10) on the locals
      wrCoeff d k.q                                    -- d.Coeff.QuoRem(&dividend, &divisor, &rem)
      wrForm d .finite
      wrNeg d neg
      let nd ← numDigitsP (.cell d)
      if k.rem != 0 then do
        let adj := shift + (-k.adjCoeffs) + (-k.adjExp10) + (nd : Int) - 1
        if adj ≥ c.emin then do
          let res := cInexact ||| cRounded
          let dc ← rdCoeff (.cell d)
          let dn ← rdNeg (.cell d)
          if shouldAddOne c.mode dc dn (cmpNat (2 * k.rem) k.divisor) then do
            let dc ← rdCoeff (.cell d)                 -- roundAddOne(&d.Coeff, &carry)
            let r := roundAddOne dc 0
            wrCoeff d r.1
            quoTailP c d none res [shift, -k.adjCoeffs, -k.adjExp10, r.2]
          else quoTailP c d (some nd) res [shift, -k.adjCoeffs, -k.adjExp10, 0]
        else do
          let dc ← rdCoeff (.cell d)                   -- d.Coeff.Mul(&d.Coeff, bigTen)
          wrCoeff d (dc * 10)
          let dc ← rdCoeff (.cell d)                   -- d.Coeff.Add(&d.Coeff, bigOne)
          wrCoeff d (dc + 1)
          quoTailP c d none {} [shift, -k.adjCoeffs, -k.adjExp10, -1]
      else quoTailP c d (some nd) {} [shift, -k.adjCoeffs, -k.adjExp10, 0]

/-- `Context.QuoInteger` -/
def quoIntegerP (c : Ctx) (d : Cell) (x y : Src) : Prog Res := do
  let sp ← quoSpecialsP c d x y false
  match sp with
  | some r => pure (r.1, r.2, 0)
  | none => do
    let xn ← rdNeg x
    let yn ← rdNeg y
    let neg := xn != yn
    let u ← upscaleP x y
    match u with
    | none => pure ({}, .sys, 0)
    | some abs => do
      let av ← rdB x y abs.1
      let bv ← rdB x y abs.2.1
      wrCoeff d (av / bv)                              -- d.Coeff.Quo(a, b)
      wrForm d .finite
      let nd ← numDigitsP (.cell d)
      if (nd : Int) > (c.prec : Int) then do
        setDec d (.const decNaN)
        wrExp d 0
        wrNeg d neg
        retFlags c cDivImpossible
      else do
        wrExp d 0
        wrNeg d neg
        pure ({}, .none, 0)

/-- `Context.Rem` -/
def remP (c : Ctx) (d : Cell) (x y : Src) : Prog Res := do
  let isn ← shouldSetAsNaNP x (some y)
  if isn then do
    let r ← setAsNaNP c d x (some y)
    pure (r.1, r.2, 0)
  else do
    let xf ← rdForm x
    if xf != .finite then do
      setDec d (.const decNaN)
      retFlags c cInvalidOp
    else do
      let yf ← rdForm y
      if yf == .infinite then do
        setDec d x
        let r ← roundP c d (.cell d) true
        retFlags c r
      else do
        let yz ← isZeroP y
        if yz then do
          let xz ← isZeroP x
          let res := if xz then cDivUndefined else cInvalidOp
          setDec d (.const decNaN)
          retFlags c res
        else do
          let u ← upscaleP x y
          match u with
          | none => pure ({}, .sys, 0)
          | some abs => do
            let av ← rdB x y abs.1
            let bv ← rdB x y abs.2.1
            wrCoeff d (av % bv)                        -- tmp2.QuoRem(a, b, &d.Coeff)
            if (ndigits (av / bv) : Int) > (c.prec : Int) then do
              setDec d (.const decNaN)
              retFlags c cDivImpossible
            else do
              wrForm d .finite
              wrExp d abs.2.2
              let xn ← rdNeg x
              wrNeg d xn
              let r ← roundP c d (.cell d) true
              retFlags c r

/-- `Context.Cmp` -/
def cmpOpP (c : Ctx) (d : Cell) (x y : Src) : Prog Res := do
  let isn ← shouldSetAsNaNP x (some y)
  if isn then do
    let r ← setAsNaNP c d x (some y)
    pure (r.1, r.2, 0)
  else do
    let v ← cmpP x y
    setInt64P d v
    pure ({}, .none, 0)

/-- `Context.Reduce` -/
def reduceP (c : Ctx) (d : Cell) (x : Src) : Prog Res := do
  let isn ← shouldSetAsNaNP x none
  if isn then do
    let r ← setAsNaNP c d x none
    pure (r.1, r.2, 0)
  else do
    let neg ← rdNeg x
    let res ← roundP c d x true
    let n ← reduceDec d (.cell d)
    wrNeg d neg
    pure (res, goError c.traps res, n)

/-- `Context.quantize(d, v, exp)` -/
def quantizeCoreP (c : Ctx) (d : Cell) (v : Src) (exp : Int) : Prog Cond := do
  let ve ← rdExp v
  let diff := exp - ve
  setDec d v
  if diff < 0 then do
    -- a zero coefficient needs no rescaling, whatever the distance (repair of finding F6)
    let z ← isZeroP (.cell d)
    if !z then
      if diff < MinExponent then pure (cSysUnderflow ||| cUnderflow)
      else do
        let dc ← rdCoeff (.cell d)
        wrCoeff d (dc * 10 ^ (-diff).toNat)
        wrExp d exp
        pure {}
    else do
      wrExp d exp
      pure {}
  else if diff > 0 then do
    let nd ← numDigitsP (.cell d)
    let p : Int := (nd : Int) - diff
    if p < 0 then do
      let z ← isZeroP (.cell d)
      if !z then do
        wrCoeff d 0
        let dc ← rdCoeff (.cell d)
        let dn ← rdNeg (.cell d)
        (if shouldAddOne c.mode dc dn (-1) then wrCoeff d 1 else pure ())
        wrExp d exp
        pure (cInexact ||| cRounded)
      else do
        wrExp d exp
        pure {}
    else do
      let nc : Ctx := { c with prec := p.toNat, emin := MinExponent, emax := frameEmax c.emax exp }   -- c.WithPrecision(p); nc.MinExponent = MinExponent; nc.MaxExponent shifted by exp
      wrExp d (-diff)
      let res ← roundP nc d (.cell d) false
      let de ← rdExp (.cell d)
      (if de > 0 then do
        let dc ← rdCoeff (.cell d)
        wrCoeff d (dc * 10)
      else pure ())
      wrExp d exp
      pure res
  else do
    wrExp d exp
    pure {}

/-- `Context.Quantize` -/
def quantizeP (c : Ctx) (d : Cell) (x : Src) (exp : Int) : Prog Res := do
  let isn ← shouldSetAsNaNP x none
  if isn then do
    let r ← setAsNaNP c d x none
    pure (r.1, r.2, 0)
  else do
    let xf ← rdForm x
    let etiny : Int := c.emin - (c.prec : Int) + 1
    if xf == .infinite || exp < etiny then do
      setDec d (.const decNaN)
      retFlags c cInvalidOp
    else do
      let res ← quantizeCoreP c d x exp
      let nd ← numDigitsP (.cell d)
      if (nd : Int) > (c.prec : Int) || exp > c.emax then do
        setDec d (.const decNaN)
        retFlags c cInvalidOp
      else do
        let r ← roundP c d (.cell d) true
        let res := res ||| r
        if res.overflow || res.underflow then do
          setDec d (.const decNaN)
          retFlags c cInvalidOp
        else retFlags c res

/-- `Context.toIntegralSpecials` -/
def toIntegralSpecialsP (c : Ctx) (d : Cell) (x : Src) : Prog (Option (Cond × ErrKind)) := do
  let isn ← shouldSetAsNaNP x none
  if isn then do
    let r ← setAsNaNP c d x none
    pure (some r)
  else do
    let xf ← rdForm x
    if xf != .finite then do
      setDec d x
      pure (some ({}, .none))
    else pure none

/-- `Context.RoundToIntegralValue` -/
def rtivP (c : Ctx) (d : Cell) (x : Src) : Prog Res := do
  let sp ← toIntegralSpecialsP c d x
  match sp with
  | some r => pure (r.1, r.2, 0)
  | none => do
    let res ← quantizeCoreP c d x 0
    retFlags c { res with inexact := false, rounded := false }   -- res &= ^(Inexact | Rounded)

/-- `Context.RoundToIntegralExact` -/
def rtieP (c : Ctx) (d : Cell) (x : Src) : Prog Res := do
  let sp ← toIntegralSpecialsP c d x
  match sp with
  | some r => pure (r.1, r.2, 0)
  | none => do
    let res ← quantizeCoreP c d x 0
    retFlags c res

/-- `Context.Ceil` -/
def ceilP (c : Ctx) (d : Cell) (x : Src) : Prog Res := do
  let sp ← toIntegralSpecialsP c d x
  match sp with
  | some r => pure (r.1, r.2, 0)
  | none => do
    let frac ← modfLocFrac x d                         -- var frac Decimal; x.Modf(d, &frac)
    if frac.sign > 0 then addP c d (.cell d) (.const decOne) false
    else pure ({}, .none, 0)

/-- `Context.Floor` -/
def floorP (c : Ctx) (d : Cell) (x : Src) : Prog Res := do
  let sp ← toIntegralSpecialsP c d x
  match sp with
  | some r => pure (r.1, r.2, 0)
  | none => do
    let frac ← modfLocFrac x d
    if frac.sign < 0 then addP c d (.cell d) (.const decOne) true
    else pure ({}, .none, 0)

/-- the store-level program of a `Context` method, by the op names of `runCtxOp` (Driver.lean);
`d`, `x`, `y` are the pointer arguments (any of them may coincide); unary ops ignore `y`. -/
def runCtxOp (op : String) (c : Ctx) (d x y : Cell) (iarg : Int) : Option (Prog Res) :=
  if op = "add" then some (addP c d (.cell x) (.cell y) false)
  else if op = "sub" then some (addP c d (.cell x) (.cell y) true)
  else if op = "mul" then some (mulP c d (.cell x) (.cell y))
  else if op = "quo" then some (quoP c d (.cell x) (.cell y))
  else if op = "quoint" then some (quoIntegerP c d (.cell x) (.cell y))
  else if op = "rem" then some (remP c d (.cell x) (.cell y))
  else if op = "abs" then some (absP c d (.cell x))
  else if op = "neg" then some (negP c d (.cell x))
  else if op = "round" then some (roundOpP c d (.cell x))
  else if op = "reduce" then some (reduceP c d (.cell x))
  else if op = "cmp" then some (cmpOpP c d (.cell x) (.cell y))
  else if op = "quantize" then some (quantizeP c d (.cell x) iarg)
  else if op = "rtie" then some (rtieP c d (.cell x))
  else if op = "rtiv" then some (rtivP c d (.cell x))
  else if op = "ceil" then some (ceilP c d (.cell x))
  else if op = "floor" then some (floorP c d (.cell x))
  else none

/-- run an operation on a heap; returns the result triple and the final heap -/
def execCtxOp (op : String) (c : Ctx) (d x y : Cell) (iarg : Int) (h : Heap) : Option (Res × Heap) :=
  (runCtxOp op c d x y iarg).map (fun p => run p h)

end Apd.Imp
