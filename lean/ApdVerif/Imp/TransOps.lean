import ApdVerif.Imp.Ops
import ApdVerif.Model.TransLog
/-!
# Store-level programs of the composite functions: Sqrt, Cbrt, Exp, Ln, Log10, Pow (core Lean only, executable)

Transcribed from `/repo/context.go` (`rootSpecials`, `Sqrt`, `sqrtSettle`, `Cbrt`, `Exp`, `integerPower`, `logSpecials`,
`Ln`, `Log10`, `Pow`) with the conventions of `Imp/Ops.lean`:

* the pointer parameters `d`, `x`, `y` are cells / `Src`s; every read of a field of `x`, `y` and every write of a
  field of `d` appears at the point and in the order where Go performs it; whatever reads an operand after `d` has
  been written reads the cell again (`approx.Set(d)`, `t.Cmp(d)`, `sq.Coeff.Mul(&d.Coeff, &d.Coeff)` in Sqrt,
  `ed.Mul(&z, d, d)` in Cbrt, `ed.Abs(&tmp, x)` / `ed.Mul(&tmp, z, &tmp)` in Pow, …);
* Go locals (`var f, approx, z Decimal`, the `ErrDecimal`, loop counters, `nc`) are Lean values.  Computation that
  touches locals only (the Newton loops, the series, the `ErrDecimal` bookkeeping, `ed.Ln(&tmp, &tmp)` in Pow) is
  pure and is computed by the helpers of `Model/Trans.lean` / `Model/TransLog.lean`; the blocks "between the copy-in
  and the write-out" are the pure functions `sqrtNewton`, `sqrtSettleT`, `cbrtNewton`, `lnPre`, `lnBody`, `powMid`
  below, which repeat the text of the corresponding part of the value-level model on the values that were read
  (`Lemmas/C05Trans*.lean` prove them equal to the model's parts: `sqrtOp_eq`, `cbrtOp_eq`, `expT_cp`, `lnT_eq`,
  `log10T_eq`, `powT_eq`);
* a call of a `Context` method whose DESTINATION is a Go local but whose operands are heap cells
  (`ed.Mul(&z, d, d)` in Cbrt, `nc.Quo(&r, x, &k)` in Exp, `nc.Ln(&z, x)` in Log10, `nc.integerPower(z, x, …)` with the
  fresh `z` of Pow, `ed.Abs(&tmp, x)`, `ed.Mul(&tmp, z, &tmp)`) is the store-level program of that method run with the
  local *virtualised*: `localize L p v` serves every access of `p` to the cell `L` from the local value `v` (and
  returns its final value); all other accesses stay heap accesses in the same order.  `L` is an address different
  from every cell the call touches (`freshCell`);
* the float64-steered decisions of Exp / Ln come from the same decision tape as in `Model/TransLog.lean`; the
  programs return `none` exactly when the value-level model does (fuel, tape mismatch).

`runTransOp` / `execTransOp` at the end are the executable entry points (op names "sqrt", "cbrt", "exp", "ln", "log10",
"pow").
-/
namespace Apd.Imp
open Apd Apd.Cond Prog

/-! ## Go locals as virtual cells -/

/-- run `p` with cell `L` turned into a local variable holding `v`: reads of `L` are served from the local, writes
to `L` update it, every other access is unchanged; returns the result and the final value of the local -/
def localize (L : Cell) : Prog α → Dec → Prog (α × Dec)
  | .ret a, v => .ret (a, v)
  | .getForm c k, v => if c = L then localize L (k v.form) v else .getForm c (fun f => localize L (k f) v)
  | .getNeg c k, v => if c = L then localize L (k v.neg) v else .getNeg c (fun f => localize L (k f) v)
  | .getExp c k, v => if c = L then localize L (k v.exp) v else .getExp c (fun f => localize L (k f) v)
  | .getCoeff c k, v => if c = L then localize L (k v.coeff) v else .getCoeff c (fun f => localize L (k f) v)
  | .setForm c f p, v => if c = L then localize L p { v with form := f } else .setForm c f (localize L p v)
  | .setNeg c f p, v => if c = L then localize L p { v with neg := f } else .setNeg c f (localize L p v)
  | .setExp c f p, v => if c = L then localize L p { v with exp := f } else .setExp c f (localize L p v)
  | .setCoeff c f p, v => if c = L then localize L p { v with coeff := f } else .setCoeff c f (localize L p v)

/-- an address for a Go local that differs from the three pointer arguments -/
def freshCell (a b c : Cell) : Cell := a + b + c + 1

/-- the cell an operand pointer points to (`0` for a package constant or a Go local passed by value) -/
def Src.addr : Src → Cell
  | .cell c => c
  | .const _ => 0

/-- `local.Set(x)`: the four fields of `x` in the order of `Decimal.setSlow` -/
def snapP (x : Src) : Prog Dec := do
  let f ← rdForm x
  let n ← rdNeg x
  let e ← rdExp x
  let cf ← rdCoeff x
  pure { form := f, neg := n, exp := e, coeff := cf }

/-- `return 0, err` / `return flags, err` without the `goError` conversion -/
def retErr (fl : Cond) (e : ErrKind) : Prog Res := pure (fl, e, 0)

/-! ## `rootSpecials`, `Sqrt` -/

/-- `Context.rootSpecials(d, x, factor)`: `some` = the result has been set -/
def rootSpecialsP (c : Ctx) (d : Cell) (x : Src) (factor : Int) : Prog (Option (Cond × ErrKind)) := do
  let isn ← shouldSetAsNaNP x none
  if isn then do
    let r ← setAsNaNP c d x none
    pure (some r)
  else do
    let xf ← rdForm x
    if xf == .infinite then do
      let xn ← rdNeg x
      if xn && factor % 2 == 0 then do
        setDec d (.const decNaN)
        pure (some (cInvalidOp, goError c.traps cInvalidOp))
      else do
        setDec d x
        pure (some ({}, .none))
    else do
      let sg ← signP x
      if sg == -1 then
        if factor % 2 == 0 then do
          setDec d (.const decNaN)
          pure (some (cInvalidOp, goError c.traps cInvalidOp))
        else pure none
      else if sg == 0 then do
        setDec d x
        let de ← rdExp (.cell d)                         -- d.Exponent /= factor
        wrExp d (Int.tdiv de factor)
        let res ← roundP c d (.cell d) true
        pure (some (res, goError c.traps res))
      else pure none

/-- `Context.Sqrt` between `f.Set(x)` and `ed.Err()`: everything on the locals `f`, `approx`, `tmp`, `nc`, `ed`.
Arguments: the digit count read for `workp`, the copy `f` of `x`, the digit count and the exponent read for `e`.
Returns the `ErrDecimal`, `approx`, `e` and `f` (with the scaled exponent). -/
def sqrtNewton (c : Ctx) (ndw : Nat) (f0 : Dec) (nd : Nat) (xe : Int) : ED × Dec × Int × Dec :=
  let workp := c.prec + 1
  let workp := if workp < ndw then ndw else workp
  let workp := if workp < 7 then 7 else workp
  let e0 : Int := (nd : Int) + xe
  let nc : Ctx := { c with prec := workp, mode := .halfEven, emin := MinExponent, emax := MaxExponent }
  let ed : ED := { c := nc }
  let even := (Int.tmod e0 2 == 0)
  let f : Dec := { f0 with exp := if even then -(nd : Int) else -(nd : Int) - 1 }
  let e : Int := if even then e0 else e0 + 1
  let a0 : Dec := if even then { coeff := 819, exp := -3 } else { coeff := 259, exp := -2 }
  let k0 : Dec := if even then { coeff := 259, exp := -3 } else { coeff := 819, exp := -4 }
  let r1 := ed.step a0 (fun c => mulOp c a0 f)
  let r2 := r1.1.step r1.2 (fun c => addOp c r1.2 k0 false)
  let r := sqrtLoop 64 r2.1 f r2.2 3 (workp + 5)
  (r.1, r.2, e, f)

/-- the part of `sqrtSettle` that works on its locals `t`, `mid`, `sq`: `none` = return 0 before `d` is looked at,
`some t` = the candidate to compare with `d` -/
def sqrtSettleT (nc : Ctx) (approx x : Dec) : Option Dec :=
  let dn := ctxRound { nc with mode := .down } approx
  if !dn.2.inexact || dn.1.form != .finite || (ndigits dn.1.coeff != nc.prec && !dn.2.subnormal) then none else
  let t := dn.1
  let mid : Dec := { t with coeff := t.coeff * 10 + 5, exp := t.exp - 1 }
  let sq : Dec := { coeff := mid.coeff * mid.coeff, exp := 2 * mid.exp }
  let cmp := sq.cmp x
  some (
    if cmp < 0 || (cmp == 0 && t.coeff % 2 == 1) then
      let c1 := t.coeff + 1
      if ndigits c1 > nc.prec then { t with coeff := c1 / 10, exp := t.exp + 1 } else { t with coeff := c1 }
    else t)

/-- `sqrtSettle(nc, d, &approx, &f)`: `approx` and `f` are locals of `Sqrt` -/
def sqrtSettleP (nc : Ctx) (d : Cell) (approx x : Dec) : Prog Cond :=
  match sqrtSettleT nc approx x with
  | none => pure {}
  | some t => do
    let cm ← cmpP (.const t) (.cell d)                   -- t.Cmp(d)
    if cm == 0 then pure {} else roundP nc d (.const t) true

/-- `flag && d.Form == Finite` (Go's `&&` reads `d.Form` only when `flag` holds) -/
def andFiniteP (flag : Bool) (d : Cell) : Prog Bool :=
  if flag then do
    let df ← rdForm (.cell d)
    pure (df == .finite)
  else pure false

/-- `if res.Inexact() && d.Form == Finite { res |= sqrtSettle(nc, d, &approx, &f) }` -/
def sqrtSettleIfP (ncw : Ctx) (d : Cell) (approx fx : Dec) (res : Cond) : Prog Cond := do
  let settle ← andFiniteP res.inexact d
  if settle then do
    let s ← sqrtSettleP ncw d approx fx
    pure (res ||| s)
  else pure res

/-- the exactness re-check at the end of `Sqrt` and `return nc.goError(res)` -/
def sqrtExactP (nc2 : Ctx) (d : Cell) (fx : Dec) (res : Cond) : Prog Res := do
  let chk ← andFiniteP (!res.inexact) d                  -- if !res.Inexact() && d.Form == Finite
  if chk then do
    let c1 ← rdCoeff (.cell d)                           -- sq.Coeff.Mul(&d.Coeff, &d.Coeff)
    let c2 ← rdCoeff (.cell d)
    let de ← rdExp (.cell d)                             -- sq.Exponent = 2 * d.Exponent
    let sq : Dec := { coeff := c1 * c2, exp := 2 * de }
    if sq.cmp fx != 0 then retFlags nc2 (res ||| cInexact ||| cRounded)
    else retFlags nc2 res
  else retFlags nc2 res

/-- `Context.Sqrt` from `d.Set(&approx)` on: `approx`, `e` and `f` are the locals after the loop -/
def sqrtFinishP (c : Ctx) (d : Cell) (approx : Dec) (e : Int) (f : Dec) : Prog Res := do
  setDec d (.const approx)                               -- d.Set(&approx)
  let de ← rdExp (.cell d)                               -- d.Exponent += int32(e / 2)
  wrExp d (de + Int.tdiv e 2)
  let nc2 : Ctx := { c with prec := c.prec, mode := .halfEven }
  let ncw : Ctx := { nc2 with emax := MaxExponent }
  let approx ← snapP (.cell d)                           -- approx.Set(d)
  let fx : Dec := { f with exp := f.exp + e }            -- f.Exponent += int32(e)
  let res ← roundP ncw d (.cell d) true                  -- res := nc.round(d, d)
  let res ← sqrtSettleIfP ncw d approx fx res
  let r2 ← roundP nc2 d (.cell d) true                   -- nc.MaxExponent = c.MaxExponent; res |= nc.round(d, d)
  sqrtExactP nc2 d fx (res ||| r2)

/-- `Context.Sqrt` -/
def sqrtP (c : Ctx) (d : Cell) (x : Src) : Prog Res := do
  let sp ← rootSpecialsP c d x 2
  match sp with
  | some r => pure (r.1, r.2, 0)
  | none => do
    let ndw ← numDigitsP x                               -- workp: uint32(x.NumDigits())
    let f0 ← snapP x                                     -- f.Set(x)
    let nd ← numDigitsP x                                -- nd := x.NumDigits()
    let xe ← rdExp x                                     -- e := nd + int64(x.Exponent)
    let it := sqrtNewton c ndw f0 nd xe
    if it.1.failed then retErr {} it.1.errOf             -- if err := ed.Err(); err != nil { return 0, err }
    else sqrtFinishP c d it.2.1 it.2.2.1 it.2.2.2

/-! ## `ErrDecimal` calls that touch the heap -/

/-- `ed.Op(&cur, …)` where the call `p` reads heap cells: skipped when `ed.Err() != nil`, else `p` runs under
`ed.Ctx`, its flags are accumulated and its error recorded; `p` returns the result triple and the new value of the
destination local `cur` -/
def edStepP (e : ED) (cur : Dec) (p : Ctx → Prog (Res × Dec)) : Prog (ED × Dec) :=
  if e.failed then pure (e, cur) else do
    let r ← p e.c
    pure ({ e with fl := e.fl ||| r.1.1, err := r.1.2.1 }, r.2)

/-! ## `Cbrt` -/

/-- `Context.Cbrt` between `z.Set(&ax)` and the end of the Newton loop, on the locals `z`, `z0`, `ed`, `nc`, `exp8`,
`loop`: `none` = out of fuel, `inl err` = `return 0, err`, `inr (z, flags)` = the loop is done -/
def cbrtNewton (c : Ctx) (ax : Dec) : Option (Sum ErrKind (Dec × Cond)) :=
  let nc : Ctx := { baseCtx with prec := c.prec * 2 + 2 }
  let ed : ED := { c := nc }
  match scaleLoop (fun z => z.cmp decOneEighth < 0) decEight 400000 ed ax 0 with
  | none => none
  | some (.inl er) => some (.inl er)                       -- if err := ed.Err(); err != nil { return 0, err }
  | some (.inr (ed, z, down)) =>
  match scaleLoop (fun z => z.cmp decOne > 0) decOneEighth 400000 ed z 0 with
  | none => none
  | some (.inl er) => some (.inl er)                       -- if err := ed.Err(); err != nil { return 0, err }
  | some (.inr (ed, z, up)) =>
    let z0 := z
    let r1 := ed.step z (fun c => mulOp c z cbrtC1)
    let r2 := r1.1.step r1.2 (fun c => addOp c r1.2 cbrtC2 false)
    let r3 := r2.1.step r2.2 (fun c => mulOp c r2.2 z0)
    let r4 := r3.1.step r3.2 (fun c => addOp c r3.2 cbrtC3 false)
    let r5 := if down > up then mulN decHalf (down - up) r4.1 r4.2 else mulN decTwo (up - down) r4.1 r4.2
    let maxIter := 10 + (c.prec + 1)
    match cbrtIter nc ((c.prec : Int) + 1) maxIter ax (maxIter + 2) r5.1 r5.2 {} with
    | none => none
    | some (.inl er) => some (.inl er)
    | some (.inr z) => some (.inr (z, r5.1.fl))

/-- the exactness check at the end of `Cbrt`: `nc.Precision = c.Precision * 3; ed.Mul(&z, d, d); ed.Mul(&z, &z, d)`,
then the three returns.  `z0` is the copy of `x`, `z` the iterate, `fl` the flags of the `ErrDecimal`, `res`/`err`
what `c.goError(rc.round(d, &z))` returned. -/
def cbrtCheckP (c : Ctx) (d : Cell) (z0 z : Dec) (fl res : Cond) (err : ErrKind) : Prog Res := do
  let nc3 : Ctx := { baseCtx with prec := c.prec * 3 }   -- nc.Precision = c.Precision * 3
  let e : ED := { c := nc3, fl := fl, err := .none }
  let L := freshCell d d d                               -- the address of the local `z`
  let q1 ← edStepP e z (fun cc => localize L (mulP cc L (.cell d) (.cell d)) z)           -- ed.Mul(&z, d, d)
  let q2 ← edStepP q1.1 q1.2 (fun cc => localize L (mulP cc L (.cell L) (.cell d)) q1.2) -- ed.Mul(&z, &z, d)
  if q2.1.failed then retErr {} q2.1.errOf               -- if err := ed.Err(); err != nil { return 0, err }
  else if z0.cmp q2.2 == 0 then retErr {} .none          -- if z0.Cmp(&z) == 0 { return 0, nil }
  else retErr res err

/-- `Context.Cbrt` from `z0.Set(x)` on: `z` is the converged iterate, `fl` the flags of the `ErrDecimal`, `neg` the
sign read at the start -/
def cbrtFinishP (c : Ctx) (d : Cell) (x : Src) (neg : Bool) (z : Dec) (fl : Cond) : Prog Res := do
  let z0 ← snapP x                                       -- z0.Set(x)
  let rc : Ctx := { c with mode := .halfEven }           -- rc := c.WithPrecision(c.Precision); rc.Rounding = RoundHalfEven
  let res ← roundP rc d (.const z) true                  -- res := rc.round(d, &z)
  let err := goError c.traps res                         -- res, err := c.goError(res)
  wrNeg d neg                                            -- d.Negative = neg
  cbrtCheckP c d z0 z fl res err

/-- `Context.Cbrt`; `none` = the model ran out of fuel -/
def cbrtP (c : Ctx) (d : Cell) (x : Src) : Prog (Option Res) := do
  let sp ← rootSpecialsP c d x 3
  match sp with
  | some r => pure (some (r.1, r.2, 0))
  | none => do
    let ax0 ← snapP x                                    -- ax.Abs(x): ax.Set(x); ax.Negative = false
    let ax : Dec := { ax0 with neg := false }
    let neg ← rdNeg x                                    -- neg := x.Negative
    match cbrtNewton c ax with
    | none => pure none
    | some (.inl er) => do
      let r ← retErr {} er
      pure (some r)
    | some (.inr zf) => do
      let r ← cbrtFinishP c d x neg zf.1 zf.2
      pure (some r)

/-! ## `integerPower` -/

/-- `ed.Op(z, …)` where the destination `z` is a heap cell: skipped when `ed.Err() != nil`, else `p` runs under
`ed.Ctx`, its flags are accumulated and its error recorded -/
def edStepCellP (e : ED) (p : Ctx → Prog Res) : Prog ED :=
  if e.failed then pure e else do
    let r ← p e.c
    pure { e with fl := e.fl ||| r.1, err := r.2.1 }

/-- the square-and-multiply loop of `Context.integerPower`: `z` is the cell `d`, `n` and `b` are locals.
Returns the `ErrDecimal` (the model's `intPowLoop` also returns `z`, which here is `d`'s contents). -/
def intPowLoopP : Nat → ED → Nat → Cell → Dec → Prog ED
  | 0, e, _, _, _ => pure e
  | fuel+1, e, b, d, n =>
    if b == 0 then pure e else do
      let e1 ← (if b % 2 == 1 then edStepCellP e (fun cc => mulP cc d (.cell d) (.const n))   -- ed.Mul(z, z, &n)
                else pure e)
      let b' := b / 2                                      -- b.Rsh(&b, 1)
      let r2 := if b' > 0 then e1.step n (fun cc => mulOp cc n n) else (e1, n)            -- ed.Mul(&n, &n, &n)
      if r2.1.failed then pure r2.1 else intPowLoopP fuel r2.1 b' d r2.2

/-- `Context.integerPower(d, x, y)`: flags and error class (`d` and `x` must not be the same `Decimal`) -/
def integerPowerP (c : Ctx) (d : Cell) (x : Src) (y : Int) : Prog (Cond × ErrKind) := do
  let b := y.natAbs                                        -- b.Set(y); neg := b.Sign() < 0; b.Abs(&b)
  let neg := decide (y < 0)
  let n ← snapP x                                          -- n.Set(x)
  setDec d (.const decOne)                                 -- z := d; z.Set(decimalOne)
  let e ← intPowLoopP (Nat.log2 b + 2) { c := c } b d n
  if e.failed then
    pure ((if neg then e.fl.negateOverflowFlags else e.fl), e.errOf)
  else do
    let q ← (if neg then edStepCellP e (fun cc => quoP cc d (.const decOne) (.cell d))    -- ed.Quo(z, decimalOne, z)
             else pure e)
    pure (q.fl, q.errOf)

/-! ## `Exp` -/

/-- `Decimal.SetFinite(x, e)` = `setCoefficient(x); d.Exponent = e` -/
def setFiniteP (d : Cell) (v : Int) (e : Int) : Prog Unit := do
  wrNeg d (decide (v < 0))
  wrCoeff d v.natAbs                                       -- d.Coeff.SetInt64(x)
  let cf ← rdCoeff (.cell d)                               -- d.Coeff.Abs(&d.Coeff)
  wrCoeff d cf
  wrForm d .finite
  wrExp d e

/-- a result with the remaining tape -/
def retT (r : Res) (tape : Tape) : Prog (Option (Res × Tape)) := pure (some (r, tape))

/-- `Context.Exp` from stage 4's `integerPower` on: `sum`, `t` are locals, `res0 = Inexact | Rounded` -/
def expFinishP (c nc : Ctx) (d : Cell) (sum : Dec) (t : Nat) : Prog Res := do
  let ip ← integerPowerP nc d (.const sum) ((10 : Int) ^ t)   -- ires, err := nc.integerPower(d, &sum, ki)
  if ip.2 != .none then retErr {} ip.2                      -- return 0, fmt.Errorf("integer power: %w", err)
  else do
    let res := (cInexact ||| cRounded) ||| ip.1
    -- nc.Precision = c.Precision; nc.MinExponent = c.MinExponent; nc.MaxExponent = c.MaxExponent
    let rr ← roundP { c with mode := .halfEven } d (.cell d) true
    retFlags c (res ||| rr)

/-- the working precision of `Exp` after the correction for the float64 rounding of `|x|` (the text of `expT`) -/
def expCp (ax : Dec) (cp : Nat) : Nat :=
  if cp < 999 && ax.cmp { coeff := (cp + 1) * 23 } ≤ 0 && ax.cmp { coeff := cp * 23 } > 0 then cp + 1 else cp

/-- stages 3 and 4 of `Context.Exp`: `r` is the reduced argument, `nc` the working context, `t` the exponent of `k`;
the tape supplies the number of series terms -/
def expSeriesP (c nc : Ctx) (d : Cell) (r : Dec) (t : Nat) (tape : Tape) : Prog (Option (Res × Tape)) :=
  match tape with
  | .n n :: tape =>
    if n < 0 then retT ({}, .other, 0) tape                -- "too many iterations"
    else
      let s := expSeries r (n.toNat - 1) { c := nc } decOne
      if s.1.failed then retT ({}, s.1.errOf, 0) tape
      else do
        let r ← expFinishP c nc d s.2 t
        retT r tape
  | _ => pure none

/-- `Context.Exp` from the overflow test on: `ax` is `|x|` (the local `tmp1`), `cp` the working precision -/
def expMainP (c : Ctx) (d : Cell) (x : Src) (ax : Dec) (cp : Nat) (tape : Tape) : Prog (Option (Res × Tape)) :=
  let res0 := cInexact ||| cRounded
  if ax.cmp { coeff := cp * 23 } > 0 then do
    let res := res0 ||| cOverflow
    let sg ← signP x
    if sg < 0 then do
      let res := res.negateOverflowFlags ||| cClamped
      setFiniteP d 0 (c.emin - (c.prec : Int) + 1)         -- d.SetFinite(0, c.etiny())
      retT (res, goError c.traps res, 0) tape
    else do
      setDec d (.const decInf)
      retT (res, goError c.traps res, 0) tape
  else if ax.cmp { coeff := 9, exp := -(cp : Int) - 1 } ≤ 0 then do
    setDec d (.const decOne)
    retT (res0, goError c.traps res0, 0) tape
  else do
    let xe ← rdExp x                                       -- t := x.Exponent + int32(x.NumDigits())
    let nd ← numDigitsP x
    let t0 : Int := xe + (nd : Int)
    let t : Nat := if t0 < 0 then 0 else t0.toNat
    let k : Dec := { coeff := 1, exp := t }
    let p : Nat := cp + t + 2
    let nc : Ctx := { c with prec := p, mode := .halfEven, emin := MinExponent, emax := MaxExponent }
    let L := freshCell d x.addr 0                          -- the address of the local `r`
    let qr ← localize L (quoP nc L x (.const k)) {}        -- nc.Quo(&r, x, &k)
    if qr.1.2.1 != .none then retT ({}, qr.1.2.1, 0) tape  -- return 0, fmt.Errorf("Quo: %w", err)
    else expSeriesP c nc d qr.2 t tape

/-- `Context.Exp`; the tape supplies the working precision `cp` and the number of series terms `n` -/
def expP (c : Ctx) (d : Cell) (x : Src) (tape : Tape) : Prog (Option (Res × Tape)) := do
  let isn ← shouldSetAsNaNP x none
  if isn then do
    let r ← setAsNaNP c d x none
    retT (r.1, r.2, 0) tape
  else do
    let xf ← rdForm x
    if xf == .infinite then do
      let xn ← rdNeg x
      (if xn then setDec d (.const decZero) else setDec d (.const decInf))
      retT ({}, .none, 0) tape
    else do
      let xz ← isZeroP x
      if xz then do
        setDec d (.const decOne)
        retT ({}, .none, 0) tape
      else if c.prec == 0 then retT ({}, .zeroPrec, 0) tape
      else do
        let t1 ← snapP x                                   -- tmp1.Abs(x)
        let ax : Dec := { t1 with neg := false }
        match tape with
        | .cp cp :: tape => expMainP c d x ax (expCp ax cp) tape
        | _ => pure none

/-! ## `logSpecials`, `Ln`, `Log10` -/

/-- `Context.logSpecials(d, x)`: `some` = the result has been set -/
def logSpecialsP (c : Ctx) (d : Cell) (x : Src) : Prog (Option (Cond × ErrKind)) := do
  let isn ← shouldSetAsNaNP x none
  if isn then do
    let r ← setAsNaNP c d x none
    pure (some r)
  else do
    let sg ← signP x
    if sg < 0 then do
      setDec d (.const decNaN)
      pure (some (cInvalidOp, goError c.traps cInvalidOp))
    else do
      let xf ← rdForm x
      if xf == .infinite then do
        setDec d (.const decInf)
        pure (some ({}, .none))
      else do
        let c0 ← cmpP x (.const decZero)
        if c0 == 0 then do
          setDec d (.const decInf)
          wrNeg d true
          pure (some ({}, .none))
        else do
          let c1 ← cmpP x (.const decOne)
          if c1 == 0 then do
            setDec d (.const decZero)
            pure (some ({}, .none))
          else pure none

/-- `Context.Ln` after `z.Set(x)` up to the choice between the power series and Halley's iteration, on the locals:
`(ed, z, tmp1, resAdjust, usePowerSeries, tape)` (the text of `lnT`) -/
def lnPre (c : Ctx) (x : Dec) (tape : Tape) : Option (ED × Dec × Dec × Dec × Bool × Tape) :=
  let p := c.prec + 2
  let nc : Ctx := { c with prec := p, mode := .halfEven, emin := MinExponent, emax := MaxExponent }
  let ed : ED := { c := nc }
  let tenth : Dec := { coeff := 1, exp := -1 }
  let a1 := ed.step decZero (fun c => addOp c x decOne true)
  if a1.2.absD.cmp tenth ≤ 0 then some (a1.1, x, a1.2, decZero, true, tape)
  else
    let expDelta : Int := (ndigits x.coeff : Int) + x.exp
    let z : Dec := { x with exp := x.exp - expDelta }
    let ra0 : Dec := { neg := decide (expDelta < 0), coeff := expDelta.natAbs }
    let a2 := a1.1.step ra0 (fun c => mulOp c ra0 (ln10At p))
    let a3 := a2.1.step a1.2 (fun c => addOp c z decOne true)
    if a3.2.absD.cmp tenth ≤ 0 then some (a3.1, z, a3.2, a2.2, true, tape)
    else
      match tape with
      | .est d :: tape => some (a3.1, z, d, a2.2, false, tape)
      | _ => none

/-- the power series / Halley's iteration of `Context.Ln`, on the locals (the text of `lnT`) -/
def lnBody (c : Ctx) (ed : ED) (z tmp1 : Dec) (series : Bool) (tape : Tape) :
    Option (ED × Sum ErrKind Dec × Tape) :=
  let p := c.prec + 2
  let nc : Ctx := { c with prec := p, mode := .halfEven, emin := MinExponent, emax := MaxExponent }
  let tenth : Dec := { coeff := 1, exp := -1 }
  if series then
    let b1 := ed.step tenth (fun c => addOp c tmp1 decTwo false)
    let b2 := b1.1.step tmp1.absD (fun c => quoOp c tmp1 b1.2)
    let b3 := b2.1.step b1.2 (fun c => addOp c b2.2 b2.2 false)
    let eps : Dec := { coeff := 1, exp := -(p : Int) }
    match lnSeries eps b2.2 (p + 10) 1 b3.1 b3.2 b3.2 with
    | none => none
    | some (e, r) => some (e, r, tape)
  else
    let maxIter := 10 + (c.prec + 1)
    lnHalley nc ((c.prec : Int) + 1) maxIter z (maxIter + 2) ed tmp1 {} tape

/-- `Context.Ln` from `ed.Add(&tmp1, &tmp1, &resAdjust)` on -/
def lnFinishP (c : Ctx) (d : Cell) (ed : ED) (tmp1 resAdjust : Dec) : Prog Res :=
  let f := ed.step tmp1 (fun cc => addOp cc tmp1 resAdjust false)   -- ed.Add(&tmp1, &tmp1, &resAdjust)
  if f.1.failed then retErr {} f.1.errOf                    -- if err := ed.Err(); err != nil { return 0, err }
  else do
    let res ← roundP c d (.const f.2) true                  -- res := c.round(d, &tmp1)
    retFlags c (res ||| cInexact ||| cRounded)                           -- res |= Inexact; return c.goError(res)

/-- `Context.Ln`; the tape supplies the float64 starting estimate of Halley's iteration (and the decisions of the
`Exp` calls inside it) -/
def lnP (c : Ctx) (d : Cell) (x : Src) (tape : Tape) : Prog (Option (Res × Tape)) := do
  let sp ← logSpecialsP c d x
  match sp with
  | some r => retT (r.1, r.2, 0) tape
  | none => do
    let z ← snapP x                                         -- z.Set(x)
    match lnPre c z tape with
    | none => pure none
    | some (ed, z, tmp1, resAdjust, series, tape) => do
      -- nc.newLoop("ln", x, …) keeps a copy of its argument: new(Decimal).Set(arg)
      (if series then pure () else do let _ ← snapP x; pure ())
      match lnBody c ed z tmp1 series tape with
      | none => pure none
      | some (_, .inl er, tape) => retT ({}, er, 0) tape
      | some (ed, .inr tmp1, tape) => do
        let r ← lnFinishP c d ed tmp1 resAdjust
        retT r tape

/-- `Context.Log10` -/
def log10P (c : Ctx) (d : Cell) (x : Src) (tape : Tape) : Prog (Option (Res × Tape)) := do
  let sp ← logSpecialsP c d x
  match sp with
  | some r => retT (r.1, r.2, 0) tape
  | none => do
    let nc : Ctx := { baseCtx with prec := c.prec + 2, mode := .halfEven }
    let L := freshCell d x.addr 0                           -- the address of the local `z`
    let lr ← localize L (lnP nc L x tape) {}                -- _, err := nc.Ln(&z, x)
    match lr.1 with
    | none => pure none
    | some (l, tape) =>
      if l.2.1 != .none then retT ({}, l.2.1, 0) tape       -- return 0, fmt.Errorf("ln: %w", err)
      else do
        -- nc.Precision = c.Precision; qr, err := nc.Mul(d, &z, decimalInvLn10.get(c.Precision+2))
        let m ← mulP { nc with prec := c.prec } d (.const lr.2) (.const (invLn10At (c.prec + 2)))
        if m.2.1 != .none then retT ({}, m.2.1, 0) tape
        else do
          let rr ← roundP c d (.cell d) true                -- res |= c.round(d, d)
          let res := (cInexact ||| cRounded) ||| m.1 ||| rr
          retT (res, goError c.traps res, 0) tape

/-! ## `Pow` -/

/-- `y.Modf(&integ, &frac)` with both outputs Go locals: `(integ, frac)` -/
def modfLoc2 (d : Src) : Prog (Dec × Dec) := do
  let neg ← rdNeg d
  let e0 ← rdExp d
  if e0 > 0 then do
    let i ← snapP d                                         -- integ.Set(d)
    pure (i, { form := .finite, neg := neg, exp := 0, coeff := 0 })
  else do
    let nd ← numDigitsP d
    let dexp ← rdExp d
    let exp : Int := -dexp
    if exp > (nd : Int) then do
      let f ← snapP d                                       -- frac.Set(d)
      pure ({ form := .finite, neg := neg, exp := 0, coeff := 0 }, f)
    else do
      let e := 10 ^ exp.toNat
      let dc ← rdCoeff d                                    -- icoeff.QuoRem(&d.Coeff, e, &frac.Coeff)
      pure ({ form := .finite, neg := neg, exp := 0, coeff := dc / e },
            { form := .finite, neg := neg, exp := dexp, coeff := dc % e })

/-- the middle of `x**frac(y)` in `Context.Pow`, on the local `tmp`: `ed.Ln(&tmp, &tmp); ed.Mul(&tmp, &tmp, &frac);
ed.Exp(&tmp, &tmp)` (the text of `powT`); `none` = the tape does not fit -/
def powMid (nc : Ctx) (s1 : ED × Dec) (frac : Dec) (tape : Tape) : Option (ED × Dec × Tape) :=
  let s2 : Option (ED × Dec × Tape) :=
    if s1.1.failed then some (s1.1, s1.2, tape) else
    match lnT nc s1.2 tape with
    | none => none
    | some (o, tape) => some ({ s1.1 with fl := s1.1.fl ||| o.fl, err := o.err }, o.d, tape)
  match s2 with
  | none => none
  | some (e2, tmp, tape) =>
    let s3 := e2.step tmp (fun c => mulOp c tmp frac)
    if s3.1.failed then some (s3.1, s3.2, tape) else
    match expT nc s3.2 tape with
    | none => none
    | some (o, tape) => some ({ s3.1 with fl := s3.1.fl ||| o.fl, err := o.err }, o.d, tape)

/-- `Context.Pow` after the integer power when `y` is not an integer: `zs` points to `z` (the cell `d`, or the value
of the fresh local when `d == x`), `tmp0` is the local `tmp` (it holds `|y|`) -/
def powFracP (c nc : Ctx) (d : Cell) (x zs : Src) (frac tmp0 : Dec) (neg : Bool) (res : Cond) (tape : Tape) :
    Prog (Option (Res × Tape)) := do
  let L := freshCell d x.addr zs.addr                       -- the address of the local `tmp`
  let ed : ED := { c := nc }
  let s1 ← edStepP ed tmp0 (fun cc => localize L (absP cc L x) tmp0)          -- ed.Abs(&tmp, x)
  match powMid nc s1 frac tape with
  | none => pure none
  | some (e4, tmp, tape) => do
    let s5 ← edStepP e4 tmp (fun cc => localize L (mulP cc L zs (.cell L)) tmp)   -- ed.Mul(&tmp, z, &tmp)
    if s5.1.failed then do                                  -- if err := ed.Err(); err != nil {
      setDec d (.const decNaN)                              --   d.Set(decimalNaN)
      retT (s5.1.fl, s5.1.errOf, 0) tape                    --   return ed.Flags, err }
    else do
      let rr ← roundP c d (.const s5.2) true                -- res |= c.round(d, &tmp)
      wrNeg d neg                                           -- d.Negative = neg
      let res := res ||| rr ||| cInexact ||| cRounded
      retT (res, goError c.traps res, 0) tape

/-- `Context.Pow` after `nc.integerPower(z, x, …)`: `zs` points to `z`, `ip` is what `integerPower` returned, `qfl` the
flags of `c.quantize(&integ, &integ, 0)` -/
def powRestP (c nc : Ctx) (d : Cell) (x zs : Src) (ip : Cond × ErrKind) (qfl : Cond) (frac tmp0 : Dec)
    (yIsInt neg : Bool) (tape : Tape) : Prog (Option (Res × Tape)) :=
  let res := qfl ||| ip.1                                   -- res |= nres
  if ip.2 != .none then do
    setDec d (.const decNaN)                                -- d.Set(decimalNaN); return res, err
    retT (res, ip.2, 0) tape
  else if yIsInt then do
    let rr ← roundP c d zs true                             -- res |= c.round(d, z)
    let res := res ||| rr
    retT (res, goError c.traps res, 0) tape
  else powFracP c nc d x zs frac tmp0 neg res tape

/-- `Context.Pow` from `p := c.Precision` on (no special case applies) -/
def powMainP (c : Ctx) (d : Cell) (x : Src) (integ0 frac tmp0 : Dec) (yIsInt neg : Bool) (tape : Tape) :
    Prog (Option (Res × Tape)) := do
  let nd ← numDigitsP x                                     -- if nd := uint32(x.NumDigits()); p < nd { p = nd }
  let p := (if c.prec < nd then nd else c.prec) + 10
  let nc : Ctx := { baseCtx with prec := p }
  let qi := quantizeCore c integ0 0                         -- res := c.quantize(&integ, &integ, 0)
  let integ : Int := if qi.1.neg then -(qi.1.coeff : Int) else (qi.1.coeff : Int)
  -- z := d; if z == x { z = new(Decimal) };  nres, err := nc.integerPower(z, x, …)
  if x = .cell d then do
    let L := freshCell d x.addr 0                           -- the address of the fresh `z`
    let r ← localize L (integerPowerP nc L x integ) {}
    powRestP c nc d x (.const r.2) r.1 qi.2 frac tmp0 yIsInt neg tape
  else do
    let r ← integerPowerP nc d x integ
    powRestP c nc d x (.cell d) r qi.2 frac tmp0 yIsInt neg tape

/-- `Context.Pow` -/
def powP (c : Ctx) (d : Cell) (x y : Src) (tape : Tape) : Prog (Option (Res × Tape)) := do
  let isn ← shouldSetAsNaNP x (some y)
  if isn then do
    let r ← setAsNaNP c d x (some y)
    retT (r.1, r.2, 0) tape
  else do
    let m ← modfLoc2 y                                      -- y.Modf(&integ, &frac)
    let yIsInt := m.2.isZero
    -- neg := x.Negative && y.Form == Finite && yIsInt && integ.Coeff.Bit(0) == 1 && integ.Exponent == 0
    let xn ← rdNeg x
    let yfin ← (if xn then do let yf ← rdForm y; pure (yf == .finite) else pure false)
    let neg := xn && yfin && yIsInt && m.1.coeff % 2 == 1 && m.1.exp == 0
    let xf ← rdForm x
    if xf == .infinite then do
      let ys ← signP y
      let res ← (if ys == 0 then do
                   setDec d (.const decOne); pure ({} : Cond)
                 else do
                   let xn ← rdNeg x
                   let bad ← (if xn then do let yf ← rdForm y; pure (yf == .infinite || !yIsInt) else pure false)
                   if bad then do
                     setDec d (.const decNaN); pure cInvalidOp
                   else do
                     let yn ← rdNeg y
                     (if yn then setDec d (.const decZero) else setDec d (.const decInf))
                     pure {})
      wrNeg d neg
      retT (res, goError c.traps res, 0) tape
    else do
      let t0 ← snapP y                                      -- tmp.Abs(y)
      let tmp0 : Dec := { t0 with neg := false }
      let xs ← signP x
      let ys ← signP y
      if xs == 0 then do
        let res ← (if ys == 0 then do
                     setDec d (.const decNaN); pure cInvalidOp
                   else if ys == 1 then do
                     setDec d (.const decZero); pure ({} : Cond)
                   else do
                     setDec d (.const decInf); pure {})
        wrNeg d neg
        retT (res, goError c.traps res, 0) tape
      else if ys == 0 then do
        setDec d (.const decOne)
        retT ({}, .none, 0) tape
      else do
        let yf ← rdForm y
        if yf == .infinite then do
          let cmp ← cmpP x (.const decOne)
          let res ← (if xs < 0 then do
                       setDec d (.const decNaN); pure cInvalidOp
                     else if cmp == 0 then do
                       setDec d (.const decOne); pure ({} : Cond)
                     else do
                       let yn ← rdNeg y
                       if (decide (cmp > 0)) != yn then do
                         setDec d (.const decInf); pure {}
                       else do
                         setDec d (.const decZero); pure {})
          retT (res, goError c.traps res, 0) tape
        else if xs < 0 && !yIsInt then do
          setDec d (.const decNaN)
          retT (cInvalidOp, goError c.traps cInvalidOp, 0) tape
        else powMainP c d x m.1 m.2 tmp0 yIsInt neg tape

/-! ## the table of composite operations -/

/-- the store-level program of a composite `Context` method, by the op names of `runCtxOp` / `runCtxOpT`
(`Model/Dispatch.lean`); `d`, `x`, `y` are the pointer arguments (any of them may coincide); unary ops ignore `y`;
`tape` is the decision tape of the float64-steered functions (returned unchanged by `sqrt` and `cbrt`).  The program
returns `none` when the value-level model does (fuel, tape mismatch). -/
def runTransOp (op : String) (c : Ctx) (d x y : Cell) (tape : Tape) : Option (Prog (Option (Res × Tape))) :=
  if op = "sqrt" then some (do let r ← sqrtP c d (.cell x); pure (some (r, tape)))
  else if op = "cbrt" then some (do let r ← cbrtP c d (.cell x); pure (r.map (fun r => (r, tape))))
  else if op = "exp" then some (expP c d (.cell x) tape)
  else if op = "ln" then some (lnP c d (.cell x) tape)
  else if op = "log10" then some (log10P c d (.cell x) tape)
  else if op = "pow" then some (powP c d (.cell x) (.cell y) tape)
  else none

/-- run a composite operation on a heap; returns the result (triple and remaining tape) and the final heap -/
def execTransOp (op : String) (c : Ctx) (d x y : Cell) (tape : Tape) (h : Heap) :
    Option (Option (Res × Tape) × Heap) :=
  (runTransOp op c d x y tape).map (fun p => run p h)

end Apd.Imp
