import ApdVerif.Model.Basic
/-!
# Store-level layer: a free monad of field reads / writes on `Decimal` cells (core Lean only)

`Cell`s are the addresses of `apd.Decimal` objects, a `Heap` maps every cell to its current value
(`Dec` of `Model/Basic.lean`).  A `Prog α` is a tree of primitive field accesses; `run` executes it
sequentially, `step1` executes one primitive access (used for interleavings, `runSched`).

* `WritesOnly S p` : every write of `p` goes to a cell in `S`;
* `Foot R W p`     : every read of `p` is in `R ∪ W`, every write in `W`;
* `interleave_inv` : threads whose write sets are disjoint from the other threads' footprints see,
  under every schedule, a prefix of their solo run.
-/
namespace Apd.Imp
open Apd

abbrev Cell := Nat
abbrev Heap := Cell → Dec

inductive Prog (α : Type) where
  | ret : α → Prog α
  | getForm : Cell → (Form → Prog α) → Prog α
  | getNeg : Cell → (Bool → Prog α) → Prog α
  | getExp : Cell → (Int → Prog α) → Prog α
  | getCoeff : Cell → (Nat → Prog α) → Prog α
  | setForm : Cell → Form → Prog α → Prog α
  | setNeg : Cell → Bool → Prog α → Prog α
  | setExp : Cell → Int → Prog α → Prog α
  | setCoeff : Cell → Nat → Prog α → Prog α

namespace Prog
def bind : Prog α → (α → Prog β) → Prog β
  | ret a, f => f a
  | getForm c k, f => getForm c (fun v => bind (k v) f)
  | getNeg c k, f => getNeg c (fun v => bind (k v) f)
  | getExp c k, f => getExp c (fun v => bind (k v) f)
  | getCoeff c k, f => getCoeff c (fun v => bind (k v) f)
  | setForm c v p, f => setForm c v (bind p f)
  | setNeg c v p, f => setNeg c v (bind p f)
  | setExp c v p, f => setExp c v (bind p f)
  | setCoeff c v p, f => setCoeff c v (bind p f)

instance : Monad Prog where
  pure := ret
  bind := bind
end Prog

open Prog

/-- apply `f` to the contents of cell `c` -/
def upd (h : Heap) (c : Cell) (f : Dec → Dec) : Heap := fun c' => if c' = c then f (h c') else h c'

/-- overwrite cell `c` -/
def Heap.set (h : Heap) (c : Cell) (v : Dec) : Heap := fun c' => if c' = c then v else h c'

/-- sequential execution -/
def run : Prog α → Heap → α × Heap
  | ret a, h => (a, h)
  | getForm c k, h => run (k (h c).form) h
  | getNeg c k, h => run (k (h c).neg) h
  | getExp c k, h => run (k (h c).exp) h
  | getCoeff c k, h => run (k (h c).coeff) h
  | setForm c v p, h => run p (upd h c (fun d => { d with form := v }))
  | setNeg c v p, h => run p (upd h c (fun d => { d with neg := v }))
  | setExp c v p, h => run p (upd h c (fun d => { d with exp := v }))
  | setCoeff c v p, h => run p (upd h c (fun d => { d with coeff := v }))

/-- every write goes to a cell in `S` -/
inductive WritesOnly (S : Cell → Prop) : Prog α → Prop
  | ret a : WritesOnly S (ret a)
  | getForm c k : (∀ v, WritesOnly S (k v)) → WritesOnly S (getForm c k)
  | getNeg c k : (∀ v, WritesOnly S (k v)) → WritesOnly S (getNeg c k)
  | getExp c k : (∀ v, WritesOnly S (k v)) → WritesOnly S (getExp c k)
  | getCoeff c k : (∀ v, WritesOnly S (k v)) → WritesOnly S (getCoeff c k)
  | setForm c v p : S c → WritesOnly S p → WritesOnly S (setForm c v p)
  | setNeg c v p : S c → WritesOnly S p → WritesOnly S (setNeg c v p)
  | setExp c v p : S c → WritesOnly S p → WritesOnly S (setExp c v p)
  | setCoeff c v p : S c → WritesOnly S p → WritesOnly S (setCoeff c v p)

/-- footprint: reads within `R ∪ W`, writes within `W` -/
inductive Foot (R W : Cell → Prop) : Prog α → Prop
  | ret a : Foot R W (.ret a)
  | getForm c k : (R c ∨ W c) → (∀ v, Foot R W (k v)) → Foot R W (.getForm c k)
  | getNeg c k : (R c ∨ W c) → (∀ v, Foot R W (k v)) → Foot R W (.getNeg c k)
  | getExp c k : (R c ∨ W c) → (∀ v, Foot R W (k v)) → Foot R W (.getExp c k)
  | getCoeff c k : (R c ∨ W c) → (∀ v, Foot R W (k v)) → Foot R W (.getCoeff c k)
  | setForm c v p : W c → Foot R W p → Foot R W (.setForm c v p)
  | setNeg c v p : W c → Foot R W p → Foot R W (.setNeg c v p)
  | setExp c v p : W c → Foot R W p → Foot R W (.setExp c v p)
  | setCoeff c v p : W c → Foot R W p → Foot R W (.setCoeff c v p)

/-! ## `run` and the monad operations -/

@[simp] theorem run_bind (p : Prog α) (f : α → Prog β) (h : Heap) :
    run (p >>= f) h = run (f (run p h).1) (run p h).2 := by
  show run (Prog.bind p f) h = _
  induction p generalizing h with
  | ret a => rfl
  | getForm c k ih => simp only [Prog.bind, run]; exact ih _ _
  | getNeg c k ih => simp only [Prog.bind, run]; exact ih _ _
  | getExp c k ih => simp only [Prog.bind, run]; exact ih _ _
  | getCoeff c k ih => simp only [Prog.bind, run]; exact ih _ _
  | setForm c v p ih => simp only [Prog.bind, run]; exact ih _
  | setNeg c v p ih => simp only [Prog.bind, run]; exact ih _
  | setExp c v p ih => simp only [Prog.bind, run]; exact ih _
  | setCoeff c v p ih => simp only [Prog.bind, run]; exact ih _

@[simp] theorem run_pure (a : α) (h : Heap) : run (pure a : Prog α) h = (a, h) := rfl
@[simp] theorem run_ret (a : α) (h : Heap) : run (Prog.ret a) h = (a, h) := rfl

@[simp] theorem run_ite (c : Prop) [Decidable c] (p q : Prog α) (h : Heap) :
    run (if c then p else q) h = if c then run p h else run q h := by
  split <;> rfl

@[simp] theorem run_dite (c : Prop) [Decidable c] (p : c → Prog α) (q : ¬ c → Prog α) (h : Heap) :
    run (if hc : c then p hc else q hc) h = if hc : c then run (p hc) h else run (q hc) h := by
  split <;> rfl

/-! ## heap algebra -/

theorem upd_eq_set (h : Heap) (c : Cell) (f : Dec → Dec) : upd h c f = h.set c (f (h c)) := by
  funext c'; unfold upd Heap.set; split
  · next e => rw [e]
  · rfl

@[simp] theorem Heap.set_same (h : Heap) (c : Cell) (v : Dec) : (h.set c v) c = v := by
  simp [Heap.set]

theorem Heap.set_other (h : Heap) {c c' : Cell} (v : Dec) (hne : c' ≠ c) : (h.set c v) c' = h c' := by
  simp [Heap.set, hne]

@[simp] theorem Heap.set_set (h : Heap) (c : Cell) (v w : Dec) : (h.set c v).set c w = h.set c w := by
  funext c'; unfold Heap.set; split <;> rfl

@[simp] theorem Heap.set_self (h : Heap) (c : Cell) : h.set c (h c) = h := by
  funext c'; unfold Heap.set; split
  · next e => rw [e]
  · rfl

theorem Heap.set_apply (h : Heap) (c c' : Cell) (v : Dec) :
    (h.set c v) c' = if c' = c then v else h c' := rfl

/-! ## structural lemmas for `WritesOnly` and `Foot` -/

theorem WritesOnly.bind {S : Cell → Prop} {p : Prog α} {f : α → Prog β}
    (hp : WritesOnly S p) (hf : ∀ a, WritesOnly S (f a)) : WritesOnly S (p >>= f) := by
  show WritesOnly S (Prog.bind p f)
  induction hp with
  | ret a => exact hf a
  | getForm c k _ ih => exact .getForm _ _ ih
  | getNeg c k _ ih => exact .getNeg _ _ ih
  | getExp c k _ ih => exact .getExp _ _ ih
  | getCoeff c k _ ih => exact .getCoeff _ _ ih
  | setForm c v p hc _ ih => exact .setForm _ _ _ hc ih
  | setNeg c v p hc _ ih => exact .setNeg _ _ _ hc ih
  | setExp c v p hc _ ih => exact .setExp _ _ _ hc ih
  | setCoeff c v p hc _ ih => exact .setCoeff _ _ _ hc ih

theorem Foot.bind {R W : Cell → Prop} {p : Prog α} {f : α → Prog β}
    (hp : Foot R W p) (hf : ∀ a, Foot R W (f a)) : Foot R W (p >>= f) := by
  show Foot R W (Prog.bind p f)
  induction hp with
  | ret a => exact hf a
  | getForm c k hc _ ih => exact .getForm _ _ hc ih
  | getNeg c k hc _ ih => exact .getNeg _ _ hc ih
  | getExp c k hc _ ih => exact .getExp _ _ hc ih
  | getCoeff c k hc _ ih => exact .getCoeff _ _ hc ih
  | setForm c v p hc _ ih => exact .setForm _ _ _ hc ih
  | setNeg c v p hc _ ih => exact .setNeg _ _ _ hc ih
  | setExp c v p hc _ ih => exact .setExp _ _ _ hc ih
  | setCoeff c v p hc _ ih => exact .setCoeff _ _ _ hc ih

theorem Foot.pure {R W : Cell → Prop} (a : α) : Foot R W (pure a : Prog α) := Foot.ret a

theorem Foot.ite {R W : Cell → Prop} {c : Prop} [Decidable c] {p q : Prog α}
    (hp : Foot R W p) (hq : Foot R W q) : Foot R W (if c then p else q) := by
  split <;> assumption

/-- a footprint bounds the writes -/
theorem Foot.writesOnly {R W : Cell → Prop} {p : Prog α} (hp : Foot R W p) : WritesOnly W p := by
  induction hp with
  | ret a => exact .ret a
  | getForm c k _ _ ih => exact .getForm _ _ ih
  | getNeg c k _ _ ih => exact .getNeg _ _ ih
  | getExp c k _ _ ih => exact .getExp _ _ ih
  | getCoeff c k _ _ ih => exact .getCoeff _ _ ih
  | setForm c v p hc _ ih => exact .setForm _ _ _ hc ih
  | setNeg c v p hc _ ih => exact .setNeg _ _ _ hc ih
  | setExp c v p hc _ ih => exact .setExp _ _ _ hc ih
  | setCoeff c v p hc _ ih => exact .setCoeff _ _ _ hc ih

/-- footprints are monotone in both sets -/
theorem Foot.mono {R W R' W' : Cell → Prop} {p : Prog α} (hp : Foot R W p)
    (hR : ∀ c, R c → R' c ∨ W' c) (hW : ∀ c, W c → W' c) : Foot R' W' p := by
  have hRW : ∀ c, R c ∨ W c → R' c ∨ W' c := fun c hc => hc.elim (hR c) (fun w => Or.inr (hW c w))
  induction hp with
  | ret a => exact .ret a
  | getForm c k hc _ ih => exact .getForm _ _ (hRW c hc) ih
  | getNeg c k hc _ ih => exact .getNeg _ _ (hRW c hc) ih
  | getExp c k hc _ ih => exact .getExp _ _ (hRW c hc) ih
  | getCoeff c k hc _ ih => exact .getCoeff _ _ (hRW c hc) ih
  | setForm c v p hc _ ih => exact .setForm _ _ _ (hW c hc) ih
  | setNeg c v p hc _ ih => exact .setNeg _ _ _ (hW c hc) ih
  | setExp c v p hc _ ih => exact .setExp _ _ _ (hW c hc) ih
  | setCoeff c v p hc _ ih => exact .setCoeff _ _ _ (hW c hc) ih

/-- a program that writes only inside `S` leaves every other cell unchanged -/
theorem WritesOnly.frame {S : Cell → Prop} {p : Prog α} (hp : WritesOnly S p) (h : Heap) :
    ∀ c, ¬ S c → (run p h).2 c = h c := by
  induction hp generalizing h with
  | ret a => intro c _; rfl
  | getForm c k _ ih => intro c' hc'; exact ih _ h c' hc'
  | getNeg c k _ ih => intro c' hc'; exact ih _ h c' hc'
  | getExp c k _ ih => intro c' hc'; exact ih _ h c' hc'
  | getCoeff c k _ ih => intro c' hc'; exact ih _ h c' hc'
  | setForm c v p hc _ ih =>
    intro c' hc'; simp only [run]; rw [ih _ c' hc']
    have : c' ≠ c := fun e => hc' (e ▸ hc)
    simp [upd, this]
  | setNeg c v p hc _ ih =>
    intro c' hc'; simp only [run]; rw [ih _ c' hc']
    have : c' ≠ c := fun e => hc' (e ▸ hc)
    simp [upd, this]
  | setExp c v p hc _ ih =>
    intro c' hc'; simp only [run]; rw [ih _ c' hc']
    have : c' ≠ c := fun e => hc' (e ▸ hc)
    simp [upd, this]
  | setCoeff c v p hc _ ih =>
    intro c' hc'; simp only [run]; rw [ih _ c' hc']
    have : c' ≠ c := fun e => hc' (e ▸ hc)
    simp [upd, this]

/-! ## small-step semantics and interleaving -/

/-- one primitive step -/
def step1 : Prog α → Heap → Option (Prog α × Heap)
  | .ret _, _ => none
  | .getForm c k, h => some (k (h c).form, h)
  | .getNeg c k, h => some (k (h c).neg, h)
  | .getExp c k, h => some (k (h c).exp, h)
  | .getCoeff c k, h => some (k (h c).coeff, h)
  | .setForm c v p, h => some (p, upd h c (fun d => { d with form := v }))
  | .setNeg c v p, h => some (p, upd h c (fun d => { d with neg := v }))
  | .setExp c v p, h => some (p, upd h c (fun d => { d with exp := v }))
  | .setCoeff c v p, h => some (p, upd h c (fun d => { d with coeff := v }))

def agree (F : Cell → Prop) (h h' : Heap) : Prop := ∀ c, F c → h c = h' c

/-- A step from heaps agreeing on the footprint gives the same program and heaps that still agree;
    and the step changes nothing outside `W`. -/
theorem step1_agree {R W : Cell → Prop} {p : Prog α} (hf : Foot R W p) {h h' : Heap}
    (ha : agree (fun c => R c ∨ W c) h h') :
    match step1 p h, step1 p h' with
    | none, none => True
    | some (q, g), some (q', g') => q = q' ∧ agree (fun c => R c ∨ W c) g g' ∧ Foot R W q ∧
        (∀ c, ¬ W c → g c = h c) ∧ (∀ c, ¬ W c → g' c = h' c)
    | _, _ => False := by
  cases hf with
  | ret a => simp [step1]
  | getForm c k hc hk => simp [step1, ha c hc]; exact ⟨ha, hk _⟩
  | getNeg c k hc hk => simp [step1, ha c hc]; exact ⟨ha, hk _⟩
  | getExp c k hc hk => simp [step1, ha c hc]; exact ⟨ha, hk _⟩
  | getCoeff c k hc hk => simp [step1, ha c hc]; exact ⟨ha, hk _⟩
  | setForm c v p hc hp =>
    simp only [step1, true_and]
    refine ⟨?_, hp, ?_, ?_⟩
    · intro c' hc'
      by_cases e : c' = c
      · subst e; simp [upd, ha c' hc']
      · simp [upd, e, ha c' hc']
    · intro c' hc'; have : c' ≠ c := fun e => hc' (e ▸ hc); simp [upd, this]
    · intro c' hc'; have : c' ≠ c := fun e => hc' (e ▸ hc); simp [upd, this]
  | setNeg c v p hc hp =>
    simp only [step1, true_and]
    refine ⟨?_, hp, ?_, ?_⟩
    · intro c' hc'
      by_cases e : c' = c
      · subst e; simp [upd, ha c' hc']
      · simp [upd, e, ha c' hc']
    · intro c' hc'; have : c' ≠ c := fun e => hc' (e ▸ hc); simp [upd, this]
    · intro c' hc'; have : c' ≠ c := fun e => hc' (e ▸ hc); simp [upd, this]
  | setExp c v p hc hp =>
    simp only [step1, true_and]
    refine ⟨?_, hp, ?_, ?_⟩
    · intro c' hc'
      by_cases e : c' = c
      · subst e; simp [upd, ha c' hc']
      · simp [upd, e, ha c' hc']
    · intro c' hc'; have : c' ≠ c := fun e => hc' (e ▸ hc); simp [upd, this]
    · intro c' hc'; have : c' ≠ c := fun e => hc' (e ▸ hc); simp [upd, this]
  | setCoeff c v p hc hp =>
    simp only [step1, true_and]
    refine ⟨?_, hp, ?_, ?_⟩
    · intro c' hc'
      by_cases e : c' = c
      · subst e; simp [upd, ha c' hc']
      · simp [upd, e, ha c' hc']
    · intro c' hc'; have : c' ≠ c := fun e => hc' (e ▸ hc); simp [upd, this]
    · intro c' hc'; have : c' ≠ c := fun e => hc' (e ▸ hc); simp [upd, this]

/-- solo execution for `k` steps (stuttering at `ret`) -/
def solo : Nat → Prog α → Heap → Prog α × Heap
  | 0, p, h => (p, h)
  | k+1, p, h => match step1 p h with
    | none => (p, h)
    | some (q, g) => solo k q g

/-- threads: a function from thread id to its current program; a schedule is a list of thread ids -/
def stepThread (ps : Nat → Prog α) (h : Heap) (i : Nat) : (Nat → Prog α) × Heap :=
  match step1 (ps i) h with
  | none => (ps, h)
  | some (q, g) => (fun j => if j = i then q else ps j, g)

def runSched : List Nat → (Nat → Prog α) → Heap → (Nat → Prog α) × Heap
  | [], ps, h => (ps, h)
  | i :: s, ps, h => let r := stepThread ps h i; runSched s r.1 r.2

/-- Invariant: every thread's current program and its view of the heap equal some prefix of its
solo run. -/
def Inv (R W : Nat → Cell → Prop) (ps0 : Nat → Prog α) (h0 : Heap) (ps : Nat → Prog α) (h : Heap) : Prop :=
  ∀ i, ∃ k, ps i = (solo k (ps0 i) h0).1 ∧
    agree (fun c => R i c ∨ W i c) h (solo k (ps0 i) h0).2 ∧ Foot (R i) (W i) (ps i)

theorem solo_succ_of_step {p : Prog α} {h : Heap} (k : Nat) :
    ∀ (p0 : Prog α) (h0 : Heap), solo k p0 h0 = (p, h) →
    solo (k+1) p0 h0 = match step1 p h with | none => (p, h) | some (q, g) => (q, g) := by
  induction k with
  | zero => intro p0 h0 e; simp [solo] at e; obtain ⟨rfl, rfl⟩ := e; simp [solo]
  | succ k ih =>
    intro p0 h0 e
    simp only [solo] at e ⊢
    cases hs : step1 p0 h0 with
    | none => simp [hs] at e; obtain ⟨rfl, rfl⟩ := e; simp [hs]
    | some qg => obtain ⟨q, g⟩ := qg; simp [hs] at e; have := ih q g e; simpa [solo] using this

/-- Main theorem: with pairwise non-interfering footprints, any schedule preserves the invariant. -/
theorem interleave_inv (R W : Nat → Cell → Prop) (ps0 : Nat → Prog α) (h0 : Heap)
    (hdisj : ∀ i j, i ≠ j → ∀ c, W j c → ¬ (R i c ∨ W i c))
    (s : List Nat) (ps : Nat → Prog α) (h : Heap) (hinv : Inv R W ps0 h0 ps h) :
    Inv R W ps0 h0 (runSched s ps h).1 (runSched s ps h).2 := by
  induction s generalizing ps h with
  | nil => simpa [runSched]
  | cons t s ih =>
    simp only [runSched]
    apply ih
    intro i
    obtain ⟨k, hk1, hk2, hk3⟩ := hinv i
    obtain ⟨kt, ht1, ht2, ht3⟩ := hinv t
    unfold stepThread
    cases hst : step1 (ps t) h with
    | none => exact ⟨k, hk1, hk2, hk3⟩
    | some qg =>
      obtain ⟨q, g⟩ := qg
      -- facts about thread t's step, compared with its solo copy
      have key := step1_agree ht3 ht2
      rw [hst] at key
      cases hst' : step1 (ps t) (solo kt (ps0 t) h0).2 with
      | none => simp [hst'] at key
      | some qg' =>
        obtain ⟨q', g'⟩ := qg'
        simp only [hst'] at key
        obtain ⟨hq, hag, hfq, hout, _⟩ := key
        by_cases e : i = t
        · subst e
          refine ⟨kt + 1, ?_, ?_, ?_⟩
          · have := solo_succ_of_step (p := (solo kt (ps0 i) h0).1) (h := (solo kt (ps0 i) h0).2) kt (ps0 i) h0 rfl
            rw [this, ← ht1, hst']; simp [hq]
          · have := solo_succ_of_step (p := (solo kt (ps0 i) h0).1) (h := (solo kt (ps0 i) h0).2) kt (ps0 i) h0 rfl
            rw [this, ← ht1, hst']; simpa using hag
          · simpa using hfq
        · refine ⟨k, ?_, ?_, ?_⟩
          · simp [e, hk1]
          · intro c hc
            have hnw : ¬ W t c := fun hw => hdisj i t e c hw hc
            show g c = _
            rw [hout c hnw]; exact hk2 c hc
          · simpa [e] using hk3

/-- the initial configuration satisfies the invariant -/
theorem Inv.init (R W : Nat → Cell → Prop) (ps0 : Nat → Prog α) (h0 : Heap)
    (hf : ∀ i, Foot (R i) (W i) (ps0 i)) : Inv R W ps0 h0 ps0 h0 :=
  fun i => ⟨0, rfl, fun _ _ => rfl, hf i⟩

/-! ## solo runs and `run` -/

/-- a step does not change the result of `run` -/
theorem run_step1 {p q : Prog α} {h g : Heap} (hs : step1 p h = some (q, g)) : run p h = run q g := by
  cases p <;> simp [step1] at hs <;> obtain ⟨rfl, rfl⟩ := hs <;> rfl

theorem run_solo (k : Nat) (p : Prog α) (h : Heap) :
    run (solo k p h).1 (solo k p h).2 = run p h := by
  induction k generalizing p h with
  | zero => rfl
  | succ k ih =>
    simp only [solo]
    cases hs : step1 p h with
    | none => rfl
    | some qg => obtain ⟨q, g⟩ := qg; simp only []; rw [ih, run_step1 hs]

/-- if a solo run has reached `ret a`, then `a` and the heap are the result of `run` -/
theorem solo_ret {k : Nat} {p : Prog α} {h : Heap} {a : α} (hk : (solo k p h).1 = .ret a) :
    run p h = (a, (solo k p h).2) := by
  rw [← run_solo k p h, hk]; rfl

end Apd.Imp
