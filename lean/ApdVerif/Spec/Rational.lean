import ApdVerif.Oracle.Exact
import Mathlib.Algebra.Order.Field.Rat
import Mathlib.Algebra.Order.Floor.Ring
import Mathlib.Data.Rat.Floor
/-!
# The READABLE specification over `ℚ`

The executable oracle (`Oracle/Round.lean`, `Oracle/Exact.lean`) works on integers so that the
driver can run it.  This file states what it is supposed to compute in the vocabulary of the
property text: exact values are rational numbers, "adjusted exponent" is `⌊log10 |v|⌋`, the
quantum of the result is fixed by the precision and `Etiny`, and the result is the exact value
divided by the quantum, rounded to an integer by the rounding mode.

Nothing here mentions `ndigits`, numerators, denominators or integer division.
`Props/Rational.lean` proves that the oracle computes exactly this.
-/
namespace Apd.Oracle
open Apd

/-! ## values -/

/-- the magnitude `num/den × 10^e10` of an exact value -/
noncomputable def Exact.mag (v : Exact) : ℚ := ((v.num : ℚ) / (v.den : ℚ)) * (10 : ℚ) ^ v.e10

/-- the rational number denoted by an exact value: `(-1)^neg × num/den × 10^e10` -/
noncomputable def Exact.toRat (v : Exact) : ℚ :=
  (if v.neg then -1 else 1) * ((v.num : ℚ) / (v.den : ℚ)) * (10 : ℚ) ^ v.e10

/-- the rational number denoted by a specification result that is not an infinity -/
noncomputable def SpecOut.toRat (s : SpecOut) : ℚ :=
  (if s.neg then -1 else 1) * (s.m : ℚ) * (10 : ℚ) ^ s.q

end Apd.Oracle

namespace Apd
/-- the rational number denoted by a finite decimal: `(-1)^neg × coeff × 10^exp` -/
noncomputable def Dec.toRat (d : Dec) : ℚ :=
  (if d.neg then -1 else 1) * (d.coeff : ℚ) * (10 : ℚ) ^ d.exp
end Apd

namespace Apd.Oracle
open Apd

/-! ## the specification of "round once to the context" -/

/-- `a` is the adjusted exponent of the positive rational `v`: `10^a ≤ v < 10^(a+1)`,
i.e. `a = ⌊log10 v⌋` (exists uniquely for `v > 0`). -/
def IsAdj (v : ℚ) (a : ℤ) : Prop := (10 : ℚ) ^ a ≤ v ∧ v < (10 : ℚ) ^ (a + 1)

/-- exponent of the result for a value of adjusted exponent `a`: `prec` significant digits,
but never below `Etiny = emin - prec + 1` -/
def quantum (c : Ctx) (a : ℤ) : ℤ := max (a - (c.prec : ℤ) + 1) (c.emin - (c.prec : ℤ) + 1)

/-- round the non-negative rational `t` (the magnitude of a value of sign `neg`) to an integer -/
noncomputable def roundInt (mode : Mode) (neg : Bool) (t : ℚ) : ℤ :=
  let n : ℤ := ⌊t⌋
  if t = (n : ℚ) then n
  else if specAddOne mode n.toNat neg (compare (t - (n : ℚ)) (1 / 2)) then n + 1 else n

/-- the magnitude `v` (adjusted exponent `a`, sign `neg`) rounded to the context's quantum -/
noncomputable def roundedMag (c : Ctx) (neg : Bool) (v : ℚ) (a : ℤ) : ℚ :=
  ((roundInt c.mode neg (v / (10 : ℚ) ^ quantum c a) : ℤ) : ℚ) * (10 : ℚ) ^ quantum c a

end Apd.Oracle
