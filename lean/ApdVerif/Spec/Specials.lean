import ApdVerif.Model.Basic
/-!
# C08 — the special-value table, written from the General Decimal Arithmetic specification

For each operation and each combination of operand classes {NaN, sNaN, ±Infinity, ±0, finite}
the table gives the prescribed result form, sign and conditions, or says that the case is an
ordinary numeric one (`none`).  It never mentions the algorithm.  Exponents of zero results are not
part of the table (C07 constrains them).
-/
namespace Apd.Spec
open Apd

/-- what the specification prescribes for a special case -/
structure Expect where
  form : Form
  /-- `none`: the sign is not prescribed by the table -/
  neg : Option Bool := none
  /-- for finite results: is the value zero / one -/
  zero : Bool := false
  one : Bool := false
  invalid : Bool := false
  divByZero : Bool := false
  divUndefined : Bool := false
deriving Repr, Inhabited

def nanOf (d : Dec) : Expect := { form := .nan, neg := some d.neg, invalid := d.form == .nanSignaling }
def invalid : Expect := { form := .nan, invalid := true }
def inf (neg : Bool) : Expect := { form := .infinite, neg := some neg }
def zero (neg : Option Bool) : Expect := { form := .finite, neg := neg, zero := true }
def one : Expect := { form := .finite, neg := some false, one := true }

/-- NaN rule shared by every operation: the first signalling NaN, else the first quiet NaN,
propagates (quieted) with its sign; a signalling NaN raises InvalidOperation. -/
def nanRule (x : Dec) (y : Option Dec) : Option Expect :=
  let isN (d : Dec) := d.form == .nan || d.form == .nanSignaling
  match y with
  | none => if isN x then some (nanOf x) else none
  | some y =>
    if x.form == .nanSignaling then some (nanOf x)
    else if y.form == .nanSignaling then some (nanOf y)
    else if x.form == .nan then some (nanOf x)
    else if y.form == .nan then some (nanOf y)
    else none

def isInf (d : Dec) : Bool := d.form == .infinite
def isZero (d : Dec) : Bool := d.form == .finite && d.coeff == 0
/-- finite `d` is an odd integer -/
def isOddInt (d : Dec) : Bool :=
  d.form == .finite &&
  (if d.exp > 0 then false
   else let p := 10 ^ (-d.exp).toNat; d.coeff % p == 0 && (d.coeff / p) % 2 == 1)
/-- finite `d` is an integer -/
def isInt (d : Dec) : Bool :=
  d.form == .finite && (d.exp ≥ 0 || d.coeff % 10 ^ (-d.exp).toNat == 0)
/-- compare finite positive `d` with 1: -1, 0, 1 -/
def cmpOne (d : Dec) : Int :=
  if d.exp ≥ 0 then (if d.coeff * 10 ^ d.exp.toNat < 1 then -1 else if d.coeff * 10 ^ d.exp.toNat == 1 then 0 else 1)
  else let p := 10 ^ (-d.exp).toNat; if d.coeff < p then -1 else if d.coeff == p then 0 else 1

/-- the table.  `none` = not a special case (an ordinary numeric computation, see C01, C09–C12). -/
def specials (op : String) (x y : Dec) : Option Expect :=
  let unary := ["abs", "neg", "round", "reduce", "quantize", "rtie", "rtiv", "ceil", "floor", "sqrt", "cbrt", "exp", "ln", "log10"]
  let yo := if unary.contains op then none else some y
  match nanRule x yo with
  | some e => some e
  | none =>
  let xorS := x.neg != y.neg
  match op with
  | "add" | "sub" =>
    let yn := if op == "sub" then !y.neg else y.neg
    if isInf x && isInf y then (if x.neg != yn then some invalid else some (inf x.neg))
    else if isInf x then some (inf x.neg)
    else if isInf y then some (inf yn)
    else none
  | "mul" =>
    if isInf x || isInf y then (if isZero x || isZero y then some invalid else some (inf xorS)) else none
  | "quo" | "quoint" =>
    if isInf x && isInf y then some invalid
    else if isInf x then some (inf xorS)
    else if isInf y then some (zero (some xorS))
    else if isZero y then
      (if isZero x then some { form := .nan, divUndefined := true } else some { form := .infinite, neg := some xorS, divByZero := true })
    else none
  | "rem" =>
    if isInf x then some invalid
    else if isInf y then none                 -- the dividend itself, rounded: a numeric case
    else if isZero y then (if isZero x then some { form := .nan, divUndefined := true } else some invalid)
    else none
  | "abs" => if isInf x then some (inf false) else none
  | "neg" => if isInf x then some (inf (!x.neg)) else none
  | "round" | "reduce" | "rtie" | "rtiv" | "ceil" | "floor" => if isInf x then some (inf x.neg) else none
  | "quantize" => if isInf x then some invalid else none
  | "cmp" => none                              -- infinities are ordinary operands of the order (C15)
  | "sqrt" =>
    if isInf x then (if x.neg then some invalid else some (inf false))
    else if isZero x then some (zero (some x.neg))
    else if x.neg then some invalid else none
  | "cbrt" =>
    if isInf x then some (inf x.neg)
    else if isZero x then some (zero (some x.neg)) else none
  | "exp" =>
    if isInf x then (if x.neg then some (zero (some false)) else some (inf false))
    else if isZero x then some one else none
  | "ln" | "log10" =>
    if isZero x then some (inf true)
    else if x.neg then some invalid
    else if isInf x then some (inf false)
    else if cmpOne x == 0 then some (zero (some false))
    else none
  | "pow" =>
    let oddNeg := x.neg && isOddInt y      -- result sign: negative base to an odd integer power
    if isZero x && isZero y then some invalid
    else if isInf x then
      if isZero y then some { one with neg := some oddNeg }
      else if x.neg && (isInf y || !isInt y) then some invalid
      else if y.neg then some (zero (some oddNeg)) else some (inf oddNeg)
    else if isZero x then (if y.neg then some (inf oddNeg) else some (zero (some oddNeg)))
    else if isZero y then some one
    else if isInf y then
      if x.neg then some invalid
      else if cmpOne x == 0 then some one
      else if (cmpOne x > 0) != y.neg then some (inf false) else some (zero (some false))
    else if x.neg && !isInt y then some invalid
    else none
  | _ => none

/-- does an outcome meet the expectation? -/
def Expect.meets (e : Expect) (d : Dec) (fl : Cond) : Bool :=
  d.form == e.form &&
  (match e.neg with | some n => d.neg == n | none => true) &&
  (!e.zero || d.coeff == 0) &&
  (!e.one || (d.form == .finite && (if d.exp ≥ 0 then d.coeff * 10 ^ d.exp.toNat == 1 else d.coeff == 10 ^ (-d.exp).toNat))) &&
  fl.invalidOp == e.invalid && fl.divByZero == e.divByZero && fl.divUndefined == e.divUndefined &&
  !fl.divImpossible && !fl.inexact && !fl.overflow && !fl.underflow

end Apd.Spec
