import ApdVerif.Model.Basic
/-!
# The GDA numeric-string grammar and to-scientific-string (core only, executable)

Written from the text of the General Decimal Arithmetic specification ("Conversions":
*Numeric string syntax* and *to-scientific-string*), not from decimal.go / format.go.

```
sign           ::=  '+' | '-'
digit          ::=  '0' | '1' | '2' | '3' | '4' | '5' | '6' | '7' | '8' | '9'
indicator      ::=  'e' | 'E'
digits         ::=  digit [digit]...
decimal-part   ::=  digits '.' [digits] | ['.'] digits
exponent-part  ::=  indicator [sign] digits
infinity       ::=  'Infinity' | 'Inf'
nan            ::=  'NaN' [digits] | 'sNaN' [digits]
numeric-value  ::=  decimal-part [exponent-part] | infinity
numeric-string ::=  [sign] numeric-value | [sign] nan
```
"… where the characters in the strings accepted for `infinity` and `nan` may be in any case."

A language is a `List Char → Bool`; concatenation tries every split, so each production is the
literal transcription of its BNF line.
-/
namespace Apd.Spec

/-- a language over `Char`, as a decidable membership test -/
abbrev Lang := List Char → Bool

/-- concatenation `p q`: some split of `s` has its left part in `p` and its right part in `q` -/
def seq (p q : Lang) : Lang := fun s =>
  (List.range (s.length + 1)).any fun i => p (s.take i) && q (s.drop i)
/-- alternation `p | q` -/
def alt (p q : Lang) : Lang := fun s => p s || q s
/-- option `[p]` -/
def opt (p : Lang) : Lang := fun s => s.isEmpty || p s
/-- one given character -/
def chr (c : Char) : Lang := fun s => s == [c]
/-- a word, in any (ASCII) case; `w` is given in lower case -/
def anyCase (w : List Char) : Lang := fun s => s.map Char.toLower == w

def sign : Lang := alt (chr '+') (chr '-')
def digit : Lang := fun s => match s with | [c] => '0' ≤ c && c ≤ '9' | _ => false
def indicator : Lang := alt (chr 'e') (chr 'E')
/-- `digit [digit]...` -/
def digits : Lang := fun s => !s.isEmpty && s.all fun c => digit [c]
def decimalPart : Lang := alt (seq digits (seq (chr '.') (opt digits))) (seq (opt (chr '.')) digits)
def exponentPart : Lang := seq indicator (seq (opt sign) digits)
def infinity : Lang := alt (anyCase ['i', 'n', 'f', 'i', 'n', 'i', 't', 'y']) (anyCase ['i', 'n', 'f'])
def nan : Lang := alt (seq (anyCase ['n', 'a', 'n']) (opt digits)) (seq (anyCase ['s', 'n', 'a', 'n']) (opt digits))
def numericValue : Lang := alt (seq decimalPart (opt exponentPart)) infinity
def numericString : Lang := alt (seq (opt sign) numericValue) (seq (opt sign) nan)

/-- the string is a numeric string of the GDA grammar -/
def GdaNumeric (s : String) : Prop := numericString s.toList = true
instance (s : String) : Decidable (GdaNumeric s) := by unfold GdaNumeric; exact inferInstance

/-! ## what a finite numeric string denotes

"The coefficient is the digits of the decimal-part with the point removed; the exponent is the
value of the exponent-part (0 if absent) less the number of digits after the point." -/

/-- the value of a string of digits -/
def digitsValue (s : List Char) : Nat := s.foldl (fun acc c => 10 * acc + (c.toNat - 48)) 0

/-- the characters after the indicator, if there is one -/
def afterIndicator (s : List Char) : Option (List Char) :=
  match s.dropWhile (fun c => c != 'e' && c != 'E') with
  | [] => none
  | _ :: t => some t

/-- the characters of the numeric value before the indicator (sign removed) -/
def beforeIndicator (s : List Char) : List Char :=
  (match s with | '+' :: t => t | '-' :: t => t | _ => s).takeWhile (fun c => c != 'e' && c != 'E')

/-- the integer written in the exponent-part (`0` if there is none) -/
def writtenExp (s : List Char) : Int :=
  match afterIndicator s with
  | none => 0
  | some ('-' :: t) => -(digitsValue t : Int)
  | some ('+' :: t) => (digitsValue t : Int)
  | some t => (digitsValue t : Int)

/-- number of digits after the point of the decimal-part -/
def fracDigits (s : List Char) : Nat :=
  match (beforeIndicator s).dropWhile (· != '.') with
  | [] => 0
  | _ :: t => t.length

/-- the coefficient: the digits of the decimal-part, point removed -/
def coeffOf (s : List Char) : Nat := digitsValue ((beforeIndicator s).filter (· != '.'))

/-- the exponent of the denoted decimal -/
def denotedExp (s : List Char) : Int := writtenExp s - (fracDigits s : Int)

/-- the string is one of the special values (infinity or a NaN) of the grammar -/
def isSpecial (s : List Char) : Bool := alt (seq (opt sign) infinity) (seq (opt sign) nan) s

/-- `strconv.ParseInt(_, 10, 32)` can represent the written exponent -/
def ExpInt32 (s : String) : Prop := -2147483648 ≤ writtenExp s.toList ∧ writtenExp s.toList ≤ 2147483647
instance (s : String) : Decidable (ExpInt32 s) := by unfold ExpInt32; exact inferInstance

/-- the denoted decimal is within the package limits: exponent and adjusted exponent in ±100000
(the `Dec.WF` domain); special values have no limits -/
def WithinLimits (s : String) : Prop :=
  isSpecial s.toList = true ∨
  (-100000 ≤ denotedExp s.toList ∧ denotedExp s.toList ≤ 100000 ∧
   -100000 ≤ denotedExp s.toList + (ndigits (coeffOf s.toList) : Int) - 1 ∧
   denotedExp s.toList + (ndigits (coeffOf s.toList) : Int) - 1 ≤ 100000)
instance (s : String) : Decidable (WithinLimits s) := by unfold WithinLimits; exact inferInstance

/-! ## to-scientific-string -/

/-- "The coefficient is first converted to a string in base ten using the characters 0 through 9
with no leading zeros (except if its value is zero, in which case a single 0 character is used)." -/
def coefString (n : Nat) : List Char := (Nat.repr n).toList

def toSciL (d : Dec) : List Char :=
  let sgn : List Char := if d.neg then ['-'] else []
  match d.form with
  | .infinite => sgn ++ ['I', 'n', 'f', 'i', 'n', 'i', 't', 'y']
  | .nan => sgn ++ ['N', 'a', 'N']
  | .nanSignaling => sgn ++ ['s', 'N', 'a', 'N']
  | .finite =>
    let coef := coefString d.coeff
    let clength : Int := coef.length
    -- "the adjusted exponent is calculated; this is the exponent, plus the number of characters in
    -- the converted coefficient, less one"
    let adj : Int := d.exp + (clength - 1)
    if d.exp ≤ 0 ∧ adj ≥ -6 then
      -- "converted to a character form without using exponential notation"
      if d.exp = 0 then sgn ++ coef     -- "if the exponent is zero then no decimal point is added"
      else
        -- "a decimal point will be inserted with the absolute value of the exponent specifying the
        -- number of characters to the right of the decimal point. '0' characters are added to the
        -- left of the converted coefficient as necessary. If no character precedes the decimal
        -- point after this insertion then a conventional '0' character is prefixed."
        let k := d.exp.natAbs
        let padded := List.replicate (k - coef.length) '0' ++ coef
        let intPart := padded.take (padded.length - k)
        let fracPart := padded.drop (padded.length - k)
        sgn ++ (if intPart.isEmpty then ['0'] else intPart) ++ ['.'] ++ fracPart
    else
      -- "converted to a character form using exponential notation. In this case, if the converted
      -- coefficient has more than one digit a decimal point is inserted after the first digit. An
      -- exponent in character form is then suffixed …; this comprises the letter 'E' followed
      -- immediately by the adjusted exponent converted to a character form. The latter is in base
      -- ten, using the characters 0 through 9 with no leading zeros, always prefixed by a sign
      -- character ('-' if the calculated exponent is negative, '+' otherwise)."
      let mant := if coef.length > 1 then coef.take 1 ++ ['.'] ++ coef.drop 1 else coef
      sgn ++ mant ++ ['E'] ++ (if adj < 0 then ['-'] else ['+']) ++ coefString adj.natAbs

/-- GDA to-scientific-string -/
def toSci (d : Dec) : String := String.ofList (toSciL d)

end Apd.Spec
