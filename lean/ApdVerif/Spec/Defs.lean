import ApdVerif.Model.Basic
/-!
# Well-formedness predicates — the quantifier domains of properties.jsonl (core only, decidable)
-/
namespace Apd

/-- well-formed context with rounding enabled: `1 ≤ Precision ≤ MaxExponent ≤ 100000`,
`-100000 ≤ MinExponent ≤ 0` -/
def Ctx.WF (c : Ctx) : Prop :=
  1 ≤ c.prec ∧ (c.prec : Int) ≤ c.emax ∧ c.emax ≤ 100000 ∧ -100000 ≤ c.emin ∧ c.emin ≤ 0

/-- as `WF`, but `Precision = 0` (rounding disabled) is allowed -/
def Ctx.WF0 (c : Ctx) : Prop :=
  (c.prec : Int) ≤ c.emax ∧ 0 ≤ c.emax ∧ c.emax ≤ 100000 ∧ -100000 ≤ c.emin ∧ c.emin ≤ 0

instance (c : Ctx) : Decidable c.WF := by unfold Ctx.WF; exact inferInstance
instance (c : Ctx) : Decidable c.WF0 := by unfold Ctx.WF0; exact inferInstance

/-- well-formed decimal: exponent and adjusted exponent within the package limits -/
def Dec.WF (d : Dec) : Prop :=
  -100000 ≤ d.exp ∧ d.exp ≤ 100000 ∧
  -100000 ≤ d.exp + (ndigits d.coeff : Int) - 1 ∧ d.exp + (ndigits d.coeff : Int) - 1 ≤ 100000

instance (d : Dec) : Decidable d.WF := by unfold Dec.WF; exact inferInstance

/-- no system-limit condition was raised: the outcome is delivered -/
def NoSys (fl : Cond) : Prop := fl.sysOverflow = false ∧ fl.sysUnderflow = false

/-- the error class of a delivered outcome -/
def Delivered (e : ErrKind) : Prop := e = .none ∨ e = .trap

example : ({ prec := 5, emax := 10, emin := -10 } : Ctx).WF := by decide
example : ({ coeff := 123, exp := -13, neg := true } : Dec).WF := by decide

end Apd
