import ApdVerif.Model.Arith
/-!
# Specification of the numeric order on decimals (core only)
-/
namespace Apd

/-- `value / 10^e` of a finite decimal as a signed integer (`e ≤ d.exp`) -/
def signedScaled (d : Dec) (e : Int) : Int :=
  (if d.neg then -1 else 1) * ((d.coeff * 10 ^ (d.exp - e).toNat : Nat) : Int)

/-- the sign of the exact numeric difference `d - x` for non-NaN decimals: zeros of either sign
and any exponent are equal, infinities bound all finite values -/
def specCmp (d x : Dec) : Int :=
  match d.form, x.form with
  | .infinite, .infinite => cmpInt (if d.neg then -1 else 1) (if x.neg then -1 else 1)
  | .infinite, _ => if d.neg then -1 else 1
  | _, .infinite => if x.neg then 1 else -1
  | _, _ => let e := min d.exp x.exp; cmpInt (signedScaled d e) (signedScaled x e)

/-- what `CmpTotal` treats as "the same representation" -/
def sameRepr (d x : Dec) : Prop :=
  d.form = x.form ∧ d.neg = x.neg ∧
  match d.form with
  | .finite => d.coeff = x.coeff ∧ d.exp = x.exp
  | .infinite => True
  | _ => d.coeff = x.coeff

end Apd
