import ApdVerif.Model.Arith
import ApdVerif.Oracle.Exact
import ApdVerif.Spec.Defs
/-!
# `Agrees`: what C01 + C02 + C07 say about one delivered outcome

`Agrees c ex d fl`: the delivered decimal `d` is numerically (sign of zero included) the
specification's rounding of the exact value `ex` in context `c`, the flags Inexact, Subnormal,
Underflow, Overflow are exactly the specification's, Inexact implies Rounded on finite results,
Overflow implies Inexact, and `d` fits the context.
-/
namespace Apd
open Apd Apd.Oracle

/-- C02's flag clause for one outcome -/
def FlagsOK (s : SpecOut) (d : Dec) (fl : Cond) : Prop :=
  fl.inexact = s.inexact ∧ fl.subnormal = s.subnormal ∧ fl.underflow = s.underflow ∧
  fl.overflow = s.overflow ∧
  (fl.inexact = true → d.form = .finite → fl.rounded = true) ∧
  (fl.overflow = true → fl.inexact = true) ∧
  fl.divUndefined = false ∧ fl.divByZero = false ∧ fl.divImpossible = false ∧ fl.invalidOp = false

/-- C01 + C02 + C07 for one delivered outcome of a rounding operation (`prec ≥ 1`) -/
def Agrees (c : Ctx) (ex : Exact) (d : Dec) (fl : Cond) : Prop :=
  (specRound c ex).matches d = true ∧ FlagsOK (specRound c ex) d fl ∧ fits c d = true

/-- … and with rounding disabled (`prec = 0`): the exact result, whenever it lies in the exponent range -/
def AgreesExact (c : Ctx) (ex : Exact) (d : Dec) (fl : Cond) : Prop :=
  ∀ s, specExact c ex = some s → s.matches d = true ∧ fl.inexact = false ∧ fl.overflow = false ∧ fl.underflow = false


end Apd
