import ApdVerif.Model.Arith
/-!
# Conversions (decimal.go: Int64, SetInt64/New/SetFinite, NewWithBigInt) and NumDigits (table.go)
-/
namespace Apd

/-- Go's wrap-around `int64` arithmetic: reduce an integer into `[-2^63, 2^63)` -/
def wrap64 (z : Int) : Int := (z + 2 ^ 63) % 2 ^ 64 - 2 ^ 63

def decMaxInt64 : Dec := { form := .finite, neg := false, exp := 0, coeff := 2 ^ 63 - 1 }
def decMinInt64 : Dec := { form := .finite, neg := true, exp := 0, coeff := 2 ^ 63 }

/-- the `v *= 10` loop of `Decimal.Int64`, in wrapping int64 arithmetic -/
def mul10Loop : Nat → Int → Int
  | 0, v => v
  | k+1, v => mul10Loop k (wrap64 (v * 10))

/-- `Decimal.Int64`: `some v` on success, `none` when an error is returned -/
def int64Op (d : Dec) : Option Int :=
  if d.form != .finite then none else
  let m := modf d
  if !m.2.isZero then none else
  if m.1.cmp decMaxInt64 > 0 then none else
  if m.1.cmp decMinInt64 < 0 then none else
  let v0 := wrap64 ((m.1.coeff % 2 ^ 64 : Nat) : Int)     -- BigInt.Int64: the low 64 bits, reinterpreted
  let v := mul10Loop m.1.exp.toNat v0
  some (if d.neg then wrap64 (-v) else v)

/-- `Decimal.SetFinite(x, e)` / `New(x, e)` for an `int64` x -/
def setFinite (x : Int) (e : Int) : Dec := { form := .finite, neg := decide (x < 0), exp := e, coeff := x.natAbs }

/-- `NewWithBigInt(coeff, e)` -/
def newWithBigInt (b : Int) (e : Int) : Dec := { form := .finite, neg := decide (b < 0), exp := e, coeff := b.natAbs }

/-! ## NumDigits (table.go) -/

/-- `big.Int.BitLen` of a magnitude -/
def bitLen (n : Nat) : Nat := if n = 0 then 0 else Nat.log2 n + 1

/-- `digitsLookupTable[i].digits`: the digit count of `2^(i-1)`, exactly as `init` computes it -/
def tblDigits (i : Nat) : Nat := ndigits (2 ^ (i - 1))
/-- `digitsLookupTable[i].border` -/
def tblBorder (i : Nat) : Nat := 10 ^ tblDigits i

/-- the estimate used above 128 bits.  In Go it is `int64(float64(bl)/digitsToBitsRatio)`; the
harness checks on every run that this float expression equals `ndigits(2^bl) - 1`
(`= ⌊bl·log₁₀2⌋`) on the bit lengths it covers. -/
def estDigits (bl : Nat) : Nat := ndigits (2 ^ bl) - 1

/-- `NumDigits(b)` as table.go computes it (after the nil-pointer repair) -/
def numDigitsImpl (b : Int) : Nat :=
  let a := b.natAbs
  let bl := bitLen a
  if bl = 0 then 1
  else if bl ≤ 128 then
    if bl < 128 ∧ tblDigits (bl + 1) = tblDigits bl then tblDigits bl
    else if a < tblBorder bl then tblDigits bl else tblDigits bl + 1
  else
    let n := estDigits bl
    if a ≥ 10 ^ n then n + 1 else n

end Apd
