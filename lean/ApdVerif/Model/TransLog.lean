import ApdVerif.Model.Trans
/-!
# Exp, Ln, Log10 and Pow with a fractional exponent (context.go), steered by a decision tape

These four functions take a few decisions in `float64` arithmetic (`math.Log`, `math.Log10`,
`math.Ceil` on estimates): the working precision bump and the number of series terms in `Exp`, and
the starting estimate of Halley's iteration in `Ln`. The model does not re-implement the platform's
floating point; it takes those decisions from a *tape* recorded by the `verif` hook while the real
call ran (`verifTape` in /repo), and computes everything else — every decimal operation, the
ErrDecimal bookkeeping, the loops, the constants' rounding, the final rounding, flags and error —
itself. `none` = the tape does not fit the control flow (or the fuel ran out): reported as a mismatch.
-/
namespace Apd
open Cond

/-- one recorded decision -/
inductive TapeE
  | cp (n : Nat)        -- Exp: the working precision `cp` after the `f/23` bump
  | n (n : Int)         -- Exp: the number of series terms `n`; negative = "too many iterations"
  | est (d : Dec)       -- Ln: the starting estimate `SetFloat64(math.Log(zFloat))`
deriving Repr, Inhabited

abbrev Tape := List TapeE

def ln10Coeff : Nat := 23025850929940456840179914546843642076011014886287729760333279009675726096773524802359972050895982983419677840422862486334095254650828067566662873690987816894829072083255546808437998948262331985283935053089653777326288461633662222876982198867465436674744042432743651550489343149393914796194044002221051017141748003688084012647080685567743216228355220114804663715659121373450747856947683463616792101806445070648000277502684916746550586856935673420670581136429224554405758925724208241314695689016758940256776311356919292033376587141660230105703089634572075440370847469940168269282808481184289314848524948644871927809676271275775397027668605952496716674183485704422507197965004714951050492214776567636938662976979522110718264549734772662425709429322582798502585509785265383207606726317164309505995087807523710333101197857547331541421808427543863591778117054309827482385045648019095610299291824318237525357709750539565187697510374970888692180205189339507238539205144634197265287286965110862571492198849978748873771345686209167058498078280597511938544450099781311469159346662410718466923101075984383191912922307925037472986509290098803919417026544168163357275557031515961135648465461908970428197633658369837163289821744073660091621778505417792763677311450417821376601110107310423978325218948988175979217986663943195239368559164471182467532456309125287783309636042629821530408745609277607266413547875766162629265682987049579549139549180492090694385807900327630179415031178668620924085379498612649334793548717374516758095370882810674524401058924449764796860751202757241818749893959716431055188481952883307466993178146349300003212003277656541304726218839705967944579434683432183953044148448037013057536742621536755798147704580314136377932362915601281853364984669422614652064599420729171193706024449293580370077189810973625332245483669885055282859661928050984471751985036666808749704969822732202448233430971691111368135884186965493237149969419796878030088504089796185987565798948364452120436982164152929878117429733325886079159125109671875109292484750239305726654462762009230687915181358034777012955936462984123664970233551745861955647724618577173693684046765770478743197805738532718109338834963388130699455693993461010907456160333122479493604553618491233330637047517248712763791409243983318101647378233796922656376820717069358463945316169494117018419381194054164494661112747128197058177832938417422314099300229115023621921867233372683856882735333719251034129307056325444266114297653883018223840910261985828884335874559604530045483707890525784731662837019533922310475275649981192287427897137157132283196410034221242100821806795252766898581809561192083917607210809199234615169525990994737827806481280587927319938934534153201859697110214075422827962982370689417647406422257572124553925261793736524344405605953365915391603125244801493132345724538795243890368392364505078817313597112381453237015084134911223243909276817247496079557991513639828810582857405380006533716555530141963322419180876210182049194926514838926922937079
def ln10Exp : Int := -3010
def ln10StrLen : Nat := 3012
def invLn10Coeff : Nat := 4342944819032518276511289189166050822943970058036665661144537831658646492088707747292249493384317483187061067447663037336416792871589639065692210646628122658521270865686703295933708696588266883311636077384905142844348666768646586085135561482123487653435434357317253835622281395603048646652366095539377356176323431916710991411597894962993512457934926357655469077671082419150479910989674900103277537653570270087328550951731440674697951899513594088040423931518868108402544654089797029863286828762624144013457043546132920600712605104028367125954846287707861998992326748439902348171535934551079475492552482577820679220140931468164467381030560475635720408883383209488996522717494541331791417640247407505788767860971099257547730046048656049515610057985741340272675201439247917970859047931285212493341197329877226463885350226083881626316463883553685501768460295286399391633510647555704050513182342988874882120643595023818902643317711537382203362634416478397146001858396093006317333986134035135741787144971453076492968331392399810608505734816169809280016199523523117237676561989228127013815804248715978344927215947562057179993483814031940166771520104787197582531617951490375597514246570736646439756863149325162498727994852637448791165959219701720662704559284657036462635675733575739369673994570909602526350957193468839951236811356428010958778313759442713049980643798750414472095974872674060160650105375287000491167867133309154761441005054775930890767885596533432190763128353570304854020979941614010807910607498871752495841461303867532086001324486392545573072842386175970677989354844570318359336523016027971626535726514428519866063768635338181954876389161343652374759465663921380736144503683797876824369028804493640496751871720614130731804417180216440993200651069696951247072666224570004229341407923361685302418860272411867806272570337552562870767696632173672454758133339263840130320038598899947332285703494195837691472090608812447825078736711573033931565625157907093245370450744326623349807143038059581776957944070042202545430531910888982754062263600601879152267477788232096025228766762416332296812464502577295040226623627536311798532153780883272326920785980990757434437367248710355853306546581653535157943990070326436222520010336980419843015524524173190520247212241110927324425302930200871037337504867498689117225672067268275246578790446735268575794059983346595878592624978725380185506389602375304294539963737367434680767515249986297676732404903363175488195323680087668648666069282082342536311304939972702858872849086258458687045569244548538607202497396631126372122497538854967981580284810494724140453341192674240839673061167234256843129624666246259542760677182858963306586513950932049023032806357536242804315480658368852257832901530787483141985929074121415344772165398214847619288406571345438798607895199435011532826457742311266817183284968697890904324421005272233475053141625981646457044538901148313760708445483457955728303866473638468537587172210685993933008378534367552699899185150879055911525282664
def invLn10Exp : Int := -2995
def invLn10StrLen : Nat := 2997

/-- index computed by `constWithPrecision.get`: `Ceil[log2 p]` -/
def constIdx (precision : Nat) : Nat :=
  if precision > 1 then 1 + Nat.log2 (precision - 1) else 0

/-- number of pre-rounded values `makeConstWithPrecision` stores: `p = 1, 2, 4, … < len(str)` -/
def constVals (strLen : Nat) : Nat := if strLen ≤ 1 then 0 else Nat.log2 (strLen - 1) + 1

/-- `constWithPrecision.get(precision)` -/
def constGet (coeff : Nat) (exp : Int) (strLen : Nat) (precision : Nat) : Dec :=
  let unrounded : Dec := { coeff := coeff, exp := exp }
  let i := constIdx precision
  if i ≥ constVals strLen then unrounded
  else (ctxRound { prec := 2 ^ i, mode := .halfUp, emax := MaxExponent, emin := MinExponent } unrounded).1

def ln10At (p : Nat) : Dec := constGet ln10Coeff ln10Exp ln10StrLen p
def invLn10At (p : Nat) : Dec := constGet invLn10Coeff invLn10Exp invLn10StrLen p

/-- the Horner loop of Exp's stage 4: `for i := n-1; i > 0; i--` -/
def expSeries (r : Dec) : Nat → ED → Dec → ED × Dec
  | 0, e, sum => (e, sum)
  | i+1, e, sum =>
    let r1 := e.step decZero (fun c => quoOp c r { coeff := i + 1 })
    let r2 := r1.1.step sum (fun c => mulOp c r1.2 sum)
    let r3 := r2.1.step r2.2 (fun c => addOp c r2.2 decOne false)
    expSeries r i r3.1 r3.2

/-- `Context.Exp` -/
def expT (c : Ctx) (x : Dec) (tape : Tape) : Option (Out × Tape) :=
  match expSpecials c x with
  | some o => some (o, tape)
  | none =>
    match tape with
    | .cp cp :: tape =>
      let res0 := cInexact ||| cRounded
      let ax := x.absD
      -- the tape's cp comes from |x| rounded to a float64: one more digit when cp*23 is still just below |x|
      let cp := if cp < 999 && ax.cmp { coeff := (cp + 1) * 23 } ≤ 0 && ax.cmp { coeff := cp * 23 } > 0 then cp + 1 else cp
      if ax.cmp { coeff := cp * 23 } > 0 then
        let res := res0 ||| cOverflow
        if x.sign < 0 then
          let res := res.negateOverflowFlags ||| cClamped
          some ({ d := { coeff := 0, exp := c.emin - (c.prec : Int) + 1 }, fl := res, err := goError c.traps res }, tape)
        else some ({ d := decInf, fl := res, err := goError c.traps res }, tape)
      else if ax.cmp { coeff := 9, exp := -(cp : Int) - 1 } ≤ 0 then
        some ({ d := decOne, fl := res0, err := goError c.traps res0 }, tape)
      else
        let t0 : Int := x.exp + (ndigits x.coeff : Int)
        let t : Nat := if t0 < 0 then 0 else t0.toNat
        let k : Dec := { coeff := 1, exp := t }
        let p : Nat := cp + t + 2
        let nc : Ctx := { c with prec := p, mode := .halfEven, emin := MinExponent, emax := MaxExponent }
        let q := quoOp nc x k
        if q.err != .none then some (failOut q.err, tape) else
        let r := q.d
        match tape with
        | .n n :: tape =>
          if n < 0 then some (failOut .other, tape) else
          let s := expSeries r (n.toNat - 1) { c := nc } decOne
          if s.1.failed then some (failOut s.1.errOf, tape) else
          let ip := integerPower nc s.2 ((10 : Int) ^ t)
          if ip.2.2 != .none then some (failOut ip.2.2, tape) else
          let res := res0 ||| ip.2.1
          let rr := ctxRound { c with mode := .halfEven } ip.1
          let res := res ||| rr.2
          some ({ d := rr.1, fl := res, err := goError c.traps res }, tape)
        | _ => none
    | _ => none

/-- the power series of Ln: `for n := 1; ; n++`; returns `inl err` or `inr tmp1` -/
def lnSeries (eps tmp2 : Dec) : Nat → Nat → ED → Dec → Dec → Option (ED × Sum ErrKind Dec)
  | 0, _, _, _, _ => none
  | fuel+1, n, e, tmp1, tmp3 =>
    let r1 := e.step tmp3 (fun c => mulOp c tmp3 tmp2)
    let r2 := r1.1.step r1.2 (fun c => mulOp c r1.2 tmp2)
    let tmp4 : Dec := { coeff := 2 * n + 1 }
    let r3 := r2.1.step tmp4 (fun c => quoOp c r2.2 tmp4)
    let r4 := r3.1.step tmp1 (fun c => addOp c tmp1 r3.2 false)
    if r4.1.failed then some (r4.1, .inl r4.1.errOf) else
    if r3.2.absD.cmp eps ≤ 0 then some (r4.1, .inr r4.2)
    else lnSeries eps tmp2 fuel (n + 1) r4.1 r4.2 r2.2

/-- Halley's iteration of Ln; `inl err` or `inr tmp1` -/
def lnHalley (nc : Ctx) (prec : Int) (maxIter : Nat) (z : Dec) :
    Nat → ED → Dec → LoopSt → Tape → Option (ED × Sum ErrKind Dec × Tape)
  | 0, _, _, _, _ => none
  | fuel+1, e, tmp1, l, tape =>
    -- ed.Exp(&tmp2, &tmp1)
    let ex : Option (ED × Dec × Tape) :=
      if e.failed then some (e, decZero, tape) else
      match expT e.c tmp1 tape with
      | none => none
      | some (o, tape) => some ({ e with fl := e.fl ||| o.fl, err := o.err }, o.d, tape)
    match ex with
    | none => none
    | some (e1, tmp2, tape) =>
      let r2 := e1.step decZero (fun c => addOp c tmp2 z true)
      let r3 := r2.1.step r2.2 (fun c => addOp c r2.2 r2.2 false)
      let r4 := r3.1.step decZero (fun c => addOp c tmp2 z false)
      let r5 := r4.1.step tmp2 (fun c => quoOp c r3.2 r4.2)
      let r6 := r5.1.step tmp1 (fun c => addOp c tmp1 r5.2 true)
      match loopDone nc prec maxIter l r6.2 with
      | .error er => some (r6.1, .inl er, tape)
      | .done => some (r6.1, .inr r6.2, tape)
      | .continue l' =>
        if r6.1.failed then some (r6.1, .inl r6.1.errOf, tape)
        else lnHalley nc prec maxIter z fuel r6.1 r6.2 l' tape

/-- `Context.Ln` -/
def lnT (c : Ctx) (x : Dec) (tape : Tape) : Option (Out × Tape) :=
  match logSpecials c x with
  | some o => some (o, tape)
  | none =>
    let p := c.prec + 2
    let nc : Ctx := { c with prec := p, mode := .halfEven, emin := MinExponent, emax := MaxExponent }
    let ed : ED := { c := nc }
    let tenth : Dec := { coeff := 1, exp := -1 }
    let a1 := ed.step decZero (fun c => addOp c x decOne true)
    -- (ed, z, tmp1, resAdjust, usePowerSeries, tape)
    let pre : Option (ED × Dec × Dec × Dec × Bool × Tape) :=
      if a1.2.absD.cmp tenth ≤ 0 then some (a1.1, x, a1.2, decZero, true, tape)
      else
        let expDelta : Int := (ndigits x.coeff : Int) + x.exp
        let z : Dec := { x with exp := x.exp - expDelta }
        let ra0 : Dec := { neg := decide (expDelta < 0), coeff := expDelta.natAbs }
        let a2 := a1.1.step ra0 (fun c => mulOp c ra0 (ln10At p))
        let a3 := a2.1.step a1.2 (fun c => addOp c z decOne true)
        if a3.2.absD.cmp tenth ≤ 0 then some (a3.1, z, a3.2, a2.2, true, tape)
        else
          match tape with
          | .est d :: tape => some (a3.1, z, d, a2.2, false, tape)
          | _ => none
    match pre with
    | none => none
    | some (ed, z, tmp1, resAdjust, series, tape) =>
      let body : Option (ED × Sum ErrKind Dec × Tape) :=
        if series then
          let b1 := ed.step tenth (fun c => addOp c tmp1 decTwo false)
          let b2 := b1.1.step tmp1.absD (fun c => quoOp c tmp1 b1.2)
          let b3 := b2.1.step b1.2 (fun c => addOp c b2.2 b2.2 false)
          let eps : Dec := { coeff := 1, exp := -(p : Int) }
          match lnSeries eps b2.2 (p + 10) 1 b3.1 b3.2 b3.2 with
          | none => none
          | some (e, r) => some (e, r, tape)
        else
          let maxIter := 10 + (c.prec + 1)
          lnHalley nc ((c.prec : Int) + 1) maxIter z (maxIter + 2) ed tmp1 {} tape
      match body with
      | none => none
      | some (_, .inl er, tape) => some (failOut er, tape)
      | some (ed, .inr tmp1, tape) =>
        let f := ed.step tmp1 (fun c => addOp c tmp1 resAdjust false)
        if f.1.failed then some (failOut f.1.errOf, tape) else
        let rr := ctxRound c f.2
        let res := rr.2 ||| cInexact ||| cRounded
        some ({ d := rr.1, fl := res, err := goError c.traps res }, tape)

/-- `Context.Log10` -/
def log10T (c : Ctx) (x : Dec) (tape : Tape) : Option (Out × Tape) :=
  match logSpecials c x with
  | some o => some (o, tape)
  | none =>
    let nc : Ctx := { baseCtx with prec := c.prec + 2, mode := .halfEven }
    match lnT nc x tape with
    | none => none
    | some (l, tape) =>
      if l.err != .none then some (failOut l.err, tape) else
      let m := mulOp { nc with prec := c.prec } l.d (invLn10At (c.prec + 2))
      if m.err != .none then some (failOut m.err, tape) else
      let rr := ctxRound c m.d
      let res := (cInexact ||| cRounded) ||| m.fl ||| rr.2
      some ({ d := rr.1, fl := res, err := goError c.traps res }, tape)

/-- `Context.Pow` -/
def powT (c : Ctx) (x y : Dec) (tape : Tape) : Option (Out × Tape) :=
  match powSpecials c x y with
  | some o => some (o, tape)
  | none =>
    let m := modf y
    if m.2.isZero then (powIntOp c x y).map (fun o => (o, tape)) else
    let nd := ndigits x.coeff
    let p := (if c.prec < nd then nd else c.prec) + 10
    let nc : Ctx := { baseCtx with prec := p }
    let qi := quantizeCore c m.1 0
    let integ : Int := if qi.1.neg then -(qi.1.coeff : Int) else (qi.1.coeff : Int)
    let ip := integerPower nc x integ
    let res := qi.2 ||| ip.2.1
    if ip.2.2 != .none then some ({ d := decNaN, fl := res, err := ip.2.2 }, tape) else
    let z := ip.1
    let ed : ED := { c := nc }
    let s1 := ed.step decZero (fun c => absOp c x)
    -- ed.Ln(&tmp, &tmp)
    let s2 : Option (ED × Dec × Tape) :=
      if s1.1.failed then some (s1.1, s1.2, tape) else
      match lnT nc s1.2 tape with
      | none => none
      | some (o, tape) => some ({ s1.1 with fl := s1.1.fl ||| o.fl, err := o.err }, o.d, tape)
    match s2 with
    | none => none
    | some (e2, tmp, tape) =>
      let s3 := e2.step tmp (fun c => mulOp c tmp m.2)
      let s4 : Option (ED × Dec × Tape) :=
        if s3.1.failed then some (s3.1, s3.2, tape) else
        match expT nc s3.2 tape with
        | none => none
        | some (o, tape) => some ({ s3.1 with fl := s3.1.fl ||| o.fl, err := o.err }, o.d, tape)
      match s4 with
      | none => none
      | some (e4, tmp, tape) =>
        let s5 := e4.step tmp (fun c => mulOp c z tmp)
        -- `d.Set(decimalNaN)`: no intermediate value (the integer power, or nothing at all when d == x) is left behind
        if s5.1.failed then some ({ d := decNaN, fl := s5.1.fl, err := s5.1.errOf }, tape) else
        let rr := ctxRound c s5.2
        let res := res ||| rr.2 ||| cInexact ||| cRounded
        some ({ d := { rr.1 with neg := false }, fl := res, err := goError c.traps res }, tape)

end Apd
