/-!
# apd model — basic types (core Lean only)

Value-level (L1) model of `cockroachdb/apd`: `Decimal`, `Context`, `Condition`,
`Rounder`.  Everything here is executable and free of Mathlib so that the
driver can be compiled.  The functions follow the Go control flow branch for
branch; see `/verif/DESIGN.md`.
-/
namespace Apd

/-- `apd.Form` (decimal.go); constructor order is the Go iota order. -/
inductive Form | finite | infinite | nanSignaling | nan
deriving DecidableEq, Repr, Inhabited

/-- `apd.Decimal`: value `(-1)^neg × coeff × 10^exp`.  `coeff` is the magnitude
(`Coeff must be positive`), modelled as `Nat`. -/
structure Dec where
  form : Form := .finite
  neg : Bool := false
  exp : Int := 0
  coeff : Nat := 0
deriving DecidableEq, Repr, Inhabited

/-- The eight `Rounder` values; the empty / unknown string behaves as `halfUp`
(`ShouldAddOne`'s default branch). -/
inductive Mode | down | halfUp | halfEven | ceiling | floor | halfDown | up | r05up
deriving DecidableEq, Repr, Inhabited

/-- `apd.Condition` as twelve booleans, in the iota order of condition.go. -/
structure Cond where
  sysOverflow : Bool := false
  sysUnderflow : Bool := false
  overflow : Bool := false
  underflow : Bool := false
  inexact : Bool := false
  subnormal : Bool := false
  rounded : Bool := false
  divUndefined : Bool := false
  divByZero : Bool := false
  divImpossible : Bool := false
  invalidOp : Bool := false
  clamped : Bool := false
deriving DecidableEq, Repr, Inhabited

namespace Cond
def or (a b : Cond) : Cond :=
  { sysOverflow := a.sysOverflow || b.sysOverflow, sysUnderflow := a.sysUnderflow || b.sysUnderflow,
    overflow := a.overflow || b.overflow, underflow := a.underflow || b.underflow,
    inexact := a.inexact || b.inexact, subnormal := a.subnormal || b.subnormal,
    rounded := a.rounded || b.rounded, divUndefined := a.divUndefined || b.divUndefined,
    divByZero := a.divByZero || b.divByZero, divImpossible := a.divImpossible || b.divImpossible,
    invalidOp := a.invalidOp || b.invalidOp, clamped := a.clamped || b.clamped }
def and (a b : Cond) : Cond :=
  { sysOverflow := a.sysOverflow && b.sysOverflow, sysUnderflow := a.sysUnderflow && b.sysUnderflow,
    overflow := a.overflow && b.overflow, underflow := a.underflow && b.underflow,
    inexact := a.inexact && b.inexact, subnormal := a.subnormal && b.subnormal,
    rounded := a.rounded && b.rounded, divUndefined := a.divUndefined && b.divUndefined,
    divByZero := a.divByZero && b.divByZero, divImpossible := a.divImpossible && b.divImpossible,
    invalidOp := a.invalidOp && b.invalidOp, clamped := a.clamped && b.clamped }
def any (a : Cond) : Bool :=
  a.sysOverflow || a.sysUnderflow || a.overflow || a.underflow || a.inexact || a.subnormal ||
  a.rounded || a.divUndefined || a.divByZero || a.divImpossible || a.invalidOp || a.clamped
instance : OrOp Cond := ⟨Cond.or⟩
instance : AndOp Cond := ⟨Cond.and⟩

def zero : Cond := {}
def cSysOverflow : Cond := { sysOverflow := true }
def cSysUnderflow : Cond := { sysUnderflow := true }
def cOverflow : Cond := { overflow := true }
def cUnderflow : Cond := { underflow := true }
def cInexact : Cond := { inexact := true }
def cSubnormal : Cond := { subnormal := true }
def cRounded : Cond := { rounded := true }
def cDivUndefined : Cond := { divUndefined := true }
def cDivByZero : Cond := { divByZero := true }
def cDivImpossible : Cond := { divImpossible := true }
def cInvalidOp : Cond := { invalidOp := true }
def cClamped : Cond := { clamped := true }

private def b2n (b : Bool) (w : Nat) : Nat := if b then w else 0
/-- the `uint32` value of the Go `Condition` -/
def toNat (a : Cond) : Nat :=
  b2n a.sysOverflow 1 + b2n a.sysUnderflow 2 + b2n a.overflow 4 + b2n a.underflow 8 +
  b2n a.inexact 16 + b2n a.subnormal 32 + b2n a.rounded 64 + b2n a.divUndefined 128 +
  b2n a.divByZero 256 + b2n a.divImpossible 512 + b2n a.invalidOp 1024 + b2n a.clamped 2048
def ofNat (n : Nat) : Cond :=
  { sysOverflow := n.testBit 0, sysUnderflow := n.testBit 1, overflow := n.testBit 2,
    underflow := n.testBit 3, inexact := n.testBit 4, subnormal := n.testBit 5,
    rounded := n.testBit 6, divUndefined := n.testBit 7, divByZero := n.testBit 8,
    divImpossible := n.testBit 9, invalidOp := n.testBit 10, clamped := n.testBit 11 }

/-- `Condition.negateOverflowFlags` (condition.go) -/
def negateOverflowFlags (r : Cond) : Cond :=
  let r := if r.overflow then { r with underflow := true, subnormal := true, overflow := false } else r
  if r.sysOverflow then { r with sysUnderflow := true, sysOverflow := false } else r
end Cond

/-- `apd.Context` -/
structure Ctx where
  prec : Nat := 0
  emax : Int := 100000
  emin : Int := -100000
  traps : Cond := {}
  mode : Mode := .halfUp
deriving DecidableEq, Repr, Inhabited

def MaxExponent : Int := 100000
def MinExponent : Int := -100000

/-- `DefaultTraps` (context.go) -/
def defaultTraps : Cond :=
  { sysOverflow := true, sysUnderflow := true, overflow := true, underflow := true,
    subnormal := true, divUndefined := true, divByZero := true, divImpossible := true,
    invalidOp := true }

/-- `BaseContext` -/
def baseCtx : Ctx := { prec := 0, emax := MaxExponent, emin := MinExponent, traps := defaultTraps, mode := .halfUp }

/-- error classes the harness canonicalises Go `error` values to -/
inductive ErrKind
  | none      -- nil
  | sys       -- "exponent out of range" (system limit), possibly wrapped
  | trap      -- a trapped condition (message is the condition names)
  | zeroPrec  -- errZeroPrecisionStr
  | other     -- anything else (non-convergence, "too many iterations", parse errors, …)
deriving DecidableEq, Repr, Inhabited

/-- Outcome of a `Context` method on a *fresh* destination: destination value, flags, error class.
When `err` is `sys`, `zeroPrec` or `other` the destination is unspecified (and not compared). -/
structure Out where
  d : Dec := {}
  fl : Cond := {}
  err : ErrKind := .none
  /-- extra integer result (`Context.Reduce`'s count); 0 otherwise -/
  aux : Int := 0
deriving DecidableEq, Repr, Inhabited

/-! ## digit counting -/

def ndigitsAux : Nat → Nat → Nat
  | 0, _ => 1
  | fuel+1, n => if n < 10 then 1 else 1 + ndigitsAux fuel (n / 10)

/-- number of decimal digits of `n` (`1` for `0`): what `NumDigits` must return -/
def ndigits (n : Nat) : Nat := ndigitsAux n n

def pow10 (k : Nat) : Nat := 10 ^ k

/-- three-way comparison as the Go `int` -1/0/1 -/
def cmpInt (a b : Int) : Int := if a < b then -1 else if a > b then 1 else 0
def cmpNat (a b : Nat) : Int := if a < b then -1 else if a > b then 1 else 0

/-! ## per-mode decisions (round.go) -/

/-- `Rounder.ShouldAddOne` with the eight mode functions inlined. `half` is -1/0/1. -/
def shouldAddOne (m : Mode) (result : Nat) (neg : Bool) (half : Int) : Bool :=
  match m with
  | .down => false
  | .halfUp => half ≥ 0
  | .halfEven => if half > 0 then true else if half < 0 then false else result % 2 == 1
  | .ceiling => !neg
  | .floor => neg
  | .halfDown => half > 0
  | .up => true
  | .r05up => if result % 5 == 0 then true else result % 10 == 0

/-! ## simple Decimal methods -/

namespace Dec
/-- `Decimal.Sign` -/
def sign (d : Dec) : Int :=
  if d.form == .finite && d.coeff == 0 then 0 else if d.neg then -1 else 1
/-- `Decimal.IsZero` -/
def isZero (d : Dec) : Bool := d.form == .finite && d.coeff == 0
def isNaN (d : Dec) : Bool := d.form == .nan || d.form == .nanSignaling
def nd (d : Dec) : Nat := ndigits d.coeff
/-- `Decimal.Neg` -/
def negD (x : Dec) : Dec := if x.isZero then { x with neg := false } else { x with neg := !x.neg }
/-- `Decimal.Abs` -/
def absD (x : Dec) : Dec := { x with neg := false }
end Dec

def decNaN : Dec := { form := .nan }
def decInf : Dec := { form := .infinite }
def decZero : Dec := {}
def decOne : Dec := { coeff := 1 }

end Apd
