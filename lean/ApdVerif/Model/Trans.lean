import ApdVerif.Model.Arith
/-!
# ErrDecimal and the composite functions Sqrt, Cbrt (context.go, error.go, loop.go)

The composite functions run their internal steps through an `ErrDecimal`: a sticky first error and
accumulated flags; once it holds an error every later operation leaves its destination untouched.
Go variables are Lean values here; an operation `ed.Op(&v, …)` becomes `v := (e.step v (op …)).2`.
-/
namespace Apd
open Cond

/-- `apd.ErrDecimal`: context (mutable through the shared `*Context`), accumulated flags, first error -/
structure ED where
  c : Ctx
  fl : Cond := {}
  err : ErrKind := .none
deriving Repr, Inhabited

namespace ED
/-- `ErrDecimal.Err() != nil` -/
def failed (e : ED) : Bool := e.err != .none || goError e.c.traps e.fl != .none

/-- the error `Err()` returns -/
def errOf (e : ED) : ErrKind := if e.err != .none then e.err else goError e.c.traps e.fl

/-- one wrapper call `ed.Op(&cur, …)`: skipped after an error, else performs `op` under `e.c`,
accumulates its flags and records its error; returns the new state and the new value of `cur` -/
def step (e : ED) (cur : Dec) (op : Ctx → Out) : ED × Dec :=
  if e.failed then (e, cur)
  else
    let o := op e.c
    ({ e with fl := e.fl ||| o.fl, err := o.err }, o.d)
end ED

/-- outcome of a composite function that returned `(0, err)` without touching the destination -/
def failOut (e : ErrKind) : Out := { err := e }

def decHalf : Dec := { coeff := 5, exp := -1 }
def decTwo : Dec := { coeff := 2 }
def decThree : Dec := { coeff := 3 }
def decEight : Dec := { coeff := 8 }
def decOneEighth : Dec := { coeff := 125, exp := -3 }

/-- `Context.rootSpecials(d, x, factor)`; `none` = not a special case -/
def rootSpecials (c : Ctx) (x : Dec) (factor : Int) : Option Out :=
  if shouldSetAsNaN x none then some (setAsNaN c x none) else
  if x.form == .infinite then
    if x.neg && factor % 2 == 0 then some (invalidNaN c) else some { d := x }
  else if x.sign == -1 then
    if factor % 2 == 0 then some (invalidNaN c) else none
  else if x.sign == 0 then
    some (finish c (ctxRound c { x with exp := Int.tdiv x.exp factor }))
  else none

/-- the precision-doubling loop of Sqrt: `(e, approx, p)` until `p = maxp` -/
def sqrtLoop : Nat → ED → Dec → Dec → Nat → Nat → ED × Dec
  | 0, e, _, approx, _, _ => (e, approx)
  | fuel+1, e, f, approx, p, maxp =>
    if p == maxp then (e, approx) else
    let p := 2 * p - 2
    let p := if p > maxp then maxp else p
    let e := { e with c := { e.c with prec := p } }
    let r1 := e.step {} (fun c => quoOp c f approx)          -- tmp = f / approx
    let r2 := r1.1.step r1.2 (fun c => addOp c r1.2 approx false)   -- tmp = tmp + approx
    let r3 := r2.1.step approx (fun c => mulOp c r2.2 decHalf)       -- approx = tmp * 0.5
    sqrtLoop fuel r3.1 f r3.2 p maxp

/-- `sqrtSettle(nc, d, approx, x)`: `d` is the half-even rounding of `approx`; the result is the
half-even rounding of the exact root when `approx` is within a unit of its last digit of it -/
def sqrtSettle (nc : Ctx) (d approx x : Dec) : Dec × Cond :=
  let dn := ctxRound { nc with mode := .down } approx
  if !dn.2.inexact || dn.1.form != .finite || (ndigits dn.1.coeff != nc.prec && !dn.2.subnormal) then (d, {}) else
  let t := dn.1
  let mid : Dec := { t with coeff := t.coeff * 10 + 5, exp := t.exp - 1 }
  let sq : Dec := { coeff := mid.coeff * mid.coeff, exp := 2 * mid.exp }
  let cmp := sq.cmp x
  let t' : Dec :=
    if cmp < 0 || (cmp == 0 && t.coeff % 2 == 1) then
      let c1 := t.coeff + 1
      if ndigits c1 > nc.prec then { t with coeff := c1 / 10, exp := t.exp + 1 } else { t with coeff := c1 }
    else t
  if t'.cmp d == 0 then (d, {}) else ctxRound nc t'

/-- `Context.Sqrt` -/
def sqrtOp (c : Ctx) (x : Dec) : Out :=
  match rootSpecials c x 2 with
  | some o => o
  | none =>
    let nd := ndigits x.coeff
    let workp := c.prec + 1
    let workp := if workp < nd then nd else workp
    let workp := if workp < 7 then 7 else workp
    let e0 : Int := (nd : Int) + x.exp
    -- internal steps run under the package's exponent limits; the caller's range is applied by the final rounding
    let nc : Ctx := { c with prec := workp, mode := .halfEven, emin := MinExponent, emax := MaxExponent }
    let ed : ED := { c := nc }
    let even := (Int.tmod e0 2 == 0)
    let f : Dec := { x with exp := if even then -(nd : Int) else -(nd : Int) - 1 }
    let e : Int := if even then e0 else e0 + 1
    let a0 : Dec := if even then { coeff := 819, exp := -3 } else { coeff := 259, exp := -2 }
    let k0 : Dec := if even then { coeff := 259, exp := -3 } else { coeff := 819, exp := -4 }
    let r1 := ed.step a0 (fun c => mulOp c a0 f)
    let r2 := r1.1.step r1.2 (fun c => addOp c r1.2 k0 false)
    let r := sqrtLoop 64 r2.1 f r2.2 3 (workp + 5)
    if r.1.failed then failOut r.1.errOf else
    let d : Dec := { r.2 with exp := r.2.exp + Int.tdiv e 2 }
    let nc2 : Ctx := { c with prec := c.prec, mode := .halfEven }
    -- the exponent ceiling stays at the package limit until the rounding is settled
    let ncw : Ctx := { nc2 with emax := MaxExponent }
    let r0 := ctxRound ncw d
    -- the paper's settling step: compare the square of the midpoint above `d` truncated with `x`
    let r1 := if r0.2.inexact && r0.1.form == .finite then
               let st := sqrtSettle ncw r0.1 d x
               (st.1, r0.2 ||| st.2)
             else r0
    let r2 := ctxRound nc2 r1.1
    let r : Dec × Cond := (r2.1, r1.2 ||| r2.2)
    -- exactness re-check: the root is exact only if the square of the result is x; the coefficient is squared
    -- directly (`sq.Coeff.Mul(&d.Coeff, &d.Coeff); sq.Exponent = 2 * d.Exponent`), no context and so no
    -- exponent limit is involved
    let res :=
      if !r.2.inexact && r.1.form == .finite then
        let sq : Dec := { coeff := r.1.coeff * r.1.coeff, exp := 2 * r.1.exp }
        if sq.cmp x != 0 then r.2 ||| cInexact ||| cRounded else r.2
      else r.2
    finish nc2 (r.1, res)

/-! ## loop.go -/

/-- state of `loop`: iteration count and previous value -/
structure LoopSt where
  i : Nat := 0
  prevZ : Dec := {}
deriving Repr, Inhabited

inductive LoopRes | done | continue (s : LoopSt) | error (e : ErrKind)

/-- `loop.done(z)` with `l.c = c`, `l.precision = prec`, `l.maxIterations = maxIter` -/
def loopDone (c : Ctx) (prec : Int) (maxIter : Nat) (l : LoopSt) (z : Dec) : LoopRes :=
  let o := addOp c l.prevZ z true
  if o.err != .none then .error o.err else
  let delta := o.d
  if delta.sign == 0 then .done else
  let delta := if delta.sign < 0 then delta.negD else delta
  let eps : Dec := { coeff := 1, exp := -prec + (ndigits z.coeff : Int) + z.exp }
  if delta.cmp eps ≤ 0 then .done else
  let i := l.i + 1
  if i == maxIter then .error .other else .continue { i := i, prevZ := z }

def cbrtC1 : Dec := { neg := true, coeff := 46946116, exp := -8 }
def cbrtC2 : Dec := { coeff := 1072302, exp := -6 }
def cbrtC3 : Dec := { coeff := 3812513, exp := -7 }

/-- repeated `ed.Mul(&z, &z, k)` while `test z` holds, each step followed by
`if err := ed.Err(); err != nil { return 0, err }` (a failed step leaves `z` as it is: without the test the loop
would never end); `.inr` = the loop ended, with the number of steps taken, `.inl` = the error exit.
`none` when the fuel runs out (a hang in the Go code). -/
def scaleLoop (test : Dec → Bool) (k : Dec) : Nat → ED → Dec → Nat → Option (Sum ErrKind (ED × Dec × Nat))
  | 0, _, _, _ => none
  | fuel+1, e, z, n =>
    if test z then
      let r := e.step z (fun c => mulOp c z k)
      if r.1.failed then some (.inl r.1.errOf) else
      scaleLoop test k fuel r.1 r.2 (n + 1)
    else some (.inr (e, z, n))

def mulN (k : Dec) : Nat → ED → Dec → ED × Dec
  | 0, e, z => (e, z)
  | n+1, e, z => let r := e.step z (fun c => mulOp c z k); mulN k n r.1 r.2

/-- the Newton iteration of Cbrt; `none` = fuel exhausted -/
def cbrtIter (c : Ctx) (prec : Int) (maxIter : Nat) (ax : Dec) : Nat → ED → Dec → LoopSt → Option (Sum ErrKind Dec)
  | 0, _, _, _ => none
  | fuel+1, e, z, l =>
    let z0 := z
    let r1 := e.step z (fun c => mulOp c z z0)
    let r2 := r1.1.step r1.2 (fun c => quoOp c ax r1.2)
    let r3 := r2.1.step r2.2 (fun c => addOp c r2.2 z0 false)
    let r4 := r3.1.step r3.2 (fun c => addOp c r3.2 z0 false)
    let r5 := r4.1.step r4.2 (fun c => quoOp c r4.2 decThree)
    if r5.1.failed then some (.inl r5.1.errOf) else
    match loopDone c prec maxIter l r5.2 with
    | .error er => some (.inl er)
    | .done => some (.inr r5.2)
    | .continue l' => cbrtIter c prec maxIter ax fuel r5.1 r5.2 l'

/-- `Context.Cbrt`; `none` = the model ran out of fuel (would be a hang) -/
def cbrtOp (c : Ctx) (x : Dec) : Option Out :=
  match rootSpecials c x 3 with
  | some o => some o
  | none =>
    let ax := x.absD
    let nc : Ctx := { baseCtx with prec := c.prec * 2 + 2 }
    let ed : ED := { c := nc }
    match scaleLoop (fun z => z.cmp decOneEighth < 0) decEight 400000 ed ax 0 with
    | none => none
    | some (.inl er) => some (failOut er)
    | some (.inr (ed, z, down)) =>
    match scaleLoop (fun z => z.cmp decOne > 0) decOneEighth 400000 ed z 0 with
    | none => none
    | some (.inl er) => some (failOut er)
    | some (.inr (ed, z, up)) =>
      let z0 := z
      let r1 := ed.step z (fun c => mulOp c z cbrtC1)
      let r2 := r1.1.step r1.2 (fun c => addOp c r1.2 cbrtC2 false)
      let r3 := r2.1.step r2.2 (fun c => mulOp c r2.2 z0)
      let r4 := r3.1.step r3.2 (fun c => addOp c r3.2 cbrtC3 false)
      -- exp8 = up - down: halve while negative, double while positive
      let r5 := if down > up then mulN decHalf (down - up) r4.1 r4.2 else mulN decTwo (up - down) r4.1 r4.2
      let maxIter := 10 + (c.prec + 1)
      match cbrtIter nc ((c.prec : Int) + 1) maxIter ax (maxIter + 2) r5.1 r5.2 {} with
      | none => none
      | some (.inl er) => some (failOut er)
      | some (.inr z) =>
        let r := ctxRound { c with mode := .halfEven } z
        let res := r.2
        let err := goError c.traps res
        let d : Dec := { r.1 with neg := x.neg }
        -- the flags accumulated so far did not trap; only the new ones matter for `failed` below
        let e : ED := { c := { nc with prec := c.prec * 3 }, fl := r5.1.fl, err := .none }
        let q1 := e.step z (fun c => mulOp c d d)
        let q2 := q1.1.step q1.2 (fun c => mulOp c q1.2 d)
        if q2.1.failed then some (failOut q2.1.errOf) else
        if x.cmp q2.2 == 0 then some { d := d } else some { d := d, fl := res, err := err }


/-! ## special-value prologues of Exp, Ln, Log10, Pow (the series themselves are steered by float64
estimates and are not modelled here; `none` = not a special case) -/

/-- prologue of `Context.Exp` -/
def expSpecials (c : Ctx) (x : Dec) : Option Out :=
  if shouldSetAsNaN x none then some (setAsNaN c x none) else
  if x.form == .infinite then (if x.neg then some { d := decZero } else some { d := decInf })
  else if x.isZero then some { d := decOne }
  else if c.prec == 0 then some (failWith .zeroPrec)
  else none

/-- `Context.logSpecials` -/
def logSpecials (c : Ctx) (x : Dec) : Option Out :=
  if shouldSetAsNaN x none then some (setAsNaN c x none) else
  if x.sign < 0 then some (invalidNaN c) else
  if x.form == .infinite then some { d := decInf } else
  if x.cmp decZero == 0 then some { d := { decInf with neg := true } } else
  if x.cmp decOne == 0 then some { d := decZero } else none

/-- the prologue of `Context.Pow`: every case decided before the integer power is computed -/
def powSpecials (c : Ctx) (x y : Dec) : Option Out :=
  if shouldSetAsNaN x (some y) then some (setAsNaN c x (some y)) else
  let m := modf y
  let yIsInt := m.2.isZero
  let neg := x.neg && y.form == .finite && yIsInt && m.1.coeff % 2 == 1 && m.1.exp == 0
  if x.form == .infinite then
    if y.sign == 0 then some { d := { decOne with neg := neg } }
    else if x.neg && (y.form == .infinite || !yIsInt) then
      some { d := { decNaN with neg := neg }, fl := cInvalidOp, err := goError c.traps cInvalidOp }
    else if y.neg then some { d := { decZero with neg := neg } }
    else some { d := { decInf with neg := neg } }
  else
  let xs := x.sign
  let ys := y.sign
  if xs == 0 then
    if ys == 0 then some { d := { decNaN with neg := neg }, fl := cInvalidOp, err := goError c.traps cInvalidOp }
    else if ys == 1 then some { d := { decZero with neg := neg } }
    else some { d := { decInf with neg := neg } }
  else if ys == 0 then some { d := decOne }
  else if y.form == .infinite then
    if xs < 0 then some (invalidNaN c)
    else
      let cmp := x.cmp decOne
      if cmp == 0 then some { d := decOne }
      else if (decide (cmp > 0)) != y.neg then some { d := decInf }
      else some { d := decZero }
  else if xs < 0 && !yIsInt then some (invalidNaN c)
  else none

/-! ## Pow with an integer exponent: `integerPower` (square and multiply) — no floating point involved -/

/-- the square-and-multiply loop of `Context.integerPower`; returns `(ed, z, n)`; stops at the first error -/
def intPowLoop : Nat → ED → Nat → Dec → Dec → ED × Dec
  | 0, e, _, z, _ => (e, z)
  | fuel+1, e, b, z, n =>
    if b == 0 then (e, z) else
    let r1 := if b % 2 == 1 then e.step z (fun c => mulOp c z n) else (e, z)
    let b' := b / 2
    let r2 := if b' > 0 then r1.1.step n (fun c => mulOp c n n) else (r1.1, n)
    if r2.1.failed then (r2.1, r1.2) else intPowLoop fuel r2.1 b' r1.2 r2.2

/-- `Context.integerPower(d, x, y)` for an integer `y`: result, flags, error class -/
def integerPower (c : Ctx) (x : Dec) (y : Int) : Dec × Cond × ErrKind :=
  let b := y.natAbs
  let neg := decide (y < 0)
  let r := intPowLoop (Nat.log2 b + 2) { c := c } b decOne x
  if r.1.failed then
    ((r.2), (if neg then r.1.fl.negateOverflowFlags else r.1.fl), r.1.errOf)
  else
    let q := if neg then r.1.step r.2 (fun c => quoOp c decOne r.2) else r
    (q.2, q.1.fl, q.1.errOf)

/-- `Context.Pow` when `y` is a finite integer and no special case applies; `none` otherwise -/
def powIntOp (c : Ctx) (x y : Dec) : Option Out :=
  match powSpecials c x y with
  | some o => some o
  | none =>
    let m := modf y
    if !m.2.isZero then none else            -- fractional exponent: Ln/Exp, not modelled
    let nd := ndigits x.coeff
    let p := (if c.prec < nd then nd else c.prec) + 10
    let nc : Ctx := { baseCtx with prec := p }
    let qi := quantizeCore c m.1 0
    let integ : Int := if qi.1.neg then -(qi.1.coeff : Int) else (qi.1.coeff : Int)
    let ip := integerPower nc x integ
    let res := qi.2 ||| ip.2.1
    if ip.2.2 != .none then some { d := decNaN, fl := res, err := ip.2.2 }
    else
      let r := ctxRound c ip.1
      some (finish c (r.1, res ||| r.2))

end Apd
