import ApdVerif.Model.Basic
import ApdVerif.Model.Round
/-!
# apd model — the text layer (format.go, decimal.go:setString; core Lean only)

Strings are modelled as `List Char` (the `…L` functions) and wrapped into `String` at the API
surface.  Go works on bytes; every byte the Go code tests for, inserts or compares with is ASCII,
and a byte of a multi-byte UTF-8 sequence is ≥ 0x80, so "the same test on each `Char`" is the same
function on every valid UTF-8 string (the only place where a *length* is used, the number of
bytes after the point, matters only when the mantissa consists of ASCII digits).

* `Text.appendL` / `Text.append` : `Decimal.Append` (`fmtE`, `fmtF`, the `adjExponentLimit = -6`
  rule and the zero special case with `lowestZeroNegativeCoefficientCockroach = -2000`)
* `Text.parseL` / `Text.parse`  : `Decimal.setString` up to, but excluding, `setExponent`
* `Text.setString`, `Text.ctxSetString` : `Decimal.setString`, `Context.SetString`
* `Text.formatL` / `Text.format` : `Decimal.Format`
-/
namespace Apd

/-- `BigInt.Append(buf, 10)` / `strconv.AppendInt(buf, n, 10)` for `n ≥ 0`: the decimal digits of `n`,
most significant first, `"0"` for `0` -/
def natDigits (n : Nat) : List Char := Nat.toDigits 10 n

namespace Text

/-- `n` copies of `'0'` -/
def zeros (n : Nat) : List Char := List.replicate n '0'

/-! ## formatting (format.go) -/

/-- `fmtE`: `d.ddddde±d` -/
def fmtE (fmt : Char) (d : Dec) (digits : List Char) : List Char :=
  let adj : Int := d.exp + (digits.length : Int) - 1
  let mant : List Char :=
    match digits with
    | [] => []                       -- unreachable: `digits` is never empty (Go would panic)
    | c :: rest => if rest.isEmpty then [c] else c :: '.' :: rest
  mant ++ fmt :: (if adj < 0 then '-' :: natDigits (-adj).toNat else '+' :: natDigits adj.toNat)

/-- `fmtF`: `ddddddd.ddddd` -/
def fmtF (d : Dec) (digits : List Char) : List Char :=
  if d.exp < 0 then
    let left : Int := -d.exp - (digits.length : Int)
    if left ≥ 0 then
      '0' :: '.' :: (zeros left.toNat ++ digits)
    else
      let offset := (-left).toNat
      digits.take offset ++ '.' :: digits.drop offset
  else
    digits ++ zeros d.exp.toNat

/-- `lowestZeroNegativeCoefficientCockroach` -/
abbrev lowestZeroNegativeCoefficientCockroach : Int := -2000
/-- `adjExponentLimit` -/
abbrev adjExponentLimit : Int := -6

/-- `Decimal.Append(nil, verb)` -/
def appendL (d : Dec) (verb : Char) : List Char :=
  let sign : List Char := if d.neg then ['-'] else []
  match d.form with
  | .nan => sign ++ ['N', 'a', 'N']
  | .nanSignaling => sign ++ ['s', 'N', 'a', 'N']
  | .infinite => sign ++ ['I', 'n', 'f', 'i', 'n', 'i', 't', 'y']
  | .finite =>
    let digits := natDigits d.coeff
    if verb = 'e' ∨ verb = 'E' then sign ++ fmtE verb d digits
    else if verb = 'f' then sign ++ fmtF d digits
    else if verb = 'g' ∨ verb = 'G' then
      let digitLen : Int := (digits.length : Int)
      let digitLen : Int :=
        if d.coeff = 0 ∧ d.exp ≥ lowestZeroNegativeCoefficientCockroach ∧ d.exp < 0 then digitLen + (-d.exp)
        else digitLen
      let adj : Int := d.exp + (digitLen - 1)
      if d.exp ≤ 0 ∧ adj ≥ adjExponentLimit then sign ++ fmtF d digits
      else sign ++ fmtE (if verb = 'g' then 'e' else 'E') d digits
    else
      -- the prematurely added sign is removed again
      ['%', verb]

/-- `Decimal.Append` / `Decimal.Text` -/
def append (d : Dec) (verb : Char) : String := String.ofList (appendL d verb)

/-- `Decimal.String` -/
def string (d : Dec) : String := append d 'G'

/-! ## parsing (decimal.go:setString, strconv.ParseInt, BigInt.SetString) -/

/-- `consumePrefix(s, prefix)`: `some rest` if `s` starts with `prefix`, else `none` -/
def consumePrefix : List Char → List Char → Option (List Char)
  | [], s => some s
  | _ :: _, [] => none
  | x :: p, y :: s => if x = y then consumePrefix p s else none

/-- the two `consumePrefix` calls for the sign: `(Negative, rest)`; also the optional sign of
`strconv.ParseInt` -/
def splitSign (s : List Char) : Bool × List Char :=
  match consumePrefix ['-'] s with
  | some t => (true, t)
  | none =>
    match consumePrefix ['+'] s with
    | some t => (false, t)
    | none => (false, s)

/-- `strings.HasPrefix(s, "-") || strings.HasPrefix(s, "+")` -/
def startsWithSign (s : List Char) : Bool :=
  (consumePrefix ['-'] s).isSome || (consumePrefix ['+'] s).isSome

/-- `asciiLower` -/
def asciiLower (s : List Char) : List Char := s.map Char.toLower

/-- `i := strings.IndexByte(s, c)`: `none` if `i < 0`, else `(s[:i], s[i+1:])` -/
def splitAtFirst (c : Char) : List Char → Option (List Char × List Char)
  | [] => none
  | x :: xs =>
    if x = c then some ([], xs)
    else match splitAtFirst c xs with
      | none => none
      | some (a, b) => some (x :: a, b)

/-- a non-empty string of ASCII digits: what `strconv.ParseUint(s, 10, _)` and
`big.Int.SetString(s, 10)` accept once the sign has been dealt with (base 10 given explicitly:
no prefixes, no underscores) -/
def allDigits (s : List Char) : Bool := !s.isEmpty && s.all Char.isDigit

/-- the value of a digit string -/
def digitsVal (s : List Char) : Nat := Nat.ofDigitChars 10 s 0

/-- `strconv.ParseInt(s, 10, 32)`: `none` for a syntax or range error -/
def parseInt32 (s : List Char) : Option Int :=
  let p := splitSign s
  if allDigits p.2 then
    let n := digitsVal p.2
    if p.1 then (if n ≤ 2147483648 then some (-(n : Int)) else none)
    else (if n ≤ 2147483647 then some (n : Int) else none)
  else none

/-- the finite branch of `setString` (after the sign and the special names) -/
def parseNumeric (neg : Bool) (s : List Char) : Option (Dec × Int) :=
  -- exponent part
  let me : Option (List Char × Int) :=
    match splitAtFirst 'e' s with
    | some (m, e) =>
      (match parseInt32 e with
       | some x => some (m, x)
       | none => none)
    | none => some (s, 0)
  match me with
  | none => none
  | some (m, exp10) =>
    -- the point
    let p : List Char × Int :=
      match splitAtFirst '.' m with
      | some (a, b) => (a ++ b, exp10 - (b.length : Int))
      | none => (m, exp10)
    -- the mantissa must be digits only
    if startsWithSign p.1 then none
    else if allDigits p.1 then
      some ({ form := .finite, neg := neg, exp := 0, coeff := digitsVal p.1 }, p.2)
    else none

/-- `Decimal.setString` before `setExponent`: the decimal (exponent field still 0) and the summed
exponent `exp10`; `none` is a parse error -/
def parseL (s : List Char) : Option (Dec × Int) :=
  let p := splitSign s
  let neg := p.1
  let s := asciiLower p.2
  if startsWithSign s then none
  else if s = ['i', 'n', 'f', 'i', 'n', 'i', 't', 'y'] ∨ s = ['i', 'n', 'f'] then
    some ({ form := .infinite, neg := neg, exp := 0, coeff := 0 }, 0)
  else
    match consumePrefix ['n', 'a', 'n'] s with
    | some t =>
      -- the payload digits are verified and ignored
      if t.all Char.isDigit then some ({ form := .nan, neg := neg, exp := 0, coeff := 0 }, 0) else none
    | none =>
      match consumePrefix ['s', 'n', 'a', 'n'] s with
      | some t =>
        if t.all Char.isDigit then some ({ form := .nanSignaling, neg := neg, exp := 0, coeff := 0 }, 0) else none
      | none => parseNumeric neg s

def parse (s : String) : Option (Dec × Int) := parseL s.toList

/-- `Decimal.setString(c, s)` on a fresh destination: `none` is a parse error; otherwise the
destination, the returned flags and the error class of `c.goError(d.setExponent(c, …, exp10))` -/
def setString (c : Ctx) (s : String) : Option Out :=
  match parse s with
  | none => none
  | some (d, exp10) =>
    if d.form = .finite then
      let r := setExponent c d {} [exp10]
      some { d := r.1, fl := r.2, err := goError c.traps r.2 }
    else some { d := d, fl := {}, err := .none }

/-- `Context.SetString(d, s)`: `none` is a parse error.  When `setString` returns an error the
Go function returns `nil, 0, err` (`d` here is the state the destination was left in); otherwise
the destination is rounded and the two flag sets are OR-ed. -/
def ctxSetString (c : Ctx) (s : String) : Option Out :=
  match setString c s with
  | none => none
  | some o =>
    if o.err = .none then
      let r := ctxRound c o.d
      let fl := o.fl ||| r.2
      some { d := r.1, fl := fl, err := goError c.traps fl }
    else some { d := o.d, fl := {}, err := o.err }

/-! ## `Decimal.Format` (fmt.Formatter) -/

def formatL (d : Dec) (verb : Char) (plus minus space zero : Bool) (width : Option Nat) : List Char :=
  let known : Option Char :=
    if verb = 'e' ∨ verb = 'E' ∨ verb = 'f' ∨ verb = 'g' ∨ verb = 'G' then some verb
    else if verb = 'F' then some 'f'
    else if verb = 'v' ∨ verb = 's' then some 'G'
    else none
  match known with
  | none =>
    -- fmt.Fprintf(s, "%%!%c(*apd.Decimal=%s)", format, d.String())
    '%' :: '!' :: verb :: (['(', '*', 'a', 'p', 'd', '.', 'D', 'e', 'c', 'i', 'm', 'a', 'l', '='] ++ appendL d 'G' ++ [')'])
  | some v =>
    let buf := appendL d v
    let buf := if buf.isEmpty then ['?'] else buf
    let sb : List Char × List Char :=
      match buf with
      | '-' :: t => (['-'], t)
      | '+' :: t => ((if space then [' '] else ['+']), t)
      | _ => ((if plus then ['+'] else if space then [' '] else []), buf)
    let sign := sb.1
    let buf := sb.2
    let padding : Nat :=
      match width with
      | some w => w - (sign.length + buf.length)     -- truncated subtraction: 0 unless w > len
      | none => 0
    if minus then sign ++ buf ++ List.replicate padding ' '
    else if zero && d.form = .finite then sign ++ List.replicate padding '0' ++ buf
    else List.replicate padding ' ' ++ sign ++ buf

def format (d : Dec) (verb : Char) (plus minus space zero : Bool) (width : Option Nat) : String :=
  String.ofList (formatL d verb plus minus space zero width)

end Text
end Apd
