import ApdVerif.Model.Basic
/-!
# `setExponent`, `Rounder.Round`, `goError` (decimal.go, round.go, condition.go)
-/
namespace Apd
open Cond

/-- `Condition.GoError` / `Context.goError`: error class for a flag set under a trap set -/
def goError (traps fl : Cond) : ErrKind :=
  if fl.sysOverflow || fl.sysUnderflow then .sys
  else if (fl &&& traps).any then .trap
  else .none

/-- first system-limit violation among the summands of `setExponent` -/
def checkXs : List Int → Option Cond
  | [] => none
  | x :: xs =>
    if x > MaxExponent then some (cSysOverflow ||| cOverflow)
    else if x < MinExponent then some (cSysUnderflow ||| cUnderflow)
    else checkXs xs

def sumInts : List Int → Int
  | [] => 0
  | x :: xs => x + sumInts xs

/-- the tail shared by all normal exits of `setExponent` -/
def seFinish (d : Dec) (r : Int) (res : Cond) : Dec × Cond :=
  let res := if res.inexact && res.subnormal then res ||| cUnderflow else res
  ({ d with exp := r }, res)

/-- `Decimal.setExponent(c, nd, res, xs...)` with `nd = NumDigits(d.Coeff)` (every caller passes
that or `unknownNumDigits`).  Returns the updated decimal and the returned flags; on a
system-limit exit the decimal is unchanged and only the system flags are returned. -/
def setExponent (c : Ctx) (d : Dec) (res : Cond) (xs : List Int) : Dec × Cond :=
  match checkXs xs with
  | some fl => (d, fl)
  | none =>
    let sum := sumInts xs
    let r := sum
    let nd : Int := ndigits d.coeff
    let adj := sum + nd - 1
    if adj > MaxExponent then (d, cSysOverflow ||| cOverflow)
    else if adj < MinExponent then (d, cSysUnderflow ||| cUnderflow)
    else if adj < c.emin then
      -- subnormal
      let res := if !d.isZero then res ||| cSubnormal else res
      let etiny : Int := c.emin - ((c.prec : Int) - 1)
      if r < etiny then
        let k := (etiny - r).toNat
        let integ := d.coeff / 10 ^ k
        let frac := d.coeff % 10 ^ k
        let res := if frac != 0 then res ||| cInexact else res
        let integ := if frac != 0 && shouldAddOne c.mode integ d.neg (cmpNat (2 * frac) (10 ^ k)) then integ + 1 else integ
        let res := if integ == 0 then res ||| cClamped else res
        seFinish { d with coeff := integ } etiny (res ||| cRounded)
      else seFinish d r res
    else if adj > c.emax then
      if d.isZero then seFinish d c.emax (res ||| cClamped)
      else seFinish { d with form := .infinite } r (res ||| cOverflow ||| cInexact)
    else seFinish d r res

/-- `roundAddOne` (round.go): add one to the coefficient, renormalising a carry -/
def roundAddOne (b : Nat) (diff : Int) : Nat × Int :=
  if ndigits (b + 1) > ndigits b then ((b + 1) / 10, diff + 1) else (b + 1, diff)

/-- `Rounder.Round(c, d, x, disableIfPrecisionZero)` for a finite `x`, on a fresh destination -/
def roundXFin (c : Ctx) (x : Dec) (disableIfPrecisionZero : Bool) : Dec × Cond :=
  let d := x
  let nd : Int := ndigits x.coeff
  let xs := x.sign
  if disableIfPrecisionZero && c.prec == 0 then
    setExponent c d {} [d.exp]
  else
    let adj := x.exp + nd - 1
    if xs != 0 && adj < c.emin then
      let res := cSubnormal
      let r := setExponent c d res [d.exp]
      (r.1, res ||| r.2)
    else
      let diff : Int := nd - (c.prec : Int)
      if diff > 0 then
        if diff > MaxExponent then (d, cSysOverflow ||| cOverflow)
        else
          let res := cRounded
          let e := 10 ^ diff.toNat
          let y := d.coeff / e
          let m := d.coeff % e
          let res := if m != 0 then res ||| cInexact else res
          let yd := if m != 0 && shouldAddOne c.mode y x.neg (cmpNat (2 * m) e) then roundAddOne y diff else (y, diff)
          let r := setExponent c { d with coeff := yd.1 } res [d.exp, yd.2]
          (r.1, res ||| r.2)
      else
        setExponent c d {} [d.exp, 0]

/-- `Rounder.Round(c, d, x, disableIfPrecisionZero)`: infinities and NaNs are copied, not rounded
(their coefficient and exponent fields carry no value) -/
def roundX (c : Ctx) (x : Dec) (disableIfPrecisionZero : Bool) : Dec × Cond :=
  if x.form != .finite then (x, {}) else roundXFin c x disableIfPrecisionZero

theorem roundX_finite (c : Ctx) (x : Dec) (b : Bool) (hx : x.form = .finite) :
    roundX c x b = roundXFin c x b := by
  simp [roundX, hx]

theorem roundX_nonfinite (c : Ctx) (x : Dec) (b : Bool) (hx : x.form ≠ .finite) :
    roundX c x b = (x, {}) := by
  simp [roundX, hx]

/-- `Context.round` -/
def ctxRound (c : Ctx) (x : Dec) : Dec × Cond := roundX c x true

/-- `Context.round` on a finite operand -/
def ctxRoundFin (c : Ctx) (x : Dec) : Dec × Cond := roundXFin c x true

theorem ctxRound_finite (c : Ctx) (x : Dec) (hx : x.form = .finite) : ctxRound c x = ctxRoundFin c x := by
  simp [ctxRound, ctxRoundFin, roundX, hx]

theorem ctxRound_nonfinite (c : Ctx) (x : Dec) (hx : x.form ≠ .finite) : ctxRound c x = (x, {}) := by
  simp [ctxRound, roundX, hx]

/-- package a `(Dec × Cond)` core result with the error class -/
def finish (c : Ctx) (r : Dec × Cond) : Out := { d := r.1, fl := r.2, err := goError c.traps r.2 }

/-! ## NaN handling -/

/-- `Context.shouldSetAsNaN` -/
def shouldSetAsNaN (x : Dec) (y : Option Dec) : Bool :=
  x.isNaN || (match y with | some y => y.isNaN | none => false)

/-- `Context.setAsNaN`: first signalling NaN, else first NaN -/
def setAsNaN (c : Ctx) (x : Dec) (y : Option Dec) : Out :=
  let nan : Dec :=
    if x.form == .nanSignaling then x
    else match y with
      | some y => if y.form == .nanSignaling then y else if x.form == .nan then x else y
      | none => x
  if nan.form == .nanSignaling then
    { d := { nan with form := .nan }, fl := cInvalidOp, err := goError c.traps cInvalidOp }
  else { d := nan, fl := {}, err := .none }

end Apd
