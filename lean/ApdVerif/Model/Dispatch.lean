import ApdVerif.Model.Trans
/-!
# Dispatch from the protocol's operation names to the model's functions
-/
namespace Apd

/-- run a context operation of the model -/
def runCtxOp (op : String) (c : Ctx) (x y : Dec) (iarg : Int) : Option Out :=
  match op with
  | "add" => some (addOp c x y false)
  | "sub" => some (addOp c x y true)
  | "mul" => some (mulOp c x y)
  | "quo" => some (quoOp c x y)
  | "quoint" => some (quoIntegerOp c x y)
  | "rem" => some (remOp c x y)
  | "abs" => some (absOp c x)
  | "neg" => some (negOp c x)
  | "round" => some (roundOp c x)
  | "reduce" => some (reduceOp c x)
  | "cmp" => some (cmpOp c x y)
  | "quantize" => some (quantizeOp c x iarg)
  | "rtie" => some (roundToIntegralExactOp c x)
  | "rtiv" => some (roundToIntegralValueOp c x)
  | "ceil" => some (ceilOp c x)
  | "floor" => some (floorOp c x)
  | "sqrt" => some (sqrtOp c x)
  | "cbrt" => cbrtOp c x
  | "exp" => expSpecials c x
  | "ln" | "log10" => logSpecials c x
  | "pow" => powIntOp c x y
  | _ => none

/-- operations judged by their specification oracle only (no executable model of the float-steered series yet) -/
def oracleOnlyOps : List String := ["exp", "ln", "log10", "pow"]


end Apd
