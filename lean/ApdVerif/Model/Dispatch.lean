import ApdVerif.Model.TransLog
/-!
# Dispatch from the protocol's operation names to the model's functions
-/
namespace Apd

/-- run a context operation of the model -/
def runCtxOp (op : String) (c : Ctx) (x y : Dec) (iarg : Int) : Option Out :=
  match op with
  | "add" => some (addOp c x y false)
  | "sub" => some (addOp c x y true)
  | "mul" => some (mulOp c x y)
  | "quo" => some (quoOp c x y)
  | "quoint" => some (quoIntegerOp c x y)
  | "rem" => some (remOp c x y)
  | "abs" => some (absOp c x)
  | "neg" => some (negOp c x)
  | "round" => some (roundOp c x)
  | "reduce" => some (reduceOp c x)
  | "cmp" => some (cmpOp c x y)
  | "quantize" => some (quantizeOp c x iarg)
  | "rtie" => some (roundToIntegralExactOp c x)
  | "rtiv" => some (roundToIntegralValueOp c x)
  | "ceil" => some (ceilOp c x)
  | "floor" => some (floorOp c x)
  | "sqrt" => some (sqrtOp c x)
  | "cbrt" => cbrtOp c x
  | "exp" => expSpecials c x
  | "ln" | "log10" => logSpecials c x
  | "pow" => powIntOp c x y
  | _ => none

/-- run a context operation with the decision tape recorded during the real call (Exp, Ln, Log10, Pow);
`none` = no model / the tape does not fit the model's control flow / tape entries left over -/
def runCtxOpT (op : String) (c : Ctx) (x y : Dec) (iarg : Int) (tape : Tape) : Option Out :=
  let fin : Option (Out × Tape) → Option Out := fun r =>
    match r with
    | some (o, []) => some o
    | _ => none
  match op with
  | "exp" => fin (expT c x tape)
  | "ln" => fin (lnT c x tape)
  | "log10" => fin (log10T c x tape)
  | "pow" => fin (powT c x y tape)
  | _ => runCtxOp op c x y iarg

/-- operations judged by their specification oracle only (no executable model of the float-steered series yet) -/
def oracleOnlyOps : List String := ["exp", "ln", "log10", "pow"]


end Apd
