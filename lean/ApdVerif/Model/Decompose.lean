import ApdVerif.Model.Basic
/-!
# Model of `Decimal.Decompose` / `Decimal.Compose` (decomposer.go) — core Lean only, executable

The four parts of the `decomposer` interface are

    form byte (0 finite, 1 infinite, 2 NaN), negative bool, coefficient []byte (big-endian), exponent int32

`Decompose` reads `d.Coeff` through `BigInt.BitLen`, `BigInt.FillBytes` / `BigInt.Bytes`, `Compose`
writes it through `BigInt.SetBytes`; all of these forward to `math/big`:

* `big.Int.Bytes()`     big-endian magnitude, minimal length (`nil`/empty for 0)            → `natBytes`
* `big.Int.FillBytes(b)` big-endian magnitude, zero-extended on the left to `len(b)`;
                         panics when the value does not fit                                  → `fillBytes`
* `big.Int.SetBytes(b)` the big-endian unsigned integer `b` (leading zero bytes allowed)     → `bytesNat`
* `big.Int.BitLen()`    length of the magnitude in bits, `0` for `0`                         → `bitLen`

The exponent is `int32` in Go and `Int` in `Dec`; neither function computes with it, it is copied.
-/
namespace Apd.Decomp

/-- `BigInt.BitLen()`: `0` for `0`, otherwise `⌊log₂ n⌋ + 1` -/
def bitLen (n : Nat) : Nat := if n = 0 then 0 else Nat.log2 n + 1

/-- the bytes of `n` are pushed in front of `acc`, least significant byte first, so that the result
is big-endian; `fuel` bounds the number of bytes (structural recursion) -/
def natBytesAux : Nat → Nat → List UInt8 → List UInt8
  | 0, _, acc => acc
  | fuel+1, n, acc =>
    if n = 0 then acc else natBytesAux fuel (n / 256) (UInt8.ofNat (n % 256) :: acc)

/-- `big.Int.Bytes()` of the magnitude `n`: big-endian, minimal length, `[]` for `0` -/
def natBytes (n : Nat) : List UInt8 := natBytesAux n n []

/-- exactly `len` bytes of `n` (the low `len` bytes), pushed in front of `acc` -/
def fillBytesAux : Nat → Nat → List UInt8 → List UInt8
  | 0, _, acc => acc
  | len+1, n, acc => fillBytesAux len (n / 256) (UInt8.ofNat (n % 256) :: acc)

/-- `big.Int.FillBytes(buf)` with `len(buf) = len`: big-endian, zero-extended to `len` bytes;
`none` is the Go panic "math/big: buffer too small to fit value" -/
def fillBytes (len n : Nat) : Option (List UInt8) :=
  if (bitLen n + 7) / 8 ≤ len then some (fillBytesAux len n []) else none

/-- `big.Int.SetBytes()`: the big-endian unsigned integer; leading zero bytes are allowed -/
def bytesNat (l : List UInt8) : Nat := l.foldl (fun a b => a * 256 + b.toNat) 0

/-- the four results of `Decompose` / arguments of `Compose` -/
structure Parts where
  form : UInt8
  neg : Bool
  coeff : List UInt8
  exp : Int
deriving DecidableEq, Repr

/-- `Decimal.Decompose(buf)` with `cap(buf) = bufCap`; `none` would be a `FillBytes` panic (it cannot
happen: see `C13_decomposeBuf`).  The Go zero values of the named results are `0, false, nil, 0`. -/
def decomposeBuf (d : Dec) (bufCap : Nat) : Option Parts :=
  match d.form with
  | .infinite => some { form := 1, neg := d.neg, coeff := [], exp := 0 }
  | .nanSignaling | .nan => some { form := 2, neg := d.neg, coeff := [], exp := 0 }
  | .finite =>
    let negative := d.neg
    let exponent := d.exp
    let sizeInBytes := (bitLen d.coeff + 8 - 1) / 8
    if bufCap ≥ sizeInBytes then
      match fillBytes sizeInBytes d.coeff with
      | some coefficient => some { form := 0, neg := negative, coeff := coefficient, exp := exponent }
      | none => none
    else
      some { form := 0, neg := negative, coeff := natBytes d.coeff, exp := exponent }

/-- `Decimal.Decompose(nil)` (and, by `C13_decomposeBuf`, with any buffer) -/
def decompose (d : Dec) : Parts :=
  match d.form with
  | .infinite => { form := 1, neg := d.neg, coeff := [], exp := 0 }
  | .nanSignaling | .nan => { form := 2, neg := d.neg, coeff := [], exp := 0 }
  | .finite => { form := 0, neg := d.neg, coeff := natBytes d.coeff, exp := d.exp }

/-- `Decimal.Compose` on the receiver `dst`; `none` is the error "unknown form".  For the forms 1 and 2
only `Form` and `Negative` are assigned: `Coeff` and `Exponent` keep the receiver's old values. -/
def compose (dst : Dec) (p : Parts) : Option Dec :=
  if p.form = 0 then
    let d := { dst with form := .finite }
    -- Finite form.
    let d := { d with neg := p.neg }
    let d := { d with coeff := bytesNat p.coeff }
    let d := { d with exp := p.exp }
    some d
  else if p.form = 1 then
    let d := { dst with form := .infinite }
    let d := { d with neg := p.neg }
    some d
  else if p.form = 2 then
    let d := { dst with form := .nan }
    let d := { d with neg := p.neg }
    some d
  else none

end Apd.Decomp
