/-!
# Model of `apd.BigInt` (bigint.go) — core Lean only, executable

`apd.BigInt` wraps `math/big.Int`.  The Go struct is

    type BigInt struct { _inner *big.Int; _inline [2]big.Word }      (64-bit words, inlineWords = 2)

and the three possible states of `_inner` are the three `Tag`s:

* `_inner == nil`          (`inlinePos`) value `+(w0 + 2^64*w1)` lives in `_inline`
* `_inner == negSentinel`  (`inlineNeg`) value `-(w0 + 2^64*w1)` lives in `_inline`
* any other pointer        (`heap`)      value is that heap `big.Int` (`big`); `_inline` is stale

## The rule modelled for `inner` / `updateInner`

`inner(tmp)` yields the value as a `big.Int`: for `heap` it is `_inner` itself, otherwise a temporary
whose `abs` slice *is* the inline array (`SetBits`, capacity 2 words) with `neg` set from the
sentinel.  The wrapper methods compute `zi.Op(...)` *through the receiver's* `zi := z.inner(..)` and
then call `z.updateInner(zi)`:

* receiver `heap`: `zi == z._inner`, math/big updated it in place, `updateInner` returns at once:
  the receiver **stays heap** whatever the new value is (even `0`).
* receiver inline: math/big writes the result into the inline array as long as it fits its capacity
  and re-allocates otherwise.  `updateInner` looks at the result: if it is non-empty
  (`bitsLen > 0`, i.e. value `≠ 0`) and its backing array is not `&z._inline[0]` any more, the receiver
  **switches to heap**; otherwise the unused words are zeroed and `_inner` becomes `nil`/`negSentinel`
  according to the sign of the result (math/big never produces a negative zero).

  A value with `|v| ≥ 2^128` needs 3 words, so math/big *must* have re-allocated: the receiver goes to
  heap.  A value with `|v| < 2^128` fits; the rule asked for (and used by `updateInner`, `ra := false`)
  is that it is then stored inline.  Real math/big may also re-allocate although the result fits
  (`nat.add` asks for `m+1` words, `nat.mul` for `m+n` words, aliasing `z.Mul(z, y)` forces a fresh
  slice, ...; observed on go1.23: `Add(2^64, 2^64+5)`, `Mul(2^32, 2^64)`, `Sub(2^128, 2^128-1) = 1` and
  `Quo(2^128, 16)` into a fresh receiver all end up on the heap, while `Sub(2^64, 2^64+5) = -5` and
  `Mul(2^64-1, 2^64-1)` stay inline).  This is the Boolean `ra` ("re-allocated although it fits") of `updateInnerWith`; every
  "big path" below takes it as an optional argument (default `false`) and all theorems of C16 hold for
  both values, so value/sign/Canon are independent of that allocation detail.

The uint64 fast paths (`innerAsUint64` → `xxxInline` → `updateInnerFromUint64`) do not look at the
receiver at all; they always leave it inline (so a `heap` receiver can come back to inline).

Operands are never written (the model is functional: every method returns the new receiver).
Division by zero: `quoInline`/`remInline` refuse `yVal == 0`, the big path then calls math/big, which
panics: `Quo`, `Rem`, `QuoRem` return `none`.
-/
namespace Apd.BigInt

inductive Tag
  | inlinePos   -- `_inner == nil`
  | inlineNeg   -- `_inner == negSentinel`
  | heap        -- `_inner` is a real `*big.Int`
deriving DecidableEq, Repr, Inhabited

structure Rep where
  tag : Tag := .inlinePos
  /-- `_inline[0]`, `_inline[1]` (each `< 2^64`) -/
  w0 : Nat := 0
  w1 : Nat := 0
  /-- the value of `*_inner` when `tag = heap` (unused, kept `0` by the model, otherwise) -/
  big : Int := 0
deriving DecidableEq, Repr, Inhabited

/-- magnitude stored in the inline array -/
def Rep.mag (r : Rep) : Nat := r.w0 + 2 ^ 64 * r.w1

/-- abstraction function: the mathematical integer represented -/
def Rep.abs (r : Rep) : Int :=
  match r.tag with
  | .inlinePos => (r.mag : Int)
  | .inlineNeg => -(r.mag : Int)
  | .heap => r.big

/-- representation invariant: the words are machine words, and zero is never negative -/
def Rep.Canon (r : Rep) : Prop :=
  r.w0 < 2 ^ 64 ∧ r.w1 < 2 ^ 64 ∧ (r.tag = .inlineNeg → r.mag ≠ 0)

instance (r : Rep) : Decidable r.Canon := by unfold Rep.Canon; exact inferInstance

/-- the zero value `BigInt{}` ("ready to use") -/
def zero : Rep := {}

/-! ## plumbing: isInline, inner, updateInner, innerAsUint64, updateInnerFromUint64 -/

/-- `isInline`: `z._inner == nil || z._inner == negSentinel` -/
def isInline (z : Rep) : Bool := z.tag == .inlinePos || z.tag == .inlineNeg

/-- `inner`: `tmp.SetBits(inline)`; if `_inner != nil`: if it is not the sentinel return `_inner`,
else set `tmp.neg`. -/
def inner (z : Rep) : Int :=
  let tmp : Int := (z.w0 + 2 ^ 64 * z.w1 : Nat)
  if z.tag != .inlinePos then
    if z.tag != .inlineNeg then z.big
    else -tmp
  else tmp

/-- `updateInner(src)` where `src` (value `v`) was obtained from `z.inner` and then assigned by
math/big.  `ra` = "math/big re-allocated although the value fits in two words" (see the header). -/
def updateInnerWith (ra : Bool) (z : Rep) (v : Int) : Rep :=
  if z.tag == .heap then
    { z with big := v }                                   -- `z._inner == src`: nothing to do
  else
    let m := v.natAbs
    if m != 0 && (ra || decide (2 ^ 128 ≤ m)) then
      { z with tag := .heap, big := v }                   -- backing array moved: switch to the heap
    else
      { tag := if v < 0 then .inlineNeg else .inlinePos   -- sentinel from `src.neg`
        w0 := m % 2 ^ 64, w1 := m / 2 ^ 64                -- the words math/big wrote; the rest zeroed
        big := 0 }

/-- the rule stated in the task: heap exactly when the result does not fit the inline array -/
def updateInner (z : Rep) (v : Int) : Rep := updateInnerWith false z v

/-- `innerAsUint64`: `(val, neg)` when stored inline and `_inline[1] == 0` -/
def innerAsUint64 (z : Rep) : Option (Nat × Bool) :=
  if !isInline z then none
  else if z.w1 != 0 then none
  else some (z.w0, z.tag == .inlineNeg)

/-- `updateInnerFromUint64(val, neg)` (with the D14 fix: zero is never negative) -/
def updateInnerFromUint64 (_z : Rep) (val : Nat) (neg : Bool) : Rep :=
  { tag := if neg && val != 0 then .inlineNeg else .inlinePos, w0 := val, w1 := 0, big := 0 }

/-! ## machine integers -/

/-- wrap an integer into `int64` (two's complement) -/
def wrap64 (x : Int) : Int := (x + 2 ^ 63) % 2 ^ 64 - 2 ^ 63
/-- `int64(v)` for a `uint64` v -/
def toInt64 (v : Nat) : Int := if v < 2 ^ 63 then (v : Int) else (v : Int) - 2 ^ 64
/-- `uint64(x)` for an `int64` x -/
def toUint64 (x : Int) : Nat := (x % 2 ^ 64).toNat

/-- `bits.Len` / `nat.bitLen`: minimal number of bits needed to write `n` -/
def bitLen (n : Nat) : Nat := if n = 0 then 0 else Nat.log2 n + 1

/-- bit `i` of an integer in (infinite) two's complement, what `(*big.Int).Bit` returns -/
def intBit (v : Int) (i : Nat) : Nat := ((v / 2 ^ i) % 2).toNat

/-- `(*big.Int).Cmp`-style three-way result -/
def cmpInt (a b : Int) : Int := if a < b then -1 else if a > b then 1 else 0

/-! ## inline arithmetic for small values (hand-written; tied to the generated versions in
`ApdVerif/Props/GenTieInline.lean`).  Result `(val, neg, ok)`. -/

def addInline (xVal yVal : Nat) (xNeg yNeg : Bool) : Nat × Bool × Bool :=
  if xNeg == yNeg then
    -- same sign: magnitudes add; carry out of 64 bits = not ok
    ((xVal + yVal) % 2 ^ 64, xNeg, decide (xVal + yVal < 2 ^ 64))
  else if xVal < yVal then
    -- borrow: the sign flips, |diff| = y - x (never zero here)
    (yVal - xVal, !xNeg, true)
  else
    (xVal - yVal, if xVal == yVal then false else xNeg, true)

def mulInline (xVal yVal : Nat) (xNeg yNeg : Bool) : Nat × Bool × Bool :=
  ((xVal * yVal) % 2 ^ 64, xNeg != yNeg, decide (xVal * yVal < 2 ^ 64))

def quoInline (xVal yVal : Nat) (xNeg yNeg : Bool) : Nat × Bool × Bool :=
  if yVal == 0 then (0, false, false) else (xVal / yVal, xNeg != yNeg, true)

def remInline (xVal yVal : Nat) (xNeg _yNeg : Bool) : Nat × Bool × Bool :=
  if yVal == 0 then (0, false, false) else (xVal % yVal, xNeg, true)

/-- the common prefix of the binary fast paths:
`if xVal, xNeg, ok := x.innerAsUint64(); ok { if yVal, yNeg, ok := y.innerAsUint64(); ok {
   if zVal, zNeg, ok := f(xVal, yVal, xNeg, yNeg [!yNeg for Sub]); ok { ...` -/
def fast2 (f : Nat → Nat → Bool → Bool → Nat × Bool × Bool) (x y : Rep) (flipY : Bool := false) :
    Option (Nat × Bool) :=
  match innerAsUint64 x with
  | none => none
  | some (xVal, xNeg) =>
    match innerAsUint64 y with
    | none => none
    | some (yVal, yNeg) =>
      match f xVal yVal xNeg (if flipY then !yNeg else yNeg) with
      | (zVal, zNeg, true) => some (zVal, zNeg)
      | (_, _, false) => none

/-! ## the methods with a fast path.  First argument = receiver `z`; result = new receiver. -/

def Add (z x y : Rep) (ra : Bool := false) : Rep :=
  match fast2 addInline x y with
  | some (zVal, zNeg) => updateInnerFromUint64 z zVal zNeg
  | none => updateInnerWith ra z (inner x + inner y)

def Sub (z x y : Rep) (ra : Bool := false) : Rep :=
  match fast2 addInline x y (flipY := true) with
  | some (zVal, zNeg) => updateInnerFromUint64 z zVal zNeg
  | none => updateInnerWith ra z (inner x - inner y)

def Mul (z x y : Rep) (ra : Bool := false) : Rep :=
  match fast2 mulInline x y with
  | some (zVal, zNeg) => updateInnerFromUint64 z zVal zNeg
  | none => updateInnerWith ra z (inner x * inner y)

/-- `none` = math/big's division-by-zero panic -/
def Quo (z x y : Rep) (ra : Bool := false) : Option Rep :=
  match fast2 quoInline x y with
  | some (qVal, qNeg) => some (updateInnerFromUint64 z qVal qNeg)
  | none => if inner y = 0 then none else some (updateInnerWith ra z (Int.tdiv (inner x) (inner y)))

def Rem (z x y : Rep) (ra : Bool := false) : Option Rep :=
  match fast2 remInline x y with
  | some (rVal, rNeg) => some (updateInnerFromUint64 z rVal rNeg)
  | none => if inner y = 0 then none else some (updateInnerWith ra z (Int.tmod (inner x) (inner y)))

/-- `z.QuoRem(x, y, r)`: new `(z, r)` (for distinct `z`, `r`) -/
def QuoRem (z x y r : Rep) (ra rb : Bool := false) : Option (Rep × Rep) :=
  match fast2 quoInline x y, fast2 remInline x y with
  | some (qVal, qNeg), some (rVal, rNeg) =>
    some (updateInnerFromUint64 z qVal qNeg, updateInnerFromUint64 r rVal rNeg)
  | _, _ =>
    if inner y = 0 then none
    else some (updateInnerWith ra z (Int.tdiv (inner x) (inner y)),
               updateInnerWith rb r (Int.tmod (inner x) (inner y)))

def Cmp (z y : Rep) : Int :=
  match innerAsUint64 z, innerAsUint64 y with
  | some (zVal, zNeg), some (yVal, yNeg) =>
    if zNeg == yNeg then
      let r : Int := if zVal < yVal then -1 else if zVal > yVal then 1 else 0
      if zNeg then -r else r
    else if zNeg then -1
    else 1
  | _, _ => cmpInt (inner z) (inner y)

def CmpAbs (z y : Rep) : Int :=
  match innerAsUint64 z, innerAsUint64 y with
  | some (zVal, _), some (yVal, _) => if zVal < yVal then -1 else if zVal > yVal then 1 else 0
  | _, _ => cmpInt (inner z).natAbs (inner y).natAbs

def Abs (z x : Rep) (ra : Bool := false) : Rep :=
  if isInline x then { tag := .inlinePos, w0 := x.w0, w1 := x.w1, big := 0 }
  else updateInnerWith ra z (inner x).natAbs

def Neg (z x : Rep) (ra : Bool := false) : Rep :=
  if isInline x then
    if x.tag == .inlineNeg || (x.w0 == 0 && x.w1 == 0) then
      { tag := .inlinePos, w0 := x.w0, w1 := x.w1, big := 0 }   -- zero is never negative
    else { tag := .inlineNeg, w0 := x.w0, w1 := x.w1, big := 0 }
  else updateInnerWith ra z (-(inner x))

def Set (z x : Rep) (ra : Bool := false) : Rep :=
  if isInline x then x                                           -- `*z = *x`
  else updateInnerWith ra z (inner x)

/-- `SetInt64(x)`, `x` an int64: `neg := x < 0; if neg { x = -x }` (wraps for MinInt64), `uint64(x)` -/
def SetInt64 (z : Rep) (x : Int) : Rep :=
  let neg := decide (x < 0)
  let x' := if neg then wrap64 (-x) else x
  updateInnerFromUint64 z (toUint64 x') neg

def SetUint64 (z : Rep) (x : Nat) : Rep := updateInnerFromUint64 z x false

def Sign (z : Rep) : Int :=
  match z.tag with
  | .inlinePos => if z.w0 == 0 && z.w1 == 0 then 0 else 1
  | .inlineNeg => -1
  | .heap => Int.sign z.big

def Bit (z : Rep) (i : Nat) : Nat :=
  if i == 0 && isInline z then z.w0 &&& 1
  else intBit (inner z) i

def BitLen (z : Rep) : Nat :=
  if isInline z then
    if z.w1 != 0 then 1 * 64 + bitLen z.w1
    else if z.w0 != 0 then 0 * 64 + bitLen z.w0
    else 0
  else bitLen (inner z).natAbs

def IsInt64 (z : Rep) : Bool :=
  match innerAsUint64 z with
  | some (zVal, zNeg) =>
    let zi := toInt64 zVal
    decide (zi ≥ 0) || (zNeg && zi == wrap64 (-zi))
  | none => decide (-(2 ^ 63) ≤ inner z ∧ inner z < 2 ^ 63)

def IsUint64 (z : Rep) : Bool :=
  match innerAsUint64 z with
  | some (_, zNeg) => !zNeg
  | none => decide (0 ≤ inner z ∧ inner z < 2 ^ 64)

/-- `Int64()` as the wrapped machine value (math/big: `v := int64(low64(abs)); if neg { v = -v }`) -/
def Int64 (z : Rep) : Int :=
  match innerAsUint64 z with
  | some (zVal, zNeg) =>
    let zi := toInt64 zVal
    if zNeg then wrap64 (-zi) else zi
  | none =>
    let v := toInt64 ((inner z).natAbs % 2 ^ 64)
    if inner z < 0 then wrap64 (-v) else v

/-- `Uint64()` as the wrapped machine value (math/big: `low64(abs)`, the sign is ignored) -/
def Uint64 (z : Rep) : Nat :=
  match innerAsUint64 z with
  | some (zVal, _) => zVal
  | none => (inner z).natAbs % 2 ^ 64

/-! ## driver entry point -/

def showTag : Tag → String
  | .inlinePos => "i+" | .inlineNeg => "i-" | .heap => "h"

/-- printed state: `<value> <tag>` (for an inline state the words are determined by these) -/
def showRep (r : Rep) : String := toString r.abs ++ " " ++ showTag r.tag

def showBool (b : Bool) : String := if b then "true" else "false"

/-- One call `r.method(a, b)`; returns the new receiver and a printed result.
Mutators print the new state of the receiver (`showRep`).  Integer arguments (`SetInt64`, `SetUint64`,
`Bit`) are taken from the *value* of `a`.  `QuoRem` uses a fresh zero `BigInt` as remainder destination
and prints `<quo state> | <rem state>`.  `none` = panic (division by zero) or bad request.
`ra` is the allocation oracle of `updateInnerWith` handed to every big path: with `ra = true` an inline
receiver moves to the heap for every non-zero big-path result (what real math/big does e.g. for
`Add` of two 2-word values), with `ra = false` only when `|v| ≥ 2^128`.  The printed *value* does not
depend on `ra`; only the tag can. -/
def stepWith (ra : Bool) (r : Rep) (method : String) (a b : Rep) : Option (Rep × String) :=
  let mut_ (r' : Rep) : Option (Rep × String) := some (r', showRep r')
  let obs (s : String) : Option (Rep × String) := some (r, s)
  match method with
  | "Add" => mut_ (Add r a b ra)
  | "Sub" => mut_ (Sub r a b ra)
  | "Mul" => mut_ (Mul r a b ra)
  | "Quo" => (Quo r a b ra).bind mut_
  | "Rem" => (Rem r a b ra).bind mut_
  | "QuoRem" => (QuoRem r a b zero ra ra).bind fun (q, m) => some (q, showRep q ++ " | " ++ showRep m)
  | "Abs" => mut_ (Abs r a ra)
  | "Neg" => mut_ (Neg r a ra)
  | "Set" => mut_ (Set r a ra)
  | "SetInt64" =>
    if -(2 ^ 63) ≤ a.abs ∧ a.abs < 2 ^ 63 then mut_ (SetInt64 r a.abs) else none
  | "SetUint64" =>
    if 0 ≤ a.abs ∧ a.abs < 2 ^ 64 then mut_ (SetUint64 r a.abs.toNat) else none
  | "Cmp" => obs (toString (Cmp r a))
  | "CmpAbs" => obs (toString (CmpAbs r a))
  | "Sign" => obs (toString (Sign r))
  | "Bit" => if 0 ≤ a.abs then obs (toString (Bit r a.abs.toNat)) else none
  | "BitLen" => obs (toString (BitLen r))
  | "IsInt64" => obs (showBool (IsInt64 r))
  | "IsUint64" => obs (showBool (IsUint64 r))
  | "Int64" => obs (toString (Int64 r))
  | "Uint64" => obs (toString (Uint64 r))
  | _ => none

/-- the driver entry point, with the rule of the task statement (`ra = false`) -/
def step (r : Rep) (method : String) (a b : Rep) : Option (Rep × String) :=
  stepWith false r method a b

end Apd.BigInt
