import ApdVerif.Model.Round
/-!
# Context arithmetic (context.go, decimal.go): value-level model

Each `…Op` is the Go method of the same name run on a fresh destination.
-/
namespace Apd
open Cond

def invalidNaN (c : Ctx) : Out := { d := decNaN, fl := cInvalidOp, err := goError c.traps cInvalidOp }
def failWith (e : ErrKind) : Out := { err := e }

/-- `upscale` (decimal.go): coefficients at the common (smaller) exponent; `none` when the gap
exceeds `MaxExponent` -/
def upscale (a b : Dec) : Option (Nat × Nat × Int) :=
  if a.exp == b.exp then some (a.coeff, b.coeff, a.exp)
  else if a.exp < b.exp then
    let s := b.exp - a.exp
    if s > MaxExponent then none else some (a.coeff, b.coeff * 10 ^ s.toNat, a.exp)
  else
    let s := a.exp - b.exp
    if s > MaxExponent then none else some (a.coeff * 10 ^ s.toNat, b.coeff, b.exp)

/-- `Context.add` -/
def addOp (c : Ctx) (x y : Dec) (subtract : Bool) : Out :=
  if shouldSetAsNaN x (some y) then setAsNaN c x (some y) else
  let xn := x.neg
  let yn := y.neg != subtract
  let xi := x.form == .infinite
  let yi := y.form == .infinite
  if xi || yi then
    if xi && yi && xn != yn then invalidNaN c
    else if xi then { d := x }
    else { d := { decInf with neg := yn } }
  else
  match upscale x y with
  | none => failWith .sys
  | some (a, b, s) =>
    let d : Dec :=
      if xn == yn then { form := .finite, neg := xn, exp := s, coeff := a + b }
      else if a < b then { form := .finite, neg := !xn, exp := s, coeff := b - a }
      else if a == b then { form := .finite, neg := (c.mode == .floor), exp := s, coeff := 0 }
      else { form := .finite, neg := xn, exp := s, coeff := a - b }
    finish c (ctxRound c d)

def absOp (c : Ctx) (x : Dec) : Out :=
  if shouldSetAsNaN x none then setAsNaN c x none else finish c (ctxRound c x.absD)

def negOp (c : Ctx) (x : Dec) : Out :=
  if shouldSetAsNaN x none then setAsNaN c x none else finish c (ctxRound c x.negD)

/-- `Context.Round` (with the NaN prologue) -/
def roundOp (c : Ctx) (x : Dec) : Out :=
  if shouldSetAsNaN x none then setAsNaN c x none else finish c (ctxRound c x)

/-- `Context.Mul` -/
def mulOp (c : Ctx) (x y : Dec) : Out :=
  if shouldSetAsNaN x (some y) then setAsNaN c x (some y) else
  let neg := x.neg != y.neg
  if x.form == .infinite || y.form == .infinite then
    if x.isZero || y.isZero then invalidNaN c
    else { d := { decInf with neg := neg } }
  else
    let d0 : Dec := { form := .finite, neg := neg, exp := 0, coeff := x.coeff * y.coeff }
    let r1 := setExponent c d0 {} [x.exp, y.exp]
    let r2 := ctxRound c r1.1
    finish c (r2.1, r1.2 ||| r2.2)

/-- `Context.quoSpecials`; `none` = not a special case -/
def quoSpecials (c : Ctx) (x y : Dec) (canClamp : Bool) : Option Out :=
  if shouldSetAsNaN x (some y) then some (setAsNaN c x (some y)) else
  let neg := x.neg != y.neg
  let xi := x.form == .infinite
  let yi := y.form == .infinite
  if xi || yi then
    if xi && yi then some (invalidNaN c)
    else if xi then some { d := { decInf with neg := neg } }
    else if canClamp then
      some { d := { form := .finite, neg := neg, exp := c.emin - (c.prec : Int) + 1, coeff := 0 },
             fl := cClamped, err := goError c.traps cClamped }
    else some { d := { form := .finite, neg := neg, exp := 0, coeff := 0 } }
  else if y.isZero then
    if x.isZero then some { d := decNaN, fl := cDivUndefined, err := goError c.traps cDivUndefined }
    else some { d := { decInf with neg := neg }, fl := cDivByZero, err := goError c.traps cDivByZero }
  else if c.prec == 0 then some (failWith .zeroPrec)
  else none

/-- `Context.Quo` -/
def quoOp (c : Ctx) (x y : Dec) : Out :=
  match quoSpecials c x y true with
  | some o => o
  | none =>
    let neg := x.neg != y.neg
    let shift := x.exp - y.exp
    if x.isZero then
      finish c (setExponent c { form := .finite, neg := neg, exp := 0, coeff := 0 } {} [shift])
    else
      let ndDiff : Int := (ndigits x.coeff : Int) - (ndigits y.coeff : Int)
      let dividend := if ndDiff < 0 then x.coeff * 10 ^ (-ndDiff).toNat else x.coeff
      let divisor := if ndDiff > 0 then y.coeff * 10 ^ ndDiff.toNat else y.coeff
      let lt := decide (dividend < divisor)
      let dividend := if lt then dividend * 10 else dividend
      let adjCoeffs : Int := if lt then -ndDiff + 1 else -ndDiff
      let adjExp10 : Int := (c.prec : Int) - 1
      let dividend := dividend * 10 ^ adjExp10.toNat
      let q := dividend / divisor
      let rem := dividend % divisor
      let nd : Int := ndigits q
      let adj := shift + (-adjCoeffs) + (-adjExp10) + nd - 1
      -- (coefficient, extra exponent summand, flags so far)
      let st : Nat × Int × Cond :=
        if rem != 0 then
          if adj ≥ c.emin then
            let res := cInexact ||| cRounded
            if shouldAddOne c.mode q neg (cmpNat (2 * rem) divisor) then
              let r := roundAddOne q 0
              (r.1, r.2, res)
            else (q, 0, res)
          else (q * 10 + 1, -1, {})   -- subnormal: keep the remainder as a sticky digit
        else (q, 0, {})
      let r := setExponent c { form := .finite, neg := neg, exp := 0, coeff := st.1 } st.2.2
                 [shift, -adjCoeffs, -adjExp10, st.2.1]
      finish c (r.1, st.2.2 ||| r.2)

/-- `Context.QuoInteger` -/
def quoIntegerOp (c : Ctx) (x y : Dec) : Out :=
  match quoSpecials c x y false with
  | some o => o
  | none =>
    let neg := x.neg != y.neg
    match upscale x y with
    | none => failWith .sys
    | some (a, b, _) =>
      let q := a / b
      if (ndigits q : Int) > (c.prec : Int) then
        { d := { decNaN with neg := neg }, fl := cDivImpossible, err := goError c.traps cDivImpossible }
      else { d := { form := .finite, neg := neg, exp := 0, coeff := q } }

/-- `Context.Rem` -/
def remOp (c : Ctx) (x y : Dec) : Out :=
  if shouldSetAsNaN x (some y) then setAsNaN c x (some y) else
  if x.form != .finite then invalidNaN c else
  if y.form == .infinite then finish c (ctxRound c x) else
  if y.isZero then
    if x.isZero then { d := decNaN, fl := cDivUndefined, err := goError c.traps cDivUndefined }
    else invalidNaN c
  else
  match upscale x y with
  | none => failWith .sys
  | some (a, b, s) =>
    let q := a / b
    let r := a % b
    if (ndigits q : Int) > (c.prec : Int) then
      { d := decNaN, fl := cDivImpossible, err := goError c.traps cDivImpossible }
    else finish c (ctxRound c { form := .finite, neg := x.neg, exp := s, coeff := r })

/-! ## Cmp -/

/-- `Decimal.Cmp` (three paths, as in decimal.go) -/
def Dec.cmp (d x : Dec) : Int :=
  let ds := d.sign
  let xs := x.sign
  if ds < xs then -1 else if ds > xs then 1 else if ds == 0 && xs == 0 then 0 else
  let gt : Int := if ds == -1 then -1 else 1
  let lt : Int := if ds == -1 then 1 else -1
  if d.form == .infinite then (if x.form == .infinite then 0 else gt)
  else if x.form == .infinite then lt
  else if d.exp == x.exp then
    let c := cmpNat d.coeff x.coeff
    if ds < 0 then -c else c
  else
    let dn : Int := (ndigits d.coeff : Int) + d.exp
    let xn : Int := (ndigits x.coeff : Int) + x.exp
    if dn < xn then lt else if dn > xn then gt else
    let c := if d.exp < x.exp then cmpNat d.coeff (x.coeff * 10 ^ (x.exp - d.exp).toNat)
             else cmpNat (d.coeff * 10 ^ (d.exp - x.exp).toNat) x.coeff
    if ds < 0 then -c else c

/-- `Decimal.cmpOrder` -/
def Dec.cmpOrder (d : Dec) : Int :=
  let v : Int := match d.form with | .finite => 1 | .infinite => 2 | .nanSignaling => 3 | .nan => 4
  if d.neg then -v else v

/-- `Decimal.CmpTotal` -/
def Dec.cmpTotal (d x : Dec) : Int :=
  let dord := d.cmpOrder
  let xord := x.cmpOrder
  if dord < xord then -1 else if dord > xord then 1 else
  match d.form with
  | .finite =>
    let c := d.cmp x
    if c != 0 then c else
    let lt : Int := if d.neg then 1 else -1
    let gt : Int := if d.neg then -1 else 1
    if d.exp < x.exp then lt else if d.exp > x.exp then gt else 0
  | .infinite => 0
  | _ => cmpNat d.coeff x.coeff

/-- `Decimal.SetInt64` -/
def decOfInt (v : Int) : Dec := { form := .finite, neg := decide (v < 0), exp := 0, coeff := v.natAbs }

/-- `Context.Cmp` -/
def cmpOp (c : Ctx) (x y : Dec) : Out :=
  if shouldSetAsNaN x (some y) then setAsNaN c x (some y) else { d := decOfInt (x.cmp y) }

/-! ## Modf, Reduce -/

/-- `Decimal.Modf` (both outputs requested): `(integ, frac)` -/
def modf (d : Dec) : Dec × Dec :=
  if d.exp > 0 then (d, { form := .finite, neg := d.neg, exp := 0, coeff := 0 })
  else
    let nd : Int := ndigits d.coeff
    let e := -d.exp
    if e > nd then ({ form := .finite, neg := d.neg, exp := 0, coeff := 0 }, d)
    else
      let p := 10 ^ e.toNat
      ({ form := .finite, neg := d.neg, exp := 0, coeff := d.coeff / p },
       { form := .finite, neg := d.neg, exp := d.exp, coeff := d.coeff % p })

/-- strip trailing zeros of a non-zero `n`: `(stripped, count)` -/
def stripZerosAux : Nat → Nat → Nat → Nat × Nat
  | 0, n, k => (n, k)
  | fuel+1, n, k => if n != 0 && n % 10 == 0 then stripZerosAux fuel (n / 10) (k + 1) else (n, k)
def stripZeros (n : Nat) : Nat × Nat := stripZerosAux n n 0

/-- `Decimal.Reduce`: result and number of zeros removed -/
def reduceD (x : Dec) : Dec × Nat :=
  if x.form != .finite then (x, 0)
  else if x.coeff == 0 then ({ form := .finite, neg := false, exp := 0, coeff := 0 }, ndigits x.coeff - 1)
  else
    let r := stripZeros x.coeff
    ({ x with coeff := r.1, exp := x.exp + r.2 }, r.2)

/-- `Context.Reduce`: round to the context, then strip, keeping the operand's sign -/
def reduceOp (c : Ctx) (x : Dec) : Out :=
  if shouldSetAsNaN x none then setAsNaN c x none else
  let r := ctxRound c x
  let s := reduceD r.1
  { d := { s.1 with neg := x.neg }, fl := r.2, err := goError c.traps r.2, aux := s.2 }

/-! ## Quantize and friends -/

/-- the largest adjusted exponent of `quantize`'s shifted frame: `c.MaxExponent - exp`, kept within the
package limits -/
def frameEmax (emax exp : Int) : Int :=
  let m := emax - exp
  if m > MaxExponent then MaxExponent else if m < MinExponent then MinExponent else m

/-- `Context.quantize(d, v, exp)` on a fresh destination: result and flags -/
def quantizeCore (c : Ctx) (v : Dec) (exp : Int) : Dec × Cond :=
  let diff := exp - v.exp
  if diff < 0 then
    -- a zero coefficient needs no rescaling, whatever the distance (repair of finding F6)
    if !v.isZero then
      if diff < MinExponent then (v, cSysUnderflow ||| cUnderflow)
      else ({ v with coeff := v.coeff * 10 ^ (-diff).toNat, exp := exp }, {})
    else ({ v with exp := exp }, {})
  else if diff > 0 then
    let p : Int := (ndigits v.coeff : Int) - diff
    if p < 0 then
      if !v.isZero then
        let one := shouldAddOne c.mode 0 v.neg (-1)
        ({ v with coeff := if one then 1 else 0, exp := exp }, cInexact ||| cRounded)
      else ({ v with exp := exp }, {})
    else
      let nc : Ctx := { c with prec := p.toNat, emin := MinExponent, emax := frameEmax c.emax exp }
      let r := roundX nc { v with exp := -diff } false
      let d := r.1
      let d := if d.exp > 0 then { d with coeff := d.coeff * 10 } else d
      ({ d with exp := exp }, r.2)
  else ({ v with exp := exp }, {})

/-- `Context.Quantize` -/
def quantizeOp (c : Ctx) (x : Dec) (exp : Int) : Out :=
  if shouldSetAsNaN x none then setAsNaN c x none else
  let etiny : Int := c.emin - (c.prec : Int) + 1
  if x.form == .infinite || exp < etiny then invalidNaN c else
  let q := quantizeCore c x exp
  if (ndigits q.1.coeff : Int) > (c.prec : Int) || exp > c.emax then invalidNaN c
  else
    let r := ctxRound c q.1
    let res := q.2 ||| r.2
    if res.overflow || res.underflow then invalidNaN c
    else finish c (r.1, res)

/-- `Context.toIntegralSpecials` -/
def toIntegralSpecials (c : Ctx) (x : Dec) : Option Out :=
  if shouldSetAsNaN x none then some (setAsNaN c x none)
  else if x.form != .finite then some { d := x }
  else none

def roundToIntegralExactOp (c : Ctx) (x : Dec) : Out :=
  match toIntegralSpecials c x with
  | some o => o
  | none => finish c (quantizeCore c x 0)

def roundToIntegralValueOp (c : Ctx) (x : Dec) : Out :=
  match toIntegralSpecials c x with
  | some o => o
  | none =>
    let r := quantizeCore c x 0
    finish c (r.1, { r.2 with inexact := false, rounded := false })

def ceilOp (c : Ctx) (x : Dec) : Out :=
  match toIntegralSpecials c x with
  | some o => o
  | none =>
    let m := modf x
    if m.2.sign > 0 then addOp c m.1 decOne false else { d := m.1 }

def floorOp (c : Ctx) (x : Dec) : Out :=
  match toIntegralSpecials c x with
  | some o => o
  | none =>
    let m := modf x
    if m.2.sign < 0 then addOp c m.1 decOne true else { d := m.1 }

end Apd
