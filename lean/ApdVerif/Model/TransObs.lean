import ApdVerif.Model.Trans
/-!
# Observation point inside `Context.Cbrt`

`cbrtLastIter c x` is the value of the local `z` when the Newton loop of `Context.Cbrt` has just ended by
`loop.done` (hook `verifTape("cbrt.iter", 0, &z)` in /repo, build tag `verif`) — the intermediate object the
theorems `C11_cbrt_within_ulp` / `C11_cbrt_exact` are about (`CbrtL.last_iter`).  It repeats the prefix of
`cbrtOp`; `Props/C11CbrtObs.lean` proves that `cbrtOp` is exactly "this prefix, then the tail".
`none` = fuel exhausted; `some none` = the call leaves before the end of the loop (special value, internal error).
-/
namespace Apd

/-- everything `Context.Cbrt` does after the Newton loop: final half-even rounding, sign, exactness re-check -/
def cbrtTail (c : Ctx) (x : Dec) (fl0 : Cond) (z : Dec) : Out :=
  let nc : Ctx := { baseCtx with prec := c.prec * 2 + 2 }
  let r := ctxRound { c with mode := .halfEven } z
  let res := r.2
  let err := goError c.traps res
  let d : Dec := { r.1 with neg := x.neg }
  let e : ED := { c := { nc with prec := c.prec * 3 }, fl := fl0, err := .none }
  let q1 := e.step z (fun c => mulOp c d d)
  let q2 := q1.1.step q1.2 (fun c => mulOp c q1.2 d)
  if q2.1.failed then failOut q2.1.errOf else
  if x.cmp q2.2 == 0 then { d := d } else { d := d, fl := res, err := err }

/-- the prefix of `cbrtOp` up to the end of the Newton loop: `.inl o` = the call has already returned `o`,
`.inr (fl0, z)` = the loop ended with iterate `z` (and `fl0` the flags the ErrDecimal had collected before it) -/
def cbrtPrefix (c : Ctx) (x : Dec) : Option (Sum Out (Cond × Dec)) :=
  match rootSpecials c x 3 with
  | some o => some (.inl o)
  | none =>
    let ax := x.absD
    let nc : Ctx := { baseCtx with prec := c.prec * 2 + 2 }
    let ed : ED := { c := nc }
    match scaleLoop (fun z => z.cmp decOneEighth < 0) decEight 400000 ed ax 0 with
    | none => none
    | some (.inl er) => some (.inl (failOut er))
    | some (.inr (ed, z, down)) =>
    match scaleLoop (fun z => z.cmp decOne > 0) decOneEighth 400000 ed z 0 with
    | none => none
    | some (.inl er) => some (.inl (failOut er))
    | some (.inr (ed, z, up)) =>
      let z0 := z
      let r1 := ed.step z (fun c => mulOp c z cbrtC1)
      let r2 := r1.1.step r1.2 (fun c => addOp c r1.2 cbrtC2 false)
      let r3 := r2.1.step r2.2 (fun c => mulOp c r2.2 z0)
      let r4 := r3.1.step r3.2 (fun c => addOp c r3.2 cbrtC3 false)
      let r5 := if down > up then mulN decHalf (down - up) r4.1 r4.2 else mulN decTwo (up - down) r4.1 r4.2
      let maxIter := 10 + (c.prec + 1)
      match cbrtIter nc ((c.prec : Int) + 1) maxIter ax (maxIter + 2) r5.1 r5.2 {} with
      | none => none
      | some (.inl er) => some (.inl (failOut er))
      | some (.inr z) => some (.inr (r5.1.fl, z))

/-- the iterate the Newton loop of `Context.Cbrt` ends with, if the call gets there -/
def cbrtLastIter (c : Ctx) (x : Dec) : Option (Option Dec) :=
  match cbrtPrefix c x with
  | none => none
  | some (.inl _) => some none
  | some (.inr (_, z)) => some (some z)

end Apd
