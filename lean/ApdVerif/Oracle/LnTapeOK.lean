import ApdVerif.Oracle.ExpTapeOK
/-!
# `LnTapeOK`: a decidable adequacy condition on the tape of one `Context.Ln` call

`Context.Ln` either sums a power series (no `float64` decision involved) or runs Halley's iteration from a
`float64` starting estimate (tape entry `.est d`), calling `Exp` (tape entries `.cp`, `.n`) in every round.
The accuracy theorem of `Props/C12LnAcc.lean` needs no assumption on the estimate itself: the stopping rule of the
loop forces the last iterate to be close to `ln z`, provided (all checked here, on the replayed run):

* every inner `Exp` call reads two tape entries that satisfy `ExpTapeOK`;
* the loop does not stop at its very first test (where the "previous iterate" is the initial `0`);
* the last iterate is non-zero and at most 3 in magnitude (`|ln z| ≤ 2.31` for `z ∈ [0.1, 1)`).

When the operand was rescaled (`x = z·10^k`, `k ≠ 0`) the result uses the pre-rounded `ln 10` table, whose
3011-digit source string is certified against `Real.log 10` to 95 digits only: the condition then asks `Precision + 2 ≤ 90`.
Core Lean only: executable.
-/
namespace Apd

/-- the inner `Exp` wrapper of one Halley round: `(ed', exp(tmp1), tape')` -/
def hE (e : ED) (tmp1 : Dec) (tape : Tape) : Option (ED × Dec × Tape) :=
  if e.failed then some (e, decZero, tape) else
  match expT e.c tmp1 tape with
  | none => none
  | some (o, tape) => some ({ e with fl := e.fl ||| o.fl, err := o.err }, o.d, tape)

def hR2 (z : Dec) (e1 : ED) (tmp2 : Dec) : ED × Dec := e1.step decZero (fun c => addOp c tmp2 z true)
def hR3 (z : Dec) (e1 : ED) (tmp2 : Dec) : ED × Dec :=
  (hR2 z e1 tmp2).1.step (hR2 z e1 tmp2).2 (fun c => addOp c (hR2 z e1 tmp2).2 (hR2 z e1 tmp2).2 false)
def hR4 (z : Dec) (e1 : ED) (tmp2 : Dec) : ED × Dec :=
  (hR3 z e1 tmp2).1.step decZero (fun c => addOp c tmp2 z false)
def hR5 (z : Dec) (e1 : ED) (tmp2 : Dec) : ED × Dec :=
  (hR4 z e1 tmp2).1.step tmp2 (fun c => quoOp c (hR3 z e1 tmp2).2 (hR4 z e1 tmp2).2)
def hR6 (z : Dec) (e1 : ED) (tmp1 tmp2 : Dec) : ED × Dec :=
  (hR5 z e1 tmp2).1.step tmp1 (fun c => addOp c tmp1 (hR5 z e1 tmp2).2 true)

/-- the Halley loop replayed: are the tape and the run adequate? -/
def lnHalleyOK (nc : Ctx) (prec : Int) (maxIter : Nat) (z : Dec) : Nat → ED → Dec → LoopSt → Tape → Bool
  | 0, _, _, _, _ => false
  | fuel+1, e, tmp1, l, tape =>
    !e.failed &&
    match tape with
    | .cp cp :: .n n :: rest =>
      ExpTapeOK e.c tmp1 cp n &&
      match hE e tmp1 (.cp cp :: .n n :: rest) with
      | none => false
      | some (e1, tmp2, tape') =>
        match loopDone nc prec maxIter l (hR6 z e1 tmp1 tmp2).2 with
        | .error _ => true
        | .done =>
          decide (1 ≤ l.i) && (hR6 z e1 tmp1 tmp2).2.coeff != 0 &&
            decide ((hR6 z e1 tmp1 tmp2).2.absD.cmp { coeff := 3 } ≤ 0)
        | .continue l' =>
          if (hR6 z e1 tmp1 tmp2).1.failed then true
          else lnHalleyOK nc prec maxIter z fuel (hR6 z e1 tmp1 tmp2).1 (hR6 z e1 tmp1 tmp2).2 l' tape'
    | _ => false

/-- the working context of `Ln` -/
def lnNc (c : Ctx) : Ctx :=
  { c with prec := c.prec + 2, mode := .halfEven, emin := MinExponent, emax := MaxExponent }

end Apd

namespace Apd.LnAcc
open Apd

/-! ## the prologue of `lnT`, step by step -/

def lnTenth : Dec := { coeff := 1, exp := -1 }
def lnEd0 (c : Ctx) : ED := { c := lnNc c }
/-- `tmp1 = x - 1` -/
def lnA1 (c : Ctx) (x : Dec) : ED × Dec := (lnEd0 c).step decZero (fun k => addOp k x decOne true)
def lnExpDelta (x : Dec) : Int := (ndigits x.coeff : Int) + x.exp
def lnZ (x : Dec) : Dec := { x with exp := x.exp - lnExpDelta x }
def lnRa0 (x : Dec) : Dec := { neg := decide (lnExpDelta x < 0), coeff := (lnExpDelta x).natAbs }
/-- `resAdjust = expDelta · ln 10` -/
def lnA2 (c : Ctx) (x : Dec) : ED × Dec :=
  (lnA1 c x).1.step (lnRa0 x) (fun k => mulOp k (lnRa0 x) (ln10At (c.prec + 2)))
/-- `tmp1 = z - 1` -/
def lnA3 (c : Ctx) (x : Dec) : ED × Dec := (lnA2 c x).1.step (lnA1 c x).2 (fun k => addOp k (lnZ x) decOne true)

/-! ## one round of the series loop, and the number of terms it adds -/

def lR1 (tmp2 : Dec) (e : ED) (tmp3 : Dec) : ED × Dec := e.step tmp3 (fun c => mulOp c tmp3 tmp2)
def lR2 (tmp2 : Dec) (e : ED) (tmp3 : Dec) : ED × Dec :=
  (lR1 tmp2 e tmp3).1.step (lR1 tmp2 e tmp3).2 (fun c => mulOp c (lR1 tmp2 e tmp3).2 tmp2)
def lR3 (tmp2 : Dec) (n : Nat) (e : ED) (tmp3 : Dec) : ED × Dec :=
  (lR2 tmp2 e tmp3).1.step { coeff := 2 * n + 1 } (fun c => quoOp c (lR2 tmp2 e tmp3).2 { coeff := 2 * n + 1 })
def lR4 (tmp2 : Dec) (n : Nat) (e : ED) (tmp1 tmp3 : Dec) : ED × Dec :=
  (lR3 tmp2 n e tmp3).1.step tmp1 (fun c => addOp c tmp1 (lR3 tmp2 n e tmp3).2 false)

/-- the index of the last term added by `lnSeries` (0 when it does not return a value) -/
def lnSeriesN (eps tmp2 : Dec) : Nat → Nat → ED → Dec → Dec → Nat
  | 0, _, _, _, _ => 0
  | fuel+1, n, e, tmp1, tmp3 =>
    if (lR4 tmp2 n e tmp1 tmp3).1.failed then 0
    else if (lR3 tmp2 n e tmp3).2.absD.cmp eps ≤ 0 then n
    else lnSeriesN eps tmp2 fuel (n + 1) (lR4 tmp2 n e tmp1 tmp3).1 (lR4 tmp2 n e tmp1 tmp3).2 (lR2 tmp2 e tmp3).2

/-- the index of the last series term added in the series branch started from `w` (0 if it fails) -/
def lnSerN (c : Ctx) (ed : ED) (w : Dec) : Nat :=
  let b1 := ed.step lnTenth (fun k => addOp k w decTwo false)
  let b2 := b1.1.step w.absD (fun k => quoOp k w b1.2)
  let b3 := b2.1.step b1.2 (fun k => addOp k b2.2 b2.2 false)
  lnSeriesN { coeff := 1, exp := -((c.prec + 2 : Nat) : Int) } b2.2 (c.prec + 2 + 10) 1 b3.1 b3.2 b3.2

/-- number of series terms `Ln` adds for this operand (0 on the Halley path): the `N` of the error bound -/
def lnTermsN (c : Ctx) (x : Dec) : Nat :=
  if (lnA1 c x).2.absD.cmp lnTenth ≤ 0 then lnSerN c (lnA1 c x).1 (lnA1 c x).2
  else if (lnA3 c x).2.absD.cmp lnTenth ≤ 0 then lnSerN c (lnA3 c x).1 (lnA3 c x).2
  else 0

end Apd.LnAcc

namespace Apd
open Apd.LnAcc

/-- the adequacy condition for one `Ln` call -/
def LnTapeOK (c : Ctx) (x : Dec) (tape : Tape) : Bool :=
  x.form == .finite && !x.neg && x.coeff != 0 && decide (1 ≤ c.prec) && decide (c.prec + 2 ≤ 100000) &&
  (if (lnA1 c x).2.absD.cmp lnTenth ≤ 0 then true
   else
     (lnExpDelta x == 0 || decide (c.prec + 2 ≤ 90)) &&
     (if (lnA3 c x).2.absD.cmp lnTenth ≤ 0 then true
      else
        match tape with
        | .est d :: tape =>
          lnHalleyOK (lnNc c) ((c.prec : Int) + 1) (10 + (c.prec + 1)) (lnZ x) (10 + (c.prec + 1) + 2)
            (lnA3 c x).1 d {} tape
        | _ => false))

end Apd
