import ApdVerif.Oracle.Interval
import ApdVerif.Oracle.Round
/-!
# C12 oracles: Exp, Ln, Log10, Pow are within one unit in the last place of the exact real value;
exact cases are exact; overflow/underflow are reported only when real.
Verdicts come from rational interval enclosures (Oracle/Interval.lean); a failure is reported only
when the result is *certainly* more than one ulp from every point of the enclosure.
-/
namespace Apd.Oracle
open Apd Apd.Oracle.Iv

/-- working digits of the enclosures for precision `p` -/
def encDigits (p : Nat) : Nat := if p + 30 ≤ W0 then W0 else p + 30

/-- one unit in the last place of a `prec`-digit result with the magnitude of `d` (not below Etiny) -/
def ulpOf (c : Ctx) (d : Dec) : BF :=
  let adj : Int := (ndigits d.coeff : Int) - 1 + d.exp
  ⟨1, max (adj - (c.prec : Int) + 1) (c.emin - (c.prec : Int) + 1)⟩

/-- enclosure of the exact value of a transcendental operation on finite operands; `none` when the
operation is not numeric for these operands (special cases are C08's) -/
def transEnclosure (op : String) (c : Ctx) (x y : Dec) : Option I :=
  let W := encDigits c.prec
  let xv := BF.ofDec x
  match op with
  | "exp" => some (expPoint W xv)
  | "ln" => if x.neg || x.coeff == 0 then none else some (lnPoint W xv)
  | "log10" => if x.neg || x.coeff == 0 then none else some (I.divPos W (lnPoint W xv) (ln10C W))
  | "pow" =>
    if x.coeff == 0 || y.coeff == 0 then none else
    -- a negative base needs an integer exponent (otherwise InvalidOperation: C08)
    if x.neg && !(y.exp ≥ 0 || y.coeff % 10 ^ (-y.exp).toNat == 0) then none else
    let ax : BF := ⟨x.coeff, x.exp⟩
    -- |x|^y = exp(y ln|x|); the sign is handled by the caller
    some (expI W (I.mul W (I.point (BF.ofDec y)) (lnPoint W ax)))
  | _ => none

/-- exact integer power `x^n` as `(coeff, exp)` when cheap to compute -/
def exactIntPow (x : Dec) (n : Nat) : Nat × Int := (x.coeff ^ n, x.exp * n)

def stripZ' : Nat → Nat → Int → Nat × Int
  | 0, n, k => (n, k)
  | fuel+1, n, k => if n != 0 && n % 10 == 0 then stripZ' fuel (n / 10) (k + 1) else (n, k)

/-- finite decimal `d` denotes `m·10^q` with sign `neg` -/
def denotes (d : Dec) (neg : Bool) (m : Nat) (q : Int) : Bool :=
  d.form == .finite && (d.coeff == 0 || d.neg == neg) &&
  (if d.exp ≥ q then d.coeff * 10 ^ (d.exp - q).toNat == m else d.coeff == m * 10 ^ (q - d.exp).toNat)

/-- property failures of one Exp/Ln/Log10/Pow outcome -/
def transOracle (op : String) (c : Ctx) (x y : Dec) (o : Out) : List (String × String) :=
  if c.prec == 0 || x.form != .finite || (op == "pow" && y.form != .finite) then [] else
  let delivered := o.err == .none || (o.err == .trap && (o.fl &&& c.traps).any)
  if !delivered then [] else
  let W := encDigits c.prec
  -- results exactly representable by definition
  let exactChecks : List (String × String) :=
    match op with
    | "exp" => if x.coeff == 0 then (if denotes o.d false 1 0 && !o.fl.inexact then [] else [("C12", "exp(0) is not exactly 1")]) else []
    | "ln" | "log10" =>
      if !x.neg && denotes x false 1 0 then (if o.d.form == .finite && o.d.coeff == 0 && !o.fl.inexact then [] else [("C12", s!"{op}(1) is not exactly 0")]) else []
    | "pow" =>
      if y.coeff == 0 && x.coeff != 0 then (if denotes o.d false 1 0 then [] else [("C12", "x**0 is not exactly 1")])
      else
        -- non-negative integer exponent whose exact power fits the precision and the exponent range
        let ys := stripZ' y.coeff y.coeff 0
        let yexp := y.exp + ys.2
        if !y.neg && yexp ≥ 0 && yexp ≤ 3 && x.coeff != 0 then
          let n := ys.1 * 10 ^ yexp.toNat
          if n ≤ 400 && ndigits x.coeff * n ≤ 4 * c.prec + 8 then
            let p := exactIntPow x n
            let s := stripZ' p.1 p.1 0
            let adj : Int := p.2 + (ndigits p.1 : Int) - 1
            if ndigits s.1 ≤ c.prec && adj ≤ c.emax && adj ≥ c.emin then
              (if denotes o.d (x.neg && n % 2 == 1) p.1 p.2 then [] else [("C12", s!"integer power whose exact value fits is not returned exactly (expected {p.1}E{p.2})")])
            else []
          else []
        else []
    | _ => []
  -- Exp gives up (reports overflow / underflow) for |x| ≥ 23·1000 without looking at the exponent range:
  -- DESIGN.md finding F5; such misreports carry their own tag
  let expLarge : Bool := op == "exp" && x.form == .finite && (if x.exp ≥ 0 then decide (x.coeff * 10 ^ x.exp.toNat > 22977) else decide (x.coeff > 22977 * 10 ^ (-x.exp).toNat))
  let rangeTag := if expLarge then "exp-large-argument: " else ""
  let accuracy : List (String × String) :=
    match transEnclosure op c x y with
    | none => []
    | some enc =>
      match o.d.form with
      | .finite =>
        if o.d.coeff == 0 then
          -- a zero result: the exact value must really be below the subnormal range (or be zero: ln 1)
          if enc.lo.sgn > 0 && enc.lo.adj > c.emin then [("C12", rangeTag ++ "underflow to zero but the exact value is in range")]
          else if enc.hi.sgn < 0 && enc.hi.adj > c.emin then [("C12", rangeTag ++ "underflow to zero but the exact value is in range")] else []
        else
          -- magnitude comparison; Pow's sign: negative base with odd integer exponent
          let mag : BF := ⟨o.d.coeff, o.d.exp⟩
          let v : BF := if op == "pow" then mag else BF.ofDec o.d
          if certainlyOff W v enc (ulpOf c o.d) then
            -- a directed rounding mode adds the error of the internal (Precision+2 digit) result on top
            -- of a full unit: such marginal excesses (< 1.05 ulp) are reported under their own tag
            let u := ulpOf c o.d
            let directed := c.mode == .up || c.mode == .down || c.mode == .ceiling || c.mode == .floor || c.mode == .r05up
            if directed && !(certainlyOff W v enc ⟨105 * u.m, u.e - 2⟩) then
              [("C12", s!"marginal-directed: within 1.05 ulp (but beyond 1 ulp) of the exact value under a directed rounding mode")]
            else if op == "ln" && x.exp < 0 && decide (11 * 10 ^ (-x.exp).toNat < 10 * x.coeff) &&
                decide (10000 * x.coeff < 11052 * 10 ^ (-x.exp).toNat) && !(certainlyOff W v enc ⟨5 * u.m, u.e⟩) then
              -- 1.1 < x < e^0.1: the code rescales to x/10 and adds ln 10, and -2.2 + 2.3 cancels a digit that the
              -- Precision+2 working digits do not have (C12_ln_halley_ulps_small bounds the excess by 4.6 ulp)
              [("C12", s!"ln-cancellation-zone: 1.1 < x < e^0.1, result beyond one ulp (but within 5) of the exact value")]
            else if op == "pow" && (ndigits y.coeff : Int) + y.exp > 9 then
              -- repeated squaring doubles the relative error at every step; the working precision only
              -- budgets for exponents of at most six digits
              [("C12", s!"pow-large-exponent: exponent with more than 9 integer digits, result beyond one ulp")]
            else
            [("C12", s!"result is more than one unit in the last place from the exact value (enclosure [{enc.lo.m}E{enc.lo.e}, {enc.hi.m}E{enc.hi.e}])")]
          else if (o.fl.underflow || o.fl.subnormal) && enc.lo.sgn > 0 && enc.lo.adj > c.emin + 1 then
            [("C12", "reported subnormal/underflow but the exact value is in the normal range")]
          else []
      | .infinite =>
        -- overflow only if the exact value really exceeds the range
        -- (a logarithm can overflow too: log10(1E-998) = -998 does not fit MaxExponent 1)
        let absHi : BF := if enc.hi.sgn ≥ 0 && enc.lo.sgn ≥ 0 then enc.hi
                          else if enc.hi.sgn ≤ 0 then enc.lo.neg else BF.maxB enc.hi enc.lo.neg
        if absHi.sgn > 0 && absHi.adj < c.emax then [("C12", rangeTag ++ "overflow to infinity but the exact value is in range")] else []
      | _ => [("C12", "NaN result for operands in the function's domain")]
  exactChecks ++ accuracy

end Apd.Oracle
