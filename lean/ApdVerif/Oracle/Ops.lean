import ApdVerif.Oracle.Exact
import ApdVerif.Oracle.Roots
import ApdVerif.Oracle.TransOps
/-!
# Per-operation specification oracles evaluated on the implementation's outputs
(Quantize / RoundToIntegral / Ceil / Floor — C09; QuoInteger / Rem — C10)
-/
namespace Apd.Oracle
open Apd

def quantSpec (c : Ctx) (x : Dec) (e : Int) : Nat × Bool := roundAt c.mode x.neg x.coeff 1 x.exp e

def wfDec (d : Dec) : Bool :=
  decide (-100000 ≤ d.exp ∧ d.exp ≤ 100000 ∧ -100000 ≤ d.exp + (ndigits d.coeff : Int) - 1 ∧
    d.exp + (ndigits d.coeff : Int) - 1 ≤ 100000)

def aligned (x y : Dec) : Nat × Nat × Int :=
  let e := min x.exp y.exp
  (x.coeff * 10 ^ (x.exp - e).toNat, y.coeff * 10 ^ (y.exp - e).toNat, e)

def delivered (e : ErrKind) : Bool := e == .none || e == .trap

/-- strip trailing zeros: `(stripped, count)` (local copy to keep the oracle independent of the model) -/
def stripZAux : Nat → Nat → Int → Nat × Int
  | 0, n, k => (n, k)
  | fuel+1, n, k => if n != 0 && n % 10 == 0 then stripZAux fuel (n / 10) (k + 1) else (n, k)
def stripZ (n : Nat) : Nat × Int := stripZAux n n 0

def ceilInt (x : Dec) : Int :=
  let p := 10 ^ (-x.exp).toNat
  if x.neg then -((x.coeff / p : Nat) : Int)
  else if x.coeff % p = 0 then ((x.coeff / p : Nat) : Int) else ((x.coeff / p + 1 : Nat) : Int)
def floorInt (x : Dec) : Int :=
  let p := 10 ^ (-x.exp).toNat
  if !x.neg then ((x.coeff / p : Nat) : Int)
  else if x.coeff % p = 0 then -((x.coeff / p : Nat) : Int) else -((x.coeff / p + 1 : Nat) : Int)

/-- property failures `(property, reason)` of one context-operation outcome -/
def opOracle (op : String) (c : Ctx) (x y : Dec) (iarg : Int) (o : Out) : List (String × String) :=
  -- a trap error not explained by the returned flags is an internal failure: nothing was delivered
  let delivered : ErrKind → Bool := fun e => e == .none || (e == .trap && (o.fl &&& c.traps).any)
  if c.prec == 0 || x.form != .finite then [] else
  match op with
  | "quantize" =>
    let e := iarg
    if !(wfDec x) || e < -100000 || e > 100000 then [] else
    if x.exp - e > 100000 then
      -- rescaling by more than the package's exponent limit: a non-zero coefficient would need more than
      -- 100001 digits, beyond every admissible precision; a zero coefficient needs one digit and is returned at
      -- the requested exponent with no condition (finding F6, repaired: `quantize` no longer refuses the distance
      -- before looking at the coefficient; C09_quantize_zero_far / C09_quantize_far_nonzero)
      if c.prec > 100000 then [] else
      let etiny : Int := c.emin - (c.prec : Int) + 1
      if x.coeff != 0 || e < etiny || e > c.emax then
        (if o.d.form == .nan && o.fl == Cond.cInvalidOp then [] else
          [("C09", "expected NaN with InvalidOperation (rescaled coefficient beyond the precision)"),
           ("C02", "InvalidOperation, and nothing else, must be raised when the rescaled coefficient needs more than Precision digits")])
      else
        (if o.d == { form := .finite, neg := x.neg, exp := e, coeff := 0 } && o.fl == {} then [] else
          [("C09", s!"zero-far-rescale: expected a zero at exponent {e}")])
    else
    let r := quantSpec c x e
    -- the 100000-discarded-digits boundary (C09_quantize_syslimit; DESIGN.md finding F1) is excluded
    if !((ndigits x.coeff : Int) < e - x.exp || e - x.exp < 100000 ||
         (e - x.exp == 100000 && ndigits r.1 ≤ ndigits (x.coeff / 10 ^ 100000))) then [] else
    let etiny : Int := c.emin - (c.prec : Int) + 1
    if e < etiny || e > c.emax || ndigits r.1 > c.prec || (r.1 != 0 && e + (ndigits r.1 : Int) - 1 > c.emax) then
      (if o.d.form == .nan && o.fl == Cond.cInvalidOp then [] else [("C09", "expected NaN with InvalidOperation")])
    else
      (if o.d == { form := .finite, neg := x.neg, exp := e, coeff := r.1 } then [] else
        [("C09", s!"expected coefficient {r.1} at exponent {e}")]) ++
      (if o.fl.inexact == r.2 && (!r.2 || o.fl.rounded) then [] else [("C09", "Inexact/Rounded not iff digits lost")]) ++
      (if o.fl.underflow || o.fl.overflow || o.fl.invalidOp then [("C09", "Underflow/Overflow/Invalid raised")] else [])
  | "rtie" | "rtiv" =>
    if !(wfDec x) then [] else
    let r := quantSpec c x 0
    if (ndigits r.1 : Int) - 1 > c.emax then [] else
    if !((ndigits x.coeff : Int) < -x.exp || -100000 < x.exp ||
         (x.exp == -100000 && ndigits r.1 ≤ ndigits (x.coeff / 10 ^ 100000))) then [] else
    (if o.d == { form := .finite, neg := x.neg, exp := 0, coeff := r.1 } then [] else
      [("C09", s!"expected integer {r.1}")]) ++
    (if op == "rtie" then
       (if o.fl.inexact == r.2 && (!r.2 || o.fl.rounded) then [] else [("C09", "Inexact/Rounded not iff digits lost")])
     else (if o.fl.inexact || o.fl.rounded then [("C09", "RoundToIntegralValue reported Inexact/Rounded")] else []))
  | "ceil" | "floor" =>
    if x.exp > 0 then (if o.d == x then [] else [("C09", "integer-valued operand changed")]) else
    let v := if op == "ceil" then ceilInt x else floorInt x
    if ndigits v.natAbs > c.prec then [] else
    -- an integer beyond MaxExponent cannot be returned as a finite value of the context (C07): overflow
    if (ndigits v.natAbs : Int) - 1 > c.emax then [] else
    (if o.err == .none && o.fl == {} && o.d.form == .finite && o.d.exp == 0 &&
       (if o.d.neg then -(o.d.coeff : Int) else (o.d.coeff : Int)) == v then []
    else [("C09", s!"expected {v}")]) ++
    -- sign of zero (C08_ceil_zero_sign / C08_floor_zero_sign): a zero result carries the operand's sign, as
    -- round-to-integral under RoundCeiling / RoundFloor does (Ceil(-0.05) = -0)
    (if o.err == .none && o.d.form == .finite && o.d.coeff == 0 && v == 0 && o.d.neg != x.neg then
       [("C08", s!"zero result of {op} must carry the operand's sign")] else [])
  | "quoint" =>
    if y.form != .finite || y.coeff == 0 then [] else
    if x.exp - y.exp > 100000 || y.exp - x.exp > 100000 then [] else
    let a := aligned x y
    let q := a.1 / a.2.1
    (if ndigits q ≤ c.prec then
      (if o.d == { form := .finite, neg := (x.neg != y.neg), exp := 0, coeff := q } && o.fl == {} && o.err == .none then []
       else [("C10", s!"expected quotient {q}")])
    else (if o.d.form == .nan && o.fl == Cond.cDivImpossible then [] else [("C10", "expected DivisionImpossible")])) ++
    (if o.fl.divImpossible == decide (ndigits q > c.prec) && !o.fl.invalidOp && !o.fl.divByZero && !o.fl.divUndefined then []
     else [("C02", s!"DivisionImpossible must be raised exactly when the integer quotient needs more than Precision digits (quotient has {ndigits q})")])
  | "rem" =>
    if y.form != .finite || y.coeff == 0 then [] else
    if x.exp - y.exp > 100000 || y.exp - x.exp > 100000 then [] else
    let a := aligned x y
    let q := a.1 / a.2.1
    let r := a.1 % a.2.1
    (if o.fl.divImpossible == decide (ndigits q > c.prec) && !o.fl.invalidOp && !o.fl.divByZero && !o.fl.divUndefined then []
     else [("C02", s!"DivisionImpossible must be raised exactly when the integer quotient needs more than Precision digits (quotient has {ndigits q})")]) ++
    if ndigits q ≤ c.prec then
      if !(delivered o.err) then [] else
      let s := specRound c { neg := x.neg, num := r, den := 1, e10 := a.2.2 }
      (if s.matches o.d then [] else [("C10", s!"remainder is not x - q*y rounded (r={r} e={a.2.2})")]) ++
      (if o.fl.inexact == s.inexact then [] else [("C10", "Inexact wrong for remainder")])
    else (if o.d.form == .nan && o.fl == Cond.cDivImpossible then [] else [("C10", "expected DivisionImpossible")])
  | "sqrt" =>
    if x.coeff == 0 || x.neg || !(delivered o.err) then [] else
    let s := specSqrt c x
    (if s.matches o.d then [] else
      if sqrtDoubleRoundingShape c x o.d then
        [("C11", s!"sqrt-double-rounding: root within 1e-guard ulp of a tie, rounded twice; expected m={s.m} q={s.q}")]
      else [("C11", s!"Sqrt is not the half-even rounding of the exact root: expected m={s.m} q={s.q} inf={s.inf}")]) ++
    (if o.fl.inexact == s.inexact then [] else
      [("C11", s!"Sqrt Inexact={o.fl.inexact} but exact-root test says {s.inexact}"),
       ("C02", s!"Sqrt Inexact={o.fl.inexact} but the root is {if s.inexact then "not " else ""}exactly representable")])
  | "cbrt" =>
    -- C11 promises a VALUE for every finite operand: an error that is not a trap of the caller's is a failure.
    -- C11_cbrt_returns proves there is none under the side condition CbrtSide; the two regions outside it where the
    -- code really fails are known findings (system error at the edges of the exponent / precision range: the shape
    -- predicate below is the negation of clauses 2-7 of CbrtSide; no convergence at Precision 1 for huge exponents)
    if x.form == .finite && x.coeff != 0 && (o.err == .sys || o.err == .other) then
      let p : Int := c.prec
      let adj : Int := x.exp + (ndigits x.coeff : Int) - 1
      let edge : Bool := c.prec > 24999 || ndigits x.coeff > 99990 || x.exp < -99988 + 2 * p ||
        adj / 3 - (2 * p + 2) < -50000 || adj / 3 > 33331 || 3 * (adj / 3 - p) < -100000
      if o.err == .sys then
        (if edge then [("C11", "cbrt-syslimit-edge: Cbrt returns 'exponent out of range' for an operand or precision at the edge of the package limits")]
         else [("C11", "Cbrt returns a system error for an operand well inside the limits")])
      else
        (if c.prec == 1 && (8 * adj.natAbs + 20) * 5 > 4 * 10 ^ (c.prec * 2 + 2) then
           [("C11", "cbrt-no-convergence-p1: at Precision 1 the Newton iteration of Cbrt does not converge within its iteration limit for operands with a huge exponent")]
         else if edge then [("C11", "cbrt-syslimit-edge: Cbrt fails internally for an operand or precision at the edge of the package limits")]
         else [("C11", "Cbrt returns an error (no convergence or an internal failure) for a finite operand inside the limits")])
    else
    if x.coeff == 0 || !(delivered o.err) then [] else
    if o.d.form != .finite then [] else
    (if o.d.neg == x.neg then [] else [("C11", "Cbrt sign")]) ++
    (if cbrtWithinUlp c x o.d then [] else [("C11", "Cbrt result is more than one unit in the last place from the exact root")]) ++
    (match perfectCube x with
     | some (r, k) =>
       let rs := stripZ r
       if ndigits rs.1 ≤ c.prec && (k + rs.2 + (ndigits rs.1 : Int) - 1 ≤ c.emax) && (k + rs.2 ≥ c.emin) then
         (if o.d.form == .finite && (if o.d.exp ≥ k then o.d.coeff * 10 ^ (o.d.exp - k).toNat == r else o.d.coeff == r * 10 ^ (k - o.d.exp).toNat) && !o.fl.inexact then []
          else [("C11", s!"perfect cube: expected exact root {r}E{k} without Inexact")])
       else []
     | none => [])
  | "exp" | "ln" | "log10" | "pow" => transOracle op c x y o
  | _ => []

end Apd.Oracle
