import ApdVerif.Oracle.Round
/-!
# Exact mathematical results of the exactly-rounded operations (as signed rationals)
-/
namespace Apd.Oracle
open Apd

def exactRound (x : Dec) : Exact := { neg := x.neg, num := x.coeff, e10 := x.exp }
def exactAbs (x : Dec) : Exact := { neg := false, num := x.coeff, e10 := x.exp }
def exactNeg (x : Dec) : Exact := { neg := (if x.coeff == 0 then false else !x.neg), num := x.coeff, e10 := x.exp }

/-- `x + y` (`x - y` when `sub`): aligned at the smaller exponent.  An exact zero from operands of
opposite sign is `+0`, except under `RoundFloor` where it is `-0` (GDA sign rule). -/
def exactAdd (c : Ctx) (x y : Dec) (sub : Bool) : Exact :=
  let yn := if sub then !y.neg else y.neg
  let e := min x.exp y.exp
  let a := x.coeff * 10 ^ (x.exp - e).toNat
  let b := y.coeff * 10 ^ (y.exp - e).toNat
  if x.neg == yn then { neg := x.neg, num := a + b, e10 := e }
  else if a > b then { neg := x.neg, num := a - b, e10 := e }
  else if a < b then { neg := yn, num := b - a, e10 := e }
  else { neg := (c.mode == .floor), num := 0, e10 := e }

def exactMul (x y : Dec) : Exact := { neg := x.neg != y.neg, num := x.coeff * y.coeff, e10 := x.exp + y.exp }

/-- `x / y`, `y ≠ 0` -/
def exactQuo (x y : Dec) : Exact := { neg := x.neg != y.neg, num := x.coeff, den := y.coeff, e10 := x.exp - y.exp }

/-- the specification's verdict for context `c`: rounded once (`prec ≥ 1`) or exact (`prec = 0`) -/
def specOf (c : Ctx) (ex : Exact) : Option SpecOut :=
  if c.prec == 0 then specExact c ex else some (specRound c ex)

end Apd.Oracle
