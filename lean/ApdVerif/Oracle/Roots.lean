import ApdVerif.Oracle.Round
/-!
# Specification oracles for Sqrt (correctly rounded, half-even) and Cbrt (within one unit in the
last place, exact on perfect cubes) — integer arithmetic only (C11).
-/
namespace Apd.Oracle
open Apd

/-- Newton iteration for ⌊√n⌋ from a starting point `x ≥ ⌊√n⌋` -/
def isqrtAux : Nat → Nat → Nat → Nat
  | 0, _, x => x
  | fuel+1, n, x =>
    let y := (x + n / x) / 2
    if y < x then isqrtAux fuel n y else x

/-- `⌊√n⌋` -/
def isqrt (n : Nat) : Nat :=
  if n < 2 then n else isqrtAux (2 * Nat.log2 n + 8) n (2 ^ (Nat.log2 n / 2 + 1))

/-- Newton iteration for ⌊∛n⌋ from above -/
def icbrtAux : Nat → Nat → Nat → Nat
  | 0, _, x => x
  | fuel+1, n, x =>
    let y := (2 * x + n / (x * x)) / 3
    if y < x then icbrtAux fuel n y else x

/-- `⌊∛n⌋` -/
def icbrt (n : Nat) : Nat :=
  if n < 2 then n else
  let r := icbrtAux (2 * Nat.log2 n + 8) n (2 ^ (Nat.log2 n / 3 + 1))
  -- guard against an off-by-one of the iteration's stopping rule
  if r * r * r > n then r - 1 else if (r + 1) * (r + 1) * (r + 1) ≤ n then r + 1 else r

/-- floor division of integers -/
def fdiv2 (a : Int) : Int := Int.fdiv a 2

/-- `√x` for finite `x > 0`, rounded half-even once to context `c` (Sqrt always rounds half-even) -/
def specSqrt (c : Ctx) (x : Dec) : SpecOut :=
  let N := x.coeff
  let E := x.exp
  let adjx : Int := (ndigits N : Int) - 1 + E
  let a : Int := fdiv2 adjx                       -- ⌊log10 √x⌋
  let etiny : Int := c.emin - (c.prec : Int) + 1
  let q : Int := max (a - (c.prec : Int) + 1) etiny
  let sh := E - 2 * q
  -- t² = N·10^sh ; n = ⌊t⌋
  let num := if sh ≥ 0 then N * 10 ^ sh.toNat else N
  let den := if sh ≥ 0 then 1 else 10 ^ (-sh).toNat
  let n := isqrt (num / den)
  let exact := n * n * den == num
  -- compare t with n + 1/2 : (2n+1)²·den vs 4·num
  let half := compare (4 * num) ((2 * n + 1) * (2 * n + 1) * den)
  let m := if exact then n else if specAddOne .halfEven n false half then n + 1 else n
  let sub := decide (a < c.emin)
  let adjR : Int := q + (ndigits m : Int) - 1
  if m != 0 && adjR > c.emax then { inf := true, inexact := true, subnormal := sub, overflow := true }
  else { m := m, q := q, inexact := !exact, subnormal := sub }

/-- The known double-rounding shape of `Sqrt` (DESIGN.md finding F2): the returned coefficient is one
unit away from the correctly rounded one, and the exact root lies within `10^-(guard-1)` units of
the tie between them, where `guard = maxp - prec` is the number of extra digits carried by the
internal iterate (`maxp = max(prec+1, digits of x, 7) + 5`).  Such a root is rounded first to
`maxp` digits (onto or across the tie) and then to `prec` digits. -/
def sqrtDoubleRoundingShape (c : Ctx) (x d : Dec) : Bool :=
  let s := specSqrt c x
  if s.inf || d.neg || d.isNaN then false else
  if d.form == .finite && d.exp < s.q then false else
  -- an overflow to infinity caused by the second rounding carrying to 10^prec counts as "one unit up"
  let dm := if d.form == .finite then d.coeff * 10 ^ (d.exp - s.q).toNat
            else if s.m + 1 == 10 ^ c.prec then s.m + 1 else 0
  if !(dm + 1 == s.m || s.m + 1 == dm) then false else
  let n := min dm s.m
  let nd := ndigits x.coeff
  let workp := max (max (c.prec + 1) nd) 7
  let k := workp + 5 - c.prec - 1
  let sh := x.exp - 2 * s.q
  let num := if sh ≥ 0 then x.coeff * 10 ^ sh.toNat else x.coeff
  let den := if sh ≥ 0 then 1 else 10 ^ (-sh).toNat
  let mid := (2 * n + 1) * 10 ^ k
  let lhs := 4 * num * 10 ^ (2 * k)
  decide ((mid - 2) * (mid - 2) * den < lhs) && decide (lhs < (mid + 2) * (mid + 2) * den)

/-- Is the finite result `d` of Cbrt(x) within one unit in the last place (of a `prec`-digit
result) of the exact cube root of `|x|`?  Compares integer cubes. -/
def cbrtWithinUlp (c : Ctx) (x d : Dec) : Bool :=
  let adjd : Int := (ndigits d.coeff : Int) - 1 + d.exp
  let etiny : Int := c.emin - (c.prec : Int) + 1
  let u : Int := max (adjd - (c.prec : Int) + 1) etiny
  if d.exp < u then false else
  let M := d.coeff * 10 ^ (d.exp - u).toNat
  -- ((M-1)·10^u)³ ≤ N·10^E ≤ ((M+1)·10^u)³
  let lo := (M - 1) * (M - 1) * (M - 1)
  let hi := (M + 1) * (M + 1) * (M + 1)
  let sh := x.exp - 3 * u
  if sh ≥ 0 then
    let X := x.coeff * 10 ^ sh.toNat
    decide (lo ≤ X) && decide (X ≤ hi)
  else
    let p := 10 ^ (-sh).toNat
    decide (lo * p ≤ x.coeff) && decide (x.coeff ≤ hi * p)

/-- if `|x|` is a perfect cube, its exact root `(r, k)` meaning `r·10^k` -/
def perfectCube (x : Dec) : Option (Nat × Int) :=
  let s := Int.emod x.exp 3
  let k := Int.fdiv x.exp 3
  let R := x.coeff * 10 ^ s.toNat
  let r := icbrt R
  if r * r * r == R then some (r, k) else none

end Apd.Oracle
