import ApdVerif.Oracle.LnTapeOK
/-!
# `Log10TapeOK`: `Context.Log10` is `Ln` at `Precision + 2` digits in a half-even copy of `BaseContext`,
times the pre-rounded `1/ln 10`; its tape is the tape of that `Ln` call.  Core Lean only.
-/
namespace Apd

/-- the context of the inner `Ln` -/
def log10Nc (c : Ctx) : Ctx := { baseCtx with prec := c.prec + 2, mode := .halfEven }

/-- the tape is adequate for the inner `Ln`, and the precision is within the certified range of the two tables -/
def Log10TapeOK (c : Ctx) (x : Dec) (tape : Tape) : Bool :=
  decide (1 ≤ c.prec) && decide (c.prec + 4 ≤ 90) && LnTapeOK (log10Nc c) x tape

end Apd
