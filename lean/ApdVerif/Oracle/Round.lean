import ApdVerif.Model.Basic
/-!
# Executable specification oracle: "the exact result, rounded once to the context"

Written from the property text and the General Decimal Arithmetic definition of
rounding — not from the algorithm in round.go.  The exact value is a signed
rational `num/den × 10^e10`; everything is integer arithmetic so that the driver
can evaluate it on the implementation's outputs.  `Spec/Rational.lean` + `Props/Rational.lean` relate
it to `ℚ`.
-/
namespace Apd.Oracle
open Apd

/-- exact value `(-1)^neg × num/den × 10^e10`, `den > 0` -/
structure Exact where
  neg : Bool
  num : Nat
  den : Nat := 1
  e10 : Int := 0
deriving Repr, Inhabited

/-- the spec's rounding decision: add one unit to the truncated magnitude `n`?
`half` compares the discarded part with half a unit; only consulted when the
discarded part is non-zero. -/
def specAddOne (m : Mode) (n : Nat) (neg : Bool) (half : Ordering) : Bool :=
  match m with
  | .down => false
  | .up => true
  | .ceiling => !neg
  | .floor => neg
  | .halfUp => half != .lt
  | .halfDown => half == .gt
  | .halfEven => half == .gt || (half == .eq && n % 2 == 1)
  | .r05up => n % 10 == 0 || n % 10 == 5

/-- `⌊log10 (num/den)⌋` for `num, den > 0` -/
def adjRat (num den : Nat) : Int :=
  let a0 : Int := (ndigits num : Int) - (ndigits den : Int)
  let ge := if a0 ≥ 0 then decide (num ≥ den * 10 ^ a0.toNat) else decide (num * 10 ^ (-a0).toNat ≥ den)
  if ge then a0 else a0 - 1

/-- magnitude `num/den × 10^e10` rounded to an integer multiple of `10^q`:
`(m, inexact)` with result `m × 10^q` -/
def roundAt (mode : Mode) (neg : Bool) (num den : Nat) (e10 q : Int) : Nat × Bool :=
  let qr := q - e10
  let N := if qr ≥ 0 then num else num * 10 ^ (-qr).toNat
  let D := if qr ≥ 0 then den * 10 ^ qr.toNat else den
  let n := N / D
  let r := N % D
  if r == 0 then (n, false)
  else (if specAddOne mode n neg (compare (2 * r) D) then n + 1 else n, true)

/-- result of the specification -/
structure SpecOut where
  /-- overflowed to an infinity of sign `neg` -/
  inf : Bool := false
  neg : Bool := false
  /-- finite result `m × 10^q` -/
  m : Nat := 0
  q : Int := 0
  inexact : Bool := false
  subnormal : Bool := false
  overflow : Bool := false
deriving Repr, Inhabited

def SpecOut.underflow (s : SpecOut) : Bool := s.subnormal && s.inexact

/-- The exact value rounded once to context `c` (`c.prec ≥ 1`): to `prec` significant digits, or to
`Etiny` below the normal range, or to infinity when the rounded magnitude exceeds `emax`. -/
def specRound (c : Ctx) (v : Exact) : SpecOut :=
  if v.num == 0 then { neg := v.neg, m := 0, q := v.e10 }
  else
    let adj := adjRat v.num v.den + v.e10
    let etiny : Int := c.emin - (c.prec : Int) + 1
    let q : Int := max (adj - (c.prec : Int) + 1) etiny
    let r := roundAt c.mode v.neg v.num v.den v.e10 q
    let sub := decide (adj < c.emin)
    let adjR : Int := q + (ndigits r.1 : Int) - 1
    if r.1 != 0 && adjR > c.emax then
      { inf := true, neg := v.neg, inexact := true, subnormal := sub, overflow := true }
    else { neg := v.neg, m := r.1, q := q, inexact := r.2, subnormal := sub }

/-- With `prec = 0` rounding is disabled: the exact value itself, provided it is a decimal
(`den = 1`) inside the exponent range; `none` = the specification has no opinion. -/
def specExact (c : Ctx) (v : Exact) : Option SpecOut :=
  if v.den != 1 then none
  else if v.num == 0 then some { neg := v.neg, m := 0, q := v.e10 }
  else
    let adj : Int := (ndigits v.num : Int) - 1 + v.e10
    if adj < c.emin || adj > c.emax then none
    else some { neg := v.neg, m := v.num, q := v.e10 }

/-- does the finite or infinite decimal `d` denote the specified result (numerically, sign of
zero included)? -/
def SpecOut.matches (s : SpecOut) (d : Dec) : Bool :=
  match d.form with
  | .infinite => s.inf && d.neg == s.neg
  | .finite =>
    !s.inf && d.neg == s.neg &&
      (if d.exp ≥ s.q then d.coeff * 10 ^ (d.exp - s.q).toNat == s.m
       else d.coeff == s.m * 10 ^ (s.q - d.exp).toNat)
  | _ => false

/-- C07: a finite result fits its context -/
def fits (c : Ctx) (d : Dec) : Bool :=
  match d.form with
  | .finite =>
    let nd : Int := ndigits d.coeff
    (c.prec == 0 || nd ≤ (c.prec : Int)) &&
    (d.exp + nd - 1 ≤ c.emax) &&
    (c.prec == 0 || d.coeff == 0 || d.exp ≥ c.emin - (c.prec : Int) + 1)
  | _ => true

end Apd.Oracle
