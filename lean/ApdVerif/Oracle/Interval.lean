import ApdVerif.Model.Basic
/-!
# Outward-rounded decimal interval arithmetic and enclosures of exp / ln (C12 oracles)

Values are big decimal floats `m × 10^e` (`m : Int`); an interval is a pair `lo ≤ hi`.  Every
operation rounds `lo` towards -∞ and `hi` towards +∞ to `W` significant digits, so the exact real
result of the operation applied to any points of the operand intervals lies in the result interval.
`expI`, `lnI` use argument reduction by exact identities and Taylor / atanh series with explicit
remainder bounds.  No floating point anywhere.  (Soundness statements: `Props/C12.lean`.)
-/
namespace Apd.Oracle.Iv
open Apd

/-- big decimal float `m × 10^e` -/
structure BF where
  m : Int
  e : Int
deriving Repr, Inhabited, DecidableEq

structure I where
  lo : BF
  hi : BF
deriving Repr, Inhabited

def BF.zero : BF := ⟨0, 0⟩
def BF.ofInt (n : Int) : BF := ⟨n, 0⟩
def BF.ofDec (d : Dec) : BF := ⟨if d.neg then -(d.coeff : Int) else d.coeff, d.exp⟩

/-- exact decimal digit count, via a bit-length estimate and at most a couple of corrections -/
def fastDigitsAux : Nat → Nat → Nat → Nat
  | 0, _, k => k
  | fuel+1, n, k => if 10 ^ k ≤ n then fastDigitsAux fuel n (k + 1) else k
def fastDigits (n : Nat) : Nat :=
  if n < 10 then 1 else
  let b := Nat.log2 n + 1
  let est := b * 1233 / 4096
  -- 1233/4096 undershoots log10 2 by 4.6e-6, so the estimate can fall b/200000 + 2 short
  fastDigitsAux (b / 100000 + 4) n (max est 1)

def floorDiv (a : Int) (p : Nat) : Int := Int.fdiv a p
def ceilDiv (a : Int) (p : Nat) : Int := -(Int.fdiv (-a) p)

/-- round to at most `W` significant digits, towards -∞ (`down`) or +∞ -/
def rnd (W : Nat) (down : Bool) (x : BF) : BF :=
  let d := fastDigits x.m.natAbs
  if d ≤ W then x else
    let k := d - W
    let p := 10 ^ k
    ⟨if down then floorDiv x.m p else ceilDiv x.m p, x.e + k⟩

/-- sign of the value -/
def BF.sgn (x : BF) : Int := if x.m > 0 then 1 else if x.m < 0 then -1 else 0

/-- adjusted exponent of a non-zero value -/
def BF.adj (x : BF) : Int := (fastDigits x.m.natAbs : Int) - 1 + x.e

/-- three-way comparison of values (aligns mantissas only when the magnitudes are close) -/
def BF.cmp (a b : BF) : Int :=
  if a.sgn != b.sgn then (if a.sgn < b.sgn then -1 else 1)
  else if a.sgn == 0 then 0
  else
    let magCmp : Int :=
      if a.adj != b.adj then (if a.adj < b.adj then -1 else 1)
      else
        let e := min a.e b.e
        let x := a.m.natAbs * 10 ^ (a.e - e).toNat
        let y := b.m.natAbs * 10 ^ (b.e - e).toNat
        if x < y then -1 else if x > y then 1 else 0
    if a.sgn > 0 then magCmp else -magCmp

def BF.le (a b : BF) : Bool := a.cmp b ≤ 0
def BF.lt (a b : BF) : Bool := a.cmp b < 0
def BF.neg (a : BF) : BF := ⟨-a.m, a.e⟩
def BF.minB (a b : BF) : BF := if a.le b then a else b
def BF.maxB (a b : BF) : BF := if a.le b then b else a

/-- exact sum (may produce long mantissas; callers round).  When the exponents are very far apart
the smaller operand is replaced by a one-unit bound in the direction asked for. -/
def addDir (W : Nat) (down : Bool) (a b : BF) : BF :=
  if a.m == 0 then rnd W down b else if b.m == 0 then rnd W down a else
  -- keep the alignment bounded: if one operand is negligible, perturb by one unit of the other's last kept digit
  let (big, small) := if a.adj ≥ b.adj then (a, b) else (b, a)
  if big.adj - small.adj > (W : Int) + 5 then
    let bigW := rnd (W + 3) down big
    -- pad to W+3 digits then nudge by one unit in the right direction
    let d := fastDigits bigW.m.natAbs
    let pad := if d < W + 3 then W + 3 - d else 0
    let m := bigW.m * 10 ^ pad
    let e := bigW.e - pad
    let nudged : Int := if small.m > 0 then (if down then m else m + 1) else (if down then m - 1 else m)
    rnd W down ⟨nudged, e⟩
  else
    let e := min a.e b.e
    rnd W down ⟨a.m * 10 ^ (a.e - e).toNat + b.m * 10 ^ (b.e - e).toNat, e⟩

def mulDir (W : Nat) (down : Bool) (a b : BF) : BF := rnd W down ⟨a.m * b.m, a.e + b.e⟩

/-- quotient `a / b` (`b ≠ 0`) rounded in the given direction, with `W` significant digits -/
def divDir (W : Nat) (down : Bool) (a b : BF) : BF :=
  if a.m == 0 then BF.zero else
  let s := (fastDigits b.m.natAbs + W + 2 : Nat)           -- extra digits so that the quotient has ≥ W digits
  let num := a.m * 10 ^ s
  let q := if down then Int.fdiv num b.m else -(Int.fdiv (-num) b.m)
  rnd W down ⟨q, a.e - b.e - s⟩

namespace I
def point (x : BF) : I := ⟨x, x⟩
def ofInt (n : Int) : I := point (BF.ofInt n)
def neg (a : I) : I := ⟨a.hi.neg, a.lo.neg⟩
def add (W : Nat) (a b : I) : I := ⟨addDir W true a.lo b.lo, addDir W false a.hi b.hi⟩
def sub (W : Nat) (a b : I) : I := add W a (neg b)
def mul (W : Nat) (a b : I) : I :=
  if a.lo.sgn ≥ 0 && b.lo.sgn ≥ 0 then ⟨mulDir W true a.lo b.lo, mulDir W false a.hi b.hi⟩ else
  if a.lo == a.hi && b.lo == b.hi then ⟨mulDir W true a.lo b.lo, mulDir W false a.lo b.lo⟩ else
  let ps := [(a.lo, b.lo), (a.lo, b.hi), (a.hi, b.lo), (a.hi, b.hi)]
  let los := ps.map (fun p => mulDir W true p.1 p.2)
  let his := ps.map (fun p => mulDir W false p.1 p.2)
  ⟨los.foldl BF.minB (los.headD BF.zero), his.foldl BF.maxB (his.headD BF.zero)⟩
/-- division by an interval of positive numbers -/
def divPos (W : Nat) (a b : I) : I :=
  if a.lo.sgn ≥ 0 then ⟨divDir W true a.lo b.hi, divDir W false a.hi b.lo⟩ else
  if a.hi.sgn ≤ 0 then ⟨divDir W true a.lo b.lo, divDir W false a.hi b.hi⟩ else
  let ps := [(a.lo, b.lo), (a.lo, b.hi), (a.hi, b.lo), (a.hi, b.hi)]
  let los := ps.map (fun p => divDir W true p.1 p.2)
  let his := ps.map (fun p => divDir W false p.1 p.2)
  ⟨los.foldl BF.minB (los.headD BF.zero), his.foldl BF.maxB (his.headD BF.zero)⟩
def divNat (W : Nat) (a : I) (n : Nat) : I := divPos W a (ofInt n)
/-- widen by `±w` (`w ≥ 0`) -/
def widen (W : Nat) (a : I) (w : BF) : I := ⟨addDir W true a.lo w.neg, addDir W false a.hi w⟩
def hull (a b : I) : I := ⟨BF.minB a.lo b.lo, BF.maxB a.hi b.hi⟩
end I

/-- `Σ_{i<k} r^i / i!` by Horner from the top, for a point `r`, plus the remainder bound
`2·|r|^k / k!` (valid for `|r| ≤ 1/2`, `k ≥ 1`) -/
def expTaylor (W : Nat) (r : BF) (k : Nat) : I :=
  let ri := I.point r
  -- Horner: s = 1 + r/1 (1 + r/2 (1 + … (1 + r/(k-1))))
  let rec horner : Nat → I → I
    | 0, s => s
    | i+1, s => horner i (I.add W (I.ofInt 1) (I.divNat W (I.mul W ri s) (i + 1)))
  let s := horner (k - 1) (I.ofInt 1)
  -- remainder: |R_k| ≤ 2 |r|^k / k!
  let absr : BF := ⟨r.m.natAbs, r.e⟩
  let rec powfact : Nat → BF → BF
    | 0, t => t
    | i+1, t => powfact i (divDir W false (mulDir W false t absr) (BF.ofInt (k - i)))
  let t := powfact k (BF.ofInt 1)
  I.widen W s (mulDir W false t (BF.ofInt 2))

/-- number of halvings `m` with `|x| / 2^m ≤ 1/2` -/
def halvings (x : BF) : Nat :=
  if x.m == 0 then 0 else
  -- |x| < 10^(adj+1) ≤ 2^(4(adj+1)); 4(adj+1)+8 halvings give |x|/2^m ≤ 2^-8; fewer are needed for small x
  let a := x.adj
  if a < -3 then 0 else (4 * (a + 1) + 8).toNat

/-- smallest `k ≥ 2` with `2·(1/2)^k/k! < 10^-(W+2)`, i.e. `k!·2^k > 2·10^(W+2)`; with `|r| ≤ 1/2`
this many Taylor terms leave a remainder below one unit of the working precision -/
def taylorTerms (W : Nat) (shift : Nat) : Nat :=
  -- with |r| ≤ 2^-shift the k-th term is ≤ 2^(-shift·k)/k!
  let rec go : Nat → Nat → Nat → Nat
    | 0, k, _ => k
    | fuel+1, k, acc => if acc > 2 * 10 ^ (W + 2) then k else go fuel (k + 1) (acc * (k + 1) * 2 ^ shift)
  go (W + 10) 1 (2 ^ shift)

/-- enclosure of `exp x` for a point `x` -/
def expPoint (W : Nat) (x : BF) : I :=
  if x.m == 0 then I.ofInt 1 else
  let m := halvings x
  -- r = x / 2^m = x · 5^m / 10^m  exactly
  let r : BF := ⟨x.m * 5 ^ m, x.e - m⟩
  let r := if ndigits r.m.natAbs > W + 10 then r else r   -- exact; long mantissas are rounded inside the ops
  -- |r| ≤ 2^-8 when halvings were taken (or |x| < 10^-3 ≤ 2^-8 otherwise... |x| < 0.001): remainder 2|r|^k/k!
  let k := taylorTerms W 8 + 1
  let s := expTaylor W r k
  let rec sq : Nat → I → I
    | 0, s => s
    | i+1, s => sq i (I.mul W s s)
  sq m s

/-- enclosure of `exp` over an interval (monotone) -/
def expI (W : Nat) (a : I) : I := ⟨(expPoint W a.lo).lo, (expPoint W a.hi).hi⟩

/-- `2·atanh z = 2 Σ z^(2i+1)/(2i+1)` for a point `0 ≤ z ≤ 1/3`, `n` terms, remainder `≤ 2 z^(2n+1) / (1 - z²) ≤ 2.25 z^(2n+1)` -/
def twoAtanh (W : Nat) (z : I) (n : Nat) : I :=
  let z2 := I.mul W z z
  let rec go : Nat → I → I → I
    | 0, _, acc => acc
    | i+1, zp, acc =>
      let idx := n - (i + 1)           -- term index 0 … n-1
      let term := I.divNat W zp (2 * idx + 1)
      go i (I.mul W zp z2) (I.add W acc term)
  let s := go n z (I.ofInt 0)
  -- z^(2n+1) upper bound
  let rec pw : Nat → BF → BF
    | 0, t => t
    | i+1, t => pw i (mulDir W false t z.hi)
  let zt := pw (2 * n + 1) (BF.ofInt 1)
  let rem := mulDir W false zt ⟨225, -2⟩
  let s2 := I.mul W s (I.ofInt 2)
  ⟨s2.lo, addDir W false s2.hi (mulDir W false rem (BF.ofInt 2))⟩

/-- number of atanh terms for `z ≤ 1/3`: each term gains at least 0.95 digits -/
def atanhTerms (W : Nat) : Nat := W + W / 10 + 8

/-- `ln 2 = 2 atanh(1/3)` -/
def ln2I (W : Nat) : I := twoAtanh W (I.divPos W (I.ofInt 1) (I.ofInt 3)) (atanhTerms W)
/-- `ln 10 = 3 ln 2 + ln(5/4)`, `ln(5/4) = 2 atanh(1/9)` -/
def ln10I (W : Nat) : I :=
  I.add W (I.mul W (I.ofInt 3) (ln2I W)) (twoAtanh W (I.divPos W (I.ofInt 1) (I.ofInt 9)) (atanhTerms W))

/-- the working precision used by the C12 oracles; `ln 2` and `ln 10` at this precision are
evaluated once -/
def W0 : Nat := 70
def ln2W0 : I := ln2I W0
def ln10W0 : I := ln10I W0
def ln2C (W : Nat) : I := if W == W0 then ln2W0 else ln2I W
def ln10C (W : Nat) : I := if W == W0 then ln10W0 else ln10I W

/-- enclosure of `ln x` for a point `x > 0`:
`x ∈ [1/2, 2]`: `2 atanh((x-1)/(x+1))` directly (no cancellation near 1);
otherwise `x = u · 2^j · 10^k` with `u ∈ [1,2)`, `ln x = ln u + j ln 2 + k ln 10`. -/
def lnPoint (W : Nat) (x : BF) : I :=
  let xi := I.point x
  let direct (u : I) : I :=
    let z := I.divPos W (I.sub W u (I.ofInt 1)) (I.add W u (I.ofInt 1))
    if z.lo.sgn ≥ 0 then twoAtanh W z (atanhTerms W)
    else I.neg (twoAtanh W (I.neg z) (atanhTerms W))
  if (BF.mk 5 (-1)).le x && x.le (BF.ofInt 2) then direct xi else
  -- scale into [1,10): m10 = x / 10^k
  let k := x.adj
  let m10 : BF := ⟨x.m, x.e - k⟩
  -- halve until in [1,2): j ∈ {0,1,2,3}
  let j : Nat := if m10.lt (BF.ofInt 2) then 0 else if m10.lt (BF.ofInt 4) then 1 else if m10.lt (BF.ofInt 8) then 2 else 3
  let u : I := I.divPos W (I.point m10) (I.ofInt (2 ^ j))
  I.add W (I.add W (direct u) (I.mul W (I.ofInt j) (ln2C W))) (I.mul W (I.ofInt k) (ln10C W))

def lnI (W : Nat) (a : I) : I := ⟨(lnPoint W a.lo).lo, (lnPoint W a.hi).hi⟩

/-- is the decimal value `v` certainly more than `tol` away from every point of the enclosure?
(`tol ≥ 0`) — the only verdict the oracle turns into a failure -/
def certainlyOff (W : Nat) (v : BF) (enc : I) (tol : BF) : Bool :=
  -- v + tol < enc.lo  or  v - tol > enc.hi
  (addDir W false v tol).lt enc.lo || enc.hi.lt (addDir W true v tol.neg)

end Apd.Oracle.Iv
