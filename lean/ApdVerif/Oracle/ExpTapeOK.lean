import ApdVerif.Model.TransLog
/-!
# `ExpTapeOK`: a decidable adequacy condition on the two `float64`-steered decisions of `Context.Exp`

`Context.Exp` takes the working precision `cp` and the number of series terms `n` from `float64`
estimates (the model reads them from the decision tape).  `ExpTapeOK c x cp n` says that these two values
are adequate for the error analysis of `Props/C12ExpAcc.lean`:

* the operand is finite, `Precision ≥ 1`, `cp ≥ Precision`, and the series precision `p = cp + t + 2` is at most 100000;
* the call does not take the early "overflow" exit `|x| > 23·cp` (for which the code reports overflow/underflow
  without looking at the exponent range — finding F5);
* `n ≥ 1`, and for the reduced argument `r = x/10^t` (as computed by the model's `Quo` at `p` digits):
  `|r| ≤ 1` and the Taylor remainder bound `|r|^n/n! · (n+1)/n` is at most `6·10^-p` when `|r| ≤ 3/4`,
  at most `2·10^-p` otherwise.  The term count of Hull & Abrham's formula
  `n = ⌈(1.435 p − 1.182)/log10(p/r)⌉` satisfies this with room (max. observed 5.1 resp. 1.6).

Core Lean only: executable, so that a harness can evaluate it on every recorded call.
-/
namespace Apd

/-- the working precision `cp` after the adjustment for the `float64` rounding of `|x|` -/
def expCp (x : Dec) (cp0 : Nat) : Nat :=
  if cp0 < 999 && x.absD.cmp { coeff := (cp0 + 1) * 23 } ≤ 0 && x.absD.cmp { coeff := cp0 * 23 } > 0
  then cp0 + 1 else cp0

/-- `t = max 0 (exponent + number of digits)`: `|x| < 10^t` -/
def expTt (x : Dec) : Nat :=
  if x.exp + (ndigits x.coeff : Int) < 0 then 0 else (x.exp + (ndigits x.coeff : Int)).toNat

/-- the working context of stages 2–4 -/
def expNc (c : Ctx) (p : Nat) : Ctx :=
  { c with prec := p, mode := .halfEven, emin := MinExponent, emax := MaxExponent }

def factN : Nat → Nat
  | 0 => 1
  | n+1 => (n + 1) * factN n

/-- the truncation condition on the reduced argument `r`, the series precision `p` and the term count `n` -/
def truncOK (r : Dec) (p n : Nat) : Bool :=
  decide (r.exp ≤ 0) && decide (r.coeff ≤ 10 ^ (-r.exp).toNat) &&
  (if 4 * r.coeff ≤ 3 * 10 ^ (-r.exp).toNat then
     decide (r.coeff ^ n * (n + 1) * 10 ^ p ≤ 6 * (n * factN n * 10 ^ ((-r.exp).toNat * n)))
   else decide (r.coeff ^ n * (n + 1) * 10 ^ p ≤ 2 * (n * factN n * 10 ^ ((-r.exp).toNat * n))))

/-- the tape values `cp0` (working precision as recorded) and `n` (number of terms) are adequate -/
def ExpTapeOK (c : Ctx) (x : Dec) (cp0 : Nat) (n : Int) : Bool :=
  x.form == .finite && decide (1 ≤ c.prec) && decide (c.prec ≤ expCp x cp0) &&
  decide (expCp x cp0 + expTt x + 2 ≤ 100000) &&
  !(decide (x.absD.cmp { coeff := expCp x cp0 * 23 } > 0)) && decide (1 ≤ n) &&
  truncOK (quoOp (expNc c (expCp x cp0 + expTt x + 2)) x { coeff := 1, exp := expTt x }).d
    (expCp x cp0 + expTt x + 2) n.toNat

end Apd
