import ApdVerif.Spec.Agrees
import ApdVerif.Lemmas.Digits
/-!
# Helper lemmas for C10 (QuoInteger / Rem)
-/
namespace Apd.C10L
open Apd Apd.Oracle Cond

/-- `upscale` aligns the coefficients at the smaller exponent whenever the exponent gap is
within `MaxExponent` -/
theorem upscale_eq (x y : Dec)
    (hgap : x.exp - y.exp ≤ 100000 ∧ y.exp - x.exp ≤ 100000) :
    upscale x y = some (x.coeff * 10 ^ (x.exp - min x.exp y.exp).toNat,
                        y.coeff * 10 ^ (y.exp - min x.exp y.exp).toNat, min x.exp y.exp) := by
  unfold upscale MaxExponent
  simp only [beq_iff_eq]
  by_cases h1 : x.exp = y.exp
  · simp [h1]
  · by_cases h2 : x.exp < y.exp
    · have hm : min x.exp y.exp = x.exp := by omega
      have h3 : ¬ (y.exp - x.exp > 100000) := by omega
      simp [h1, h2, hm, h3]
    · have hm : min x.exp y.exp = y.exp := by omega
      have h3 : ¬ (x.exp - y.exp > 100000) := by omega
      simp [h1, h2, hm, h3]

theorem shouldSetAsNaN_finite (x y : Dec) (hx : x.form = .finite) (hy : y.form = .finite) :
    shouldSetAsNaN x (some y) = false := by
  simp [shouldSetAsNaN, Dec.isNaN, hx, hy]

theorem quoSpecials_none (c : Ctx) (hp : 1 ≤ c.prec) (x y : Dec) (b : Bool)
    (hx : x.form = .finite) (hy : y.form = .finite) (hy0 : y.coeff ≠ 0) :
    quoSpecials c x y b = none := by
  have hp' : c.prec ≠ 0 := by omega
  simp [quoSpecials, shouldSetAsNaN_finite x y hx hy, hx, hy, Dec.isZero, hy0, hp']

/-- `QuoInteger` on finite operands with a non-zero divisor, in terms of `upscale` -/
theorem quoIntegerOp_eq (c : Ctx) (hp : 1 ≤ c.prec) (x y : Dec)
    (hx : x.form = .finite) (hy : y.form = .finite) (hy0 : y.coeff ≠ 0) (a b : Nat) (s : Int)
    (hu : upscale x y = some (a, b, s)) :
    quoIntegerOp c x y =
      if c.prec < ndigits (a / b) then
        { d := { decNaN with neg := (x.neg != y.neg) }, fl := Cond.cDivImpossible,
          err := goError c.traps Cond.cDivImpossible }
      else { d := { form := .finite, neg := (x.neg != y.neg), exp := 0, coeff := a / b } } := by
  unfold quoIntegerOp
  rw [quoSpecials_none c hp x y false hx hy hy0]
  simp only [hu]
  by_cases h : c.prec < ndigits (a / b)
  · have : ((ndigits (a / b) : Nat) : Int) > (c.prec : Int) := by omega
    simp [h, this]
  · have : ¬ ((ndigits (a / b) : Nat) : Int) > (c.prec : Int) := by omega
    simp [h, this]

/-- `Rem` on finite operands with a non-zero divisor, in terms of `upscale` -/
theorem remOp_eq (c : Ctx) (x y : Dec)
    (hx : x.form = .finite) (hy : y.form = .finite) (hy0 : y.coeff ≠ 0) (a b : Nat) (s : Int)
    (hu : upscale x y = some (a, b, s)) :
    remOp c x y =
      if c.prec < ndigits (a / b) then
        { d := decNaN, fl := Cond.cDivImpossible, err := goError c.traps Cond.cDivImpossible }
      else finish c (ctxRoundFin c { form := .finite, neg := x.neg, exp := s, coeff := a % b }) := by
  unfold remOp
  simp only [shouldSetAsNaN_finite x y hx hy, hx, hy, Dec.isZero, hu]
  by_cases h : c.prec < ndigits (a / b)
  · have : ((ndigits (a / b) : Nat) : Int) > (c.prec : Int) := by omega
    simp [h, this, hy0]
  · have : ¬ ((ndigits (a / b) : Nat) : Int) > (c.prec : Int) := by omega
    simp [h, this, hy0, ctxRound_finite]

/-- a delivered outcome raised no system-limit flag -/
theorem noSys_of_delivered (t fl : Cond) (h : Delivered (goError t fl)) : NoSys fl := by
  unfold Delivered goError at h
  unfold NoSys
  by_cases h1 : fl.sysOverflow = true
  · simp [h1] at h
  · by_cases h2 : fl.sysUnderflow = true
    · simp [h2] at h
    · simp at h1 h2; exact ⟨h1, h2⟩

/-! ## when is `Context.round` exact? -/

@[simp] theorem or_inexact (a b : Cond) : (a ||| b).inexact = (a.inexact || b.inexact) := rfl
@[simp] theorem or_sysOverflow (a b : Cond) : (a ||| b).sysOverflow = (a.sysOverflow || b.sysOverflow) := rfl
@[simp] theorem or_sysUnderflow (a b : Cond) : (a ||| b).sysUnderflow = (a.sysUnderflow || b.sysUnderflow) := rfl

theorem checkXs_some (xs : List Int) (fl : Cond) (h : checkXs xs = some fl) :
    fl.sysOverflow = true ∨ fl.sysUnderflow = true := by
  induction xs with
  | nil => simp [checkXs] at h
  | cons x xs ih =>
    unfold checkXs at h
    split at h
    · injection h with h; subst h; left; rfl
    · split at h
      · injection h with h; subst h; right; rfl
      · exact ih h

theorem seFinish_inexact (d : Dec) (r : Int) (res : Cond) : (seFinish d r res).2.inexact = res.inexact := by
  unfold seFinish
  simp only []
  split <;> simp [cUnderflow]

theorem setExponent_inexact (c : Ctx) (hc : c.WF) (d : Dec) (hf : d.form = .finite)
    (hnd : ndigits d.coeff ≤ c.prec) (res : Cond) (hres : res.inexact = false) (xs : List Int)
    (hns : NoSys (setExponent c d res xs).2) :
    (setExponent c d res xs).2.inexact = false ↔
      (d.coeff % 10 ^ (c.emin - (c.prec : Int) + 1 - sumInts xs).toNat = 0 ∧
        (d.coeff = 0 ∨ sumInts xs + (ndigits d.coeff : Int) - 1 ≤ c.emax)) := by
  obtain ⟨hp1, hp2, hp3, hp4, hp5⟩ := hc
  unfold setExponent at hns ⊢
  cases hck : checkXs xs with
  | some fl =>
    exfalso
    simp only [hck] at hns
    rcases checkXs_some xs fl hck with h | h <;> simp [NoSys, h] at hns
  | none =>
    simp only [hck] at hns ⊢
    generalize sumInts xs = sum at *
    generalize hN : ndigits d.coeff = nd at *
    have hz : d.isZero = (d.coeff == 0) := by simp [Dec.isZero, hf]
    unfold MaxExponent MinExponent at *
    by_cases h1 : sum + (nd : Int) - 1 > 100000
    · exfalso; simp [h1, NoSys, cSysOverflow, cOverflow] at hns
    by_cases h2 : sum + (nd : Int) - 1 < -100000
    · exfalso; simp [h1, h2, NoSys, cSysUnderflow, cUnderflow] at hns
    clear hns
    simp only [h1, h2, if_false]
    have he : c.emin - ((c.prec : Int) - 1) = c.emin - (c.prec : Int) + 1 := by omega
    rw [he]
    by_cases h3 : sum + (nd : Int) - 1 < c.emin
    · simp only [h3, if_true]
      have hemax : sum + (nd : Int) - 1 ≤ c.emax := by omega
      by_cases h4 : sum < c.emin - (c.prec : Int) + 1
      · simp only [h4, if_true, seFinish_inexact]
        generalize d.coeff % 10 ^ (c.emin - (c.prec : Int) + 1 - sum).toNat = frac
        generalize ((if (frac != 0 && _) = true then _ else _ : Nat) == 0) = bz
        by_cases hfr : frac = 0 <;> cases bz <;> by_cases hz0 : d.coeff = 0 <;>
          simp [hfr, hz, hz0, hres, hemax, cSubnormal, cInexact, cClamped, cRounded]
      · simp only [h4, if_false, seFinish_inexact]
        have : (c.emin - (c.prec : Int) + 1 - sum).toNat = 0 := by omega
        rw [this]
        by_cases hz0 : d.coeff = 0 <;> simp [hz, hz0, hres, hemax, cSubnormal, Nat.mod_one]
    · simp only [h3, if_false]
      have : (c.emin - (c.prec : Int) + 1 - sum).toNat = 0 := by omega
      rw [this]
      by_cases h5 : sum + (nd : Int) - 1 > c.emax
      · have h5' : ¬ sum + (nd : Int) - 1 ≤ c.emax := by omega
        by_cases hz0 : d.coeff = 0 <;>
          simp [h5, h5', hz, hz0, hres, seFinish_inexact, cClamped, cOverflow, cInexact, Nat.mod_one]
      · have h5' : sum + (nd : Int) - 1 ≤ c.emax := by omega
        simp [h5, h5', hres, seFinish_inexact, Nat.mod_one]

theorem ctxRound_inexact (c : Ctx) (hc : c.WF) (d : Dec) (hf : d.form = .finite)
    (hnd : ndigits d.coeff ≤ c.prec) (hns : NoSys (ctxRoundFin c d).2) :
    (ctxRoundFin c d).2.inexact = false ↔
      (d.coeff % 10 ^ (c.emin - (c.prec : Int) + 1 - d.exp).toNat = 0 ∧
        (d.coeff = 0 ∨ d.exp + (ndigits d.coeff : Int) - 1 ≤ c.emax)) := by
  have hp0 : (c.prec == 0) = false := by have := hc.1; simp; omega
  have hdiff : ¬ ((ndigits d.coeff : Int) - (c.prec : Int) > 0) := by omega
  have hs1 : sumInts [d.exp] = d.exp := by simp [sumInts]
  have hs2 : sumInts [d.exp, 0] = d.exp := by simp [sumInts]
  unfold ctxRoundFin roundXFin at hns ⊢
  simp only [hp0, Bool.and_false, Bool.false_eq_true, if_false, hdiff] at hns ⊢
  split
  · rename_i hsub
    rw [if_pos hsub] at hns
    simp only [or_inexact]
    have hns' : NoSys (setExponent c d cSubnormal [d.exp]).2 := by
      simpa [NoSys, cSubnormal] using hns
    have := setExponent_inexact c hc d hf hnd cSubnormal rfl [d.exp] hns'
    rw [hs1] at this
    rw [← this]
    simp [cSubnormal]
  · rename_i hsub
    rw [if_neg hsub] at hns
    have := setExponent_inexact c hc d hf hnd {} rfl [d.exp, 0] hns
    rw [hs2] at this
    exact this
end Apd.C10L
