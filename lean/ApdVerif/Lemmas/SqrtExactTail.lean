import ApdVerif.Lemmas.C11SqrtLemmas
/-!
# The tail of `Context.Sqrt` when the iterate is exactly the root
-/
namespace Apd.SqrtX
open Apd Apd.Oracle Apd.RatSpec Apd.C20L Apd.C11Q Apd.MulL Cond

/-- the converse of `cmp_zero_magQ` -/
theorem cmp_zero_of_magQ (w1 w2 : Dec) (h1 : w1.form = .finite) (h2 : w2.form = .finite)
    (n1 : w1.neg = false) (n2 : w2.neg = false) (h : magQ w1 = magQ w2) : w1.cmp w2 = 0 := by
  rw [C15L.cmp_finite w1 w2 h1 h2, C15L.cmpInt_eq_zero_iff]
  unfold signedScaled
  simp only [n1, n2, Bool.false_eq_true, if_false, Int.one_mul]
  unfold magQ at h
  rw [← align w1.coeff w1.exp (min w1.exp w2.exp) (by omega), ← align w2.coeff w2.exp (min w1.exp w2.exp) (by omega)] at h
  have := mul_right_cancel₀ (tp _).ne' h
  exact_mod_cast this

/-- the exactness re-check of `Sqrt` succeeds when the result squares to the operand (the square is formed on the
coefficient: no exponent limit is involved) -/
theorem mul_sq_ok (v x : Dec) (hx : x.form = .finite) (hxn : x.neg = false)
    (hsq : (magQ v) ^ 2 = magQ x) :
    ({ coeff := v.coeff * v.coeff, exp := 2 * v.exp } : Dec).cmp x = 0 :=
  cmp_zero_of_magQ _ x rfl hx rfl hxn (by rw [magQ_sq, hsq])

/-- a decimal whose value is a multiple of the quantum is rounded without Inexact -/
theorem round_grid_exact {cc : Ctx} {d : Dec} (H : RHyp cc d) (M : ℕ)
    (hM : magQ d = (M : ℚ) * (10 : ℚ) ^ (qdOf cc d)) : (ctxRound cc d).2.inexact = false := by
  by_cases h : qdOf cc d ≤ d.exp
  · exact (shape_exact H h).2.1
  · rw [not_le] at h
    obtain ⟨-, -, -, -, s5, -, -⟩ := shape_round H h
    rw [s5]
    obtain ⟨k, hk⟩ : ∃ k : ℕ, qdOf cc d = d.exp + (k : ℤ) := ⟨(qdOf cc d - d.exp).toNat, by omega⟩
    have hk' : (qdOf cc d - d.exp).toNat = k := by omega
    rw [hk']
    unfold magQ at hM
    rw [hk, zpow_add₀ ten_ne, zpow_natCast] at hM
    have h1 : (d.coeff : ℚ) * (10 : ℚ) ^ d.exp = ((M : ℚ) * (10 : ℚ) ^ k) * (10 : ℚ) ^ d.exp := by rw [hM]; ring
    have h2 := mul_right_cancel₀ (tp d.exp).ne' h1
    have h3 : d.coeff = M * 10 ^ k := by exact_mod_cast h2
    rw [h3, Nat.mul_mod_left]
    rfl

/-- the shifted iterate, when it is exactly the root and the specification is exact: its value is the
specification's, and its quantum under the wide context is the specification's -/
theorem exact_root_facts (c : Ctx) (x d : Dec) (h : Int) (δ : ℚ) (hx0 : x.coeff ≠ 0) (H : DHyp c x d h δ)
    (hroot : (magQ d) ^ 2 = magQ x) (hsE : sExact c x = true) :
    magQ d = (sM c x : ℚ) * (10 : ℚ) ^ (sQ c x) ∧ qdOf (ncw c) d = sQ c x ∧ sM c x ≠ 0 ∧
      d.exp + (ndigits d.coeff : ℤ) - 1 = h - 1 := by
  obtain ⟨hf, hneg, hn, hnd, he, hh, hq, hX1, hX2, hδ0, hδ, hDδ, hlo, hhi, hD1, hD2⟩ := H
  have hpos : 0 < d.coeff := Nat.pos_of_ne_zero hn
  have hd0 : 0 < magQ d := magQ_pos d hn
  have hX := magQ_pos x hx0
  have hu := tp (sQ c x)
  obtain ⟨-, hex⟩ := sM_facts c x
  have hsm := hex.1 hsE
  have hsq : ((sM c x : ℚ) * (10 : ℚ) ^ (sQ c x)) ^ 2 = (magQ d) ^ 2 := by
    rw [mul_pow, hsm, hroot]; field_simp
  have hm0 : (0 : ℚ) ≤ (sM c x : ℚ) * (10 : ℚ) ^ (sQ c x) := by positivity
  have hval : magQ d = (sM c x : ℚ) * (10 : ℚ) ^ (sQ c x) := by
    have := (pow_left_inj₀ hm0 hd0.le (by norm_num : (2 : ℕ) ≠ 0)).1 hsq
    exact this.symm
  have hsM0 : sM c x ≠ 0 := by
    intro h0; rw [h0] at hval; simp at hval; linarith
  -- the decade of d
  have h1 : (10 : ℚ) ^ (h - 1) ≤ magQ d := by
    rw [← hroot] at hX1
    exact (pow_le_pow_iff_left₀ (tp _).le hd0.le (by norm_num : (2 : ℕ) ≠ 0)).1 hX1
  have h2 : magQ d < (10 : ℚ) ^ h := by
    rw [← hroot] at hX2
    exact (pow_lt_pow_iff_left₀ hd0.le (tp _).le (by norm_num : (2 : ℕ) ≠ 0)).1 hX2
  have hA : IsAdj (magQ d) (d.exp + (ndigits d.coeff : ℤ) - 1) := by
    have h0 : IsAdj (d.coeff : ℚ) ((ndigits d.coeff : ℤ) - 1) :=
      ⟨(ndigits_q _ hpos).1, by rw [sub_add_cancel]; exact (ndigits_q _ hpos).2⟩
    have := IsAdj_scale h0 d.exp
    have e : (ndigits d.coeff : ℤ) - 1 + d.exp = d.exp + (ndigits d.coeff : ℤ) - 1 := by omega
    rw [e] at this
    exact this
  have hadj : d.exp + (ndigits d.coeff : ℤ) - 1 = h - 1 :=
    IsAdj_unique hA ⟨h1, by rw [sub_add_cancel]; exact h2⟩
  refine ⟨hval, ?_, hsM0, hadj⟩
  rw [hq]; unfold qdOf
  show max (d.exp + (ndigits d.coeff : ℤ) - 1 - (c.prec : ℤ) + 1) (c.emin - (c.prec : ℤ) + 1) = _
  rw [hadj]; congr 1; omega

/-- **the tail on an exact root**: no Inexact (the re-check squares the coefficient of the result, whatever its
exponent) -/
theorem tail_exact (c : Ctx) (x d : Dec) (h : Int) (δ : ℚ) (hc : c.WF) (hx : x.form = .finite)
    (hxn : x.neg = false) (hx0 : x.coeff ≠ 0) (H : DHyp c x d h δ)
    (hroot : (magQ d) ^ 2 = magQ x) (hsE : sExact c x = true)
    (hnov : ¬ (sM c x ≠ 0 ∧ sQ c x + (ndigits (sM c x) : Int) - 1 > c.emax)) :
    let r0 := ctxRound (ncw c) d
    let r1 : Dec × Cond :=
      if r0.2.inexact && r0.1.form == .finite then
        let st := sqrtSettle (ncw c) r0.1 d x
        (st.1, r0.2 ||| st.2)
      else r0
    let r2 := ctxRound (nc2 c) r1.1
    let r : Dec × Cond := (r2.1, r1.2 ||| r2.2)
    let res :=
      if !r.2.inexact && r.1.form == .finite then
        let sq : Dec := { coeff := r.1.coeff * r.1.coeff, exp := 2 * r.1.exp }
        if sq.cmp x != 0 then r.2 ||| cInexact ||| cRounded else r.2
      else r.2
    (finish (nc2 c) (r.1, res)).fl.inexact = false := by
  intro r0 r1 r2 r res
  obtain ⟨G, -, hval⟩ := tail_core c x d h δ hc hx hxn H
  obtain ⟨hv, hqd, hsM0, hadj⟩ := exact_root_facts c x d h δ hx0 H hroot hsE
  have hc' := hc
  obtain ⟨hp, hpe, hemax, hemin, hemin0⟩ := hc'
  have hnp := ndigits_pos d.coeff
  have hh := H.hh
  have R : RHyp (ncw c) d := ⟨hp, hemin, hemin0, rfl, H.hf, H.hn, H.he, by have := H.hnd; omega,
    by have := H.he; omega, by omega⟩
  have hin0 : r0.2.inexact = false := round_grid_exact R (sM c x) (by rw [hqd]; exact hv)
  have hr1 : r1 = r0 := by
    show (if _ then _ else _) = _
    rw [if_neg]; simp [hin0]
  change Grid c.prec c.emin r1.1 at G
  change magQ r1.1 = _ at hval
  have hin1 : r1.2.inexact = false := by rw [hr1]; exact hin0
  -- the second rounding
  have hWF2 : (nc2 c).WF := hc
  obtain ⟨-, -, -, -, gf, -⟩ := grid_final (nc2 c) hWF2 r1.1 G
  have hv0 : r1.1.coeff ≠ 0 := by
    intro h0
    have : magQ r1.1 = 0 := by unfold magQ; rw [h0]; simp
    rw [hval] at this
    have hm : (0 : ℚ) < (sM c x : ℚ) := by exact_mod_cast Nat.pos_of_ne_zero hsM0
    have := mul_pos hm (tp (sQ c x))
    linarith
  have hadjv := adj_of_eq r1.1.coeff (sM c x) r1.1.exp (sQ c x) (Nat.pos_of_ne_zero hv0) (Nat.pos_of_ne_zero hsM0)
    (by unfold magQ at hval; exact hval)
  have hemax2 : (nc2 c).emax = c.emax := rfl
  obtain ⟨g1, g2, -⟩ := gf hv0 (by rw [hemax2]; have := not_and.1 hnov hsM0; omega)
  change r2.1 = r1.1 at g1
  change r2.2.inexact = false at g2
  have hrin : r.2.inexact = false := by
    show (r1.2 ||| r2.2).inexact = false
    show (r1.2.inexact || r2.2.inexact) = false
    rw [hin1, g2]; rfl
  have hrf : r.1.form = .finite := by show r2.1.form = .finite; rw [g1]; exact G.hf
  -- the re-check
  have hsqv : (magQ r1.1) ^ 2 = magQ x := by rw [hval, ← hv, hroot]
  have k2 := mul_sq_ok r1.1 x hx hxn hsqv
  have hres : res = r.2 := by
    show (if _ then _ else _) = _
    have c1 : (!r.2.inexact && r.1.form == .finite) = true := by simp [hrin, hrf]
    rw [if_pos c1]
    simp only []
    have hr1' : r.1 = r1.1 := g1
    rw [hr1', k2]
    simp
  show res.inexact = false
  rw [hres]; exact hrin

/-- `tail_exact` on the named halves of the tail (`C11Q.sqrt_tail_eq`) -/
theorem tail_exact' (c : Ctx) (x d : Dec) (h : Int) (δ : ℚ) (hc : c.WF) (hx : x.form = .finite)
    (hxn : x.neg = false) (hx0 : x.coeff ≠ 0) (H : DHyp c x d h δ)
    (hroot : (magQ d) ^ 2 = magQ x) (hsE : sExact c x = true)
    (hnov : ¬ (sM c x ≠ 0 ∧ sQ c x + (ndigits (sM c x) : Int) - 1 > c.emax)) :
    (tailFin c x (tailMid c x d).1 (tailMid c x d).2).fl.inexact = false :=
  tail_exact c x d h δ hc hx hxn hx0 H hroot hsE hnov

end Apd.SqrtX

#print axioms Apd.SqrtX.tail_exact
