import ApdVerif.Lemmas.ExpAccLoops
import ApdVerif.Lemmas.C15Lemmas
import ApdVerif.Oracle.TransOps
import ApdVerif.Oracle.ExpTapeOK
/-!
# `Exp` on the tape model: the adequacy predicate `ExpTapeOK` and the assembly of the error bound
-/
namespace Apd.ExpAcc
open Apd Apd.Oracle Cond

/-- the main path of `expT` after the special cases, with the tape's two decisions -/
def expMain (c : Ctx) (x : Dec) (cp0 : Nat) (n : Int) (rest : Tape) : Option (Out × Tape) :=
  let res0 := cInexact ||| cRounded
  let cp := expCp x cp0
  if x.absD.cmp { coeff := cp * 23 } > 0 then
    let res := res0 ||| cOverflow
    if x.sign < 0 then
      let res := res.negateOverflowFlags ||| cClamped
      some ({ d := { coeff := 0, exp := c.emin - (c.prec : Int) + 1 }, fl := res, err := goError c.traps res }, .n n :: rest)
    else some ({ d := decInf, fl := res, err := goError c.traps res }, .n n :: rest)
  else if x.absD.cmp { coeff := 9, exp := -(cp : Int) - 1 } ≤ 0 then
    some ({ d := decOne, fl := res0, err := goError c.traps res0 }, .n n :: rest)
  else
    let t := expTt x
    let p := cp + t + 2
    let nc := expNc c p
    let q := quoOp nc x { coeff := 1, exp := t }
    if q.err != .none then some (failOut q.err, .n n :: rest) else
    if n < 0 then some (failOut .other, rest) else
    let s := expSeries q.d (n.toNat - 1) { c := nc } decOne
    if s.1.failed then some (failOut s.1.errOf, rest) else
    let ip := integerPower nc s.2 ((10 : Int) ^ t)
    if ip.2.2 != .none then some (failOut ip.2.2, rest) else
    let res := res0 ||| ip.2.1
    let rr := ctxRound { c with mode := .halfEven } ip.1
    let res := res ||| rr.2
    some ({ d := rr.1, fl := res, err := goError c.traps res }, rest)

theorem expT_main (c : Ctx) (x : Dec) (cp0 : Nat) (n : Int) (rest : Tape) (hsp : expSpecials c x = none) :
    expT c x (.cp cp0 :: .n n :: rest) = expMain c x cp0 n rest := by
  unfold expT
  rw [hsp]
  rfl

/-! ## `Decimal.Cmp` on finite operands is the order of the values -/

theorem signedScaled_toRat (d : Dec) (e : Int) (h : e ≤ d.exp) :
    ((signedScaled d e : ℤ) : ℚ) * (10 : ℚ) ^ e = d.toRat := by
  unfold signedScaled Dec.toRat
  have := RatSpec.align d.coeff d.exp e h
  push_cast at this ⊢
  rw [mul_assoc, this]
  cases d.neg <;> simp

theorem cmp_le_toRat (d x : Dec) (hd : d.form = .finite) (hx : x.form = .finite) (h : d.cmp x ≤ 0) :
    d.toRat ≤ x.toRat := by
  rw [C15L.cmp_finite d x hd hx, C15L.cmpInt_le_zero_iff] at h
  rw [← signedScaled_toRat d (min d.exp x.exp) (min_le_left _ _),
    ← signedScaled_toRat x (min d.exp x.exp) (min_le_right _ _)]
  have hp : (0 : ℚ) < (10 : ℚ) ^ (min d.exp x.exp) := zpow_pos (by norm_num) _
  have : ((signedScaled d (min d.exp x.exp) : ℤ) : ℚ) ≤ ((signedScaled x (min d.exp x.exp) : ℤ) : ℚ) := by
    exact_mod_cast h
  exact mul_le_mul_of_nonneg_right this hp.le

theorem cmp_gt_toRat (d x : Dec) (hd : d.form = .finite) (hx : x.form = .finite) (h : ¬ d.cmp x ≤ 0) :
    x.toRat < d.toRat := by
  rw [C15L.cmp_finite d x hd hx, C15L.cmpInt_le_zero_iff] at h
  rw [← signedScaled_toRat d (min d.exp x.exp) (min_le_left _ _),
    ← signedScaled_toRat x (min d.exp x.exp) (min_le_right _ _)]
  have hp : (0 : ℚ) < (10 : ℚ) ^ (min d.exp x.exp) := zpow_pos (by norm_num) _
  have : ((signedScaled x (min d.exp x.exp) : ℤ) : ℚ) < ((signedScaled d (min d.exp x.exp) : ℤ) : ℚ) := by
    exact_mod_cast (not_le.1 h)
  exact mul_lt_mul_of_pos_right this hp

theorem absD_toRat (x : Dec) : x.absD.toRat = |x.toRat| := by
  unfold Dec.absD Dec.toRat
  have hp : (0 : ℚ) ≤ (x.coeff : ℚ) * (10 : ℚ) ^ x.exp := by
    have : (0 : ℚ) < (10 : ℚ) ^ x.exp := zpow_pos (by norm_num) _
    positivity
  cases x.neg
  · simp only [Bool.false_eq_true, if_false, one_mul]; rw [abs_of_nonneg hp]
  · simp only [Bool.false_eq_true, if_false, if_true, one_mul]
    rw [mul_assoc, neg_one_mul, abs_neg, abs_of_nonneg hp]

/-! ## the final rounding -/

/-- exponent of one unit in the last place of a `prec`-digit result with the magnitude of `d` (not below Etiny):
the exponent of `Oracle.ulpOf` -/
def ulpExp (c : Ctx) (d : Dec) : Int := (ulpOf c d).e

theorem ulpExp_eq (c : Ctx) (d : Dec) :
    ulpExp c d = max ((ndigits d.coeff : Int) - 1 + d.exp - (c.prec : Int) + 1) (c.emin - (c.prec : Int) + 1) := rfl

/-- a positive value rounded half-even to the caller's context: the result is within half a unit `10^q` of
the value, the value is below `10^(q+prec)`, and `q` is at most the ulp exponent read off the result -/
theorem final_round (c : Ctx) (hc : c.WF) (hm : c.mode = .halfEven) (v : Dec) (hv : v.form = .finite)
    (hv0 : 0 < v.toRat) (hns : NoSys (ctxRound c v).2) (hf : (ctxRound c v).1.form = .finite) :
    ∃ q : ℤ, q ≤ ulpExp c (ctxRound c v).1 ∧ |(ctxRound c v).1.toRat - v.toRat| ≤ (10 : ℚ) ^ q / 2 ∧
      v.toRat < (10 : ℚ) ^ (q + (c.prec : ℤ)) := by
  have hA := Props.C01_roundCore c hc v hv hns
  set d := (ctxRound c v).1 with hd
  have hcoeff : v.coeff ≠ 0 := by
    intro h0; unfold Dec.toRat at hv0; simp [h0] at hv0
  have hneg : v.neg = false := by
    by_contra hn
    have hn' : v.neg = true := by simpa using hn
    unfold Dec.toRat at hv0
    rw [hn'] at hv0
    have : (0 : ℚ) ≤ (v.coeff : ℚ) * (10 : ℚ) ^ v.exp := by
      have : (0 : ℚ) < (10 : ℚ) ^ v.exp := zpow_pos (by norm_num) _
      positivity
    simp only [if_true] at hv0
    nlinarith
  set ex := exactRound v with hex
  have hn : 0 < ex.num := Nat.pos_of_ne_zero hcoeff
  have hden : 0 < ex.den := Nat.one_pos
  have ha := RatSpec.mag_isAdj ex hn hden
  set a : ℤ := adjRat ex.num ex.den + ex.e10 with haDef
  obtain ⟨hval, _, _, _⟩ := RatSpec.Rat_agrees_finite c ex d _ hn hden ha hA hf
  have hexneg : ex.neg = false := hneg
  have hmagv : ex.mag = v.toRat := by
    rw [← RatSpec.Exact.abs_toRat, RatSpec.Rat_exactRound_toRat, abs_of_pos hv0]
  rw [hexneg] at hval
  simp only [Bool.false_eq_true, if_false, one_mul] at hval
  rw [hmagv] at hval ha
  set q : ℤ := quantum c a with hq
  have hqpos : (0 : ℚ) < (10 : ℚ) ^ q := zpow_pos (by norm_num) _
  have ten1 : (1 : ℚ) < 10 := by norm_num
  have hr := RatSpec.Rat_roundInt_half_nearest c.mode (Or.inr (Or.inr hm)) false (v.toRat / (10 : ℚ) ^ q)
  refine ⟨q, ?_, ?_, ?_⟩
  · -- q ≤ ulpExp
    rw [ulpExp_eq]
    by_cases hcase : a - (c.prec : ℤ) + 1 ≤ c.emin - (c.prec : ℤ) + 1
    · have : q = c.emin - (c.prec : ℤ) + 1 := by rw [hq]; unfold quantum; exact max_eq_right hcase
      rw [this]; exact le_max_right _ _
    · have hqa : q = a - (c.prec : ℤ) + 1 := by
        rw [hq]; unfold quantum; exact max_eq_left (by omega)
      -- the rounded value is at least 10^a
      have hP : 1 ≤ c.prec := hc.1
      have hfloor : ((10 : ℤ) ^ (c.prec - 1) : ℤ) ≤ ⌊v.toRat / (10 : ℚ) ^ q⌋ := by
        rw [Int.le_floor, le_div_iff₀ hqpos]
        push_cast
        rw [← zpow_natCast (10 : ℚ) (c.prec - 1), ← zpow_add₀ (by norm_num : (10 : ℚ) ≠ 0)]
        have : ((c.prec - 1 : ℕ) : ℤ) + q = a := by rw [hqa, Nat.cast_sub hP]; push_cast; ring
        rw [this]; exact ha.1
      have hri : ((10 : ℤ) ^ (c.prec - 1) : ℤ) ≤ roundInt c.mode false (v.toRat / (10 : ℚ) ^ q) := by
        rcases RatSpec.roundInt_floor_or_succ c.mode false (v.toRat / (10 : ℚ) ^ q) with h | h <;> rw [h] <;> omega
      have hdge : (10 : ℚ) ^ a ≤ d.toRat := by
        rw [hval]
        unfold roundedMag
        rw [← hq]
        have e1 : (10 : ℚ) ^ a = (((10 : ℤ) ^ (c.prec - 1) : ℤ) : ℚ) * (10 : ℚ) ^ q := by
          push_cast
          rw [← zpow_natCast (10 : ℚ) (c.prec - 1), ← zpow_add₀ (by norm_num : (10 : ℚ) ≠ 0)]
          congr 1
          rw [hqa, Nat.cast_sub hP]; push_cast; ring
        rw [e1]
        apply mul_le_mul_of_nonneg_right _ hqpos.le
        exact_mod_cast hri
      -- hence its adjusted exponent is at least a
      have hdpos : 0 < d.toRat := lt_of_lt_of_le (zpow_pos (by norm_num) _) hdge
      have hdc : 0 < d.coeff := by
        rcases Nat.eq_zero_or_pos d.coeff with h0 | h0
        · exfalso; unfold Dec.toRat at hdpos; simp [h0] at hdpos
        · exact h0
      have hdlt : d.toRat < (10 : ℚ) ^ ((ndigits d.coeff : ℤ) + d.exp) := by
        have h1 : d.toRat ≤ (d.coeff : ℚ) * (10 : ℚ) ^ d.exp := by
          unfold Dec.toRat
          have : (0 : ℚ) ≤ (d.coeff : ℚ) * (10 : ℚ) ^ d.exp := by
            have : (0 : ℚ) < (10 : ℚ) ^ d.exp := zpow_pos (by norm_num) _
            positivity
          cases d.neg
          · simp
          · simp only [if_true]; nlinarith
        have h2 : (d.coeff : ℚ) < (10 : ℚ) ^ (ndigits d.coeff) := by
          exact_mod_cast (ndigits_spec d.coeff hdc).2
        have h3 : (0 : ℚ) < (10 : ℚ) ^ d.exp := zpow_pos (by norm_num) _
        calc d.toRat ≤ (d.coeff : ℚ) * (10 : ℚ) ^ d.exp := h1
          _ < (10 : ℚ) ^ (ndigits d.coeff) * (10 : ℚ) ^ d.exp := mul_lt_mul_of_pos_right h2 h3
          _ = (10 : ℚ) ^ ((ndigits d.coeff : ℤ) + d.exp) := by
              rw [← zpow_natCast (10 : ℚ) (ndigits d.coeff), ← zpow_add₀ (by norm_num : (10 : ℚ) ≠ 0)]
      have hlt : (10 : ℚ) ^ a < (10 : ℚ) ^ ((ndigits d.coeff : ℤ) + d.exp) := lt_of_le_of_lt hdge hdlt
      rw [zpow_lt_zpow_iff_right₀ ten1] at hlt
      rw [hqa]
      apply le_trans _ (le_max_left _ _)
      omega
  · rw [hval]
    unfold roundedMag
    rw [← hq]
    have e : ((roundInt c.mode false (v.toRat / (10 : ℚ) ^ q) : ℤ) : ℚ) * (10 : ℚ) ^ q - v.toRat =
        (((roundInt c.mode false (v.toRat / (10 : ℚ) ^ q) : ℤ) : ℚ) - v.toRat / (10 : ℚ) ^ q) * (10 : ℚ) ^ q := by
      field_simp
    rw [e, abs_mul, abs_of_pos hqpos]
    calc _ ≤ 1 / 2 * (10 : ℚ) ^ q := mul_le_mul_of_nonneg_right hr hqpos.le
      _ = _ := by ring
  · have h1 : a + 1 ≤ q + (c.prec : ℤ) := by
      have : a - (c.prec : ℤ) + 1 ≤ q := by rw [hq]; unfold quantum; exact le_max_left _ _
      omega
    exact lt_of_lt_of_le ha.2 (zpow_le_zpow_right₀ ten1.le h1)

/-! ## the truncation condition, as a statement about real numbers -/

theorem factN_eq (n : Nat) : factN n = n.factorial := by
  induction n with
  | zero => rfl
  | succ n ih => simp [factN, Nat.factorial_succ, ih]

theorem uR_eq (p : Nat) : uR p = 5 / (10 : ℝ) ^ p := by
  unfold uR
  rw [zpow_sub₀ (by norm_num : (10 : ℝ) ≠ 0), zpow_one, zpow_natCast]
  ring

theorem abs_rv (d : Dec) : |rv d| = (d.coeff : ℝ) * (10 : ℝ) ^ d.exp := by
  unfold rv
  rw [← Rat.cast_abs, ← absD_toRat]
  unfold Dec.absD Dec.toRat
  simp

theorem truncOK_real (r : Dec) (p n : Nat) (hn : 1 ≤ n) (h : truncOK r p n = true) :
    |rv r| ≤ 1 ∧
    ((|rv r| ≤ 3 / 4 ∧ |rv r| ^ n / (n.factorial : ℝ) * (((n : ℝ) + 1) / (n : ℝ)) ≤ 6 / 5 * uR p) ∨
      |rv r| ^ n / (n.factorial : ℝ) * (((n : ℝ) + 1) / (n : ℝ)) ≤ 2 / 5 * uR p) := by
  unfold truncOK at h
  simp only [Bool.and_eq_true, decide_eq_true_eq] at h
  obtain ⟨⟨hexp, hle1⟩, hcond⟩ := h
  set E : ℕ := (-r.exp).toNat with hE
  have hEe : r.exp = -(E : ℤ) := by omega
  have hpowE : (0 : ℝ) < (10 : ℝ) ^ E := by positivity
  have hA : |rv r| = (r.coeff : ℝ) / (10 : ℝ) ^ E := by
    rw [abs_rv, hEe, zpow_neg, zpow_natCast]; rfl
  have hA1 : |rv r| ≤ 1 := by
    rw [hA, div_le_one hpowE]; exact_mod_cast hle1
  refine ⟨hA1, ?_⟩
  have hnpos : (0 : ℝ) < n := by exact_mod_cast hn
  have hfpos : (0 : ℝ) < (n.factorial : ℝ) := by exact_mod_cast n.factorial_pos
  have hppos : (0 : ℝ) < (10 : ℝ) ^ p := by positivity
  -- the common computation
  have conv : ∀ τ : ℕ, r.coeff ^ n * (n + 1) * 10 ^ p ≤ τ * (n * factN n * 10 ^ (E * n)) →
      |rv r| ^ n / (n.factorial : ℝ) * (((n : ℝ) + 1) / (n : ℝ)) ≤ (τ : ℝ) / 5 * uR p := by
    intro τ hτ
    rw [factN_eq] at hτ
    have hτ' : (r.coeff : ℝ) ^ n * ((n : ℝ) + 1) * (10 : ℝ) ^ p ≤
        (τ : ℝ) * ((n : ℝ) * (n.factorial : ℝ) * ((10 : ℝ) ^ E) ^ n) := by
      have : ((r.coeff ^ n * (n + 1) * 10 ^ p : ℕ) : ℝ) ≤ ((τ * (n * n.factorial * 10 ^ (E * n)) : ℕ) : ℝ) := by
        exact_mod_cast hτ
      push_cast at this
      rw [pow_mul] at this
      exact this
    rw [hA, uR_eq, div_pow]
    have hEn : (0 : ℝ) < ((10 : ℝ) ^ E) ^ n := by positivity
    have key : (r.coeff : ℝ) ^ n / ((10 : ℝ) ^ E) ^ n / (n.factorial : ℝ) * (((n : ℝ) + 1) / (n : ℝ)) =
        ((r.coeff : ℝ) ^ n * ((n : ℝ) + 1) * (10 : ℝ) ^ p) /
          (((10 : ℝ) ^ E) ^ n * (n.factorial : ℝ) * (n : ℝ) * (10 : ℝ) ^ p) := by
      field_simp
    have rhs : (τ : ℝ) / 5 * (5 / (10 : ℝ) ^ p) =
        ((τ : ℝ) * ((n : ℝ) * (n.factorial : ℝ) * ((10 : ℝ) ^ E) ^ n)) /
          (((10 : ℝ) ^ E) ^ n * (n.factorial : ℝ) * (n : ℝ) * (10 : ℝ) ^ p) := by
      field_simp
    rw [key, rhs]
    exact div_le_div_of_nonneg_right hτ' (by positivity)
  split_ifs at hcond with h34
  · left
    constructor
    · rw [hA, div_le_iff₀ hpowE]
      have : ((4 * r.coeff : ℕ) : ℝ) ≤ ((3 * 10 ^ E : ℕ) : ℝ) := by exact_mod_cast h34
      push_cast at this
      linarith
    · have := conv 6 (by simpa using hcond)
      norm_num at this ⊢
      linarith
  · right
    have := conv 2 (by simpa using hcond)
    norm_num at this ⊢
    linarith

/-! ## the main path: argument reduction, series, power -/

theorem rv_pow10 (t : Nat) : rv { coeff := 1, exp := (t : Int) } = (10 : ℝ) ^ t := by
  unfold rv Dec.toRat; simp

theorem abs_rv_lt (x : Dec) (hx0 : x.coeff ≠ 0) : |rv x| < (10 : ℝ) ^ (expTt x) := by
  rw [abs_rv]
  have hc : (x.coeff : ℝ) < (10 : ℝ) ^ (ndigits x.coeff) := by
    exact_mod_cast (ndigits_spec x.coeff (Nat.pos_of_ne_zero hx0)).2
  have hp : (0 : ℝ) < (10 : ℝ) ^ x.exp := zpow_pos (by norm_num) _
  have h1 : (x.coeff : ℝ) * (10 : ℝ) ^ x.exp < (10 : ℝ) ^ ((ndigits x.coeff : ℤ) + x.exp) := by
    rw [zpow_add₀ (by norm_num : (10 : ℝ) ≠ 0), zpow_natCast]
    exact mul_lt_mul_of_pos_right hc hp
  have h2 : (ndigits x.coeff : ℤ) + x.exp ≤ ((expTt x : ℕ) : ℤ) := by
    unfold expTt; split_ifs <;> omega
  calc (x.coeff : ℝ) * (10 : ℝ) ^ x.exp < (10 : ℝ) ^ ((ndigits x.coeff : ℤ) + x.exp) := h1
    _ ≤ (10 : ℝ) ^ ((expTt x : ℕ) : ℤ) := zpow_le_zpow_right₀ (by norm_num) h2
    _ = (10 : ℝ) ^ (expTt x) := zpow_natCast _ _

theorem fits_nd (c : Ctx) (d : Dec) (h : fits c d = true) (hf : d.form = .finite) (hp : 1 ≤ c.prec) :
    ndigits d.coeff ≤ c.prec := by
  unfold fits at h
  rw [hf] at h
  simp only [Bool.and_eq_true, Bool.or_eq_true, beq_iff_eq, decide_eq_true_eq] at h
  rcases h.1.1 with h1 | h1
  · omega
  · exact_mod_cast h1

def expQ (c : Ctx) (x : Dec) (cp : Nat) : Out :=
  quoOp (expNc c (cp + expTt x + 2)) x { coeff := 1, exp := expTt x }
def expS (c : Ctx) (x : Dec) (cp N : Nat) : ED × Dec :=
  expSeries (expQ c x cp).d (N - 1) { c := expNc c (cp + expTt x + 2) } decOne
def expIP (c : Ctx) (x : Dec) (cp N : Nat) : Dec × Cond × ErrKind :=
  integerPower (expNc c (cp + expTt x + 2)) (expS c x cp N).2 ((10 : Int) ^ expTt x)

theorem uR_small (p : Nat) (hp : 3 ≤ p) : uR p ≤ 1 / 200 := by
  rw [uR_eq]
  have : (10 : ℝ) ^ 3 ≤ (10 : ℝ) ^ p := pow_le_pow_right₀ (by norm_num) hp
  rw [div_le_div_iff₀ (by positivity) (by norm_num)]
  nlinarith

theorem exp_main_path (c : Ctx) (x : Dec) (hxf : x.form = .finite) (hx0 : x.coeff ≠ 0) (cp N : Nat)
    (hcp1 : 1 ≤ cp) (hp : cp + expTt x + 2 ≤ 100000) (hN : 1 ≤ N)
    (hq : (expQ c x cp).err = .none)
    (htr : truncOK (expQ c x cp).d (cp + expTt x + 2) N = true)
    (hs : (expS c x cp N).1.failed = false)
    (hip : (expIP c x cp N).2.2 = .none) :
    (expIP c x cp N).1.form = .finite ∧ 0 < rv (expIP c x cp N).1 ∧
      LogNear (134551 / 10000 * ((10 : ℝ) ^ (-(cp : ℤ)) / 20)) (Real.exp (rv x)) (rv (expIP c x cp N).1) ∧
      (x.neg = false →
        LogNear (84034 / 10000 * ((10 : ℝ) ^ (-(cp : ℤ)) / 20)) (Real.exp (rv x)) (rv (expIP c x cp N).1)) := by
  set t := expTt x with ht
  set p := cp + t + 2 with hpdef
  set nc := expNc c p with hnc
  have hw : Wide nc := ⟨rfl, rfl, by show 1 ≤ p; omega, by show ((p : ℕ) : ℤ) ≤ 100000; omega⟩
  have hm : nc.mode = .halfEven := rfl
  have hprec : nc.prec = p := rfl
  set u := uR p with hu
  have hu1 : u ≤ 1 / 200 := uR_small p (by omega)
  have hu0 : 0 < u := uR_pos p
  have hxr : rv x ≠ 0 := fun h => hx0 ((rv_eq_zero_iff x).1 h)
  have hk : rv ({ coeff := 1, exp := (t : Int) } : Dec) = (10 : ℝ) ^ t := rv_pow10 t
  have hk0 : (0 : ℝ) < (10 : ℝ) ^ t := by positivity
  -- the reduced argument
  unfold expQ at hq htr
  obtain ⟨rf, δ0, hδ0, hrv⟩ := quo_rel nc hw hm x { coeff := 1, exp := (t : Int) } hxf rfl hxr
    (by rw [hk]; exact hk0.ne') hq
  have hA := Props.C01_quo nc hw.wf x { coeff := 1, exp := (t : Int) } hxf rfl Nat.one_ne_zero (Or.inl hq)
  have hnd := fits_nd nc _ hA.2.2 rf hw.prec1
  rw [hprec] at hδ0
  rw [hk] at hrv
  obtain ⟨hρ1, htrunc⟩ := truncOK_real _ p N hN htr
  have hS : (expS c x cp N) = expSeries (quoOp nc x { coeff := 1, exp := (t : Int) }).d (N - 1) { c := nc } decOne := rfl
  have hI : (expIP c x cp N) = integerPower nc (expS c x cp N).2 ((10 : Int) ^ t) := rfl
  set r := (quoOp nc x { coeff := 1, exp := (t : Int) }).d with hr
  set ρ := rv r with hρ
  have hδ1 : 1 + δ0 ≠ 0 := by
    have := abs_le.1 hδ0; intro h; linarith
  have hρ0 : ρ ≠ 0 := by
    intro h; rw [hrv] at h; exact mul_ne_zero (div_ne_zero hxr hk0.ne') hδ1 h
  -- truncation bound, uniform
  have htr65 : |ρ| ^ N / (N.factorial : ℝ) * (((N : ℝ) + 1) / (N : ℝ)) ≤ 6 / 5 * u := by
    rcases htrunc with ⟨_, h⟩ | h
    · exact h
    · linarith
  have hexp1 : (9 / 25 : ℝ) ≤ Real.exp ρ := by
    have h1 : Real.exp (-1 : ℝ) ≤ Real.exp ρ := Real.exp_le_exp.2 (abs_le.1 hρ1).1
    have h2 := exp_one_inv_gt
    have : (9 / 25 : ℝ) ≤ 1 / 2.7182818286 := by norm_num
    linarith
  have hT : 1 / 10 ≤ ∑ j ∈ Finset.range N, ρ ^ j / (j.factorial : ℝ) := by
    have := abs_le.1 (exp_series_trunc ρ hρ1 N hN)
    linarith [this.1, this.2]
  rw [hS] at hs
  obtain ⟨sf, hsE⟩ := series_total nc hw hm r rf hρ0 hnd (by rw [hprec]; exact hu1) hρ1 N hN hT hs
  rw [hprec] at hsE
  rw [← hS] at hsE sf
  -- relative to exp ρ
  have hnear : |rv (expS c x cp N).2 - Real.exp ρ| ≤ (1083 / 100 * u) * Real.exp ρ := by
    by_cases hneg : ρ ≤ 0
    · unfold HF at hsE; rw [if_pos hneg] at hsE
      apply exp_near_neg ρ u _ N hN hneg (abs_le.1 hρ1).1 hu0.le hsE
      rw [abs_of_nonpos hneg] at htrunc
      rw [abs_of_nonpos hneg]
      exact htrunc
    · unfold HF at hsE; rw [if_neg hneg] at hsE
      exact exp_near_pos ρ u _ N hN (by linarith) (abs_le.1 hρ1).2 hu0.le hsE htr65
  have hs0 : 0 < rv (expS c x cp N).2 := by
    have := (abs_le.1 hnear).1
    have he : 0 < Real.exp ρ := Real.exp_pos _
    nlinarith
  -- the power
  have hKcast : ((10 : Int) ^ t) = (((10 ^ t : ℕ)) : Int) := by push_cast; rfl
  rw [hI, hKcast] at hip
  obtain ⟨pf, hpL⟩ := intPower_near nc hw hm (by rw [hprec]; linarith) _ sf hs0 (10 ^ t) (Nat.pow_pos (by decide)) hip
  rw [← hKcast, ← hI] at hpL pf
  rw [hprec] at hpL
  have hKr : (((10 ^ t : ℕ)) : ℝ) = (10 : ℝ) ^ t := by push_cast; rfl
  -- K·u
  have hKu : (10 : ℝ) ^ t * u = (10 : ℝ) ^ (-(cp : ℤ)) / 20 := by
    rw [hu, uR_eq, hpdef, pow_add, pow_add, zpow_neg, zpow_natCast]
    field_simp
    ring
  have hy : (10 : ℝ) ^ (-(cp : ℤ)) ≤ 1 / 10 := by
    have : (10 : ℝ) ^ (-(cp : ℤ)) ≤ (10 : ℝ) ^ (-(1 : ℤ)) :=
      zpow_le_zpow_right₀ (by norm_num) (by omega)
    have e : (10 : ℝ) ^ (-(1 : ℤ)) = 1 / 10 := by norm_num
    rw [e] at this; exact this
  have hred : |((10 ^ t : ℕ) : ℝ) * ρ - rv x| ≤ ((10 ^ t : ℕ) : ℝ) * u := by
    rw [hKr, hrv]
    have e : (10 : ℝ) ^ t * (rv x / (10 : ℝ) ^ t * (1 + δ0)) - rv x = rv x * δ0 := by
      field_simp; ring
    rw [e, abs_mul]
    exact mul_le_mul (abs_rv_lt x hx0).le hδ0 (abs_nonneg _) hk0.le
  have htot := exp_total (rv x) ρ (rv (expS c x cp N).2) (rv (expIP c x cp N).1) u (10 ^ t)
    (Nat.pow_pos (by decide)) hu0.le (by rw [hKr, hKu]; linarith) hred hnear hpL
  rw [hKr, hKu] at htot
  refine ⟨pf, htot.pos (Real.exp_pos _), htot, ?_⟩
  intro hxn
  -- positive operand: the series constant is 6.2 instead of 10.83
  have hxpos : 0 < rv x := by
    have h1 : |rv x| = rv x := by
      rw [abs_rv]; unfold rv Dec.toRat; rw [hxn]; push_cast; simp
    have h2 : 0 < |rv x| := abs_pos.2 hxr
    rw [h1] at h2; exact h2
  have hρpos : 0 < ρ := by
    rw [hrv]
    have : 0 < 1 + δ0 := by have := abs_le.1 hδ0; linarith
    exact mul_pos (div_pos hxpos hk0) this
  have hnearpos : |rv (expS c x cp N).2 - Real.exp ρ| ≤ (62 / 10 * u) * Real.exp ρ := by
    unfold HF at hsE; rw [if_neg (not_le.2 hρpos)] at hsE
    exact exp_near_pos' ρ u _ N hN hρpos.le (abs_le.1 hρ1).2 hu0.le hsE htr65
  have htotp := exp_total_gen (62 / 10) (84034 / 10000) (rv x) ρ (rv (expS c x cp N).2) (rv (expIP c x cp N).1) u
    (10 ^ t) (by norm_num) (by norm_num) (by norm_num) (Nat.pow_pos (by decide)) hu0.le
    (by rw [hKr, hKu]; linarith) hred hnearpos hpL
  rw [hKr, hKu] at htotp
  exact htotp

/-! ## the final rounding and the whole call -/

theorem rv_pos_iff (v : Dec) : 0 < rv v ↔ 0 < v.toRat := by
  unfold rv; exact_mod_cast Iff.rfl

theorem exp_final (B η : ℝ) (hB0 : 0 ≤ B) (hB : B ≤ 20)
    (hη : B / 20 + (B / 20) ^ 2 / 20 + 2 / 9 * (B / 20) ^ 3 / 100 ≤ η)
    (c : Ctx) (hc : c.WF) (cp : Nat) (hP : c.prec ≤ cp) (v : Dec) (hv : v.form = .finite)
    (hv0 : 0 < rv v) (X : ℝ)
    (hL : LogNear (B * ((10 : ℝ) ^ (-(cp : ℤ)) / 20)) (Real.exp X) (rv v))
    (hns : NoSys (ctxRound { c with mode := .halfEven } v).2)
    (hf : (ctxRound { c with mode := .halfEven } v).1.form = .finite) :
    |rv (ctxRound { c with mode := .halfEven } v).1 - Real.exp X| ≤
      (1 / 2 + η) * (10 : ℝ) ^ (ulpExp c (ctxRound { c with mode := .halfEven } v).1) := by
  have hη0 : 0 ≤ η := by
    have : 0 ≤ B / 20 + (B / 20) ^ 2 / 20 + 2 / 9 * (B / 20) ^ 3 / 100 := by positivity
    linarith
  have hc' : ({ c with mode := .halfEven } : Ctx).WF := hc
  obtain ⟨q, hq1, hq2, hq3⟩ := final_round { c with mode := .halfEven } hc' rfl v hv ((rv_pos_iff v).1 hv0) hns hf
  set d := (ctxRound { c with mode := .halfEven } v).1 with hd
  have hq1' : q ≤ ulpExp c d := hq1
  have hP1 : 1 ≤ c.prec := hc.1
  have hprec : ({ c with mode := .halfEven } : Ctx).prec = c.prec := rfl
  rw [hprec] at hq3
  have h2 : |rv d - rv v| ≤ (10 : ℝ) ^ q / 2 := by
    unfold rv
    have : ((|d.toRat - v.toRat| : ℚ) : ℝ) ≤ (((10 : ℚ) ^ q / 2 : ℚ) : ℝ) := by exact_mod_cast hq2
    push_cast at this
    exact this
  have h3 : rv v < (10 : ℝ) ^ (q + (c.prec : ℤ)) := by
    unfold rv
    have : ((v.toRat : ℚ) : ℝ) < (((10 : ℚ) ^ (q + (c.prec : ℤ)) : ℚ) : ℝ) := by exact_mod_cast hq3
    push_cast at this
    exact this
  set y : ℝ := (10 : ℝ) ^ (-(cp : ℤ)) with hy
  have hy0 : 0 < y := zpow_pos (by norm_num) _
  have hy1 : y ≤ 1 / 10 := by
    have : (10 : ℝ) ^ (-(cp : ℤ)) ≤ (10 : ℝ) ^ (-(1 : ℤ)) :=
      zpow_le_zpow_right₀ (by norm_num) (by omega)
    have e : (10 : ℝ) ^ (-(1 : ℤ)) = 1 / 10 := by norm_num
    rw [e] at this; exact this
  have hb := exp_budget_gen B η (B * (y / 20)) y hB0 hB hη (by positivity) hy0.le hy1 (le_refl _)
  have h4 := hL.abs_sub_le hv0.le
  have h5 : |rv v - Real.exp X| ≤ η * (10 : ℝ) ^ q := by
    have e1 : rv v * (Real.exp (B * (y / 20)) - 1) ≤ rv v * (η * y) :=
      mul_le_mul_of_nonneg_left hb hv0.le
    have e2 : rv v * (η * y) ≤ (10 : ℝ) ^ (q + (c.prec : ℤ)) * (η * y) :=
      mul_le_mul_of_nonneg_right h3.le (by positivity)
    have e3 : (10 : ℝ) ^ (q + (c.prec : ℤ)) * y ≤ (10 : ℝ) ^ q := by
      rw [hy, ← zpow_add₀ (by norm_num : (10 : ℝ) ≠ 0)]
      exact zpow_le_zpow_right₀ (by norm_num) (by omega)
    have e4 : (10 : ℝ) ^ (q + (c.prec : ℤ)) * (η * y) ≤ η * (10 : ℝ) ^ q := by
      have := mul_le_mul_of_nonneg_left e3 hη0
      linarith
    linarith
  have h6 : |rv d - Real.exp X| ≤ (1 / 2 + η) * (10 : ℝ) ^ q := by
    have : rv d - Real.exp X = (rv d - rv v) + (rv v - Real.exp X) := by ring
    rw [this]
    calc _ ≤ |rv d - rv v| + |rv v - Real.exp X| := abs_add_le _ _
      _ ≤ (10 : ℝ) ^ q / 2 + η * (10 : ℝ) ^ q := add_le_add h2 h5
      _ = _ := by ring
  have h7 : (10 : ℝ) ^ q ≤ (10 : ℝ) ^ (ulpExp c d) := zpow_le_zpow_right₀ (by norm_num) hq1'
  calc _ ≤ (1 / 2 + η) * (10 : ℝ) ^ q := h6
    _ ≤ _ := mul_le_mul_of_nonneg_left h7 (by linarith)

/-- the result `1` returned for a tiny argument -/
theorem exp_one_branch (c : Ctx) (hc : c.WF) (x : Dec) (hxf : x.form = .finite) (cp : Nat) (hP : c.prec ≤ cp)
    (h1 : x.absD.cmp { coeff := 9, exp := -(cp : Int) - 1 } ≤ 0) (η : ℝ) (hη : 0 ≤ η) :
    |rv decOne - Real.exp (rv x)| ≤ (1 / 2 + η) * (10 : ℝ) ^ (ulpExp c decOne) := by
  have hP1 : 1 ≤ c.prec := hc.1
  have hle := cmp_le_toRat x.absD { coeff := 9, exp := -(cp : Int) - 1 } hxf rfl h1
  rw [absD_toRat] at hle
  have hle' : |rv x| ≤ 9 * (10 : ℝ) ^ (-(cp : ℤ) - 1) := by
    unfold rv
    have : ((|x.toRat| : ℚ) : ℝ) ≤ ((({ coeff := 9, exp := -(cp : Int) - 1 } : Dec).toRat : ℚ) : ℝ) := by
      exact_mod_cast hle
    rw [Rat.cast_abs] at this
    refine le_trans this (le_of_eq ?_)
    unfold Dec.toRat; push_cast; simp
  have hsmall : (10 : ℝ) ^ (-(cp : ℤ) - 1) ≤ (10 : ℝ) ^ (-(c.prec : ℤ)) / 10 := by
    have e : (10 : ℝ) ^ (-(cp : ℤ) - 1) = (10 : ℝ) ^ (-(cp : ℤ)) / 10 := by
      rw [zpow_sub₀ (by norm_num : (10 : ℝ) ≠ 0), zpow_one]
    rw [e]
    apply div_le_div_of_nonneg_right _ (by norm_num)
    exact zpow_le_zpow_right₀ (by norm_num) (by omega)
  have hPs : (10 : ℝ) ^ (-(c.prec : ℤ)) ≤ 1 / 10 := by
    have : (10 : ℝ) ^ (-(c.prec : ℤ)) ≤ (10 : ℝ) ^ (-(1 : ℤ)) :=
      zpow_le_zpow_right₀ (by norm_num) (by omega)
    have e : (10 : ℝ) ^ (-(1 : ℤ)) = 1 / 10 := by norm_num
    rw [e] at this; exact this
  have hPpos : (0 : ℝ) < (10 : ℝ) ^ (-(c.prec : ℤ)) := zpow_pos (by norm_num) _
  have hx1 : |rv x| ≤ 1 := by nlinarith
  have h2 := Real.abs_exp_sub_one_le hx1
  rw [rv_decOne, abs_sub_comm]
  have hul : (10 : ℝ) ^ (1 - (c.prec : ℤ)) ≤ (10 : ℝ) ^ (ulpExp c decOne) := by
    apply zpow_le_zpow_right₀ (by norm_num)
    rw [ulpExp_eq]
    apply le_trans _ (le_max_left _ _)
    simp [decOne, ndigits_one]
  have e10 : (10 : ℝ) ^ (1 - (c.prec : ℤ)) = 10 * (10 : ℝ) ^ (-(c.prec : ℤ)) := by
    rw [sub_eq_add_neg, zpow_add₀ (by norm_num : (10 : ℝ) ≠ 0), zpow_one]
  calc |Real.exp (rv x) - 1| ≤ 2 * |rv x| := h2
    _ ≤ (1 / 2) * (10 : ℝ) ^ (1 - (c.prec : ℤ)) := by rw [e10]; nlinarith
    _ ≤ (1 / 2 + η) * (10 : ℝ) ^ (1 - (c.prec : ℤ)) := by
        apply mul_le_mul_of_nonneg_right _ (by positivity); linarith
    _ ≤ _ := mul_le_mul_of_nonneg_left hul (by linarith)

end Apd.ExpAcc
