import ApdVerif.Lemmas.ExpAccAssembly
import ApdVerif.Lemmas.LnAccHalley
/-!
# Operations of `Ln`'s working context as perturbed real operations, zero results included;
the inner `Exp` call in log-scale form
-/
namespace Apd.LnAcc
open Apd Apd.Oracle Apd.Props Apd.RatSpec Apd.ExpAcc Cond

theorem rv_zero_of_agrees (c : Ctx) (ex : Exact) (d : Dec) (fl : Cond) (hA : Agrees c ex d fl)
    (hf : d.form = .finite) (h0 : ex.num = 0) : rv d = 0 := by
  obtain ⟨hm, _, _⟩ := hA
  have hz := Rat_specRound_zero c ex h0
  have := Rat_matches_toRat _ d hf hm
  unfold rv
  rw [this]
  unfold SpecOut.toRat
  rw [hz.2.1]; simp

theorem exact_num_zero (ex : Exact) (hd : ex.den = 1) (h : ex.toRat = 0) : ex.num = 0 := by
  unfold Exact.toRat at h
  rw [hd] at h
  have hp : (10 : ℚ) ^ ex.e10 ≠ 0 := (zpow_pos (by norm_num) _).ne'
  rcases mul_eq_zero.1 h with h1 | h1
  · rcases mul_eq_zero.1 h1 with h2 | h2
    · split_ifs at h2 <;> norm_num at h2
    · simpa using h2
  · exact absurd h1 hp

/-- Add / Sub in a wide half-even context, the exact-zero case included -/
theorem add_rel_gen (c : Ctx) (hw : Wide c) (hm : c.mode = .halfEven) (x y : Dec) (sub : Bool)
    (hx : x.form = .finite) (hy : y.form = .finite) (he : (addOp c x y sub).err = .none) :
    (addOp c x y sub).d.form = .finite ∧
      ∃ δ : ℝ, |δ| ≤ uR c.prec ∧
        rv (addOp c x y sub).d = (rv x + (if sub then - rv y else rv y)) * (1 + δ) := by
  obtain ⟨hf, hs⟩ := addOp_wide c hw x y sub hx hy he
  refine ⟨hf, ?_⟩
  have hA := C01_add c hw.wf x y sub hx hy (Or.inl he)
  have hden := (Rat_exactAdd_shape c x y sub).1
  have hval : (((exactAdd c x y sub).toRat : ℚ) : ℝ) = rv x + (if sub then - rv y else rv y) := by
    rw [Rat_exactAdd_toRat]; unfold rv; cases sub <;> simp
  by_cases h0 : rv x + (if sub then - rv y else rv y) = 0
  · refine ⟨0, by simpa using (uR_pos c.prec).le, ?_⟩
    rw [h0, zero_mul]
    apply rv_zero_of_agrees c _ _ _ hA hf
    apply exact_num_zero _ hden
    have : (((exactAdd c x y sub).toRat : ℚ) : ℝ) = 0 := by rw [hval]; exact h0
    exact_mod_cast this
  · exact rel_of_agrees c hm (exactAdd c x y sub) _ _ _ (by rw [hden]; exact Nat.one_pos) hA hf hs hval h0

/-- Quo with a possibly zero dividend -/
theorem quo_rel_gen (c : Ctx) (hw : Wide c) (hm : c.mode = .halfEven) (x y : Dec)
    (hx : x.form = .finite) (hy : y.form = .finite) (hy0 : rv y ≠ 0)
    (he : (quoOp c x y).err = .none) :
    (quoOp c x y).d.form = .finite ∧ ∃ δ : ℝ, |δ| ≤ uR c.prec ∧ rv (quoOp c x y).d = rv x / rv y * (1 + δ) := by
  by_cases hx0 : rv x = 0
  · have hxc : x.coeff = 0 := (rv_eq_zero_iff x).1 hx0
    have hyc : y.coeff ≠ 0 := fun h => hy0 ((rv_eq_zero_iff y).2 h)
    have hp : c.prec ≠ 0 := by have := hw.prec1; omega
    rw [QuoL.quoOp_zero c x y hx hy hyc hp hxc] at he ⊢
    simp only [finish] at he ⊢
    have hns := noSys_of_none _ _ he
    obtain ⟨e1, _⟩ := setExponent_wide c hw _ _ _ hns
    rw [e1]
    refine ⟨rfl, 0, by simpa using (uR_pos c.prec).le, ?_⟩
    rw [hx0, zero_div, zero_mul]
    apply (rv_eq_zero_iff _).2
    rfl
  · exact quo_rel c hw hm x y hx hy hx0 hy0 he

/-! ## the inner `Exp` call of Halley's iteration -/

/-- log-scale size of the error of `Exp` in a wide context at precision `p`: series/power budget at `cp ≥ p`
plus the final rounding -/
noncomputable def omegaE (p : Nat) : ℝ := 134551 / 10000 * ((10 : ℝ) ^ (-(p : ℤ)) / 20) + uL p

theorem uR_lt_one (p : Nat) (hp : 1 ≤ p) : uR p < 1 := by
  rw [uR_eq, div_lt_one (by positivity)]
  have : (10 : ℝ) ^ 1 ≤ (10 : ℝ) ^ p := pow_le_pow_right₀ (by norm_num) hp
  linarith

theorem uL_nonneg (p : Nat) (hp : 1 ≤ p) : 0 ≤ uL p := by
  unfold uL
  exact div_nonneg (uR_pos p).le (by linarith [uR_lt_one p hp])

theorem omegaE_nonneg (p : Nat) (hp : 1 ≤ p) : 0 ≤ omegaE p := by
  unfold omegaE
  have := uL_nonneg p hp
  positivity

theorem wide_halfEven (c : Ctx) (hw : Wide c) : Wide { c with mode := .halfEven } :=
  ⟨hw.emin, hw.emax, hw.prec1, hw.prec2⟩

/-- `Exp` in a wide context (its own working context is again wide; its result is rounded half-even):
finite, positive, and within `e^{±omegaE p}` of `exp x` -/
theorem exp_wide_near (c : Ctx) (hw : Wide c) (x : Dec) (cp0 : Nat) (n : Int) (rest r' : Tape) (o : Out)
    (hok : ExpTapeOK c x cp0 n = true)
    (h : expT c x (.cp cp0 :: .n n :: rest) = some (o, r'))
    (he : o.err = .none) :
    o.d.form = .finite ∧ LogNear (omegaE c.prec) (Real.exp (rv x)) (rv o.d) := by
  unfold ExpTapeOK at hok
  simp only [Bool.and_eq_true, beq_iff_eq, decide_eq_true_eq, Bool.not_eq_true', decide_eq_false_iff_not] at hok
  obtain ⟨⟨⟨⟨⟨⟨hxf, hP1⟩, hPcp⟩, hp⟩, hnov⟩, hn1⟩, htr⟩ := hok
  have hone : LogNear (omegaE c.prec) (Real.exp 0) (rv decOne) := by
    rw [Real.exp_zero, rv_decOne]
    exact (LogNear.refl 1).mono zero_le_one (omegaE_nonneg _ hP1)
  cases hsp : expSpecials c x with
  | some o' =>
    unfold expT at h
    rw [hsp] at h
    simp only [Option.some.injEq, Prod.mk.injEq] at h
    obtain ⟨rfl, _⟩ := h
    unfold expSpecials at hsp
    have h1 : shouldSetAsNaN x none = false := by simp [shouldSetAsNaN, Dec.isNaN, hxf]
    have h2 : (x.form == Form.infinite) = false := by rw [hxf]; rfl
    have h3 : (c.prec == 0) = false := by simp; omega
    simp only [h1, h2, h3, Bool.false_eq_true, if_false] at hsp
    split_ifs at hsp with hz
    simp only [Option.some.injEq] at hsp
    subst hsp
    have hx0 : x.coeff = 0 := by
      simp only [Dec.isZero, Bool.and_eq_true, beq_iff_eq] at hz; exact hz.2
    have : rv x = 0 := (rv_eq_zero_iff x).2 hx0
    rw [this]
    exact ⟨rfl, hone⟩
  | none =>
    rw [expT_main c x cp0 n rest hsp] at h
    have hx0 : x.coeff ≠ 0 := by
      intro h0
      unfold expSpecials at hsp
      have h1 : shouldSetAsNaN x none = false := by simp [shouldSetAsNaN, Dec.isNaN, hxf]
      have h2 : (x.form == Form.infinite) = false := by rw [hxf]; rfl
      have hz : x.isZero = true := by simp [Dec.isZero, hxf, h0]
      simp [h1, h2, hz] at hsp
    unfold expMain at h
    simp only [] at h
    rw [if_neg hnov] at h
    by_cases htiny : x.absD.cmp { coeff := 9, exp := -(expCp x cp0 : Int) - 1 } ≤ 0
    · rw [if_pos htiny] at h
      simp only [Option.some.injEq, Prod.mk.injEq] at h
      obtain ⟨rfl, _⟩ := h
      refine ⟨rfl, ?_⟩
      -- |x| ≤ 9·10^(-cp-1) ≤ omegaE
      have hle := cmp_le_toRat x.absD { coeff := 9, exp := -(expCp x cp0 : Int) - 1 } hxf rfl htiny
      rw [absD_toRat] at hle
      have hle' : |rv x| ≤ 9 * (10 : ℝ) ^ (-(expCp x cp0 : ℤ) - 1) := by
        unfold rv
        have : ((|x.toRat| : ℚ) : ℝ) ≤ ((({ coeff := 9, exp := -(expCp x cp0 : Int) - 1 } : Dec).toRat : ℚ) : ℝ) := by
          exact_mod_cast hle
        rw [Rat.cast_abs] at this
        refine le_trans this (le_of_eq ?_)
        unfold Dec.toRat; push_cast; simp
      have hsmall : 9 * (10 : ℝ) ^ (-(expCp x cp0 : ℤ) - 1) ≤ omegaE c.prec := by
        unfold omegaE
        have e : (10 : ℝ) ^ (-(expCp x cp0 : ℤ) - 1) = (10 : ℝ) ^ (-(expCp x cp0 : ℤ)) / 10 := by
          rw [zpow_sub₀ (by norm_num : (10 : ℝ) ≠ 0), zpow_one]
        rw [e]
        have h1 : (10 : ℝ) ^ (-(expCp x cp0 : ℤ)) ≤ (10 : ℝ) ^ (-(c.prec : ℤ)) :=
          zpow_le_zpow_right₀ (by norm_num) (by omega)
        have h2 : 2 * (10 : ℝ) ^ (-(c.prec : ℤ)) ≤ uL c.prec := by
          unfold uL
          have hu := uR_eq c.prec
          have hlt : uR c.prec < 1 := by
            rw [uR_eq, div_lt_one (by positivity)]
            have : (10 : ℝ) ^ 1 ≤ (10 : ℝ) ^ c.prec := pow_le_pow_right₀ (by norm_num) hP1
            linarith
          have h3 : uR c.prec ≤ uR c.prec / (1 - uR c.prec) := by
            rw [le_div_iff₀ (by linarith)]; nlinarith [uR_pos c.prec]
          have h4 : (10 : ℝ) ^ (-(c.prec : ℤ)) = uR c.prec / 5 := by
            rw [hu, zpow_neg, zpow_natCast]; field_simp
          rw [h4]; linarith [uR_pos c.prec]
        have : 0 ≤ 134551 / 10000 * ((10 : ℝ) ^ (-(c.prec : ℤ)) / 20) := by positivity
        have hp0 : (0 : ℝ) < (10 : ℝ) ^ (-(c.prec : ℤ)) := zpow_pos (by norm_num) _
        linarith
      have hab := abs_le.1 (le_trans hle' hsmall)
      rw [rv_decOne]
      constructor
      · rw [← Real.exp_add]
        calc Real.exp (rv x + -omegaE c.prec) ≤ Real.exp 0 := Real.exp_le_exp.2 (by linarith [hab.2])
          _ = 1 := Real.exp_zero
      · rw [← Real.exp_add]
        calc (1 : ℝ) = Real.exp 0 := Real.exp_zero.symm
          _ ≤ Real.exp (rv x + omegaE c.prec) := Real.exp_le_exp.2 (by linarith [hab.1])
    · rw [if_neg htiny] at h
      have hq : (expQ c x (expCp x cp0)).err = .none := by
        by_contra hcon
        have hb : ((expQ c x (expCp x cp0)).err != ErrKind.none) = true := by simpa using hcon
        unfold expQ at hb
        rw [if_pos hb] at h
        simp only [Option.some.injEq, Prod.mk.injEq] at h
        obtain ⟨rfl, _⟩ := h
        exact hcon he
      have hqb : ((quoOp (expNc c (expCp x cp0 + expTt x + 2)) x { coeff := 1, exp := expTt x }).err != ErrKind.none) = false := by
        unfold expQ at hq; simp [hq]
      rw [hqb] at h
      simp only [Bool.false_eq_true, if_false] at h
      have hn0 : ¬ n < 0 := by omega
      rw [if_neg hn0] at h
      have hN : 1 ≤ n.toNat := by omega
      have hs : (expS c x (expCp x cp0) n.toNat).1.failed = false := by
        by_contra hcon
        have hb : (expS c x (expCp x cp0) n.toNat).1.failed = true := by simpa using hcon
        unfold expS expQ at hb
        rw [if_pos hb] at h
        simp only [Option.some.injEq, Prod.mk.injEq] at h
        obtain ⟨rfl, _⟩ := h
        exact C03L.errOf_ne_of_failed _ hb he
      have hsb : (expSeries (quoOp (expNc c (expCp x cp0 + expTt x + 2)) x { coeff := 1, exp := expTt x }).d
          (n.toNat - 1) { c := expNc c (expCp x cp0 + expTt x + 2) } decOne).1.failed = false := hs
      rw [hsb] at h
      simp only [Bool.false_eq_true, if_false] at h
      have hip : (expIP c x (expCp x cp0) n.toNat).2.2 = .none := by
        by_contra hcon
        have hb : ((expIP c x (expCp x cp0) n.toNat).2.2 != ErrKind.none) = true := by simpa using hcon
        unfold expIP expS expQ at hb
        rw [if_pos hb] at h
        simp only [Option.some.injEq, Prod.mk.injEq] at h
        obtain ⟨rfl, _⟩ := h
        exact hcon he
      have hipb : ((integerPower (expNc c (expCp x cp0 + expTt x + 2))
          (expSeries (quoOp (expNc c (expCp x cp0 + expTt x + 2)) x { coeff := 1, exp := expTt x }).d
            (n.toNat - 1) { c := expNc c (expCp x cp0 + expTt x + 2) } decOne).2 ((10 : Int) ^ expTt x)).2.2
            != ErrKind.none) = false := by
        have : (expIP c x (expCp x cp0) n.toNat).2.2 = .none := hip
        unfold expIP expS expQ at this
        simp [this]
      rw [hipb] at h
      simp only [Bool.false_eq_true, if_false, Option.some.injEq, Prod.mk.injEq] at h
      obtain ⟨rfl, _⟩ := h
      simp only at he ⊢
      have hcp1 : 1 ≤ expCp x cp0 := by omega
      obtain ⟨pf, ppos, pL, _⟩ := exp_main_path c x hxf hx0 (expCp x cp0) n.toNat hcp1 hp hN hq htr hs hip
      have hns := noSys_of_none _ _ he
      have hns2 := noSys_right _ _ hns
      -- the final rounding in the wide context
      have hw' := wide_halfEven c hw
      obtain ⟨rf, rsub⟩ := ctxRound_wide _ hw' _ pf hns2
      refine ⟨rf, ?_⟩
      have hA := C01_roundCore _ hw'.wf _ pf hns2
      have hne : rv (expIP c x (expCp x cp0) n.toNat).1 ≠ 0 := ppos.ne'
      obtain ⟨δ, hδ, hv⟩ := rel_of_agrees _ rfl (exactRound (expIP c x (expCp x cp0) n.toNat).1) _ _
        (rv (expIP c x (expCp x cp0) n.toNat).1) Nat.one_pos hA rf rsub
        (by rw [Rat_exactRound_toRat]; rfl) hne
      have hprec : ({ c with mode := .halfEven } : Ctx).prec = c.prec := rfl
      rw [hprec] at hδ
      have hlt : uR c.prec < 1 := by
        rw [uR_eq, div_lt_one (by positivity)]
        have : (10 : ℝ) ^ 1 ≤ (10 : ℝ) ^ c.prec := pow_le_pow_right₀ (by norm_num) hP1
        linarith
      have hL2 := LogNear.of_rel (rv (expIP c x (expCp x cp0) n.toNat).1) δ (uR c.prec) ppos.le hδ hlt
      rw [← hv] at hL2
      have hcomb := pL.trans hL2
      refine hcomb.mono (Real.exp_pos _).le ?_
      unfold omegaE uL
      have h1 : (10 : ℝ) ^ (-(expCp x cp0 : ℤ)) ≤ (10 : ℝ) ^ (-(c.prec : ℤ)) :=
        zpow_le_zpow_right₀ (by norm_num) (by omega)
      linarith

end Apd.LnAcc
