import ApdVerif.Spec.Agrees
import ApdVerif.Lemmas.Digits
/-!
# Helper lemmas for C09 (Quantize / RoundToIntegral / Ceil / Floor)
-/
namespace Apd.C09L
open Apd.Oracle Cond

/-! ## flag projections -/

@[simp] theorem Cond.or_sysOverflow (a b : Cond) : (a ||| b).sysOverflow = (a.sysOverflow || b.sysOverflow) := rfl
@[simp] theorem Cond.or_sysUnderflow (a b : Cond) : (a ||| b).sysUnderflow = (a.sysUnderflow || b.sysUnderflow) := rfl
@[simp] theorem Cond.or_overflow (a b : Cond) : (a ||| b).overflow = (a.overflow || b.overflow) := rfl
@[simp] theorem Cond.or_underflow (a b : Cond) : (a ||| b).underflow = (a.underflow || b.underflow) := rfl
@[simp] theorem Cond.or_inexact (a b : Cond) : (a ||| b).inexact = (a.inexact || b.inexact) := rfl
@[simp] theorem Cond.or_subnormal (a b : Cond) : (a ||| b).subnormal = (a.subnormal || b.subnormal) := rfl
@[simp] theorem Cond.or_rounded (a b : Cond) : (a ||| b).rounded = (a.rounded || b.rounded) := rfl
@[simp] theorem Cond.or_divUndefined (a b : Cond) : (a ||| b).divUndefined = (a.divUndefined || b.divUndefined) := rfl
@[simp] theorem Cond.or_divByZero (a b : Cond) : (a ||| b).divByZero = (a.divByZero || b.divByZero) := rfl
@[simp] theorem Cond.or_divImpossible (a b : Cond) : (a ||| b).divImpossible = (a.divImpossible || b.divImpossible) := rfl
@[simp] theorem Cond.or_invalidOp (a b : Cond) : (a ||| b).invalidOp = (a.invalidOp || b.invalidOp) := rfl
@[simp] theorem Cond.or_clamped (a b : Cond) : (a ||| b).clamped = (a.clamped || b.clamped) := rfl

theorem r05_aux (y : Nat) : (decide (y % 5 = 0) || y % 10 == 0) = (y % 10 == 0 || y % 10 == 5) := by
  by_cases h : y % 5 = 0
  · have : y % 10 = 0 ∨ y % 10 = 5 := by omega
    rcases this with h' | h' <;> simp [h, h']
  · have h1 : ¬ y % 10 = 0 := by omega
    have h2 : ¬ y % 10 = 5 := by omega
    simp [h, h1, h2]

/-- the implementation's and the specification's per-mode decisions coincide -/
theorem shouldAddOne_eq (m : Mode) (y : Nat) (neg : Bool) (a b : Nat) :
    shouldAddOne m y neg (cmpNat a b) = specAddOne m y neg (compare a b) := by
  rcases Nat.lt_trichotomy a b with h | h | h
  · have h1 : compare a b = .lt := Nat.compare_eq_lt.2 h
    have h2 : cmpNat a b = -1 := by simp [cmpNat, h]
    rw [h1, h2]
    cases m <;> simp [shouldAddOne, specAddOne] <;> exact r05_aux y
  · have h1 : compare a b = .eq := Nat.compare_eq_eq.2 h
    have h2 : cmpNat a b = 0 := by simp [cmpNat, h]
    rw [h1, h2]
    cases m <;> simp [shouldAddOne, specAddOne] <;> exact r05_aux y
  · have h1 : compare a b = .gt := Nat.compare_eq_gt.2 h
    have h2 : cmpNat a b = 1 := by
      have : ¬ a < b := by omega
      simp [cmpNat, this, h]
    rw [h1, h2]
    cases m <;> simp [shouldAddOne, specAddOne] <;> exact r05_aux y


/-! ## the oracle's `roundAt` on a decimal -/

/-- explicit form of `roundAt` for a decimal (`den = 1`) when `k` digits are discarded -/
def rnd (mode : Mode) (neg : Bool) (n k : Nat) : Nat × Bool :=
  if n % 10 ^ k == 0 then (n / 10 ^ k, false)
  else (if specAddOne mode (n / 10 ^ k) neg (compare (2 * (n % 10 ^ k)) (10 ^ k)) then n / 10 ^ k + 1
        else n / 10 ^ k, true)

theorem roundAt_pos (mode : Mode) (neg : Bool) (n : Nat) (xe e : Int) (k : Nat) (hk : e - xe = k) :
    roundAt mode neg n 1 xe e = rnd mode neg n k := by
  unfold roundAt rnd
  simp only [hk, Int.toNat_natCast, Nat.one_mul]
  rfl

theorem roundAt_nonpos (mode : Mode) (neg : Bool) (n : Nat) (xe e : Int) (h : e - xe ≤ 0) :
    roundAt mode neg n 1 xe e = (n * 10 ^ (xe - e).toNat, false) := by
  by_cases h0 : e - xe = 0
  · rw [roundAt_pos mode neg n xe e 0 (by omega)]
    have : xe - e = 0 := by omega
    simp [rnd, this, Nat.mod_one]
  · unfold roundAt
    have h1 : ¬ (xe ≤ e) := by omega
    have h2 : -(e - xe) = xe - e := by omega
    simp [h1, h2, Nat.mod_one]


/-! ## `setExponent` by regime -/

theorem checkXs_cons (a : Int) (l : List Int) (ha1 : -100000 ≤ a) (ha2 : a ≤ 100000) :
    checkXs (a :: l) = checkXs l := by
  have h1 : ¬ a > MaxExponent := by simp only [MaxExponent]; omega
  have h2 : ¬ a < MinExponent := by simp only [MinExponent]; omega
  simp only [checkXs, if_neg h1, if_neg h2]

theorem checkXs_one (a : Int) (ha1 : -100000 ≤ a) (ha2 : a ≤ 100000) : checkXs [a] = none := by
  rw [checkXs_cons a _ ha1 ha2]; rfl

theorem checkXs_two (a b : Int) (ha1 : -100000 ≤ a) (ha2 : a ≤ 100000)
    (hb1 : -100000 ≤ b) (hb2 : b ≤ 100000) : checkXs [a, b] = none := by
  rw [checkXs_cons a _ ha1 ha2, checkXs_cons b _ hb1 hb2]; rfl

theorem setExponent_sys (c : Ctx) (d : Dec) (res : Cond) (a b : Int)
    (ha1 : -100000 ≤ a) (ha2 : a ≤ 100000) (hb : b > 100000) :
    setExponent c d res [a, b] = (d, cSysOverflow ||| cOverflow) := by
  have hb' : b > MaxExponent := hb
  have h : checkXs [a, b] = some (cSysOverflow ||| cOverflow) := by
    rw [checkXs_cons a _ ha1 ha2]
    simp only [checkXs]
    rw [if_pos hb']
  unfold setExponent
  rw [h]

theorem setExponent_ok (c : Ctx) (d : Dec) (res : Cond) (xs : List Int)
    (hx : checkXs xs = none)
    (h1 : sumInts xs + (ndigits d.coeff : Int) - 1 ≤ 100000)
    (h2 : -100000 ≤ sumInts xs + (ndigits d.coeff : Int) - 1)
    (h3 : c.emin ≤ sumInts xs + (ndigits d.coeff : Int) - 1)
    (h4 : sumInts xs + (ndigits d.coeff : Int) - 1 ≤ c.emax)
    (h5 : (res.inexact && res.subnormal) = false) :
    setExponent c d res xs = ({ d with exp := sumInts xs }, res) := by
  unfold setExponent
  rw [hx]
  simp only [MaxExponent, MinExponent]
  rw [if_neg (by omega), if_neg (by omega), if_neg (by omega), if_neg (by omega)]
  simp [seFinish, h5]

theorem setExponent_big (c : Ctx) (d : Dec) (res : Cond) (xs : List Int)
    (hx : checkXs xs = none)
    (h1 : sumInts xs + (ndigits d.coeff : Int) - 1 > 100000) :
    setExponent c d res xs = (d, cSysOverflow ||| cOverflow) := by
  unfold setExponent
  rw [hx]
  simp only [MaxExponent, MinExponent]
  rw [if_pos (by omega)]

theorem setExponent_inf (c : Ctx) (d : Dec) (res : Cond) (xs : List Int)
    (hx : checkXs xs = none)
    (h1 : sumInts xs + (ndigits d.coeff : Int) - 1 ≤ 100000)
    (h2 : -100000 ≤ sumInts xs + (ndigits d.coeff : Int) - 1)
    (h3 : c.emin ≤ sumInts xs + (ndigits d.coeff : Int) - 1)
    (h4 : sumInts xs + (ndigits d.coeff : Int) - 1 > c.emax)
    (h5 : d.isZero = false) :
    setExponent c d res xs =
      seFinish { d with form := .infinite } (sumInts xs) (res ||| cOverflow ||| cInexact) := by
  unfold setExponent
  rw [hx]
  simp only [MaxExponent, MinExponent]
  rw [if_neg (by omega), if_neg (by omega), if_neg (by omega), if_pos (by omega)]
  simp [h5]

theorem setExponent_clamp (c : Ctx) (d : Dec) (res : Cond) (xs : List Int)
    (hx : checkXs xs = none)
    (h1 : sumInts xs + (ndigits d.coeff : Int) - 1 ≤ 100000)
    (h2 : -100000 ≤ sumInts xs + (ndigits d.coeff : Int) - 1)
    (h3 : c.emin ≤ sumInts xs + (ndigits d.coeff : Int) - 1)
    (h4 : sumInts xs + (ndigits d.coeff : Int) - 1 > c.emax)
    (h5 : d.isZero = true) :
    setExponent c d res xs = seFinish d c.emax (res ||| cClamped) := by
  unfold setExponent
  rw [hx]
  simp only [MaxExponent, MinExponent]
  rw [if_neg (by omega), if_neg (by omega), if_neg (by omega), if_pos (by omega)]
  simp [h5]

/-- subnormal regime, exponent already at or above Etiny: nothing is discarded -/
theorem setExponent_sub (c : Ctx) (d : Dec) (res : Cond) (xs : List Int)
    (hx : checkXs xs = none)
    (h2 : -100000 ≤ sumInts xs + (ndigits d.coeff : Int) - 1)
    (h3 : sumInts xs + (ndigits d.coeff : Int) - 1 < c.emin)
    (h3' : c.emin ≤ 100000)
    (h4 : c.emin - ((c.prec : Int) - 1) ≤ sumInts xs) :
    setExponent c d res xs =
      seFinish d (sumInts xs) (if !d.isZero then res ||| cSubnormal else res) := by
  unfold setExponent
  rw [hx]
  simp only [MaxExponent, MinExponent]
  rw [if_neg (by omega), if_neg (by omega), if_pos (by omega), if_neg (by omega)]


/-! ## the rounding step of `Rounder.Round` -/

/-- flags after the division step -/
def rres (n k : Nat) : Cond := if n % 10 ^ k != 0 then cRounded ||| cInexact else cRounded

/-- coefficient and exponent summand after the optional add-one -/
def ryd (mode : Mode) (neg : Bool) (n k : Nat) : Nat × Int :=
  if n % 10 ^ k != 0 && shouldAddOne mode (n / 10 ^ k) neg (cmpNat (2 * (n % 10 ^ k)) (10 ^ k))
  then roundAddOne (n / 10 ^ k) k else (n / 10 ^ k, (k : Int))

theorem roundAddOne_spec (y : Nat) (k : Int) :
    ∃ S : Nat, S ≤ 1 ∧ (roundAddOne y k).2 = k + S ∧ (roundAddOne y k).1 * 10 ^ S = y + 1 ∧
      ndigits (roundAddOne y k).1 + S = ndigits (y + 1) ∧ (S = 1 → ndigits (y + 1) > ndigits y) := by
  unfold roundAddOne
  by_cases h : ndigits (y + 1) > ndigits y
  · have hy : 0 < y := by
      rcases Nat.eq_zero_or_pos y with h0 | h0
      · subst h0; revert h; decide
      · exact h0
    obtain ⟨a, b⟩ := carry_value y hy h
    have e := carry y hy h
    have hn : ndigits (y + 1) = ndigits y + 1 := by
      apply ndigits_unique _ _ (by omega)
      · simp only [Nat.add_sub_cancel]; omega
      · rw [e]; exact Nat.pow_lt_pow_right (by decide) (by omega)
    refine ⟨1, by omega, ?_, ?_, ?_, ?_⟩
    · simp [h]
    · simp [h]; omega
    · simp [h]; omega
    · intro _; exact h
  · refine ⟨0, by omega, ?_, ?_, ?_, ?_⟩
    · simp [h]
    · simp [h]
    · simp [h]
    · intro h'; omega

theorem ryd_spec (mode : Mode) (neg : Bool) (n k : Nat) :
    ∃ S : Nat, S ≤ 1 ∧ (ryd mode neg n k).2 = (k : Int) + S ∧
      (ryd mode neg n k).1 * 10 ^ S = (rnd mode neg n k).1 ∧
      ndigits (ryd mode neg n k).1 + S = ndigits (rnd mode neg n k).1 ∧
      (S = 1 → ndigits (rnd mode neg n k).1 > ndigits (n / 10 ^ k)) := by
  unfold ryd rnd
  rw [shouldAddOne_eq]
  by_cases hm : n % 10 ^ k = 0
  · refine ⟨0, by omega, ?_⟩
    simp [hm]
  · by_cases hs : specAddOne mode (n / 10 ^ k) neg (compare (2 * (n % 10 ^ k)) (10 ^ k)) = true
    · obtain ⟨S, h1, h2, h3, h4, h5⟩ := roundAddOne_spec (n / 10 ^ k) k
      refine ⟨S, h1, ?_⟩
      simp [hm, hs]
      exact ⟨h2, h3, h4, h5⟩
    · refine ⟨0, by omega, ?_⟩
      simp [hm, hs]

theorem rres_spec (mode : Mode) (neg : Bool) (n k : Nat) :
    (rres n k).inexact = (rnd mode neg n k).2 ∧ (rres n k).rounded = true ∧
    (rres n k).overflow = false ∧ (rres n k).underflow = false ∧ (rres n k).invalidOp = false ∧
    (rres n k).sysOverflow = false ∧ (rres n k).sysUnderflow = false ∧ (rres n k).subnormal = false := by
  unfold rres rnd
  by_cases hm : n % 10 ^ k = 0
  · simp [hm, cRounded]
  · simp [hm, cRounded, cInexact, HOr.hOr, OrOp.or, Cond.or]

/-! ## `roundXFin` by regime -/

theorem roundX_round (c : Ctx) (x : Dec) (dis : Bool) (k : Nat)
    (h0 : (dis && c.prec == 0) = false)
    (h1 : (x.sign != 0 && decide (x.exp + (ndigits x.coeff : Int) - 1 < c.emin)) = false)
    (hk : (ndigits x.coeff : Int) - (c.prec : Int) = k) (hk0 : 0 < k) (hk1 : k ≤ 100000) :
    roundXFin c x dis =
      (let res := rres x.coeff k
       let yd := ryd c.mode x.neg x.coeff k
       let r := setExponent c { x with coeff := yd.1 } res [x.exp, yd.2]
       (r.1, res ||| r.2)) := by
  unfold roundXFin rres ryd
  simp only [h0, h1, hk, MaxExponent, Int.toNat_natCast]
  rw [if_neg (by simp), if_neg (by simp), if_pos (by omega), if_neg (by omega)]


theorem roundX_sub (c : Ctx) (x : Dec) (dis : Bool)
    (h0 : (dis && c.prec == 0) = false)
    (h1 : (x.sign != 0 && decide (x.exp + (ndigits x.coeff : Int) - 1 < c.emin)) = true) :
    roundXFin c x dis = ((setExponent c x cSubnormal [x.exp]).1,
                      cSubnormal ||| (setExponent c x cSubnormal [x.exp]).2) := by
  unfold roundXFin
  simp only [h0, h1]
  rw [if_neg (by simp), if_pos (by simp)]

theorem roundX_noround (c : Ctx) (x : Dec) (dis : Bool)
    (h0 : (dis && c.prec == 0) = false)
    (h1 : (x.sign != 0 && decide (x.exp + (ndigits x.coeff : Int) - 1 < c.emin)) = false)
    (h2 : (ndigits x.coeff : Int) - (c.prec : Int) ≤ 0) :
    roundXFin c x dis = setExponent c x {} [x.exp, 0] := by
  unfold roundXFin
  simp only [h0, h1]
  rw [if_neg (by simp), if_neg (by simp), if_neg (by omega)]

theorem sign_ne_zero (x : Dec) : (x.sign != 0) = !x.isZero := by
  unfold Dec.sign Dec.isZero
  cases h : (x.form == Form.finite && x.coeff == 0)
  · cases x.neg <;> simp
  · simp

theorem Dec.eta_exp (d : Dec) : ({ d with exp := d.exp } : Dec) = d := by cases d; rfl

/-- the coefficient after `quantize`'s rollover fix-up -/
def qco (d : Dec) : Nat := if d.exp > 0 then d.coeff * 10 else d.coeff

/-- `Round` in `quantize`'s shifted frame (precision `p = nd - k`, exponent `-k`) -/
theorem roundX_quant (c : Ctx) (v : Dec) (hv : v.form = .finite) (k p : Nat) (hp : ndigits v.coeff = p + k)
    (hk0 : 0 < k) (hk1 : k ≤ 100000)
    (hcarry : k < 100000 ∨ ndigits (rnd c.mode v.neg v.coeff k).1 ≤ ndigits (v.coeff / 10 ^ k))
    (F : Int) :
    ∀ r, roundXFin { c with prec := p, emin := MinExponent, emax := F } { v with exp := -(k : Int) } false = r →
    (r.1.form = v.form ∧ r.1.neg = v.neg ∧ qco r.1 = (rnd c.mode v.neg v.coeff k).1 ∧
      r.2.inexact = (rnd c.mode v.neg v.coeff k).2 ∧ r.2.rounded = true ∧
      r.2.overflow = false ∧ r.2.underflow = false ∧ r.2.invalidOp = false ∧
      r.2.sysOverflow = false ∧ r.2.sysUnderflow = false ∧ r.2.subnormal = false) ∨
    (r.2.overflow = true ∧
      ((ndigits (rnd c.mode v.neg v.coeff k).1 : Int) - 1 > 100000 ∨
       ((rnd c.mode v.neg v.coeff k).1 ≠ 0 ∧ (ndigits (rnd c.mode v.neg v.coeff k).1 : Int) - 1 > F))) := by
  intro r hr
  have h1 : ¬ (-(k : Int) + (ndigits v.coeff : Int) - 1 < MinExponent) := by
    simp only [MinExponent]; omega
  rw [roundX_round { c with prec := p, emin := MinExponent, emax := F } { v with exp := -(k : Int) } false k
        (by simp) (by simp [h1]) (by simp; omega) hk0 hk1] at hr
  simp only [] at hr
  obtain ⟨S, hS, hE, hY, hN, hC⟩ := ryd_spec c.mode v.neg v.coeff k
  obtain ⟨f1, f2, f3, f4, f5, f6, f7, f8⟩ := rres_spec c.mode v.neg v.coeff k
  generalize ryd c.mode v.neg v.coeff k = yd at *
  obtain ⟨Y, E⟩ := yd
  simp only [] at hE hY hN hr
  subst hE
  generalize rnd c.mode v.neg v.coeff k = R at *
  generalize rres v.coeff k = res at *
  have hS' : (k : Int) + S ≤ 100000 := by omega
  have hx : checkXs [-(k : Int), (k : Int) + S] = none := by
    apply checkXs_two <;> omega
  have hsum : sumInts [-(k : Int), (k : Int) + S] = S := by simp [sumInts]; omega
  have hk' : ¬ (-(k : Int) > 0) := by omega
  have hco : (if (S : Int) > 0 then Y * 10 else Y) = R.1 := by
    rcases (by omega : S = 0 ∨ S = 1) with h | h <;> subst h <;> simp at hY ⊢ <;> exact hY
  have hpos := ndigits_pos Y
  by_cases hb1 : (S : Int) + (ndigits Y : Int) - 1 > 100000
  · rw [setExponent_big _ _ _ _ hx (by simp only [hsum]; omega)] at hr
    subst hr
    right
    refine ⟨by simp [cOverflow], Or.inl (by omega)⟩
  · by_cases hb2 : (S : Int) + (ndigits Y : Int) - 1 > F
    · by_cases hY0 : Y = 0
      · -- a zero is clamped to the frame's Emax, never turned into an infinity
        subst hY0
        have hn0 : ndigits 0 = 1 := by decide
        have hR0 : R.1 = 0 := by rw [← hY]; simp
        have hS0 : S = 0 := by rw [hR0] at hN; omega
        subst hS0
        rw [setExponent_clamp _ _ _ _ hx (by simp only [hsum]; omega) (by simp only [hsum]; omega)
              (by simp only [hsum, MinExponent]; omega) (by simp only [hsum]; omega)
              (by simp [Dec.isZero, hv])] at hr
        subst hr
        left
        have hF : ¬ (F > 0) := by rw [hn0] at hb2; omega
        simp [seFinish, qco, hF, hR0, f1, f2, f3, f4, f5, f6, f7, f8, cClamped]
      · have hR0 : R.1 ≠ 0 := by
          rw [← hY]
          exact Nat.mul_ne_zero hY0 (Nat.pos_iff_ne_zero.1 (Nat.pow_pos (by decide)))
        rw [setExponent_inf _ _ _ _ hx (by simp only [hsum]; omega) (by simp only [hsum]; omega)
              (by simp only [hsum, MinExponent]; omega) (by simp only [hsum]; omega)
              (by simp [Dec.isZero, hY0])] at hr
        subst hr
        right
        refine ⟨by simp [seFinish, cOverflow, cInexact, f8], Or.inr ⟨hR0, by omega⟩⟩
    · rw [setExponent_ok _ _ _ _ hx (by simp only [hsum]; omega) (by simp only [hsum]; omega)
            (by simp only [hsum, MinExponent]; omega) (by simp only [hsum]; omega)
            (by simp [f8])] at hr
      subst hr
      left
      simp only [qco, hsum, hco, Cond.or_inexact, Cond.or_rounded, Cond.or_overflow, Cond.or_underflow,
        Cond.or_invalidOp, Cond.or_sysOverflow, Cond.or_sysUnderflow, Cond.or_subnormal,
        f1, f2, f3, f4, f5, f6, f7, f8, Bool.or_self, and_self]


/-! ## `quantizeCore` -/

/-- the "delivered" outcome of `quantizeCore`: `R` is the specification's `(coefficient, inexact)` -/
def QGood (x : Dec) (e : Int) (R : Nat × Bool) (q : Dec × Cond) : Prop :=
  q.1 = { x with coeff := R.1, exp := e } ∧ q.2.inexact = R.2 ∧ (R.2 = true → q.2.rounded = true) ∧
  q.2.overflow = false ∧ q.2.underflow = false ∧ q.2.invalidOp = false ∧
  q.2.sysOverflow = false ∧ q.2.sysUnderflow = false ∧ q.2.subnormal = false

theorem small_div (n k : Nat) (hn : 0 < n) (h : ndigits n < k) :
    n / 10 ^ k = 0 ∧ n % 10 ^ k = n ∧ 2 * n < 10 ^ k := by
  have h1 := (ndigits_spec n hn).2
  have h2 : 10 ^ ndigits n ≤ 10 ^ (k - 1) := Nat.pow_le_pow_right (by decide) (by omega)
  have h3 : 10 ^ k = 10 ^ (k - 1) * 10 := by
    rw [← Nat.pow_succ]; congr 1; omega
  have h4 : n < 10 ^ k := by omega
  exact ⟨Nat.div_eq_of_lt h4, Nat.mod_eq_of_lt h4, by omega⟩

theorem frameEmax_lt (emax e A : Int) (hA : 0 ≤ A) (h : A > frameEmax emax e) :
    A > 100000 ∨ e + A > emax := by
  unfold frameEmax at h
  simp only [] at h
  by_cases a : emax - e > MaxExponent
  · rw [if_pos a] at h; simp only [MaxExponent] at h a; omega
  · rw [if_neg a] at h
    by_cases b : emax - e < MinExponent
    · rw [if_pos b] at h; simp only [MinExponent] at h b; omega
    · rw [if_neg b] at h; simp only [MaxExponent, MinExponent] at a b; omega

theorem quantizeCore_spec (c : Ctx) (x : Dec) (hx : x.form = .finite) (e : Int)
    (hgap : x.coeff = 0 ∨ x.exp - e ≤ 100000)
    (hgap2 : (ndigits x.coeff : Int) < e - x.exp ∨ e - x.exp < 100000 ∨
      (e - x.exp = 100000 ∧
        ndigits (roundAt c.mode x.neg x.coeff 1 x.exp e).1 ≤ ndigits (x.coeff / 10 ^ 100000))) :
    QGood x e (roundAt c.mode x.neg x.coeff 1 x.exp e) (quantizeCore c x e) ∨
    ((quantizeCore c x e).2.overflow = true ∧
      ((ndigits (roundAt c.mode x.neg x.coeff 1 x.exp e).1 : Int) - 1 > 100000 ∨
       ((roundAt c.mode x.neg x.coeff 1 x.exp e).1 ≠ 0 ∧
         e + (ndigits (roundAt c.mode x.neg x.coeff 1 x.exp e).1 : Int) - 1 > c.emax))) := by
  unfold quantizeCore
  simp only []
  by_cases hd : e - x.exp < 0
  · left
    rw [if_pos hd, roundAt_nonpos _ _ _ _ _ (by omega)]
    by_cases hz : x.coeff = 0
    · -- a zero is not rescaled, whatever the distance (repair of finding F6)
      have h1 : x.isZero = true := by simp [Dec.isZero, hx, hz]
      simp [h1, QGood, hz]
    · have h1 : x.isZero = false := by simp [Dec.isZero, hz]
      have hg : x.exp - e ≤ 100000 := by rcases hgap with h | h; exact absurd h hz; exact h
      simp only [h1, Bool.not_false, if_true]
      rw [if_neg (by simp only [MinExponent]; omega)]
      have : -(e - x.exp) = x.exp - e := by omega
      rw [this]
      simp [QGood]
  · rw [if_neg hd]
    by_cases hd0 : e - x.exp > 0
    · rw [if_pos hd0]
      obtain ⟨k, hk⟩ : ∃ k : Nat, e - x.exp = k := ⟨(e - x.exp).toNat, by omega⟩
      rw [roundAt_pos _ _ _ _ _ k hk] at hgap2 ⊢
      rw [hk] at hgap2 ⊢
      have hk0 : 0 < k := by omega
      by_cases hp : (ndigits x.coeff : Int) - (k : Int) < 0
      · left
        rw [if_pos hp]
        by_cases hz : x.coeff = 0
        · have h1 : x.isZero = true := by simp [Dec.isZero, hx, hz]
          simp [h1, QGood, rnd, hz]
        · have h1 : x.isZero = false := by simp [Dec.isZero, hz]
          obtain ⟨a1, a2, a3⟩ := small_div x.coeff k (by omega) (by omega)
          have a4 : compare (2 * x.coeff) (10 ^ k) = .lt := Nat.compare_eq_lt.2 a3
          have a5 := shouldAddOne_eq c.mode 0 x.neg 0 1
          have a6 : cmpNat 0 1 = -1 := by decide
          have a7 : compare 0 1 = Ordering.lt := by decide
          rw [a6, a7] at a5
          simp only [h1, Bool.not_false, if_true, QGood, rnd, a1, a2, a4, a5]
          have hz' : (x.coeff == 0) = false := by simp [hz]
          simp only [hz']
          cases specAddOne c.mode 0 x.neg Ordering.lt <;> simp [cInexact, cRounded]
      · rw [if_neg hp]
        obtain ⟨p, hp'⟩ : ∃ p : Nat, ndigits x.coeff = p + k := ⟨ndigits x.coeff - k, by omega⟩
        have hpt : ((ndigits x.coeff : Int) - (k : Int)).toNat = p := by omega
        rw [hpt]
        have hc' : k < 100000 ∨ ndigits (rnd c.mode x.neg x.coeff k).1 ≤ ndigits (x.coeff / 10 ^ k) := by
          rcases hgap2 with h | h | h
          · omega
          · left; omega
          · right
            have : k = 100000 := by omega
            subst this
            exact h.2
        rw [roundX_finite _ _ _ (show ({ x with exp := -(k : Int) } : Dec).form = .finite from hx)]
        have key := roundX_quant c x hx k p hp' hk0 (by omega) hc' (frameEmax c.emax e) _ rfl
        generalize roundXFin { c with prec := p, emin := MinExponent, emax := frameEmax c.emax e }
          { x with exp := -(k : Int) } false = r at key ⊢
        have hA : (if r.fst.exp > 0 then ({ r.fst with coeff := r.fst.coeff * 10 } : Dec) else r.fst).form
            = r.fst.form := by split <;> rfl
        have hB : (if r.fst.exp > 0 then ({ r.fst with coeff := r.fst.coeff * 10 } : Dec) else r.fst).neg
            = r.fst.neg := by split <;> rfl
        have hC : (if r.fst.exp > 0 then ({ r.fst with coeff := r.fst.coeff * 10 } : Dec) else r.fst).coeff
            = qco r.fst := by unfold qco; split <;> rfl
        simp only [hA, hB, hC]
        rcases key with ⟨k1, k2, k3, k4, k5, k6, k7, k8, k9, k10, k11⟩ | ⟨k1, k2⟩
        · left
          simp only [QGood, k1, k2, k3, k4, k5, k6, k7, k8, k9, k10, k11, hx, and_self, implies_true]
        · right
          refine ⟨k1, ?_⟩
          rcases k2 with k2 | ⟨k2, k3⟩
          · exact Or.inl k2
          · have hpos := ndigits_pos (rnd c.mode x.neg x.coeff k).1
            rcases frameEmax_lt c.emax e _ (by omega) k3 with h | h
            · exact Or.inl h
            · exact Or.inr ⟨k2, by omega⟩
    · left
      rw [if_neg hd0, roundAt_nonpos _ _ _ _ _ (by omega)]
      have : x.exp - e = 0 := by omega
      simp [this, QGood]


/-! ## `Context.round` on a value that already fits -/

theorem ctxRound_fit (c : Ctx) (c1 : 1 ≤ c.prec) (c0 : 0 ≤ c.emax) (c3 : c.emax ≤ 100000)
    (c4 : -100000 ≤ c.emin) (c5 : c.emin ≤ 0) (d : Dec) (hf : d.form = .finite)
    (hnd : ndigits d.coeff ≤ c.prec) (he1 : c.emin - (c.prec : Int) + 1 ≤ d.exp)
    (he2 : d.exp ≤ c.emax) (he3 : -100000 ≤ d.exp) :
    if d.coeff ≠ 0 ∧ d.exp + (ndigits d.coeff : Int) - 1 > c.emax then (ctxRoundFin c d).2.overflow = true
    else (ctxRoundFin c d).1 = d ∧ (ctxRoundFin c d).2.inexact = false ∧ (ctxRoundFin c d).2.overflow = false ∧
      (ctxRoundFin c d).2.underflow = false ∧ (ctxRoundFin c d).2.invalidOp = false ∧
      (ctxRoundFin c d).2.sysOverflow = false ∧ (ctxRoundFin c d).2.sysUnderflow = false := by
  have hpos := ndigits_pos d.coeff
  have h0 : (true && c.prec == 0) = false := by
    have : c.prec ≠ 0 := by omega
    simp [this]
  have hz : d.isZero = (d.coeff == 0) := by simp [Dec.isZero, hf]
  have hn0 : ndigits 0 = 1 := by decide
  unfold ctxRoundFin
  by_cases hA : d.coeff ≠ 0 ∧ d.exp + (ndigits d.coeff : Int) - 1 < c.emin
  · have h1 : (d.sign != 0 && decide (d.exp + (ndigits d.coeff : Int) - 1 < c.emin)) = true := by
      rw [sign_ne_zero, hz]; simp [hA.1, hA.2]
    rw [roundX_sub c d true h0 h1]
    rw [if_neg (by omega)]
    have hs : sumInts [d.exp] = d.exp := by simp [sumInts]
    rw [setExponent_sub c d _ _ (checkXs_one _ he3 (by omega)) (by rw [hs]; omega) (by rw [hs]; omega)
          (by omega) (by rw [hs]; omega)]
    have hz' : d.isZero = false := by rw [hz]; simp [hA.1]
    simp [seFinish, hs, cSubnormal, hz']
  · have h1 : (d.sign != 0 && decide (d.exp + (ndigits d.coeff : Int) - 1 < c.emin)) = false := by
      rw [sign_ne_zero, hz]
      by_cases h : d.coeff = 0
      · simp [h]
      · have : ¬ (d.exp + (ndigits d.coeff : Int) - 1 < c.emin) := fun h' => hA ⟨h, h'⟩
        simp [this]
    rw [roundX_noround c d true h0 h1 (by omega)]
    have hs : sumInts [d.exp, 0] = d.exp := by simp [sumInts]
    have hx : checkXs [d.exp, 0] = none := checkXs_two _ _ he3 (by omega) (by omega) (by omega)
    by_cases hB1 : d.exp + (ndigits d.coeff : Int) - 1 > 100000
    · have hnz : d.coeff ≠ 0 := by
        intro h; rw [h, hn0] at hB1; omega
      rw [if_pos ⟨hnz, by omega⟩, setExponent_big c d _ _ hx (by rw [hs]; omega)]
      simp [cOverflow]
    · by_cases hB2 : d.exp + (ndigits d.coeff : Int) - 1 < c.emin
      · have hzz : d.coeff = 0 := by
          apply Classical.byContradiction; intro h; exact hA ⟨h, hB2⟩
        have hz' : d.isZero = true := by rw [hz]; simp [hzz]
        rw [if_neg (by omega), setExponent_sub c d _ _ hx (by rw [hs]; omega) (by rw [hs]; omega)
              (by omega) (by rw [hs]; omega)]
        simp [seFinish, hs, hz']
      · by_cases hB3 : d.exp + (ndigits d.coeff : Int) - 1 > c.emax
        · have hnz : d.coeff ≠ 0 := by
            intro h; rw [h, hn0] at hB3; omega
          have hz' : d.isZero = false := by rw [hz]; simp [hnz]
          rw [if_pos ⟨hnz, hB3⟩, setExponent_inf c d _ _ hx (by rw [hs]; omega) (by rw [hs]; omega)
                (by rw [hs]; omega) (by rw [hs]; omega) hz']
          simp [seFinish, cOverflow, cInexact]
        · rw [if_neg (by omega), setExponent_ok c d _ _ hx (by rw [hs]; omega) (by rw [hs]; omega)
                (by rw [hs]; omega) (by rw [hs]; omega) (by simp)]
          simp [hs]


/-! ## the system-limit exits of `quantizeCore` (complement of `hgap2` in `quantizeCore_spec`) -/

theorem roundX_toobig (c : Ctx) (x : Dec) (dis : Bool)
    (h0 : (dis && c.prec == 0) = false)
    (h1 : (x.sign != 0 && decide (x.exp + (ndigits x.coeff : Int) - 1 < c.emin)) = false)
    (hk : (ndigits x.coeff : Int) - (c.prec : Int) > 100000) :
    roundXFin c x dis = (x, cSysOverflow ||| cOverflow) := by
  have hk' : (ndigits x.coeff : Int) - (c.prec : Int) > MaxExponent := hk
  unfold roundXFin
  simp only [h0, h1]
  rw [if_neg (by simp), if_neg (by simp), if_pos (by omega), if_pos hk']

theorem ryd_carry (mode : Mode) (neg : Bool) (n k : Nat)
    (h : ndigits (rnd mode neg n k).1 > ndigits (n / 10 ^ k)) :
    (ryd mode neg n k).2 = (k : Int) + 1 := by
  unfold ryd
  unfold rnd at h
  rw [shouldAddOne_eq]
  by_cases hm : n % 10 ^ k = 0
  · simp [hm] at h
  · by_cases hs : specAddOne mode (n / 10 ^ k) neg (compare (2 * (n % 10 ^ k)) (10 ^ k)) = true
    · simp [hm, hs] at h ⊢
      simp [roundAddOne, h]
    · simp [hm, hs] at h

theorem quantizeCore_sys (c : Ctx) (x : Dec) (hx : x.form = .finite) (e : Int)
    (hk : e - x.exp ≥ 100000) (hnd : e - x.exp ≤ (ndigits x.coeff : Int))
    (hcarry : e - x.exp = 100000 →
      ndigits (roundAt c.mode x.neg x.coeff 1 x.exp e).1 > ndigits (x.coeff / 10 ^ 100000)) :
    (e - x.exp > 100000 ∧ (ndigits (quantizeCore c x e).1.coeff : Int) > 100000) ∨
      ((quantizeCore c x e).2.overflow = true ∧ (quantizeCore c x e).2.sysOverflow = true) := by
  unfold quantizeCore
  simp only []
  obtain ⟨k, hk'⟩ : ∃ k : Nat, e - x.exp = k := ⟨(e - x.exp).toNat, by omega⟩
  rw [hk'] at hk hnd hcarry ⊢
  rw [if_neg (by omega), if_pos (by omega), if_neg (by omega)]
  obtain ⟨p, hp'⟩ : ∃ p : Nat, ndigits x.coeff = p + k := ⟨ndigits x.coeff - k, by omega⟩
  have hpt : ((ndigits x.coeff : Int) - (k : Int)).toNat = p := by omega
  rw [hpt]
  rw [roundX_finite _ _ _ (show ({ x with exp := -(k : Int) } : Dec).form = .finite from hx)]
  have h1 : ¬ (-(k : Int) + (ndigits x.coeff : Int) - 1 < MinExponent) := by
    simp only [MinExponent]; omega
  by_cases hbig : k > 100000
  · left
    rw [roundX_toobig { c with prec := p, emin := MinExponent, emax := frameEmax c.emax e } { x with exp := -(k : Int) } false
          (by simp) (by simp [h1]) (by simp only []; omega)]
    have hk'' : ¬ (-(k : Int) > 0) := by omega
    simp only [hk'', if_false]
    omega
  · right
    have hk1 : k = 100000 := by omega
    have hc1 := hcarry (by omega)
    rw [roundAt_pos _ _ _ _ _ k hk', ← hk1] at hc1
    have hE := ryd_carry c.mode x.neg x.coeff k hc1
    rw [roundX_round { c with prec := p, emin := MinExponent, emax := frameEmax c.emax e } { x with exp := -(k : Int) } false
          k (by simp) (by simp [h1]) (by simp only []; omega) (by omega) (by omega)]
    simp only [hE]
    rw [setExponent_sys _ _ _ _ _ (by omega) (by omega) (by omega)]
    simp [cOverflow, cSysOverflow]

/-! ## Ceil / Floor -/

theorem goError_zero (t : Cond) : goError t {} = .none := by
  simp [goError, Cond.any, HAnd.hAnd, AndOp.and, Cond.and]

/-- an integer with at most `prec` digits is left alone by `Context.round` -/
theorem ctxRound_int (c : Ctx) (hc : c.WF) (d : Dec) (he : d.exp = 0) (hnd : ndigits d.coeff ≤ c.prec) :
    ctxRoundFin c d = (d, {}) := by
  obtain ⟨c1, c2, c3, c4, c5⟩ := hc
  have hpos := ndigits_pos d.coeff
  have h0 : (true && c.prec == 0) = false := by
    have : c.prec ≠ 0 := by omega
    simp [this]
  have h1 : (d.sign != 0 && decide (d.exp + (ndigits d.coeff : Int) - 1 < c.emin)) = false := by
    have : ¬ (d.exp + (ndigits d.coeff : Int) - 1 < c.emin) := by omega
    simp [this]
  unfold ctxRoundFin
  rw [roundX_noround c d true h0 h1 (by omega)]
  have hs : sumInts [d.exp, 0] = 0 := by simp [sumInts, he]
  rw [setExponent_ok c d _ _ (checkXs_two _ _ (by omega) (by omega) (by omega) (by omega))
        (by rw [hs]; omega) (by rw [hs]; omega) (by rw [hs]; omega) (by rw [hs]; omega) (by simp)]
  rw [hs, ← he]

theorem addOp_one (c : Ctx) (hc : c.WF) (s : Bool) (a : Nat) (hfit : ndigits (a + 1) ≤ c.prec) :
    addOp c { form := .finite, neg := s, exp := 0, coeff := a } decOne s =
      { d := { form := .finite, neg := s, exp := 0, coeff := a + 1 }, fl := {}, err := .none } := by
  unfold addOp
  simp only [shouldSetAsNaN, Dec.isNaN, decOne, upscale]
  have := ctxRound_int c hc { form := .finite, neg := s, exp := 0, coeff := a + 1 } rfl hfit
  rw [← ctxRound_finite _ _ rfl] at this
  cases s <;> simp [finish, this, goError_zero]

theorem modf_spec (x : Dec) (hx : x.form = .finite) (hexp : x.exp ≤ 0) :
    (modf x).1 = { form := .finite, neg := x.neg, exp := 0, coeff := x.coeff / 10 ^ (-x.exp).toNat } ∧
    (modf x).2.sign = (if x.coeff % 10 ^ (-x.exp).toNat = 0 then 0 else if x.neg then -1 else 1) := by
  unfold modf
  rw [if_neg (by omega)]
  simp only []
  by_cases h : -x.exp > (ndigits x.coeff : Int)
  · rw [if_pos h]
    by_cases hz : x.coeff = 0
    · simp [hz, Dec.sign, hx]
    · obtain ⟨a1, a2, a3⟩ := small_div x.coeff (-x.exp).toNat (by omega) (by omega)
      simp [a1, a2, hz, Dec.sign, hx]
  · rw [if_neg h]
    simp [Dec.sign]


/-! ## zeros (repair of finding F6: a zero coefficient is never rescaled) -/

theorem frameEmax_nonneg (emax e : Int) (h : e ≤ emax) : 0 ≤ frameEmax emax e := by
  unfold frameEmax
  simp only []
  by_cases a : emax - e > MaxExponent
  · rw [if_pos a]; simp only [MaxExponent]; omega
  · rw [if_neg a, if_neg (by simp only [MinExponent]; omega)]; omega

/-- `Round` with precision 0 on the one-digit coefficient `0` at exponent -1 (the frame of `quantize` when a zero
loses exactly one digit): the zero at exponent 0, with Rounded -/
theorem roundX_zero_prec0 (nc : Ctx) (hp : nc.prec = 0) (hm : nc.emin = MinExponent) (hM : 0 ≤ nc.emax)
    (s : Bool) :
    roundX nc { form := .finite, neg := s, exp := -1, coeff := 0 } false =
      ({ form := .finite, neg := s, exp := 0, coeff := 0 }, cRounded) := by
  have hn0 : ndigits 0 = 1 := by decide
  rw [roundX_finite _ _ _ rfl]
  have h1 : ((({ form := .finite, neg := s, exp := -1, coeff := 0 } : Dec).sign != 0) &&
      decide (({ form := .finite, neg := s, exp := -1, coeff := 0 } : Dec).exp +
        (ndigits ({ form := .finite, neg := s, exp := -1, coeff := 0 } : Dec).coeff : Int) - 1 < nc.emin)) = false := by
    simp [Dec.sign]
  rw [roundX_round nc _ false 1 (by simp) h1 (by simp [hn0, hp]) (by decide) (by decide)]
  have hr : rres 0 1 = cRounded := by decide
  have hy : ∀ m, ryd m s 0 1 = (0, 1) := by intro m; simp [ryd]
  simp only [hr, hy]
  rw [setExponent_ok nc _ _ _ (by decide) (by simp [sumInts, hn0]) (by simp [sumInts, hn0])
    (by simp [sumInts, hn0, hm, MinExponent]) (by simp [sumInts, hn0]; omega) (by decide)]
  simp [sumInts]
  decide

/-- `quantizeCore` on a zero: the zero at the requested exponent, whatever the distance between the two
exponents (repair of finding F6).  The only condition ever raised is Rounded, when exactly one digit is dropped
(`Round` with precision 0 on the one-digit coefficient `0`). -/
theorem quantizeCore_zero (c : Ctx) (x : Dec) (hx : x.form = .finite) (hz : x.coeff = 0) (e : Int)
    (he : e ≤ c.emax) :
    quantizeCore c x e = ({ x with exp := e }, if e - x.exp = 1 then cRounded else {}) := by
  have hn0 : ndigits 0 = 1 := by decide
  have h1 : x.isZero = true := by simp [Dec.isZero, hx, hz]
  unfold quantizeCore
  simp only [h1, hz, hn0, Bool.not_true, Bool.false_eq_true, if_false]
  by_cases hd : e - x.exp < 0
  · rw [if_pos hd, if_neg (by omega)]
  · rw [if_neg hd]
    by_cases hd0 : e - x.exp > 0
    · rw [if_pos hd0]
      by_cases hp : ((1 : Nat) : Int) - (e - x.exp) < 0
      · rw [if_pos hp, if_neg (by omega)]
      · rw [if_neg hp]
        have hd1 : e - x.exp = 1 := by omega
        rw [if_pos hd1]
        simp only [hd1, hx]
        rw [roundX_zero_prec0 _ (by simp) rfl (frameEmax_nonneg _ _ he) x.neg]
        simp
    · rw [if_neg hd0, if_neg (by omega)]

/-- `Context.round` leaves a zero whose exponent is within the context's range (Etiny … Emax) and the package's
alone, with no condition -/
theorem ctxRound_zero (c : Ctx) (c1 : 1 ≤ c.prec) (c3 : c.emax ≤ 100000) (c5 : c.emin ≤ 0) (d : Dec) (hf : d.form = .finite)
    (hz : d.coeff = 0) (he1 : c.emin - (c.prec : Int) + 1 ≤ d.exp) (he2 : d.exp ≤ c.emax)
    (he3 : -100000 ≤ d.exp) :
    ctxRound c d = (d, {}) := by
  have hn0 : ndigits 0 = 1 := by decide
  have h0 : (true && c.prec == 0) = false := by
    have : c.prec ≠ 0 := by omega
    simp [this]
  have hzz : d.isZero = true := by simp [Dec.isZero, hf, hz]
  have h1 : (d.sign != 0 && decide (d.exp + (ndigits d.coeff : Int) - 1 < c.emin)) = false := by
    rw [sign_ne_zero, hzz]; rfl
  rw [ctxRound_finite c d hf]
  unfold ctxRoundFin
  rw [roundX_noround c d true h0 h1 (by rw [hz, hn0]; omega)]
  have hs : sumInts [d.exp, 0] = d.exp := by simp [sumInts]
  have hx : checkXs [d.exp, 0] = none := checkXs_two _ _ he3 (by omega) (by omega) (by omega)
  by_cases hB : d.exp < c.emin
  · rw [setExponent_sub c d _ _ hx (by rw [hs, hz, hn0]; omega) (by rw [hs, hz, hn0]; omega)
          (by omega) (by rw [hs]; omega)]
    simp [seFinish, hs, hzz]
  · rw [setExponent_ok c d _ _ hx (by rw [hs, hz, hn0]; omega) (by rw [hs, hz, hn0]; omega)
          (by rw [hs, hz, hn0]; omega) (by rw [hs, hz, hn0]; omega) (by simp)]
    rw [hs]
end Apd.C09L
