import ApdVerif.Lemmas.C05TransLogLemmas
/-!
# Run lemmas for `powP` (`Imp/TransOps.lean`)
-/
set_option linter.unusedSimpArgs false
namespace Apd.Imp
open Apd Apd.Cond Prog

/-! ## the value-level text of `powT` in parts -/

/-- `x**frac(y)` and the final multiplication (the text of `powT`) -/
def powFracV (c nc : Ctx) (x z frac : Dec) (res : Cond) (tape : Tape) : Option (Out × Tape) :=
  let ed : ED := { c := nc }
  let s1 := ed.step decZero (fun c => absOp c x)
  match powMid nc s1 frac tape with
  | none => none
  | some (e4, tmp, tape) =>
    let s5 := e4.step tmp (fun c => mulOp c z tmp)
    if s5.1.failed then some ({ d := decNaN, fl := s5.1.fl, err := s5.1.errOf }, tape) else
    let rr := ctxRound c s5.2
    let res := res ||| rr.2 ||| cInexact ||| cRounded
    some ({ d := { rr.1 with neg := false }, fl := res, err := goError c.traps res }, tape)

/-- `powT` when no special case applies (its text) -/
def powMainV (c : Ctx) (x y : Dec) (tape : Tape) : Option (Out × Tape) :=
  let m := modf y
  let nd := ndigits x.coeff
  let p := (if c.prec < nd then nd else c.prec) + 10
  let nc : Ctx := { baseCtx with prec := p }
  let qi := quantizeCore c m.1 0
  let integ : Int := if qi.1.neg then -(qi.1.coeff : Int) else (qi.1.coeff : Int)
  let ip := integerPower nc x integ
  let res := qi.2 ||| ip.2.1
  if ip.2.2 != .none then some ({ d := decNaN, fl := res, err := ip.2.2 }, tape) else
  if m.2.isZero then
    let r := ctxRound c ip.1
    some (finish c (r.1, res ||| r.2), tape)
  else powFracV c nc x ip.1 m.2 res tape

/-- the strong contract (that of `OpRun`): the destination is compared whenever the outcome is delivered.  Since the
repair of `Context.Pow` (`d.Set(decimalNaN)` on the error exit of the fractional part) every outcome of `powT` has a
definite destination, so `Pow` meets it for every aliasing. -/
def SRes (r : Res × Heap) (d : Cell) (h : Heap) (m : Out) : Prop :=
  ∃ fl aux v, r = ((fl, m.err, aux), h.set d v) ∧ (Delivered m.err → fl = m.fl ∧ aux = m.aux ∧ v = m.d)

/-- `SRes` with a decision tape -/
def STRes (r : Option (Res × Tape) × Heap) (d : Cell) (h : Heap) (m : Option (Out × Tape)) : Prop :=
  match m with
  | none => r.1 = none ∧ ∃ v, r.2 = h.set d v
  | some (m, t) => ∃ res, r.1 = some (res, t) ∧ SRes (res, r.2) d h m

theorem STRes.mk {res : Res} {t : Tape} {hp : Heap} {d : Cell} {h : Heap} {m : Out}
    (hr : SRes (res, hp) d h m) : STRes (Option.some (res, t), hp) d h (Option.some (m, t)) := ⟨res, rfl, hr⟩

theorem STRes.reject' (d : Cell) (h : Heap) (v : Dec) : STRes (Option.none, h.set d v) d h Option.none :=
  ⟨rfl, v, rfl⟩

theorem SRes.exact (d : Cell) (h : Heap) (m : Out) : SRes ((m.fl, m.err, m.aux), h.set d m.d) d h m :=
  ⟨_, _, _, rfl, fun _ => ⟨rfl, rfl, rfl⟩⟩

/-- the strong contract implies the one of the other composite functions -/
theorem STRes.toT {r : Option (Res × Tape) × Heap} {d : Cell} {h : Heap} {m : Option (Out × Tape)}
    (hr : STRes r d h m) : TTRes r d h m := by
  cases m with
  | none => exact hr
  | some mt =>
    obtain ⟨m, t⟩ := mt
    obtain ⟨res, h1, hs⟩ := hr
    exact ⟨res, h1, TRes.ofOp hs⟩

/-- `powT` is its special cases followed by `powMainV` -/
def powTV (c : Ctx) (x y : Dec) (tape : Tape) : Option (Out × Tape) :=
  match powSpecials c x y with
  | some o => some (o, tape)
  | none => powMainV c x y tape

theorem powMid_eq (nc : Ctx) (s1 : ED × Dec) (frac : Dec) (tape : Tape) :
    powMid nc s1 frac tape =
      match (if s1.1.failed then some (s1.1, s1.2, tape) else
              match lnT nc s1.2 tape with
              | none => none
              | some (o, tape) => some ({ s1.1 with fl := s1.1.fl ||| o.fl, err := o.err }, o.d, tape) :
              Option (ED × Dec × Tape)) with
      | none => none
      | some (e2, tmp, tape) =>
        let s3 := e2.step tmp (fun c => mulOp c tmp frac)
        if s3.1.failed then some (s3.1, s3.2, tape) else
        match expT nc s3.2 tape with
        | none => none
        | some (o, tape) => some ({ s3.1 with fl := s3.1.fl ||| o.fl, err := o.err }, o.d, tape) := rfl

theorem powT_eq (c : Ctx) (x y : Dec) (tape : Tape) : powT c x y tape = powTV c x y tape := by
  unfold powT powTV
  cases hsp : powSpecials c x y with
  | some o => rfl
  | none =>
    simp only []
    unfold powMainV powIntOp powFracV
    rw [hsp]
    simp only []
    generalize quantizeCore c (modf y).1 0 = qi
    generalize integerPower _ x _ = ip
    by_cases hz : (modf y).2.isZero = true
    · simp only [hz, if_true, Bool.not_true, Bool.false_eq_true, if_false]
      by_cases h1 : (ip.2.2 != ErrKind.none) = true
      · simp only [h1, if_true, Option.map_some]
      · simp only [h1, if_false, Bool.false_eq_true, Option.map_some]
    · simp only [hz, if_false, Bool.false_eq_true]
      by_cases h1 : (ip.2.2 != ErrKind.none) = true
      · simp only [h1, if_true]
      · simp only [h1, if_false, Bool.false_eq_true]
        unfold powMid
        simp only []
        generalize ED.step _ decZero _ = s1
        by_cases hf1 : s1.1.failed = true
        · simp only [hf1, if_true]
          rfl
        · simp only [hf1, if_false, Bool.false_eq_true]
          cases lnT _ s1.2 tape with
          | none => rfl
          | some ot => rfl

end Apd.Imp

namespace Apd.Imp
open Apd Apd.Cond Prog

/-! ## program side -/

@[simp] theorem run_modfLoc2 (y : Src) (h : Heap) : run (modfLoc2 y) h = (modf (y.val h), h) := by
  unfold modfLoc2 modf
  simp only [run_bind, run_rdNeg, run_rdExp, run_ite, run_snapP, run_pure, run_numDigitsP, run_rdCoeff]
  by_cases h1 : (y.val h).exp > 0
  · simp only [h1, if_true]
  · simp only [h1, if_false]
    by_cases h2 : -(y.val h).exp > (ndigits (y.val h).coeff : Int)
    · simp only [h2, if_true]
    · simp only [h2, if_false]

/-- a call through an `ErrDecimal` that holds no error does not depend on the previous value of its destination -/
theorem ED.step_cur {e : ED} (hf : e.failed = false) (a b : Dec) (op : Ctx → Out) : e.step a op = e.step b op := by
  unfold ED.step; simp [hf]

theorem ED.fresh_not_failed (nc : Ctx) : ({ c := nc } : ED).failed = false := by
  unfold ED.failed
  simp [goError_empty]

/-- once the `ErrDecimal` holds an error the middle of the fractional power does nothing -/
theorem powMid_failed (nc : Ctx) (s : ED × Dec) (frac : Dec) (tape : Tape) (hf : s.1.failed = true) :
    powMid nc s frac tape = some (s.1, s.2, tape) := by
  unfold powMid
  simp only [hf, if_true]
  have : (s.1.step s.2 (fun c => mulOp c s.2 frac)) = (s.1, s.2) := by unfold ED.step; simp [hf]
  simp only [this, hf, if_true]

/-- `powMid` on simulating states -/
theorem powMid_sim (nc : Ctx) {e' em : ED} {z' zm : Dec} (hs : EDSim e' z' em zm) (frac : Dec) (tape : Tape) :
    (powMid nc (e', z') frac tape = none ∧ powMid nc (em, zm) frac tape = none) ∨
    ∃ e2 z2 e2m z2m tp, powMid nc (e', z') frac tape = some (e2, z2, tp) ∧
      powMid nc (em, zm) frac tape = some (e2m, z2m, tp) ∧ EDSim e2 z2 e2m z2m := by
  rcases hs with ⟨rfl, rfl⟩ | ⟨hnd, he, hc⟩
  · cases hp : powMid nc (e', z') frac tape with
    | none => exact Or.inl ⟨rfl, rfl⟩
    | some r =>
      obtain ⟨e2, z2, tp⟩ := r
      exact Or.inr ⟨e2, z2, e2, z2, tp, rfl, rfl, EDSim.refl _ _⟩
  · have h1 : em.failed = true := ED.failed_of_not_delivered hnd
    have h2 : e'.failed = true := ED.failed_of_not_delivered (by rw [he]; exact hnd)
    rw [powMid_failed nc (e', z') frac tape h2, powMid_failed nc (em, zm) frac tape h1]
    exact Or.inr ⟨e', z', em, zm, tape, rfl, rfl, Or.inr ⟨hnd, he, hc⟩⟩

end Apd.Imp

namespace Apd.Imp
open Apd Apd.Cond Prog

theorem powFracP_run (c nc : Ctx) (d : Cell) (x zs : Src) (frac tmp0 : Dec) (res : Cond) (tape : Tape)
    (h h' : Heap) (hh : ∃ v0, h' = h.set d v0) :
    STRes (run (powFracP c nc d x zs frac tmp0 false res tape) h') d h
      (powFracV c nc (x.val h') (zs.val h') frac res tape) := by
  obtain ⟨v0, hv0⟩ := hh
  have hxL : x ≠ .cell (freshCell d x.addr zs.addr) := Src.ne_cell_fresh x d zs.addr
  have hzL : zs ≠ .cell (freshCell d x.addr zs.addr) := Src.ne_cell_fresh3 zs d x.addr
  unfold powFracP powFracV
  simp only [run_bind]
  rw [ED.step_cur (ED.fresh_not_failed nc) decZero tmp0]
  obtain ⟨e1, z1, hr1, hs1⟩ := edStepP_sim (EDSim.refl ({ c := nc } : ED) tmp0)
    (fun cc => localize (freshCell d x.addr zs.addr) (absP cc (freshCell d x.addr zs.addr) x) tmp0)
    (fun cc => absOp cc (x.val h')) h'
    (fun _ _ => by
      have := (absP_run nc (freshCell d x.addr zs.addr) x (h'.set (freshCell d x.addr zs.addr) tmp0)).localize
      rw [Src.val_set_of_ne hxL] at this
      exact this)
  rw [hr1]
  simp only []
  rcases powMid_sim nc hs1 frac tape with ⟨hp1, hp2⟩ | ⟨e2, z2, e2m, z2m, tp, hp1, hp2, hs2⟩
  · rw [hp1, hp2, hv0]
    exact STRes.reject' d h v0
  · rw [hp1, hp2]
    simp only [run_bind]
    obtain ⟨e5, z5, hr5, hs5⟩ := edStepP_sim hs2
      (fun cc => localize (freshCell d x.addr zs.addr)
        (mulP cc (freshCell d x.addr zs.addr) zs (.cell (freshCell d x.addr zs.addr))) z2)
      (fun cc => mulOp cc (zs.val h') z2m) h'
      (fun _ hz => by
        have := run_mulLoc e2m.c (freshCell d x.addr zs.addr) zs (.cell (freshCell d x.addr zs.addr)) z2 h'
        rw [Src.val_set_of_ne hzL] at this
        simpa [hz] using this)
    rw [hr5]
    simp only [run_ite, hs5.failed]
    generalize e2m.step z2m (fun cc => mulOp cc (zs.val h') z2m) = s5 at hs5 ⊢
    by_cases hf : s5.1.failed = true
    · simp only [hf, if_true, run_bind, run_setDec, run_retT, Src.val_const, hv0, Heap.set_set]
      refine STRes.mk ⟨e5.fl, 0, decNaN, by rw [hs5.errOf], fun hd => ?_⟩
      obtain ⟨rfl, _⟩ := hs5.eq_of_delivered hd
      exact ⟨rfl, rfl, rfl⟩
    · simp only [hf, if_false, Bool.false_eq_true]
      obtain ⟨rfl, rfl⟩ := hs5.eq_of_not_failed hf
      simp only [run_bind, run_roundP, run_wrNeg, run_retT, Heap.set_same, Heap.set_set, Src.val_const, ctxRound, hv0]
      exact STRes.mk (SRes.exact d h { d := _, fl := _, err := _ })

end Apd.Imp

namespace Apd.Imp
open Apd Apd.Cond Prog

/-- `nc.integerPower(z, x, y)` with `z` a fresh local at the virtual address `L` -/
theorem integerPowerP_loc (c : Ctx) (L : Cell) (x : Src) (y : Int) (z : Dec) (h : Heap) (hx : x ≠ .cell L) :
    ∃ fl v, run (localize L (integerPowerP c L x y) z) h = (((fl, (integerPower c (x.val h) y).2.2), v), h) ∧
      (Delivered (integerPower c (x.val h) y).2.2 →
        fl = (integerPower c (x.val h) y).2.1 ∧ v = (integerPower c (x.val h) y).1) := by
  obtain ⟨fl, v, hr, hd⟩ := integerPowerP_run c L x y (h.set L z)
  rw [Src.val_set_of_ne hx] at hr hd
  refine ⟨fl, v, ?_, hd⟩
  rw [run_localize, hr]; simp

/-- `powMainV` after the integer power (its text) -/
def powRestV (c nc : Ctx) (x : Dec) (ip : Dec × Cond × ErrKind) (qfl : Cond) (y : Dec) (tape : Tape) :
    Option (Out × Tape) :=
  let res := qfl ||| ip.2.1
  if ip.2.2 != .none then some ({ d := decNaN, fl := res, err := ip.2.2 }, tape) else
  if (modf y).2.isZero then
    let r := ctxRound c ip.1
    some (finish c (r.1, res ||| r.2), tape)
  else powFracV c nc x ip.1 (modf y).2 res tape

theorem powRestP_run (c nc : Ctx) (d : Cell) (x zs : Src) (fl : Cond) (ip : Dec × Cond × ErrKind) (qfl : Cond)
    (Y tmp0 : Dec) (neg : Bool) (tape : Tape) (h h' : Heap) (hh' : ∃ v0, h' = h.set d v0) (v : Dec)
    (hzv : zs.val h' = v) (hd : Delivered ip.2.2 → fl = ip.2.1 ∧ v = ip.1)
    (hneg : (modf Y).2.isZero = false → neg = false) :
    STRes (run (powRestP c nc d x zs (fl, ip.2.2) qfl (modf Y).2 tmp0 (modf Y).2.isZero neg tape) h') d h
      (powRestV c nc (x.val h') ip qfl Y tape) := by
  unfold powRestP powRestV
  simp only [run_ite]
  by_cases he : (ip.2.2 != ErrKind.none) = true
  · simp only [he, if_true, run_bind, run_setDec, run_retT, Src.val_const]
    obtain ⟨v0, rfl⟩ := hh'
    refine STRes.mk ⟨qfl ||| fl, 0, decNaN, by simp, fun hdel => ?_⟩
    obtain ⟨rfl, _⟩ := hd hdel
    exact ⟨rfl, rfl, rfl⟩
  · simp only [he, if_false, Bool.false_eq_true]
    have hnone : ip.2.2 = .none := by simpa using he
    obtain ⟨rfl, rfl⟩ := hd (Or.inl hnone)
    by_cases hz : (modf Y).2.isZero = true
    · simp only [hz, if_true, run_bind, run_roundP, run_retT, hzv, finish, ctxRound]
      obtain ⟨v0, rfl⟩ := hh'
      simp only [Heap.set_set]
      exact STRes.mk (SRes.exact d h { d := _, fl := _, err := _ })
    · simp only [hz, if_false, Bool.false_eq_true]
      have hnf : neg = false := hneg (by simpa using hz)
      subst hnf
      have := powFracP_run c nc d x zs (modf Y).2 tmp0 (qfl ||| ip.2.1) tape h h' hh'
      rw [hzv] at this
      exact this

theorem powMainP_run (c : Ctx) (d : Cell) (x : Src) (Y tmp0 : Dec) (neg : Bool) (tape : Tape) (h : Heap)
    (hneg : (modf Y).2.isZero = false → neg = false) :
    STRes (run (powMainP c d x (modf Y).1 (modf Y).2 tmp0 (modf Y).2.isZero neg tape) h) d h
      (powMainV c (x.val h) Y tape) := by
  have hmv : powMainV c (x.val h) Y tape =
      powRestV c { baseCtx with prec := (if c.prec < ndigits (x.val h).coeff then ndigits (x.val h).coeff
          else c.prec) + 10 } (x.val h)
        (integerPower { baseCtx with prec := (if c.prec < ndigits (x.val h).coeff then ndigits (x.val h).coeff
          else c.prec) + 10 } (x.val h)
          (if (quantizeCore c (modf Y).1 0).1.neg = true then -((quantizeCore c (modf Y).1 0).1.coeff : Int)
           else ((quantizeCore c (modf Y).1 0).1.coeff : Int)))
        (quantizeCore c (modf Y).1 0).2 Y tape := rfl
  rw [hmv]
  unfold powMainP
  simp only [run_bind, run_numDigitsP, run_ite]
  generalize ({ baseCtx with prec := (if c.prec < ndigits (x.val h).coeff then ndigits (x.val h).coeff
    else c.prec) + 10 } : Ctx) = nc
  generalize quantizeCore c (modf Y).1 0 = qi
  generalize (if qi.1.neg = true then -(qi.1.coeff : Int) else (qi.1.coeff : Int)) = integ
  by_cases ha : x = Src.cell d
  · simp only [ha, if_true, run_bind]
    obtain ⟨fl, v, hr, hd⟩ := integerPowerP_loc nc (freshCell d d 0) (.cell d) integ {} h
      (by have := Src.ne_cell_fresh (.cell d) d 0; simpa [Src.addr] using this)
    simp only [Src.addr, hr]
    have := powRestP_run c nc d (.cell d) (.const v) fl (integerPower nc (h d) integ) qi.2 Y tmp0 neg tape h h
      ⟨h d, by simp⟩ v rfl (by simpa using hd) hneg
    simpa using this
  · simp only [ha, if_false, run_bind]
    obtain ⟨fl, v, hr, hd⟩ := integerPowerP_run nc d x integ h
    rw [hr]
    have := powRestP_run c nc d x (.cell d) fl (integerPower nc (x.val h) integ) qi.2 Y tmp0 neg tape h (h.set d v)
      ⟨v, rfl⟩ v (by simp) hd hneg
    rw [Src.val_set_of_ne ha] at this
    exact this

theorem ite_false_eq_and (a b : Bool) : (if a = true then b else false) = (a && b) := by
  cases a <;> simp

/-- close a leaf of `powP_run`: both sides are explicit -/
macro "pow_leaf" : tactic =>
  `(tactic| (simp only [run_bind, run_setDec, run_wrNeg, run_retT, run_cmpP, Src.val_const, Heap.set_same, Heap.set_set,
      goError_empty]
             exact STRes.mk ⟨_, _, _, rfl, fun _ => ⟨rfl, rfl, rfl⟩⟩))

theorem and_and_self_left (a b : Bool) : (a && (a && b)) = (a && b) := by
  cases a <;> simp

theorem and_ite_self (a b : Bool) : (a && (if a = true then b else false)) = (a && b) := by
  cases a <;> simp

theorem powP_run (c : Ctx) (d : Cell) (x y : Src) (tape : Tape) (h : Heap) :
    STRes (run (powP c d x y tape) h) d h (powT c (x.val h) (y.val h) tape) := by
  rw [powT_eq]
  unfold powP
  simp only [run_bind, run_shouldSetAsNaNP, Option.map_some, run_ite, run_modfLoc2, run_rdNeg, run_rdForm, run_pure,
    ite_pair_heap, run_signP, run_snapP]
  by_cases hn : shouldSetAsNaN (x.val h) (some (y.val h)) = true
  · have hm : powTV c (x.val h) (y.val h) tape =
        some (setAsNaN c (x.val h) (some (y.val h)), tape) := by
      unfold powTV powSpecials; simp only [hn, if_true]
    simp only [hn, if_true, hm, run_bind, run_setAsNaNP c d x (some y) h hn, Option.map_some, run_retT]
    exact STRes.mk ⟨_, _, _, rfl, fun _ => ⟨rfl, by simp, rfl⟩⟩
  · bsimp [hn]
    simp only [and_ite_self, ite_false_eq_and, and_and_self_left]
    cases hxi : ((x.val h).form == Form.infinite) <;> bsimp [hxi]
    rotate_left
    · unfold powTV powSpecials
      bsimp [hn, hxi]
      cases hys : ((y.val h).sign == 0) <;> bsimp [hys]
      · cases hbad : ((x.val h).neg && ((y.val h).form == Form.infinite || !(modf (y.val h)).snd.isZero)) <;>
          bsimp [hbad]
        · cases hyn : (y.val h).neg <;> bsimp [hyn]
          · pow_leaf
          · pow_leaf
        · pow_leaf
      · pow_leaf
    cases hxs : ((x.val h).sign == 0) <;> bsimp [hxs]
    rotate_left
    · unfold powTV powSpecials
      bsimp [hn, hxi, hxs]
      cases hys : ((y.val h).sign == 0) <;> bsimp [hys]
      · cases hys1 : ((y.val h).sign == 1) <;> bsimp [hys1]
        · pow_leaf
        · pow_leaf
      · pow_leaf
    cases hys : ((y.val h).sign == 0) <;> bsimp [hys]
    rotate_left
    · unfold powTV powSpecials
      bsimp [hn, hxi, hxs, hys]
      pow_leaf
    cases hyi : ((y.val h).form == Form.infinite) <;> bsimp [hyi]
    rotate_left
    · unfold powTV powSpecials
      bsimp [hn, hxi, hxs, hys, hyi]
      simp only [run_cmpP, Src.val_const]
      by_cases hneg : (x.val h).sign < 0
      · simp only [hneg, if_true]
        unfold invalidNaN
        pow_leaf
      · simp only [hneg, if_false]
        cases hc0 : ((x.val h).cmp decOne == 0) <;> bsimp [hc0]
        · cases hcy : (decide ((x.val h).cmp decOne > 0) != (y.val h).neg) <;> bsimp [hcy]
          · pow_leaf
          · pow_leaf
        · pow_leaf
    cases hni : (decide ((x.val h).sign < 0) && !(modf (y.val h)).snd.isZero) <;> bsimp [hni]
    rotate_left
    · unfold powTV powSpecials
      bsimp [hn, hxi, hxs, hys, hyi, hni]
      unfold invalidNaN
      pow_leaf
    have hsp : powSpecials c (x.val h) (y.val h) = none := by
      unfold powSpecials
      bsimp [hn, hxi, hxs, hys, hyi, hni]
    have hm : powTV c (x.val h) (y.val h) tape = powMainV c (x.val h) (y.val h) tape := by
      unfold powTV; rw [hsp]
    rw [hm]
    exact powMainP_run c d x (y.val h) _ _ tape h (fun hz => by simp [hz])

end Apd.Imp
