import ApdVerif.Lemmas.LnAccFinal
/-!
# The control flow of `lnT`, path by path
-/
namespace Apd.LnAcc
open Apd Apd.Oracle Apd.ExpAcc Cond

/-- the series branch from `tmp1 = w`: `(ed, result)` -/
def lnSer (c : Ctx) (ed : ED) (w : Dec) : Option (ED × Sum ErrKind Dec) :=
  let b1 := ed.step lnTenth (fun k => addOp k w decTwo false)
  let b2 := b1.1.step w.absD (fun k => quoOp k w b1.2)
  let b3 := b2.1.step b1.2 (fun k => addOp k b2.2 b2.2 false)
  lnSeries { coeff := 1, exp := -((c.prec + 2 : Nat) : Int) } b2.2 (c.prec + 2 + 10) 1 b3.1 b3.2 b3.2

/-- the common tail: add the adjustment, round to the caller's context -/
def lnTail (c : Ctx) (ed : ED) (tmp1 resAdjust : Dec) (tape : Tape) : Option (Out × Tape) :=
  let f := ed.step tmp1 (fun k => addOp k tmp1 resAdjust false)
  if f.1.failed then some (failOut f.1.errOf, tape) else
  let rr := ctxRound c f.2
  let res := rr.2 ||| cInexact ||| cRounded
  some ({ d := rr.1, fl := res, err := goError c.traps res }, tape)

def lnFinish (c : Ctx) (body : Option (ED × Sum ErrKind Dec × Tape)) (resAdjust : Dec) : Option (Out × Tape) :=
  match body with
  | none => none
  | some (_, .inl er, tape) => some (failOut er, tape)
  | some (ed, .inr tmp1, tape) => lnTail c ed tmp1 resAdjust tape

def lnSerBody (c : Ctx) (ed : ED) (w : Dec) (tape : Tape) : Option (ED × Sum ErrKind Dec × Tape) :=
  match lnSer c ed w with
  | none => none
  | some (e, r) => some (e, r, tape)

/-- path S0: `|x - 1| ≤ 0.1` -/
theorem lnT_S0 (c : Ctx) (x : Dec) (tape : Tape) (hsp : logSpecials c x = none)
    (h0 : (lnA1 c x).2.absD.cmp lnTenth ≤ 0) :
    lnT c x tape = lnFinish c (lnSerBody c (lnA1 c x).1 (lnA1 c x).2 tape) decZero := by
  unfold lnT
  rw [hsp]
  simp only []
  have : ((lnEd0 c).step decZero (fun k => addOp k x decOne true)).2.absD.cmp { coeff := 1, exp := -1 } ≤ 0 := h0
  unfold lnEd0 lnNc at this
  rw [if_pos this]
  simp only [↓reduceIte]
  unfold lnFinish lnSerBody lnSer lnA1 lnEd0 lnNc lnTenth
  simp only []
  generalize lnSeries _ _ _ _ _ _ _ = L
  cases L with
  | none => rfl
  | some p => obtain ⟨e, r⟩ := p; cases r <;> rfl

/-- path S1: rescaled, `|z - 1| ≤ 0.1` -/
theorem lnT_S1 (c : Ctx) (x : Dec) (tape : Tape) (hsp : logSpecials c x = none)
    (h0 : ¬ (lnA1 c x).2.absD.cmp lnTenth ≤ 0) (h1 : (lnA3 c x).2.absD.cmp lnTenth ≤ 0) :
    lnT c x tape = lnFinish c (lnSerBody c (lnA3 c x).1 (lnA3 c x).2 tape) (lnA2 c x).2 := by
  unfold lnT
  rw [hsp]
  simp only []
  have t0 : ¬ ((lnEd0 c).step decZero (fun k => addOp k x decOne true)).2.absD.cmp { coeff := 1, exp := -1 } ≤ 0 := h0
  unfold lnEd0 lnNc at t0
  rw [if_neg t0]
  have t1 : (lnA3 c x).2.absD.cmp { coeff := 1, exp := -1 } ≤ 0 := h1
  unfold lnA3 lnA2 lnA1 lnEd0 lnNc lnZ lnRa0 lnExpDelta at t1
  rw [if_pos t1]
  simp only [↓reduceIte]
  unfold lnFinish lnSerBody lnSer lnA3 lnA2 lnA1 lnEd0 lnNc lnZ lnRa0 lnExpDelta lnTenth
  simp only []
  generalize lnSeries _ _ _ _ _ _ _ = L
  cases L with
  | none => rfl
  | some p => obtain ⟨e, r⟩ := p; cases r <;> rfl

/-- path H: rescaled, Halley's iteration from the tape's estimate -/
theorem lnT_H (c : Ctx) (x : Dec) (d : Dec) (tape : Tape) (hsp : logSpecials c x = none)
    (h0 : ¬ (lnA1 c x).2.absD.cmp lnTenth ≤ 0) (h1 : ¬ (lnA3 c x).2.absD.cmp lnTenth ≤ 0) :
    lnT c x (.est d :: tape) =
      lnFinish c (lnHalley (lnNc c) ((c.prec : Int) + 1) (10 + (c.prec + 1)) (lnZ x) (10 + (c.prec + 1) + 2)
        (lnA3 c x).1 d {} tape) (lnA2 c x).2 := by
  unfold lnT
  rw [hsp]
  simp only []
  have t0 : ¬ ((lnEd0 c).step decZero (fun k => addOp k x decOne true)).2.absD.cmp { coeff := 1, exp := -1 } ≤ 0 := h0
  unfold lnEd0 lnNc at t0
  rw [if_neg t0]
  have t1 : ¬ (lnA3 c x).2.absD.cmp { coeff := 1, exp := -1 } ≤ 0 := h1
  unfold lnA3 lnA2 lnA1 lnEd0 lnNc lnZ lnRa0 lnExpDelta at t1
  rw [if_neg t1]
  rfl

end Apd.LnAcc
