import ApdVerif.Lemmas.SqrtDefs
import ApdVerif.Lemmas.SqrtNewton
import ApdVerif.Lemmas.SqrtIterLemmas
import ApdVerif.Props.Rational
import ApdVerif.Props.RoundCore
import ApdVerif.Props.Mul
import ApdVerif.Props.Quo
/-!
# The Newton iterate of `Context.Sqrt` is close to the root

Ties the model's loop (`SqrtD.iter`: `mulOp`/`addOp`/`quoOp` through the `ErrDecimal`) to the real-number
analysis of `Lemmas/SqrtNewton.lean`, using the C01 theorems (`C01_mul`, `C01_add`, `C01_quo`: each
operation returns the exact result rounded once) to bound every rounding by a relative error `5·10^(-p)`
(`Lemmas/SqrtIterLemmas.lean`: `mul_ok`, `add_ok`, `quo_ok`, `round1_ok`, `init_ok`).

The conclusion is stated WITHOUT square roots, on rationals: with `A` the iterate, `F` the scaled operand
and `δ = 10^(-workp-3)`, `(A-δ)² < F < (A+δ)²` — i.e. `|A - √F| < δ`.
-/
namespace Apd.SqrtI
open Apd Apd.Oracle Apd.SqrtD Apd.SqrtL

/-- the loop invariant at precision `p`: nothing failed, the iterate is a positive decimal of at most
`workp+5` digits, within relative distance `10^(2-p)` of the root of the scaled operand -/
structure Inv (c : Ctx) (x : Dec) (e : ED) (A : Dec) (p : Nat) : Prop where
  ed : EDok e
  pos : Pos A
  nd : ndigits A.coeff ≤ workp c x + 5
  p3 : 3 ≤ p
  pm : p ≤ workp c x + 5
  close : |((A.toRat : ℚ) : ℝ) - Real.sqrt (((f x).toRat : ℚ) : ℝ)| ≤
    (10 : ℝ) ^ (2 - (p : ℤ)) * Real.sqrt (((f x).toRat : ℚ) : ℝ)

theorem cast_eps {e : ℚ} {n : ℤ} (h : |e| ≤ 5 * (10 : ℚ) ^ n) : |((e : ℚ) : ℝ)| ≤ 5 * (10 : ℝ) ^ n := by
  have : ((|e| : ℚ) : ℝ) ≤ ((5 * (10 : ℚ) ^ n : ℚ) : ℝ) := by exact_mod_cast h
  push_cast at this
  exact this

theorem inv_init (c : Ctx) (x : Dec) (h : Dom c x) : Inv c x (init c x).1 (init c x).2 3 := by
  obtain ⟨w1, w2, w3⟩ := workp_facts c x
  obtain ⟨i1, i2, i3, i4, e1, e2, he1, he2, hv⟩ := init_ok c x h
  obtain ⟨f1, f2, f3, f4, f5, f6⟩ := f_facts c x h
  have hpw : (10 : ℝ) ^ (-(workp c x : ℤ)) ≤ (10 : ℝ) ^ (-7 : ℤ) :=
    zpow_le_zpow_right₀ (by norm_num) (by omega)
  have h7 : (10 : ℝ) ^ (-7 : ℤ) = 1 / 10000000 := by norm_num
  have hE1 : |((e1 : ℚ) : ℝ)| ≤ 1 / 1000000 := by
    have := cast_eps he1; rw [h7] at hpw; linarith
  have hE2 : |((e2 : ℚ) : ℝ)| ≤ 1 / 1000000 := by
    have := cast_eps he2; rw [h7] at hpw; linarith
  refine ⟨i1, i3, by omega, by omega, by omega, ?_⟩
  have h3 : (10 : ℝ) ^ (2 - ((3 : ℕ) : ℤ)) = 1 / 10 := by norm_num
  rw [h3, hv, a0_toRat, k0_toRat]
  cases he : even x
  · obtain ⟨g1, g2⟩ := f6 he
    have g1' : (1 / 100 : ℝ) ≤ (((f x).toRat : ℚ) : ℝ) := by have := (Rat.cast_le (K := ℝ)).2 g1; push_cast at this; exact this
    have g2' : (((f x).toRat : ℚ) : ℝ) ≤ 1 / 10 := by have := (Rat.cast_le (K := ℝ)).2 g2.le; push_cast at this; exact this
    have := SqrtN.init_odd _ _ _ g1' g2' hE1 hE2
    simp only [Bool.false_eq_true, if_false]
    push_cast
    exact this
  · obtain ⟨g1, g2⟩ := f5 he
    have g1' : (1 / 10 : ℝ) ≤ (((f x).toRat : ℚ) : ℝ) := by have := (Rat.cast_le (K := ℝ)).2 g1; push_cast at this; exact this
    have g2' : (((f x).toRat : ℚ) : ℝ) ≤ 1 := by have := (Rat.cast_le (K := ℝ)).2 g2.le; push_cast at this; exact this
    have := SqrtN.init_even _ _ _ g1' g2' hE1 hE2
    simp only [if_true]
    push_cast
    exact this

theorem F_range (c : Ctx) (x : Dec) (h : Dom c x) : 1 / 100 ≤ (f x).toRat ∧ (f x).toRat < 1 := by
  obtain ⟨f1, f2, f3, f4, f5, f6⟩ := f_facts c x h
  cases he : even x
  · obtain ⟨g1, g2⟩ := f6 he; exact ⟨g1, by linarith⟩
  · obtain ⟨g1, g2⟩ := f5 he; exact ⟨by linarith, g2⟩

theorem nextP_facts (p maxp : Nat) (hp : 3 ≤ p) (hm : 12 ≤ maxp) :
    4 ≤ nextP p maxp ∧ nextP p maxp ≤ 2 * p - 2 ∧ nextP p maxp ≤ maxp := by
  unfold nextP; split_ifs <;> omega

theorem inv_step (c : Ctx) (x : Dec) (h : Dom c x) (e : ED) (A : Dec) (p : Nat) (hI : Inv c x e A p) :
    Inv c x (round1 e (f x) A (nextP p (workp c x + 5))).1 (round1 e (f x) A (nextP p (workp c x + 5))).2
      (nextP p (workp c x + 5)) := by
  obtain ⟨w1, w2, w3⟩ := workp_facts c x
  have hd := h.hd
  obtain ⟨n1, n2, n3⟩ := nextP_facts p (workp c x + 5) hI.p3 (by omega)
  obtain ⟨f1, f2, f3, f4, f5, f6⟩ := f_facts c x h
  obtain ⟨F1, F2⟩ := F_range c x h
  generalize nextP p (workp c x + 5) = P at n1 n2 n3 ⊢
  have F1' : (1 / 100 : ℝ) ≤ (((f x).toRat : ℚ) : ℝ) := by have := (Rat.cast_le (K := ℝ)).2 F1; push_cast at this; exact this
  have F2' : (((f x).toRat : ℚ) : ℝ) ≤ 1 := by have := (Rat.cast_le (K := ℝ)).2 F2.le; push_cast at this; exact this
  have hH0 : (0 : ℝ) ≤ (10 : ℝ) ^ (2 - (p : ℤ)) := by positivity
  have hH1 : (10 : ℝ) ^ (2 - (p : ℤ)) ≤ 1 / 10 := by
    have : (10 : ℝ) ^ (2 - (p : ℤ)) ≤ (10 : ℝ) ^ (-1 : ℤ) := zpow_le_zpow_right₀ (by norm_num) (by have := hI.p3; omega)
    have e : (10 : ℝ) ^ (-1 : ℤ) = 1 / 10 := by norm_num
    rw [e] at this; exact this
  have hclose := hI.close
  have hnewton : ∀ E1 E2 E3 : ℝ, |E1| ≤ 5 * (10 : ℝ) ^ (-(P : ℤ)) → |E2| ≤ 5 * (10 : ℝ) ^ (-(P : ℤ)) →
      |E3| ≤ 5 * (10 : ℝ) ^ (-(P : ℤ)) →
      |((((((f x).toRat : ℚ) : ℝ) / ((A.toRat : ℚ) : ℝ)) * (1 + E1) + ((A.toRat : ℚ) : ℝ)) * (1 + E2) * (1 / 2)) *
          (1 + E3) - Real.sqrt (((f x).toRat : ℚ) : ℝ)| ≤
        (10 : ℝ) ^ (2 - (P : ℤ)) * Real.sqrt (((f x).toRat : ℚ) : ℝ) := by
    intro E1 E2 E3 h1 h2 h3
    have hε0 : (0 : ℝ) ≤ 5 * (10 : ℝ) ^ (-(P : ℤ)) := by positivity
    have hε1 : 5 * (10 : ℝ) ^ (-(P : ℤ)) ≤ 1 / 2000 := by
      have : (10 : ℝ) ^ (-(P : ℤ)) ≤ (10 : ℝ) ^ (-4 : ℤ) := zpow_le_zpow_right₀ (by norm_num) (by omega)
      have e : (10 : ℝ) ^ (-4 : ℤ) = 1 / 10000 := by norm_num
      rw [e] at this; linarith
    have k := SqrtN.newton_step _ _ E1 E2 E3 _ _ (by linarith) hH0 hH1 hε0 hε1 hclose h1 h2 h3
    have b := SqrtN.bound_step p P hI.p3 n1 n2
    exact le_trans k (mul_le_mul_of_nonneg_right b (Real.sqrt_nonneg _))
  obtain ⟨c1, c2, c3, c4⟩ := SqrtN.close_bounds _ _ _ F1' F2' hH0 hH1 hclose
  generalize hs : Real.sqrt (((f x).toRat : ℚ) : ℝ) = s at hclose c3 c4
  have hss : s * s = (((f x).toRat : ℚ) : ℝ) := by
    rw [← hs]; exact Real.mul_self_sqrt (by linarith)
  obtain ⟨d1, d2⟩ := abs_le.1 hclose
  generalize (10 : ℝ) ^ (2 - (p : ℤ)) = H at hH0 hH1 hclose d1 d2
  have hA11 : ((A.toRat : ℚ) : ℝ) ≤ 11 * (((f x).toRat : ℚ) : ℝ) := by
    rw [← hss]; nlinarith
  have hF2A : (((f x).toRat : ℚ) : ℝ) ≤ 2 * ((A.toRat : ℚ) : ℝ) := by
    rw [← hss]; nlinarith
  have q1 : 9 / 100 ≤ A.toRat := by
    apply (Rat.cast_le (K := ℝ)).1; push_cast; exact c1
  have q2 : A.toRat ≤ 11 / 10 := by
    apply (Rat.cast_le (K := ℝ)).1; push_cast; exact c2
  have q3 : A.toRat ≤ 11 * (f x).toRat := by
    apply (Rat.cast_le (K := ℝ)).1; push_cast; exact hA11
  have q4 : (f x).toRat ≤ 2 * A.toRat := by
    apply (Rat.cast_le (K := ℝ)).1; push_cast; exact hF2A
  obtain ⟨r1, r2, r3, r4, e1, e2, e3, he1, he2, he3, hv⟩ :=
    round1_ok e hI.ed (f x) A P n1 (by omega) f1 (by omega) (by omega) (by omega) hI.pos (by have := hI.nd; omega)
      q1 q2 q3 q4
  refine ⟨r1, r3, by omega, by omega, n3, ?_⟩
  rw [hv]
  push_cast
  exact hnewton _ _ _ (cast_eps he1) (cast_eps he2) (cast_eps he3)

/-- the loop keeps the invariant and ends at `p = maxp`, given enough fuel (`p - 2` doubles every round) -/
theorem loop_inv (c : Ctx) (x : Dec) (h : Dom c x) : ∀ (fuel : Nat) (e : ED) (A : Dec) (p : Nat),
    Inv c x e A p → workp c x + 5 - 2 ≤ 2 ^ fuel * (p - 2) →
    Inv c x (sqrtLoop fuel e (f x) A p (workp c x + 5)).1 (sqrtLoop fuel e (f x) A p (workp c x + 5)).2
      (workp c x + 5) := by
  intro fuel
  induction fuel with
  | zero =>
    intro e A p hI hm
    have h3 := hI.p3
    have hpm := hI.pm
    have hp : p = workp c x + 5 := by simp only [Nat.pow_zero, Nat.one_mul] at hm; omega
    have e0 : sqrtLoop 0 e (f x) A p (workp c x + 5) = (e, A) := rfl
    rw [e0, ← hp]; exact hI
  | succ fuel ih =>
    intro e A p hI hm
    rw [sqrtLoop_succ]
    by_cases hp : p = workp c x + 5
    · have : (p == workp c x + 5) = true := by simpa using hp
      rw [this, if_pos rfl, ← hp]; exact hI
    · have : (p == workp c x + 5) = false := by simpa using hp
      rw [this]
      simp only [Bool.false_eq_true, if_false]
      apply ih _ _ _ (inv_step c x h e A p hI)
      have h3 := hI.p3
      have hpm := hI.pm
      have hk : 1 ≤ 2 ^ fuel := Nat.one_le_two_pow
      unfold nextP
      split_ifs with hgt
      · calc workp c x + 5 - 2 = 1 * (workp c x + 5 - 2) := by omega
          _ ≤ 2 ^ fuel * (workp c x + 5 - 2) := Nat.mul_le_mul_right _ hk
      · have e1 : 2 * p - 2 - 2 = 2 * (p - 2) := by omega
        rw [e1, ← Nat.mul_assoc, ← Nat.pow_succ]
        exact hm

/-- **the iterate when the loop ends**: no internal step failed, the iterate is a positive finite decimal of
at most `workp+5` digits in `[0.09, 1.1]`, within `δ = 10^(-workp-3)` of the square root of the scaled
operand `f ∈ [0.01, 1)`.

The domain needs `workp + 5 ≤ 99999` (`Dom.hd : workp c x + 6 ≤ 100000`).  With `workp + 5 = 100000` the
statement is FALSE: for `c = { prec := 99994, emax := 100000, emin := -100000 }`, `x = { coeff := 2 }`
(`workp = 99995`) `#eval` gives `(iter c x).1.failed = true`, `(iter c x).1.fl.sysUnderflow = true`,
`(iter c x).1.err = .sys`, the iterate having exponent `-100001`: in the last round the sum `f/a + a` has
100000 digits and a value below 1, hence exponent `-100000`; `mulOp` by `0.5` makes it `-100001` and
`Rounder.Round` passes that exponent to `setExponent`, whose summand check rejects everything below
`MinExponent = -100000` — `Context.Sqrt` returns "exponent out of range". -/
theorem iter_close (c : Ctx) (x : Dec) (h : Dom c x) :
    let it := iter c x
    let A : ℚ := it.2.toRat
    let F : ℚ := (f x).toRat
    let δ : ℚ := (10 : ℚ) ^ (-(workp c x : ℤ) - 3)
    it.1.failed = false ∧ it.2.form = .finite ∧ it.2.neg = false ∧
    ndigits it.2.coeff ≤ workp c x + 5 ∧
    9 / 100 ≤ A ∧ A ≤ 11 / 10 ∧ 1 / 100 ≤ F ∧ F < 1 ∧
    (A - δ) ^ 2 < F ∧ F < (A + δ) ^ 2 := by
  intro it
  dsimp only
  obtain ⟨w1, w2, w3⟩ := workp_facts c x
  have hd := h.hd
  have hI : Inv c x it.1 it.2 (workp c x + 5) := by
    apply loop_inv c x h 64 _ _ 3 (inv_init c x h)
    have : workp c x + 5 - 2 ≤ 2 ^ 17 := by norm_num; omega
    calc workp c x + 5 - 2 ≤ 2 ^ 17 := this
      _ ≤ 2 ^ 64 * (3 - 2) := by norm_num
  obtain ⟨F1, F2⟩ := F_range c x h
  have F1' : (1 / 100 : ℝ) ≤ (((f x).toRat : ℚ) : ℝ) := by have := (Rat.cast_le (K := ℝ)).2 F1; push_cast at this; exact this
  have F2' : (((f x).toRat : ℚ) : ℝ) < 1 := by have := (Rat.cast_lt (K := ℝ)).2 F2; push_cast at this; exact this
  have hH0 : (0 : ℝ) ≤ (10 : ℝ) ^ (2 - ((workp c x + 5 : ℕ) : ℤ)) := by positivity
  have hH1 : (10 : ℝ) ^ (2 - ((workp c x + 5 : ℕ) : ℤ)) ≤ 1 / 10 := by
    have : (10 : ℝ) ^ (2 - ((workp c x + 5 : ℕ) : ℤ)) ≤ (10 : ℝ) ^ (-1 : ℤ) :=
      zpow_le_zpow_right₀ (by norm_num) (by push_cast; omega)
    have e : (10 : ℝ) ^ (-1 : ℤ) = 1 / 10 := by norm_num
    rw [e] at this; exact this
  have hclose := hI.close
  obtain ⟨c1, c2, c3, c4⟩ := SqrtN.close_bounds _ _ _ F1' F2'.le hH0 hH1 hclose
  have q1 : 9 / 100 ≤ it.2.toRat := by
    apply (Rat.cast_le (K := ℝ)).1; push_cast; exact c1
  have q2 : it.2.toRat ≤ 11 / 10 := by
    apply (Rat.cast_le (K := ℝ)).1; push_cast; exact c2
  have hexp : (2 - ((workp c x + 5 : ℕ) : ℤ)) = -(workp c x : ℤ) - 3 := by push_cast; ring
  rw [hexp] at hclose hH0 hH1
  have hH2 : (10 : ℝ) ^ (-(workp c x : ℤ) - 3) ≤ 1 / 100 := by
    have : (10 : ℝ) ^ (-(workp c x : ℤ) - 3) ≤ (10 : ℝ) ^ (-2 : ℤ) :=
      zpow_le_zpow_right₀ (by norm_num) (by omega)
    have e : (10 : ℝ) ^ (-2 : ℤ) = 1 / 100 := by norm_num
    rw [e] at this; exact this
  have hs1 : Real.sqrt (((f x).toRat : ℚ) : ℝ) < 1 := by
    rw [show (1 : ℝ) = Real.sqrt 1 by simp]
    exact Real.sqrt_lt_sqrt (by linarith) F2'
  have hδpos : (0 : ℝ) < (10 : ℝ) ^ (-(workp c x : ℤ) - 3) := by positivity
  have hlt : |((it.2.toRat : ℚ) : ℝ) - Real.sqrt (((f x).toRat : ℚ) : ℝ)| < (10 : ℝ) ^ (-(workp c x : ℤ) - 3) := by
    have hs0 : 0 < Real.sqrt (((f x).toRat : ℚ) : ℝ) := by linarith
    calc _ ≤ (10 : ℝ) ^ (-(workp c x : ℤ) - 3) * Real.sqrt (((f x).toRat : ℚ) : ℝ) := hclose
      _ < (10 : ℝ) ^ (-(workp c x : ℤ) - 3) * 1 := mul_lt_mul_of_pos_left hs1 hδpos
      _ = _ := mul_one _
  obtain ⟨s1, s2⟩ := SqrtN.close_to_squares _ _ _ (by linarith) hδpos hlt (by linarith)
  refine ⟨hI.ed.not_failed, hI.pos.hf, hI.pos.hn, hI.nd, q1, q2, F1, F2, ?_, ?_⟩
  · apply (Rat.cast_lt (K := ℝ)).1; push_cast; exact s1
  · apply (Rat.cast_lt (K := ℝ)).1; push_cast; exact s2

end Apd.SqrtI

#print axioms Apd.SqrtI.iter_close
