import ApdVerif.Oracle.Roots
import Mathlib.Tactic.Ring
import Mathlib.Tactic.Linarith
import Mathlib.Tactic.NormNum
import Mathlib.Data.Nat.Sqrt
/-! # Helper lemmas for C11: the integer Newton iterations `isqrt` and `icbrt` are exact -/
namespace Apd.C11L
open Apd Apd.Oracle

/-! ## square root -/

/-- AM-GM: a Newton step from any positive `x` stays at or above the floor root -/
theorem sqrt_step_ge (n s x : Nat) (hx : 0 < x) (h1 : s * s ≤ n) : s ≤ (x + n / x) / 2 := by
  have hq : n < (n / x + 1) * x := by
    have := Nat.lt_succ_iff.mpr (Nat.le_refl (n / x))
    exact (Nat.div_lt_iff_lt_mul hx).mp this
  generalize n / x = q at *
  by_contra hc
  have hc' : x + q + 1 ≤ 2 * s := by omega
  have : (x + q + 1) * (x + q + 1) ≤ (2 * s) * (2 * s) := Nat.mul_le_mul hc' hc'
  nlinarith [sq_nonneg ((q : ℤ) + 1 - x)]

theorem isqrtAux_eq (n s : Nat) (hs0 : 0 < s) (h1 : s * s ≤ n) (h2 : n < (s + 1) * (s + 1)) :
    ∀ fuel x, s ≤ x → x - s < 2 ^ fuel → isqrtAux fuel n x = s := by
  intro fuel
  induction fuel with
  | zero => intro x hsx hd; simp only [isqrtAux]; simp at hd; omega
  | succ f ih =>
    intro x hsx hd
    have hx : 0 < x := by omega
    simp only [isqrtAux]
    have hge := sqrt_step_ge n s x hx h1
    have hq1 : n / x * x ≤ n := Nat.div_mul_le_self n x
    have hq2 : n < (n / x + 1) * x := by
      have := Nat.lt_succ_iff.mpr (Nat.le_refl (n / x))
      exact (Nat.div_lt_iff_lt_mul hx).mp this
    generalize n / x = q at *
    split
    · rename_i hlt
      apply ih _ hge
      -- q < x, so x*x > n, so x ≥ s+1, so q ≤ s
      have hqx : q < x := by omega
      have hxs : s + 1 ≤ x := by
        by_contra hc
        have : x = s := by omega
        subst this
        nlinarith
      have hqs : q ≤ s := by
        by_contra hc
        have : (s + 1) * (s + 1) ≤ q * x := Nat.mul_le_mul (by omega) hxs
        omega
      have : 2 ^ (f + 1) = 2 * 2 ^ f := by rw [Nat.pow_succ]; omega
      omega
    · rename_i hnlt
      have hqx : x ≤ q := by omega
      have hxx : x * x ≤ n := Nat.le_trans (Nat.mul_le_mul_right x hqx) hq1
      by_contra hc
      have : s + 1 ≤ x := by omega
      have : (s + 1) * (s + 1) ≤ x * x := Nat.mul_le_mul this this
      omega

theorem isqrt_eq (n s : Nat) (h1 : s * s ≤ n) (h2 : n < (s + 1) * (s + 1)) : isqrt n = s := by
  unfold isqrt
  split
  · rename_i h
    have : s ≤ 1 := by
      by_contra hc
      have : 2 * 2 ≤ s * s := Nat.mul_le_mul (by omega) (by omega)
      omega
    have hs01 : s = 0 ∨ s = 1 := by omega
    rcases hs01 with rfl | rfl <;> omega
  · rename_i h
    have hn : n ≠ 0 := by omega
    have hs0 : 0 < s := by
      by_contra hc
      have : s = 0 := by omega
      subst this; omega
    have hlog : n < 2 ^ (Nat.log2 n + 1) := Nat.lt_log2_self
    generalize Nat.log2 n = l at *
    have hx0 : s ≤ 2 ^ (l / 2 + 1) := by
      by_contra hc
      have hlt : 2 ^ (l / 2 + 1) ≤ s := by omega
      have : 2 ^ (l / 2 + 1) * 2 ^ (l / 2 + 1) ≤ s * s := Nat.mul_le_mul hlt hlt
      rw [← Nat.pow_add] at this
      have : 2 ^ (l + 1) ≤ 2 ^ (l / 2 + 1 + (l / 2 + 1)) := Nat.pow_le_pow_right (by decide) (by omega)
      omega
    apply isqrtAux_eq n s hs0 h1 h2 _ _ hx0
    have : 2 ^ (l / 2 + 1) < 2 ^ (2 * l + 8) := Nat.pow_lt_pow_right (by decide) (by omega)
    omega

/-! ## cube root -/

theorem exists_cbrt (n : Nat) : ∃ s, s * s * s ≤ n ∧ n < (s + 1) * (s + 1) * (s + 1) := by
  induction n with
  | zero => exact ⟨0, by simp⟩
  | succ n ih =>
    obtain ⟨s, h1, h2⟩ := ih
    by_cases h : n + 1 < (s + 1) * (s + 1) * (s + 1)
    · exact ⟨s, by omega, h⟩
    · refine ⟨s + 1, by omega, ?_⟩
      have : (s + 1) * (s + 1) * (s + 1) < (s + 1 + 1) * (s + 1 + 1) * (s + 1 + 1) := by nlinarith
      omega

theorem cube_mono {a b : Nat} (h : a ≤ b) : a * a * a ≤ b * b * b :=
  Nat.mul_le_mul (Nat.mul_le_mul h h) h

/-- AM-GM for the cube step -/
theorem cbrt_step_ge (n s x : Nat) (hx : 0 < x) (h1 : s * s * s ≤ n) :
    s ≤ (2 * x + n / (x * x)) / 3 := by
  have hxx : 0 < x * x := Nat.mul_pos hx hx
  have hq : n < (n / (x * x) + 1) * (x * x) := by
    have := Nat.lt_succ_iff.mpr (Nat.le_refl (n / (x * x)))
    exact (Nat.div_lt_iff_lt_mul hxx).mp this
  generalize n / (x * x) = q at *
  by_contra hc
  have hc' : 2 * x + q + 1 ≤ 3 * s := by omega
  -- (q+1) x² ≤ (3s - 2x) x² ≤ s³
  have hz : ((q : ℤ) + 1) ≤ 3 * s - 2 * x := by omega
  have hxz : (0 : ℤ) ≤ (x : ℤ) * x := by positivity
  have h3 : ((q : ℤ) + 1) * (x * x) ≤ (3 * s - 2 * x) * (x * x) := mul_le_mul_of_nonneg_right hz hxz
  have h4 : (3 * (s : ℤ) - 2 * x) * (x * x) ≤ s * s * s := by
    have : (s : ℤ) * s * s - (3 * s - 2 * x) * (x * x) = (s - x) * (s - x) * (s + 2 * x) := by ring
    have h5 : (0 : ℤ) ≤ (s - x) * (s - x) * (s + 2 * x) :=
      mul_nonneg (mul_self_nonneg _) (by positivity)
    linarith
  have h6 : ((n : ℤ)) < ((q : ℤ) + 1) * (x * x) := by exact_mod_cast hq
  have h7 : ((s : ℤ)) * s * s ≤ n := by exact_mod_cast h1
  linarith

theorem icbrtAux_eq (n s : Nat) (hs0 : 0 < s) (h1 : s * s * s ≤ n)
    (h2 : n < (s + 1) * (s + 1) * (s + 1)) :
    ∀ fuel x, s ≤ x → (x - s) * 2 ^ fuel < 3 ^ fuel → icbrtAux fuel n x = s := by
  intro fuel
  induction fuel with
  | zero => intro x hsx hd; simp only [icbrtAux]; simp at hd; omega
  | succ f ih =>
    intro x hsx hd
    have hx : 0 < x := by omega
    have hxx : 0 < x * x := Nat.mul_pos hx hx
    simp only [icbrtAux]
    have hge := cbrt_step_ge n s x hx h1
    have hq1 : n / (x * x) * (x * x) ≤ n := Nat.div_mul_le_self n (x * x)
    have hq2 : n < (n / (x * x) + 1) * (x * x) := by
      have := Nat.lt_succ_iff.mpr (Nat.le_refl (n / (x * x)))
      exact (Nat.div_lt_iff_lt_mul hxx).mp this
    generalize n / (x * x) = q at *
    split
    · rename_i hlt
      apply ih _ hge
      have hqx : q < x := by omega
      have hxs : s + 1 ≤ x := by
        by_contra hc
        have : x = s := by omega
        subst this
        have : (q + 1) * (x * x) ≤ x * (x * x) := Nat.mul_le_mul_right _ (by omega)
        have : x * (x * x) = x * x * x := by ring
        omega
      have hqs : q ≤ s := by
        by_contra hc
        have h5 : (s + 1) * (s + 1) ≤ x * x := Nat.mul_le_mul hxs hxs
        have : (s + 1) * ((s + 1) * (s + 1)) ≤ q * (x * x) := Nat.mul_le_mul (by omega) h5
        have : (s + 1) * ((s + 1) * (s + 1)) = (s + 1) * (s + 1) * (s + 1) := by ring
        omega
      have e2 : 2 ^ (f + 1) = 2 * 2 ^ f := by rw [Nat.pow_succ]; omega
      have e3 : 3 ^ (f + 1) = 3 * 3 ^ f := by rw [Nat.pow_succ]; omega
      rw [e2, e3] at hd
      -- y - s ≤ 2 (x - s) / 3
      have hy : ((2 * x + q) / 3 - s) * 3 ≤ 2 * (x - s) := by omega
      have : ((2 * x + q) / 3 - s) * 3 * 2 ^ f ≤ 2 * (x - s) * 2 ^ f := Nat.mul_le_mul_right _ hy
      have e4 : ((2 * x + q) / 3 - s) * 3 * 2 ^ f = 3 * (((2 * x + q) / 3 - s) * 2 ^ f) := by ring
      have e5 : 2 * (x - s) * 2 ^ f = (x - s) * (2 * 2 ^ f) := by ring
      omega
    · rename_i hnlt
      have hqx : x ≤ q := by omega
      have hxx : x * (x * x) ≤ n := Nat.le_trans (Nat.mul_le_mul_right _ hqx) hq1
      by_contra hc
      have : s + 1 ≤ x := by omega
      have := cube_mono this
      have : x * (x * x) = x * x * x := by ring
      omega

theorem icbrt_eq (n s : Nat) (h1 : s * s * s ≤ n) (h2 : n < (s + 1) * (s + 1) * (s + 1)) :
    icbrt n = s := by
  unfold icbrt
  split
  · rename_i h
    have : s ≤ 1 := by
      by_contra hc
      have := cube_mono (show 2 ≤ s by omega)
      omega
    have hs01 : s = 0 ∨ s = 1 := by omega
    rcases hs01 with rfl | rfl <;> omega
  · rename_i h
    have hn : n ≠ 0 := by omega
    have hs0 : 0 < s := by
      by_contra hc
      have : s = 0 := by omega
      subst this; omega
    have hlog : n < 2 ^ (Nat.log2 n + 1) := Nat.lt_log2_self
    generalize Nat.log2 n = l at *
    have hx0 : s ≤ 2 ^ (l / 3 + 1) := by
      by_contra hc
      have hlt : 2 ^ (l / 3 + 1) ≤ s := by omega
      have := cube_mono hlt
      rw [← Nat.pow_add, ← Nat.pow_add] at this
      have : 2 ^ (l + 1) ≤ 2 ^ (l / 3 + 1 + (l / 3 + 1) + (l / 3 + 1)) :=
        Nat.pow_le_pow_right (by decide) (by omega)
      omega
    have hr : icbrtAux (2 * l + 8) n (2 ^ (l / 3 + 1)) = s := by
      apply icbrtAux_eq n s hs0 h1 h2 _ _ hx0
      have a1 : (2 ^ (l / 3 + 1) - s) * 2 ^ (2 * l + 8) ≤ 2 ^ (l / 3 + 1) * 2 ^ (2 * l + 8) :=
        Nat.mul_le_mul_right _ (Nat.sub_le _ _)
      rw [← Nat.pow_add] at a1
      have a2 : 2 ^ (l / 3 + 1 + (2 * l + 8)) ≤ 2 ^ (3 * (l + 4)) :=
        Nat.pow_le_pow_right (by decide) (by omega)
      have a3 : 2 ^ (3 * (l + 4)) = 8 ^ (l + 4) := by rw [Nat.pow_mul]
      have a4 : 3 ^ (2 * l + 8) = 9 ^ (l + 4) := by
        rw [show 2 * l + 8 = 2 * (l + 4) by omega, Nat.pow_mul]
      have a5 : 8 ^ (l + 4) < 9 ^ (l + 4) := Nat.pow_lt_pow_left (by decide) (by omega)
      omega
    simp only [hr]
    rw [if_neg (by omega), if_neg (by omega)]

/-! ## nearest-rounding arithmetic for `specSqrt` -/

theorem lin_facts (n den : Nat) :
    (2 * n + 1) * (2 * n + 1) * den = 4 * (n * n * den) + 4 * (n * den) + den ∧
    (n + 1) * (n + 1) * den = n * n * den + 2 * (n * den) + den ∧
    (2 * n + 3) * (2 * n + 3) * den = 4 * (n * n * den) + 12 * (n * den) + 9 * den ∧
    (1 ≤ n → (2 * n - 1) * (2 * n - 1) * den + 4 * (n * den) = 4 * (n * n * den) + den) ∧
    (1 ≤ n → den ≤ n * den) ∧ (n = 0 → n * n * den = 0 ∧ n * den = 0) := by
  refine ⟨by ring, by ring, by ring, ?_, ?_, ?_⟩
  · intro h
    obtain ⟨k, rfl⟩ : ∃ k, n = k + 1 := ⟨n - 1, by omega⟩
    have : 2 * (k + 1) - 1 = 2 * k + 1 := by omega
    rw [this]; ring
  · intro h; exact Nat.le_mul_of_pos_left _ h
  · rintro rfl; simp

/-- the case `m = n` -/
theorem nearest_same (n num den : Nat) (hd : 0 < den) (h1 : n * n * den ≤ num)
    (h2 : num < (n + 1) * (n + 1) * den)
    (hcase : n * n * den = num ∨ 4 * num < (2 * n + 1) * (2 * n + 1) * den ∨
      (4 * num = (2 * n + 1) * (2 * n + 1) * den ∧ n % 2 = 0)) :
    ((2 * n - 1) * (2 * n - 1) * den ≤ 4 * num ∨ n = 0) ∧
    4 * num ≤ (2 * n + 1) * (2 * n + 1) * den ∧
    (4 * num = (2 * n + 1) * (2 * n + 1) * den → n % 2 = 0) ∧
    (n ≠ 0 → (2 * n - 1) * (2 * n - 1) * den = 4 * num → n % 2 = 0) := by
  obtain ⟨e1, e2, _, e4, e5, e6⟩ := lin_facts n den
  rw [e1] at hcase ⊢
  rw [e2] at h2
  generalize (2 * n - 1) * (2 * n - 1) * den = T at *
  generalize n * n * den = A at *
  generalize n * den = B at *
  refine ⟨?_, ?_, ?_, ?_⟩
  · by_cases hn : n = 0
    · exact Or.inr hn
    · left; have := e4 (by omega); have := e5 (by omega); omega
  · omega
  · intro h; omega
  · intro hn h; have := e4 (by omega); have := e5 (by omega); omega

/-- the case `m = n + 1` -/
theorem nearest_succ (n num den : Nat) (hd : 0 < den) (h1 : n * n * den ≤ num)
    (h2 : num < (n + 1) * (n + 1) * den)
    (hcase : (2 * n + 1) * (2 * n + 1) * den < 4 * num ∨
      (4 * num = (2 * n + 1) * (2 * n + 1) * den ∧ n % 2 = 1)) :
    ((2 * (n + 1) - 1) * (2 * (n + 1) - 1) * den ≤ 4 * num ∨ n + 1 = 0) ∧
    4 * num ≤ (2 * (n + 1) + 1) * (2 * (n + 1) + 1) * den ∧
    (4 * num = (2 * (n + 1) + 1) * (2 * (n + 1) + 1) * den → (n + 1) % 2 = 0) ∧
    (n + 1 ≠ 0 → (2 * (n + 1) - 1) * (2 * (n + 1) - 1) * den = 4 * num → (n + 1) % 2 = 0) ∧
    (n + 1) * (n + 1) * den ≠ num := by
  obtain ⟨e1, e2, e3, _, _, _⟩ := lin_facts n den
  have a1 : 2 * (n + 1) - 1 = 2 * n + 1 := by omega
  have a2 : 2 * (n + 1) + 1 = 2 * n + 3 := by omega
  rw [a1, a2, e3, e1, e2]
  rw [e1] at hcase
  rw [e2] at h2
  generalize n * n * den = A at *
  generalize n * den = B at *
  refine ⟨?_, ?_, ?_, ?_, ?_⟩
  · left; omega
  · omega
  · intro h; omega
  · intro _ h; omega
  · omega

/-- the rounding decision of `specSqrt`, as pure arithmetic -/
theorem nearest_core (n num den : Nat) (hd : 0 < den) (h1 : n * n * den ≤ num)
    (h2 : num < (n + 1) * (n + 1) * den) :
    let exact := n * n * den == num
    let half := compare (4 * num) ((2 * n + 1) * (2 * n + 1) * den)
    let m := if exact then n else if specAddOne .halfEven n false half then n + 1 else n
    ((2 * m - 1) * (2 * m - 1) * den ≤ 4 * num ∨ m = 0) ∧
    4 * num ≤ (2 * m + 1) * (2 * m + 1) * den ∧
    (4 * num = (2 * m + 1) * (2 * m + 1) * den → m % 2 = 0) ∧
    (m ≠ 0 → (2 * m - 1) * (2 * m - 1) * den = 4 * num → m % 2 = 0) ∧
    ((!exact) = false ↔ m * m * den = num) := by
  intro exact half m
  by_cases he : n * n * den = num
  · have hex : exact = true := by simp [exact, he]
    have hm : m = n := by simp [m, hex]
    rw [hm, hex]
    obtain ⟨g1, g2, g3, g4⟩ := nearest_same n num den hd h1 h2 (Or.inl he)
    exact ⟨g1, g2, g3, g4, by simp [he]⟩
  · have hex : exact = false := by simp [exact, he]
    rcases Nat.lt_trichotomy (4 * num) ((2 * n + 1) * (2 * n + 1) * den) with hlt | heq | hgt
    · have hh : half = .lt := compare_lt_iff_lt.mpr hlt
      have hm : m = n := by simp [m, hex, hh, specAddOne]
      rw [hm, hex]
      obtain ⟨g1, g2, g3, g4⟩ := nearest_same n num den hd h1 h2 (Or.inr (Or.inl hlt))
      exact ⟨g1, g2, g3, g4, by simp [he]⟩
    · have hh : half = .eq := compare_eq_iff_eq.mpr heq
      by_cases hp : n % 2 = 1
      · have hm : m = n + 1 := by simp [m, hex, hh, specAddOne, hp]
        rw [hm, hex]
        obtain ⟨g1, g2, g3, g4, g5⟩ := nearest_succ n num den hd h1 h2 (Or.inr ⟨heq, hp⟩)
        exact ⟨g1, g2, g3, g4, by simp [g5]⟩
      · have hm : m = n := by simp [m, hex, hh, specAddOne, hp]
        rw [hm, hex]
        obtain ⟨g1, g2, g3, g4⟩ :=
          nearest_same n num den hd h1 h2 (Or.inr (Or.inr ⟨heq, by omega⟩))
        exact ⟨g1, g2, g3, g4, by simp [he]⟩
    · have hh : half = .gt := compare_gt_iff_gt.mpr hgt
      have hm : m = n + 1 := by simp [m, hex, hh, specAddOne]
      rw [hm, hex]
      obtain ⟨g1, g2, g3, g4, g5⟩ := nearest_succ n num den hd h1 h2 (Or.inl hgt)
      exact ⟨g1, g2, g3, g4, by simp [g5]⟩

theorem ite_inf {b : Bool} {A B : SpecOut} (hA : A.inf = true)
    (h : (if b then A else B).inf = false) : (if b then A else B) = B := by
  cases b
  · simp
  · simp [hA] at h

/-- the fields of a non-overflowing `specSqrt` -/
theorem specSqrt_fields (c : Ctx) (x : Dec) :
    let q : Int := max (fdiv2 ((ndigits x.coeff : Int) - 1 + x.exp) - (c.prec : Int) + 1)
      (c.emin - (c.prec : Int) + 1)
    let sh := x.exp - 2 * q
    let num := if sh ≥ 0 then x.coeff * 10 ^ sh.toNat else x.coeff
    let den := if sh ≥ 0 then 1 else 10 ^ (-sh).toNat
    let n := isqrt (num / den)
    let exact := n * n * den == num
    let half := compare (4 * num) ((2 * n + 1) * (2 * n + 1) * den)
    let m := if exact then n else if specAddOne .halfEven n false half then n + 1 else n
    (specSqrt c x).inf = false →
    (specSqrt c x).m = m ∧ (specSqrt c x).q = q ∧ (specSqrt c x).inexact = !exact := by
  intro q sh num den n exact half m h
  have key : specSqrt c x = { m := m, q := q, inexact := !exact, subnormal := _ } :=
    ite_inf rfl h
  rw [key]
  exact ⟨rfl, rfl, rfl⟩

end Apd.C11L
