import ApdVerif.Model.Text
import ApdVerif.Spec.Grammar
import ApdVerif.Spec.Defs
import ApdVerif.Lemmas.Digits
import Mathlib.Tactic.SplitIfs
import Mathlib.Tactic.Linarith
/-!
# Lemmas for C13 / C14 (text layer)
-/
namespace Apd.TextL
open Apd Apd.Text

/-! ## characters -/

theorem isDigit_toLower {c : Char} (h : c.isDigit = true) : c.toLower = c := by
  have h' := Char.isDigit_iff_toNat.mp h
  unfold Char.toLower
  split
  · rename_i hh
    exfalso
    have h1 : c.val.toNat = c.toNat := rfl
    obtain ⟨a, b⟩ := hh
    have a' : 'A'.val.toNat ≤ c.val.toNat := a
    simp at h' a'
    omega
  · rfl

theorem isDigit_ne {c x : Char} (h : c.isDigit = true) (hx : x.isDigit = false) : c ≠ x := by
  intro e; subst e; simp [h] at hx

/-! ## natDigits -/

theorem natDigits_ne_nil (n : Nat) : natDigits n ≠ [] := Nat.toDigits_ne_nil

theorem natDigits_isDigit {n : Nat} {c : Char} (h : c ∈ natDigits n) : c.isDigit = true :=
  Nat.isDigit_of_mem_toDigits (by decide) (by decide) h

theorem natDigits_all (n : Nat) : (natDigits n).all Char.isDigit = true := by
  rw [List.all_eq_true]; intro c hc; exact natDigits_isDigit hc

theorem natDigits_val (n : Nat) : digitsVal (natDigits n) = n := Nat.ofDigitChars_ten_toDigits

theorem natDigits_length (n : Nat) : (natDigits n).length = ndigits n := by
  by_cases h0 : n = 0
  · subst h0; decide
  · have hn : 0 < n := Nat.pos_of_ne_zero h0
    have hpos : 0 < (natDigits n).length := Nat.length_toDigits_pos
    have h1 := ndigits_pos n
    have key : ∀ k, 0 < k → ((natDigits n).length ≤ k ↔ ndigits n ≤ k) := by
      intro k hk
      rw [ndigits_le_iff n k hn hk]
      exact Nat.length_toDigits_le_iff (by decide) hk
    have a := (key (natDigits n).length hpos).1 (Nat.le_refl _)
    have b := (key (ndigits n) h1).2 (Nat.le_refl _)
    omega

theorem natDigits_zero : natDigits 0 = ['0'] := by decide

/-! ## digit strings -/

/-- every character is an ASCII digit -/
def Digs (s : List Char) : Prop := ∀ c ∈ s, c.isDigit = true

theorem Digs.nil : Digs [] := by intro c hc; simp at hc
theorem Digs.append {a b : List Char} (ha : Digs a) (hb : Digs b) : Digs (a ++ b) := by
  intro c hc; rcases List.mem_append.mp hc with h | h
  · exact ha c h
  · exact hb c h
theorem Digs.cons {c : Char} {a : List Char} (hc : c.isDigit = true) (ha : Digs a) : Digs (c :: a) := by
  intro x hx; rcases List.mem_cons.mp hx with h | h
  · rw [h]; exact hc
  · exact ha x h
theorem Digs.head {c : Char} {a : List Char} (h : Digs (c :: a)) : c.isDigit = true := h c (by simp)
theorem Digs.tail {c : Char} {a : List Char} (h : Digs (c :: a)) : Digs a := fun x hx => h x (by simp [hx])
theorem Digs.take {a : List Char} (h : Digs a) (n : Nat) : Digs (a.take n) := fun x hx => h x (List.mem_of_mem_take hx)
theorem Digs.drop {a : List Char} (h : Digs a) (n : Nat) : Digs (a.drop n) := fun x hx => h x (List.mem_of_mem_drop hx)
theorem Digs.zeros (n : Nat) : Digs (zeros n) := by
  intro c hc; simp [Text.zeros] at hc; rw [hc.2]; decide
theorem Digs.natDigits (n : Nat) : Digs (natDigits n) := fun _ hc => natDigits_isDigit hc
theorem Digs.all {a : List Char} (h : Digs a) : a.all Char.isDigit = true := by
  rw [List.all_eq_true]; exact h
theorem Digs.of_all {a : List Char} (h : a.all Char.isDigit = true) : Digs a := by
  rw [List.all_eq_true] at h; exact h
theorem Digs.not_mem {a : List Char} (h : Digs a) {x : Char} (hx : x.isDigit = false) : x ∉ a := by
  intro hm; have := h x hm; simp [this] at hx

theorem Digs.allDigits {a : List Char} (h : Digs a) (hne : a ≠ []) : allDigits a = true := by
  simp [Text.allDigits, h.all, hne]

theorem Digs.asciiLower {a : List Char} (h : Digs a) : asciiLower a = a := by
  unfold Text.asciiLower
  induction a with
  | nil => rfl
  | cons c t ih => simp [isDigit_toLower h.head, ih h.tail]

theorem asciiLower_append (a b : List Char) : asciiLower (a ++ b) = asciiLower a ++ asciiLower b := by
  simp [Text.asciiLower]
theorem asciiLower_cons (c : Char) (b : List Char) : asciiLower (c :: b) = c.toLower :: asciiLower b := by
  simp [Text.asciiLower]

/-! ## `consumePrefix`, `splitSign`, `splitAtFirst` -/

theorem consumePrefix_cons_ne {x c : Char} (p s : List Char) (h : x ≠ c) : consumePrefix (x :: p) (c :: s) = none := by
  simp [consumePrefix, h]

theorem consumePrefix_cons_eq (x : Char) (p s : List Char) : consumePrefix (x :: p) (x :: s) = consumePrefix p s := by
  simp [consumePrefix]

theorem consumePrefix_eq_some {p s t : List Char} : consumePrefix p s = some t ↔ s = p ++ t := by
  induction p generalizing s with
  | nil => simp [consumePrefix, eq_comm]
  | cons x p ih =>
    cases s with
    | nil => simp [consumePrefix]
    | cons y s =>
      simp only [consumePrefix]
      by_cases h : x = y
      · subst h; simp [ih]
      · simp [h]; intro hh; exact absurd hh.symm h

theorem splitSign_minus (t : List Char) : splitSign ('-' :: t) = (true, t) := by
  simp [splitSign, consumePrefix]
theorem splitSign_plus (t : List Char) : splitSign ('+' :: t) = (false, t) := by
  simp [splitSign, consumePrefix]
theorem splitSign_other {c : Char} (t : List Char) (h1 : c ≠ '-') (h2 : c ≠ '+') : splitSign (c :: t) = (false, c :: t) := by
  simp [splitSign, consumePrefix, Ne.symm h1, Ne.symm h2]
theorem splitSign_nil : splitSign [] = (false, []) := by simp [splitSign, consumePrefix]
theorem startsWithSign_other {c : Char} (t : List Char) (h1 : c ≠ '-') (h2 : c ≠ '+') : startsWithSign (c :: t) = false := by
  simp [startsWithSign, consumePrefix, Ne.symm h1, Ne.symm h2]

theorem splitAtFirst_not_mem {c : Char} {s : List Char} (h : c ∉ s) : splitAtFirst c s = none := by
  induction s with
  | nil => rfl
  | cons x xs ih =>
    have hx : x ≠ c := fun e => h (by simp [e])
    have hxs : c ∉ xs := fun e => h (by simp [e])
    simp [splitAtFirst, hx, ih hxs]

theorem splitAtFirst_append {c : Char} {a : List Char} (b : List Char) (h : c ∉ a) :
    splitAtFirst c (a ++ c :: b) = some (a, b) := by
  induction a with
  | nil => simp [splitAtFirst]
  | cons x xs ih =>
    have hx : x ≠ c := fun e => h (by simp [e])
    have hxs : c ∉ xs := fun e => h (by simp [e])
    simp [splitAtFirst, hx, ih hxs]

/-! ## `parseInt32` on what `strconv.AppendInt` wrote -/

theorem digit_ne_minus {c : Char} (h : c.isDigit = true) : c ≠ '-' := isDigit_ne h (by decide)
theorem digit_ne_plus {c : Char} (h : c.isDigit = true) : c ≠ '+' := isDigit_ne h (by decide)

theorem parseInt32_plus (n : Nat) (h : n ≤ 2147483647) : parseInt32 ('+' :: natDigits n) = some (n : Int) := by
  simp [parseInt32, splitSign_plus, (Digs.natDigits n).allDigits (natDigits_ne_nil n), natDigits_val, h]

theorem parseInt32_minus (n : Nat) (h : n ≤ 2147483648) : parseInt32 ('-' :: natDigits n) = some (-(n : Int)) := by
  simp [parseInt32, splitSign_minus, (Digs.natDigits n).allDigits (natDigits_ne_nil n), natDigits_val, h]

/-! ## `parseNumeric` in two stages -/

/-- the second half of `parseNumeric`: the point and the mantissa -/
def finishMant (neg : Bool) (m : List Char) (exp10 : Int) : Option (Dec × Int) :=
  let p : List Char × Int :=
    match splitAtFirst '.' m with
    | some (a, b) => (a ++ b, exp10 - (b.length : Int))
    | none => (m, exp10)
  if startsWithSign p.1 then none
  else if allDigits p.1 then
    some ({ form := .finite, neg := neg, exp := 0, coeff := digitsVal p.1 }, p.2)
  else none

theorem parseNumeric_eq (neg : Bool) (s : List Char) :
    parseNumeric neg s =
      match splitAtFirst 'e' s with
      | some (m, e) => (match parseInt32 e with | some x => finishMant neg m x | none => none)
      | none => finishMant neg s 0 := by
  unfold parseNumeric finishMant
  cases h : splitAtFirst 'e' s with
  | none => rfl
  | some me =>
    obtain ⟨m, e⟩ := me
    simp only []
    cases h2 : parseInt32 e with
    | none => rfl
    | some x => rfl

theorem startsWithSign_digs {m : List Char} (h : Digs m) : startsWithSign m = false := by
  cases m with
  | nil => simp [startsWithSign, consumePrefix]
  | cons c t => exact startsWithSign_other t (digit_ne_minus h.head) (digit_ne_plus h.head)

theorem finishMant_nodot (neg : Bool) {m : List Char} (x : Int) (h : Digs m) (hne : m ≠ []) :
    finishMant neg m x = some ({ form := .finite, neg := neg, exp := 0, coeff := digitsVal m }, x) := by
  unfold finishMant
  rw [splitAtFirst_not_mem (h.not_mem (by decide))]
  simp [startsWithSign_digs h, h.allDigits hne]

theorem finishMant_dot (neg : Bool) {a b : List Char} (x : Int) (ha : Digs a) (hb : Digs b) (hne : a ++ b ≠ []) :
    finishMant neg (a ++ '.' :: b) x =
      some ({ form := .finite, neg := neg, exp := 0, coeff := digitsVal (a ++ b) }, x - (b.length : Int)) := by
  unfold finishMant
  rw [splitAtFirst_append b (ha.not_mem (by decide))]
  have hab := ha.append hb
  simp only []
  rw [startsWithSign_digs hab, hab.allDigits hne]
  simp

theorem parseNumeric_exp (neg : Bool) {m : List Char} (e : List Char) (hm : 'e' ∉ m) :
    parseNumeric neg (m ++ 'e' :: e) =
      match parseInt32 e with | some x => finishMant neg m x | none => none := by
  rw [parseNumeric_eq, splitAtFirst_append e hm]

theorem parseNumeric_noexp (neg : Bool) {m : List Char} (hm : 'e' ∉ m) :
    parseNumeric neg m = finishMant neg m 0 := by
  rw [parseNumeric_eq, splitAtFirst_not_mem hm]

/-! ## values of digit strings -/

theorem digitsVal_append_zeros (ds : List Char) (n : Nat) : digitsVal (ds ++ zeros n) = digitsVal ds * 10 ^ n := by
  unfold digitsVal Text.zeros
  rw [Nat.ofDigitChars_append, Nat.ofDigitChars_replicate_zero, Nat.mul_comm]

theorem digitsVal_zero_zeros_append (n : Nat) (ds : List Char) : digitsVal ('0' :: (zeros n ++ ds)) = digitsVal ds := by
  unfold digitsVal Text.zeros
  rw [Nat.ofDigitChars_cons, Nat.ofDigitChars_append, Nat.ofDigitChars_replicate_zero]
  simp

/-! ## parsing what `fmtE` / `fmtF` wrote -/

theorem parseNumeric_fmtE (neg : Bool) (d : Dec) {ds : List Char} (h : Digs ds) (hne : ds ≠ [])
    (hlo : -2147483648 ≤ d.exp + (ds.length : Int) - 1) (hhi : d.exp + (ds.length : Int) - 1 ≤ 2147483647) :
    parseNumeric neg (fmtE 'e' d ds) =
      some ({ form := .finite, neg := neg, exp := 0, coeff := digitsVal ds }, d.exp) := by
  cases ds with
  | nil => exact absurd rfl hne
  | cons c rest =>
    unfold fmtE
    simp only []
    have hc := h.head
    have hr := h.tail
    have hm : 'e' ∉ (if rest.isEmpty = true then [c] else c :: '.' :: rest) := by
      have h1 : ('e' : Char) ≠ c := (isDigit_ne hc (by decide)).symm
      have h2 : 'e' ∉ rest := hr.not_mem (by decide)
      split <;> simp [h1, h2]
    rw [parseNumeric_exp neg _ hm]
    generalize hadj : d.exp + ((c :: rest).length : Int) - 1 = adj at *
    have hx : parseInt32 (if adj < 0 then '-' :: natDigits (-adj).toNat else '+' :: natDigits adj.toNat) = some adj := by
      by_cases ha : adj < 0
      · rw [if_pos ha, parseInt32_minus _ (by omega)]
        congr 1; omega
      · rw [if_neg ha, parseInt32_plus _ (by omega)]
        congr 1; omega
    rw [hx]
    simp only []
    cases rest with
    | nil =>
      simp only [List.isEmpty_nil, if_true]
      rw [finishMant_nodot neg adj h (by simp)]
      simp at hadj
      rw [← hadj]
    | cons c2 r2 =>
      simp only [List.isEmpty_cons, if_false, Bool.false_eq_true]
      have : c :: '.' :: c2 :: r2 = [c] ++ '.' :: (c2 :: r2) := rfl
      rw [this, finishMant_dot neg adj (Digs.cons hc Digs.nil) hr (by simp)]
      simp only [List.length_cons] at hadj
      simp only [List.singleton_append, List.length_cons]
      congr 2
      push_cast at hadj ⊢
      omega

theorem parseNumeric_fmtF (neg : Bool) (d : Dec) {ds : List Char} (h : Digs ds) (hne : ds ≠ []) :
    parseNumeric neg (fmtF d ds) =
      some ({ form := .finite, neg := neg, exp := 0,
              coeff := if d.exp < 0 then digitsVal ds else digitsVal ds * 10 ^ d.exp.toNat },
            if d.exp < 0 then d.exp else 0) := by
  have hL : 0 < ds.length := List.length_pos_iff.mpr hne
  unfold fmtF
  by_cases he : d.exp < 0
  · simp only [he, if_true]
    by_cases hl : -d.exp - (ds.length : Int) ≥ 0
    · rw [if_pos hl]
      have hn : ((-d.exp - (ds.length : Int)).toNat : Int) + (ds.length : Int) = -d.exp := by omega
      generalize (-d.exp - (ds.length : Int)).toNat = n at hn
      have hz := Digs.zeros n
      have hno : 'e' ∉ '0' :: '.' :: (zeros n ++ ds) := by
        have := (hz.append h).not_mem (x := 'e') (by decide)
        simp only [List.mem_cons, not_or]
        exact ⟨by decide, by decide, this⟩
      rw [parseNumeric_noexp neg hno]
      have : '0' :: '.' :: (zeros n ++ ds) = ['0'] ++ '.' :: (zeros n ++ ds) := rfl
      rw [this, finishMant_dot neg 0 (Digs.cons (by decide) Digs.nil) (hz.append h) (by simp)]
      simp only [List.singleton_append, digitsVal_zero_zeros_append]
      congr 2
      simp [Text.zeros]
      omega
    · rw [if_neg hl]
      have hn : ((-(-d.exp - (ds.length : Int))).toNat : Int) = (ds.length : Int) + d.exp := by omega
      generalize (-(-d.exp - (ds.length : Int))).toNat = n at hn
      have ht := h.take n
      have hd := h.drop n
      have hno : 'e' ∉ List.take n ds ++ '.' :: List.drop n ds := by
        have h1 := ht.not_mem (x := 'e') (by decide)
        have h2 := hd.not_mem (x := 'e') (by decide)
        simp only [List.mem_append, List.mem_cons, not_or]
        exact ⟨h1, by decide, h2⟩
      rw [parseNumeric_noexp neg hno, finishMant_dot neg 0 ht hd (by simp [hne])]
      simp only [List.take_append_drop]
      congr 2
      simp
      omega
  · simp only [he, if_false]
    have hz := Digs.zeros d.exp.toNat
    have hno : 'e' ∉ ds ++ zeros d.exp.toNat := (h.append hz).not_mem (by decide)
    rw [parseNumeric_noexp neg hno, finishMant_nodot neg 0 (h.append hz) (by simp [hne]), digitsVal_append_zeros]

/-! ## `parseL` on a signed body that starts with a digit -/

theorem asciiLower_fixed {s : List Char} (h : ∀ c ∈ s, c.toLower = c) : asciiLower s = s := by
  unfold Text.asciiLower
  induction s with
  | nil => rfl
  | cons c t ih =>
    simp only [List.map_cons]
    rw [h c (by simp), ih (fun x hx => h x (by simp [hx]))]

theorem parseL_signed_digit (neg : Bool) {c : Char} (t : List Char) (hc : c.isDigit = true) :
    parseL ((if neg then ['-'] else []) ++ c :: t) = parseNumeric neg (c :: asciiLower t) := by
  have h1 := digit_ne_minus hc
  have h2 := digit_ne_plus hc
  have hs : splitSign ((if neg then ['-'] else []) ++ c :: t) = (neg, c :: t) := by
    cases neg
    · simpa using splitSign_other t h1 h2
    · simpa using splitSign_minus (c :: t)
  unfold parseL
  simp only [hs, asciiLower_cons, isDigit_toLower hc]
  have hi : c ≠ 'i' := isDigit_ne hc (by decide)
  have hn : c ≠ 'n' := isDigit_ne hc (by decide)
  have hss : c ≠ 's' := isDigit_ne hc (by decide)
  rw [startsWithSign_other _ h1 h2]
  simp [hi, consumePrefix_cons_ne _ _ hn.symm, consumePrefix_cons_ne _ _ hss.symm]

/-- the body starts with an ASCII digit -/
def DigitHead (body : List Char) : Prop := ∃ c t, body = c :: t ∧ c.isDigit = true

theorem parseL_signed_body (neg : Bool) {body : List Char} (h : DigitHead body) :
    parseL ((if neg then ['-'] else []) ++ body) = parseNumeric neg (asciiLower body) := by
  obtain ⟨c, t, rfl, hc⟩ := h
  rw [parseL_signed_digit neg t hc, asciiLower_cons, isDigit_toLower hc]

theorem fmtE_head (fmt : Char) (d : Dec) {ds : List Char} (h : Digs ds) (hne : ds ≠ []) : DigitHead (fmtE fmt d ds) := by
  cases ds with
  | nil => exact absurd rfl hne
  | cons c rest =>
    refine ⟨c, ?_, ?_, h.head⟩
    · exact (if rest.isEmpty then [] else '.' :: rest) ++ fmt ::
        (if d.exp + ((c :: rest).length : Int) - 1 < 0 then '-' :: natDigits (-(d.exp + ((c :: rest).length : Int) - 1)).toNat
         else '+' :: natDigits (d.exp + ((c :: rest).length : Int) - 1).toNat)
    · unfold fmtE
      cases rest <;> simp

theorem fmtF_head (d : Dec) {ds : List Char} (h : Digs ds) (hne : ds ≠ []) : DigitHead (fmtF d ds) := by
  cases ds with
  | nil => exact absurd rfl hne
  | cons c rest =>
    unfold fmtF
    by_cases he : d.exp < 0
    · simp only [he, if_true]
      by_cases hl : -d.exp - ((c :: rest).length : Int) ≥ 0
      · rw [if_pos hl]; exact ⟨'0', _, rfl, by decide⟩
      · rw [if_neg hl]
        have : ∃ n, (-(-d.exp - ((c :: rest).length : Int))).toNat = n + 1 := ⟨(-(-d.exp - ((c :: rest).length : Int))).toNat - 1, by omega⟩
        obtain ⟨n, hn⟩ := this
        rw [hn]
        exact ⟨c, List.take n rest ++ '.' :: List.drop n rest, by simp [List.take_succ_cons], h.head⟩
    · simp only [he, if_false]
      exact ⟨c, rest ++ zeros d.exp.toNat, by simp, h.head⟩

theorem asciiLower_fmtF (d : Dec) {ds : List Char} (h : Digs ds) : asciiLower (fmtF d ds) = fmtF d ds := by
  apply asciiLower_fixed
  intro c hc
  have key : c.isDigit = true ∨ c = '.' := by
    unfold fmtF at hc
    simp only [] at hc
    split at hc
    · split at hc
      · simp only [List.mem_cons, List.mem_append] at hc
        rcases hc with rfl | rfl | hz | hd
        · left; decide
        · right; rfl
        · left; exact Digs.zeros _ c hz
        · left; exact h c hd
      · simp only [List.mem_cons, List.mem_append] at hc
        rcases hc with ht | rfl | hd
        · left; exact h.take _ c ht
        · right; rfl
        · left; exact h.drop _ c hd
    · simp only [List.mem_append] at hc
      rcases hc with hd | hz
      · left; exact h c hd
      · left; exact Digs.zeros _ c hz
  rcases key with hk | rfl
  · exact isDigit_toLower hk
  · decide

theorem asciiLower_fmtE (fmt : Char) (hf : fmt = 'e' ∨ fmt = 'E') (d : Dec) {ds : List Char} (h : Digs ds) :
    asciiLower (fmtE fmt d ds) = fmtE 'e' d ds := by
  have hfl : fmt.toLower = 'e' := by rcases hf with rfl | rfl <;> decide
  unfold fmtE
  simp only [asciiLower_append, asciiLower_cons, hfl]
  congr 1
  · cases ds with
    | nil => rfl
    | cons c rest =>
      simp only []
      split
      · exact (Digs.cons h.head Digs.nil).asciiLower
      · rw [asciiLower_cons, asciiLower_cons, h.tail.asciiLower, isDigit_toLower h.head]
        rfl
  · congr 1
    split
    · rw [asciiLower_cons, (Digs.natDigits _).asciiLower]; rfl
    · rw [asciiLower_cons, (Digs.natDigits _).asciiLower]; rfl

end Apd.TextL
