import ApdVerif.Lemmas.ExpAccLog
import ApdVerif.Lemmas.C12IntervalLn
/-!
# Pure real analysis behind the accuracy of `Context.Ln`, part 1: signed relative perturbations and the
power series `ln z = 2 Σ y^(2n+1)/(2n+1)`, `y = (z-1)/(z+1)`

`RelW ω X X̂` : `X̂ = X·W` with `e^{-ω} ≤ W ≤ e^{ω}` (like `LogNear`, but for values of either sign).
-/
namespace Apd.LnAcc
open Real Apd.ExpAcc Apd.C12IL

def RelW (ω X Xh : ℝ) : Prop := ∃ W : ℝ, Xh = X * W ∧ exp (-ω) ≤ W ∧ W ≤ exp ω

theorem RelW.refl (X : ℝ) : RelW 0 X X := ⟨1, by ring, by simp, by simp⟩

theorem RelW.mono {ω ω' X Xh : ℝ} (h : RelW ω X Xh) (hω : ω ≤ ω') : RelW ω' X Xh := by
  obtain ⟨W, e, l, u⟩ := h
  exact ⟨W, e, le_trans (exp_le_exp.2 (by linarith)) l, le_trans u (exp_le_exp.2 hω)⟩

theorem RelW.mul {ω1 ω2 a ah b bh : ℝ} (h1 : RelW ω1 a ah) (h2 : RelW ω2 b bh) :
    RelW (ω1 + ω2) (a * b) (ah * bh) := by
  obtain ⟨W1, e1, l1, u1⟩ := h1
  obtain ⟨W2, e2, l2, u2⟩ := h2
  have p1 : 0 < W1 := lt_of_lt_of_le (exp_pos _) l1
  have p2 : 0 < W2 := lt_of_lt_of_le (exp_pos _) l2
  refine ⟨W1 * W2, by rw [e1, e2]; ring, ?_, ?_⟩
  · rw [neg_add, exp_add]; exact mul_le_mul l1 l2 (exp_pos _).le p1.le
  · rw [exp_add]; exact mul_le_mul u1 u2 p2.le (exp_pos _).le

theorem RelW.div_const {ω a ah : ℝ} (h : RelW ω a ah) (k : ℝ) : RelW ω (a / k) (ah / k) := by
  obtain ⟨W, e, l, u⟩ := h
  exact ⟨W, by rw [e]; ring, l, u⟩

/-- one relative perturbation `(1+δ)`, `|δ| ≤ u < 1` -/
theorem RelW.one_add (δ u : ℝ) (hδ : |δ| ≤ u) (hu : u < 1) : RelW (u / (1 - u)) 1 (1 + δ) := by
  have := LogNear.of_rel 1 δ u zero_le_one hδ hu
  obtain ⟨l, r⟩ := this
  exact ⟨1 + δ, by ring, by simpa using l, by simpa using r⟩

theorem RelW.step {ω a ah : ℝ} (h : RelW ω a ah) (δ u : ℝ) (hδ : |δ| ≤ u) (hu : u < 1) :
    RelW (ω + u / (1 - u)) a (ah * (1 + δ)) := by
  have := h.mul (RelW.one_add δ u hδ hu)
  simpa using this

theorem RelW.abs_sub_le {ω a ah : ℝ} (h : RelW ω a ah) (hω : 0 ≤ ω) : |ah - a| ≤ |a| * (exp ω - 1) := by
  obtain ⟨W, e, l, u⟩ := h
  have e3 : 2 ≤ exp ω + exp (-ω) := by linarith [add_one_le_exp ω, add_one_le_exp (-ω)]
  have hW : |W - 1| ≤ exp ω - 1 := by
    rw [abs_le]; constructor <;> linarith
  have : ah - a = a * (W - 1) := by rw [e]; ring
  rw [this, abs_mul]
  exact mul_le_mul_of_nonneg_left hW (abs_nonneg _)

theorem RelW.abs_le {ω a ah : ℝ} (h : RelW ω a ah) : |ah| ≤ |a| * exp ω ∧ |a| ≤ |ah| * exp ω := by
  obtain ⟨W, e, l, u⟩ := h
  have p : 0 < W := lt_of_lt_of_le (exp_pos _) l
  constructor
  · rw [e, abs_mul, abs_of_pos p]; exact mul_le_mul_of_nonneg_left u (abs_nonneg _)
  · rw [e, abs_mul, abs_of_pos p, mul_assoc]
    have : 1 ≤ W * exp ω := by
      have := mul_le_mul_of_nonneg_right l (exp_pos ω).le
      rwa [← exp_add, neg_add_cancel, exp_zero] at this
    nlinarith [abs_nonneg a]

theorem RelW.ne_zero {ω a ah : ℝ} (h : RelW ω a ah) (ha : a ≠ 0) : ah ≠ 0 := by
  obtain ⟨W, e, l, u⟩ := h
  have p : 0 < W := lt_of_lt_of_le (exp_pos _) l
  rw [e]; exact mul_ne_zero ha p.ne'

/-! ## the series -/

/-- the `n`-th term `2 y^(2n+1)/(2n+1)` -/
noncomputable def lterm (y : ℝ) (n : ℕ) : ℝ := 2 * y ^ (2 * n + 1) / ((2 * n + 1 : ℕ) : ℝ)

/-- the sum of the first `k` terms -/
noncomputable def lsum (y : ℝ) (k : ℕ) : ℝ := 2 * S y k

theorem lsum_succ (y : ℝ) (k : ℕ) : lsum y (k + 1) = lsum y k + lterm y k := by
  unfold lsum lterm S
  rw [Finset.sum_range_succ]; ring

theorem lsum_one (y : ℝ) : lsum y 1 = 2 * y := by
  unfold lsum S; simp

theorem S_neg (y : ℝ) (k : ℕ) : S (-y) k = - S y k := by
  unfold S
  rw [← Finset.sum_neg_distrib]
  apply Finset.sum_congr rfl
  intro j _
  rw [Odd.neg_pow ⟨j, rfl⟩]; ring

/-- partial sums are dominated by the limit, for either sign -/
theorem lsum_abs_le (y : ℝ) (hy : |y| < 1) (k : ℕ) : |lsum y k| ≤ |L2 y| := by
  unfold lsum
  rcases le_total 0 y with h | h
  · have h1 : y < 1 := by rwa [abs_of_nonneg h] at hy
    have l := L2_lower y h h1 k
    have s0 : 0 ≤ S y k := by unfold S; apply Finset.sum_nonneg; intro j _; positivity
    rw [abs_of_nonneg (by linarith), abs_of_nonneg (by linarith)]; exact l
  · have h' : 0 ≤ -y := by linarith
    have h1 : -y < 1 := by rwa [abs_of_nonpos h] at hy
    have l := L2_lower (-y) h' h1 k
    rw [S_neg, L2_neg] at l
    have s0 : 0 ≤ S (-y) k := by unfold S; apply Finset.sum_nonneg; intro j _; positivity
    rw [S_neg] at s0
    rw [abs_of_nonpos (by linarith), abs_of_nonpos (by linarith)]; linarith

theorem two_abs_le_L2 (y : ℝ) (hy : |y| < 1) : 2 * |y| ≤ |L2 y| := by
  have := lsum_abs_le y hy 1
  rwa [lsum_one, abs_mul, abs_two] at this

/-- sharper remainder: after `n` terms the rest is at most `2|y|^(2n+1)/((2n+1)(1-y²))` -/
theorem L2_upper_sharp (y : ℝ) (h0 : 0 ≤ y) (h1 : y < 1) (n : ℕ) :
    L2 y ≤ 2 * S y n + 2 * y ^ (2 * n + 1) / ((2 * n + 1 : ℕ) : ℝ) * (1 - y ^ 2)⁻¹ := by
  have hs := Real.hasSum_log_sub_log_of_abs_lt_one (x := y) (by rw [abs_of_nonneg h0]; exact h1)
  rw [S_eq]
  have hs' := (hasSum_nat_add_iff' n).2 hs
  have hy2 : y ^ 2 < 1 := by nlinarith
  have hg := (hasSum_geometric_of_lt_one (sq_nonneg y) hy2).mul_left
    (2 * y ^ (2 * n + 1) / ((2 * n + 1 : ℕ) : ℝ))
  have hle := hasSum_le (f := fun j : ℕ => (2 : ℝ) * (1 / (2 * ((j + n : ℕ) : ℝ) + 1)) * y ^ (2 * (j + n) + 1))
    (g := fun j : ℕ => 2 * y ^ (2 * n + 1) / ((2 * n + 1 : ℕ) : ℝ) * (y ^ 2) ^ j) ?_ hs' hg
  · unfold L2; linarith
  · intro j
    have e : y ^ (2 * (j + n) + 1) = y ^ (2 * n + 1) * (y ^ 2) ^ j := by
      rw [← pow_mul, ← pow_add]; congr 1; ring
    rw [e]
    have hp : 0 ≤ y ^ (2 * n + 1) * (y ^ 2) ^ j := by positivity
    have hc : (1 : ℝ) / (2 * ((j + n : ℕ) : ℝ) + 1) ≤ 1 / ((2 * n + 1 : ℕ) : ℝ) := by
      apply one_div_le_one_div_of_le (by positivity)
      push_cast
      have : (0 : ℝ) ≤ (j : ℝ) := by positivity
      linarith
    calc (2 : ℝ) * (1 / (2 * ((j + n : ℕ) : ℝ) + 1)) * (y ^ (2 * n + 1) * (y ^ 2) ^ j)
        = (1 / (2 * ((j + n : ℕ) : ℝ) + 1)) * (2 * (y ^ (2 * n + 1) * (y ^ 2) ^ j)) := by ring
      _ ≤ (1 / ((2 * n + 1 : ℕ) : ℝ)) * (2 * (y ^ (2 * n + 1) * (y ^ 2) ^ j)) :=
          mul_le_mul_of_nonneg_right hc (by positivity)
      _ = 2 * y ^ (2 * n + 1) / ((2 * n + 1 : ℕ) : ℝ) * (y ^ 2) ^ j := by ring

/-- remainder of the series after `k` terms, either sign -/
theorem lsum_remainder (y : ℝ) (hy : |y| < 1) (k : ℕ) :
    |L2 y - lsum y k| ≤ |lterm y k| * (1 - y ^ 2)⁻¹ := by
  unfold lsum lterm
  rcases le_total 0 y with h | h
  · have h1 : y < 1 := by rwa [abs_of_nonneg h] at hy
    have l := L2_lower y h h1 k
    have r := L2_upper_sharp y h h1 k
    have tp : 0 ≤ 2 * y ^ (2 * k + 1) / ((2 * k + 1 : ℕ) : ℝ) := by positivity
    rw [abs_of_nonneg (by linarith), abs_of_nonneg tp]; linarith
  · have h' : 0 ≤ -y := by linarith
    have h1 : -y < 1 := by rwa [abs_of_nonpos h] at hy
    have l := L2_lower (-y) h' h1 k
    have r := L2_upper_sharp (-y) h' h1 k
    rw [S_neg, L2_neg] at l r
    have e : (-y) ^ (2 * k + 1) = - y ^ (2 * k + 1) := Odd.neg_pow ⟨k, rfl⟩ y
    have e2 : (-y) ^ 2 = y ^ 2 := by ring
    rw [e, e2] at r
    have tp : 2 * y ^ (2 * k + 1) / ((2 * k + 1 : ℕ) : ℝ) ≤ 0 := by
      have : y ^ (2 * k + 1) ≤ 0 := by
        have := Odd.pow_nonpos (n := 2 * k + 1) ⟨k, rfl⟩ h; exact this
      apply div_nonpos_of_nonpos_of_nonneg _ (by positivity); linarith
    rw [abs_of_nonpos (by linarith), abs_of_nonpos tp]
    have : 2 * -y ^ (2 * k + 1) / ((2 * k + 1 : ℕ) : ℝ) = -(2 * y ^ (2 * k + 1) / ((2 * k + 1 : ℕ) : ℝ)) := by ring
    rw [this] at r
    linarith

end Apd.LnAcc
