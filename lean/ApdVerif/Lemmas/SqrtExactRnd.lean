import ApdVerif.Lemmas.SqrtIterLemmas
/-!
# Half-even rounding to `p` digits as a relation on `ℚ`, and the three operations of the Sqrt loop

`Rnd p v w`: `w` is the positive rational `v` rounded to `p` significant digits by a nearest mode:
a multiple of the quantum `10^(a-p+1)` (`a` the adjusted exponent of `v`), within half a quantum of `v`,
and equal to any multiple of the quantum that is strictly closer than half a quantum.
-/
namespace Apd.SqrtX
open Apd Apd.Oracle Apd.RatSpec Apd.C20L Apd.SqrtL

def Rnd (p : ℕ) (v w : ℚ) : Prop :=
  ∃ a : ℤ, IsAdj v a ∧ (∃ n : ℤ, w = (n : ℚ) * (10 : ℚ) ^ (a - (p : ℤ) + 1)) ∧
    |w - v| ≤ (10 : ℚ) ^ (a - (p : ℤ) + 1) / 2 ∧
    ∀ k : ℤ, |v - (k : ℚ) * (10 : ℚ) ^ (a - (p : ℤ) + 1)| < (10 : ℚ) ^ (a - (p : ℤ) + 1) / 2 →
      w = (k : ℚ) * (10 : ℚ) ^ (a - (p : ℤ) + 1)

theorem roundInt_snap (neg : Bool) (t : ℚ) (k : ℤ) (h : |t - (k : ℚ)| < 1 / 2) :
    roundInt .halfEven neg t = k := by
  have h1 := Rat_roundInt_half_nearest .halfEven (Or.inr (Or.inr rfl)) neg t
  obtain ⟨a1, a2⟩ := abs_le.1 h1
  obtain ⟨b1, b2⟩ := abs_lt.1 h
  have c1 : ((roundInt .halfEven neg t : ℤ) : ℚ) - (k : ℚ) < 1 := by linarith
  have c2 : (k : ℚ) - ((roundInt .halfEven neg t : ℤ) : ℚ) < 1 := by linarith
  have d1 : roundInt .halfEven neg t - k < 1 := by exact_mod_cast c1
  have d2 : k - roundInt .halfEven neg t < 1 := by exact_mod_cast c2
  omega

theorem agrees_rnd (cc : Ctx) (p : Nat) (hw : WCtx cc p) (hp1 : 1 ≤ p)
    (ex : Exact) (hn : 0 < ex.num) (hd : 0 < ex.den) (hneg : ex.neg = false)
    (d : Dec) (fl : Cond) (hA : Agrees cc ex d fl) (hform : d.form = .finite)
    (hlo : (10 : ℚ) ^ (-100000 : ℤ) ≤ ex.toRat) (hhi : ex.toRat < (10 : ℚ) ^ (99999 : ℤ)) :
    Rnd p ex.toRat d.toRat := by
  have hmag : ex.toRat = ex.mag := by rw [Exact.toRat_eq, hneg]; simp
  rw [hmag] at hlo hhi ⊢
  have ha := mag_isAdj ex hn hd
  generalize adjRat ex.num ex.den + ex.e10 = a at ha
  have ha' := ha
  obtain ⟨a1, a2⟩ := ha
  have alo : (-100000 : ℤ) ≤ a := by
    have := lt_of_le_of_lt hlo a2
    rw [zpow_lt_zpow_iff_right₀ ten_gt] at this
    omega
  have hq : quantum cc a = a - (p : ℤ) + 1 := by
    unfold quantum; rw [hw.hp, hw.hemin]; omega
  obtain ⟨hval, -, -, -⟩ := Rat_agrees_finite cc ex d fl hn hd ha' hA hform
  rw [hneg] at hval
  simp only [Bool.false_eq_true, if_false, one_mul] at hval
  unfold roundedMag at hval
  rw [hq, hw.hm] at hval
  have hQ := tp (a - (p : ℤ) + 1)
  refine ⟨a, ha', ⟨_, hval⟩, ?_, ?_⟩
  · have hn := Rat_roundInt_half_nearest .halfEven (Or.inr (Or.inr rfl)) false
      (ex.mag / (10 : ℚ) ^ (a - (p : ℤ) + 1))
    have e : d.toRat - ex.mag =
        (((roundInt .halfEven false (ex.mag / (10 : ℚ) ^ (a - (p : ℤ) + 1)) : ℤ) : ℚ) -
          ex.mag / (10 : ℚ) ^ (a - (p : ℤ) + 1)) * (10 : ℚ) ^ (a - (p : ℤ) + 1) := by
      rw [hval]; field_simp
    rw [e, abs_mul, abs_of_pos hQ]
    calc _ ≤ (1 / 2) * (10 : ℚ) ^ (a - (p : ℤ) + 1) := mul_le_mul_of_nonneg_right hn hQ.le
      _ = _ := by ring
  · intro k hk
    rw [hval]
    congr 1
    have : roundInt .halfEven false (ex.mag / (10 : ℚ) ^ (a - (p : ℤ) + 1)) = k := by
      apply roundInt_snap
      have e : ex.mag / (10 : ℚ) ^ (a - (p : ℤ) + 1) - (k : ℚ) =
          (ex.mag - (k : ℚ) * (10 : ℚ) ^ (a - (p : ℤ) + 1)) / (10 : ℚ) ^ (a - (p : ℤ) + 1) := by
        field_simp
      rw [e, abs_div, abs_of_pos hQ, div_lt_iff₀ hQ]
      linarith
    exact_mod_cast this

theorem mul_rnd (cc : Ctx) (p : Nat) (hw : WCtx cc p) (hp3 : 3 ≤ p) (hp2 : p ≤ 100000)
    (x y : Dec) (hx : Pos x) (hy : Pos y)
    (e1 : -100000 ≤ x.exp) (e2 : x.exp ≤ 100000) (e3 : -100000 ≤ y.exp) (e4 : y.exp ≤ 100000)
    (e5 : -100000 ≤ x.exp + y.exp)
    (hlo : (10 : ℚ) ^ (-3 : ℤ) ≤ x.toRat * y.toRat) (hhi : x.toRat * y.toRat < (10 : ℚ) ^ (2 : ℤ)) :
    Rnd p (x.toRat * y.toRat) (mulOp cc x y).d.toRat := by
  have hc := hw.wf (by omega) hp2
  have hok := mul_ok cc p hw hp3 hp2 x y hx hy e1 e2 e3 e4 e5 hlo hhi
  have hA := Props.C01_mul cc hc x y hx.hf hy.hf (Or.inl hok.err)
  have hex : (exactMul x y).toRat = x.toRat * y.toRat := Rat_exactMul_toRat x y
  have := agrees_rnd cc p hw (by omega) (exactMul x y) (Nat.mul_pos hx.h0 hy.h0) (show 0 < 1 by decide)
    (by simp [exactMul, hx.hn, hy.hn]) _ _ hA hok.pos.hf (by rw [hex]; exact widen_lo hlo)
    (by rw [hex]; exact widen_hi hhi)
  rw [hex] at this
  exact this

theorem quo_rnd (cc : Ctx) (p : Nat) (hw : WCtx cc p) (hp3 : 3 ≤ p) (hp2 : p ≤ 100000)
    (x y : Dec) (hx : Pos x) (hy : Pos y)
    (e1 : -100000 ≤ x.exp - y.exp) (e2 : x.exp - y.exp ≤ 100000)
    (d1 : ndigits x.coeff ≤ 100000) (d2 : ndigits y.coeff ≤ 100000)
    (hlo : (10 : ℚ) ^ (-3 : ℤ) ≤ x.toRat / y.toRat) (hhi : x.toRat / y.toRat < (10 : ℚ) ^ (2 : ℤ)) :
    Rnd p (x.toRat / y.toRat) (quoOp cc x y).d.toRat := by
  have hc := hw.wf (by omega) hp2
  have hok := quo_ok cc p hw hp3 hp2 x y hx hy e1 e2 d1 d2 hlo hhi
  have hex : (exactQuo x y).toRat = x.toRat / y.toRat := Rat_exactQuo_toRat x y
  have hneg : (exactQuo x y).neg = false := by simp [exactQuo, hx.hn, hy.hn]
  have hA := Props.C01_quo cc hc x y hx.hf hy.hf (by have := hy.h0; omega) (Or.inl hok.err)
  have := agrees_rnd cc p hw (by omega) (exactQuo x y) hx.h0 hy.h0
    hneg _ _ hA hok.pos.hf (by rw [hex]; exact widen_lo hlo) (by rw [hex]; exact widen_hi hhi)
  rw [hex] at this
  exact this

theorem add_rnd (cc : Ctx) (p : Nat) (hw : WCtx cc p) (hp3 : 3 ≤ p) (hp2 : p ≤ 100000)
    (x y : Dec) (hx : Pos x) (hy : Pos y)
    (e1 : -100000 ≤ x.exp) (e2 : x.exp ≤ 0) (e3 : -100000 ≤ y.exp) (e4 : y.exp ≤ 0)
    (hlo : (10 : ℚ) ^ (-3 : ℤ) ≤ x.toRat + y.toRat) (hhi : x.toRat + y.toRat < (10 : ℚ) ^ (2 : ℤ)) :
    Rnd p (x.toRat + y.toRat) (addOp cc x y false).d.toRat := by
  have hc := hw.wf (by omega) hp2
  have hok := add_ok cc p hw hp3 hp2 x y hx hy e1 e2 e3 e4 hlo hhi
  have hP : Pos (sumDec x y) := by
    refine ⟨rfl, rfl, ?_⟩
    show 0 < x.coeff * 10 ^ (x.exp - min x.exp y.exp).toNat + y.coeff * 10 ^ (y.exp - min x.exp y.exp).toNat
    have := Nat.mul_pos hx.h0 (Nat.pow_pos (n := (x.exp - min x.exp y.exp).toNat) (show 0 < 10 by decide))
    omega
  have hPv := sumDec_toRat x y hx.hn hy.hn
  have heq := addOp_pos cc x y hx.hf hy.hf hx.hn hy.hn (by omega) (by omega)
  have hns' : NoSys (ctxRound cc (sumDec x y)).2 := by have := hok.ns; rw [heq] at this; exact this
  have hA := Props.C01_roundCore cc hc (sumDec x y) rfl hns'
  have hex : (exactRound (sumDec x y)).toRat = x.toRat + y.toRat := by
    rw [Rat_exactRound_toRat, hPv]
  have hf := hok.pos.hf
  rw [heq] at hf ⊢
  have := agrees_rnd cc p hw (by omega) (exactRound (sumDec x y)) hP.h0 (show 0 < 1 by decide)
    rfl _ _ hA hf (by rw [hex]; exact widen_lo hlo) (by rw [hex]; exact widen_hi hhi)
  rw [hex] at this
  exact this

open Apd.SqrtD in
/-- the three roundings of one round of the loop, as `Rnd` facts (same hypotheses as `round1_ok`) -/
theorem round1_rnd (e : ED) (he : EDok e) (fx A : Dec) (P : Nat) (hP4 : 4 ≤ P) (hP : P ≤ 99999)
    (hf : Pos fx) (hfd : ndigits fx.coeff ≤ 100000) (hfe1 : -100000 ≤ fx.exp) (hfe2 : fx.exp ≤ 0)
    (hA : Pos A) (hAd : ndigits A.coeff ≤ 99999)
    (hA1 : 9 / 100 ≤ A.toRat) (hA2 : A.toRat ≤ 11 / 10)
    (h11 : A.toRat ≤ 11 * fx.toRat) (h2 : fx.toRat ≤ 2 * A.toRat) :
    ∃ qh sh : ℚ, Rnd P (fx.toRat / A.toRat) qh ∧ Rnd P (qh + A.toRat) sh ∧
      Rnd P (sh * (1 / 2)) (round1 e fx A P).2.toRat := by
  have hε := eps_le P hP4
  have hAe := exp_bounds hA hAd (k := -2) (m := 1) (by rw [tm2]; linarith) (by rw [t1]; linarith)
  have hApos := hA.toRat_pos
  have hFpos := hf.toRat_pos
  have hdiv1 : 9 / 100 ≤ fx.toRat / A.toRat := by rw [le_div_iff₀ hApos]; linarith
  have hdiv2 : fx.toRat / A.toRat ≤ 2 := by rw [div_le_iff₀ hApos]; linarith
  have he0 := he.setPrec P
  generalize he0def : ({ e with c := { e.c with prec := P } } : ED) = e0 at he0
  have hcP : e0.c = { e.c with prec := P } := by rw [← he0def]
  have hw : WCtx e0.c P := by have := he0.wctx; rw [hcP] at this ⊢; exact this
  have hq := quo_ok e0.c P hw (by omega) (by omega) fx A hf hA (by omega) (by omega) hfd (by omega)
    (by rw [t3]; linarith) (by rw [t2]; linarith)
  have hqR := quo_rnd e0.c P hw (by omega) (by omega) fx A hf hA (by omega) (by omega) hfd (by omega)
    (by rw [t3]; linarith) (by rw [t2]; linarith)
  obtain ⟨e1, he1, hqv⟩ := hq.rel (by linarith)
  obtain ⟨b1, b2⟩ := one_add_bounds he1 hε
  obtain ⟨q1, q2⟩ := mul_bounds (by norm_num) (by norm_num) hdiv1 hdiv2 b1 b2
  rw [← hqv] at q1 q2
  have hqe := exp_bounds hq.pos hq.nd (k := -2) (m := 1) (by rw [tm2]; linarith) (by rw [t1]; linarith)
  dsimp only [round1]
  rw [he0def]
  obtain ⟨k1, k2, k3⟩ := step_ok e0 {} (fun cc => quoOp cc fx A) he0 _ _ hq
  generalize ED.step e0 {} (fun cc => quoOp cc fx A) = r1 at k1 k2 k3 ⊢
  replace k3 : r1.2 = (quoOp e0.c fx A).d := k3
  have hs : OpRes P ((quoOp e0.c fx A).d.toRat + A.toRat) (addOp e0.c r1.2 A false) := by
    rw [k3]
    exact add_ok e0.c P hw (by omega) (by omega) _ A hq.pos hA (by omega) (by omega) (by omega) (by omega)
      (by rw [t3]; linarith) (by rw [t2]; linarith)
  have hsR : Rnd P ((quoOp e0.c fx A).d.toRat + A.toRat) (addOp e0.c r1.2 A false).d.toRat := by
    rw [k3]
    exact add_rnd e0.c P hw (by omega) (by omega) _ A hq.pos hA (by omega) (by omega) (by omega) (by omega)
      (by rw [t3]; linarith) (by rw [t2]; linarith)
  obtain ⟨e2, he2, hsv⟩ := hs.rel (by linarith)
  obtain ⟨c1, c2⟩ := one_add_bounds he2 hε
  obtain ⟨s1, s2⟩ := mul_bounds (lo := 17 / 100) (hi := 5) (by norm_num) (by norm_num)
    (show 17 / 100 ≤ (quoOp e0.c fx A).d.toRat + A.toRat by linarith)
    (show (quoOp e0.c fx A).d.toRat + A.toRat ≤ 5 by linarith) c1 c2
  rw [← hsv] at s1 s2
  have hse := exp_bounds hs.pos hs.nd (k := -1) (m := 1) (by rw [tm1]; linarith) (by rw [t1]; linarith)
  obtain ⟨l1, l2, l3⟩ := step_ok r1.1 r1.2 (fun cc => addOp cc r1.2 A false) k1 P _
    (by show OpRes P _ (addOp r1.1.c r1.2 A false); rw [k2]; exact hs)
  generalize ED.step r1.1 r1.2 (fun cc => addOp cc r1.2 A false) = r2 at l1 l2 l3 ⊢
  replace l3 : r2.2 = (addOp r1.1.c r1.2 A false).d := l3
  rw [k2] at l2 l3
  have hh : OpRes P ((addOp e0.c r1.2 A false).d.toRat * decHalf.toRat) (mulOp e0.c r2.2 decHalf) := by
    rw [l3]
    exact mul_ok e0.c P hw (by omega) (by omega) _ decHalf hs.pos decHalf_pos (by omega) (by omega)
      (by decide) (by decide) (by show (-100000 : ℤ) ≤ _ + (-1); omega)
      (by rw [t3, decHalf_toRat]; linarith) (by rw [t2, decHalf_toRat]; linarith)
  have hhR : Rnd P ((addOp e0.c r1.2 A false).d.toRat * decHalf.toRat) (mulOp e0.c r2.2 decHalf).d.toRat := by
    rw [l3]
    exact mul_rnd e0.c P hw (by omega) (by omega) _ decHalf hs.pos decHalf_pos (by omega) (by omega)
      (by decide) (by decide) (by show (-100000 : ℤ) ≤ _ + (-1); omega)
      (by rw [t3, decHalf_toRat]; linarith) (by rw [t2, decHalf_toRat]; linarith)
  obtain ⟨m1, m2, m3⟩ := step_ok r2.1 A (fun cc => mulOp cc r2.2 decHalf) l1 P _
    (by show OpRes P _ (mulOp r2.1.c r2.2 decHalf); rw [l2]; exact hh)
  replace m3 : (ED.step r2.1 A (fun cc => mulOp cc r2.2 decHalf)).2 = (mulOp r2.1.c r2.2 decHalf).d := m3
  rw [l2] at m2 m3
  refine ⟨(quoOp e0.c fx A).d.toRat, (addOp e0.c r1.2 A false).d.toRat, hqR, hsR, ?_⟩
  rw [m3, ← decHalf_toRat]
  exact hhR

end Apd.SqrtX

#print axioms Apd.SqrtX.round1_rnd
