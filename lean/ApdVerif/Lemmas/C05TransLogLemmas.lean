import ApdVerif.Lemmas.C05TransLemmas
/-!
# Run lemmas for `expP`, `lnP`, `log10P`, `powP` (`Imp/TransOps.lean`)
-/
set_option linter.unusedSimpArgs false
namespace Apd.Imp
open Apd Apd.Cond Prog

/-! ## Exp -/

@[simp] theorem run_setFiniteP (d : Cell) (v e : Int) (h : Heap) :
    run (setFiniteP d v e) h = ((), h.set d { form := .finite, neg := decide (v < 0), exp := e, coeff := v.natAbs }) := by
  unfold setFiniteP
  simp

/-- `nc.Quo(&r, x, &k)` with the local `r` at a fresh virtual address -/
theorem run_quoLoc (cc : Ctx) (a b : Cell) (x : Src) (k : Dec) (z : Dec) (h : Heap) :
    ∃ fl aux w, run (localize (freshCell a x.addr b) (quoP cc (freshCell a x.addr b) x (.const k)) z) h =
        (((fl, (quoOp cc (x.val h) k).err, aux), w), h) ∧
      (Delivered (quoOp cc (x.val h) k).err →
        fl = (quoOp cc (x.val h) k).fl ∧ aux = (quoOp cc (x.val h) k).aux ∧ w = (quoOp cc (x.val h) k).d) := by
  have := (quoP_run cc (freshCell a x.addr b) x (.const k) (h.set (freshCell a x.addr b) z)).localize
  simpa [Src.val_set_of_ne (Src.ne_cell_fresh x a b)] using this

/-- stages 3 and 4 of `expT` (its text) -/
def expSeriesV (c nc : Ctx) (r : Dec) (t : Nat) (tape : Tape) : Option (Out × Tape) :=
  match tape with
  | .n n :: tape =>
    if n < 0 then some (failOut .other, tape) else
    let s := expSeries r (n.toNat - 1) { c := nc } decOne
    if s.1.failed then some (failOut s.1.errOf, tape) else
    let ip := integerPower nc s.2 ((10 : Int) ^ t)
    if ip.2.2 != .none then some (failOut ip.2.2, tape) else
    let res := (cInexact ||| cRounded) ||| ip.2.1
    let rr := ctxRound { c with mode := .halfEven } ip.1
    let res := res ||| rr.2
    some ({ d := rr.1, fl := res, err := goError c.traps res }, tape)
  | _ => none

/-- `expT` from the overflow test on (its text), as a function of the corrected working precision -/
def expMainV (c : Ctx) (x : Dec) (cp : Nat) (tape : Tape) : Option (Out × Tape) :=
  let res0 := cInexact ||| cRounded
  let ax := x.absD
  if ax.cmp { coeff := cp * 23 } > 0 then
    let res := res0 ||| cOverflow
    if x.sign < 0 then
      let res := res.negateOverflowFlags ||| cClamped
      some ({ d := { coeff := 0, exp := c.emin - (c.prec : Int) + 1 }, fl := res, err := goError c.traps res }, tape)
    else some ({ d := decInf, fl := res, err := goError c.traps res }, tape)
  else if ax.cmp { coeff := 9, exp := -(cp : Int) - 1 } ≤ 0 then
    some ({ d := decOne, fl := res0, err := goError c.traps res0 }, tape)
  else
    let t0 : Int := x.exp + (ndigits x.coeff : Int)
    let t : Nat := if t0 < 0 then 0 else t0.toNat
    let k : Dec := { coeff := 1, exp := t }
    let p : Nat := cp + t + 2
    let nc : Ctx := { c with prec := p, mode := .halfEven, emin := MinExponent, emax := MaxExponent }
    let q := quoOp nc x k
    if q.err != .none then some (failOut q.err, tape) else
    expSeriesV c nc q.d t tape

theorem expT_cp (c : Ctx) (x : Dec) (cp : Nat) (tape : Tape) (hsp : expSpecials c x = none) :
    expT c x (.cp cp :: tape) = expMainV c x (expCp x.absD cp) tape := by
  unfold expT
  rw [hsp]
  rfl

theorem expT_not_cp (c : Ctx) (x : Dec) (tape : Tape) (hsp : expSpecials c x = none)
    (ht : ∀ cp t, tape ≠ .cp cp :: t) : expT c x tape = none := by
  unfold expT
  rw [hsp]
  cases tape with
  | nil => rfl
  | cons e t =>
    cases e with
    | cp cp => exact absurd rfl (ht cp t)
    | n n => rfl
    | est v => rfl

theorem expSeriesP_run (c nc : Ctx) (d : Cell) (r : Dec) (t : Nat) (tape : Tape) (h : Heap) :
    TTRes (run (expSeriesP c nc d r t tape) h) d h (expSeriesV c nc r t tape) := by
  unfold expSeriesP expSeriesV
  cases tape with
  | nil => exact TTRes.reject d h
  | cons e tp =>
    cases e with
    | cp cp => exact TTRes.reject d h
    | est v => exact TTRes.reject d h
    | n n =>
      simp only []
      by_cases hn : n < 0
      · simp only [hn, if_true, run_retT]
        exact TTRes.mk (TRes.abort d h (by simp))
      · simp only [hn, if_false]
        by_cases hf : (expSeries r (n.toNat - 1) { c := nc } decOne).1.failed = true
        · simp only [hf, if_true, run_retT]
          exact TTRes.mk (TRes.abort d h (ED.errOf_ne_none hf))
        · simp only [hf, if_false, Bool.false_eq_true, run_bind, run_retT]
          have := run_expFinishP c nc d (expSeries r (n.toNat - 1) { c := nc } decOne).2 t h
          unfold expTailV at this
          simp only [] at this
          split_ifs at this ⊢ with h1
          · exact TTRes.mk this
          · exact TTRes.mk this

theorem expMainP_run (c : Ctx) (d : Cell) (x : Src) (cp : Nat) (tape : Tape) (h : Heap) :
    TTRes (run (expMainP c d x (x.val h).absD cp tape) h) d h (expMainV c (x.val h) cp tape) := by
  unfold expMainP expMainV
  simp only []
  by_cases h1 : (x.val h).absD.cmp { coeff := cp * 23 } > 0
  · simp only [h1, if_true, run_bind, run_signP, run_ite]
    by_cases h2 : (x.val h).sign < 0
    · simp only [h2, if_true, run_bind, run_setFiniteP, run_retT]
      exact TTRes.mk (TRes.exact d h { d := _, fl := _, err := _ })
    · simp only [h2, if_false, run_bind, run_setDec, run_retT, Src.val_const]
      exact TTRes.mk (TRes.exact d h { d := _, fl := _, err := _ })
  · simp only [h1, if_false]
    by_cases h2 : (x.val h).absD.cmp { coeff := 9, exp := -(cp : Int) - 1 } ≤ 0
    · simp only [h2, if_true, run_bind, run_setDec, run_retT, Src.val_const]
      exact TTRes.mk (TRes.exact d h { d := _, fl := _, err := _ })
    · simp only [h2, if_false, run_bind, run_rdExp, run_numDigitsP]
      generalize (if (x.val h).exp + (ndigits (x.val h).coeff : Int) < 0 then 0
        else ((x.val h).exp + (ndigits (x.val h).coeff : Int)).toNat) = t
      obtain ⟨fl, aux, w, hq, hd⟩ := run_quoLoc
        { c with prec := cp + t + 2, mode := .halfEven, emin := MinExponent, emax := MaxExponent } d 0 x
        { coeff := 1, exp := t } {} h
      simp only [hq, run_ite]
      generalize quoOp { c with prec := cp + t + 2, mode := .halfEven, emin := MinExponent, emax := MaxExponent }
        (x.val h) { coeff := 1, exp := t } = q at hd ⊢
      by_cases he : (q.err != ErrKind.none) = true
      · simp only [he, if_true, run_retT]
        exact TTRes.mk (TRes.abort d h (by simpa using he))
      · simp only [he, if_false, Bool.false_eq_true]
        have hnone : q.err = .none := by simpa using he
        obtain ⟨_, _, rfl⟩ := hd (Or.inl hnone)
        exact expSeriesP_run c _ d _ t tape h

theorem expP_run (c : Ctx) (d : Cell) (x : Src) (tape : Tape) (h : Heap) :
    TTRes (run (expP c d x tape) h) d h (expT c (x.val h) tape) := by
  unfold expP
  simp only [run_bind, run_shouldSetAsNaNP, Option.map_none, run_ite, run_rdForm, run_rdNeg, run_isZeroP, run_snapP]
  by_cases hn : shouldSetAsNaN (x.val h) none = true
  · have hm : expT c (x.val h) tape = some (setAsNaN c (x.val h) none, tape) := by
      unfold expT expSpecials; simp only [hn, if_true]
    simp only [hn, if_true, hm, run_bind, run_setAsNaNP c d x none h hn, Option.map_none, run_retT]
    exact TTRes.mk ⟨_, _, _, rfl, fun _ => ⟨rfl, by simp, fun _ => rfl⟩⟩
  · bsimp [hn]
    cases hi : ((x.val h).form == Form.infinite) <;> bsimp [hi]
    rotate_left
    · cases hneg : (x.val h).neg <;> bsimp [hneg]
      · have hm : expT c (x.val h) tape = some ({ d := decInf }, tape) := by
          unfold expT expSpecials; bsimp [hn, hi, hneg]
        simp only [hm, run_bind, run_setDec, run_retT, Src.val_const]
        exact TTRes.mk (TRes.exact d h { d := decInf })
      · have hm : expT c (x.val h) tape = some ({ d := decZero }, tape) := by
          unfold expT expSpecials; bsimp [hn, hi, hneg]
        simp only [hm, run_bind, run_setDec, run_retT, Src.val_const]
        exact TTRes.mk (TRes.exact d h { d := decZero })
    cases hz : (x.val h).isZero <;> bsimp [hz]
    rotate_left
    · have hm : expT c (x.val h) tape = some ({ d := decOne }, tape) := by
        unfold expT expSpecials; bsimp [hn, hi, hz]
      simp only [hm, run_bind, run_setDec, run_retT, Src.val_const]
      exact TTRes.mk (TRes.exact d h { d := decOne })
    cases hp : (c.prec == 0) <;> bsimp [hp]
    rotate_left
    · have hm : expT c (x.val h) tape = some (failWith .zeroPrec, tape) := by
        unfold expT expSpecials; bsimp [hn, hi, hz, hp]
      simp only [hm, run_retT]
      exact TTRes.mk ⟨{}, 0, h d, by simp [failWith], fun hd => absurd hd not_delivered_zeroPrec⟩
    have hsp : expSpecials c (x.val h) = none := by
      unfold expSpecials; bsimp [hn, hi, hz, hp]
    have hax : ({ form := (x.val h).form, neg := false, exp := (x.val h).exp, coeff := (x.val h).coeff } : Dec) =
        (x.val h).absD := rfl
    simp only [hax]
    cases tape with
    | nil => rw [expT_not_cp _ _ _ hsp (fun _ _ e => by cases e)]; exact TTRes.reject d h
    | cons e t =>
      cases e with
      | cp cp => rw [expT_cp _ _ _ _ hsp]; exact expMainP_run c d x _ t h
      | n n => rw [expT_not_cp _ _ _ hsp (fun _ _ e => by cases e)]; exact TTRes.reject d h
      | est v => rw [expT_not_cp _ _ _ hsp (fun _ _ e => by cases e)]; exact TTRes.reject d h

end Apd.Imp

namespace Apd.Imp
open Apd Apd.Cond Prog

/-! ## `logSpecials`, Ln -/

/-- `Context.logSpecials` for every `d`, `x` -/
theorem run_logSpecialsP (c : Ctx) (d : Cell) (x : Src) (h : Heap) :
    (logSpecials c (x.val h) = none ∧ run (logSpecialsP c d x) h = (none, h)) ∨
    ∃ o, logSpecials c (x.val h) = some o ∧
      run (logSpecialsP c d x) h = (some (o.fl, o.err), h.set d o.d) ∧ o.aux = 0 := by
  unfold logSpecialsP
  simp only [run_bind, run_shouldSetAsNaNP, Option.map_none, run_ite, run_pure, run_rdForm, run_signP, run_cmpP,
    Src.val_const]
  by_cases hn : shouldSetAsNaN (x.val h) none = true
  · right
    refine ⟨setAsNaN c (x.val h) none, ?_, ?_, by simp⟩
    · unfold logSpecials; rw [if_pos hn]
    · simp only [hn, if_true, run_setAsNaNP c d x none h hn, Option.map_none]
  · bsimp [hn]
    by_cases hs : (x.val h).sign < 0
    · right
      refine ⟨invalidNaN c, ?_, ?_, rfl⟩
      · unfold logSpecials; simp only [hn, hs, if_true, if_false, Bool.false_eq_true]
      · simp only [hs, if_true, run_bind, run_setDec, run_pure, Src.val_const]; rfl
    · simp only [hs, if_false]
      cases hi : ((x.val h).form == Form.infinite) <;> bsimp [hi]
      · cases h0 : ((x.val h).cmp decZero == 0) <;> bsimp [h0]
        · cases h1 : ((x.val h).cmp decOne == 0) <;> bsimp [h1]
          · left
            unfold logSpecials
            simp only [hn, hs, hi, h0, h1, if_false, Bool.false_eq_true]
            exact ⟨trivial, trivial⟩
          · right
            refine ⟨{ d := decZero }, ?_, ?_, rfl⟩
            · unfold logSpecials; simp only [hn, hs, hi, h0, h1, if_true, if_false, Bool.false_eq_true]
            · simp only [run_bind, run_setDec, run_pure, Src.val_const]
        · right
          refine ⟨{ d := { decInf with neg := true } }, ?_, ?_, rfl⟩
          · unfold logSpecials; simp only [hn, hs, hi, h0, if_true, if_false, Bool.false_eq_true]
          · simp only [run_bind, run_setDec, run_wrNeg, run_pure, Src.val_const, Heap.set_same, Heap.set_set]
      · right
        refine ⟨{ d := decInf }, ?_, ?_, rfl⟩
        · unfold logSpecials; simp only [hn, hs, hi, if_true, if_false, Bool.false_eq_true]
        · simp only [run_bind, run_setDec, run_pure, Src.val_const]

/-- `lnT` from the final `ed.Add` on (its text) -/
def lnFinV (c : Ctx) (ed : ED) (tmp1 resAdjust : Dec) (tape : Tape) : Option (Out × Tape) :=
  let f := ed.step tmp1 (fun c => addOp c tmp1 resAdjust false)
  if f.1.failed then some (failOut f.1.errOf, tape) else
  let rr := ctxRound c f.2
  let res := rr.2 ||| cInexact ||| cRounded
  some ({ d := rr.1, fl := res, err := goError c.traps res }, tape)

/-- `lnT` is `lnPre`, `lnBody`, `lnFinV` -/
theorem lnT_eq (c : Ctx) (x : Dec) (tape : Tape) (hsp : logSpecials c x = none) :
    lnT c x tape =
      match lnPre c x tape with
      | none => none
      | some (ed, z, tmp1, resAdjust, series, tape) =>
        match lnBody c ed z tmp1 series tape with
        | none => none
        | some (_, .inl er, tape) => some (failOut er, tape)
        | some (ed, .inr tmp1, tape) => lnFinV c ed tmp1 resAdjust tape := by
  unfold lnT lnPre
  rw [hsp]
  simp only []
  generalize ln10At (c.prec + 2) = l10
  split_ifs with h1 h2
  · simp only []
    unfold lnBody
    simp only [if_true]
    generalize lnSeries _ _ _ _ _ _ _ = s
    cases s with
    | none => rfl
    | some r => rfl
  · simp only []
    unfold lnBody
    simp only [if_true]
    generalize lnSeries _ _ _ _ _ _ _ = s
    cases s with
    | none => rfl
    | some r => rfl
  · cases tape with
    | nil => rfl
    | cons e t =>
      cases e with
      | cp cp => rfl
      | n n => rfl
      | est v =>
        simp only []
        unfold lnBody
        simp only [if_false, Bool.false_eq_true]
        generalize lnHalley _ _ _ _ _ _ _ _ _ = s
        cases s with
        | none => rfl
        | some r => rfl

end Apd.Imp

namespace Apd.Imp
open Apd Apd.Cond Prog

theorem lnSeries_inl_ne (eps tmp2 : Dec) (fuel : Nat) :
    ∀ (n : Nat) (e : ED) (tmp1 tmp3 : Dec) {e' : ED} {er : ErrKind},
      lnSeries eps tmp2 fuel n e tmp1 tmp3 = some (e', .inl er) → er ≠ .none := by
  induction fuel with
  | zero => intro n e tmp1 tmp3 e' er hs; simp [lnSeries] at hs
  | succ k ih =>
    intro n e tmp1 tmp3 e' er hs
    unfold lnSeries at hs
    simp only [] at hs
    split at hs
    · next hf =>
      simp only [Option.some.injEq, Prod.mk.injEq, Sum.inl.injEq] at hs
      rw [← hs.2]; exact ED.errOf_ne_none hf
    · split at hs
      · simp at hs
      · exact ih _ _ _ _ hs

theorem lnHalley_inl_ne (nc : Ctx) (prec : Int) (maxIter : Nat) (z : Dec) (fuel : Nat) :
    ∀ (e : ED) (tmp1 : Dec) (l : LoopSt) (tape : Tape) {e' : ED} {er : ErrKind} {tp : Tape},
      lnHalley nc prec maxIter z fuel e tmp1 l tape = some (e', .inl er, tp) → er ≠ .none := by
  induction fuel with
  | zero => intro e tmp1 l tape e' er tp hs; simp [lnHalley] at hs
  | succ k ih =>
    intro e tmp1 l tape e' er tp hs
    unfold lnHalley at hs
    simp only [] at hs
    split at hs
    · simp at hs
    · split at hs
      · next hl =>
        simp only [Option.some.injEq, Prod.mk.injEq, Sum.inl.injEq] at hs
        rw [← hs.2.1]; exact loopDone_error_ne hl
      · simp at hs
      · split at hs
        · next hf =>
          simp only [Option.some.injEq, Prod.mk.injEq, Sum.inl.injEq] at hs
          rw [← hs.2.1]; exact ED.errOf_ne_none hf
        · exact ih _ _ _ _ hs

theorem lnBody_inl_ne {c : Ctx} {ed : ED} {z tmp1 : Dec} {series : Bool} {tape : Tape} {e' : ED} {er : ErrKind}
    {tp : Tape} (hb : lnBody c ed z tmp1 series tape = some (e', .inl er, tp)) : er ≠ .none := by
  unfold lnBody at hb
  simp only [] at hb
  split at hb
  · split at hb
    · simp at hb
    · next e r hs =>
      simp only [Option.some.injEq, Prod.mk.injEq] at hb
      obtain ⟨_, h2, _⟩ := hb
      subst h2
      exact lnSeries_inl_ne _ _ _ _ _ _ _ hs
  · exact lnHalley_inl_ne _ _ _ _ _ _ _ _ _ hb

theorem lnFinishP_run (c : Ctx) (d : Cell) (ed : ED) (tmp1 ra : Dec) (tape : Tape) (h : Heap) :
    TTRes ((run (lnFinishP c d ed tmp1 ra) h).1 |> fun r => (some (r, tape), (run (lnFinishP c d ed tmp1 ra) h).2))
      d h (lnFinV c ed tmp1 ra tape) := by
  unfold lnFinishP lnFinV
  simp only []
  by_cases hf : (ed.step tmp1 (fun cc => addOp cc tmp1 ra false)).1.failed = true
  · simp only [hf, if_true, run_retErr]
    exact TTRes.mk (TRes.abort d h (ED.errOf_ne_none hf))
  · simp only [hf, if_false, Bool.false_eq_true, run_bind, run_roundP, run_retFlags, Src.val_const, ctxRound]
    exact TTRes.mk (TRes.exact d h { d := _, fl := _, err := _ })

theorem lnP_run (c : Ctx) (d : Cell) (x : Src) (tape : Tape) (h : Heap) :
    TTRes (run (lnP c d x tape) h) d h (lnT c (x.val h) tape) := by
  unfold lnP
  rcases run_logSpecialsP c d x h with ⟨hs, hr⟩ | ⟨o, hs, hr, ha⟩
  · rw [lnT_eq c _ _ hs]
    simp only [run_bind, hr, run_snapP]
    cases hpre : lnPre c (x.val h) tape with
    | none => exact TTRes.reject d h
    | some pre =>
      obtain ⟨ed, z, tmp1, ra, series, tp⟩ := pre
      simp only [run_bind]
      have hskip : (run (if series = true then pure () else do let _ ← snapP x; pure ()) h).2 = h := by
        cases series <;> simp
      rw [hskip]
      cases hb : lnBody c ed z tmp1 series tp with
      | none => exact TTRes.reject d h
      | some b =>
        obtain ⟨e2, r, tp2⟩ := b
        cases r with
        | inl er =>
          simp only [run_retT]
          exact TTRes.mk (TRes.abort d h (lnBody_inl_ne hb))
        | inr t1 =>
          simp only [run_bind, run_retT]
          exact lnFinishP_run c d e2 t1 ra tp2 h
  · have hm : lnT c (x.val h) tape = some (o, tape) := by unfold lnT; simp only [hs]
    simp only [run_bind, hr, run_retT, hm]
    exact TTRes.mk ⟨_, _, _, rfl, fun _ => ⟨rfl, ha.symm, fun _ => rfl⟩⟩

end Apd.Imp

namespace Apd.Imp
open Apd Apd.Cond Prog

/-! ## Log10 -/

/-- a tape-steered composite function whose destination is a virtualised local: the heap is unchanged -/
theorem TTRes.localize_none {p : Prog (Option (Res × Tape))} {L : Cell} {h : Heap} {v : Dec}
    (hr : TTRes (run p (h.set L v)) L (h.set L v) none) :
    ∃ w, run (Imp.localize L p v) h = ((none, w), h) := by
  obtain ⟨h1, w, h2⟩ := hr
  refine ⟨w, ?_⟩
  rw [run_localize, h1, h2]; simp

theorem TTRes.localize_some {p : Prog (Option (Res × Tape))} {L : Cell} {h : Heap} {v : Dec} {m : Out} {t : Tape}
    (hr : TTRes (run p (h.set L v)) L (h.set L v) (some (m, t))) :
    ∃ fl aux w, run (Imp.localize L p v) h = ((some ((fl, m.err, aux), t), w), h) ∧
        (Delivered m.err → fl = m.fl ∧ aux = m.aux ∧ (¬ m.Aborted → w = m.d)) := by
  obtain ⟨res, h1, fl, aux, w, h2, hd⟩ := hr
  refine ⟨fl, aux, w, ?_, hd⟩
  have e1 : res = (fl, m.err, aux) := (Prod.mk.inj h2).1
  have e2 : (run p (h.set L v)).2 = (h.set L v).set L w := (Prod.mk.inj h2).2
  rw [run_localize, h1, e2, e1]; simp

/-- `log10T` from the multiplication by `1/ln 10` on (its text) -/
def log10FinV (c : Ctx) (l : Out) (tape : Tape) : Option (Out × Tape) :=
  let nc : Ctx := { baseCtx with prec := c.prec + 2, mode := .halfEven }
  if l.err != .none then some (failOut l.err, tape) else
  let m := mulOp { nc with prec := c.prec } l.d (invLn10At (c.prec + 2))
  if m.err != .none then some (failOut m.err, tape) else
  let rr := ctxRound c m.d
  let res := (cInexact ||| cRounded) ||| m.fl ||| rr.2
  some ({ d := rr.1, fl := res, err := goError c.traps res }, tape)

theorem log10T_eq (c : Ctx) (x : Dec) (tape : Tape) (hsp : logSpecials c x = none) :
    log10T c x tape =
      match lnT { baseCtx with prec := c.prec + 2, mode := .halfEven } x tape with
      | none => none
      | some (l, tape) => log10FinV c l tape := by
  unfold log10T
  rw [hsp]
  simp only []
  generalize lnT _ x tape = r
  cases r with
  | none => rfl
  | some lt => rfl

theorem log10P_run (c : Ctx) (d : Cell) (x : Src) (tape : Tape) (h : Heap) :
    TTRes (run (log10P c d x tape) h) d h (log10T c (x.val h) tape) := by
  unfold log10P
  rcases run_logSpecialsP c d x h with ⟨hs, hr⟩ | ⟨o, hs, hr, ha⟩
  · rw [log10T_eq c _ _ hs]
    simp only [run_bind, hr]
    have hl0 := lnP_run { baseCtx with prec := c.prec + 2, mode := .halfEven } (freshCell d x.addr 0) x tape
      (h.set (freshCell d x.addr 0) {})
    rw [Src.val_set_of_ne (Src.ne_cell_fresh x d 0)] at hl0
    cases hm : lnT { baseCtx with prec := c.prec + 2, mode := .halfEven } (x.val h) tape with
    | none =>
      rw [hm] at hl0
      obtain ⟨w, hw⟩ := hl0.localize_none
      rw [hw]
      exact TTRes.reject d h
    | some lt =>
      obtain ⟨l, tp⟩ := lt
      rw [hm] at hl0
      obtain ⟨fl, aux, w, hw, hd⟩ := hl0.localize_some
      rw [hw]
      unfold log10FinV
      simp only [run_ite]
      by_cases he : (l.err != ErrKind.none) = true
      · simp only [he, if_true, run_retT]
        exact TTRes.mk (TRes.abort d h (by simpa using he))
      · simp only [he, if_false, Bool.false_eq_true]
        have hnone : l.err = .none := by simpa using he
        have hna : ¬ l.Aborted := fun ha => by rw [ha.2] at hnone; cases hnone
        obtain ⟨_, _, hw2⟩ := hd (Or.inl hnone)
        have hw3 := hw2 hna
        subst hw3
        obtain ⟨fl2, aux2, v2, hv, hd2⟩ := mulP_run { baseCtx with prec := c.prec, mode := .halfEven } d (.const l.d)
          (.const (invLn10At (c.prec + 2))) h
        simp only [Src.val_const] at hv hd2
        simp only [run_bind, hv, run_ite]
        generalize mulOp { baseCtx with prec := c.prec, mode := .halfEven } l.d (invLn10At (c.prec + 2)) = m at hv hd2 ⊢
        by_cases he2 : (m.err != ErrKind.none) = true
        · simp only [he2, if_true, run_retT]
          exact TTRes.mk (TRes.abort' d h v2 (by simpa using he2))
        · simp only [he2, if_false, Bool.false_eq_true]
          have hnone2 : m.err = .none := by simpa using he2
          obtain ⟨rfl, _, rfl⟩ := hd2 (Or.inl hnone2)
          simp only [run_bind, run_roundP, run_retT, Heap.set_same, Heap.set_set, Src.val_cell, ctxRound]
          exact TTRes.mk (TRes.exact d h { d := _, fl := _, err := _ })
  · have hm : log10T c (x.val h) tape = some (o, tape) := by unfold log10T; simp only [hs]
    simp only [run_bind, hr, run_retT, hm]
    exact TTRes.mk ⟨_, _, _, rfl, fun _ => ⟨rfl, ha.symm, fun _ => rfl⟩⟩

end Apd.Imp
