import ApdVerif.Model.Basic
/-!
# Digit-count lemmas (core only)

`ndigits` characterisation `10^(k-1) ≤ n < 10^k`, uniqueness, monotonicity, doubling, the carry
lemma behind `roundAddOne`, and the table path of `NumDigits`.
-/
namespace Apd



theorem ndigitsAux_pos (f n : Nat) : 1 ≤ ndigitsAux f n := by
  cases f with
  | zero => simp [ndigitsAux]
  | succ f => simp only [ndigitsAux]; split <;> omega

/-- with enough fuel, the characterisation 10^(k-1) ≤ n < 10^k -/
theorem ndigitsAux_spec : ∀ (f n : Nat), n ≤ f → 0 < n →
    10 ^ (ndigitsAux f n - 1) ≤ n ∧ n < 10 ^ (ndigitsAux f n) := by
  intro f
  induction f with
  | zero => intro n h1 h2; omega
  | succ f ih =>
    intro n hf hn
    simp only [ndigitsAux]
    split
    · rename_i h; simp; omega
    · rename_i h
      have hq : 0 < n / 10 := by omega
      have hle : n / 10 ≤ f := by omega
      obtain ⟨a, b⟩ := ih (n / 10) hle hq
      have hp := ndigitsAux_pos f (n / 10)
      constructor
      · have : 1 + ndigitsAux f (n / 10) - 1 = (ndigitsAux f (n / 10) - 1) + 1 := by omega
        rw [this, Nat.pow_succ]
        have := Nat.div_mul_le_self n 10
        calc 10 ^ (ndigitsAux f (n / 10) - 1) * 10 ≤ (n / 10) * 10 := Nat.mul_le_mul_right 10 a
          _ ≤ n := this
      · have : 1 + ndigitsAux f (n / 10) = ndigitsAux f (n / 10) + 1 := by omega
        rw [this, Nat.pow_succ]
        have h3 : n / 10 + 1 ≤ 10 ^ ndigitsAux f (n / 10) := b
        have h4 : n < (n / 10 + 1) * 10 := by omega
        calc n < (n / 10 + 1) * 10 := h4
          _ ≤ 10 ^ ndigitsAux f (n / 10) * 10 := Nat.mul_le_mul_right 10 h3

theorem ndigits_spec (n : Nat) (hn : 0 < n) :
    10 ^ (ndigits n - 1) ≤ n ∧ n < 10 ^ (ndigits n) := ndigitsAux_spec n n (Nat.le_refl n) hn

theorem ndigits_pos (n : Nat) : 1 ≤ ndigits n := ndigitsAux_pos n n

/-- uniqueness: the digit count is determined by the power-of-ten bracket -/
theorem ndigits_unique (n k : Nat) (hk : 1 ≤ k) (h1 : 10 ^ (k - 1) ≤ n) (h2 : n < 10 ^ k) : ndigits n = k := by
  have hn : 0 < n := Nat.lt_of_lt_of_le (Nat.pow_pos (by decide)) h1
  obtain ⟨a, b⟩ := ndigits_spec n hn
  have hp := ndigits_pos n
  -- if ndigits n < k then n < 10^(ndigits n) ≤ 10^(k-1) ≤ n, contradiction; symmetric otherwise
  rcases Nat.lt_trichotomy (ndigits n) k with h | h | h
  · exfalso
    have : 10 ^ ndigits n ≤ 10 ^ (k - 1) := Nat.pow_le_pow_right (by decide) (by omega)
    omega
  · exact h
  · exfalso
    have : 10 ^ k ≤ 10 ^ (ndigits n - 1) := Nat.pow_le_pow_right (by decide) (by omega)
    omega

theorem ndigits_le_iff (n k : Nat) (hn : 0 < n) (hk : 1 ≤ k): ndigits n ≤ k ↔ n < 10 ^ k := by
  obtain ⟨a, b⟩ := ndigits_spec n hn
  have hp := ndigits_pos n
  constructor
  · intro h
    exact Nat.lt_of_lt_of_le b (Nat.pow_le_pow_right (by decide) h)
  · intro h
    apply Nat.le_of_not_lt
    intro hlt
    have : 10 ^ k ≤ 10 ^ (ndigits n - 1) := Nat.pow_le_pow_right (by decide) (by omega)
    omega

theorem ndigits_mono {m n : Nat} (hm : 0 < m) (h : m ≤ n) : ndigits m ≤ ndigits n := by
  have hn : 0 < n := Nat.lt_of_lt_of_le hm h
  rw [ndigits_le_iff m (ndigits n) hm (ndigits_pos n)]
  exact Nat.lt_of_le_of_lt h (ndigits_spec n hn).2

/-- doubling adds at most one digit (used by the NumDigits table argument) -/
theorem ndigits_double (n : Nat) (hn : 0 < n) : ndigits (2 * n) ≤ ndigits n + 1 := by
  rw [ndigits_le_iff (2 * n) (ndigits n + 1) (by omega) (by omega), Nat.pow_succ]
  have := (ndigits_spec n hn).2
  omega

/-- carry lemma (roundAddOne): if adding one increases the digit count, the result is exactly 10^nd -/
theorem carry (y : Nat) (hy : 0 < y) (h : ndigits (y + 1) > ndigits y) :
    y + 1 = 10 ^ ndigits y := by
  have a := (ndigits_spec y hy).2
  have hp := ndigits_pos y
  have hb := (ndigits_spec (y + 1) (by omega)).1
  have : 10 ^ ndigits y ≤ 10 ^ (ndigits (y + 1) - 1) := Nat.pow_le_pow_right (by decide) (by omega)
  omega

theorem carry_value (y : Nat) (hy : 0 < y) (h : ndigits (y + 1) > ndigits y) :
    (y + 1) / 10 * 10 = y + 1 ∧ ndigits ((y + 1) / 10) = ndigits y := by
  have e := carry y hy h
  have hp := ndigits_pos y
  have e2 : 10 ^ ndigits y = 10 ^ (ndigits y - 1) * 10 := by
    rw [← Nat.pow_succ]; congr 1; omega
  constructor
  · rw [e, e2, Nat.mul_div_cancel _ (by decide : 0 < 10)]
  · rw [e, e2, Nat.mul_div_cancel _ (by decide : 0 < 10)]
    apply ndigits_unique _ _ hp (Nat.le_refl _)
    exact Nat.pow_lt_pow_right (by decide) (by omega)

/-- the result of rounding never has more digits than the kept quotient's budget:
    if y < 10^P then after add-one-with-carry the coefficient is still < 10^P -/
theorem addOne_fits (y P : Nat) (hP : 1 ≤ P) (hy : 0 < y) (hlt : y < 10 ^ P) :
    (if ndigits (y + 1) > ndigits y then (y + 1) / 10 else y + 1) < 10 ^ P := by
  split
  · rename_i h
    have := carry_value y hy h
    have hd : ndigits y ≤ P := (ndigits_le_iff y P hy hP).2 hlt
    have : ndigits ((y + 1) / 10) ≤ P := by omega
    have hpos : 0 < (y + 1) / 10 := by
      have e := carry y hy h
      have hp := ndigits_pos y
      have : 10 ≤ 10 ^ ndigits y := by
        calc 10 = 10 ^ 1 := by decide
          _ ≤ 10 ^ ndigits y := Nat.pow_le_pow_right (by decide) hp
      omega
    exact (ndigits_le_iff _ P hpos hP).1 this
  · rename_i h
    have hd : ndigits y ≤ P := (ndigits_le_iff y P hy hP).2 hlt
    have : ndigits (y + 1) ≤ P := by omega
    exact (ndigits_le_iff _ P (by omega) hP).1 this

end Apd
