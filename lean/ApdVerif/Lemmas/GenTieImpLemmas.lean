import ApdVerif.Gen.Imp
import ApdVerif.Lemmas.C05Lemmas
import ApdVerif.Lemmas.Digits
import ApdVerif.Lemmas.C19Lemmas
import Mathlib.Tactic.SplitIfs
/-!
# Helper lemmas for `Props/GenTieImp.lean`
-/
set_option linter.unusedSimpArgs false
namespace Apd.Props
open Apd Apd.Imp Apd.Cond Apd.Gen.ImpG

/-! ## `Cond` as a Boolean algebra of twelve flags -/

theorem cond_eq_zero_iff (a : Cond) : a = {} ↔ a.any = false := by
  rcases a with ⟨b0, b1, b2, b3, b4, b5, b6, b7, b8, b9, b10, b11⟩
  simp only [Cond.any, Cond.mk.injEq, Bool.or_eq_false_iff]
  simp only [and_assoc]

theorem cond_ne_zero_any (a : Cond) : (a != ({} : Cond)) = a.any := by
  cases h : a.any
  · have := (cond_eq_zero_iff a).2 h
    subst this; rfl
  · have : a ≠ {} := fun e => by rw [(cond_eq_zero_iff a).1 e] at h; cases h
    simp [this]

theorem cond_and_ne_inexact (r : Cond) : ((r &&& Cond.cInexact) != ({} : Cond)) = r.inexact := by
  rw [cond_ne_zero_any]
  simp [HAnd.hAnd, AndOp.and, Cond.and, Cond.any, Cond.cInexact]

theorem cond_and_ne_subnormal (r : Cond) : ((r &&& Cond.cSubnormal) != ({} : Cond)) = r.subnormal := by
  rw [cond_ne_zero_any]
  simp [HAnd.hAnd, AndOp.and, Cond.and, Cond.any, Cond.cSubnormal]

theorem cond_and_ne_overflow (r : Cond) : ((r &&& Cond.cOverflow) != ({} : Cond)) = r.overflow := by
  rw [cond_ne_zero_any]
  simp [HAnd.hAnd, AndOp.and, Cond.and, Cond.any, Cond.cOverflow]

theorem cond_and_ne_underflow (r : Cond) : ((r &&& Cond.cUnderflow) != ({} : Cond)) = r.underflow := by
  rw [cond_ne_zero_any]
  simp [HAnd.hAnd, AndOp.and, Cond.and, Cond.any, Cond.cUnderflow]

theorem cond_and_sys_ne (r : Cond) :
    ((r &&& (Cond.cSysOverflow ||| Cond.cSysUnderflow)) != ({} : Cond)) = (r.sysOverflow || r.sysUnderflow) := by
  rw [cond_ne_zero_any]
  simp [HAnd.hAnd, AndOp.and, Cond.and, HOr.hOr, OrOp.or, Cond.or, Cond.any, Cond.cSysOverflow, Cond.cSysUnderflow]

theorem cond_and_sys_any (r : Cond) :
    (r &&& (Cond.cSysOverflow ||| Cond.cSysUnderflow)).any = (r.sysOverflow || r.sysUnderflow) := by
  simp [HAnd.hAnd, AndOp.and, Cond.and, HOr.hOr, OrOp.or, Cond.or, Cond.any, Cond.cSysOverflow, Cond.cSysUnderflow]

theorem cond_clear_inexact_rounded (r : Cond) :
    r &&& condNot (Cond.cInexact ||| Cond.cRounded) = { r with inexact := false, rounded := false } := by
  rcases r with ⟨b0, b1, b2, b3, b4, b5, b6, b7, b8, b9, b10, b11⟩
  simp [HAnd.hAnd, AndOp.and, Cond.and, HOr.hOr, OrOp.or, Cond.or, condNot, Cond.cInexact, Cond.cRounded]

theorem goError_zero (t : Cond) : goError t {} = .none := by
  simp [goError, HAnd.hAnd, AndOp.and, Cond.and, Cond.any]

theorem cond_or_assoc (a b c : Cond) : a ||| b ||| c = a ||| (b ||| c) := by
  simp [HOr.hOr, OrOp.or, Cond.or, Bool.or_assoc]

theorem cond_zero_or (a : Cond) : ({} : Cond) ||| a = a := by
  simp [HOr.hOr, OrOp.or, Cond.or]

theorem cond_or_zero (a : Cond) : a ||| ({} : Cond) = a := by
  simp [HOr.hOr, OrOp.or, Cond.or]

/-! ## projections of conditionals -/

theorem ite_fst {α β : Type} (c : Prop) [Decidable c] (p q : α × β) :
    (if c then p else q).1 = if c then p.1 else q.1 := by split <;> rfl

theorem ite_snd {α β : Type} (c : Prop) [Decidable c] (p q : α × β) :
    (if c then p else q).2 = if c then p.2 else q.2 := by split <;> rfl

/-! ## comparison of a discarded fraction with one half -/

theorem cmpNat_half_one (m : Nat) : cmpNat m 5 = cmpNat (2 * m) 10 := by
  unfold cmpNat; split_ifs <;> first | rfl | omega

/-- `frac.Cmp(decimalHalf)` for the fraction `m · 10^(-k)` (`0 < m < 10^k`) is the comparison of `2m` with `10^k`
that `Imp/Ops.lean` uses -/
theorem cmp_half (m k : Nat) (hk : 0 < k) (hm : m < 10 ^ k) (hm0 : m ≠ 0) :
    Dec.cmp { form := .finite, neg := false, exp := -(k : Int), coeff := m } decimalHalf = cmpNat (2 * m) (10 ^ k) := by
  have hmpos : 0 < m := Nat.pos_of_ne_zero hm0
  have hs : (Dec.sign { form := .finite, neg := false, exp := -(k : Int), coeff := m }) = 1 := by
    simp [Dec.sign, hm0]
  have hh : Dec.sign ({ form := .finite, neg := false, exp := -1, coeff := 5 } : Dec) = 1 := by decide
  have hnd5 : ndigits 5 = 1 := by decide
  unfold Dec.cmp
  simp only [decimalHalf]
  simp only [hs, hh]
  by_cases hk1 : k = 1
  · subst hk1
    simp [cmpNat_half_one]
  · have hk2 : 2 ≤ k := by omega
    have hne : ((-(k : Int)) == (-1 : Int)) = false := by
      simp; omega
    have hle : ndigits m ≤ k := (ndigits_le_iff m k hmpos (by omega)).2 hm
    have hpk : 10 ^ k = 10 * 10 ^ (k - 1) := by
      rw [← Nat.pow_succ']; congr 1; omega
    simp only [hne, hnd5]
    by_cases hlt : ndigits m < k
    · have h1 : ((ndigits m : Int) + -(k : Int) < 0) := by omega
      have hm' : m < 10 ^ (k - 1) := by
        have := (ndigits_spec m hmpos).2
        exact Nat.lt_of_lt_of_le this (Nat.pow_le_pow_right (by decide) (by omega))
      have : cmpNat (2 * m) (10 ^ k) = -1 := by
        unfold cmpNat; rw [hpk]; split_ifs <;> first | rfl | omega
      simp [h1, this]
    · have heq : ndigits m = k := by omega
      have h1 : ¬ ((ndigits m : Int) + -(k : Int) < 0) := by omega
      have h2 : ¬ (0 < (ndigits m : Int) + -(k : Int)) := by omega
      have h3 : (1 < (k : Int)) := by omega
      have h4 : ((-1 : Int) + (k : Int)).toNat = k - 1 := by omega
      have : cmpNat m (5 * 10 ^ (k - 1)) = cmpNat (2 * m) (10 ^ k) := by
        unfold cmpNat; rw [hpk]; split_ifs <;> first | rfl | omega
      simp [h1, h2, h3, h4, this]

/-- `Modf` of a local with a non-positive exponent: quotient and remainder by the power of ten (also when the
exponent exceeds the digit count, where Go takes a shortcut) -/
theorem modf_nonpos (tc : Nat) (tn : Bool) (e : Int) (he : e ≤ 0) :
    modf { form := .finite, neg := tn, exp := e, coeff := tc } =
      ({ form := .finite, neg := tn, exp := 0, coeff := tc / 10 ^ (-e).toNat },
       { form := .finite, neg := tn, exp := e, coeff := tc % 10 ^ (-e).toNat }) := by
  unfold modf
  have h0 : ¬ (e > 0) := by omega
  simp only [h0, if_false]
  by_cases h1 : -e > (ndigits tc : Int)
  · simp only [h1, if_true]
    have hlt : tc < 10 ^ (-e).toNat := by
      by_cases hz : tc = 0
      · subst hz; exact Nat.pow_pos (by decide)
      · have := (ndigits_spec tc (Nat.pos_of_ne_zero hz)).2
        exact Nat.lt_of_lt_of_le this (Nat.pow_le_pow_right (by decide) (by omega))
    rw [Nat.div_eq_of_lt hlt, Nat.mod_eq_of_lt hlt]
  · simp only [h1, if_false]

/-! ## the loop of `setExponent` -/

theorem setExponent_loop (xs : List Int) (s : Int) :
    Decimal_setExponent_loop1 xs s =
      match checkXs xs with
      | some fl => Sum.inl fl
      | none => Sum.inr (s + sumInts xs) := by
  induction xs generalizing s with
  | nil => simp [Decimal_setExponent_loop1, checkXs, sumInts]
  | cons x xs ih =>
    unfold Decimal_setExponent_loop1 checkXs
    by_cases h1 : x > 100000
    · simp [h1, MaxExponent]
    · by_cases h2 : x < -100000
      · simp [h1, h2, MaxExponent, MinExponent]
      · simp only [h1, h2, MaxExponent, MinExponent, decide_false, decide_true, if_false, Bool.false_eq_true, ih, sumInts]
        cases checkXs xs <;> simp [Int.add_assoc]

/-! ## the loops of `Decimal.Reduce` and `stripZeros` -/

/-- a number has one decomposition `s · 10^t` with `s` not divisible by ten -/
theorem strip_unique : ∀ (t t' s s' : Nat), s % 10 ≠ 0 → s' % 10 ≠ 0 → s * 10 ^ t = s' * 10 ^ t' → s = s' ∧ t = t' := by
  intro t
  induction t with
  | zero =>
    intro t' s s' hs hs' e
    cases t' with
    | zero => simpa using e
    | succ t' =>
      exfalso
      rw [Nat.pow_zero, Nat.mul_one, Nat.pow_succ, ← Nat.mul_assoc] at e
      omega
  | succ t ih =>
    intro t' s s' hs hs' e
    cases t' with
    | zero =>
      exfalso
      rw [Nat.pow_zero, Nat.mul_one, Nat.pow_succ, ← Nat.mul_assoc] at e
      omega
    | succ t' =>
      rw [Nat.pow_succ, Nat.pow_succ, ← Nat.mul_assoc, ← Nat.mul_assoc] at e
      have e' : s * 10 ^ t = s' * 10 ^ t' := Nat.eq_of_mul_eq_mul_right (by decide : 0 < 10) e
      obtain ⟨a, b⟩ := ih t' s s' hs hs' e'
      exact ⟨a, by omega⟩

theorem stripZeros_eq (n s t : Nat) (hn : n ≠ 0) (hs : s % 10 ≠ 0) (e : s * 10 ^ t = n) :
    stripZeros n = (s, t) := by
  obtain ⟨a, b⟩ := Apd.C19L.stripZeros_spec n hn
  obtain ⟨c, d⟩ := strip_unique t (stripZeros n).2 s (stripZeros n).1 hs b (by rw [e, a])
  rw [Prod.ext_iff]; exact ⟨c.symm, d.symm⟩

/-- the `i >= 10000 && i%10000 == 0` loop: removes zeros four at a time -/
theorem reduce_loop1 : ∀ (fuel i : Nat) (nd : Int) (h : Heap), i ≠ 0 → i < fuel →
    ∃ j m : Nat, run (Decimal_Reduce_loop1 fuel i nd) h = ((j, nd + (m : Int)), h) ∧ j * 10 ^ m = i ∧ j ≠ 0 := by
  intro fuel
  induction fuel with
  | zero => intro i nd h _ hf; omega
  | succ f ih =>
    intro i nd h hi hf
    unfold Decimal_Reduce_loop1
    by_cases hc : i ≥ 10000 ∧ i % 10000 = 0
    · have hc' : (decide (i ≥ 10000) && i % 10000 == 0) = true := by simp [hc.1, hc.2]
      simp only [hc', if_true]
      obtain ⟨j, m, e1, e2, e3⟩ := ih (i / 10000) (nd + 4) h (by omega) (by omega)
      refine ⟨j, m + 4, ?_, ?_, e3⟩
      · rw [e1]; congr 2; push_cast; omega
      · rw [Nat.pow_add, ← Nat.mul_assoc, e2]; omega
    · have hc' : (decide (i ≥ 10000) && i % 10000 == 0) = false := by
        by_cases h1 : i ≥ 10000
        · have : i % 10000 ≠ 0 := fun e => hc ⟨h1, e⟩
          simp [h1, this]
        · simp [h1]
      simp only [hc', Bool.false_eq_true, if_false]
      exact ⟨i, 0, by simp, by simp, hi⟩

/-- the `i%10 == 0` loop -/
theorem reduce_loop2 : ∀ (fuel i : Nat) (nd : Int) (h : Heap), i ≠ 0 → i < fuel →
    ∃ j m : Nat, run (Decimal_Reduce_loop2 fuel i nd) h = ((j, nd + (m : Int)), h) ∧ j * 10 ^ m = i ∧ j % 10 ≠ 0 := by
  intro fuel
  induction fuel with
  | zero => intro i nd h _ hf; omega
  | succ f ih =>
    intro i nd h hi hf
    unfold Decimal_Reduce_loop2
    by_cases hc : i % 10 = 0
    · have hc' : (i % 10 == 0) = true := by simp [hc]
      simp only [hc', if_true]
      obtain ⟨j, m, e1, e2, e3⟩ := ih (i / 10) (nd + 1) h (by omega) (by omega)
      refine ⟨j, m + 1, ?_, ?_, e3⟩
      · rw [e1]; congr 2; push_cast; omega
      · rw [Nat.pow_succ, ← Nat.mul_assoc, e2]; omega
    · have hc' : (i % 10 == 0) = false := by simp [hc]
      simp only [hc', Bool.false_eq_true, if_false]
      exact ⟨i, 0, by simp, by simp, hc⟩

/-- the two `uint64` loops together compute `stripZeros` -/
theorem reduce_loops12 (fuel i : Nat) (h : Heap) (hi : i ≠ 0) (hf : i < fuel) :
    ∃ j1 m1 : Nat, run (Decimal_Reduce_loop1 fuel i 0) h = ((j1, ((m1 : Nat) : Int)), h) ∧
      ∃ m2 : Nat, run (Decimal_Reduce_loop2 fuel j1 (m1 : Int)) h =
        (((stripZeros i).1, ((m1 : Int) + (m2 : Int))), h) ∧ m1 + m2 = (stripZeros i).2 := by
  obtain ⟨j1, m1, e1, e2, e3⟩ := reduce_loop1 fuel i 0 h hi hf
  have hj1 : j1 ≤ i := by
    rw [← e2]; exact Nat.le_mul_of_pos_right _ (Nat.pow_pos (by decide))
  obtain ⟨j2, m2, f1, f2, f3⟩ := reduce_loop2 fuel j1 (m1 : Int) h e3 (by omega)
  have hs : stripZeros i = (j2, m2 + m1) := by
    apply stripZeros_eq i j2 (m2 + m1) hi f3
    rw [Nat.pow_add, ← Nat.mul_assoc, f2, e2]
  refine ⟨j1, m1, by simpa using e1, m2, ?_, ?_⟩
  · rw [f1, hs]
  · rw [hs]; simp; omega

/-- the big-integer loop: divides the destination's coefficient by ten while the remainder is zero -/
theorem reduce_loop3 (d : Cell) : ∀ (fuel : Nat) (nd : Int) (r z : Nat) (h : Heap),
    (h d).coeff ≠ 0 → (h d).coeff < fuel →
    ∃ (m r' z' : Nat), run (Decimal_Reduce_loop3 d fuel nd r z) h =
        ((nd + (m : Int), r', z'), h.set d { h d with coeff := (stripZeros (h d).coeff).1 }) ∧
      m = (stripZeros (h d).coeff).2 := by
  intro fuel
  induction fuel with
  | zero => intro nd r z h _ hf; omega
  | succ f ih =>
    intro nd r z h hc hf
    unfold Decimal_Reduce_loop3
    simp only [run_bind, run_rdCoeff, Src.val_cell, run_ite, run_wrCoeff, run_pure, Apd.Gen.bigTen, natSign]
    by_cases h0 : (h d).coeff % 10 = 0
    · have hq : (h d).coeff / 10 ≠ 0 := by omega
      obtain ⟨m, r', z', e1, e2⟩ := ih (nd + 1) 0 ((h d).coeff / 10)
        (h.set d { h d with coeff := (h d).coeff / 10 }) (by simpa using hq) (by simp; omega)
      have hs : stripZeros (h d).coeff =
          ((stripZeros ((h d).coeff / 10)).1, (stripZeros ((h d).coeff / 10)).2 + 1) := by
        obtain ⟨a, b⟩ := Apd.C19L.stripZeros_spec ((h d).coeff / 10) hq
        apply stripZeros_eq _ _ _ hc b
        rw [Nat.pow_succ, ← Nat.mul_assoc, a]; omega
      refine ⟨m + 1, r', z', ?_, ?_⟩
      · simp only [h0, beq_self_eq_true, if_true]
        simp only [Heap.set_same, Heap.set_set] at e1
        rw [e1, hs]; congr 2; push_cast; omega
      · simp only [Heap.set_same] at e2
        rw [hs, e2]
    · have hs : stripZeros (h d).coeff = ((h d).coeff, 0) :=
        stripZeros_eq _ _ _ hc h0 (by simp)
      refine ⟨0, (h d).coeff % 10, (h d).coeff / 10, ?_, by rw [hs]⟩
      have hb : ((if ((h d).coeff % 10 == 0) = true then (0 : Int) else 1) == 0) = false := by simp [h0]
      have hself : h.set d { h d with coeff := (h d).coeff } = h := by
        have : ({ h d with coeff := (h d).coeff } : Dec) = h d := rfl
        rw [this, Heap.set_self]
      simp only [hb, Bool.false_eq_true, if_false, hs, hself]
      simp

end Apd.Props
