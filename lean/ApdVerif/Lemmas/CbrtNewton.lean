import Mathlib.Analysis.SpecialFunctions.Pow.Real
import Mathlib.Tactic.Linarith
import Mathlib.Tactic.Positivity
import Mathlib.Tactic.Ring
import Mathlib.Tactic.NormNum
import Mathlib.Tactic.FieldSimp
/-!
# Newton's iteration for the cube root with rounded operations — the numerical core (over ℝ)

`Context.Cbrt` repeats `z ← (2·z0 + X/z0²)/3` at `2P+2` digits (five rounded operations, each with a relative
error of at most `ε = 5·10^(-2P-2)`) and stops as soon as two consecutive iterates differ by at most
`η·z`, `η ≈ 10^(-P)`.  This file shows that the stopping rule ALONE forces the last iterate to be within
`3·10^(-2P)` (relative) of the cube root — whatever the previous iterate was.

Everything is parametrised by `t = 10^(-P) ∈ (0, 1/10]`: `η = 1.001·t`, `ε = t²/20`.
-/
namespace Apd.CbrtN

/-- product of two factors near one -/
theorem mul_near {f g α β : ℝ} (hf : |f - 1| ≤ α) (hg : |g - 1| ≤ β) : |f * g - 1| ≤ α + β + α * β := by
  have e : f * g - 1 = (f - 1) * (g - 1) + (f - 1) + (g - 1) := by ring
  have h1 : |(f - 1) * (g - 1)| ≤ α * β := by
    rw [abs_mul]; exact mul_le_mul hf hg (abs_nonneg _) (le_trans (abs_nonneg _) hf)
  rw [e]
  have a1 := abs_add_le ((f - 1) * (g - 1) + (f - 1)) (g - 1)
  have a2 := abs_add_le ((f - 1) * (g - 1)) (f - 1)
  linarith

/-- the inverse of a factor near one -/
theorem inv_near {e u : ℝ} (hu : u ≤ 1 / 2000) (he : |e| ≤ u) : |1 / (1 + e) - 1| ≤ 1001 / 1000 * u := by
  obtain ⟨h1, h2⟩ := abs_le.mp he
  have hu0 : 0 ≤ u := le_trans (abs_nonneg _) he
  have hpos : 0 < 1 + e := by linarith
  have e1 : 1 / (1 + e) - 1 = -e / (1 + e) := by field_simp; ring
  rw [e1, abs_div, abs_neg, abs_of_pos hpos, div_le_iff₀ hpos]
  calc |e| ≤ u := he
    _ ≤ 1001 / 1000 * u * (1 + e) := by nlinarith

theorem near_of_abs {e u : ℝ} (he : |e| ≤ u) : |(1 + e) - 1| ≤ u := by
  simpa using he

/-- scaling a positive quantity by a factor near one -/
theorem scale_near {A F α : ℝ} (hA : 0 ≤ A) (hF : |F - 1| ≤ α) : |A * F - A| ≤ α * A := by
  have : A * F - A = A * (F - 1) := by ring
  rw [this, abs_mul, abs_of_nonneg hA]
  calc A * |F - 1| ≤ A * α := mul_le_mul_of_nonneg_left hF hA
    _ = α * A := mul_comm _ _

/-- **five rounded operations of one round**: the result is the exact Newton step times `1 + θ`,
`|θ| ≤ 5.02·u` -/
theorem perturb5 (X z0 t1 t2 t3 t4 z e1 e2 e3 e4 e5 u : ℝ) (hX : 0 < X) (hz : 0 < z0)
    (hu : u ≤ 1 / 2000)
    (h1 : |e1| ≤ u) (h2 : |e2| ≤ u) (h3 : |e3| ≤ u) (h4 : |e4| ≤ u) (h5 : |e5| ≤ u)
    (d1 : t1 = z0 * z0 * (1 + e1)) (d2 : t2 = X / t1 * (1 + e2)) (d3 : t3 = (t2 + z0) * (1 + e3))
    (d4 : t4 = (t3 + z0) * (1 + e4)) (d5 : z = t4 / 3 * (1 + e5)) :
    |z - (2 * z0 + X / (z0 * z0)) / 3| ≤ 502 / 100 * u * ((2 * z0 + X / (z0 * z0)) / 3) := by
  have hu0 : 0 ≤ u := le_trans (abs_nonneg _) h1
  have hp1 : 0 < 1 + e1 := by have := (abs_le.mp h1).1; linarith
  have hzz : 0 < z0 * z0 := mul_pos hz hz
  obtain ⟨Q, hQ⟩ : ∃ Q, Q = X / (z0 * z0) := ⟨_, rfl⟩
  have hQ0 : 0 < Q := by rw [hQ]; exact div_pos hX hzz
  rw [← hQ]
  -- the five factors
  have n1 := inv_near hu h1
  have n2 := near_of_abs h2
  have n3 := near_of_abs h3
  have n4 := near_of_abs h4
  have n5 := near_of_abs h5
  -- products of 2 .. 5 factors
  have p45 : |(1 + e4) * (1 + e5) - 1| ≤ 2002 / 1000 * u := by
    have := mul_near n4 n5; nlinarith
  have p345 : |(1 + e3) * ((1 + e4) * (1 + e5)) - 1| ≤ 3004 / 1000 * u := by
    have := mul_near n3 p45; nlinarith
  have p2345 : |(1 + e2) * ((1 + e3) * ((1 + e4) * (1 + e5))) - 1| ≤ 4007 / 1000 * u := by
    have := mul_near n2 p345; nlinarith
  have p12345 : |1 / (1 + e1) * ((1 + e2) * ((1 + e3) * ((1 + e4) * (1 + e5)))) - 1| ≤ 502 / 100 * u := by
    have := mul_near n1 p2345; nlinarith
  -- decomposition of z
  have hz' : z = Q / 3 * (1 / (1 + e1) * ((1 + e2) * ((1 + e3) * ((1 + e4) * (1 + e5))))) +
      z0 / 3 * ((1 + e3) * ((1 + e4) * (1 + e5))) + z0 / 3 * ((1 + e4) * (1 + e5)) := by
    rw [d5, d4, d3, d2, d1, hQ]
    field_simp
  have s1 := scale_near (A := Q / 3) (by positivity) p12345
  have s2 := scale_near (A := z0 / 3) (by positivity) p345
  have s3 := scale_near (A := z0 / 3) (by positivity) p45
  have e : z - (2 * z0 + Q) / 3 =
      (Q / 3 * (1 / (1 + e1) * ((1 + e2) * ((1 + e3) * ((1 + e4) * (1 + e5))))) - Q / 3) +
      (z0 / 3 * ((1 + e3) * ((1 + e4) * (1 + e5))) - z0 / 3) +
      (z0 / 3 * ((1 + e4) * (1 + e5)) - z0 / 3) := by rw [hz']; ring
  rw [e]
  have a1 := abs_add_le ((Q / 3 * (1 / (1 + e1) * ((1 + e2) * ((1 + e3) * ((1 + e4) * (1 + e5))))) - Q / 3) +
      (z0 / 3 * ((1 + e3) * ((1 + e4) * (1 + e5))) - z0 / 3)) (z0 / 3 * ((1 + e4) * (1 + e5)) - z0 / 3)
  have a2 := abs_add_le (Q / 3 * (1 / (1 + e1) * ((1 + e2) * ((1 + e3) * ((1 + e4) * (1 + e5))))) - Q / 3)
      (z0 / 3 * ((1 + e3) * ((1 + e4) * (1 + e5))) - z0 / 3)
  have hz3 : 0 ≤ u * z0 := by positivity
  have hq3 : 0 ≤ u * Q := by positivity
  linarith


theorem cube_range (a : ℝ) (ha : 0 < a) (bhi : a ^ 3 ≤ 13892 / 10000) (blo : 7437 / 10000 ≤ a ^ 3) :
    9 / 10 ≤ a ∧ a ≤ 112 / 100 := by
  constructor
  · by_contra h
    have h := lt_of_not_ge h
    have h2 : a * a < 81 / 100 := by nlinarith
    have h3 : a * a * a < 729 / 1000 := by nlinarith
    have : a ^ 3 = a * a * a := by ring
    linarith
  · by_contra h
    have h := lt_of_not_ge h
    have h2 : 12544 / 10000 < a * a := by nlinarith
    have h3 : 1404928 / 1000000 < a * a * a := by nlinarith
    have : a ^ 3 = a * a * a := by ring
    linarith

/-- the exact Newton step `n` exceeds the root by about the square of the distance of `a` from it -/
theorem newton_excess (a n K : ℝ) (alo : 9 / 10 ≤ a)
    (bhi : a ^ 3 ≤ 13892 / 10000)
    (hn : 3 * a ^ 2 * n = 2 * a ^ 3 + 1) (hK0 : 0 ≤ K)
    (c1 : a ^ 3 - 1 ≤ K * (2 * a ^ 3 + 1)) (c2 : 1 - a ^ 3 ≤ K * (2 * a ^ 3 + 1)) :
    0 ≤ n - 1 ∧ n - 1 ≤ 16 / 10 * K ^ 2 := by
  have ha : 0 < a := by linarith
  have ha2 : 0 < a ^ 2 := by positivity
  have e4 : 3 * a ^ 2 * (n - 1) = (a - 1) ^ 2 * (2 * a + 1) := by linear_combination hn
  have hn1 : 0 ≤ n - 1 := by
    have h : 0 ≤ 3 * a ^ 2 * (n - 1) := by rw [e4]; positivity
    by_contra hneg
    have hneg := lt_of_not_ge hneg
    nlinarith
  refine ⟨hn1, ?_⟩
  rcases le_total 1 a with h1a | h1a
  · -- a ≥ 1
    have g1 : 3 * (a - 1) ≤ a ^ 3 - 1 := by
      nlinarith [mul_nonneg (sq_nonneg (a - 1)) (show (0 : ℝ) ≤ a + 2 by linarith)]
    have g2 : K * (2 * a ^ 3 + 1) ≤ K * (37784 / 10000) :=
      mul_le_mul_of_nonneg_left (by linarith) hK0
    have g3 : a - 1 ≤ 126 / 100 * K := by linarith
    have g4 : (a - 1) ^ 2 ≤ (126 / 100 * K) ^ 2 := pow_le_pow_left₀ (by linarith) g3 2
    have g5 : 3 * a ^ 2 * (n - 1) ≤ 3 * a ^ 2 * (a - 1) ^ 2 := by
      rw [e4]
      have : 2 * a + 1 ≤ 3 * a ^ 2 := by nlinarith
      have := mul_le_mul_of_nonneg_left this (sq_nonneg (a - 1))
      linarith
    have g6 : n - 1 ≤ (a - 1) ^ 2 := le_of_mul_le_mul_left g5 (by positivity)
    have : (126 / 100 * K) ^ 2 = 15876 / 10000 * K ^ 2 := by ring
    have hK2 : 0 ≤ K ^ 2 := sq_nonneg K
    linarith
  · -- a ≤ 1
    have g1 : 271 / 100 * (1 - a) ≤ 1 - a ^ 3 := by
      have : 1 - a ^ 3 = (1 - a) * (a ^ 2 + a + 1) := by ring
      rw [this]
      have h271 : 271 / 100 ≤ a ^ 2 + a + 1 := by nlinarith
      have := mul_le_mul_of_nonneg_left h271 (show (0 : ℝ) ≤ 1 - a by linarith)
      linarith
    have ha31 : a ^ 3 ≤ 1 := by
      have : a ^ 3 ≤ 1 ^ 3 := pow_le_pow_left₀ ha.le h1a 3
      simpa using this
    have g2 : K * (2 * a ^ 3 + 1) ≤ K * 3 :=
      mul_le_mul_of_nonneg_left (by linarith) hK0
    have g3 : 1 - a ≤ 111 / 100 * K := by linarith
    have g4 : (1 - a) ^ 2 ≤ (111 / 100 * K) ^ 2 := pow_le_pow_left₀ (by linarith) g3 2
    have h243 : 243 / 100 ≤ 3 * a ^ 2 := by nlinarith
    have hA : 243 / 100 * (n - 1) ≤ 3 * a ^ 2 * (n - 1) := mul_le_mul_of_nonneg_right h243 hn1
    have hB : (a - 1) ^ 2 * (2 * a + 1) ≤ (a - 1) ^ 2 * 3 :=
      mul_le_mul_of_nonneg_left (by linarith) (sq_nonneg _)
    rw [e4] at hA
    have e5 : (a - 1) ^ 2 = (1 - a) ^ 2 := by ring
    rw [e5] at hB hA
    have : (111 / 100 * K) ^ 2 = 12321 / 10000 * K ^ 2 := by ring
    have hK2 : 0 ≤ K ^ 2 := sq_nonneg K
    linarith

/-- **the stopping rule forces closeness**, normalised to root `1`: `a = z0/r`, `n = N/r` the exact Newton
step, `w = z/r` the computed one -/
theorem core (a n w t : ℝ) (ha : 0 < a) (ht : 0 < t) (ht1 : t ≤ 1 / 10)
    (hn : 3 * a ^ 2 * n = 2 * a ^ 3 + 1)
    (hw : |w - n| ≤ 51 / 200 * t ^ 2 * n)
    (hs : |a - w| ≤ 1001 / 1000 * t * w) : |w - 1| ≤ 5 / 2 * t ^ 2 := by
  have ha2 : 0 < a ^ 2 := by positivity
  have ha3 : 0 < a ^ 3 := by positivity
  have hn0 : 0 < n := by
    by_contra h
    have h := le_of_not_gt h
    have := mul_nonneg ha2.le (neg_nonneg.mpr h)
    nlinarith
  obtain ⟨w1, w2⟩ := abs_le.mp hw
  obtain ⟨s1, s2⟩ := abs_le.mp hs
  have ht2 : t ^ 2 ≤ 1 / 100 := by nlinarith
  have ht20 : 0 < t ^ 2 := by positivity
  obtain ⟨θ, hθ⟩ : ∃ θ, θ = 51 / 200 * t ^ 2 := ⟨_, rfl⟩
  rw [← hθ] at w1 w2
  have hθ0 : 0 < θ := by rw [hθ]; positivity
  have hθ1 : θ ≤ 51 / 20000 := by rw [hθ]; linarith
  have hθt : θ ≤ 51 / 2000 * t := by rw [hθ]; nlinarith
  have hθn : θ * n ≤ 51 / 2000 * t * n := mul_le_mul_of_nonneg_right hθt hn0.le
  have hθn1 : θ * n ≤ 51 / 20000 * n := mul_le_mul_of_nonneg_right hθ1 hn0.le
  have hw0 : 0 < w := by linarith
  have hwn : w ≤ 20051 / 20000 * n := by linarith
  have htw : t * w ≤ t * (20051 / 20000 * n) := mul_le_mul_of_nonneg_left hwn ht.le
  have htn : 0 < t * n := mul_pos ht hn0
  have k1 : a - n ≤ 103 / 100 * t * n := by linarith
  have k2 : n - a ≤ 103 / 100 * t * n := by linarith
  -- cubes
  have e1 : 3 * a ^ 2 * (a - n) = a ^ 3 - 1 := by linear_combination (-1) * hn
  have e2 : 3 * a ^ 2 * (103 / 100 * t * n) = 103 / 100 * t * (2 * a ^ 3 + 1) := by
    linear_combination (103 / 100 * t) * hn
  have hK : 103 / 100 * t ≤ 103 / 1000 := by linarith
  have hK0 : 0 ≤ 103 / 100 * t := by positivity
  have hKb : 103 / 100 * t * (2 * a ^ 3 + 1) ≤ 103 / 1000 * (2 * a ^ 3 + 1) :=
    mul_le_mul_of_nonneg_right hK (by positivity)
  have c1 : a ^ 3 - 1 ≤ 103 / 100 * t * (2 * a ^ 3 + 1) := by
    have := mul_le_mul_of_nonneg_left k1 (show (0 : ℝ) ≤ 3 * a ^ 2 by positivity)
    rw [e1, e2] at this; exact this
  have c2 : 1 - a ^ 3 ≤ 103 / 100 * t * (2 * a ^ 3 + 1) := by
    have := mul_le_mul_of_nonneg_left k2 (show (0 : ℝ) ≤ 3 * a ^ 2 by positivity)
    rw [e2] at this
    have e3 : 3 * a ^ 2 * (n - a) = 1 - a ^ 3 := by linear_combination hn
    rw [e3] at this; exact this
  have bhi : a ^ 3 ≤ 13892 / 10000 := by linarith
  have blo : 7437 / 10000 ≤ a ^ 3 := by linarith
  obtain ⟨alo, ahi⟩ := cube_range a ha bhi blo
  obtain ⟨hn1, hnb⟩ := newton_excess a n (103 / 100 * t) alo bhi hn hK0 c1 c2
  have hnb' : n - 1 ≤ 17 / 10 * t ^ 2 := by
    have : (103 / 100 * t) ^ 2 = 10609 / 10000 * t ^ 2 := by ring
    rw [this] at hnb
    linarith
  have hθn2 : θ * (n - 1) ≤ 51 / 20000 * (n - 1) := mul_le_mul_of_nonneg_right hθ1 hn1
  have hθn3 : 0 ≤ θ * (n - 1) := mul_nonneg hθ0.le hn1
  rw [abs_le]
  constructor
  · linarith
  · linarith


/-- the same for a root `r`: `X = r³`, `N` the exact Newton step from `z0`, `z` within `5.02·ε` of it and
within `1.001·t` of `z0` -/
theorem newton_stop (X r z0 z t : ℝ) (hr : 0 < r) (hX : X = r ^ 3) (hz0 : 0 < z0) (ht : 0 < t) (ht1 : t ≤ 1 / 10)
    (hN : |z - (2 * z0 + X / (z0 * z0)) / 3| ≤ 502 / 100 * (t ^ 2 / 20) * ((2 * z0 + X / (z0 * z0)) / 3))
    (hs : |z0 - z| ≤ 1001 / 1000 * t * z) :
    z * (1 - 3 * t ^ 2) ≤ r ∧ r ≤ z * (1 + 3 * t ^ 2) := by
  obtain ⟨N, hNd⟩ : ∃ N, N = (2 * z0 + X / (z0 * z0)) / 3 := ⟨_, rfl⟩
  rw [← hNd] at hN
  have hN0 : 0 < N := by rw [hNd, hX]; positivity
  have hn : 3 * (z0 / r) ^ 2 * (N / r) = 2 * (z0 / r) ^ 3 + 1 := by
    rw [hNd, hX]; field_simp
  have hw : |z / r - N / r| ≤ 51 / 200 * t ^ 2 * (N / r) := by
    have e : z / r - N / r = (z - N) / r := by ring
    rw [e, abs_div, abs_of_pos hr, div_le_iff₀ hr]
    have e2 : 51 / 200 * t ^ 2 * (N / r) * r = 51 / 200 * t ^ 2 * N := by field_simp
    rw [e2]
    have : 0 ≤ t ^ 2 * N := by positivity
    linarith
  have hs' : |z0 / r - z / r| ≤ 1001 / 1000 * t * (z / r) := by
    have e : z0 / r - z / r = (z0 - z) / r := by ring
    rw [e, abs_div, abs_of_pos hr, div_le_iff₀ hr]
    have e2 : 1001 / 1000 * t * (z / r) * r = 1001 / 1000 * t * z := by field_simp
    rw [e2]; exact hs
  have hc := core (z0 / r) (N / r) (z / r) t (by positivity) ht ht1 hn hw hs'
  have e3 : z / r - 1 = (z - r) / r := by field_simp
  rw [e3, abs_div, abs_of_pos hr, div_le_iff₀ hr] at hc
  obtain ⟨c1, c2⟩ := abs_le.mp hc
  have ht2 : t ^ 2 ≤ 1 / 100 := by nlinarith
  have ht20 : 0 < t ^ 2 := by positivity
  obtain ⟨T, hT⟩ : ∃ T, T = t ^ 2 := ⟨_, rfl⟩
  rw [← hT] at c1 c2 ht2 ht20 ⊢
  have hTr : 0 < T * r := mul_pos ht20 hr
  constructor
  · -- z ≤ r (1 + 2.5 T), (1 + 2.5T)(1 - 3T) ≤ 1
    have h1 : z * (1 - 3 * T) ≤ (r + 5 / 2 * T * r) * (1 - 3 * T) :=
      mul_le_mul_of_nonneg_right (by linarith) (by linarith)
    have h2 : (r + 5 / 2 * T * r) * (1 - 3 * T) = r - 1 / 2 * (T * r) - 15 / 2 * T * (T * r) := by ring
    have h3 : 0 ≤ T * (T * r) := by positivity
    linarith
  · have h1 : (r - 5 / 2 * T * r) * (1 + 3 * T) ≤ z * (1 + 3 * T) :=
      mul_le_mul_of_nonneg_right (by linarith) (by linarith)
    have h2 : (r - 5 / 2 * T * r) * (1 + 3 * T) = r + 1 / 2 * (T * r) - 15 / 2 * T * (T * r) := by ring
    have h3 : T * (T * r) ≤ 1 / 100 * (T * r) := mul_le_mul_of_nonneg_right ht2 hTr.le
    linarith

/-- **the iterate at which `Cbrt` stops is within `3·t²` of the cube root** — stated on rationals, with
cubes instead of a root.  `t = 10^(-P)`; `e1 … e5` are the relative errors of the five operations of the
last round (`ε = 5·10^(-2P-2) = t²/20`); `hs` is the stopping rule. -/
theorem newton_stop_rat (X z0 t1 t2 t3 t4 z e1 e2 e3 e4 e5 t : ℚ) (hX : 0 < X) (hz0 : 0 < z0)
    (ht : 0 < t) (ht1 : t ≤ 1 / 10)
    (h1 : |e1| ≤ t ^ 2 / 20) (h2 : |e2| ≤ t ^ 2 / 20) (h3 : |e3| ≤ t ^ 2 / 20) (h4 : |e4| ≤ t ^ 2 / 20)
    (h5 : |e5| ≤ t ^ 2 / 20)
    (d1 : t1 = z0 * z0 * (1 + e1)) (d2 : t2 = X / t1 * (1 + e2)) (d3 : t3 = (t2 + z0) * (1 + e3))
    (d4 : t4 = (t3 + z0) * (1 + e4)) (d5 : z = t4 / 3 * (1 + e5))
    (hs : |z0 - z| ≤ 1001 / 1000 * t * z) :
    (z * (1 - 3 * t ^ 2)) ^ 3 ≤ X ∧ X ≤ (z * (1 + 3 * t ^ 2)) ^ 3 := by
  have hXr : (0 : ℝ) < (X : ℝ) := by exact_mod_cast hX
  have hzr : (0 : ℝ) < (z0 : ℝ) := by exact_mod_cast hz0
  have htr : (0 : ℝ) < (t : ℝ) := by exact_mod_cast ht
  have ht1r : (t : ℝ) ≤ 1 / 10 := by
    have : ((t : ℚ) : ℝ) ≤ ((1 / 10 : ℚ) : ℝ) := by exact_mod_cast ht1
    simpa using this
  have cst : ∀ e : ℚ, |e| ≤ t ^ 2 / 20 → |(e : ℝ)| ≤ (t : ℝ) ^ 2 / 20 := by
    intro e he
    have : ((|e| : ℚ) : ℝ) ≤ ((t ^ 2 / 20 : ℚ) : ℝ) := by exact_mod_cast he
    simpa using this
  have hu : (t : ℝ) ^ 2 / 20 ≤ 1 / 2000 := by nlinarith
  have hp := perturb5 (X : ℝ) z0 t1 t2 t3 t4 z e1 e2 e3 e4 e5 ((t : ℝ) ^ 2 / 20) hXr hzr hu
    (cst _ h1) (cst _ h2) (cst _ h3) (cst _ h4) (cst _ h5)
    (by rw [d1]; push_cast; ring) (by rw [d2]; push_cast; ring) (by rw [d3]; push_cast; ring)
    (by rw [d4]; push_cast; ring) (by rw [d5]; push_cast; ring)
  have hsr : |(z0 : ℝ) - z| ≤ 1001 / 1000 * t * z := by
    have : ((|z0 - z| : ℚ) : ℝ) ≤ ((1001 / 1000 * t * z : ℚ) : ℝ) := by exact_mod_cast hs
    simpa using this
  -- the real cube root
  obtain ⟨r, hr0, hr3⟩ : ∃ r : ℝ, 0 < r ∧ (X : ℝ) = r ^ 3 := by
    refine ⟨(X : ℝ) ^ (((3 : ℕ) : ℝ)⁻¹), Real.rpow_pos_of_pos hXr _, ?_⟩
    exact (Real.rpow_inv_natCast_pow hXr.le (by norm_num)).symm
  obtain ⟨k1, k2⟩ := newton_stop (X : ℝ) r z0 z t hr0 hr3 hzr htr ht1r hp hsr
  have ht2 : (t : ℝ) ^ 2 ≤ 1 / 100 := by nlinarith
  have hz : (0 : ℝ) ≤ (z : ℝ) := by
    by_contra h
    have h := lt_of_not_ge h
    have := abs_nonneg ((z0 : ℝ) - z)
    have : 1001 / 1000 * (t : ℝ) * z < 0 := by
      have : 0 < 1001 / 1000 * (t : ℝ) := by positivity
      nlinarith
    linarith
  have b1 : (0 : ℝ) ≤ (z : ℝ) * (1 - 3 * (t : ℝ) ^ 2) := mul_nonneg hz (by linarith)
  have c1 : ((z : ℝ) * (1 - 3 * (t : ℝ) ^ 2)) ^ 3 ≤ r ^ 3 := pow_le_pow_left₀ b1 k1 3
  have c2 : r ^ 3 ≤ ((z : ℝ) * (1 + 3 * (t : ℝ) ^ 2)) ^ 3 := pow_le_pow_left₀ hr0.le k2 3
  rw [← hr3] at c1 c2
  constructor
  · have : (((z * (1 - 3 * t ^ 2)) ^ 3 : ℚ) : ℝ) ≤ ((X : ℚ) : ℝ) := by push_cast; exact c1
    exact_mod_cast this
  · have : ((X : ℚ) : ℝ) ≤ (((z * (1 + 3 * t ^ 2)) ^ 3 : ℚ) : ℝ) := by push_cast; exact c2
    exact_mod_cast this

end Apd.CbrtN

#print axioms Apd.CbrtN.newton_stop_rat
