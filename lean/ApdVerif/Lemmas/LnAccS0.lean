import ApdVerif.Lemmas.LnAccS
/-!
# `Ln`: facts about the operand and its rescaling; the unscaled series path S0
-/
namespace Apd.LnAcc
open Apd Apd.Oracle Apd.ExpAcc Apd.C12IL Apd.Props Cond

theorem cmp_zero_toRat (d x : Dec) (hd : d.form = .finite) (hx : x.form = .finite) (h : d.cmp x = 0) :
    d.toRat = x.toRat := by
  rw [C15L.cmp_finite d x hd hx, C15L.cmpInt_eq_zero_iff] at h
  rw [← signedScaled_toRat d (min d.exp x.exp) (min_le_left _ _),
    ← signedScaled_toRat x (min d.exp x.exp) (min_le_right _ _), h]

/-- a positive finite operand -/
structure PosFin (x : Dec) : Prop where
  fin : x.form = .finite
  pos : x.neg = false
  nz : x.coeff ≠ 0

theorem PosFin.rv_pos {x : Dec} (h : PosFin x) : 0 < rv x := by
  have : rv x = (x.coeff : ℝ) * (10 : ℝ) ^ x.exp := by
    rw [← abs_rv]; unfold rv Dec.toRat; rw [h.pos]; push_cast
    simp only [Bool.false_eq_true, if_false, one_mul]
    rw [abs_of_nonneg (by positivity)]
  rw [this]
  have : (0 : ℝ) < x.coeff := by exact_mod_cast Nat.pos_of_ne_zero h.nz
  positivity

theorem rv_ne_one_of_specials (c : Ctx) (x : Dec) (hx : PosFin x) (hsp : logSpecials c x = none) : rv x ≠ 1 := by
  intro h1
  unfold logSpecials at hsp
  have n1 : shouldSetAsNaN x none = false := by simp [shouldSetAsNaN, Dec.isNaN, hx.fin]
  have hs : ¬ x.sign < 0 := by
    unfold Dec.sign; rw [hx.fin, hx.pos]; simp; split <;> omega
  have n3 : (x.form == Form.infinite) = false := by rw [hx.fin]; rfl
  simp only [n1, hs, n3, Bool.false_eq_true, if_false] at hsp
  split_ifs at hsp with a b
  -- x.cmp decOne == 0 is false
  have hb : ¬ x.cmp decOne = 0 := by simpa using b
  apply hb
  rw [C15L.cmp_finite x decOne hx.fin rfl, C15L.cmpInt_eq_zero_iff]
  have e1 : x.toRat = decOne.toRat := by
    have : ((x.toRat : ℚ) : ℝ) = 1 := h1
    have h2 : (decOne.toRat : ℚ) = 1 := by unfold Dec.toRat decOne; simp
    rw [h2]; exact_mod_cast this
  have hp : (0 : ℚ) < (10 : ℚ) ^ (min x.exp decOne.exp) := zpow_pos (by norm_num) _
  rw [← signedScaled_toRat x (min x.exp decOne.exp) (min_le_left _ _),
    ← signedScaled_toRat decOne (min x.exp decOne.exp) (min_le_right _ _)] at e1
  have := mul_right_cancel₀ hp.ne' e1
  exact_mod_cast this

/-! ## rescaling -/

theorem lnZ_posFin (x : Dec) (hx : PosFin x) : PosFin (lnZ x) := ⟨hx.fin, hx.pos, hx.nz⟩

theorem rv_lnZ (x : Dec) (hx : PosFin x) : rv (lnZ x) = (x.coeff : ℝ) * (10 : ℝ) ^ (-(ndigits x.coeff : ℤ)) := by
  have h := (lnZ_posFin x hx)
  rw [← abs_of_pos h.rv_pos, abs_rv]
  unfold lnZ lnExpDelta
  simp only
  congr 2
  ring

theorem lnZ_range (x : Dec) (hx : PosFin x) : 1 / 10 ≤ rv (lnZ x) ∧ rv (lnZ x) < 1 := by
  rw [rv_lnZ x hx]
  obtain ⟨h1, h2⟩ := ndigits_spec x.coeff (Nat.pos_of_ne_zero hx.nz)
  have hnd := ndigits_pos x.coeff
  have hp : (0 : ℝ) < (10 : ℝ) ^ (ndigits x.coeff) := by positivity
  have e : (10 : ℝ) ^ (-(ndigits x.coeff : ℤ)) = ((10 : ℝ) ^ (ndigits x.coeff))⁻¹ := by
    rw [zpow_neg, zpow_natCast]
  rw [e, ← div_eq_mul_inv]
  constructor
  · rw [le_div_iff₀ hp]
    have : ((10 ^ (ndigits x.coeff - 1) : ℕ) : ℝ) ≤ (x.coeff : ℝ) := by exact_mod_cast h1
    have e2 : (10 : ℝ) ^ (ndigits x.coeff) = 10 * (10 : ℝ) ^ (ndigits x.coeff - 1) := by
      rw [← pow_succ']; congr 1; omega
    rw [e2]; push_cast at this; linarith
  · rw [div_lt_one hp]; exact_mod_cast h2

theorem rv_scale (x : Dec) (hx : PosFin x) : rv x = rv (lnZ x) * (10 : ℝ) ^ (lnExpDelta x) := by
  rw [rv_lnZ x hx]
  have : rv x = (x.coeff : ℝ) * (10 : ℝ) ^ x.exp := by
    rw [← abs_of_pos hx.rv_pos, abs_rv]
  rw [this, mul_assoc, ← zpow_add₀ (by norm_num : (10 : ℝ) ≠ 0)]
  unfold lnExpDelta
  congr 2; ring

theorem log_scale (x : Dec) (hx : PosFin x) :
    Real.log (rv x) = Real.log (rv (lnZ x)) + (lnExpDelta x : ℝ) * Real.log 10 := by
  have hz := (lnZ_posFin x hx).rv_pos
  rw [rv_scale x hx, Real.log_mul hz.ne' (zpow_pos (by norm_num) _).ne', Real.log_zpow]

theorem rv_lnRa0 (x : Dec) : rv (lnRa0 x) = (lnExpDelta x : ℝ) := by
  unfold rv lnRa0 Dec.toRat
  simp only [zpow_zero, mul_one]
  push_cast
  rw [Nat.cast_natAbs]
  by_cases h : lnExpDelta x < 0
  · have h' : ((lnExpDelta x : ℤ) : ℝ) < 0 := by exact_mod_cast h
    simp only [h, decide_true, if_true]
    push_cast
    rw [abs_of_neg h']; ring
  · have h' : (0 : ℝ) ≤ ((lnExpDelta x : ℤ) : ℝ) := by exact_mod_cast (not_lt.1 h)
    simp only [h, decide_false, Bool.false_eq_true, if_false, one_mul]
    push_cast
    rw [abs_of_nonneg h']; ring

/-! ## the series paths: common reduction -/

theorem lnSeries_inl_ne (eps tmp2 : Dec) : ∀ (fuel n : Nat) (e : ED) (t1 t3 : Dec) (e' : ED) (er : ErrKind),
    lnSeries eps tmp2 fuel n e t1 t3 = some (e', .inl er) → er ≠ .none :=
  TL.lnSeries_inl eps tmp2

theorem ser_body_cases (c : Ctx) (ed : ED) (w resAdjust : Dec) (tape r' : Tape) (o : Out)
    (h : lnFinish c (lnSerBody c ed w tape) resAdjust = some (o, r'))
    (hd : o.err = .none ∨ (o.err = .trap ∧ (o.fl &&& c.traps).any = true)) :
    ∃ e' t, lnSer c ed w = some (e', .inr t) ∧ lnTail c e' t resAdjust tape = some (o, r') := by
  unfold lnFinish lnSerBody at h
  cases hs : lnSer c ed w with
  | none => rw [hs] at h; simp at h
  | some p =>
    obtain ⟨e', r⟩ := p
    rw [hs] at h
    cases r with
    | inl er =>
      simp only [Option.some.injEq, Prod.mk.injEq] at h
      obtain ⟨rfl, _⟩ := h
      have hne : er ≠ .none := by
        unfold lnSer at hs
        exact lnSeries_inl_ne _ _ _ _ _ _ _ _ _ hs
      exact (TL.not_deliv_of_failed (TL.failed_mk _ hne) hd).elim
    | inr t => exact ⟨e', t, rfl, h⟩

theorem uR_pow (P : Nat) : uR (P + 2) * (10 : ℝ) ^ P = 1 / 20 := by
  rw [uR_eq, pow_add]
  have : (0 : ℝ) < (10 : ℝ) ^ P := by positivity
  field_simp; norm_num

/-- path S0 (`|x - 1| ≤ 0.1`, no rescaling): `ρ + (N+5)/16` units in the last place, `N` the number of series terms added -/
theorem ln_path_S0 (c : Ctx) (hc : c.WF) (x : Dec) (hx : PosFin x) (hp2 : c.prec + 2 ≤ 100000)
    (hsp : logSpecials c x = none) (h0 : (lnA1 c x).2.absD.cmp lnTenth ≤ 0)
    (tape r' : Tape) (o : Out) (h : lnT c x tape = some (o, r'))
    (hd : o.err = .none ∨ (o.err = .trap ∧ (o.fl &&& c.traps).any = true)) (hf : o.d.form = .finite) :
    |rv o.d - Real.log (rv x)| ≤
      (((rhoMode c.mode : ℚ) : ℝ) + ((lnSerN c (lnA1 c x).1 (lnA1 c x).2 : ℕ) + 5 : ℝ) / 16) *
        (10 : ℝ) ^ (ulpExp c o.d) := by
  have hc1 : 1 ≤ c.prec := hc.1
  have hw := lnNc_wide c hc1 hp2
  rw [lnT_S0 c x tape hsp h0] at h
  obtain ⟨e', t, hser, htail⟩ := ser_body_cases c _ _ _ tape r' o h hd
  -- w = x - 1
  have nf1 := lnSer_nf c _ _ e' t hser
  obtain ⟨_, a1, v1, c1⟩ := step_ok _ _ _ nf1
  have hed : (lnA1 c x).1.c = lnNc c := c1
  have a1' : (addOp (lnNc c) x decOne true).err = .none := a1
  have v1' : (lnA1 c x).2 = (addOp (lnNc c) x decOne true).d := v1
  obtain ⟨wf, δw, hδw, wv⟩ := add_rel_gen (lnNc c) hw rfl x decOne true hx.fin rfl a1'
  rw [← v1'] at wf wv
  simp only [if_true, rv_decOne] at wv
  have hprec : (lnNc c).prec = c.prec + 2 := rfl
  rw [hprec] at hδw
  have hx1 := rv_ne_one_of_specials c x hx hsp
  have hxpos := hx.rv_pos
  set u := uR (c.prec + 2) with hu
  have hu1 : u ≤ 1 / 200 := uR_small _ (by omega)
  have hu0 : 0 < u := uR_pos _
  have hdw := abs_le.1 hδw
  have hw0 : rv (lnA1 c x).2 ≠ 0 := by
    rw [wv]; exact mul_ne_zero (by intro h; apply hx1; linarith) (by linarith [hdw.1])
  have hw10 : |rv (lnA1 c x).2| ≤ 1 / 10 := by
    have hle := cmp_le_toRat _ _ (by exact wf) rfl h0
    rw [absD_toRat] at hle
    unfold rv
    have : ((|(lnA1 c x).2.toRat| : ℚ) : ℝ) ≤ ((lnTenth.toRat : ℚ) : ℝ) := by exact_mod_cast hle
    push_cast at this
    refine le_trans this (le_of_eq ?_)
    unfold lnTenth Dec.toRat; norm_num
  have wv' : rv (lnA1 c x).2 = (rv x - 1) * (1 + δw) := by rw [wv]; ring
  obtain ⟨ec, enf, tf, tb⟩ := ser_from_w c hc1 hp2 _ hed _ wf hw0 hw10 (rv x) δw hδw wv' e' t hser
  have hle := lnSerN_le c (lnA1 c x).1 (lnA1 c x).2
  generalize lnSerN c (lnA1 c x).1 (lnA1 c x).2 = N at tb hle ⊢
  -- the tail
  obtain ⟨F, Ff, ⟨δf, hδf, Fv⟩, hod, hns⟩ := lnTail_ok c hc hp2 e' ec t decZero tf rfl tape r' o htail hd
  have hz : rv decZero = 0 := by unfold rv Dec.toRat decZero; simp
  rw [hz, add_zero] at Fv
  set L := Real.log (rv x) with hL
  have hL0 : L ≠ 0 := by
    intro h
    rcases Real.log_eq_zero.1 h with h | h | h
    · linarith
    · exact hx1 h
    · linarith
  have hNu : ((N : ℕ) : ℝ) * u ≤ 7 / 100 := by
    have hb := budget_u (c.prec + 2) (by omega)
    have : ((N : ℕ) : ℝ) ≤ ((c.prec + 2 + 11 : ℕ) : ℝ) := by exact_mod_cast hle
    have e : ((2 * (c.prec + 2) + 22 : ℕ) : ℝ) = 2 * ((c.prec + 2 + 11 : ℕ) : ℝ) := by push_cast; ring
    rw [e] at hb
    nlinarith
  obtain ⟨hεF, hK⟩ := serK u N hu0.le hu1 hNu
  set εF := u * ((1 + u) * serE u N + 1) with hεFdef
  have hE0 : 0 ≤ serE u N := by unfold serE serG; positivity
  -- |F - L| ≤ εF |L|
  have hFL : |rv F - L| ≤ εF * |L| := by
    have id : rv F - L = (rv t - L) * (1 + δf) + δf * L := by rw [Fv]; ring
    rw [id]
    have h1 : |(rv t - L) * (1 + δf)| ≤ (u * |L| * serE u N) * (1 + u) := by
      rw [abs_mul]
      have : |1 + δf| ≤ 1 + u := by
        calc |1 + δf| ≤ |(1 : ℝ)| + |δf| := abs_add_le _ _
          _ ≤ 1 + u := by rw [abs_one]; linarith
      exact mul_le_mul tb this (abs_nonneg _) (by positivity)
    have h2 : |δf * L| ≤ u * |L| := by rw [abs_mul]; exact mul_le_mul_of_nonneg_right hδf (abs_nonneg _)
    calc _ ≤ |(rv t - L) * (1 + δf)| + |δf * L| := abs_add_le _ _
      _ ≤ (u * |L| * serE u N) * (1 + u) + u * |L| := add_le_add h1 h2
      _ = εF * |L| := by rw [hεFdef]; ring
  have hLpos : 0 < |L| := abs_pos.2 hL0
  have hF0 : rv F ≠ 0 := by
    intro h
    rw [h, zero_sub, abs_neg] at hFL
    nlinarith
  -- relative to |F|
  have hLF : |L| ≤ |rv F| / (1 - εF) := by
    rw [le_div_iff₀ (by linarith)]
    have : |L| ≤ |rv F| + |rv F - L| := by
      have := abs_sub_abs_le_abs_sub L (rv F)
      rw [abs_sub_comm] at this
      linarith
    nlinarith
  have hεF0 : 0 ≤ εF := by rw [hεFdef]; positivity
  have hrel : |rv F - L| ≤ εF / (1 - εF) * |rv F| := by
    calc |rv F - L| ≤ εF * |L| := hFL
      _ ≤ εF * (|rv F| / (1 - εF)) := mul_le_mul_of_nonneg_left hLF hεF0
      _ = _ := by ring
  rw [hod] at hf ⊢
  have hfin := ln_final_rel c hc F Ff hF0 L (εF / (1 - εF)) (div_nonneg hεF0 (by linarith)) hrel hns hf
  refine le_trans hfin ?_
  apply mul_le_mul_of_nonneg_right _ (by positivity)
  have hup := uR_pow c.prec
  have : εF / (1 - εF) * (10 : ℝ) ^ c.prec ≤ ((N : ℝ) + 5) / 16 := by
    calc εF / (1 - εF) * (10 : ℝ) ^ c.prec ≤ (((N : ℝ) + 5) / 16 * (20 * u)) * (10 : ℝ) ^ c.prec :=
          mul_le_mul_of_nonneg_right hK (by positivity)
      _ = ((N : ℝ) + 5) / 16 * (20 * (u * (10 : ℝ) ^ c.prec)) := by ring
      _ = ((N : ℝ) + 5) / 16 := by rw [hup]; ring
  linarith

end Apd.LnAcc
