import ApdVerif.Lemmas.LnAccArg
/-!
# L2/L3 (Halley branch): the last round `a' = a - 2(E - z)/(E + z)`, `E ≈ exp a`, and the stopping rule

Only the LAST round matters: the stopping rule `|a - a'| ≤ 10^-P |a'|` forces the correction `c` to be tiny,
hence (the correction being `2 tanh(g/2)`, `g = ln(E/z)`) `g` is tiny, hence `a'` is within the error of `Exp`
plus one rounding of `ln z` — whatever the earlier iterates and the starting estimate were.
-/
namespace Apd.LnAcc
open Real Apd.ExpAcc Apd.C12IL

/-- `ln(E/z) = 2 atanh(h/2)` for the Halley quotient `h = 2(E - z)/(E + z)` -/
theorem log_ratio_eq_L2 (E z : ℝ) (hE : 0 < E) (hz : 0 < z) :
    log (E / z) = L2 ((E - z) / (E + z)) := by
  have := log_eq_L2 (E / z) (div_pos hE hz)
  rw [this]; congr 1
  field_simp

/-- `|2 atanh t - 2t| ≤ (2|t|³/3)/(1 - t²)` -/
theorem L2_sub_two (t : ℝ) (ht : |t| < 1) : |L2 t - 2 * t| ≤ 2 * |t| ^ 3 / 3 * (1 - t ^ 2)⁻¹ := by
  have h := lsum_remainder t ht 1
  rw [lsum_one] at h
  have e : |lterm t 1| = 2 * |t| ^ 3 / 3 := by
    unfold lterm
    rw [abs_div, abs_mul, abs_two, abs_pow]
    norm_num
  rw [e] at h; exact h

/-- four relative perturbations `(1+δ1)(1+δ2)(1+δ4)/(1+δ3)` -/
theorem theta4 (δ1 δ2 δ3 δ4 u : ℝ) (hu : 0 ≤ u) (hu1 : u ≤ 1 / 200)
    (h1 : |δ1| ≤ u) (h2 : |δ2| ≤ u) (h3 : |δ3| ≤ u) (h4 : |δ4| ≤ u) :
    |(1 + δ1) * (1 + δ2) * (1 + δ4) / (1 + δ3) - 1| ≤ 41 / 10 * u := by
  obtain ⟨a1, b1⟩ := abs_le.1 h1
  obtain ⟨a2, b2⟩ := abs_le.1 h2
  obtain ⟨a3, b3⟩ := abs_le.1 h3
  obtain ⟨a4, b4⟩ := abs_le.1 h4
  have hp : 0 < 1 + δ3 := by linarith
  have e : (1 + δ1) * (1 + δ2) * (1 + δ4) / (1 + δ3) - 1 =
      ((1 + δ1) * (1 + δ2) * (1 + δ4) - (1 + δ3)) / (1 + δ3) := by field_simp
  rw [e, abs_div, abs_of_pos hp, div_le_iff₀ hp]
  -- numerator: δ1+δ2+δ4-δ3 + products
  have p12 : |δ1 * δ2| ≤ u * u := by rw [abs_mul]; exact mul_le_mul h1 h2 (abs_nonneg _) hu
  have p14 : |δ1 * δ4| ≤ u * u := by rw [abs_mul]; exact mul_le_mul h1 h4 (abs_nonneg _) hu
  have p24 : |δ2 * δ4| ≤ u * u := by rw [abs_mul]; exact mul_le_mul h2 h4 (abs_nonneg _) hu
  have p124 : |δ1 * δ2 * δ4| ≤ u * u * u := by
    rw [abs_mul]; exact mul_le_mul p12 h4 (abs_nonneg _) (by positivity)
  have id : (1 + δ1) * (1 + δ2) * (1 + δ4) - (1 + δ3) =
      δ1 + δ2 + δ4 - δ3 + δ1 * δ2 + δ1 * δ4 + δ2 * δ4 + δ1 * δ2 * δ4 := by ring
  rw [id]
  have hb : |δ1 + δ2 + δ4 - δ3 + δ1 * δ2 + δ1 * δ4 + δ2 * δ4 + δ1 * δ2 * δ4| ≤
      4 * u + 3 * (u * u) + u * u * u := by
    have t1 := abs_le.1 p12
    have t2 := abs_le.1 p14
    have t3 := abs_le.1 p24
    have t4 := abs_le.1 p124
    rw [abs_le]; constructor <;> linarith [t1.1, t1.2, t2.1, t2.2, t3.1, t3.2, t4.1, t4.2]
  have huu : u * u ≤ 1 / 200 * u := by nlinarith
  have huuu : u * u * u ≤ 1 / 40000 * u := by nlinarith
  nlinarith

theorem cube_bound (t u : ℝ) (hu : 0 ≤ u) (hu1 : u ≤ 1 / 200) (ht : |t| ≤ 3240 / 100 * u) :
    2 * |t| ^ 3 / 3 * (1 - t ^ 2)⁻¹ ≤ 23300 * u ^ 3 := by
  have ht' : |t| ≤ 162 / 1000 := by linarith
  have hsq : t ^ 2 ≤ (162 / 1000) ^ 2 := by
    rw [← sq_abs]; exact pow_le_pow_left₀ (abs_nonneg _) ht' 2
  have hpos : 0 < 1 - t ^ 2 := by norm_num at hsq; linarith
  have hinv : (1 - t ^ 2)⁻¹ ≤ 1027 / 1000 := by
    rw [inv_le_comm₀ hpos (by norm_num)]
    norm_num at hsq ⊢; linarith
  have hcube : |t| ^ 3 ≤ (3240 / 100 * u) ^ 3 := pow_le_pow_left₀ (abs_nonneg _) ht 3
  have h1 : 2 * |t| ^ 3 / 3 * (1 - t ^ 2)⁻¹ ≤ 2 * (3240 / 100 * u) ^ 3 / 3 * (1027 / 1000) := by
    apply mul_le_mul _ hinv (by rw [inv_nonneg]; exact hpos.le) (by positivity)
    apply div_le_div_of_nonneg_right _ (by norm_num)
    linarith
  have e3 : 2 * (3240 / 100 * u) ^ 3 / 3 * (1027 / 1000) ≤ 23300 * u ^ 3 := by
    have : 0 ≤ u ^ 3 := by positivity
    nlinarith
  linarith

/-- the stopping rule bounds the Halley quotient -/
theorem halley_hq_small (a u hq Θ c a' δ5 δ6 : ℝ) (hu : 0 ≤ u) (hu1 : u ≤ 1 / 200)
    (hθ : |Θ - 1| ≤ 41 / 10 * u)
    (hc : c = hq * Θ) (ha' : a' = (a - c) * (1 + δ5)) (h5 : |δ5| ≤ u) (h6 : |δ6| ≤ u)
    (hstop : |(a - a') * (1 + δ6)| ≤ 20 * u * |a'|) (hbound : |a'| ≤ 3) :
    |δ5 * (a - c)| ≤ 100503 / 100000 * u * |a'| ∧ |hq| ≤ 6480 / 100 * u := by
  obtain ⟨d51, d52⟩ := abs_le.1 h5
  obtain ⟨d61, d62⟩ := abs_le.1 h6
  have hΘlow : 1 - 41 / 10 * u ≤ Θ := by have := (abs_le.1 hθ).1; linarith
  have hΘpos : 0 < Θ := by linarith
  have h15 : 0 < 1 + δ5 := by linarith
  have hac : a - c = a' / (1 + δ5) := by rw [ha']; field_simp
  have hac_abs : |δ5 * (a - c)| ≤ 100503 / 100000 * u * |a'| := by
    rw [hac, abs_mul, abs_div, abs_of_pos h15]
    have : |a'| / (1 + δ5) ≤ |a'| / (1 - u) :=
      div_le_div_of_nonneg_left (abs_nonneg _) (by linarith) (by linarith)
    have h2' : |a'| / (1 - u) ≤ 100503 / 100000 * |a'| := by
      rw [div_le_iff₀ (by linarith)]; nlinarith [abs_nonneg a']
    calc |δ5| * (|a'| / (1 + δ5)) ≤ u * (100503 / 100000 * |a'|) :=
          mul_le_mul h5 (le_trans this h2') (by positivity) hu
      _ = _ := by ring
  refine ⟨hac_abs, ?_⟩
  have h16 : 0 < 1 + δ6 := by linarith
  have hdiff : |a - a'| ≤ 20 * u * |a'| / (1 - u) := by
    rw [abs_mul, abs_of_pos h16] at hstop
    rw [le_div_iff₀ (by linarith)]
    calc |a - a'| * (1 - u) ≤ |a - a'| * (1 + δ6) := mul_le_mul_of_nonneg_left (by linarith) (abs_nonneg _)
      _ ≤ 20 * u * |a'| := hstop
  have hc_abs : |c| ≤ 634 / 10 * u := by
    have id : c = (a - a') + δ5 * (a - c) := by rw [ha']; ring
    have hd' : 20 * u * |a'| / (1 - u) ≤ 12000 / 199 * u := by
      rw [div_le_iff₀ (by linarith)]
      have : 20 * u * |a'| ≤ 20 * u * 3 := mul_le_mul_of_nonneg_left hbound (by positivity)
      nlinarith
    have h3' : 100503 / 100000 * u * |a'| ≤ 100503 / 100000 * u * 3 := by
      apply mul_le_mul_of_nonneg_left hbound (by positivity)
    calc |c| = |(a - a') + δ5 * (a - c)| := by rw [← id]
      _ ≤ |a - a'| + |δ5 * (a - c)| := abs_add_le _ _
      _ ≤ 12000 / 199 * u + 100503 / 100000 * u * 3 := by linarith
      _ ≤ 634 / 10 * u := by linarith
  have : |c| = |hq| * Θ := by rw [hc, abs_mul, abs_of_pos hΘpos]
  have h1' : |hq| * (1 - 41 / 10 * u) ≤ 634 / 10 * u := by
    calc |hq| * (1 - 41 / 10 * u) ≤ |hq| * Θ := mul_le_mul_of_nonneg_left hΘlow (abs_nonneg _)
      _ = |c| := this.symm
      _ ≤ 634 / 10 * u := hc_abs
  have h2' : u * |hq| ≤ 1 / 200 * |hq| := mul_le_mul_of_nonneg_right hu1 (abs_nonneg _)
  nlinarith [abs_nonneg hq]

/-- the core of L3, with the Halley quotient `hq`, the accumulated perturbation `Θ` and the correction `c` named -/
theorem halley_core (z a E ω u hq Θ c a' δ5 δ6 : ℝ) (hz : 0 < z) (hEpos : 0 < E) (hu : 0 ≤ u) (hu1 : u ≤ 1 / 200)
    (hlogE : |log E - a| ≤ ω) (hhq : hq = 2 * ((E - z) / (E + z))) (hθ : |Θ - 1| ≤ 41 / 10 * u)
    (hc : c = hq * Θ) (ha' : a' = (a - c) * (1 + δ5)) (h5 : |δ5| ≤ u) (h6 : |δ6| ≤ u)
    (hstop : |(a - a') * (1 + δ6)| ≤ 20 * u * |a'|) (hbound : |a'| ≤ 3) :
    |a' - log z| ≤ ω + u * (100503 / 100000 * |a'| + 266 * u + 23300 * u ^ 2) := by
  obtain ⟨hac_abs, hhq_abs⟩ := halley_hq_small a u hq Θ c a' δ5 δ6 hu hu1 hθ hc ha' h5 h6 hstop hbound
  have hg : log (E / z) = L2 (hq / 2) := by
    rw [log_ratio_eq_L2 E z hEpos hz, hhq]; congr 1; ring
  have ht_abs : |hq / 2| ≤ 3240 / 100 * u := by
    rw [abs_div, abs_two]; linarith
  have hL2 := L2_sub_two (hq / 2) (by linarith)
  have e2 : 2 * (hq / 2) = hq := by ring
  rw [e2] at hL2
  have hghq : |log (E / z) - hq| ≤ 23300 * u ^ 3 := by
    rw [hg]; exact le_trans hL2 (cube_bound (hq / 2) u hu hu1 ht_abs)
  have hlogdiv : log (E / z) = log E - log z := Real.log_div hEpos.ne' hz.ne'
  have hterm3 : |hq * (Θ - 1)| ≤ 266 * u ^ 2 := by
    rw [abs_mul]
    calc |hq| * |Θ - 1| ≤ (6480 / 100 * u) * (41 / 10 * u) := mul_le_mul hhq_abs hθ (abs_nonneg _) (by positivity)
      _ ≤ 266 * u ^ 2 := by nlinarith [sq_nonneg u]
  have id : a' - log z = (log (E / z) - hq) - (log E - a) + (-(hq * (Θ - 1))) + δ5 * (a - c) := by
    rw [ha', hc, hlogdiv]; ring
  have eR : ω + u * (100503 / 100000 * |a'| + 266 * u + 23300 * u ^ 2) =
      23300 * u ^ 3 + ω + 266 * u ^ 2 + 100503 / 100000 * u * |a'| := by ring
  rw [id, eR]
  calc _ ≤ |log (E / z) - hq - (log E - a) + -(hq * (Θ - 1))| + |δ5 * (a - c)| := abs_add_le _ _
    _ ≤ (|log (E / z) - hq - (log E - a)| + |-(hq * (Θ - 1))|) + |δ5 * (a - c)| := by
        linarith [abs_add_le (log (E / z) - hq - (log E - a)) (-(hq * (Θ - 1)))]
    _ ≤ ((|log (E / z) - hq| + |log E - a|) + |-(hq * (Θ - 1))|) + |δ5 * (a - c)| := by
        linarith [abs_sub (log (E / z) - hq) (log E - a)]
    _ ≤ _ := by rw [abs_neg]; linarith

/-- L3. The last Halley round under the stopping rule.  `E = exp a · W` with `e^{-ω} ≤ W ≤ e^{ω}` (the inner `Exp`),
the five operations of the round perturbed by `(1+δᵢ)`, the stopping test `|rnd(a - a')| ≤ 20u·|a'|`
(`= 10^-P |a'|`), and `|a'| ≤ 3`.  Then `a'` is within `ω + u(1.00503|a'| + 266u + 23300u²)` of `ln z`. -/
theorem halley_stop (z a E ω δ1 δ2 δ3 δ4 δ5 δ6 u : ℝ) (hz : 0 < z) (hu : 0 ≤ u) (hu1 : u ≤ 1 / 200)
    (hE : LogNear ω (exp a) E)
    (h1 : |δ1| ≤ u) (h2 : |δ2| ≤ u) (h3 : |δ3| ≤ u) (h4 : |δ4| ≤ u) (h5 : |δ5| ≤ u) (h6 : |δ6| ≤ u)
    (a' : ℝ)
    (ha' : a' = (a - ((E - z) * (1 + δ1) + (E - z) * (1 + δ1)) * (1 + δ2) / ((E + z) * (1 + δ3)) * (1 + δ4)) * (1 + δ5))
    (hstop : |(a - a') * (1 + δ6)| ≤ 20 * u * |a'|) (hbound : |a'| ≤ 3) :
    |a' - log z| ≤ ω + u * (100503 / 100000 * |a'| + 266 * u + 23300 * u ^ 2) := by
  have hEpos : 0 < E := hE.pos (exp_pos a)
  obtain ⟨d31, d32⟩ := abs_le.1 h3
  have hd3 : 0 < 1 + δ3 := by linarith
  have hEz : 0 < E + z := by linarith
  have hcdef : ((E - z) * (1 + δ1) + (E - z) * (1 + δ1)) * (1 + δ2) / ((E + z) * (1 + δ3)) * (1 + δ4) =
      (2 * ((E - z) / (E + z))) * ((1 + δ1) * (1 + δ2) * (1 + δ4) / (1 + δ3)) := by
    field_simp; ring
  rw [hcdef] at ha'
  obtain ⟨hEl, hEr⟩ := hE
  have hlogE : |log E - a| ≤ ω := by
    have l1 : a - ω ≤ log E := by
      have : exp (a - ω) ≤ E := by rw [sub_eq_add_neg, exp_add]; exact hEl
      have := Real.log_le_log (exp_pos _) this
      rwa [Real.log_exp] at this
    have l2 : log E ≤ a + ω := by
      have : E ≤ exp (a + ω) := by rw [exp_add]; exact hEr
      have := Real.log_le_log hEpos this
      rwa [Real.log_exp] at this
    rw [abs_le]; constructor <;> linarith
  exact halley_core z a E ω u _ _ _ a' δ5 δ6 hz hEpos hu hu1 hlogE rfl
    (theta4 δ1 δ2 δ3 δ4 u hu hu1 h1 h2 h3 h4) rfl ha' h5 h6 hstop hbound

end Apd.LnAcc
