import ApdVerif.Lemmas.Log10Acc
/-!
# `Log10` on the model: the assembly
-/
namespace Apd.LnAcc
open Apd Apd.Oracle Apd.Props Apd.RatSpec Apd.ExpAcc Apd.C12IL Cond

/-- numeric step: the distance of the exact product `P = l·T` from `log10 x`, in units of `10^(a-P+1)` -/
theorem log10_numeric (P u2 e1 T τ A N : ℝ) (hu0 : 0 < u2) (he1 : e1 = u2 * (1031 / 1000 + 12564 / 1000000 * (N + 5)))
    (he1s : e1 ≤ 7 / 1000) (he10 : 0 ≤ e1) (hN : 0 ≤ N) (hT1 : 43 / 100 ≤ T) (hT2 : T ≤ 44 / 100)
    (hτ0 : 0 ≤ τ) (hτ : τ ≤ 1001 / 10000 * u2) (hPA : |P| * u2 ≤ 1 / 20 * A) (hA : 0 ≤ A) :
    |P| / T * (e1 * T + (1 + e1) * τ) + 9 / 100 * u2 * (T + τ) ≤
      (1 / 10 + (N + 5) / 1500) * A + 1 / 25 * u2 := by
  have hTpos : 0 < T := by linarith
  have hu1 : u2 ≤ 7 / 1000 := by
    have : u2 * (1031 / 1000) ≤ e1 := by
      rw [he1]; nlinarith
    nlinarith
  have e : |P| / T * (e1 * T + (1 + e1) * τ) = |P| * (e1 + (1 + e1) * τ / T) := by
    field_simp
  rw [e]
  have hτT : (1 + e1) * τ / T ≤ 2345 / 10000 * u2 := by
    rw [div_le_iff₀ hTpos]
    have h1 : (1 + e1) * τ ≤ (1 + 7 / 1000) * (1001 / 10000 * u2) :=
      mul_le_mul (by linarith) hτ hτ0 (by norm_num)
    nlinarith
  have hP0 := abs_nonneg P
  have h2 : |P| * (e1 + (1 + e1) * τ / T) ≤ |P| * (u2 * (12655 / 10000 + 12564 / 1000000 * (N + 5))) := by
    apply mul_le_mul_of_nonneg_left _ hP0
    have : e1 + (1 + e1) * τ / T ≤ e1 + 2345 / 10000 * u2 := by linarith
    rw [he1] at this ⊢
    linarith
  have h3 : |P| * (u2 * (12655 / 10000 + 12564 / 1000000 * (N + 5))) =
      (|P| * u2) * (12655 / 10000 + 12564 / 1000000 * (N + 5)) := by ring
  have h4 : (|P| * u2) * (12655 / 10000 + 12564 / 1000000 * (N + 5)) ≤
      (1 / 20 * A) * (12655 / 10000 + 12564 / 1000000 * (N + 5)) :=
    mul_le_mul_of_nonneg_right hPA (by positivity)
  have h5 : 9 / 100 * u2 * (T + τ) ≤ 1 / 25 * u2 := by
    have : T + τ ≤ 44 / 100 + 1001 / 10000 * (7 / 1000) := by linarith
    nlinarith
  have hNA : 0 ≤ N * A := mul_nonneg hN hA
  nlinarith

/-- the context of the multiplication by `1/ln 10` -/
def log10Mc (c : Ctx) : Ctx :=
  { prec := c.prec, emax := baseCtx.emax, emin := baseCtx.emin, traps := baseCtx.traps, mode := Mode.halfEven }

theorem log10Nc'_wide (c : Ctx) (h1 : 1 ≤ c.prec) (h2 : c.prec ≤ 100000) : Wide (log10Mc c) :=
  ⟨rfl, rfl, h1, by show ((c.prec : ℕ) : ℤ) ≤ 100000; omega⟩

/-- `Log10` on the tape model -/
theorem log10_main (c : Ctx) (hc : c.WF) (x : Dec) (tape r' : Tape) (o : Out)
    (hok : Log10TapeOK c x tape = true) (h : log10T c x tape = some (o, r'))
    (hd : o.err = .none ∨ (o.err = .trap ∧ (o.fl &&& c.traps).any = true)) (hf : o.d.form = .finite) :
    |rv o.d - Real.log (rv x) / Real.log 10| ≤
      (((rhoMode c.mode : ℚ) : ℝ) + 3 / 5 + ((lnTermsN (log10Nc c) x : ℕ) + 5 : ℝ) / 1500) *
        (10 : ℝ) ^ (ulpExp c o.d) + 1 / 25 * uR (c.prec + 2) := by
  unfold Log10TapeOK at hok
  simp only [Bool.and_eq_true, decide_eq_true_eq] at hok
  obtain ⟨⟨hP1, hP90⟩, hln⟩ := hok
  have hx : PosFin x := by
    unfold LnTapeOK at hln
    simp only [Bool.and_eq_true, beq_iff_eq, Bool.not_eq_true', bne_iff_ne, ne_eq, decide_eq_true_eq] at hln
    exact ⟨hln.1.1.1.1.1, hln.1.1.1.1.2, hln.1.1.1.2⟩
  have hρ := rhoMode_nonneg c.mode
  have hu2pos := uR_pos (c.prec + 2)
  have hNn : (0 : ℝ) ≤ ((lnTermsN (log10Nc c) x : ℕ) : ℝ) := by positivity
  have hUpos : (0 : ℝ) < (10 : ℝ) ^ (ulpExp c o.d) := zpow_pos (by norm_num) _
  have hrhs0 : 0 ≤ (((rhoMode c.mode : ℚ) : ℝ) + 3 / 5 + ((lnTermsN (log10Nc c) x : ℕ) + 5 : ℝ) / 1500) *
      (10 : ℝ) ^ (ulpExp c o.d) := by positivity
  obtain ⟨l1, l2⟩ := log10_bounds
  have hlogpos : 0 < Real.log 10 := lt_of_lt_of_le (by norm_num) l1
  cases hsp : logSpecials c x with
  | some o' =>
    unfold log10T at h
    rw [hsp] at h
    simp only [Option.some.injEq, Prod.mk.injEq] at h
    obtain ⟨rfl, _⟩ := h
    unfold logSpecials at hsp
    have n1 : shouldSetAsNaN x none = false := by simp [shouldSetAsNaN, Dec.isNaN, hx.fin]
    have hs : ¬ x.sign < 0 := by
      unfold Dec.sign; rw [hx.fin, hx.pos]; simp; split <;> omega
    have n3 : (x.form == Form.infinite) = false := by rw [hx.fin]; rfl
    simp only [n1, hs, n3, Bool.false_eq_true, if_false] at hsp
    split_ifs at hsp with a b
    · simp only [Option.some.injEq] at hsp; subst hsp; simp [decInf] at hf
    · simp only [Option.some.injEq] at hsp; subst hsp
      have hb : x.cmp decOne = 0 := by simpa using b
      have hone := cmp_zero_toRat x decOne hx.fin rfl hb
      have e1 : rv x = 1 := by
        unfold rv; rw [hone]; unfold Dec.toRat decOne; simp
      have e0 : rv (decZero : Dec) = 0 := by unfold rv Dec.toRat decZero; simp
      show |rv (decZero : Dec) - _| ≤ _
      rw [e1, e0, Real.log_one, zero_div, sub_zero, abs_zero]
      have : (0 : ℝ) ≤ 1 / 25 * uR (c.prec + 2) := by positivity
      linarith
  | none =>
    unfold log10T at h
    rw [hsp] at h
    simp only [] at h
    have hnc : ({ baseCtx with prec := c.prec + 2, mode := .halfEven } : Ctx) = log10Nc c := rfl
    rw [hnc] at h
    cases hl : lnT (log10Nc c) x tape with
    | none => rw [hl] at h; simp at h
    | some pr =>
      obtain ⟨l, tp⟩ := pr
      rw [hl] at h
      simp only [] at h
      by_cases hle : (l.err != ErrKind.none) = true
      · rw [if_pos hle] at h
        simp only [Option.some.injEq, Prod.mk.injEq] at h
        obtain ⟨rfl, _⟩ := h
        exact (TL.not_deliv_of_failed (TL.failed_of_bne _ hle) hd).elim
      · rw [if_neg hle] at h
        have hlerr : l.err = .none := by simpa using hle
        change (if ((mulOp (log10Mc c) l.d (invLn10At (c.prec + 2))).err != ErrKind.none) = true then _ else _) = _ at h
        by_cases hme : ((mulOp (log10Mc c) l.d (invLn10At (c.prec + 2))).err != ErrKind.none) = true
        · rw [if_pos hme] at h
          simp only [Option.some.injEq, Prod.mk.injEq] at h
          obtain ⟨rfl, _⟩ := h
          exact (TL.not_deliv_of_failed (TL.failed_of_bne _ hme) hd).elim
        · rw [if_neg hme] at h
          have hmerr : (mulOp (log10Mc c) l.d (invLn10At (c.prec + 2))).err = .none := by
            simpa using hme
          simp only [Option.some.injEq, Prod.mk.injEq] at h
          obtain ⟨rfl, _⟩ := h
          simp only at hd hf ⊢
          change (ctxRound c (mulOp (log10Mc c) l.d (invLn10At (c.prec + 2))).d).1.form = .finite at hf
          show |rv (ctxRound c (mulOp (log10Mc c) l.d (invLn10At (c.prec + 2))).d).1 - Real.log (rv x) / Real.log 10| ≤
            (((rhoMode c.mode : ℚ) : ℝ) + 3 / 5 + ((lnTermsN (log10Nc c) x : ℕ) + 5 : ℝ) / 1500) *
              (10 : ℝ) ^ (ulpExp c (ctxRound c (mulOp (log10Mc c) l.d (invLn10At (c.prec + 2))).d).1) +
                1 / 25 * uR (c.prec + 2)
          -- facts
          have hspn := logSpecials_none_indep c (log10Nc c) x hsp
          obtain ⟨lf, hlb⟩ := ln_wide_result c hP1 hP90 x tape tp l hln hspn hl hlerr
          obtain ⟨Tf, Tnear, T1, T2⟩ := invLn10At_near (c.prec + 2) (by omega) (by omega)
          have hw' := log10Nc'_wide c hP1 (by omega)
          have hm' : (log10Mc c).mode = .halfEven := rfl
          have hprec' : (log10Mc c).prec = c.prec := rfl
          have hdl : Delivered (goError c.traps ((cInexact ||| cRounded) ||| (mulOp (log10Mc c) l.d (invLn10At (c.prec + 2))).fl |||
              (ctxRound c (mulOp (log10Mc c) l.d (invLn10At (c.prec + 2))).d).2)) := by
            rcases hd with hd | ⟨hd, _⟩
            · exact Or.inl hd
            · exact Or.inr hd
          have hns := noSys_right _ _ (QuoL.noSys_of_delivered _ _ hdl)
          obtain ⟨he1s, he10⟩ := lnRelE_small c hP1 x
          set m := mulOp (log10Mc c) l.d (invLn10At (c.prec + 2)) with hmdef
          set u2 := uR (c.prec + 2) with hu2
          set Λ := Real.log (rv x) with hΛ
          set N : ℝ := ((lnTermsN (log10Nc c) x : ℕ) : ℝ) with hN
          have hT0 : rv (invLn10At (c.prec + 2)) ≠ 0 := by linarith
          by_cases hl0 : rv l.d = 0
          · -- a zero logarithm (cannot happen, but costs nothing)
            obtain ⟨mf, δ, _, mv⟩ := mul_rel_gen (log10Mc c) hw' hm' l.d (invLn10At (c.prec + 2)) lf Tf hmerr
            rw [hl0, zero_mul, zero_mul] at mv
            have hmc : m.d.coeff = 0 := (rv_eq_zero_iff _).1 mv
            have hA0 := C01_roundCore c hc m.d mf hns
            have hd0 : rv (ctxRound c m.d).1 = 0 := rv_zero_of_agrees c _ _ _ hA0 hf hmc
            rw [hd0]
            rw [hl0, abs_zero, mul_zero, zero_add, zero_sub, abs_neg] at hlb
            have : |0 - Λ / Real.log 10| ≤ 1 / 25 * u2 := by
              rw [zero_sub, abs_neg, abs_div, abs_of_pos hlogpos, div_le_iff₀ hlogpos]
              nlinarith
            have hpos0 : 0 ≤ (((rhoMode c.mode : ℚ) : ℝ) + 3 / 5 + (N + 5) / 1500) *
                (10 : ℝ) ^ (ulpExp c (ctxRound c m.d).1) := by positivity
            linarith
          · obtain ⟨mf, a, h1, h2, h3, h4⟩ := mul_abs (log10Mc c) hw' hm' l.d (invLn10At (c.prec + 2)) lf Tf hl0 hT0 hmerr
            rw [hprec'] at h3
            have hm0 : rv m.d ≠ 0 := by
              intro h0; rw [h0, abs_zero] at h4
              have : (0 : ℝ) < (10 : ℝ) ^ a := zpow_pos (by norm_num) _
              linarith
            have hm0' : m.d.toRat ≠ 0 := by
              intro h0; apply hm0; unfold rv; rw [h0]; simp
            obtain ⟨q, hq1, hq2, _, hq4⟩ := final_round_gen' c hc m.d mf hm0' hns hf
            -- a ≤ adj(m)
            have hmc : m.d.coeff ≠ 0 := fun h0 => hm0 ((rv_eq_zero_iff _).2 h0)
            have hadj : a ≤ (ndigits m.d.coeff : ℤ) - 1 + m.d.exp := by
              have hlt : |rv m.d| < (10 : ℝ) ^ ((ndigits m.d.coeff : ℤ) + m.d.exp) := by
                rw [abs_rv]
                have hcf : (m.d.coeff : ℝ) < (10 : ℝ) ^ (ndigits m.d.coeff) := by
                  exact_mod_cast (ndigits_spec m.d.coeff (Nat.pos_of_ne_zero hmc)).2
                have hp : (0 : ℝ) < (10 : ℝ) ^ m.d.exp := zpow_pos (by norm_num) _
                rw [zpow_add₀ (by norm_num : (10 : ℝ) ≠ 0), zpow_natCast]
                exact mul_lt_mul_of_pos_right hcf hp
              have : (10 : ℝ) ^ a < (10 : ℝ) ^ ((ndigits m.d.coeff : ℤ) + m.d.exp) := lt_of_le_of_lt h4 hlt
              rw [zpow_lt_zpow_iff_right₀ (by norm_num : (1 : ℝ) < 10)] at this
              omega
            have hAq : (10 : ℝ) ^ (a - (c.prec : ℤ) + 1) ≤ (10 : ℝ) ^ q :=
              zpow_le_zpow_right₀ (by norm_num) (by omega)
            have hqU : (10 : ℝ) ^ q ≤ (10 : ℝ) ^ (ulpExp c (ctxRound c m.d).1) := zpow_le_zpow_right₀ (by norm_num) hq1
            set A := (10 : ℝ) ^ (a - (c.prec : ℤ) + 1) with hAdef
            have hA0 : 0 < A := zpow_pos (by norm_num) _
            -- |d - m|
            have hdm : |rv (ctxRound c m.d).1 - rv m.d| ≤ ((rhoMode c.mode : ℚ) : ℝ) * (10 : ℝ) ^ q := by
              unfold rv
              have : ((|(ctxRound c m.d).1.toRat - m.d.toRat| : ℚ) : ℝ) ≤ ((rhoMode c.mode * (10 : ℚ) ^ q : ℚ) : ℝ) := by
                exact_mod_cast hq2
              push_cast at this; exact this
            -- |P| u2 ≤ A/20
            have hPA : |rv l.d * rv (invLn10At (c.prec + 2))| * u2 ≤ 1 / 20 * A := by
              have e : (10 : ℝ) ^ (a + 1) * u2 = 1 / 20 * A := by
                rw [hu2, uR_eq, hAdef]
                have : (10 : ℝ) ^ (a - (c.prec : ℤ) + 1) = (10 : ℝ) ^ (a + 1) * ((10 : ℝ) ^ c.prec)⁻¹ := by
                  rw [← zpow_natCast, ← zpow_neg, ← zpow_add₀ (by norm_num : (10 : ℝ) ≠ 0)]; congr 1; ring
                rw [this, pow_add]
                field_simp; ring
              have := mul_le_mul_of_nonneg_right h2.le hu2pos.le
              linarith
            -- |P - y|
            have hreal := log10_real Λ (rv l.d) (rv (invLn10At (c.prec + 2))) _ (9 / 100 * u2) (1001 / 10000 * u2)
              hlb he10 (by positivity) Tnear (by linarith)
            have hΛh : |rv l.d| = |rv l.d * rv (invLn10At (c.prec + 2))| / rv (invLn10At (c.prec + 2)) := by
              rw [abs_mul, abs_of_pos (by linarith : (0 : ℝ) < rv (invLn10At (c.prec + 2)))]
              field_simp
            rw [hΛh] at hreal
            have hnum := log10_numeric (rv l.d * rv (invLn10At (c.prec + 2))) u2 _ (rv (invLn10At (c.prec + 2)))
              (1001 / 10000 * u2) A N hu2pos rfl he1s he10 hNn T1 T2 (by positivity) (le_refl _) hPA hA0.le
            have hPy : |rv l.d * rv (invLn10At (c.prec + 2)) - Λ / Real.log 10| ≤ (1 / 10 + (N + 5) / 1500) * A + 1 / 25 * u2 :=
              le_trans hreal hnum
            -- total
            have tri : |rv (ctxRound c m.d).1 - Λ / Real.log 10| ≤
                |rv (ctxRound c m.d).1 - rv m.d| + |rv m.d - rv l.d * rv (invLn10At (c.prec + 2))| +
                  |rv l.d * rv (invLn10At (c.prec + 2)) - Λ / Real.log 10| := by
              have : rv (ctxRound c m.d).1 - Λ / Real.log 10 = (rv (ctxRound c m.d).1 - rv m.d) +
                  (rv m.d - rv l.d * rv (invLn10At (c.prec + 2))) +
                  (rv l.d * rv (invLn10At (c.prec + 2)) - Λ / Real.log 10) := by ring
              rw [this]
              exact le_trans (abs_add_le _ _) (add_le_add (abs_add_le _ _) (le_refl _))
            have hcoefN : 0 ≤ (1 / 10 + (N + 5) / 1500 : ℝ) := by positivity
            set U := (10 : ℝ) ^ (ulpExp c (ctxRound c m.d).1) with hU
            have hAU : A ≤ U := le_trans hAq hqU
            have e1 : ((rhoMode c.mode : ℚ) : ℝ) * (10 : ℝ) ^ q ≤ ((rhoMode c.mode : ℚ) : ℝ) * U :=
              mul_le_mul_of_nonneg_left hqU hρ
            have e2 : (1 / 10 + (N + 5) / 1500) * A ≤ (1 / 10 + (N + 5) / 1500) * U :=
              mul_le_mul_of_nonneg_left hAU hcoefN
            have e3 : (((rhoMode c.mode : ℚ) : ℝ) + 3 / 5 + (N + 5) / 1500) * U =
                ((rhoMode c.mode : ℚ) : ℝ) * U + U / 2 + (1 / 10 + (N + 5) / 1500) * U := by ring
            rw [e3]
            linarith

end Apd.LnAcc
