import ApdVerif.Lemmas.CbrtConvOps
import ApdVerif.Lemmas.CbrtConvReal
/-!
# `Context.Cbrt` converges — the loops of the model, forwards

* `scaleLoop_fw`: a scaling loop (`z ← z·8` while `z < 1/8`, `z ← z·0.125` while `z > 1`) ends within a given number of
  steps, none of its multiplications fails, and the final value is the start times `k^n` up to `n` roundings;
* `mulN_fw`: the same for the `n`-fold multiplication by `0.5` / `2` that scales the first estimate back;
* `est_fw`: the four operations of the first estimate.
-/
set_option linter.unusedVariables false

namespace Apd.CbrtC
open Apd Apd.Oracle Apd.RatSpec Apd.C20L Apd.SqrtL Apd.CbrtL Apd.CbrtR Cond

/-- relative size of one rounding at `p` digits -/
noncomputable def eps (p : ℕ) : ℚ := 5 * (10 : ℚ) ^ (-(p : ℤ))

theorem eps_pos (p : ℕ) : 0 < eps p := by unfold eps; have := tp (-(p : ℤ)); positivity

theorem eps_small' (p : ℕ) (hp : 4 ≤ p) : eps p ≤ 1 / 2000 := eps_le p hp

theorem opr_bounds {p : ℕ} {v : ℚ} {d : Dec} (h : OpR p v d) (hv : 0 < v) :
    v * (1 - eps p) ≤ d.toRat ∧ d.toRat ≤ v * (1 + eps p) := by
  have := h.val
  rw [abs_of_pos hv] at this
  obtain ⟨l, u⟩ := abs_le.mp this
  unfold eps
  constructor <;> linarith

theorem ndigits_mul_le (a b : Nat) (ha : 0 < a) (hb : 0 < b) : ndigits (a * b) ≤ ndigits a + ndigits b := by
  obtain ⟨_, a2⟩ := ndigits_spec a ha
  obtain ⟨_, b2⟩ := ndigits_spec b hb
  have hab : 0 < a * b := Nat.mul_pos ha hb
  have hpa := ndigits_pos a
  rw [ndigits_le_iff (a * b) _ hab (by omega), Nat.pow_add]
  exact Nat.mul_lt_mul'' a2 b2

/-- the value after `n` multiplications by `kq`, each rounded once, started from `s` -/
def Bnd (p : ℕ) (s kq : ℚ) (n : ℕ) (z : ℚ) : Prop :=
  s * kq ^ n * (1 - eps p) ^ n ≤ z ∧ z ≤ s * kq ^ n * (1 + eps p) ^ n

theorem Bnd_zero (p : ℕ) (s kq : ℚ) : Bnd p s kq 0 s := by
  unfold Bnd; simp

theorem Bnd_step {p : ℕ} {s kq z z' : ℚ} {n : ℕ} (hp : 4 ≤ p) (hs : 0 ≤ s) (hk : 0 ≤ kq) (h : Bnd p s kq n z)
    (l : z * kq * (1 - eps p) ≤ z') (u : z' ≤ z * kq * (1 + eps p)) : Bnd p s kq (n + 1) z' := by
  have he := eps_small' p hp
  have he0 := eps_pos p
  obtain ⟨h1, h2⟩ := h
  have f1 : 0 ≤ kq * (1 - eps p) := mul_nonneg hk (by linarith)
  have f2 : 0 ≤ kq * (1 + eps p) := mul_nonneg hk (by linarith)
  constructor
  · have := mul_le_mul_of_nonneg_right h1 f1
    calc s * kq ^ (n + 1) * (1 - eps p) ^ (n + 1) = s * kq ^ n * (1 - eps p) ^ n * (kq * (1 - eps p)) := by ring
      _ ≤ z * (kq * (1 - eps p)) := this
      _ = z * kq * (1 - eps p) := by ring
      _ ≤ z' := l
  · have := mul_le_mul_of_nonneg_right h2 f2
    calc z' ≤ z * kq * (1 + eps p) := u
      _ = z * (kq * (1 + eps p)) := by ring
      _ ≤ s * kq ^ n * (1 + eps p) ^ n * (kq * (1 + eps p)) := this
      _ = s * kq ^ (n + 1) * (1 + eps p) ^ (n + 1) := by ring

/-- what the multiplication `z·k` needs -/
structure StepOK (p : ℕ) (z k : Dec) : Prop where
  e1 : -100000 ≤ z.exp
  e2 : z.exp ≤ 100000
  e5 : -100000 ≤ z.exp + k.exp
  h1 : ndigits (z.coeff * k.coeff) ≤ 99999 + p
  lo : (10 : ℚ) ^ (-100000 : ℤ) ≤ z.toRat * k.toRat
  hi : z.toRat * k.toRat < (10 : ℚ) ^ (99999 : ℤ)

theorem mulk_fw (cc : Ctx) (p : Nat) (hw : NCtx cc p) (hp1 : 1 ≤ p) (hp2 : p ≤ 100000)
    (z k : Dec) (hz : Pos z) (hk : Pos k) (ke1 : -100000 ≤ k.exp) (ke2 : k.exp ≤ 100000) (h : StepOK p z k) :
    OpF p (z.toRat * k.toRat) (mulOp cc z k) := by
  have hv : 0 < z.toRat * k.toRat := mul_pos hz.toRat_pos hk.toRat_pos
  exact mul_fw cc p hw hp1 hp2 z k hz.hf hk.hf hz.h0 hk.h0 h.e1 h.e2 ke1 ke2 h.e5 h.h1
    (by rw [abs_of_pos hv]; exact h.lo) (by rw [abs_of_pos hv]; exact h.hi)

/-- one step of a chain of multiplications by `k` -/
theorem chain_step (cc : Ctx) (p : Nat) (hw : NCtx cc p) (hp4 : 4 ≤ p) (hp2 : p ≤ 100000)
    (k : Dec) (hk : Pos k) (ke1 : -100000 ≤ k.exp) (ke2 : k.exp ≤ 100000) (s : ℚ) (hs : 0 ≤ s)
    (e : ED) (z : Dec) (n : ℕ) (he : EDg cc e) (hz : Pos z) (hb : Bnd p s k.toRat n z.toRat) (h : StepOK p z k) :
    EDg cc (e.step z (fun c => mulOp c z k)).1 ∧ Pos (e.step z (fun c => mulOp c z k)).2 ∧
    ndigits (e.step z (fun c => mulOp c z k)).2.coeff ≤ p ∧
    Bnd p s k.toRat (n + 1) (e.step z (fun c => mulOp c z k)).2.toRat ∧
    z.toRat * k.toRat * (1 - eps p) ≤ (e.step z (fun c => mulOp c z k)).2.toRat ∧
    (e.step z (fun c => mulOp c z k)).2.toRat ≤ z.toRat * k.toRat * (1 + eps p) := by
  have hF := mulk_fw cc p hw (by omega) hp2 z k hz hk ke1 ke2 h
  obtain ⟨g1, g2⟩ := step_fw hw.ht e z (fun c => mulOp c z k) he p _ hF
  have hv : 0 < z.toRat * k.toRat := mul_pos hz.toRat_pos hk.toRat_pos
  obtain ⟨l, u⟩ := opr_bounds hF.r hv
  rw [g2]
  exact ⟨g1, hF.r.pos hv, hF.r.nd, Bnd_step hp4 hs hk.toRat_pos.le hb l u, l, u⟩

/-- **a scaling loop, forwards**: as long as the test holds the step is safe and the step count is below `B`;
then the loop ends (the model's fuel suffices) without a failed operation -/
theorem scaleLoop_fw (cc : Ctx) (p : Nat) (hw : NCtx cc p) (hp4 : 4 ≤ p) (hp2 : p ≤ 100000)
    (test : Dec → Bool) (k : Dec) (hk : Pos k) (ke1 : -100000 ≤ k.exp) (ke2 : k.exp ≤ 100000) (s : Dec) (hs : Pos s)
    (B : ℕ)
    (hstep : ∀ (z : Dec) (n : ℕ), Pos z → (z = s ∨ ndigits z.coeff ≤ p) → test z = true →
        Bnd p s.toRat k.toRat n z.toRat → n < B ∧ StepOK p z k) :
    ∀ (fuel n : ℕ) (e : ED) (z : Dec), B < fuel + n → n ≤ B → EDg cc e → Pos z → (z = s ∨ ndigits z.coeff ≤ p) →
      Bnd p s.toRat k.toRat n z.toRat →
      ∃ e' z' n', scaleLoop test k fuel e z n = some (.inr (e', z', n')) ∧ EDg cc e' ∧ Pos z' ∧
        (z' = s ∨ ndigits z'.coeff ≤ p) ∧ n ≤ n' ∧ n' ≤ B ∧ Bnd p s.toRat k.toRat n' z'.toRat ∧ test z' = false ∧
        ((n' = n ∧ z' = z) ∨ ∃ zp, test zp = true ∧ Pos zp ∧ zp.toRat * k.toRat * (1 - eps p) ≤ z'.toRat ∧
          z'.toRat ≤ zp.toRat * k.toRat * (1 + eps p)) := by
  intro fuel
  induction fuel with
  | zero => intro n e z h1 h2; omega
  | succ fuel ih =>
    intro n e z hB hn he hz hd hb
    simp only [scaleLoop]
    by_cases ht : test z = true
    · rw [if_pos ht]
      obtain ⟨hlt, hok⟩ := hstep z n hz hd ht hb
      obtain ⟨g1, g2, g3, g4, g5, g6⟩ :=
        chain_step cc p hw hp4 hp2 k hk ke1 ke2 s.toRat hs.toRat_pos.le e z n he hz hb hok
      rw [if_neg (by rw [g1.not_failed hw.ht]; exact Bool.false_ne_true)]
      obtain ⟨e', z', n', r1, r2, r3, r4, r5, r6, r7, r8, r9⟩ :=
        ih (n + 1) _ _ (by omega) (by omega) g1 g2 (Or.inr g3) g4
      refine ⟨e', z', n', r1, r2, r3, r4, by omega, r6, r7, r8, Or.inr ?_⟩
      rcases r9 with ⟨-, h⟩ | h
      · rw [h]; exact ⟨z, ht, hz, g5, g6⟩
      · exact h
    · rw [if_neg ht]
      exact ⟨e, z, n, rfl, he, hz, hd, le_refl _, hn, hb, by simpa using ht, Or.inl ⟨rfl, rfl⟩⟩

/-- **`n` multiplications by `k`, forwards** -/
theorem mulN_fw (cc : Ctx) (p : Nat) (hw : NCtx cc p) (hp4 : 4 ≤ p) (hp2 : p ≤ 100000)
    (k : Dec) (hk : Pos k) (ke1 : -100000 ≤ k.exp) (ke2 : k.exp ≤ 100000) (s : ℚ) (hs : 0 ≤ s) :
    ∀ (m n : ℕ) (e : ED) (z : Dec), EDg cc e → Pos z → ndigits z.coeff ≤ p → Bnd p s k.toRat n z.toRat →
      (∀ (z : Dec) (j : ℕ), n ≤ j → j < n + m → Pos z → ndigits z.coeff ≤ p → Bnd p s k.toRat j z.toRat →
        StepOK p z k) →
      EDg cc (mulN k m e z).1 ∧ Pos (mulN k m e z).2 ∧ ndigits (mulN k m e z).2.coeff ≤ p ∧
      Bnd p s k.toRat (n + m) (mulN k m e z).2.toRat := by
  intro m
  induction m with
  | zero => intro n e z he hz hd hb _; exact ⟨he, hz, hd, hb⟩
  | succ m ih =>
    intro n e z he hz hd hb hstep
    simp only [mulN]
    have hok := hstep z n (le_refl _) (by omega) hz hd hb
    obtain ⟨g1, g2, g3, g4, -, -⟩ := chain_step cc p hw hp4 hp2 k hk ke1 ke2 s hs e z n he hz hb hok
    have := ih (n + 1) _ _ g1 g2 g3 g4 (fun z j h1 h2 => hstep z j (by omega) (by omega))
    rw [show n + (m + 1) = n + 1 + m by omega]
    exact this

/-! ## the first estimate -/

/-- exponent range of a non-zero decimal from its magnitude and digit count (any sign) -/
theorem exp_bounds_abs (d : Dec) (n : ℕ) (hnd : ndigits d.coeff ≤ n) (k m : ℤ)
    (lo : (10 : ℚ) ^ k ≤ |d.toRat|) (hi : |d.toRat| < (10 : ℚ) ^ m) : k - (n : ℤ) < d.exp ∧ d.exp ≤ m - 1 := by
  rw [abs_toRat] at lo hi
  have h0 : 0 < d.coeff := by
    rcases Nat.eq_zero_or_pos d.coeff with h | h
    · exfalso; rw [h] at lo; simp at lo; have := tp k; linarith
    · exact h
  have h1 := adj_gt' d.coeff d.exp h0 lo
  have h2 := adj_le' d.coeff d.exp h0 hi
  have := ndigits_pos d.coeff
  omega

/-- the four operations of the polynomial estimate -/
def est4 (ed : ED) (z : Dec) : ED × Dec :=
  let r1 := ed.step z (fun c => mulOp c z cbrtC1)
  let r2 := r1.1.step r1.2 (fun c => addOp c r1.2 cbrtC2 false)
  let r3 := r2.1.step r2.2 (fun c => mulOp c r2.2 z)
  r3.1.step r3.2 (fun c => addOp c r3.2 cbrtC3 false)

theorem est_eq (ed : ED) (z : Dec) (down up : Nat) :
    est ed z down up =
      if down > up then mulN decHalf (down - up) (est4 ed z).1 (est4 ed z).2
      else mulN decTwo (up - down) (est4 ed z).1 (est4 ed z).2 := rfl

theorem triv_val (x ε : ℚ) (hε : 0 ≤ ε) : |x - x| ≤ ε * |x| := by
  rw [sub_self, abs_zero]; exact mul_nonneg hε (abs_nonneg _)

theorem cbrtC1_nd : ndigits cbrtC1.coeff ≤ 8 := ndigits_le_of_lt_pow _ _ (by decide) (by show 46946116 < 10 ^ 8; norm_num)

theorem tm3' : (10 : ℚ) ^ (-3 : ℤ) = 1 / 1000 := by norm_num

theorem est4_fw (cc : Ctx) (p : Nat) (hw : NCtx cc p) (hp4 : 4 ≤ p) (hp2 : p ≤ 50000)
    (e : ED) (z : Dec) (he : EDg cc e) (hz : Pos z) (hnd : ndigits z.coeff ≤ 99990)
    (hze1 : -100000 + (p : ℤ) ≤ z.exp) (hze2 : -99992 ≤ z.exp)
    (hz1 : 1249 / 10000 ≤ z.toRat) (hz2 : z.toRat ≤ 1) :
    EDg cc (est4 e z).1 ∧ Pos (est4 e z).2 ∧ ndigits (est4 e z).2.coeff ≤ p ∧
    pc z.toRat * (1 - eps p) ^ 4 ≤ (est4 e z).2.toRat ∧ (est4 e z).2.toRat ≤ pc z.toRat * (1 + eps p) ^ 4 := by
  have hp1 : 1 ≤ p := by omega
  have hp2' : p ≤ 100000 := by omega
  have hε0 := (eps_pos p).le
  have hε := eps_small' p hp4
  have hzp := hz.toRat_pos
  have hze3 : z.exp ≤ 0 := by
    have := adj_le hz (k := 1) (by rw [t1]; linarith)
    have := ndigits_pos z.coeff
    omega
  have c1e : cbrtC1.exp = -8 := rfl
  have c2e : cbrtC2.exp = -6 := rfl
  have c3e : cbrtC3.exp = -7 := rfl
  unfold est4
  dsimp only
  -- m1 = z · c1
  have hv1 : |z.toRat * cbrtC1.toRat| = z.toRat * (46946116 / 100000000) := by
    rw [cbrtC1_toRat, abs_of_neg (by nlinarith)]; ring
  have F1 := mul_fw cc p hw hp1 hp2' z cbrtC1 hz.hf rfl hz.h0 (by decide) (by omega) (by omega)
    (by rw [c1e]; norm_num) (by rw [c1e]; norm_num) (by rw [c1e]; omega)
    (by
      have := ndigits_mul_le z.coeff cbrtC1.coeff hz.h0 (by decide)
      have := cbrtC1_nd
      omega)
    (by rw [hv1]; apply widen_lo; rw [tm3']; linarith) (by rw [hv1]; apply widen_hi; rw [t2]; linarith)
  obtain ⟨g1, v1⟩ := step_fw hw.ht e z (fun c => mulOp c z cbrtC1) he p _ F1
  generalize e.step z (fun c => mulOp c z cbrtC1) = r1 at g1 v1 ⊢
  have R1 := F1.r
  rw [← v1, cbrtC1_toRat] at R1
  have hval1 : |r1.2.toRat - z.toRat * -(46946116 / 100000000)| ≤ eps p * |z.toRat * -(46946116 / 100000000)| := R1.val
  obtain ⟨-, -, m1a, m1b, -⟩ := est_real z.toRat r1.2.toRat _ _ _ (eps p) hzp hz2 hε0 hε hval1
    (triv_val _ _ hε0) (triv_val _ _ hε0) (triv_val _ _ hε0)
  have habs1 : |r1.2.toRat| = - r1.2.toRat := abs_of_neg (by nlinarith)
  obtain ⟨x1, x2⟩ := exp_bounds_abs r1.2 p R1.nd (-2) 0 (by rw [habs1, tm2]; nlinarith) (by rw [habs1, t0]; linarith)
  -- a2 = m1 + c2
  have F2 := add_fw cc p hw hp1 hp2' r1.2 cbrtC2 false R1.fin rfl (by omega) (by omega) (by rw [c2e]; norm_num)
    (by rw [c2e]; norm_num) (by rw [c2e]; omega) (by rw [c2e]; omega) 1 (by norm_num) (by omega) (by rw [c2e]; omega)
    (by
      simp only [Bool.false_eq_true, if_false]
      rw [cbrtC2_toRat, abs_of_pos (by linarith), t1]; linarith)
  simp only [Bool.false_eq_true, if_false] at F2
  obtain ⟨g2, v2⟩ := step_fw hw.ht r1.1 r1.2 (fun c => addOp c r1.2 cbrtC2 false) g1 p _ F2
  generalize r1.1.step r1.2 (fun c => addOp c r1.2 cbrtC2 false) = r2 at g2 v2 ⊢
  have R2 := F2.r
  rw [← v2, cbrtC2_toRat] at R2
  have hval2 : |r2.2.toRat - (r1.2.toRat + 1072302 / 1000000)| ≤ eps p * |r1.2.toRat + 1072302 / 1000000| := R2.val
  obtain ⟨-, -, -, -, a2a, a2b, -⟩ := est_real z.toRat r1.2.toRat r2.2.toRat _ _ (eps p) hzp hz2 hε0 hε hval1
    hval2 (triv_val _ _ hε0) (triv_val _ _ hε0)
  have P2 : Pos r2.2 := R2.pos (by linarith)
  obtain ⟨y1, y2⟩ := exp_bounds P2 R2.nd (k := -1) (m := 1) (by rw [tm1]; linarith) (by rw [t1]; linarith)
  -- m3 = a2 · z
  have F3 := mulk_fw cc p hw hp1 hp2' r2.2 z P2 hz (by omega) (by omega)
    ⟨by omega, by omega, by omega,
      by
        have := ndigits_mul_le r2.2.coeff z.coeff P2.h0 hz.h0
        have := R2.nd
        omega,
      by apply widen_lo; rw [tm3']; nlinarith, by apply widen_hi; rw [t2]; nlinarith⟩
  obtain ⟨g3, v3⟩ := step_fw hw.ht r2.1 r2.2 (fun c => mulOp c r2.2 z) g2 p _ F3
  generalize r2.1.step r2.2 (fun c => mulOp c r2.2 z) = r3 at g3 v3 ⊢
  have R3 := F3.r
  rw [← v3] at R3
  have hval3 : |r3.2.toRat - r2.2.toRat * z.toRat| ≤ eps p * |r2.2.toRat * z.toRat| := R3.val
  obtain ⟨-, -, -, -, -, -, m3a, m3b⟩ := est_real z.toRat r1.2.toRat r2.2.toRat r3.2.toRat _ (eps p) hzp hz2 hε0 hε hval1
    hval2 hval3 (triv_val _ _ hε0)
  have P3 : Pos r3.2 := R3.pos (mul_pos P2.toRat_pos hzp)
  obtain ⟨w1, w2⟩ := exp_bounds P3 R3.nd (k := -2) (m := 1) (by rw [tm2]; linarith) (by rw [t1]; linarith)
  -- a4 = m3 + c3
  have F4 := add_fw cc p hw hp1 hp2' r3.2 cbrtC3 false P3.hf rfl (by omega) (by omega) (by rw [c3e]; norm_num)
    (by rw [c3e]; norm_num) (by rw [c3e]; omega) (by rw [c3e]; omega) 1 (by norm_num) (by omega) (by rw [c3e]; omega)
    (by
      simp only [Bool.false_eq_true, if_false]
      rw [cbrtC3_toRat, abs_of_pos (by linarith), t1]; linarith)
  simp only [Bool.false_eq_true, if_false] at F4
  obtain ⟨g4, v4⟩ := step_fw hw.ht r3.1 r3.2 (fun c => addOp c r3.2 cbrtC3 false) g3 p _ F4
  generalize r3.1.step r3.2 (fun c => addOp c r3.2 cbrtC3 false) = r4 at g4 v4 ⊢
  have R4 := F4.r
  rw [← v4, cbrtC3_toRat] at R4
  have hval4 : |r4.2.toRat - (r3.2.toRat + 3812513 / 10000000)| ≤ eps p * |r3.2.toRat + 3812513 / 10000000| := R4.val
  obtain ⟨lo4, hi4, -⟩ := est_real z.toRat r1.2.toRat r2.2.toRat r3.2.toRat r4.2.toRat (eps p) hzp hz2 hε0 hε hval1
    hval2 hval3 hval4
  exact ⟨g4, R4.pos (by linarith), R4.nd, lo4, hi4⟩

end Apd.CbrtC
