import ApdVerif.Lemmas.LnAccPaths
import ApdVerif.Lemmas.TransLogLemmas
/-!
# The common tail of `Ln`: `tmp1 + resAdjust`, rounded to the caller's context in the caller's mode
-/
namespace Apd.LnAcc
open Apd Apd.Oracle Apd.ExpAcc Apd.Props Cond

theorem lnNc_wide (c : Ctx) (h1 : 1 ≤ c.prec) (h2 : c.prec + 2 ≤ 100000) : Wide (lnNc c) :=
  ⟨rfl, rfl, by show 1 ≤ c.prec + 2; omega, by show ((c.prec + 2 : ℕ) : ℤ) ≤ 100000; omega⟩

/-- what the tail delivers: the sum `F` (one rounding at `p` digits) and the final rounding of `F` -/
theorem lnTail_ok (c : Ctx) (hc : c.WF) (h2 : c.prec + 2 ≤ 100000) (ed : ED) (hed : ed.c = lnNc c)
    (tmp1 resAdjust : Dec) (h1f : tmp1.form = .finite) (hrf : resAdjust.form = .finite) (tape r' : Tape) (o : Out)
    (h : lnTail c ed tmp1 resAdjust tape = some (o, r'))
    (hd : o.err = .none ∨ (o.err = .trap ∧ (o.fl &&& c.traps).any = true)) :
    ∃ F : Dec, F.form = .finite ∧ (∃ δ : ℝ, |δ| ≤ uR (c.prec + 2) ∧ rv F = (rv tmp1 + rv resAdjust) * (1 + δ)) ∧
      o.d = (ctxRound c F).1 ∧ NoSys (ctxRound c F).2 := by
  unfold lnTail at h
  simp only [] at h
  by_cases hf : (ed.step tmp1 (fun k => addOp k tmp1 resAdjust false)).1.failed = true
  · rw [if_pos hf] at h
    simp only [Option.some.injEq, Prod.mk.injEq] at h
    obtain ⟨rfl, _⟩ := h
    exact (TL.not_deliv_of_failed (TL.failed_of_ed _ hf) hd).elim
  · rw [if_neg hf] at h
    have hf' : (ed.step tmp1 (fun k => addOp k tmp1 resAdjust false)).1.failed = false := by simpa using hf
    simp only [Option.some.injEq, Prod.mk.injEq] at h
    obtain ⟨rfl, _⟩ := h
    obtain ⟨_, a, v, _⟩ := step_ok _ _ _ hf'
    rw [hed] at a v
    have hw := lnNc_wide c hc.1 h2
    obtain ⟨Ff, δ, hδ, Fv⟩ := add_rel_gen (lnNc c) hw rfl tmp1 resAdjust false h1f hrf a
    rw [← v] at Ff Fv
    refine ⟨_, Ff, ⟨δ, hδ, by simpa using Fv⟩, rfl, ?_⟩
    simp only at hd
    have hdl : Delivered (goError c.traps ((ctxRound c (ed.step tmp1 (fun k => addOp k tmp1 resAdjust false)).2).2 ||| cInexact ||| cRounded)) := by
      rcases hd with hd | ⟨hd, _⟩
      · exact Or.inl hd
      · exact Or.inr hd
    exact noSys_left _ _ (noSys_left _ _ (QuoL.noSys_of_delivered _ _ hdl))

/-- the final rounding, with an absolute bound `B` on the distance of `F` from the target -/
theorem ln_final_abs (c : Ctx) (hc : c.WF) (F : Dec) (hFf : F.form = .finite) (hF0 : rv F ≠ 0) (R B : ℝ)
    (hB : |rv F - R| ≤ B) (hns : NoSys (ctxRound c F).2) (hf : (ctxRound c F).1.form = .finite) :
    ∃ q : ℤ, q ≤ ulpExp c (ctxRound c F).1 ∧ |rv F| < (10 : ℝ) ^ (q + (c.prec : ℤ)) ∧
      |rv (ctxRound c F).1 - R| ≤ ((rhoMode c.mode : ℚ) : ℝ) * (10 : ℝ) ^ q + B := by
  have hF0' : F.toRat ≠ 0 := by
    intro h; apply hF0; unfold rv; rw [h]; simp
  obtain ⟨q, hq1, hq2, hq3⟩ := final_round_gen c hc F hFf hF0' hns hf
  refine ⟨q, hq1, ?_, ?_⟩
  · unfold rv
    have : ((|F.toRat| : ℚ) : ℝ) < (((10 : ℚ) ^ (q + (c.prec : ℤ)) : ℚ) : ℝ) := by exact_mod_cast hq3
    push_cast at this
    exact this
  · have h2 : |rv (ctxRound c F).1 - rv F| ≤ ((rhoMode c.mode : ℚ) : ℝ) * (10 : ℝ) ^ q := by
      unfold rv
      have : ((|(ctxRound c F).1.toRat - F.toRat| : ℚ) : ℝ) ≤ ((rhoMode c.mode * (10 : ℚ) ^ q : ℚ) : ℝ) := by
        exact_mod_cast hq2
      push_cast at this
      exact this
    have : rv (ctxRound c F).1 - R = (rv (ctxRound c F).1 - rv F) + (rv F - R) := by ring
    rw [this]
    exact le_trans (abs_add_le _ _) (add_le_add h2 hB)

theorem rhoMode_nonneg (m : Mode) : (0 : ℝ) ≤ ((rhoMode m : ℚ) : ℝ) := by
  unfold rhoMode; split_ifs <;> norm_num

/-- the final rounding, with a bound relative to `|F|`: `(ρ + ε·10^P)` units in the last place -/
theorem ln_final_rel (c : Ctx) (hc : c.WF) (F : Dec) (hFf : F.form = .finite) (hF0 : rv F ≠ 0) (R ε : ℝ)
    (hε : 0 ≤ ε) (hB : |rv F - R| ≤ ε * |rv F|) (hns : NoSys (ctxRound c F).2) (hf : (ctxRound c F).1.form = .finite) :
    |rv (ctxRound c F).1 - R| ≤
      (((rhoMode c.mode : ℚ) : ℝ) + ε * (10 : ℝ) ^ c.prec) * (10 : ℝ) ^ (ulpExp c (ctxRound c F).1) := by
  obtain ⟨q, hq1, hq3, hq4⟩ := ln_final_abs c hc F hFf hF0 R _ hB hns hf
  have hmono : (10 : ℝ) ^ q ≤ (10 : ℝ) ^ (ulpExp c (ctxRound c F).1) := zpow_le_zpow_right₀ (by norm_num) hq1
  have h1 : ε * |rv F| ≤ ε * (10 : ℝ) ^ c.prec * (10 : ℝ) ^ q := by
    have : (10 : ℝ) ^ (q + (c.prec : ℤ)) = (10 : ℝ) ^ c.prec * (10 : ℝ) ^ q := by
      rw [zpow_add₀ (by norm_num : (10 : ℝ) ≠ 0), zpow_natCast]; ring
    rw [this] at hq3
    calc ε * |rv F| ≤ ε * ((10 : ℝ) ^ c.prec * (10 : ℝ) ^ q) := mul_le_mul_of_nonneg_left hq3.le hε
      _ = _ := by ring
  have hρ := rhoMode_nonneg c.mode
  have hcoef : 0 ≤ ((rhoMode c.mode : ℚ) : ℝ) + ε * (10 : ℝ) ^ c.prec := by positivity
  calc _ ≤ ((rhoMode c.mode : ℚ) : ℝ) * (10 : ℝ) ^ q + ε * |rv F| := hq4
    _ ≤ (((rhoMode c.mode : ℚ) : ℝ) + ε * (10 : ℝ) ^ c.prec) * (10 : ℝ) ^ q := by linarith
    _ ≤ _ := mul_le_mul_of_nonneg_left hmono hcoef

end Apd.LnAcc
