import ApdVerif.Spec.Agrees
import ApdVerif.Lemmas.Digits
import Mathlib.Tactic.Ring
import Mathlib.Tactic.Linarith
import Mathlib.Tactic.NormNum
import Mathlib.Tactic.SplitIfs
/-!
# Reusable lemmas about `setExponent`, `roundXFin` and the rounding oracle
-/
namespace Apd
open Apd Apd.Oracle Cond

/-! ## flags -/
namespace Cond
@[simp] theorem or_sysOverflow (a b : Cond) : (a ||| b).sysOverflow = (a.sysOverflow || b.sysOverflow) := rfl
@[simp] theorem or_sysUnderflow (a b : Cond) : (a ||| b).sysUnderflow = (a.sysUnderflow || b.sysUnderflow) := rfl
@[simp] theorem or_overflow (a b : Cond) : (a ||| b).overflow = (a.overflow || b.overflow) := rfl
@[simp] theorem or_underflow (a b : Cond) : (a ||| b).underflow = (a.underflow || b.underflow) := rfl
@[simp] theorem or_inexact (a b : Cond) : (a ||| b).inexact = (a.inexact || b.inexact) := rfl
@[simp] theorem or_subnormal (a b : Cond) : (a ||| b).subnormal = (a.subnormal || b.subnormal) := rfl
@[simp] theorem or_rounded (a b : Cond) : (a ||| b).rounded = (a.rounded || b.rounded) := rfl
@[simp] theorem or_divUndefined (a b : Cond) : (a ||| b).divUndefined = (a.divUndefined || b.divUndefined) := rfl
@[simp] theorem or_divByZero (a b : Cond) : (a ||| b).divByZero = (a.divByZero || b.divByZero) := rfl
@[simp] theorem or_divImpossible (a b : Cond) : (a ||| b).divImpossible = (a.divImpossible || b.divImpossible) := rfl
@[simp] theorem or_invalidOp (a b : Cond) : (a ||| b).invalidOp = (a.invalidOp || b.invalidOp) := rfl
@[simp] theorem or_clamped (a b : Cond) : (a ||| b).clamped = (a.clamped || b.clamped) := rfl
end Cond

/-! ## rounding decision -/

theorem r05_aux (n : Nat) : (decide (n % 5 = 0) || n % 10 == 0) = (n % 10 == 0 || n % 10 == 5) := by
  rw [Bool.eq_iff_iff]; simp; omega

theorem shouldAddOne_eq_spec (m : Mode) (n : Nat) (neg : Bool) (a b : Nat) :
    shouldAddOne m n neg (cmpNat a b) = specAddOne m n neg (compare a b) := by
  rcases Nat.lt_trichotomy a b with h | h | h
  · have hc : compare a b = .lt := compare_lt_iff_lt.2 h
    have hn : cmpNat a b = -1 := by simp [cmpNat, h]
    rw [hc, hn]; cases m <;> simp [shouldAddOne, specAddOne, r05_aux]
  · subst h
    have hc : compare a a = .eq := compare_eq_iff_eq.2 rfl
    have hn : cmpNat a a = 0 := by simp [cmpNat]
    rw [hc, hn]; cases m <;> simp [shouldAddOne, specAddOne, r05_aux]
  · have hc : compare a b = .gt := compare_gt_iff_gt.2 h
    have hn : cmpNat a b = 1 := by
      have : ¬ a < b := by omega
      simp [cmpNat, this, h]
    rw [hc, hn]; cases m <;> simp [shouldAddOne, specAddOne, r05_aux]

/-! ## digits -/

theorem ndigits_zero : ndigits 0 = 1 := rfl
theorem ndigits_one : ndigits 1 = 1 := by decide

theorem ndigits_mul_pow (n k : Nat) (hn : 0 < n) : ndigits (n * 10 ^ k) = ndigits n + k := by
  obtain ⟨a, b⟩ := ndigits_spec n hn
  have hp := ndigits_pos n
  apply ndigits_unique _ _ (by omega)
  · have : ndigits n + k - 1 = (ndigits n - 1) + k := by omega
    rw [this, Nat.pow_add]
    exact Nat.mul_le_mul_right _ a
  · rw [Nat.pow_add]
    exact Nat.mul_lt_mul_of_lt_of_le b (Nat.le_refl _) (Nat.pow_pos (by decide))

/-- keeping the `P` leading digits -/
theorem ndigits_div_pow (n P : Nat) (hn : 0 < n) (hP : 1 ≤ P) (h : P ≤ ndigits n) :
    ndigits (n / 10 ^ (ndigits n - P)) = P := by
  obtain ⟨a, b⟩ := ndigits_spec n hn
  have hpos : 0 < 10 ^ (ndigits n - P) := Nat.pow_pos (by decide)
  apply ndigits_unique _ _ hP
  · rw [Nat.le_div_iff_mul_le hpos, ← Nat.pow_add]
    have : P - 1 + (ndigits n - P) = ndigits n - 1 := by omega
    rw [this]; exact a
  · rw [Nat.div_lt_iff_lt_mul hpos, ← Nat.pow_add]
    have : P + (ndigits n - P) = ndigits n := by omega
    rw [this]; exact b

theorem lt_pow_of_ndigits_le (n k : Nat) (h : ndigits n ≤ k) : n < 10 ^ k := by
  rcases Nat.eq_zero_or_pos n with h0 | h0
  · subst h0; exact Nat.pow_pos (by decide)
  · exact Nat.lt_of_lt_of_le (ndigits_spec n h0).2 (Nat.pow_le_pow_right (by decide) h)

theorem ndigits_le_of_lt_pow (n k : Nat) (hk : 1 ≤ k) (h : n < 10 ^ k) : ndigits n ≤ k := by
  rcases Nat.eq_zero_or_pos n with h0 | h0
  · subst h0; exact hk
  · exact (ndigits_le_iff n k h0 hk).2 h

theorem adjRat_one (n : Nat) (hn : 0 < n) : adjRat n 1 = (ndigits n : Int) - 1 := by
  obtain ⟨a, _⟩ := ndigits_spec n hn
  have hp := ndigits_pos n
  unfold adjRat
  simp only [ndigits_one]
  have h0 : ((ndigits n : Int) - ((1 : Nat) : Int)) ≥ 0 := by omega
  have h1 : ((ndigits n : Int) - ((1 : Nat) : Int)).toNat = ndigits n - 1 := by omega
  simp only [h0, h1, if_true, Nat.one_mul]
  simp [a]

/-! ## `setExponent` -/

theorem checkXs_some_sys {xs : List Int} {fl : Cond} (h : checkXs xs = some fl) :
    fl.sysOverflow = true ∨ fl.sysUnderflow = true := by
  induction xs with
  | nil => simp [checkXs] at h
  | cons x xs ih =>
    simp only [checkXs] at h
    split_ifs at h
    · left; injection h with h; subst h; rfl
    · right; injection h with h; subst h; rfl
    · exact ih h

theorem checkXs_none_iff (xs : List Int) :
    checkXs xs = none ↔ ∀ x ∈ xs, -100000 ≤ x ∧ x ≤ 100000 := by
  induction xs with
  | nil => simp [checkXs]
  | cons x xs ih =>
    simp only [checkXs, MaxExponent, MinExponent, List.mem_cons, forall_eq_or_imp]
    by_cases h1 : x > 100000
    · simp only [h1, if_true]; constructor
      · intro h; simp at h
      · intro h; omega
    · by_cases h2 : x < -100000
      · simp only [h1, h2, if_true, if_false]; constructor
        · intro h; simp at h
        · intro h; omega
      · simp only [h1, h2, if_false, ih]; constructor
        · intro h; exact ⟨by omega, h⟩
        · intro h; exact h.2

/-- the adjusted exponent `setExponent` tests -/
def seAdj (d : Dec) (xs : List Int) : Int := sumInts xs + (ndigits d.coeff : Int) - 1

/-- `Etiny` -/
def Ctx.etiny (c : Ctx) : Int := c.emin - (c.prec : Int) + 1

theorem setExponent_noSys (c : Ctx) (d : Dec) (res : Cond) (xs : List Int)
    (h : NoSys (setExponent c d res xs).2) :
    checkXs xs = none ∧ -100000 ≤ seAdj d xs ∧ seAdj d xs ≤ 100000 := by
  unfold setExponent at h
  cases hx : checkXs xs with
  | some fl =>
    rw [hx] at h
    have := checkXs_some_sys hx
    simp only [NoSys] at h
    rcases this with t | t <;> simp [t] at h
  | none =>
    rw [hx] at h
    simp only [MaxExponent, MinExponent] at h
    refine ⟨rfl, ?_, ?_⟩
    · by_contra hlt
      have h2 : sumInts xs + (ndigits d.coeff : Int) - 1 < -100000 := by unfold seAdj at hlt; omega
      have h1 : ¬ (sumInts xs + (ndigits d.coeff : Int) - 1 > 100000) := by omega
      simp only [h1, h2, if_true, if_false] at h
      simp [NoSys, cSysUnderflow] at h
    · by_contra hlt
      have h1 : (sumInts xs + (ndigits d.coeff : Int) - 1 > 100000) := by unfold seAdj at hlt; omega
      simp only [h1, if_true] at h
      simp [NoSys, cSysOverflow] at h

/-- converse of `setExponent_noSys`: inside the package limits no system flag is raised -/
theorem setExponent_noSys_of (c : Ctx) (d : Dec) (res : Cond) (xs : List Int)
    (hx : checkXs xs = none) (h1 : -100000 ≤ seAdj d xs) (h2 : seAdj d xs ≤ 100000) (hr : NoSys res) :
    NoSys (setExponent c d res xs).2 := by
  unfold seAdj at *
  unfold setExponent
  rw [hx]
  simp only [MaxExponent, MinExponent]
  have a1 : ¬ (sumInts xs + (ndigits d.coeff : Int) - 1 > 100000) := by omega
  have a2 : ¬ (sumInts xs + (ndigits d.coeff : Int) - 1 < -100000) := by omega
  simp only [a1, a2, if_false]
  obtain ⟨r1, r2⟩ := hr
  split_ifs <;>
    simp [NoSys, seFinish, r1, r2, cSubnormal, cInexact, cClamped, cRounded, cUnderflow, cOverflow] <;>
    split_ifs <;> simp [r1, r2, cUnderflow]

theorem noSys_of_delivered (t fl : Cond) (h : Delivered (goError t fl)) : NoSys fl := by
  unfold Delivered goError at h
  unfold NoSys
  by_cases h1 : (fl.sysOverflow || fl.sysUnderflow) = true
  · simp [h1] at h
  · simpa using h1

/-- normal range: only the exponent is set -/
theorem setExponent_normal (c : Ctx) (d : Dec) (res : Cond) (xs : List Int)
    (hx : checkXs xs = none) (h2 : seAdj d xs ≤ 100000)
    (hlo : c.emin ≤ seAdj d xs) (hhi : seAdj d xs ≤ c.emax) (hemin : -100000 ≤ c.emin) :
    setExponent c d res xs = seFinish d (sumInts xs) res := by
  unfold seAdj at *
  unfold setExponent
  rw [hx]
  simp only [MaxExponent, MinExponent]
  have a1 : ¬ (sumInts xs + (ndigits d.coeff : Int) - 1 > 100000) := by omega
  have a2 : ¬ (sumInts xs + (ndigits d.coeff : Int) - 1 < -100000) := by omega
  have a3 : ¬ (sumInts xs + (ndigits d.coeff : Int) - 1 < c.emin) := by omega
  have a4 : ¬ (sumInts xs + (ndigits d.coeff : Int) - 1 > c.emax) := by omega
  simp only [a1, a2, a3, a4, if_false]

/-- above `emax`, non-zero: overflow to infinity -/
theorem setExponent_overflow (c : Ctx) (d : Dec) (res : Cond) (xs : List Int)
    (hx : checkXs xs = none) (h2 : seAdj d xs ≤ 100000)
    (hhi : c.emax < seAdj d xs) (hc : c.emin ≤ c.emax) (hemin : -100000 ≤ c.emin)
    (hz : d.isZero = false) :
    setExponent c d res xs =
      seFinish { d with form := .infinite } (sumInts xs) (res ||| cOverflow ||| cInexact) := by
  unfold seAdj at *
  unfold setExponent
  rw [hx]
  simp only [MaxExponent, MinExponent]
  have a1 : ¬ (sumInts xs + (ndigits d.coeff : Int) - 1 > 100000) := by omega
  have a2 : ¬ (sumInts xs + (ndigits d.coeff : Int) - 1 < -100000) := by omega
  have a3 : ¬ (sumInts xs + (ndigits d.coeff : Int) - 1 < c.emin) := by omega
  have a4 : (sumInts xs + (ndigits d.coeff : Int) - 1 > c.emax) := by omega
  simp [a1, a2, a3, a4, hz]

/-- above `emax`, zero: exponent clamped to `emax` -/
theorem setExponent_clampZero (c : Ctx) (d : Dec) (res : Cond) (xs : List Int)
    (hx : checkXs xs = none) (h2 : seAdj d xs ≤ 100000)
    (hhi : c.emax < seAdj d xs) (hc : c.emin ≤ c.emax) (hemin : -100000 ≤ c.emin)
    (hz : d.isZero = true) :
    setExponent c d res xs = seFinish d c.emax (res ||| cClamped) := by
  unfold seAdj at *
  unfold setExponent
  rw [hx]
  simp only [MaxExponent, MinExponent]
  have a1 : ¬ (sumInts xs + (ndigits d.coeff : Int) - 1 > 100000) := by omega
  have a2 : ¬ (sumInts xs + (ndigits d.coeff : Int) - 1 < -100000) := by omega
  have a3 : ¬ (sumInts xs + (ndigits d.coeff : Int) - 1 < c.emin) := by omega
  have a4 : (sumInts xs + (ndigits d.coeff : Int) - 1 > c.emax) := by omega
  simp [a1, a2, a3, a4, hz]

/-- subnormal, exponent already at or above `Etiny`: no rounding -/
theorem setExponent_subnormal_exact (c : Ctx) (d : Dec) (res : Cond) (xs : List Int)
    (hx : checkXs xs = none) (h1 : -100000 ≤ seAdj d xs)
    (hsub : seAdj d xs < c.emin) (hemin : c.emin ≤ 100000) (hr : c.etiny ≤ sumInts xs) :
    setExponent c d res xs =
      seFinish d (sumInts xs) (if !d.isZero then res ||| cSubnormal else res) := by
  unfold seAdj Ctx.etiny at *
  unfold setExponent
  rw [hx]
  simp only [MaxExponent, MinExponent]
  have a1 : ¬ (sumInts xs + (ndigits d.coeff : Int) - 1 > 100000) := by omega
  have a2 : ¬ (sumInts xs + (ndigits d.coeff : Int) - 1 < -100000) := by omega
  have a3 : (sumInts xs + (ndigits d.coeff : Int) - 1 < c.emin) := by omega
  have a4 : ¬ (sumInts xs < c.emin - ((c.prec : Int) - 1)) := by omega
  simp only [a1, a2, a3, a4, if_false, if_true]

/-- subnormal, exponent below `Etiny`: the coefficient is rounded at `Etiny`, exactly as the
oracle's `roundAt` does -/
theorem setExponent_subnormal_round (c : Ctx) (d : Dec) (res : Cond) (xs : List Int)
    (hx : checkXs xs = none) (h1 : -100000 ≤ seAdj d xs)
    (hsub : seAdj d xs < c.emin) (hemin : c.emin ≤ 100000) (hr : sumInts xs < c.etiny) :
    setExponent c d res xs =
      (let ra := roundAt c.mode d.neg d.coeff 1 (sumInts xs) c.etiny
       let res := if !d.isZero then res ||| cSubnormal else res
       let res := if ra.2 then res ||| cInexact else res
       let res := if ra.1 == 0 then res ||| cClamped else res
       seFinish { d with coeff := ra.1 } c.etiny (res ||| cRounded)) := by
  unfold seAdj at *
  have het : c.emin - ((c.prec : Int) - 1) = c.etiny := by unfold Ctx.etiny; omega
  unfold setExponent
  rw [hx]
  simp only [MaxExponent, MinExponent, het]
  have a1 : ¬ (sumInts xs + (ndigits d.coeff : Int) - 1 > 100000) := by omega
  have a2 : ¬ (sumInts xs + (ndigits d.coeff : Int) - 1 < -100000) := by omega
  have a3 : (sumInts xs + (ndigits d.coeff : Int) - 1 < c.emin) := by omega
  simp only [a1, a2, a3, hr, if_false, if_true]
  unfold roundAt
  have b1 : c.etiny - sumInts xs ≥ 0 := by omega
  simp only [b1, if_true, Nat.one_mul, shouldAddOne_eq_spec]
  by_cases hf : d.coeff % 10 ^ (c.etiny - sumInts xs).toNat = 0
  · simp [hf]
  · simp [hf]

/-! ## the oracle on a decimal (`den = 1`) -/

theorem specRound_zero (c : Ctx) (neg : Bool) (e : Int) :
    specRound c { neg := neg, num := 0, den := 1, e10 := e } = { neg := neg, m := 0, q := e } := by
  simp [specRound]

theorem specRound_pos (c : Ctx) (neg : Bool) (n : Nat) (e : Int) (hn : 0 < n) :
    specRound c { neg := neg, num := n, den := 1, e10 := e } =
      (let adj : Int := (ndigits n : Int) - 1 + e
       let q : Int := max (adj - (c.prec : Int) + 1) c.etiny
       let r := roundAt c.mode neg n 1 e q
       if r.1 != 0 && q + (ndigits r.1 : Int) - 1 > c.emax then
         { inf := true, neg := neg, inexact := true, subnormal := decide (adj < c.emin), overflow := true }
       else { neg := neg, m := r.1, q := q, inexact := r.2, subnormal := decide (adj < c.emin) }) := by
  have h0 : (n == 0) = false := by simp; omega
  have het : c.emin - (c.prec : Int) + 1 = c.etiny := rfl
  simp only [specRound, h0, adjRat_one n hn, het]
  rfl

/-- target quantum at or below the exponent: exact, the coefficient is only scaled -/
theorem roundAt_scale (mode : Mode) (neg : Bool) (n : Nat) (e q : Int) (h : q ≤ e) :
    roundAt mode neg n 1 e q = (n * 10 ^ (e - q).toNat, false) := by
  unfold roundAt
  by_cases h0 : q - e ≥ 0
  · have : q = e := by omega
    subst this
    simp [Nat.mod_one]
  · have : (-(q - e)).toNat = (e - q).toNat := by congr 1; omega
    have h1 : ¬ e ≤ q := by omega
    simp [h1, Nat.mod_one]

/-- target quantum above the exponent: divide by the power of ten, as the implementation does -/
theorem roundAt_div (mode : Mode) (neg : Bool) (n : Nat) (e q : Int) (h : e ≤ q) :
    roundAt mode neg n 1 e q =
      (let p := 10 ^ (q - e).toNat
       if n % p = 0 then (n / p, false)
       else (if specAddOne mode (n / p) neg (compare (2 * (n % p)) p) then n / p + 1 else n / p, true)) := by
  unfold roundAt
  simp [h]

theorem roundAt_div_le (mode : Mode) (neg : Bool) (n : Nat) (e q : Int) (h : e ≤ q) :
    (roundAt mode neg n 1 e q).1 ≤ n / 10 ^ (q - e).toNat + 1 := by
  rw [roundAt_div mode neg n e q h]
  simp only []
  split_ifs <;> simp

/-! ## the three paths of `Rounder.Round` -/

theorem sign_ne_zero (x : Dec) (hx : x.form = .finite) : (x.sign != 0) = (x.coeff != 0) := by
  unfold Dec.sign
  by_cases h : x.coeff = 0
  · simp [hx, h]
  · cases hn : x.neg <;> simp [hx, h]

/-- non-zero operand below `emin`: straight to `setExponent` with Subnormal raised -/
theorem roundX_subnormal (c : Ctx) (x : Dec) (b : Bool) (hx : x.form = .finite) (hp : 1 ≤ c.prec)
    (hn : x.coeff ≠ 0) (hadj : x.exp + (ndigits x.coeff : Int) - 1 < c.emin) :
    roundXFin c x b =
      ((setExponent c x cSubnormal [x.exp]).1, cSubnormal ||| (setExponent c x cSubnormal [x.exp]).2) := by
  unfold roundXFin
  have h0 : (c.prec == 0) = false := by simp; omega
  simp only [h0, Bool.and_false, sign_ne_zero x hx]
  simp [hn, hadj]

/-- at most `prec` digits (zero, or not below `emin`): only the exponent range is checked -/
theorem roundX_short (c : Ctx) (x : Dec) (b : Bool) (hx : x.form = .finite) (hp : 1 ≤ c.prec)
    (hnd : ndigits x.coeff ≤ c.prec)
    (hadj : x.coeff = 0 ∨ c.emin ≤ x.exp + (ndigits x.coeff : Int) - 1) :
    roundXFin c x b = setExponent c x {} [x.exp, 0] := by
  unfold roundXFin
  have h0 : (c.prec == 0) = false := by simp; omega
  simp only [h0, Bool.and_false, sign_ne_zero x hx]
  have h1 : (x.coeff != 0 && decide (x.exp + (ndigits x.coeff : Int) - 1 < c.emin)) = false := by
    rcases hadj with h | h
    · simp [h]
    · have : ¬ (x.exp + (ndigits x.coeff : Int) - 1 < c.emin) := by omega
      simp [this]
  have h2 : ¬ ((ndigits x.coeff : Int) - (c.prec : Int) > 0) := by omega
  simp only [h1, h2, if_false]
  simp

/-- more than `prec` digits, not below `emin`: the coefficient is divided and rounded -/
theorem roundX_long (c : Ctx) (x : Dec) (b : Bool) (hx : x.form = .finite) (hp : 1 ≤ c.prec)
    (hnd : c.prec < ndigits x.coeff) (hd : (ndigits x.coeff : Int) - (c.prec : Int) ≤ 100000)
    (hadj : c.emin ≤ x.exp + (ndigits x.coeff : Int) - 1) :
    roundXFin c x b =
      (let diff : Int := (ndigits x.coeff : Int) - (c.prec : Int)
       let e := 10 ^ diff.toNat
       let y := x.coeff / e
       let m := x.coeff % e
       let res := if m != 0 then cRounded ||| cInexact else cRounded
       let yd := if m != 0 && shouldAddOne c.mode y x.neg (cmpNat (2 * m) e) then roundAddOne y diff else (y, diff)
       let r := setExponent c { x with coeff := yd.1 } res [x.exp, yd.2]
       (r.1, res ||| r.2)) := by
  unfold roundXFin
  have h0 : (c.prec == 0) = false := by simp; omega
  simp only [h0, Bool.and_false, sign_ne_zero x hx]
  have h1 : (x.coeff != 0 && decide (x.exp + (ndigits x.coeff : Int) - 1 < c.emin)) = false := by
    have : ¬ (x.exp + (ndigits x.coeff : Int) - 1 < c.emin) := by omega
    simp [this]
  have h2 : ((ndigits x.coeff : Int) - (c.prec : Int) > 0) := by omega
  have h3 : ¬ ((ndigits x.coeff : Int) - (c.prec : Int) > MaxExponent) := by simp only [MaxExponent]; omega
  simp only [h1, h2, h3, if_false, if_true]
  simp

theorem roundX_long_sys (c : Ctx) (x : Dec) (b : Bool) (hx : x.form = .finite) (hp : 1 ≤ c.prec)
    (hd : (ndigits x.coeff : Int) - (c.prec : Int) > 100000)
    (hadj : c.emin ≤ x.exp + (ndigits x.coeff : Int) - 1) :
    (roundXFin c x b).2.sysOverflow = true := by
  unfold roundXFin
  have h0 : (c.prec == 0) = false := by simp; omega
  simp only [h0, Bool.and_false, sign_ne_zero x hx]
  have h1 : (x.coeff != 0 && decide (x.exp + (ndigits x.coeff : Int) - 1 < c.emin)) = false := by
    have : ¬ (x.exp + (ndigits x.coeff : Int) - 1 < c.emin) := by omega
    simp [this]
  have h2 : ((ndigits x.coeff : Int) - (c.prec : Int) > 0) := by omega
  have h3 : ((ndigits x.coeff : Int) - (c.prec : Int) > MaxExponent) := by simp only [MaxExponent]; omega
  simp only [h1, h2, h3, if_false, if_true]
  simp [cSysOverflow]

/-- an operand that already fits the context (at most `prec` digits, adjusted exponent inside
`[emin, emax]`) is returned unchanged, with no flags at all -/
theorem roundX_id (c : Ctx) (x : Dec) (b : Bool) (hx : x.form = .finite) (hp : 1 ≤ c.prec)
    (hnd : ndigits x.coeff ≤ c.prec) (hemin : -100000 ≤ c.emin) (hemax : c.emax ≤ 100000)
    (hlo : c.emin ≤ x.exp + (ndigits x.coeff : Int) - 1) (hhi : x.exp + (ndigits x.coeff : Int) - 1 ≤ c.emax)
    (he1 : -100000 ≤ x.exp) : roundXFin c x b = (x, {}) := by
  have hnp := ndigits_pos x.coeff
  rw [roundX_short c x b hx hp hnd (Or.inr hlo)]
  have hck : checkXs [x.exp, 0] = none := by
    rw [checkXs_none_iff]; simp; omega
  have hsum : sumInts [x.exp, 0] = x.exp := by simp [sumInts]
  rw [setExponent_normal c x {} _ hck (by simp [seAdj, hsum]; omega) (by simp [seAdj, hsum]; omega)
    (by simp [seAdj, hsum]; omega) hemin, hsum]
  simp [seFinish]

/-- a non-zero subnormal operand whose exponent is already at or above `Etiny` is returned
unchanged; only Subnormal is raised (no Inexact, Rounded or Underflow) -/
theorem roundX_subnormal_id (c : Ctx) (x : Dec) (b : Bool) (hx : x.form = .finite) (hp : 1 ≤ c.prec)
    (hn : x.coeff ≠ 0) (hemin : c.emin ≤ 100000)
    (hadj : x.exp + (ndigits x.coeff : Int) - 1 < c.emin) (ha1 : -100000 ≤ x.exp + (ndigits x.coeff : Int) - 1)
    (he : c.etiny ≤ x.exp) (he1 : -100000 ≤ x.exp) (he2 : x.exp ≤ 100000) :
    roundXFin c x b = (x, cSubnormal) := by
  have hnp := ndigits_pos x.coeff
  rw [roundX_subnormal c x b hx hp hn hadj]
  have hck : checkXs [x.exp] = none := by
    rw [checkXs_none_iff]; simp; omega
  have hsum : sumInts [x.exp] = x.exp := by simp [sumInts]
  have hz : x.isZero = false := by simp [Dec.isZero, hn]
  rw [setExponent_subnormal_exact c x _ _ hck (by simp [seAdj, hsum]; omega) (by simp [seAdj, hsum]; omega)
    hemin (by rw [hsum]; exact he), hsum]
  simp only [hz, seFinish]
  refine Prod.ext ?_ ?_
  · simp
  · simp [cSubnormal]; rfl

/-- `roundAddOne`: value, digit count and exponent bookkeeping -/
theorem roundAddOne_spec (y : Nat) (diff : Int) (hy : 0 < y) :
    0 < (roundAddOne y diff).1 ∧ ndigits (roundAddOne y diff).1 = ndigits y ∧
    diff ≤ (roundAddOne y diff).2 ∧ (roundAddOne y diff).2 ≤ diff + 1 ∧
    (roundAddOne y diff).1 * 10 ^ ((roundAddOne y diff).2 - diff).toNat = y + 1 ∧
    (roundAddOne y diff).2 + (ndigits (roundAddOne y diff).1 : Int) = diff + (ndigits (y + 1) : Int) := by
  unfold roundAddOne
  by_cases h : ndigits (y + 1) > ndigits y
  · simp only [h, if_true]
    obtain ⟨v1, v2⟩ := carry_value y hy h
    have hpos : 0 < (y + 1) / 10 := by omega
    have h3 : ndigits (y + 1) = ndigits ((y + 1) / 10) + 1 := by
      have := ndigits_mul_pow ((y + 1) / 10) 1 hpos
      rw [Nat.pow_one, v1] at this; exact this
    have h4 : (diff + 1 - diff).toNat = 1 := by omega
    refine ⟨hpos, by omega, by omega, by omega, ?_, ?_⟩
    · rw [h4, Nat.pow_one]; exact v1
    · omega
  · simp only [h, if_false]
    have hm : ndigits y ≤ ndigits (y + 1) := ndigits_mono hy (Nat.le_succ y)
    have h4 : (diff - diff).toNat = 0 := by omega
    refine ⟨by omega, by omega, by omega, by omega, ?_, trivial⟩
    rw [h4]; simp

/-- one rounding step of `Rounder.Round` (divide by `10^D`, maybe add one with carry) against the
oracle's `roundAt` at the quantum `ex + D` -/
theorem roundStep_spec (mode : Mode) (neg : Bool) (n D : Nat) (ex : Int) (hy : 0 < n / 10 ^ D) :
    let yd := if n % 10 ^ D != 0 && shouldAddOne mode (n / 10 ^ D) neg (cmpNat (2 * (n % 10 ^ D)) (10 ^ D))
              then roundAddOne (n / 10 ^ D) (D : Int) else (n / 10 ^ D, (D : Int))
    let ra := roundAt mode neg n 1 ex (ex + (D : Int))
    0 < yd.1 ∧ ndigits yd.1 = ndigits (n / 10 ^ D) ∧ (D : Int) ≤ yd.2 ∧ yd.2 ≤ (D : Int) + 1 ∧
    yd.1 * 10 ^ (yd.2 - (D : Int)).toNat = ra.1 ∧
    yd.2 + (ndigits yd.1 : Int) = (D : Int) + (ndigits ra.1 : Int) ∧ ra.2 = (n % 10 ^ D != 0) := by
  intro yd ra
  have hk : (ex + (D : Int) - ex).toNat = D := by omega
  have hra : ra = (if n % 10 ^ D = 0 then (n / 10 ^ D, false)
       else (if specAddOne mode (n / 10 ^ D) neg (compare (2 * (n % 10 ^ D)) (10 ^ D)) then n / 10 ^ D + 1
             else n / 10 ^ D, true)) := by
    show roundAt mode neg n 1 ex (ex + (D : Int)) = _
    rw [roundAt_div mode neg n ex _ (by omega)]
    simp only [hk]
  have hsame : ∀ (y : Nat), 0 < y → 0 < y ∧ ndigits y = ndigits y ∧ (D : Int) ≤ (D : Int) ∧ (D : Int) ≤ (D : Int) + 1 ∧
      y * 10 ^ ((D : Int) - (D : Int)).toNat = y ∧ (D : Int) + (ndigits y : Int) = (D : Int) + (ndigits y : Int) := by
    intro y h
    have : ((D : Int) - (D : Int)).toNat = 0 := by omega
    refine ⟨h, rfl, Int.le_refl _, by omega, ?_, rfl⟩
    rw [this]; simp
  by_cases hm : n % 10 ^ D = 0
  · have hyd : yd = (n / 10 ^ D, (D : Int)) := by simp [yd, hm]
    rw [hra, hyd]
    simp only [hm, if_true]
    obtain ⟨a, b, c1, d, e, f⟩ := hsame _ hy
    exact ⟨a, trivial, c1, d, e, trivial, by simp⟩
  · by_cases hadd : specAddOne mode (n / 10 ^ D) neg (compare (2 * (n % 10 ^ D)) (10 ^ D)) = true
    · have hyd : yd = roundAddOne (n / 10 ^ D) (D : Int) := by
        simp [yd, hm, shouldAddOne_eq_spec, hadd]
      rw [hra, hyd]
      simp only [hm, hadd, if_true, if_false]
      obtain ⟨a, b, c1, d, e, f⟩ := roundAddOne_spec (n / 10 ^ D) (D : Int) hy
      exact ⟨a, b, c1, d, e, f, by simp [hm]⟩
    · have hyd : yd = (n / 10 ^ D, (D : Int)) := by
        simp [yd, shouldAddOne_eq_spec, hadd]
      rw [hra, hyd]
      simp only [hm, hadd, if_false]
      obtain ⟨a, b, c1, d, e, f⟩ := hsame _ hy
      exact ⟨a, trivial, c1, d, e, f, by simp [hm]⟩

/-! ## establishing `Agrees` -/

theorem agrees_finite' (c : Ctx) (ex : Exact) (s : SpecOut) (hs : specRound c ex = s) (d : Dec) (fl : Cond)
    (hform : d.form = .finite) (hso : s.overflow = false) (hm : s.matches d = true)
    (hin : fl.inexact = s.inexact) (hsub : fl.subnormal = s.subnormal)
    (hu : fl.underflow = (s.subnormal && s.inexact)) (ho : fl.overflow = false)
    (hr : fl.inexact = true → fl.rounded = true)
    (hdiv : fl.divUndefined = false ∧ fl.divByZero = false ∧ fl.divImpossible = false ∧ fl.invalidOp = false)
    (hnd : ndigits d.coeff ≤ c.prec) (hmax : d.exp + (ndigits d.coeff : Int) - 1 ≤ c.emax)
    (hmin : d.coeff = 0 ∨ c.etiny ≤ d.exp) : Agrees c ex d fl := by
  unfold Agrees
  rw [hs]
  refine ⟨hm, ?_, ?_⟩
  · unfold FlagsOK SpecOut.underflow
    rw [hso]
    refine ⟨hin, hsub, hu, ho, fun h _ => hr h, ?_, hdiv⟩
    rw [ho]; intro h; cases h
  · unfold fits
    unfold Ctx.etiny at hmin
    simp only [hform]
    have h1 : ((ndigits d.coeff : Int) ≤ (c.prec : Int)) := by omega
    have h2 : (d.coeff == 0 || decide (d.exp ≥ c.emin - (c.prec : Int) + 1)) = true := by
      rcases hmin with h | h
      · simp [h]
      · simp [h]
    rw [Bool.and_assoc, Bool.or_assoc, h2]
    simp [h1, hmax]

theorem agrees_finite (c : Ctx) (ex : Exact) (s : SpecOut) (hs : specRound c ex = s) (d : Dec) (fl : Cond)
    (hform : d.form = .finite) (hinf : s.inf = false) (hso : s.overflow = false) (hneg : d.neg = s.neg)
    (hq : s.q ≤ d.exp) (hval : d.coeff * 10 ^ (d.exp - s.q).toNat = s.m)
    (hin : fl.inexact = s.inexact) (hsub : fl.subnormal = s.subnormal)
    (hu : fl.underflow = (s.subnormal && s.inexact)) (ho : fl.overflow = false)
    (hr : fl.inexact = true → fl.rounded = true)
    (hdiv : fl.divUndefined = false ∧ fl.divByZero = false ∧ fl.divImpossible = false ∧ fl.invalidOp = false)
    (hnd : ndigits d.coeff ≤ c.prec) (hmax : d.exp + (ndigits d.coeff : Int) - 1 ≤ c.emax)
    (hmin : d.coeff = 0 ∨ c.etiny ≤ d.exp) : Agrees c ex d fl := by
  apply agrees_finite' c ex s hs d fl hform hso ?_ hin hsub hu ho hr hdiv hnd hmax hmin
  unfold SpecOut.matches
  simp [hform, hinf, hneg, hq, hval]

theorem agrees_inf (c : Ctx) (ex : Exact) (s : SpecOut) (hs : specRound c ex = s) (d : Dec) (fl : Cond)
    (hform : d.form = .infinite) (hinf : s.inf = true) (hneg : d.neg = s.neg)
    (hin : fl.inexact = true) (hsin : s.inexact = true) (hsub : fl.subnormal = s.subnormal)
    (hu : fl.underflow = s.subnormal) (ho : fl.overflow = true) (hso : s.overflow = true)
    (hdiv : fl.divUndefined = false ∧ fl.divByZero = false ∧ fl.divImpossible = false ∧ fl.invalidOp = false) :
    Agrees c ex d fl := by
  unfold Agrees
  rw [hs]
  refine ⟨?_, ?_, ?_⟩
  · unfold SpecOut.matches
    simp [hform, hinf, hneg]
  · unfold FlagsOK SpecOut.underflow
    rw [hso, hsin]
    refine ⟨hin, hsub, by simpa using hu, ho, ?_, fun _ => hin, hdiv⟩
    intro _ h; rw [hform] at h; cases h
  · unfold fits
    simp [hform]

end Apd
