import ApdVerif.Spec.Agrees
import ApdVerif.Lemmas.Digits
import Mathlib.Tactic.SplitIfs
/-!
# Lemmas for `Props/Mul.lean`: closed forms of `setExponent` / `roundXFin` and of the oracle on
decimal (`den = 1`) exact values.
-/
namespace Apd.MulL
open Apd.Oracle

/-! ## flag projections -/
section Flags
variable (a b : Cond)
@[simp] theorem or_sysOverflow : (a ||| b).sysOverflow = (a.sysOverflow || b.sysOverflow) := rfl
@[simp] theorem or_sysUnderflow : (a ||| b).sysUnderflow = (a.sysUnderflow || b.sysUnderflow) := rfl
@[simp] theorem or_overflow : (a ||| b).overflow = (a.overflow || b.overflow) := rfl
@[simp] theorem or_underflow : (a ||| b).underflow = (a.underflow || b.underflow) := rfl
@[simp] theorem or_inexact : (a ||| b).inexact = (a.inexact || b.inexact) := rfl
@[simp] theorem or_subnormal : (a ||| b).subnormal = (a.subnormal || b.subnormal) := rfl
@[simp] theorem or_rounded : (a ||| b).rounded = (a.rounded || b.rounded) := rfl
@[simp] theorem or_divUndefined : (a ||| b).divUndefined = (a.divUndefined || b.divUndefined) := rfl
@[simp] theorem or_divByZero : (a ||| b).divByZero = (a.divByZero || b.divByZero) := rfl
@[simp] theorem or_divImpossible : (a ||| b).divImpossible = (a.divImpossible || b.divImpossible) := rfl
@[simp] theorem or_invalidOp : (a ||| b).invalidOp = (a.invalidOp || b.invalidOp) := rfl
@[simp] theorem or_clamped : (a ||| b).clamped = (a.clamped || b.clamped) := rfl
end Flags

theorem Cond.ext' {a b : Cond}
    (h1 : a.sysOverflow = b.sysOverflow) (h2 : a.sysUnderflow = b.sysUnderflow)
    (h3 : a.overflow = b.overflow) (h4 : a.underflow = b.underflow) (h5 : a.inexact = b.inexact)
    (h6 : a.subnormal = b.subnormal) (h7 : a.rounded = b.rounded) (h8 : a.divUndefined = b.divUndefined)
    (h9 : a.divByZero = b.divByZero) (h10 : a.divImpossible = b.divImpossible)
    (h11 : a.invalidOp = b.invalidOp) (h12 : a.clamped = b.clamped) : a = b := by
  cases a; cases b; simp_all

/-- the flags that matter for `FlagsOK` are all clear -/
def Benign (fl : Cond) : Prop :=
  fl.inexact = false ∧ fl.subnormal = false ∧ fl.underflow = false ∧ fl.overflow = false ∧
  fl.divUndefined = false ∧ fl.divByZero = false ∧ fl.divImpossible = false ∧ fl.invalidOp = false

theorem benign_or {a b : Cond} (ha : Benign a) (hb : Benign b) : Benign (a ||| b) := by
  obtain ⟨a1, a2, a3, a4, a5, a6, a7, a8⟩ := ha
  obtain ⟨b1, b2, b3, b4, b5, b6, b7, b8⟩ := hb
  simp [Benign, *]

theorem benign_empty : Benign {} := by simp [Benign]

theorem noSys_or {a b : Cond} : NoSys (a ||| b) ↔ NoSys a ∧ NoSys b := by
  simp only [NoSys, or_sysOverflow, or_sysUnderflow, Bool.or_eq_false_iff]
  constructor
  · rintro ⟨⟨a, b⟩, c, d⟩; exact ⟨⟨a, c⟩, b, d⟩
  · rintro ⟨⟨a, c⟩, b, d⟩; exact ⟨⟨a, b⟩, c, d⟩

theorem noSys_of_delivered {t fl : Cond} (h : Delivered (goError t fl)) : NoSys fl := by
  unfold goError at h
  unfold NoSys
  by_cases h1 : (fl.sysOverflow || fl.sysUnderflow) = true
  · simp [h1, Delivered] at h
  · simpa using h1

/-! ## digits -/

theorem ndigits_zero : ndigits 0 = 1 := by decide
theorem ndigits_one : ndigits 1 = 1 := by decide

theorem ndigits_mul_pow (n j : Nat) (hn : 0 < n) : ndigits (n * 10 ^ j) = ndigits n + j := by
  obtain ⟨a, b⟩ := ndigits_spec n hn
  have hp := ndigits_pos n
  apply ndigits_unique _ _ (by omega)
  · have : ndigits n + j - 1 = (ndigits n - 1) + j := by omega
    rw [this, Nat.pow_add]
    exact Nat.mul_le_mul_right _ a
  · rw [Nat.pow_add]
    exact Nat.mul_lt_mul_of_pos_right b (Nat.pow_pos (by decide))

theorem ndigits_div_pow (n j : Nat) (hn : 0 < n) (hj : j < ndigits n) :
    ndigits (n / 10 ^ j) = ndigits n - j := by
  obtain ⟨a, b⟩ := ndigits_spec n hn
  have hpj : 0 < 10 ^ j := Nat.pow_pos (by decide)
  apply ndigits_unique _ _ (by omega)
  · rw [Nat.le_div_iff_mul_le hpj, ← Nat.pow_add]
    have : ndigits n - j - 1 + j = ndigits n - 1 := by omega
    rw [this]; exact a
  · rw [Nat.div_lt_iff_lt_mul hpj, ← Nat.pow_add]
    have : ndigits n - j + j = ndigits n := by omega
    rw [this]; exact b

theorem div_pow_pos (n j : Nat) (hn : 0 < n) (hj : j < ndigits n) : 0 < n / 10 ^ j := by
  apply Nat.div_pos _ (Nat.pow_pos (by decide))
  have := (ndigits_spec n hn).1
  have : 10 ^ j ≤ 10 ^ (ndigits n - 1) := Nat.pow_le_pow_right (by decide) (by omega)
  omega

theorem ndigits_pow (k : Nat) : ndigits (10 ^ k) = k + 1 := by
  apply ndigits_unique _ _ (by omega)
  · simp
  · exact Nat.pow_lt_pow_right (by decide) (by omega)

theorem ndigits_le_of_le_pow (m P : Nat) (hP : 1 ≤ P) (h : m ≤ 10 ^ (P - 1)) : ndigits m ≤ P := by
  by_cases hm : m = 0
  · subst hm; rw [ndigits_zero]; exact hP
  · rw [ndigits_le_iff m P (by omega) hP]
    have : 10 ^ (P - 1) < 10 ^ P := Nat.pow_lt_pow_right (by decide) (by omega)
    omega

/-! ## oracle side, `den = 1` -/

theorem adjRat_one (n : Nat) (hn : 0 < n) : adjRat n 1 = (ndigits n : Int) - 1 := by
  obtain ⟨a, _⟩ := ndigits_spec n hn
  have hp := ndigits_pos n
  unfold adjRat
  simp only [ndigits_one]
  have h0 : ((ndigits n : Int) - ((1 : Nat) : Int)) ≥ 0 := by omega
  have ht : ((ndigits n : Int) - ((1 : Nat) : Int)).toNat = ndigits n - 1 := by omega
  simp only [h0, if_true, ht, Nat.one_mul]
  simp [a]

theorem r05_aux (n : Nat) : (decide (n % 5 = 0) || n % 10 == 0) = (n % 10 == 0 || n % 10 == 5) := by
  rw [Bool.eq_iff_iff]
  simp only [Bool.or_eq_true, decide_eq_true_eq, beq_iff_eq]
  omega

theorem shouldAddOne_eq_spec (m : Mode) (n : Nat) (neg : Bool) (a b : Nat) :
    shouldAddOne m n neg (cmpNat a b) = specAddOne m n neg (compare a b) := by
  unfold cmpNat
  rcases Nat.lt_trichotomy a b with h | h | h
  · have hc : compare a b = .lt := Nat.compare_eq_lt.2 h
    have : ¬ a > b := by omega
    cases m <;> simp [shouldAddOne, specAddOne, h, hc, r05_aux]
  · subst h
    have hc : compare a a = .eq := Nat.compare_eq_eq.2 rfl
    cases m <;> simp [shouldAddOne, specAddOne, r05_aux]
  · have hc : compare a b = .gt := Nat.compare_eq_gt.2 h
    have : ¬ a < b := by omega
    cases m <;> simp [shouldAddOne, specAddOne, h, hc, r05_aux, this]

/-- the coefficient after dropping `k` digits of `N` with the context's rounding -/
def rndCoeff (m : Mode) (neg : Bool) (N k : Nat) : Nat :=
  if N % 10 ^ k != 0 && shouldAddOne m (N / 10 ^ k) neg (cmpNat (2 * (N % 10 ^ k)) (10 ^ k))
  then N / 10 ^ k + 1 else N / 10 ^ k

theorem roundAt_ge (m : Mode) (neg : Bool) (N : Nat) (E q : Int) (h : E ≤ q) :
    roundAt m neg N 1 E q = (rndCoeff m neg N (q - E).toNat, N % 10 ^ (q - E).toNat != 0) := by
  unfold roundAt rndCoeff
  have h0 : q - E ≥ 0 := by omega
  simp only [h0, if_true, Nat.one_mul, shouldAddOne_eq_spec]
  by_cases hr : N % 10 ^ (q - E).toNat = 0
  · simp [hr]
  · simp [hr]

theorem roundAt_le (m : Mode) (neg : Bool) (N : Nat) (E q : Int) (h : q ≤ E) :
    roundAt m neg N 1 E q = (N * 10 ^ (E - q).toNat, false) := by
  unfold roundAt
  by_cases h0 : q - E ≥ 0
  · have : q = E := by omega
    subst this
    simp [Nat.mod_one]
  · have : (-(q - E)).toNat = (E - q).toNat := by omega
    simp only [h0, if_false, this, Nat.mod_one, Nat.div_one]
    simp

theorem rndCoeff_le (m : Mode) (neg : Bool) (N k j : Nat) (h : N < 10 ^ j * 10 ^ k) :
    rndCoeff m neg N k ≤ 10 ^ j := by
  have : N / 10 ^ k < 10 ^ j := (Nat.div_lt_iff_lt_mul (Nat.pow_pos (by decide))).2 h
  unfold rndCoeff
  split <;> omega

theorem spec_zero (c : Ctx) (neg : Bool) (E : Int) :
    specRound c { neg := neg, num := 0, den := 1, e10 := E } = { neg := neg, m := 0, q := E } := by
  simp [specRound]

def specInf (neg : Bool) : SpecOut :=
  { inf := true, neg := neg, inexact := true, subnormal := false, overflow := true }

/-- subnormal range, digits have to be dropped to reach Etiny -/
theorem spec_sub_round (c : Ctx) (hc : c.WF) (neg : Bool) (N : Nat) (E : Int) (hN : 0 < N)
    (hadj : E + (ndigits N : Int) - 1 < c.emin) (hE : E < c.emin - (c.prec : Int) + 1) :
    specRound c { neg := neg, num := N, den := 1, e10 := E } =
      { neg := neg, m := rndCoeff c.mode neg N (c.emin - (c.prec : Int) + 1 - E).toNat,
        q := c.emin - (c.prec : Int) + 1,
        inexact := N % 10 ^ (c.emin - (c.prec : Int) + 1 - E).toNat != 0, subnormal := true } := by
  obtain ⟨hc1, hc2, hc3, hc4, hc5⟩ := hc
  have hne : (N == 0) = false := by simp; omega
  have hq : max (adjRat N 1 + E - (c.prec : Int) + 1) (c.emin - (c.prec : Int) + 1)
      = c.emin - (c.prec : Int) + 1 := by rw [adjRat_one N hN]; omega
  have hsub : decide (adjRat N 1 + E < c.emin) = true := by rw [adjRat_one N hN]; simp; omega
  simp only [specRound, hne, hq, hsub]
  rw [roundAt_ge _ _ _ _ _ (by omega)]
  simp only
  generalize hk : (c.emin - (c.prec : Int) + 1 - E).toNat = k
  -- bound on the rounded coefficient
  have hb : rndCoeff c.mode neg N k ≤ 10 ^ (c.prec - 1) := by
    apply rndCoeff_le
    rw [← Nat.pow_add]
    have h1 := (ndigits_spec N hN).2
    have h2 : 10 ^ ndigits N ≤ 10 ^ (c.prec - 1 + k) := Nat.pow_le_pow_right (by decide) (by omega)
    omega
  have hd := ndigits_le_of_le_pow _ c.prec hc1 hb
  have hno : ¬ (c.emin - (c.prec : Int) + 1 + (ndigits (rndCoeff c.mode neg N k) : Int) - 1 > c.emax) := by
    omega
  simp [hno]

/-- subnormal range, exponent already at or above Etiny: exact -/
theorem spec_sub_exact (c : Ctx) (hc : c.WF) (neg : Bool) (N : Nat) (E : Int) (hN : 0 < N)
    (hadj : E + (ndigits N : Int) - 1 < c.emin) (hE : c.emin - (c.prec : Int) + 1 ≤ E) :
    specRound c { neg := neg, num := N, den := 1, e10 := E } =
      { neg := neg, m := N * 10 ^ (E - (c.emin - (c.prec : Int) + 1)).toNat,
        q := c.emin - (c.prec : Int) + 1, inexact := false, subnormal := true } := by
  obtain ⟨hc1, hc2, hc3, hc4, hc5⟩ := hc
  have hne : (N == 0) = false := by simp; omega
  have hq : max (adjRat N 1 + E - (c.prec : Int) + 1) (c.emin - (c.prec : Int) + 1)
      = c.emin - (c.prec : Int) + 1 := by rw [adjRat_one N hN]; omega
  have hsub : decide (adjRat N 1 + E < c.emin) = true := by rw [adjRat_one N hN]; simp; omega
  simp only [specRound, hne, hq, hsub, Bool.false_eq_true, if_false]
  rw [roundAt_le _ _ _ _ _ (by omega)]
  simp only
  rw [ndigits_mul_pow _ _ hN]
  rw [if_neg]
  simp only [Bool.and_eq_true, decide_eq_true_eq]
  omega

/-- normal range, nothing to drop -/
theorem spec_norm_le (c : Ctx) (hc : c.WF) (neg : Bool) (N : Nat) (E : Int) (hN : 0 < N)
    (hadj : c.emin ≤ E + (ndigits N : Int) - 1) (hnd : ndigits N ≤ c.prec) :
    specRound c { neg := neg, num := N, den := 1, e10 := E } =
      if E + (ndigits N : Int) - 1 > c.emax then specInf neg
      else { neg := neg, m := N * 10 ^ (c.prec - ndigits N),
             q := E + (ndigits N : Int) - (c.prec : Int), inexact := false, subnormal := false } := by
  obtain ⟨hc1, hc2, hc3, hc4, hc5⟩ := hc
  have hne : (N == 0) = false := by simp; omega
  have hq : max (adjRat N 1 + E - (c.prec : Int) + 1) (c.emin - (c.prec : Int) + 1)
      = E + (ndigits N : Int) - (c.prec : Int) := by rw [adjRat_one N hN]; omega
  have hsub : decide (adjRat N 1 + E < c.emin) = false := by rw [adjRat_one N hN]; simp; omega
  simp only [specRound, hne, hq, hsub, Bool.false_eq_true, if_false]
  rw [roundAt_le _ _ _ _ _ (by omega)]
  simp only
  have hk : (E - (E + (ndigits N : Int) - (c.prec : Int))).toNat = c.prec - ndigits N := by omega
  rw [hk, ndigits_mul_pow _ _ hN]
  have hpos : 0 < N * 10 ^ (c.prec - ndigits N) := Nat.mul_pos hN (Nat.pow_pos (by decide))
  have hnz : (N * 10 ^ (c.prec - ndigits N) != 0) = true := by simp; omega
  have hadjR : E + (ndigits N : Int) - (c.prec : Int) + ((ndigits N + (c.prec - ndigits N) : Nat) : Int) - 1
      = E + (ndigits N : Int) - 1 := by omega
  simp only [hnz, hadjR, Bool.true_and, decide_eq_true_eq]
  split <;> simp [specInf]

/-- normal range, `ndigits N - prec` digits are dropped -/
theorem spec_norm_gt (c : Ctx) (hc : c.WF) (neg : Bool) (N : Nat) (E : Int) (hN : 0 < N)
    (hadj : c.emin ≤ E + (ndigits N : Int) - 1) (hnd : c.prec < ndigits N) :
    specRound c { neg := neg, num := N, den := 1, e10 := E } =
      if E + (ndigits N : Int) - (c.prec : Int) +
          (ndigits (rndCoeff c.mode neg N (ndigits N - c.prec)) : Int) - 1 > c.emax then specInf neg
      else { neg := neg, m := rndCoeff c.mode neg N (ndigits N - c.prec),
             q := E + (ndigits N : Int) - (c.prec : Int),
             inexact := N % 10 ^ (ndigits N - c.prec) != 0, subnormal := false } := by
  obtain ⟨hc1, hc2, hc3, hc4, hc5⟩ := hc
  have hne : (N == 0) = false := by simp; omega
  have hq : max (adjRat N 1 + E - (c.prec : Int) + 1) (c.emin - (c.prec : Int) + 1)
      = E + (ndigits N : Int) - (c.prec : Int) := by rw [adjRat_one N hN]; omega
  have hsub : decide (adjRat N 1 + E < c.emin) = false := by rw [adjRat_one N hN]; simp; omega
  simp only [specRound, hne, hq, hsub, Bool.false_eq_true, if_false]
  rw [roundAt_ge _ _ _ _ _ (by omega)]
  simp only
  have hk : (E + (ndigits N : Int) - (c.prec : Int) - E).toNat = ndigits N - c.prec := by omega
  rw [hk]
  have hy : 0 < N / 10 ^ (ndigits N - c.prec) := div_pow_pos N _ hN (by omega)
  have hpos : 0 < rndCoeff c.mode neg N (ndigits N - c.prec) := by
    unfold rndCoeff; split <;> omega
  have hnz : (rndCoeff c.mode neg N (ndigits N - c.prec) != 0) = true := by simp; omega
  simp only [hnz, Bool.true_and, decide_eq_true_eq]
  split <;> simp [specInf]

/-! ## `setExponent` -/

theorem checkXs_sys {xs : List Int} {fl : Cond} (h : checkXs xs = some fl) : ¬ NoSys fl := by
  induction xs with
  | nil => simp [checkXs] at h
  | cons x xs ih =>
    simp only [checkXs] at h
    split_ifs at h with h1 h2
    · cases h; simp [NoSys, Cond.cSysOverflow, Cond.cOverflow]
    · cases h; simp [NoSys, Cond.cSysUnderflow, Cond.cUnderflow]
    · exact ih h

theorem checkXs_cons {x : Int} {xs : List Int} (h : checkXs (x :: xs) = none) :
    -100000 ≤ x ∧ x ≤ 100000 ∧ checkXs xs = none := by
  simp only [checkXs, MaxExponent, MinExponent] at h
  by_cases h1 : x > 100000
  · simp [h1] at h
  · by_cases h2 : x < -100000
    · simp [h1, h2] at h
    · simp only [h1, h2, if_false] at h
      exact ⟨by omega, by omega, h⟩

theorem setExponent_noSys {c : Ctx} {d : Dec} {res : Cond} {xs : List Int}
    (h : NoSys (setExponent c d res xs).2) :
    checkXs xs = none ∧ -100000 ≤ sumInts xs + (ndigits d.coeff : Int) - 1 ∧
      sumInts xs + (ndigits d.coeff : Int) - 1 ≤ 100000 := by
  unfold setExponent at h
  cases hck : checkXs xs with
  | some fl => rw [hck] at h; exact absurd h (checkXs_sys hck)
  | none =>
    rw [hck] at h
    simp only [MaxExponent, MinExponent] at h
    refine ⟨rfl, ?_, ?_⟩
    · apply Classical.byContradiction; intro hlt
      have h1 : ¬ (sumInts xs + (ndigits d.coeff : Int) - 1 > 100000) := by omega
      have h2 : sumInts xs + (ndigits d.coeff : Int) - 1 < -100000 := by omega
      simp [h1, h2, NoSys, Cond.cSysUnderflow, Cond.cUnderflow] at h
    · apply Classical.byContradiction; intro hgt
      have h1 : sumInts xs + (ndigits d.coeff : Int) - 1 > 100000 := by omega
      simp [h1, NoSys, Cond.cSysOverflow, Cond.cOverflow] at h

section SE
variable (c : Ctx) (d : Dec) (res : Cond) (xs : List Int)
  (h1 : checkXs xs = none)
  (h2 : -100000 ≤ sumInts xs + (ndigits d.coeff : Int) - 1)
  (h3 : sumInts xs + (ndigits d.coeff : Int) - 1 ≤ 100000)
include h1 h2 h3

theorem setExponent_norm (h4 : c.emin ≤ sumInts xs + (ndigits d.coeff : Int) - 1)
    (h5 : sumInts xs + (ndigits d.coeff : Int) - 1 ≤ c.emax) :
    setExponent c d res xs = seFinish d (sumInts xs) res := by
  have e1 : ¬ (sumInts xs + (ndigits d.coeff : Int) - 1 > 100000) := by omega
  have e2 : ¬ (sumInts xs + (ndigits d.coeff : Int) - 1 < -100000) := by omega
  have e3 : ¬ (sumInts xs + (ndigits d.coeff : Int) - 1 < c.emin) := by omega
  have e4 : ¬ (sumInts xs + (ndigits d.coeff : Int) - 1 > c.emax) := by omega
  simp only [setExponent, h1, MaxExponent, MinExponent, e1, e2, e3, e4, if_false]

theorem setExponent_over (h4 : c.emin ≤ sumInts xs + (ndigits d.coeff : Int) - 1)
    (h5 : c.emax < sumInts xs + (ndigits d.coeff : Int) - 1) :
    setExponent c d res xs =
      if d.isZero then seFinish d c.emax (res ||| Cond.cClamped)
      else seFinish { d with form := .infinite } (sumInts xs) (res ||| Cond.cOverflow ||| Cond.cInexact) := by
  have e1 : ¬ (sumInts xs + (ndigits d.coeff : Int) - 1 > 100000) := by omega
  have e2 : ¬ (sumInts xs + (ndigits d.coeff : Int) - 1 < -100000) := by omega
  have e3 : ¬ (sumInts xs + (ndigits d.coeff : Int) - 1 < c.emin) := by omega
  have e4 : (sumInts xs + (ndigits d.coeff : Int) - 1 > c.emax) := by omega
  simp only [setExponent, h1, MaxExponent, MinExponent, e1, e2, e3, e4, if_false, if_true]

theorem setExponent_sub_exact (h4 : sumInts xs + (ndigits d.coeff : Int) - 1 < c.emin)
    (h5 : c.emin - ((c.prec : Int) - 1) ≤ sumInts xs) :
    setExponent c d res xs =
      seFinish d (sumInts xs) (if !d.isZero then res ||| Cond.cSubnormal else res) := by
  have e1 : ¬ (sumInts xs + (ndigits d.coeff : Int) - 1 > 100000) := by omega
  have e2 : ¬ (sumInts xs + (ndigits d.coeff : Int) - 1 < -100000) := by omega
  have e4 : ¬ (sumInts xs < c.emin - ((c.prec : Int) - 1)) := by omega
  simp only [setExponent, h1, MaxExponent, MinExponent, e1, e2, h4, e4, if_false, if_true]

theorem setExponent_sub_round (h4 : sumInts xs + (ndigits d.coeff : Int) - 1 < c.emin)
    (h5 : sumInts xs < c.emin - ((c.prec : Int) - 1)) :
    setExponent c d res xs =
      let k := (c.emin - ((c.prec : Int) - 1) - sumInts xs).toNat
      let res := if !d.isZero then res ||| Cond.cSubnormal else res
      let res := if d.coeff % 10 ^ k != 0 then res ||| Cond.cInexact else res
      let res := if rndCoeff c.mode d.neg d.coeff k == 0 then res ||| Cond.cClamped else res
      seFinish { d with coeff := rndCoeff c.mode d.neg d.coeff k } (c.emin - ((c.prec : Int) - 1))
        (res ||| Cond.cRounded) := by
  have e1 : ¬ (sumInts xs + (ndigits d.coeff : Int) - 1 > 100000) := by omega
  have e2 : ¬ (sumInts xs + (ndigits d.coeff : Int) - 1 < -100000) := by omega
  simp only [setExponent, h1, MaxExponent, MinExponent, e1, e2, h4, h5, if_false, if_true, rndCoeff]
  rfl

end SE

/-! ## `roundXFin` -/

theorem roundAddOne_spec (y : Nat) (diff : Int) (hy : 0 < y) :
    0 < (roundAddOne y diff).1 ∧ ndigits (roundAddOne y diff).1 = ndigits y ∧
    (roundAddOne y diff).1 * 10 ^ ((roundAddOne y diff).2 - diff).toNat = y + 1 ∧
    diff ≤ (roundAddOne y diff).2 ∧
    (roundAddOne y diff).2 + (ndigits (roundAddOne y diff).1 : Int) = diff + (ndigits (y + 1) : Int) := by
  unfold roundAddOne
  by_cases h : ndigits (y + 1) > ndigits y
  · obtain ⟨v1, v2⟩ := carry_value y hy h
    have hc := carry y hy h
    have hnd : ndigits (y + 1) = ndigits y + 1 := by rw [hc, ndigits_pow]
    have ht : (diff + 1 - diff).toNat = 1 := by omega
    simp only [h, if_true, ht, Nat.pow_one]
    refine ⟨by omega, v2, v1, by omega, ?_⟩
    rw [v2, hnd]; omega
  · have hm : ndigits y ≤ ndigits (y + 1) := ndigits_mono hy (by omega)
    have ht : (diff - diff).toNat = 0 := by omega
    simp only [h, if_false, ht, Nat.pow_zero, Nat.mul_one]
    refine ⟨by omega, by omega, trivial, by omega, trivial⟩

/-- the `(coefficient, exponent summand)` pair computed by `Rounder.Round` when `k` digits are dropped -/
def rndPair (m : Mode) (neg : Bool) (N k : Nat) (diff : Int) : Nat × Int :=
  if N % 10 ^ k != 0 && shouldAddOne m (N / 10 ^ k) neg (cmpNat (2 * (N % 10 ^ k)) (10 ^ k))
  then roundAddOne (N / 10 ^ k) diff else (N / 10 ^ k, diff)

theorem rndPair_spec (m : Mode) (neg : Bool) (N k : Nat) (diff : Int) (hy : 0 < N / 10 ^ k) :
    0 < (rndPair m neg N k diff).1 ∧ ndigits (rndPair m neg N k diff).1 = ndigits (N / 10 ^ k) ∧
    (rndPair m neg N k diff).1 * 10 ^ ((rndPair m neg N k diff).2 - diff).toNat = rndCoeff m neg N k ∧
    diff ≤ (rndPair m neg N k diff).2 ∧
    (rndPair m neg N k diff).2 + (ndigits (rndPair m neg N k diff).1 : Int)
      = diff + (ndigits (rndCoeff m neg N k) : Int) := by
  unfold rndPair rndCoeff
  split
  · exact roundAddOne_spec _ _ hy
  · have ht : (diff - diff).toNat = 0 := by omega
    simp only [ht, Nat.pow_zero, Nat.mul_one]
    exact ⟨hy, trivial, trivial, by omega, trivial⟩

theorem sign_ne_zero_of_pos (d : Dec) (h : 0 < d.coeff) : d.sign ≠ 0 := by
  have : (d.coeff == 0) = false := by simp; omega
  unfold Dec.sign
  simp only [this, Bool.and_false]
  cases d.neg <;> simp

theorem isZero_of_pos (d : Dec) (h : 0 < d.coeff) : d.isZero = false := by
  have : (d.coeff == 0) = false := by simp; omega
  simp [Dec.isZero, this]

theorem roundX_sub (c : Ctx) (d : Dec) (hp : c.prec ≠ 0) (hs : d.sign ≠ 0)
    (h : d.exp + (ndigits d.coeff : Int) - 1 < c.emin) :
    roundXFin c d true = ((setExponent c d Cond.cSubnormal [d.exp]).1,
      Cond.cSubnormal ||| (setExponent c d Cond.cSubnormal [d.exp]).2) := by
  have hp' : (c.prec == 0) = false := by simpa using hp
  have hs' : (d.sign != 0) = true := by simpa using hs
  simp only [roundXFin, hp', hs', h, Bool.and_false, Bool.true_and, decide_true, Bool.false_eq_true, if_false, if_true]

theorem roundX_le (c : Ctx) (d : Dec) (hp : c.prec ≠ 0)
    (h : ¬ (d.sign ≠ 0 ∧ d.exp + (ndigits d.coeff : Int) - 1 < c.emin))
    (hd : ndigits d.coeff ≤ c.prec) :
    roundXFin c d true = setExponent c d {} [d.exp, 0] := by
  have hp' : (c.prec == 0) = false := by simpa using hp
  have h' : (d.sign != 0 && decide (d.exp + (ndigits d.coeff : Int) - 1 < c.emin)) = false := by
    simpa using h
  have hd' : ¬ ((ndigits d.coeff : Int) - (c.prec : Int) > 0) := by omega
  simp only [roundXFin, hp', h', hd', Bool.and_false, Bool.false_eq_true, if_false]

theorem roundX_gt (c : Ctx) (d : Dec) (hp : c.prec ≠ 0)
    (h : ¬ (d.sign ≠ 0 ∧ d.exp + (ndigits d.coeff : Int) - 1 < c.emin))
    (hd : c.prec < ndigits d.coeff) (hm : (ndigits d.coeff : Int) - (c.prec : Int) ≤ 100000) :
    roundXFin c d true =
      let k := ndigits d.coeff - c.prec
      let res := if d.coeff % 10 ^ k != 0 then Cond.cRounded ||| Cond.cInexact else Cond.cRounded
      let yd := rndPair c.mode d.neg d.coeff k ((ndigits d.coeff : Int) - (c.prec : Int))
      let r := setExponent c { d with coeff := yd.1 } res [d.exp, yd.2]
      (r.1, res ||| r.2) := by
  have hp' : (c.prec == 0) = false := by simpa using hp
  have h' : (d.sign != 0 && decide (d.exp + (ndigits d.coeff : Int) - 1 < c.emin)) = false := by
    simpa using h
  have hd' : ((ndigits d.coeff : Int) - (c.prec : Int) > 0) := by omega
  have hm' : ¬ ((ndigits d.coeff : Int) - (c.prec : Int) > 100000) := by omega
  have hk : ((ndigits d.coeff : Int) - (c.prec : Int)).toNat = ndigits d.coeff - c.prec := by omega
  simp only [roundXFin, hp', h', hd', hm', hk, MaxExponent, Bool.and_false, Bool.false_eq_true, if_false, if_true,
    rndPair]

/-- what `Agrees` says, relative to the form `f` of the operand (so that it can also be used for the
`Infinite`-tagged intermediate that `setExponent` hands to `round` after an overflow) -/
def RoundPost (c : Ctx) (s : SpecOut) (f : Form) (r : Dec × Cond) : Prop :=
  r.1.neg = s.neg ∧
  (s.inf = true → r.1.form = .infinite) ∧
  (s.inf = false → r.1.form = f ∧
    (if r.1.exp ≥ s.q then r.1.coeff * 10 ^ (r.1.exp - s.q).toNat = s.m
      else r.1.coeff = s.m * 10 ^ (s.q - r.1.exp).toNat) ∧
    (ndigits r.1.coeff : Int) ≤ (c.prec : Int) ∧ r.1.exp + (ndigits r.1.coeff : Int) - 1 ≤ c.emax ∧
    (r.1.coeff = 0 ∨ r.1.exp ≥ c.emin - (c.prec : Int) + 1)) ∧
  r.2.inexact = s.inexact ∧ r.2.subnormal = s.subnormal ∧ r.2.underflow = s.underflow ∧
  r.2.overflow = s.overflow ∧ (r.2.inexact = true → s.inf = false → r.2.rounded = true) ∧
  (r.2.overflow = true → r.2.inexact = true) ∧
  r.2.divUndefined = false ∧ r.2.divByZero = false ∧ r.2.divImpossible = false ∧ r.2.invalidOp = false

theorem seFinish_eq (d : Dec) (r : Int) (res : Cond) :
    seFinish d r res = ({ d with exp := r },
      if res.inexact && res.subnormal then res ||| Cond.cUnderflow else res) := rfl

theorem roundX_norm_le (c : Ctx) (hc : c.WF) (d : Dec) (hN : 0 < d.coeff)
    (hadj : c.emin ≤ d.exp + (ndigits d.coeff : Int) - 1) (hnd : ndigits d.coeff ≤ c.prec)
    (hns : NoSys (roundXFin c d true).2) :
    RoundPost c (specRound c { neg := d.neg, num := d.coeff, den := 1, e10 := d.exp }) d.form
      (roundXFin c d true) := by
  have hc' := hc
  obtain ⟨hc1, hc2, hc3, hc4, hc5⟩ := hc'
  rw [roundX_le c d (by omega) (by omega) hnd] at hns ⊢
  obtain ⟨k1, k2, k3⟩ := setExponent_noSys hns
  have hsum : sumInts [d.exp, 0] = d.exp := by simp [sumInts]
  rw [hsum] at k2 k3
  rw [spec_norm_le c hc d.neg d.coeff d.exp hN hadj hnd]
  by_cases hov : d.exp + (ndigits d.coeff : Int) - 1 > c.emax
  · rw [setExponent_over c d {} _ k1 (by rw [hsum]; exact k2) (by rw [hsum]; exact k3)
      (by rw [hsum]; exact hadj) (by rw [hsum]; omega)]
    simp [hov, isZero_of_pos d hN, seFinish_eq, RoundPost, specInf, Cond.cOverflow, Cond.cInexact,
      SpecOut.underflow]
  · rw [setExponent_norm c d {} _ k1 (by rw [hsum]; exact k2) (by rw [hsum]; exact k3)
      (by rw [hsum]; exact hadj) (by rw [hsum]; omega)]
    have hk : (d.exp - (d.exp + (ndigits d.coeff : Int) - (c.prec : Int))).toNat = c.prec - ndigits d.coeff := by
      omega
    have hge : d.exp + (ndigits d.coeff : Int) - (c.prec : Int) ≤ d.exp := by omega
    simp only [hov, if_false, hsum, seFinish_eq, RoundPost, SpecOut.underflow]
    simp [hge, hk]
    omega

theorem roundX_diff_sys (c : Ctx) (d : Dec) (hp : c.prec ≠ 0)
    (h : ¬ (d.sign ≠ 0 ∧ d.exp + (ndigits d.coeff : Int) - 1 < c.emin))
    (hm : (ndigits d.coeff : Int) - (c.prec : Int) > 100000) : ¬ NoSys (roundXFin c d true).2 := by
  have hp' : (c.prec == 0) = false := by simpa using hp
  have h' : (d.sign != 0 && decide (d.exp + (ndigits d.coeff : Int) - 1 < c.emin)) = false := by
    simpa using h
  have hd' : ((ndigits d.coeff : Int) - (c.prec : Int) > 0) := by omega
  simp only [roundXFin, hp', h', hd', hm, MaxExponent, Bool.and_false, Bool.false_eq_true, if_false, if_true]
  simp [NoSys, Cond.cSysOverflow, Cond.cOverflow]

theorem roundX_norm_gt (c : Ctx) (hc : c.WF) (d : Dec) (hN : 0 < d.coeff)
    (hadj : c.emin ≤ d.exp + (ndigits d.coeff : Int) - 1) (hnd : c.prec < ndigits d.coeff)
    (hns : NoSys (roundXFin c d true).2) :
    RoundPost c (specRound c { neg := d.neg, num := d.coeff, den := 1, e10 := d.exp }) d.form
      (roundXFin c d true) := by
  have hc' := hc
  obtain ⟨hc1, hc2, hc3, hc4, hc5⟩ := hc'
  have hm : (ndigits d.coeff : Int) - (c.prec : Int) ≤ 100000 := by
    apply Classical.byContradiction; intro hgt
    exact roundX_diff_sys c d (by omega) (by omega) (by omega) hns
  rw [roundX_gt c d (by omega) (by omega) hnd hm] at hns ⊢
  rw [spec_norm_gt c hc d.neg d.coeff d.exp hN hadj hnd]
  have hy : 0 < d.coeff / 10 ^ (ndigits d.coeff - c.prec) := div_pow_pos _ _ hN (by omega)
  have hndy : ndigits (d.coeff / 10 ^ (ndigits d.coeff - c.prec)) = c.prec := by
    rw [ndigits_div_pow _ _ hN (by omega)]; omega
  obtain ⟨f1, f2, f3, f4, f5⟩ := rndPair_spec c.mode d.neg d.coeff (ndigits d.coeff - c.prec)
    ((ndigits d.coeff : Int) - (c.prec : Int)) hy
  rw [hndy] at f2
  simp only at hns ⊢
  generalize rndPair c.mode d.neg d.coeff (ndigits d.coeff - c.prec)
    ((ndigits d.coeff : Int) - (c.prec : Int)) = yd at *
  generalize rndCoeff c.mode d.neg d.coeff (ndigits d.coeff - c.prec) = m at *
  have hns2 := (noSys_or.1 hns).2
  obtain ⟨k1, k2, k3⟩ := setExponent_noSys hns2
  have hsum : sumInts [d.exp, yd.2] = d.exp + yd.2 := by simp [sumInts]
  simp only [hsum, f2] at k2 k3
  have hz : ({ d with coeff := yd.1 } : Dec).isZero = false := isZero_of_pos _ f1
  by_cases hov : d.exp + yd.2 + (c.prec : Int) - 1 > c.emax
  · have hov' : d.exp + (ndigits d.coeff : Int) - (c.prec : Int) + (ndigits m : Int) - 1 > c.emax := by omega
    rw [setExponent_over c _ _ _ k1 (by simp only [hsum, f2]; exact k2) (by simp only [hsum, f2]; exact k3)
      (by simp only [hsum, f2]; omega) (by simp only [hsum, f2]; omega)]
    rw [hz]
    by_cases hix : d.coeff % 10 ^ (ndigits d.coeff - c.prec) = 0 <;>
    simp [hov', hix, seFinish_eq, RoundPost, specInf, Cond.cOverflow, Cond.cInexact, Cond.cRounded,
      SpecOut.underflow]
  · have hov' : ¬ d.exp + (ndigits d.coeff : Int) - (c.prec : Int) + (ndigits m : Int) - 1 > c.emax := by omega
    rw [setExponent_norm c _ _ _ k1 (by simp only [hsum, f2]; exact k2) (by simp only [hsum, f2]; exact k3)
      (by simp only [hsum, f2]; omega) (by simp only [hsum, f2]; omega)]
    have hk : (d.exp + yd.2 - (d.exp + (ndigits d.coeff : Int) - (c.prec : Int))).toNat
        = (yd.2 - ((ndigits d.coeff : Int) - (c.prec : Int))).toNat := by omega
    have hge : d.exp + (ndigits d.coeff : Int) - (c.prec : Int) ≤ d.exp + yd.2 := by omega
    by_cases hix : d.coeff % 10 ^ (ndigits d.coeff - c.prec) = 0 <;>
    · simp only [hov', if_false, hsum, seFinish_eq, RoundPost, SpecOut.underflow]
      simp [hix, hge, hk, f2, f3, Cond.cInexact, Cond.cRounded]
      omega

theorem roundX_norm (c : Ctx) (hc : c.WF) (d : Dec) (hN : 0 < d.coeff)
    (hadj : c.emin ≤ d.exp + (ndigits d.coeff : Int) - 1) (hns : NoSys (roundXFin c d true).2) :
    RoundPost c (specRound c { neg := d.neg, num := d.coeff, den := 1, e10 := d.exp }) d.form
      (roundXFin c d true) := by
  by_cases hnd : ndigits d.coeff ≤ c.prec
  · exact roundX_norm_le c hc d hN hadj hnd hns
  · exact roundX_norm_gt c hc d hN hadj (by omega) hns

/-- above the normal range the specification is an infinity -/
theorem spec_over (c : Ctx) (hc : c.WF) (neg : Bool) (N : Nat) (E : Int) (hN : 0 < N)
    (hov : c.emax < E + (ndigits N : Int) - 1) :
    specRound c { neg := neg, num := N, den := 1, e10 := E } = specInf neg := by
  have hc' := hc
  obtain ⟨hc1, hc2, hc3, hc4, hc5⟩ := hc'
  by_cases hnd : ndigits N ≤ c.prec
  · rw [spec_norm_le c hc neg N E hN (by omega) hnd, if_pos (by omega)]
  · rw [spec_norm_gt c hc neg N E hN (by omega) (by omega), if_pos]
    have hy : 0 < N / 10 ^ (ndigits N - c.prec) := div_pow_pos _ _ hN (by omega)
    have hndy : ndigits (N / 10 ^ (ndigits N - c.prec)) = c.prec := by
      rw [ndigits_div_pow _ _ hN (by omega)]; omega
    have hle : N / 10 ^ (ndigits N - c.prec) ≤ rndCoeff c.mode neg N (ndigits N - c.prec) := by
      unfold rndCoeff; split <;> omega
    have := ndigits_mono hy hle
    omega

theorem agrees_of_post {c : Ctx} {ex : Exact} {d : Dec} {fl : Cond}
    (h : RoundPost c (specRound c ex) .finite (d, fl)) : Agrees c ex d fl := by
  obtain ⟨p1, p2, p3, p4, p5, p6, p7, p8, p9, p10, p11, p12, p13⟩ := h
  simp only at p1 p2 p3 p4 p5 p6 p7 p8 p9 p10 p11 p12 p13
  unfold Agrees FlagsOK
  cases hinf : (specRound c ex).inf with
  | true =>
    have hf := p2 hinf
    refine ⟨?_, ⟨p4, p5, p6, p7, ?_, p9, p10, p11, p12, p13⟩, ?_⟩
    · simp [SpecOut.matches, hf, hinf, p1]
    · intro _ hfin; rw [hf] at hfin; cases hfin
    · simp [fits, hf]
  | false =>
    obtain ⟨hf, hv, hd, he, ht⟩ := p3 hinf
    refine ⟨?_, ⟨p4, p5, p6, p7, fun hi _ => p8 hi hinf, p9, p10, p11, p12, p13⟩, ?_⟩
    · simp only [SpecOut.matches, hf, hinf, p1]
      split_ifs at hv ⊢ with hge <;> simp [hv]
    · simp only [fits, hf]
      have hd' : ndigits d.coeff ≤ c.prec := by omega
      rcases ht with ht | ht
      · rw [ht] at hd' he; simp [hd', he, ht]
      · simp [hd', he, ht]

/-! ## zero coefficients -/

theorem isZero_of_zero (d : Dec) (hf : d.form = .finite) (h0 : d.coeff = 0) : d.isZero = true := by
  simp [Dec.isZero, hf, h0]

theorem rndCoeff_zero (m : Mode) (neg : Bool) (k : Nat) : rndCoeff m neg 0 k = 0 := by
  simp [rndCoeff]

/-- `setExponent` on a finite zero: still a finite zero of the same sign, only Clamped/Rounded are raised -/
theorem setExponent_zero (c : Ctx) (d : Dec) (res : Cond) (xs : List Int)
    (hf : d.form = .finite) (h0 : d.coeff = 0) (hb : Benign res)
    (hns : NoSys (setExponent c d res xs).2) :
    (setExponent c d res xs).1.form = .finite ∧ (setExponent c d res xs).1.coeff = 0 ∧
    (setExponent c d res xs).1.neg = d.neg ∧ Benign (setExponent c d res xs).2 ∧
    (1 ≤ c.prec → c.emin ≤ c.emax → (setExponent c d res xs).1.exp ≤ c.emax) := by
  obtain ⟨k1, k2, k3⟩ := setExponent_noSys hns
  have hz := isZero_of_zero d hf h0
  obtain ⟨b1, b2, b3, b4, b5, b6, b7, b8⟩ := hb
  have hnd : (ndigits d.coeff : Int) = 1 := by rw [h0, ndigits_zero]; rfl
  by_cases hsub : sumInts xs + (ndigits d.coeff : Int) - 1 < c.emin
  · by_cases hr : sumInts xs < c.emin - ((c.prec : Int) - 1)
    · rw [setExponent_sub_round c d res xs k1 k2 k3 hsub hr]
      simp only [h0, rndCoeff_zero, hz, seFinish_eq]
      simp [Benign, Cond.cClamped, Cond.cRounded, *]
      omega
    · rw [setExponent_sub_exact c d res xs k1 k2 k3 hsub (by omega)]
      simp only [hz, seFinish_eq]
      simp [Benign, *]
      omega
  · by_cases hov : sumInts xs + (ndigits d.coeff : Int) - 1 > c.emax
    · rw [setExponent_over c d res xs k1 k2 k3 (by omega) (by omega)]
      simp only [hz, seFinish_eq]
      simp [Benign, Cond.cClamped, *]
    · rw [setExponent_norm c d res xs k1 k2 k3 (by omega) (by omega)]
      simp only [seFinish_eq]
      simp [Benign, *]
      omega

theorem sign_of_zero (d : Dec) (hf : d.form = .finite) (h0 : d.coeff = 0) : d.sign = 0 := by
  simp [Dec.sign, hf, h0]

theorem roundX_zero_eq (c : Ctx) (d : Dec) (hp : 1 ≤ c.prec) (hf : d.form = .finite) (h0 : d.coeff = 0) :
    roundXFin c d true = setExponent c d {} [d.exp, 0] := by
  apply roundX_le c d (by omega)
  · rw [sign_of_zero d hf h0]; simp
  · rw [h0, ndigits_zero]; exact hp

theorem roundX_prec0 (c : Ctx) (d : Dec) (hp : c.prec = 0) :
    roundXFin c d true = setExponent c d {} [d.exp] := by
  simp [roundXFin, hp]

/-! ## `round` leaves a fitting decimal alone -/

theorem roundX_noSys_exp (c : Ctx) (d : Dec) (hp : c.prec ≠ 0) (hns : NoSys (roundXFin c d true).2) :
    -100000 ≤ d.exp ∧ d.exp ≤ 100000 := by
  by_cases hs : d.sign ≠ 0 ∧ d.exp + (ndigits d.coeff : Int) - 1 < c.emin
  · rw [roundX_sub c d hp hs.1 hs.2] at hns
    obtain ⟨k1, _, _⟩ := setExponent_noSys (noSys_or.1 hns).2
    obtain ⟨a, b, _⟩ := checkXs_cons k1
    exact ⟨a, b⟩
  · by_cases hd : ndigits d.coeff ≤ c.prec
    · rw [roundX_le c d hp hs hd] at hns
      obtain ⟨k1, _, _⟩ := setExponent_noSys hns
      obtain ⟨a, b, _⟩ := checkXs_cons k1
      exact ⟨a, b⟩
    · by_cases hm : (ndigits d.coeff : Int) - (c.prec : Int) ≤ 100000
      · rw [roundX_gt c d hp hs (by omega) hm] at hns
        simp only at hns
        obtain ⟨k1, _, _⟩ := setExponent_noSys (noSys_or.1 hns).2
        obtain ⟨a, b, _⟩ := checkXs_cons k1
        exact ⟨a, b⟩
      · exact absurd hns (roundX_diff_sys c d hp hs (by omega))

theorem checkXs_one (x : Int) (h1 : -100000 ≤ x) (h2 : x ≤ 100000) : checkXs [x] = none := by
  have a : ¬ x > 100000 := by omega
  have b : ¬ x < -100000 := by omega
  simp [checkXs, MaxExponent, MinExponent, a, b]

theorem checkXs_two (x y : Int) (h1 : -100000 ≤ x) (h2 : x ≤ 100000) (h3 : -100000 ≤ y) (h4 : y ≤ 100000) :
    checkXs [x, y] = none := by
  have a : ¬ x > 100000 := by omega
  have b : ¬ x < -100000 := by omega
  have a' : ¬ y > 100000 := by omega
  have b' : ¬ y < -100000 := by omega
  simp [checkXs, MaxExponent, MinExponent, a, b, a', b']

theorem dec_eta (d : Dec) : ({ d with exp := d.exp } : Dec) = d := by cases d; rfl

/-- a finite decimal that fits the context is returned unchanged by `round`; only Subnormal is raised -/
theorem roundX_id (c : Ctx) (hc : c.WF) (d : Dec) (hf : d.form = .finite)
    (hnd : ndigits d.coeff ≤ c.prec) (hlo : c.emin - (c.prec : Int) + 1 ≤ d.exp) (hmin : -100000 ≤ d.exp)
    (hhi : d.exp + (ndigits d.coeff : Int) - 1 ≤ c.emax) :
    roundXFin c d true =
      (d, if 0 < d.coeff ∧ d.exp + (ndigits d.coeff : Int) - 1 < c.emin then Cond.cSubnormal else {}) := by
  obtain ⟨hc1, hc2, hc3, hc4, hc5⟩ := hc
  have hp := ndigits_pos d.coeff
  by_cases hs : 0 < d.coeff ∧ d.exp + (ndigits d.coeff : Int) - 1 < c.emin
  · rw [roundX_sub c d (by omega) (sign_ne_zero_of_pos d hs.1) hs.2]
    have hsum : sumInts [d.exp] = d.exp := by simp [sumInts]
    rw [setExponent_sub_exact c d _ _ (checkXs_one _ hmin (by omega)) (by rw [hsum]; omega)
      (by rw [hsum]; omega) (by rw [hsum]; exact hs.2) (by rw [hsum]; omega)]
    simp only [hsum, seFinish_eq, isZero_of_pos d hs.1, hs, and_self, if_true]
    simp [Cond.cSubnormal]
    apply Cond.ext' <;> simp
  · have hsum : sumInts [d.exp, 0] = d.exp := by simp [sumInts]
    have hck := checkXs_two d.exp 0 hmin (by omega) (by omega) (by omega)
    have hs' : ¬ (d.sign ≠ 0 ∧ d.exp + (ndigits d.coeff : Int) - 1 < c.emin) := by
      rintro ⟨a, b⟩
      apply hs
      refine ⟨?_, b⟩
      apply Nat.pos_of_ne_zero
      intro h0
      exact a (sign_of_zero d hf h0)
    rw [roundX_le c d (by omega) hs' hnd, if_neg hs]
    by_cases hsub : d.exp + (ndigits d.coeff : Int) - 1 < c.emin
    · have h0 : d.coeff = 0 := by
        apply Classical.byContradiction; intro hne; exact hs ⟨by omega, hsub⟩
      rw [setExponent_sub_exact c d _ _ hck (by rw [hsum]; omega)
        (by rw [hsum]; omega) (by rw [hsum]; exact hsub) (by rw [hsum]; omega)]
      simp [hsum, seFinish_eq, isZero_of_zero d hf h0]
    · rw [setExponent_norm c d _ _ hck (by rw [hsum]; omega)
        (by rw [hsum]; omega) (by rw [hsum]; omega) (by rw [hsum]; omega)]
      simp [hsum, seFinish_eq]

theorem sub_rnd_digits (c : Ctx) (hc : c.WF) (neg : Bool) (N : Nat) (E : Int) (hN : 0 < N)
    (hadj : E + (ndigits N : Int) - 1 < c.emin) (hE : E < c.emin - (c.prec : Int) + 1) :
    ndigits (rndCoeff c.mode neg N (c.emin - (c.prec : Int) + 1 - E).toNat) ≤ c.prec := by
  obtain ⟨hc1, hc2, hc3, hc4, hc5⟩ := hc
  generalize hk : (c.emin - (c.prec : Int) + 1 - E).toNat = k
  apply ndigits_le_of_le_pow _ _ hc1
  apply rndCoeff_le
  rw [← Nat.pow_add]
  have h1 := (ndigits_spec N hN).2
  have h2 : 10 ^ ndigits N ≤ 10 ^ (c.prec - 1 + k) := Nat.pow_le_pow_right (by decide) (by omega)
  omega

end Apd.MulL
