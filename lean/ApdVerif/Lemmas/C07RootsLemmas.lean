import ApdVerif.Props.RoundCore
import ApdVerif.Props.Mul
import ApdVerif.Lemmas.QuoLemmas
import ApdVerif.Lemmas.C03Lemmas
import ApdVerif.Model.Trans

set_option linter.unusedSimpArgs false
set_option linter.unusedVariables false
namespace Apd.C07R
open Apd Apd.Oracle Apd.Props Apd.C03L Cond

/-- the working context of Cbrt -/
def ncOf (p : Nat) : Ctx := { baseCtx with prec := p * 2 + 2 }

/-- initial estimate of Cbrt (polynomial, then the power of two) -/
def cbrtPoly (ed : ED) (z : Dec) (down up : Nat) : ED × Dec :=
  let z0 := z
  let r1 := ed.step z (fun c => mulOp c z cbrtC1)
  let r2 := r1.1.step r1.2 (fun c => addOp c r1.2 cbrtC2 false)
  let r3 := r2.1.step r2.2 (fun c => mulOp c r2.2 z0)
  let r4 := r3.1.step r3.2 (fun c => addOp c r3.2 cbrtC3 false)
  if down > up then mulN decHalf (down - up) r4.1 r4.2 else mulN decTwo (up - down) r4.1 r4.2

/-- the ErrDecimal part of Cbrt with the two exits abstracted: it depends on the caller's context only
through the precision -/
def cbrtK {α : Type} (p : Nat) (x : Dec) (kerr : ErrKind → α) (k : Dec → Cond → α) : Option α :=
  match scaleLoop (fun z => z.cmp decOneEighth < 0) decEight 400000 { c := ncOf p } x.absD 0 with
  | none => none
  | some (.inl er) => some (kerr er)
  | some (.inr (ed, z, down)) =>
  match scaleLoop (fun z => z.cmp decOne > 0) decOneEighth 400000 ed z 0 with
  | none => none
  | some (.inl er) => some (kerr er)
  | some (.inr (ed, z, up)) =>
    match cbrtIter (ncOf p) ((p : Int) + 1) (10 + (p + 1)) x.absD (10 + (p + 1) + 2)
        (cbrtPoly ed z down up).1 (cbrtPoly ed z down up).2 {} with
    | none => none
    | some (.inl er) => some (kerr er)
    | some (.inr z') => some (k z' (cbrtPoly ed z down up).1.fl)

/-- the exactness check of Cbrt on the rounded result `r` -/
def cbrtCheck (traps : Cond) (p : Nat) (x z : Dec) (fl5 : Cond) (r : Dec × Cond) : Out :=
  let d : Dec := { r.1 with neg := x.neg }
  let e : ED := { c := { ncOf p with prec := p * 3 }, fl := fl5, err := .none }
  let q1 := e.step z (fun c => mulOp c d d)
  let q2 := q1.1.step q1.2 (fun c => mulOp c q1.2 d)
  if q2.1.failed then failOut q2.1.errOf else
  if x.cmp q2.2 == 0 then { d := d } else { d := d, fl := r.2, err := goError traps r.2 }

/-- the final rounding and the exactness check of Cbrt -/
def cbrtTail (c : Ctx) (x z : Dec) (fl5 : Cond) : Out :=
  cbrtCheck c.traps c.prec x z fl5 (ctxRound { c with mode := .halfEven } z)

theorem cbrtOp_eq (c : Ctx) (x : Dec) :
    cbrtOp c x = match rootSpecials c x 3 with
      | some o => some o
      | none => cbrtK c.prec x failOut (cbrtTail c x) := by
  cases h : rootSpecials c x 3 with
  | some o => simp only [cbrtOp, h]
  | none =>
    simp only [cbrtOp, h, cbrtK, ncOf, cbrtPoly, cbrtTail, cbrtCheck]
    generalize scaleLoop (fun z => decide (z.cmp decOneEighth < 0)) decEight 400000 _ _ 0 = A
    cases A with
    | none => rfl
    | some v =>
      cases v with
      | inl er => rfl
      | inr v =>
      obtain ⟨ed, z, down⟩ := v
      dsimp only
      generalize scaleLoop (fun z => decide (z.cmp decOne > 0)) decOneEighth 400000 _ _ 0 = B
      cases B with
      | none => rfl
      | some v =>
        cases v with
        | inl er => rfl
        | inr v =>
        obtain ⟨ed, z, up⟩ := v
        dsimp only
        generalize cbrtIter _ _ _ _ _ _ _ _ = C
        cases C with
        | none => rfl
        | some v =>
          cases v with
          | inl er => rfl
          | inr z' =>
            dsimp only
            split_ifs <;> rfl

theorem cbrtK_map {α β : Type} (f : α → β) (p : Nat) (x : Dec) (kerr : ErrKind → α) (k : Dec → Cond → α) :
    (cbrtK p x kerr k).map f = cbrtK p x (fun e => f (kerr e)) (fun z fl => f (k z fl)) := by
  unfold cbrtK
  split
  · rfl
  · rfl
  · split
    · rfl
    · rfl
    · split <;> rfl


theorem retrap_failOut (t : Cond) (e : ErrKind) : retrap t (failOut e) = failOut e := by
  unfold retrap failOut
  by_cases h : e = .none
  · subst h; simp [goError_zero]
  · simp [h]

theorem cbrtCheck_retrap (t : Cond) (p : Nat) (x z : Dec) (fl : Cond) (r : Dec × Cond) :
    cbrtCheck t p x z fl r = retrap t (cbrtCheck {} p x z fl r) := by
  unfold cbrtCheck
  simp only []
  split_ifs
  · exact (retrap_failOut _ _).symm
  · exact (plain_retrap _ _).symm
  · exact (retrap_mk_goError _ _ _ _).symm

theorem cbrtTail_wt (c : Ctx) (t : Cond) (x z : Dec) (fl : Cond) :
    cbrtTail (wt c t) x z fl = retrap t (cbrtTail (wt c {}) x z fl) :=
  cbrtCheck_retrap t c.prec x z fl _

theorem cbrtOp_wt (c : Ctx) (t : Cond) (x : Dec) :
    cbrtOp (wt c t) x = (cbrtOp (wt c {}) x).map (retrap t) := by
  rw [cbrtOp_eq, cbrtOp_eq, rootSpecials_wt c t]
  cases rootSpecials (wt c {}) x 3 with
  | some o => rfl
  | none =>
    simp only [Option.map_none, wt_prec]
    rw [cbrtK_map]
    congr 1
    · funext e; exact (retrap_failOut t e).symm
    · funext z fl; exact cbrtTail_wt c t x z fl

theorem cbrt_traps (c : Ctx) (t : Cond) (x : Dec) :
    match cbrtOp c x, cbrtOp { c with traps := t } x with
    | some o, some o' => (o.err = .none → o'.err = .none → o'.d = o.d ∧ o'.fl = o.fl) ∧
                         (o.err = .none → o'.err ≠ .none → (o.fl &&& t).any = true ∨ o'.err = .sys ∨ o'.err = .other)
    | none, none => True
    | _, _ => False := by
  have h1 : cbrtOp c x = (cbrtOp (wt c {}) x).map (retrap c.traps) := cbrtOp_wt c c.traps x
  have h2 : cbrtOp { c with traps := t } x = (cbrtOp (wt c {}) x).map (retrap t) := cbrtOp_wt c t x
  rw [h1, h2]
  cases cbrtOp (wt c {}) x with
  | none => trivial
  | some o =>
    simp only [Option.map_some, retrap_d, retrap_fl, retrap_err]
    refine ⟨fun _ _ => ⟨trivial, trivial⟩, ?_⟩
    intro ha hb
    by_cases h0 : o.err = .none
    · simp only [h0, ne_eq, not_true_eq_false, if_false] at ha hb ⊢
      rcases (goError_iff t o.fl).1 hb with h | h | h
      · right; left; unfold goError; simp [h]
      · right; left; unfold goError; simp [h]
      · left; exact h
    · simp only [ne_eq, h0, not_false_eq_true, if_true] at ha



theorem rootSpecials3_none (c : Ctx) (x : Dec) (hx : x.form = .finite) (h0 : x.coeff ≠ 0) :
    rootSpecials c x 3 = none := by
  have h3 : ((3 : Int) % 2 == 0) = false := by decide
  cases hn : x.neg <;> simp [rootSpecials, shouldSetAsNaN, Dec.isNaN, hx, Dec.sign, h0, hn, h3]

theorem scaleLoop_c (test : Dec → Bool) (k : Dec) : ∀ (fuel : Nat) (e : ED) (z : Dec) (n : Nat) (r : ED × Dec × Nat),
    scaleLoop test k fuel e z n = some (.inr r) → r.1.c = e.c := by
  intro fuel
  induction fuel with
  | zero => intro e z n r h; simp [scaleLoop] at h
  | succ fuel ih =>
    intro e z n r h
    simp only [scaleLoop] at h
    split_ifs at h
    · cases h
    · rw [ih _ _ _ _ h, step_c]
    · injection h with h; injection h with h; subst h; rfl

theorem mulN_c (k : Dec) : ∀ (n : Nat) (e : ED) (z : Dec), (mulN k n e z).1.c = e.c := by
  intro n
  induction n with
  | zero => intro e z; rfl
  | succ n ih => intro e z; simp only [mulN]; rw [ih, step_c]

theorem cbrtPoly_c (ed : ED) (z : Dec) (down up : Nat) : (cbrtPoly ed z down up).1.c = ed.c := by
  unfold cbrtPoly
  simp only []
  split_ifs <;> simp only [mulN_c, step_c]


theorem seFinish_subnormal (d : Dec) (r : Int) (res : Cond) : (seFinish d r res).2.subnormal = res.subnormal := by
  unfold seFinish
  split_ifs <;> simp [cUnderflow]

theorem seCore_nosub (c : Ctx) (d : Dec) (res : Cond) (r : Int) (hd : d.form = .finite) (hc0 : d.coeff ≠ 0)
    (h : (QuoL.seCore c d res r).2.subnormal = false) (hf : (QuoL.seCore c d res r).1.form = .finite) :
    (QuoL.seCore c d res r).1.coeff = d.coeff ∧ c.emin ≤ r + (ndigits d.coeff : Int) - 1 := by
  have hz : d.isZero = false := by simp [Dec.isZero, hc0]
  unfold QuoL.seCore at h hf ⊢
  simp only [hz, Bool.not_false, Bool.false_eq_true, ↓reduceIte] at h hf ⊢
  by_cases h1 : r + (ndigits d.coeff : Int) - 1 < c.emin
  · exfalso
    simp only [h1, if_true] at h
    revert h
    split_ifs <;> simp [seFinish_subnormal, cSubnormal, cInexact, cClamped, cRounded]
  · simp only [h1, if_false] at h hf ⊢
    by_cases h2 : r + (ndigits d.coeff : Int) - 1 > c.emax
    · simp [h2, seFinish] at hf
    · simp only [h2, if_false, seFinish]
      exact ⟨trivial, by omega⟩

theorem quo3_digits (c : Ctx) (hp : 1 ≤ c.prec) (a : Dec)
    (hf : (quoOp c a decThree).d.form = .finite) (hns : NoSys (quoOp c a decThree).fl)
    (hsub : (quoOp c a decThree).fl.subnormal = false) :
    ndigits (quoOp c a decThree).d.coeff ≤ c.prec := by
  have hp0 : c.prec ≠ 0 := by omega
  have hy : decThree.form = .finite := rfl
  have hy0 : decThree.coeff ≠ 0 := by decide
  by_cases ha : a.form = .finite
  · by_cases ha0 : a.coeff = 0
    · rw [QuoL.quoOp_zero c a decThree ha hy hy0 hp0 ha0] at hns ⊢
      simp only [finish] at hns ⊢
      obtain ⟨_, z2, _⟩ := MulL.setExponent_zero c _ {} _ rfl rfl MulL.benign_empty hns
      rw [z2]; exact hp
    · rw [QuoL.quoOp_eq c a decThree ha hy hy0 hp0 ha0] at hns hf hsub ⊢
      simp only [finish] at hns hf hsub ⊢
      have hX : 0 < a.coeff := Nat.pos_of_ne_zero ha0
      have hY : 0 < decThree.coeff := by decide
      obtain ⟨s1, s2, s3, s4, s5⟩ := QuoL.quo_scale a.coeff decThree.coeff hX hY
      have eP : ((c.prec : Int) - 1).toNat = c.prec - 1 := by omega
      have hlo : QuoL.qDivisor a.coeff decThree.coeff * 10 ^ (c.prec - 1) ≤ QuoL.qDividend c.prec a.coeff decThree.coeff := by
        unfold QuoL.qDividend; rw [eP]; exact Nat.mul_le_mul_right _ s2
      have hhi : QuoL.qDividend c.prec a.coeff decThree.coeff < QuoL.qDivisor a.coeff decThree.coeff * 10 ^ c.prec := by
        unfold QuoL.qDividend; rw [eP, QuoL.pow_pred_mul c.prec hp]
        have := Nat.mul_lt_mul_of_pos_right s3 (Nat.pow_pos (n := c.prec - 1) (show 0 < 10 by decide))
        calc QuoL.qDividend1 a.coeff decThree.coeff * 10 ^ (c.prec - 1)
            < 10 * QuoL.qDivisor a.coeff decThree.coeff * 10 ^ (c.prec - 1) := this
          _ = QuoL.qDivisor a.coeff decThree.coeff * (10 * 10 ^ (c.prec - 1)) := by ring
      have hq1 : 10 ^ (c.prec - 1) ≤ QuoL.qDividend c.prec a.coeff decThree.coeff / QuoL.qDivisor a.coeff decThree.coeff :=
        (Nat.le_div_iff_mul_le s1).2 (by rw [Nat.mul_comm]; exact hlo)
      have hq2 : QuoL.qDividend c.prec a.coeff decThree.coeff / QuoL.qDivisor a.coeff decThree.coeff < 10 ^ c.prec :=
        (Nat.div_lt_iff_lt_mul s1).2 (by rw [Nat.mul_comm]; exact hhi)
      have hndq := ndigits_unique _ _ hp hq1 hq2
      generalize QuoL.qDividend c.prec a.coeff decThree.coeff / QuoL.qDivisor a.coeff decThree.coeff = q at *
      generalize QuoL.qDividend c.prec a.coeff decThree.coeff % QuoL.qDivisor a.coeff decThree.coeff = rem at *
      generalize QuoL.qDivisor a.coeff decThree.coeff = dv at *
      generalize -(QuoL.qAdjCoeffs a.coeff decThree.coeff) = aa at *
      generalize (a.neg != decThree.neg) = neg at *
      generalize a.exp - decThree.exp = shift at *
      rw [hndq] at hns hf hsub ⊢
      have hq0 : 0 < q := by
        have := Nat.pow_pos (n := c.prec - 1) (show 0 < 10 by decide); omega
      -- the three shapes of `quoSt`
      have hst : ∃ cf δ res0, QuoL.quoSt c neg q rem dv (shift + aa + -((c.prec : Int) - 1) + (c.prec : Int) - 1) = (cf, δ, res0) ∧
          cf ≠ 0 ∧ res0.subnormal = false ∧
          (ndigits cf = c.prec ∨ (ndigits cf = c.prec + 1 ∧ δ = -1 ∧ shift + aa < c.emin)) := by
        have hadj : shift + aa + -((c.prec : Int) - 1) + (c.prec : Int) - 1 = shift + aa := by omega
        rw [hadj]
        unfold QuoL.quoSt
        by_cases hr0 : rem = 0
        · have hb : (rem != 0) = false := by simp [hr0]
          rw [hb]
          exact ⟨q, 0, {}, rfl, by omega, rfl, Or.inl hndq⟩
        · have hb : (rem != 0) = true := by simp [hr0]
          rw [hb]
          simp only [if_true]
          by_cases hreg : shift + aa ≥ c.emin
          · rw [if_pos hreg]
            obtain ⟨r1, r2, _⟩ := roundAddOne_spec q 0 hq0
            by_cases hadd : shouldAddOne c.mode q neg (cmpNat (2 * rem) dv) = true
            · rw [if_pos hadd]
              exact ⟨_, _, _, rfl, by omega, by simp [cInexact, cRounded], Or.inl (by rw [r2, hndq])⟩
            · rw [if_neg hadd]
              exact ⟨_, _, _, rfl, by omega, by simp [cInexact, cRounded], Or.inl hndq⟩
          · rw [if_neg hreg]
            have hnd10 : ndigits (q * 10 + 1) = c.prec + 1 := by
              apply ndigits_unique _ _ (by omega)
              · have : c.prec + 1 - 1 = (c.prec - 1) + 1 := by omega
                rw [this, Nat.pow_succ]; omega
              · rw [Nat.pow_succ]; omega
            exact ⟨_, _, _, rfl, by omega, rfl, Or.inr ⟨hnd10, rfl, by omega⟩⟩
      obtain ⟨cf, δ, res0, e1, hcf0, hres0, hshape⟩ := hst
      rw [e1] at hns hf hsub ⊢
      rw [QuoL.quoFin_eq _ _ _ _ _ _ _ hns] at hf hsub ⊢
      simp only [Cond.or_subnormal, hres0, Bool.false_or] at hsub
      obtain ⟨k1, k2⟩ := seCore_nosub c _ res0 _ rfl hcf0 hsub hf
      simp only [] at k1 k2 ⊢
      rw [k1]
      rcases hshape with h | ⟨h1, h2, h3⟩
      · omega
      · exfalso; rw [h1, h2] at k2; push_cast at k2; omega
  · exfalso
    revert hf
    cases hform : a.form <;> simp [hform] at ha <;>
      simp [quoOp, quoSpecials, shouldSetAsNaN, Dec.isNaN, hform, setAsNaN, decThree, invalidNaN, decNaN, decInf]


theorem goError_default_none (a b : Cond) (h : goError defaultTraps (a ||| b) = .none) :
    NoSys b ∧ b.subnormal = false := by
  have hns := Apd.noSys_of_delivered _ _ (Or.inl h)
  have hb := (MulL.noSys_or.1 hns).2
  refine ⟨hb, ?_⟩
  unfold goError at h
  obtain ⟨h1, h2⟩ := hns
  rw [h1, h2] at h
  simp only [Bool.or_self, Bool.false_eq_true, if_false] at h
  by_cases hany : ((a ||| b) &&& defaultTraps).any = true
  · rw [if_pos hany] at h; cases h
  · have : ((a ||| b) &&& defaultTraps).any = false := by simpa using hany
    have e : ((a ||| b) &&& defaultTraps) = Cond.and (a ||| b) defaultTraps := rfl
    rw [e] at this
    simp only [Cond.any, Cond.and, defaultTraps, Bool.or_eq_false_iff, Bool.and_true] at this
    have := this.1.1.1.1.1.1.2
    have t2 : (a.subnormal || b.subnormal) = false := this
    simp only [Bool.or_eq_false_iff] at t2
    exact t2.2

/-- the last step of one Cbrt iteration: a division by three under the working context -/
theorem step_quo3_digits (p : Nat) (e : ED) (cur : Dec) (hc : e.c = ncOf p)
    (hnf : (e.step cur (fun c => quoOp c cur decThree)).1.failed = false)
    (hfin : (e.step cur (fun c => quoOp c cur decThree)).2.form = .finite) :
    ndigits (e.step cur (fun c => quoOp c cur decThree)).2.coeff ≤ p * 2 + 2 := by
  cases hf : e.failed with
  | true => rw [ed_skip _ _ _ hf] at hnf; rw [hf] at hnf; cases hnf
  | false =>
    rw [ed_run _ _ _ hf] at hnf hfin ⊢
    rw [failed_false_iff] at hnf
    simp only [hc] at hnf hfin ⊢
    obtain ⟨_, hg⟩ := hnf
    have htr : (ncOf p).traps = defaultTraps := rfl
    rw [htr] at hg
    obtain ⟨k1, k2⟩ := goError_default_none _ _ hg
    exact quo3_digits (ncOf p) (by simp [ncOf]) cur hfin k1 k2

/-- the first four wrapper calls of one Cbrt iteration -/
def cbrtStep4 (ax : Dec) (e : ED) (z : Dec) : ED × Dec :=
  let r1 := e.step z (fun c => mulOp c z z)
  let r2 := r1.1.step r1.2 (fun c => quoOp c ax r1.2)
  let r3 := r2.1.step r2.2 (fun c => addOp c r2.2 z false)
  r3.1.step r3.2 (fun c => addOp c r3.2 z false)

theorem cbrtStep4_c (ax : Dec) (e : ED) (z : Dec) : (cbrtStep4 ax e z).1.c = e.c := by
  unfold cbrtStep4
  simp only [step_c]

theorem cbrtIter_succ (c : Ctx) (prec : Int) (maxIter : Nat) (ax : Dec) (fuel : Nat) (e : ED) (z : Dec) (l : LoopSt) :
    cbrtIter c prec maxIter ax (fuel + 1) e z l =
      if ((cbrtStep4 ax e z).1.step (cbrtStep4 ax e z).2 (fun c => quoOp c (cbrtStep4 ax e z).2 decThree)).1.failed then
        some (.inl ((cbrtStep4 ax e z).1.step (cbrtStep4 ax e z).2 (fun c => quoOp c (cbrtStep4 ax e z).2 decThree)).1.errOf)
      else
        match loopDone c prec maxIter l
            ((cbrtStep4 ax e z).1.step (cbrtStep4 ax e z).2 (fun c => quoOp c (cbrtStep4 ax e z).2 decThree)).2 with
        | .error er => some (.inl er)
        | .done => some (.inr ((cbrtStep4 ax e z).1.step (cbrtStep4 ax e z).2 (fun c => quoOp c (cbrtStep4 ax e z).2 decThree)).2)
        | .continue l' => cbrtIter c prec maxIter ax fuel
            ((cbrtStep4 ax e z).1.step (cbrtStep4 ax e z).2 (fun c => quoOp c (cbrtStep4 ax e z).2 decThree)).1
            ((cbrtStep4 ax e z).1.step (cbrtStep4 ax e z).2 (fun c => quoOp c (cbrtStep4 ax e z).2 decThree)).2 l' := rfl

theorem cbrtIter_digits (p : Nat) (prec : Int) (maxIter : Nat) (ax : Dec) :
    ∀ (fuel : Nat) (e : ED) (z : Dec) (l : LoopSt) (z' : Dec), e.c = ncOf p →
      cbrtIter (ncOf p) prec maxIter ax fuel e z l = some (.inr z') →
      z'.form = .finite → ndigits z'.coeff ≤ p * 2 + 2 := by
  intro fuel
  induction fuel with
  | zero => intro e z l z' _ h; simp [cbrtIter] at h
  | succ fuel ih =>
    intro e z l z' hc h hfin
    rw [cbrtIter_succ] at h
    have hc4 := cbrtStep4_c ax e z
    generalize cbrtStep4 ax e z = r4 at h hc4
    by_cases hfail : (r4.1.step r4.2 (fun c => quoOp c r4.2 decThree)).1.failed = true
    · rw [if_pos hfail] at h; cases h
    · rw [if_neg hfail] at h
      have hfail' : (r4.1.step r4.2 (fun c => quoOp c r4.2 decThree)).1.failed = false := by simpa using hfail
      split at h
      · cases h
      · injection h with h; injection h with h; subst h
        exact step_quo3_digits p r4.1 r4.2 (by rw [hc4, hc]) hfail' hfin
      · exact ih _ _ _ _ (by rw [step_c, hc4, hc]) h hfin


theorem cbrtK_some {α : Type} (p : Nat) (x : Dec) (kerr : ErrKind → α) (k : Dec → Cond → α) (o : α)
    (h : cbrtK p x kerr k = some o) :
    (∃ er, o = kerr er) ∨ (∃ z fl, o = k z fl ∧ (z.form = .finite → ndigits z.coeff ≤ p * 2 + 2)) := by
  unfold cbrtK at h
  split at h
  · cases h
  · injection h with h; exact Or.inl ⟨_, h.symm⟩
  · rename_i ed1 z1 down h1
    have c1 : ed1.c = ncOf p := scaleLoop_c _ _ _ _ _ _ _ h1
    split at h
    · cases h
    · injection h with h; exact Or.inl ⟨_, h.symm⟩
    · rename_i ed2 z2 up h2
      have c2 : ed2.c = ncOf p := by rw [← c1]; exact scaleLoop_c _ _ _ _ _ _ _ h2
      split at h
      · cases h
      · injection h with h; exact Or.inl ⟨_, h.symm⟩
      · rename_i z' h3
        injection h with h
        refine Or.inr ⟨z', _, h.symm, ?_⟩
        exact cbrtIter_digits p _ _ _ _ _ _ _ z' (by rw [cbrtPoly_c, c2]) h3

theorem ndigits_mul_ge (a b : Nat) (ha : 0 < a) (hb : 0 < b) : ndigits a + ndigits b ≤ ndigits (a * b) + 1 := by
  obtain ⟨a1, _⟩ := ndigits_spec a ha
  obtain ⟨b1, _⟩ := ndigits_spec b hb
  have hab : 0 < a * b := Nat.mul_pos ha hb
  have hpa := ndigits_pos a
  have hpb := ndigits_pos b
  by_contra hlt
  have hk : ndigits (a * b) ≤ ndigits a + ndigits b - 2 := by omega
  have hk1 : 1 ≤ ndigits a + ndigits b - 2 := by have := ndigits_pos (a * b); omega
  have := (ndigits_le_iff (a * b) _ hab hk1).1 hk
  have e : ndigits a + ndigits b - 2 = (ndigits a - 1) + (ndigits b - 1) := by omega
  rw [e, Nat.pow_add] at this
  have := Nat.mul_le_mul a1 b1
  omega

theorem ndigits_mul_le (a b : Nat) (ha : 0 < a) (hb : 0 < b) : ndigits (a * b) ≤ ndigits a + ndigits b := by
  obtain ⟨_, a2⟩ := ndigits_spec a ha
  obtain ⟨_, b2⟩ := ndigits_spec b hb
  have hab : 0 < a * b := Nat.mul_pos ha hb
  have hpa := ndigits_pos a
  rw [ndigits_le_iff (a * b) _ hab (by omega), Nat.pow_add]
  exact Nat.mul_lt_mul'' a2 b2


/-- the working context of the exactness check -/
def nc3 (P : Nat) : Ctx := { baseCtx with prec := P }

theorem seFinish_empty (d : Dec) (r : Int) : seFinish d r {} = ({ d with exp := r }, {}) := by
  simp [seFinish]

/-- what a multiplication under a base context without a system flag tells about its operands -/
theorem mul_base_facts (P : Nat) (a b : Dec) (ha : a.form = .finite) (hb : b.form = .finite)
    (hns : NoSys (mulOp (nc3 P) a b).fl) :
    -100000 ≤ a.exp ∧ a.exp ≤ 100000 ∧ -100000 ≤ b.exp ∧ b.exp ≤ 100000 ∧
    -100000 ≤ a.exp + b.exp + (ndigits (a.coeff * b.coeff) : Int) - 1 ∧
    a.exp + b.exp + (ndigits (a.coeff * b.coeff) : Int) - 1 ≤ 100000 ∧
    (mulOp (nc3 P) a b).d = (roundXFin (nc3 P)
        { form := .finite, neg := a.neg != b.neg, exp := a.exp + b.exp, coeff := a.coeff * b.coeff } true).1 ∧
    NoSys (roundXFin (nc3 P)
        { form := .finite, neg := a.neg != b.neg, exp := a.exp + b.exp, coeff := a.coeff * b.coeff } true).2 := by
  rw [mulOp_finite _ a b ha hb] at hns ⊢
  simp only [finish] at hns ⊢
  obtain ⟨h1, h2⟩ := MulL.noSys_or.1 hns
  obtain ⟨k1, k2, k3⟩ := Apd.setExponent_noSys _ _ _ _ h1
  have hsum : sumInts [a.exp, b.exp] = a.exp + b.exp := by simp [sumInts]
  simp only [seAdj, hsum] at k2 k3
  have hck := (checkXs_none_iff _).1 k1
  have ea := hck a.exp (by simp)
  have eb := hck b.exp (by simp)
  have hse : setExponent (nc3 P) { form := .finite, neg := a.neg != b.neg, exp := 0, coeff := a.coeff * b.coeff } {} [a.exp, b.exp]
      = ({ form := .finite, neg := a.neg != b.neg, exp := a.exp + b.exp, coeff := a.coeff * b.coeff }, {}) := by
    rw [setExponent_normal _ _ _ _ k1 (by simp only [seAdj, hsum]; exact k3) (by simp only [seAdj, hsum]; exact k2)
      (by simp only [seAdj, hsum]; exact k3) (Int.le_refl _), hsum, seFinish_empty]
  rw [hse] at h2 ⊢
  rw [ctxRound_finite _ _ rfl] at h2 ⊢
  exact ⟨ea.1, ea.2, eb.1, eb.2, k2, k3, rfl, h2⟩

/-- a system-limit exit of `setExponent` leaves the decimal alone -/
theorem setExponent_sys (c : Ctx) (d : Dec) (res : Cond) (xs : List Int) (hres : NoSys res)
    (h : ¬ NoSys (setExponent c d res xs).2) :
    (setExponent c d res xs).1 = d ∧ (checkXs xs ≠ none ∨ seAdj d xs < -100000 ∨ 100000 < seAdj d xs) := by
  have h2 : checkXs xs ≠ none ∨ seAdj d xs < -100000 ∨ 100000 < seAdj d xs := by
    by_contra hn
    have hn1 : checkXs xs = none := by
      by_contra h'; exact hn (Or.inl h')
    exact h (setExponent_noSys_of c d res xs hn1 (by omega) (by omega) hres)
  refine ⟨?_, h2⟩
  unfold setExponent
  cases hck : checkXs xs with
  | some fl => rfl
  | none =>
    simp only [MaxExponent, MinExponent]
    rcases h2 with h2 | h2 | h2
    · exact absurd hck h2
    · unfold seAdj at h2
      have a1 : ¬ (sumInts xs + (ndigits d.coeff : Int) - 1 > 100000) := by omega
      rw [if_neg a1, if_pos h2]
    · unfold seAdj at h2
      rw [if_pos h2]

theorem roundX_long_sys_fst (c : Ctx) (x : Dec) (b : Bool) (hx : x.form = .finite) (hp : 1 ≤ c.prec)
    (hd : (ndigits x.coeff : Int) - (c.prec : Int) > 100000)
    (hadj : c.emin ≤ x.exp + (ndigits x.coeff : Int) - 1) :
    (roundXFin c x b).1 = x := by
  unfold roundXFin
  have h0 : (c.prec == 0) = false := by simp; omega
  simp only [h0, Bool.and_false, sign_ne_zero x hx]
  have h1 : (x.coeff != 0 && decide (x.exp + (ndigits x.coeff : Int) - 1 < c.emin)) = false := by
    have : ¬ (x.exp + (ndigits x.coeff : Int) - 1 < c.emin) := by omega
    simp [this]
  have h2 : ((ndigits x.coeff : Int) - (c.prec : Int) > 0) := by omega
  have h3 : ((ndigits x.coeff : Int) - (c.prec : Int) > MaxExponent) := by simp only [MaxExponent]; omega
  simp only [h1, h2, h3, if_false, if_true]
  simp


theorem not_noSys_or_right {a b : Cond} (ha : NoSys a) (h : ¬ NoSys (a ||| b)) : ¬ NoSys b :=
  fun hb => h (MulL.noSys_or.2 ⟨ha, hb⟩)

theorem sumInts_two (a b : Int) : sumInts [a, b] = a + b := by simp [sumInts]
theorem sumInts_one (a : Int) : sumInts [a] = a := by simp [sumInts]

/-- The exactness check of Cbrt passed (both multiplications ran without a system flag) although the final
rounding of the iterate `z` hit a system limit: the (partially updated) result fits the context all the same. -/
theorem round_sys_cube (c : Ctx) (hc : c.WF) (z : Dec) (neg : Bool) (hz : z.form = .finite)
    (hzd : ndigits z.coeff ≤ c.prec * 2 + 2)
    (hsys : ¬ NoSys (ctxRound c z).2)
    (h1 : NoSys (mulOp (nc3 (c.prec * 3)) { (ctxRound c z).1 with neg := neg } { (ctxRound c z).1 with neg := neg }).fl)
    (h2 : NoSys (mulOp (nc3 (c.prec * 3))
      (mulOp (nc3 (c.prec * 3)) { (ctxRound c z).1 with neg := neg } { (ctxRound c z).1 with neg := neg }).d
      { (ctxRound c z).1 with neg := neg }).fl) :
    fits c (ctxRound c z).1 = true := by
  obtain ⟨hp1, hpe, hemax, hemin, hemin0⟩ := hc
  rw [ctxRound_finite c z hz] at hsys h1 h2 ⊢
  unfold ctxRoundFin at hsys h1 h2 ⊢
  have hnp := ndigits_pos z.coeff
  have hp3 : 1 ≤ (nc3 (c.prec * 3)).prec := by show 1 ≤ c.prec * 3; omega
  have hemin3 : (nc3 (c.prec * 3)).emin = -100000 := rfl
  have hprec3 : (nc3 (c.prec * 3)).prec = c.prec * 3 := rfl
  -- the cases in which the result is `z` itself
  have same : (roundXFin c z true).1 = z →
      (z.exp < -100000 ∨ 100000 < z.exp ∨ 100000 < z.exp + (ndigits z.coeff : Int) - 1 ∨
        (ndigits z.coeff : Int) - (c.prec : Int) > 100000) → False := by
    intro hr hcase
    rw [hr] at h1
    obtain ⟨f1, f2, _, _, f5, f6, f7, f8⟩ := mul_base_facts (c.prec * 3) { z with neg := neg } { z with neg := neg } hz hz h1
    simp only [] at f1 f2 f5 f6 f7 f8
    have hz0 : z.coeff ≠ 0 := by
      intro h0
      rw [h0] at hcase
      have : ndigits 0 = 1 := rfl
      rw [this] at hcase
      omega
    have hpos : 0 < z.coeff := Nat.pos_of_ne_zero hz0
    have hge := ndigits_mul_ge z.coeff z.coeff hpos hpos
    rcases hcase with h | h | h | h
    · omega
    · omega
    · omega
    · have := roundX_long_sys (nc3 (c.prec * 3))
        { form := .finite, neg := neg != neg, exp := z.exp + z.exp, coeff := z.coeff * z.coeff } true rfl hp3 (by rw [hprec3]; (try dsimp only); push_cast; omega)
        (by rw [hemin3]; (try dsimp only); omega)
      rw [f8.1] at this
      cases this
  by_cases hn0 : z.coeff = 0
  · exfalso
    have hnd0 : ndigits z.coeff = 1 := by rw [hn0]; rfl
    rw [roundX_short c z true hz hp1 (by omega) (Or.inl hn0)] at hsys same
    obtain ⟨e1, e2⟩ := setExponent_sys c z {} _ ⟨rfl, rfl⟩ hsys
    apply same e1
    simp only [seAdj, sumInts_two, hnd0] at e2
    by_cases hr : -100000 ≤ z.exp ∧ z.exp ≤ 100000
    · have := MulL.checkXs_two z.exp 0 hr.1 hr.2 (by omega) (by omega)
      rcases e2 with e2 | e2 | e2
      · exact absurd this e2
      · omega
      · omega
    · omega
  by_cases hadj : z.exp + (ndigits z.coeff : Int) - 1 < c.emin
  · exfalso
    rw [roundX_subnormal c z true hz hp1 hn0 hadj] at hsys same
    simp only [] at hsys same
    have hs2 := not_noSys_or_right (a := cSubnormal) ⟨rfl, rfl⟩ hsys
    obtain ⟨e1, e2⟩ := setExponent_sys c z cSubnormal _ ⟨rfl, rfl⟩ hs2
    apply same e1
    simp only [seAdj, sumInts_one] at e2
    by_cases hr : -100000 ≤ z.exp ∧ z.exp ≤ 100000
    · have := MulL.checkXs_one z.exp hr.1 hr.2
      rcases e2 with e2 | e2 | e2
      · exact absurd this e2
      · omega
      · omega
    · omega
  by_cases hnd : ndigits z.coeff ≤ c.prec
  · exfalso
    rw [roundX_short c z true hz hp1 hnd (Or.inr (by omega))] at hsys same
    obtain ⟨e1, e2⟩ := setExponent_sys c z {} _ ⟨rfl, rfl⟩ hsys
    apply same e1
    simp only [seAdj, sumInts_two] at e2
    by_cases hr : -100000 ≤ z.exp ∧ z.exp ≤ 100000
    · have := MulL.checkXs_two z.exp 0 hr.1 hr.2 (by omega) (by omega)
      rcases e2 with e2 | e2 | e2
      · exact absurd this e2
      · omega
      · omega
    · omega
  by_cases hd : (ndigits z.coeff : Int) - (c.prec : Int) ≤ 100000
  · -- the coefficient was rounded, the exponent was not set
    have hpos : 0 < z.coeff := Nat.pos_of_ne_zero hn0
    rw [roundX_long c z true hz hp1 (by omega) hd (by omega)] at hsys h1 h2 ⊢
    obtain ⟨D, hD⟩ : ∃ D : Nat, D = ndigits z.coeff - c.prec := ⟨_, rfl⟩
    have hDi : (ndigits z.coeff : Int) - (c.prec : Int) = (D : Int) := by omega
    have hDn : ((D : Int)).toNat = D := by omega
    simp only [hDi, hDn] at hsys h1 h2 ⊢
    have hyd : ndigits (z.coeff / 10 ^ D) = c.prec := by rw [hD]; exact ndigits_div_pow _ _ hpos hp1 (by omega)
    have hy : 0 < z.coeff / 10 ^ D := by
      apply Nat.div_pos _ (Nat.pow_pos (by decide))
      calc 10 ^ D ≤ 10 ^ (ndigits z.coeff - 1) := Nat.pow_le_pow_right (by decide) (by omega)
        _ ≤ z.coeff := (ndigits_spec _ hpos).1
    have hstep := roundStep_spec c.mode z.neg z.coeff D z.exp hy
    simp only [] at hstep
    rw [hyd] at hstep
    generalize (if z.coeff % 10 ^ D != 0 && shouldAddOne c.mode (z.coeff / 10 ^ D) z.neg (cmpNat (2 * (z.coeff % 10 ^ D)) (10 ^ D))
              then roundAddOne (z.coeff / 10 ^ D) (D : Int) else (z.coeff / 10 ^ D, (D : Int))) = yd at hstep hsys h1 h2 ⊢
    obtain ⟨y1, d1⟩ := yd
    simp only [] at hstep hsys h1 h2 ⊢
    obtain ⟨s1, s2, s3, s4, _, _, _⟩ := hstep
    have hres : NoSys (if (z.coeff % 10 ^ D != 0) = true then cRounded ||| cInexact else cRounded) := by
      split_ifs <;> exact ⟨rfl, rfl⟩
    have hs2 := not_noSys_or_right hres hsys
    obtain ⟨e1, e2⟩ := setExponent_sys c _ _ _ hres hs2
    rw [e1] at h1 h2 ⊢
    simp only [] at h1 h2
    simp only [seAdj, sumInts_two, s2] at e2
    -- first multiplication
    obtain ⟨f1, f2, _, _, f5, f6, f7, f8⟩ := mul_base_facts (c.prec * 3)
      { form := z.form, neg := neg, exp := z.exp, coeff := y1 } { form := z.form, neg := neg, exp := z.exp, coeff := y1 } hz hz h1
    simp only [] at f1 f2 f5 f6 f7 f8
    have hge2 := ndigits_mul_ge y1 y1 s1 s1
    have hle2 := ndigits_mul_le y1 y1 s1 s1
    have hpos2 : 0 < y1 * y1 := Nat.mul_pos s1 s1
    rw [roundX_short (nc3 (c.prec * 3)) _ true rfl hp3 (by rw [hprec3]; (try dsimp only); omega)
      (Or.inr (by rw [hemin3]; (try dsimp only); omega))] at f7 f8
    obtain ⟨k1, k2, k3⟩ := Apd.setExponent_noSys _ _ _ _ f8
    simp only [seAdj, sumInts_two] at k2 k3
    rw [setExponent_normal _ _ _ _ k1 (by simp only [seAdj, sumInts_two]; exact k3)
      (by simp only [seAdj, sumInts_two]; exact k2) (by simp only [seAdj, sumInts_two]; exact k3) (Int.le_refl _),
      sumInts_two, seFinish_empty] at f7
    simp only [] at f7
    -- second multiplication
    have hof : (mulOp (nc3 (c.prec * 3)) { form := z.form, neg := neg, exp := z.exp, coeff := y1 }
        { form := z.form, neg := neg, exp := z.exp, coeff := y1 }).d.form = .finite := by rw [f7]
    obtain ⟨g1, g2, _, _, g5, g6, g7, g8⟩ := mul_base_facts (c.prec * 3) _ { form := z.form, neg := neg, exp := z.exp, coeff := y1 } hof hz h2
    rw [f7] at g5 g6 g8
    simp only [] at g5 g6 g8
    have g9 := (MulL.roundX_noSys_exp (nc3 (c.prec * 3)) _ (by rw [hprec3]; omega) g8).1
    simp only [] at g9
    have hge3 := ndigits_mul_ge (y1 * y1) y1 hpos2 s1
    -- conclusion
    have hfit : ndigits y1 ≤ c.prec ∧ z.exp + (ndigits y1 : Int) - 1 ≤ c.emax ∧ z.exp ≥ c.emin - (c.prec : Int) + 1 := by
      rw [s2]
      by_cases hd1 : d1 ≤ 100000
      · have := MulL.checkXs_two z.exp d1 f1 f2 (by omega) hd1
        rcases e2 with e2 | e2 | e2
        · exact absurd this e2
        · omega
        · refine ⟨Nat.le_refl _, ?_, ?_⟩ <;> omega
      · exfalso; omega
    obtain ⟨t1, t2, t3⟩ := hfit
    simp only [fits, hz]
    simp only [Bool.and_eq_true, Bool.or_eq_true, decide_eq_true_eq, beq_iff_eq]
    exact ⟨⟨Or.inr (by exact_mod_cast t1), t2⟩, Or.inr t3⟩
  · exfalso
    have e1 := roundX_long_sys_fst c z true hz hp1 (by omega) (by omega)
    exact same e1 (by omega)


theorem step_noSys (e : ED) (cur : Dec) (op : Ctx → Out) (htr : e.c.traps = defaultTraps)
    (hnf : (e.step cur op).1.failed = false) :
    e.failed = false ∧ NoSys (op e.c).fl ∧ (e.step cur op).2 = (op e.c).d := by
  cases hf : e.failed with
  | true => rw [ed_skip _ _ _ hf, hf] at hnf; cases hnf
  | false =>
    rw [ed_run _ _ _ hf] at hnf ⊢
    rw [failed_false_iff] at hnf
    simp only [htr] at hnf
    exact ⟨rfl, (goError_default_none _ _ hnf.2).1, rfl⟩

theorem fits_failOut (c : Ctx) (hc : c.WF) (e : ErrKind) : fits c (failOut e).d = true := by
  obtain ⟨hp1, hpe, _, _, _⟩ := hc
  have hnd0 : ndigits 0 = 1 := rfl
  simp [failOut, fits, hnd0]
  omega

theorem fits_congr (c c' : Ctx) (d d' : Dec) (hp : c'.prec = c.prec) (hx : c'.emax = c.emax) (hn : c'.emin = c.emin)
    (hf : d'.form = d.form) (he : d'.exp = d.exp) (hc : d'.coeff = d.coeff) : fits c' d' = fits c d := by
  unfold fits; rw [hp, hx, hn, hf, he, hc]

theorem fits_neg (c c' : Ctx) (d : Dec) (n : Bool) (hp : c'.prec = c.prec) (hx : c'.emax = c.emax) (hn : c'.emin = c.emin) :
    fits c { d with neg := n } = fits c' d :=
  fits_congr c' c _ _ hp.symm hx.symm hn.symm rfl rfl rfl

theorem cbrtCheck_fits (c : Ctx) (hc : c.WF) (x z : Dec) (fl5 t : Cond)
    (hzd : z.form = .finite → ndigits z.coeff ≤ c.prec * 2 + 2)
    (he : (cbrtCheck t c.prec x z fl5 (ctxRound { c with mode := .halfEven } z)).err = .none ∨
          (cbrtCheck t c.prec x z fl5 (ctxRound { c with mode := .halfEven } z)).err = .trap)
    (hf : (cbrtCheck t c.prec x z fl5 (ctxRound { c with mode := .halfEven } z)).d.form = .finite) :
    fits c (cbrtCheck t c.prec x z fl5 (ctxRound { c with mode := .halfEven } z)).d = true := by
  have hc' : ({ c with mode := .halfEven } : Ctx).WF := hc
  generalize hcc : ({ c with mode := .halfEven } : Ctx) = c' at *
  have hpp : c'.prec = c.prec := by rw [← hcc]
  have hpx : c'.emax = c.emax := by rw [← hcc]
  have hpn : c'.emin = c.emin := by rw [← hcc]
  unfold cbrtCheck at he hf ⊢
  simp only [] at he hf ⊢
  split_ifs at he hf ⊢ with hq hcmp
  · exact fits_failOut c hc _
  · -- the exact branch
    simp only [] at hf ⊢
    have zfin : z.form = .finite := by
      by_contra hnf
      rw [ctxRound_nonfinite c' z hnf] at hf
      exact hnf hf
    rw [fits_neg c c' _ x.neg hpp hpx hpn]
    by_cases hns : NoSys (ctxRound c' z).2
    · exact (C01_roundCore c' hc' z zfin hns).2.2
    · have hq' := Bool.eq_false_iff.2 hq
      obtain ⟨a1, a2, a3⟩ := step_noSys _ _ _ (by rw [step_c]; rfl) hq'
      obtain ⟨b1, b2, b3⟩ := step_noSys _ _ _ rfl a1
      rw [step_c, b3] at a2
      apply round_sys_cube c' hc' z x.neg zfin (by rw [hpp]; exact hzd zfin) hns
      · rw [hpp]; exact b2
      · rw [hpp]; exact a2
  · simp only [] at he hf ⊢
    have zfin : z.form = .finite := by
      by_contra hnf
      rw [ctxRound_nonfinite c' z hnf] at hf
      exact hnf hf
    rw [fits_neg c c' _ x.neg hpp hpx hpn]
    exact (C01_roundCore c' hc' z zfin (Apd.noSys_of_delivered _ _ he)).2.2


/-- C07 for Cbrt -/
theorem cbrt_fits (c : Ctx) (hc : c.WF) (x : Dec) (o : Out) (ho : cbrtOp c x = some o)
    (he : o.err = .none ∨ o.err = .trap) (hf : o.d.form = .finite) (hx : x.form = .finite) (h0 : x.coeff ≠ 0) :
    fits c o.d = true := by
  rw [cbrtOp_eq, rootSpecials3_none c x hx h0] at ho
  simp only [] at ho
  rcases cbrtK_some _ _ _ _ _ ho with ⟨er, rfl⟩ | ⟨z, fl, rfl, hzd⟩
  · exact fits_failOut c hc er
  · exact cbrtCheck_fits c hc x z fl c.traps hzd he hf

/-- C07 for the integer path of Pow -/
theorem powInt_fits (c : Ctx) (hc : c.WF) (x y : Dec) (o : Out) (ho : powIntOp c x y = some o)
    (hs : powSpecials c x y = none)
    (he : o.err = .none ∨ (o.err = .trap ∧ (o.fl &&& c.traps).any = true)) (hf : o.d.form = .finite) :
    fits c o.d = true := by
  unfold powIntOp at ho
  rw [hs] at ho
  simp only [] at ho
  generalize (integerPower _ x _) = ip at ho
  generalize (quantizeCore c (modf y).1 0).2 = qf at ho
  split_ifs at ho with h1 h2
  · injection ho with ho; subst ho; simp [decNaN] at hf
  · injection ho with ho; subst ho
    simp only [finish] at he hf ⊢
    have hd : Delivered (goError c.traps (qf ||| ip.2.1 ||| (ctxRound c ip.1).2)) := by
      rcases he with h | h
      · exact Or.inl h
      · exact Or.inr h.1
    have hns := (MulL.noSys_or.1 (Apd.noSys_of_delivered _ _ hd)).2
    by_cases hfin : ip.1.form = .finite
    · exact (C01_roundCore c hc ip.1 hfin hns).2.2
    · rw [ctxRound_nonfinite c ip.1 hfin] at hf
      exact absurd hf hfin

end Apd.C07R
