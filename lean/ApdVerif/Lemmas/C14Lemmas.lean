import ApdVerif.Lemmas.C13Lemmas
/-!
# Lemmas for C14 (b): the parser accepts exactly the numeric-string grammar
-/
namespace Apd.GramL
open Apd Apd.Text Apd.TextL Apd.Spec

/-! ## `Char.toLower` through code points -/

theorem toLower_toNat (c : Char) :
    c.toLower.toNat = if 65 ≤ c.toNat ∧ c.toNat ≤ 90 then c.toNat + 32 else c.toNat := by
  unfold Char.toLower
  have h1 : c.val.toNat = c.toNat := rfl
  split
  · rename_i hh
    obtain ⟨a, b⟩ := hh
    have a' : 'A'.val.toNat ≤ c.val.toNat := a
    have b' : c.val.toNat ≤ 'Z'.val.toNat := b
    simp at a' b'
    rw [Char.toNat_mk, UInt32.toNat_add]
    simp
    rw [if_pos ⟨a', b'⟩]
    omega
  · rename_i hh
    have : ¬ (65 ≤ c.toNat ∧ c.toNat ≤ 90) := by
      intro ⟨a, b⟩
      apply hh
      constructor
      · show 'A'.val.toNat ≤ c.val.toNat
        simp; exact a
      · show c.val.toNat ≤ 'Z'.val.toNat
        simp; exact b
    rw [if_neg this]

/-- a character that is not a lower-case ASCII letter is the image only of itself -/
theorem toLower_eq_nonletter {c x : Char} (h : c.toLower = x) (hx : ¬ (97 ≤ x.toNat ∧ x.toNat ≤ 122)) : c = x := by
  have := toLower_toNat c
  rw [h] at this
  apply Char.toNat_inj.mp
  split at this <;> omega

theorem toLower_eq_e {c : Char} : c.toLower = 'e' ↔ (c = 'e' ∨ c = 'E') := by
  constructor
  · intro h
    have := toLower_toNat c
    rw [h] at this
    have he : ('e' : Char).toNat = 101 := by decide
    rw [he] at this
    split at this
    · right; apply Char.toNat_inj.mp; show c.toNat = 69; omega
    · left; apply Char.toNat_inj.mp; show c.toNat = 101; omega
  · rintro (rfl | rfl) <;> decide

theorem nonletter_of_isDigit {x : Char} (h : x.isDigit = true) : ¬ (97 ≤ x.toNat ∧ x.toNat ≤ 122) := by
  have := Char.isDigit_iff_toNat.mp h
  simp at this
  omega

/-- digits, the point and the signs -/
def Plain (s : List Char) : Prop := ∀ c ∈ s, ¬ (97 ≤ c.toNat ∧ c.toNat ≤ 122)

theorem asciiLower_eq_plain {s s' : List Char} (h : asciiLower s = s') (hp : Plain s') : s = s' := by
  unfold Text.asciiLower at h
  induction s generalizing s' with
  | nil => simpa using h
  | cons c t ih =>
    cases s' with
    | nil => simp at h
    | cons c' t' =>
      simp only [List.map_cons, List.cons.injEq] at h
      have h1 := toLower_eq_nonletter h.1 (hp c' (by simp))
      have h2 := ih h.2 (fun x hx => hp x (by simp [hx]))
      rw [h1, h2]

theorem _root_.Apd.TextL.Digs.plain {s : List Char} (h : Digs s) : Plain s := fun c hc => nonletter_of_isDigit (h c hc)

theorem Plain.append {a b : List Char} (ha : Plain a) (hb : Plain b) : Plain (a ++ b) := by
  intro c hc; rcases List.mem_append.mp hc with h | h
  · exact ha c h
  · exact hb c h

theorem Plain.cons {c : Char} {a : List Char} (hc : ¬ (97 ≤ c.toNat ∧ c.toNat ≤ 122)) (ha : Plain a) : Plain (c :: a) := by
  intro x hx; rcases List.mem_cons.mp hx with h | h
  · rw [h]; exact hc
  · exact ha x h

theorem Plain.nil : Plain [] := by intro c hc; simp at hc

/-! ## the meaning of the grammar combinators -/

theorem seq_iff (p q : Lang) (s : List Char) :
    seq p q s = true ↔ ∃ a b, s = a ++ b ∧ p a = true ∧ q b = true := by
  unfold seq
  rw [List.any_eq_true]
  constructor
  · rintro ⟨i, _, hi⟩
    rw [Bool.and_eq_true] at hi
    exact ⟨s.take i, s.drop i, (List.take_append_drop i s).symm, hi.1, hi.2⟩
  · rintro ⟨a, b, rfl, ha, hb⟩
    refine ⟨a.length, ?_, ?_⟩
    · rw [List.mem_range]; simp; omega
    · simp [ha, hb]

theorem alt_iff (p q : Lang) (s : List Char) : alt p q s = true ↔ (p s = true ∨ q s = true) := by
  simp [alt]

theorem opt_iff (p : Lang) (s : List Char) : opt p s = true ↔ (s = [] ∨ p s = true) := by
  simp [opt]

theorem chr_iff (c : Char) (s : List Char) : chr c s = true ↔ s = [c] := by
  simp [chr]

theorem anyCase_iff (w s : List Char) : anyCase w s = true ↔ asciiLower s = w := by
  simp [anyCase, Text.asciiLower]

theorem digit_iff (c : Char) : digit [c] = true ↔ c.isDigit = true := by
  simp only [digit, Char.isDigit, Bool.and_eq_true, decide_eq_true_eq, Char.le_def, ge_iff_le]

theorem digits_iff (s : List Char) : digits s = true ↔ (s ≠ [] ∧ Digs s) := by
  unfold digits Digs
  rw [Bool.and_eq_true, List.all_eq_true]
  simp only [digit_iff]
  simp

/-- `[sign]` -/
def OptSign (sg : List Char) : Prop := sg = [] ∨ sg = ['+'] ∨ sg = ['-']

theorem optSign_iff (s : List Char) : opt sign s = true ↔ OptSign s := by
  simp [opt_iff, sign, alt_iff, chr_iff, OptSign]

/-- `[digits]` -/
theorem optDigits_iff (s : List Char) : opt digits s = true ↔ Digs s := by
  rw [opt_iff, digits_iff]
  constructor
  · rintro (rfl | ⟨_, h⟩)
    · exact Digs.nil
    · exact h
  · intro h
    by_cases hs : s = []
    · exact Or.inl hs
    · exact Or.inr ⟨hs, h⟩

/-- decimal-part: digits with at most one point and at least one digit -/
def DecPart (m : List Char) : Prop :=
  (m ≠ [] ∧ Digs m) ∨ (∃ a b, m = a ++ '.' :: b ∧ Digs a ∧ Digs b ∧ a ++ b ≠ [])

theorem decimalPart_iff (m : List Char) : decimalPart m = true ↔ DecPart m := by
  unfold decimalPart DecPart
  simp only [alt_iff, seq_iff]
  simp only [optDigits_iff]
  simp only [chr_iff, digits_iff, opt_iff]
  constructor
  · rintro (⟨a, r, rfl, ⟨ha1, ha2⟩, p, b, rfl, rfl, hb⟩ | ⟨p, b, rfl, hp, hb1, hb2⟩)
    · right; exact ⟨a, b, by simp, ha2, hb, by simp [ha1]⟩
    · rcases hp with rfl | rfl
      · left; exact ⟨by simpa using hb1, by simpa using hb2⟩
      · right; exact ⟨[], b, by simp, Digs.nil, hb2, by simpa using hb1⟩
  · rintro (⟨h1, h2⟩ | ⟨a, b, rfl, ha, hb, hne⟩)
    · right; exact ⟨[], m, by simp, Or.inl rfl, h1, h2⟩
    · by_cases ha0 : a = []
      · subst ha0
        right; exact ⟨['.'], b, by simp, Or.inr rfl, by simpa using hne, hb⟩
      · left; exact ⟨a, '.' :: b, rfl, ⟨ha0, ha⟩, ['.'], b, by simp, rfl, hb⟩

/-- exponent-part -/
def ExpPart (x : List Char) : Prop :=
  ∃ i esg eds, x = i :: (esg ++ eds) ∧ (i = 'e' ∨ i = 'E') ∧ OptSign esg ∧ eds ≠ [] ∧ Digs eds

theorem exponentPart_iff (x : List Char) : exponentPart x = true ↔ ExpPart x := by
  unfold exponentPart ExpPart indicator
  simp only [alt_iff, seq_iff]
  simp only [optSign_iff]
  simp only [chr_iff, digits_iff]
  constructor
  · rintro ⟨a, r, rfl, ha, esg, eds, rfl, hs, hd⟩
    rcases ha with rfl | rfl
    · exact ⟨'e', esg, eds, by simp, Or.inl rfl, hs, hd⟩
    · exact ⟨'E', esg, eds, by simp, Or.inr rfl, hs, hd⟩
  · rintro ⟨i, esg, eds, rfl, hi, hs, hd⟩
    refine ⟨[i], esg ++ eds, by simp, ?_, esg, eds, rfl, hs, hd⟩
    rcases hi with rfl | rfl
    · exact Or.inl rfl
    · exact Or.inr rfl

def FinBody (t : List Char) : Prop := ∃ m x, t = m ++ x ∧ DecPart m ∧ (x = [] ∨ ExpPart x)
def InfBody (t : List Char) : Prop :=
  asciiLower t = ['i', 'n', 'f', 'i', 'n', 'i', 't', 'y'] ∨ asciiLower t = ['i', 'n', 'f']
def NanBody (t : List Char) : Prop :=
  ∃ a b, t = a ++ b ∧ (asciiLower a = ['n', 'a', 'n'] ∨ asciiLower a = ['s', 'n', 'a', 'n']) ∧ Digs b

theorem numericString_iff (l : List Char) :
    numericString l = true ↔ ∃ sg t, l = sg ++ t ∧ OptSign sg ∧ (FinBody t ∨ InfBody t ∨ NanBody t) := by
  unfold numericString numericValue Spec.nan infinity FinBody InfBody NanBody
  simp only [alt_iff, seq_iff]
  simp only [optSign_iff, optDigits_iff]
  simp only [anyCase_iff, decimalPart_iff, opt_iff, exponentPart_iff]
  constructor
  · rintro (⟨sg, t, rfl, hs, h⟩ | ⟨sg, t, rfl, hs, h⟩)
    · refine ⟨sg, t, rfl, hs, ?_⟩
      rcases h with h | h
      · exact Or.inl h
      · exact Or.inr (Or.inl h)
    · refine ⟨sg, t, rfl, hs, Or.inr (Or.inr ?_)⟩
      rcases h with ⟨a, b, rfl, ha, hb⟩ | ⟨a, b, rfl, ha, hb⟩
      · exact ⟨a, b, rfl, Or.inl ha, hb⟩
      · exact ⟨a, b, rfl, Or.inr ha, hb⟩
  · rintro ⟨sg, t, rfl, hs, h | h | ⟨a, b, rfl, ha | ha, hb⟩⟩
    · exact Or.inl ⟨sg, t, rfl, hs, Or.inl h⟩
    · exact Or.inl ⟨sg, t, rfl, hs, Or.inr h⟩
    · exact Or.inr ⟨sg, _, rfl, hs, Or.inl ⟨a, b, rfl, ha, hb⟩⟩
    · exact Or.inr ⟨sg, _, rfl, hs, Or.inr ⟨a, b, rfl, ha, hb⟩⟩

/-! ## the parser, stage by stage -/

/-- `parseL` after the sign has been split off and the rest lower-cased -/
def parseBody (neg : Bool) (s : List Char) : Option (Dec × Int) :=
  if startsWithSign s then none
  else if s = ['i', 'n', 'f', 'i', 'n', 'i', 't', 'y'] ∨ s = ['i', 'n', 'f'] then
    some ({ form := .infinite, neg := neg, exp := 0, coeff := 0 }, 0)
  else
    match consumePrefix ['n', 'a', 'n'] s with
    | some t =>
      if t.all Char.isDigit then some ({ form := .nan, neg := neg, exp := 0, coeff := 0 }, 0) else none
    | none =>
      match consumePrefix ['s', 'n', 'a', 'n'] s with
      | some t =>
        if t.all Char.isDigit then some ({ form := .nanSignaling, neg := neg, exp := 0, coeff := 0 }, 0) else none
      | none => parseNumeric neg s

theorem parseL_eq (l : List Char) : parseL l = parseBody (splitSign l).1 (asciiLower (splitSign l).2) := rfl

theorem splitSign_spec (l : List Char) : ∃ sg, l = sg ++ (splitSign l).2 ∧ OptSign sg := by
  unfold splitSign
  cases h1 : consumePrefix ['-'] l with
  | some t =>
    rw [consumePrefix_eq_some] at h1
    exact ⟨['-'], h1, Or.inr (Or.inr rfl)⟩
  | none =>
    cases h2 : consumePrefix ['+'] l with
    | some t =>
      rw [consumePrefix_eq_some] at h2
      exact ⟨['+'], h2, Or.inr (Or.inl rfl)⟩
    | none => exact ⟨[], rfl, Or.inl rfl⟩

theorem splitAtFirst_some {c : Char} {s a b : List Char} (h : splitAtFirst c s = some (a, b)) :
    s = a ++ c :: b ∧ c ∉ a := by
  induction s generalizing a with
  | nil => simp [splitAtFirst] at h
  | cons x xs ih =>
    simp only [splitAtFirst] at h
    by_cases hx : x = c
    · simp [hx] at h
      obtain ⟨rfl, rfl⟩ := h
      simp [hx]
    · simp only [hx, if_false] at h
      cases h2 : splitAtFirst c xs with
      | none => simp [h2] at h
      | some ab =>
        obtain ⟨a', b'⟩ := ab
        simp [h2] at h
        obtain ⟨rfl, rfl⟩ := h
        obtain ⟨e1, e2⟩ := ih h2
        constructor
        · simp [e1]
        · simp [e2]; exact fun e => hx e.symm

theorem allDigits_iff (s : List Char) : allDigits s = true ↔ (s ≠ [] ∧ Digs s) := by
  unfold Text.allDigits Digs
  rw [Bool.and_eq_true, List.all_eq_true]
  simp

theorem _root_.Apd.TextL.Digs.of_append_left {a b : List Char} (h : Digs (a ++ b)) : Digs a := fun c hc => h c (by simp [hc])
theorem _root_.Apd.TextL.Digs.of_append_right {a b : List Char} (h : Digs (a ++ b)) : Digs b := fun c hc => h c (by simp [hc])

theorem finishMant_some_decPart {neg : Bool} {m : List Char} {x : Int} (h : (finishMant neg m x).isSome = true) :
    DecPart m := by
  unfold finishMant at h
  cases hs : splitAtFirst '.' m with
  | none =>
    simp only [hs] at h
    split at h
    · simp at h
    · split at h
      · rename_i hd
        rw [allDigits_iff] at hd
        exact Or.inl hd
      · simp at h
  | some ab =>
    obtain ⟨a, b⟩ := ab
    simp only [hs] at h
    obtain ⟨e1, _⟩ := splitAtFirst_some hs
    split at h
    · simp at h
    · split at h
      · rename_i hd
        rw [allDigits_iff] at hd
        exact Or.inr ⟨a, b, e1, hd.2.of_append_left, hd.2.of_append_right, hd.1⟩
      · simp at h

theorem DecPart.finishMant_isSome {m : List Char} (h : DecPart m) (neg : Bool) (x : Int) :
    (finishMant neg m x).isSome = true := by
  rcases h with ⟨h1, h2⟩ | ⟨a, b, rfl, ha, hb, hne⟩
  · rw [finishMant_nodot neg x h2 h1]; rfl
  · rw [finishMant_dot neg x ha hb hne]; rfl

/-- the value of `[sign] digits` -/
def signedVal (esg eds : List Char) : Int :=
  if esg = ['-'] then -(digitsVal eds : Int) else (digitsVal eds : Int)

theorem _root_.Apd.TextL.Digs.splitSign {eds : List Char} (h : Digs eds) : splitSign eds = (false, eds) := by
  cases eds with
  | nil => exact splitSign_nil
  | cons c t => exact splitSign_other t (digit_ne_minus h.head) (digit_ne_plus h.head)

theorem parseInt32_optSign {esg eds : List Char} (hs : OptSign esg) (hd : Digs eds) (hne : eds ≠ []) :
    parseInt32 (esg ++ eds) =
      if -2147483648 ≤ signedVal esg eds ∧ signedVal esg eds ≤ 2147483647 then some (signedVal esg eds) else none := by
  have had := hd.allDigits hne
  unfold parseInt32 signedVal
  rcases hs with rfl | rfl | rfl
  · simp only [List.nil_append, hd.splitSign, had, if_true]
    simp
  · simp only [List.singleton_append, splitSign_plus, had, if_true]
    simp
  · simp only [List.singleton_append, splitSign_minus, had, if_true]
    simp

theorem parseInt32_some {e : List Char} {x : Int} (h : parseInt32 e = some x) :
    ∃ esg eds, e = esg ++ eds ∧ OptSign esg ∧ eds ≠ [] ∧ Digs eds := by
  obtain ⟨sg, h1, h2⟩ := splitSign_spec e
  unfold parseInt32 at h
  simp only [] at h
  split at h
  · rename_i hd
    rw [allDigits_iff] at hd
    exact ⟨sg, (splitSign e).2, h1, h2, hd.1, hd.2⟩
  · simp at h

/-! ## direction 1: whatever the parser accepts is in the grammar -/

theorem DecPart.plain {m : List Char} (h : DecPart m) : Plain m := by
  rcases h with ⟨_, h2⟩ | ⟨a, b, rfl, ha, hb, _⟩
  · exact h2.plain
  · exact ha.plain.append (Plain.cons (by decide) hb.plain)

theorem OptSign.plain {sg : List Char} (h : OptSign sg) : Plain sg := by
  rcases h with rfl | rfl | rfl
  · exact Plain.nil
  · exact Plain.cons (by decide) Plain.nil
  · exact Plain.cons (by decide) Plain.nil

theorem asciiLower_eq_append {t a' b' : List Char} (h : asciiLower t = a' ++ b') :
    ∃ a b, t = a ++ b ∧ asciiLower a = a' ∧ asciiLower b = b' := by
  unfold Text.asciiLower at h ⊢
  exact List.map_eq_append_iff.mp h

theorem asciiLower_eq_cons {t : List Char} {c' : Char} {b' : List Char} (h : asciiLower t = c' :: b') :
    ∃ c b, t = c :: b ∧ c.toLower = c' ∧ asciiLower b = b' := by
  unfold Text.asciiLower at h ⊢
  exact List.map_eq_cons_iff.mp h

theorem parseNumeric_some_finBody {neg : Bool} {t : List Char}
    (h : (parseNumeric neg (asciiLower t)).isSome = true) : FinBody t := by
  rw [parseNumeric_eq] at h
  cases hs : splitAtFirst 'e' (asciiLower t) with
  | none =>
    simp only [hs] at h
    have hd := finishMant_some_decPart h
    have := asciiLower_eq_plain rfl hd.plain
    rw [← this] at hd
    exact ⟨t, [], by simp, hd, Or.inl rfl⟩
  | some me =>
    obtain ⟨m', e'⟩ := me
    simp only [hs] at h
    obtain ⟨e1, _⟩ := splitAtFirst_some hs
    cases hp : parseInt32 e' with
    | none => simp [hp] at h
    | some x =>
      simp only [hp] at h
      have hd := finishMant_some_decPart h
      obtain ⟨esg, eds, rfl, hsg, hne, hds⟩ := parseInt32_some hp
      obtain ⟨m, r, rfl, hm, hr⟩ := asciiLower_eq_append e1
      obtain ⟨i, e, rfl, hi, he⟩ := asciiLower_eq_cons hr
      have hm' := asciiLower_eq_plain hm hd.plain
      have he' := asciiLower_eq_plain he (hsg.plain.append hds.plain)
      subst hm' he'
      exact ⟨m, i :: (esg ++ eds), rfl, hd, Or.inr ⟨i, esg, eds, rfl, toLower_eq_e.mp hi, hsg, hne, hds⟩⟩

theorem parseBody_some_body {neg : Bool} {t : List Char}
    (h : (parseBody neg (asciiLower t)).isSome = true) : FinBody t ∨ InfBody t ∨ NanBody t := by
  unfold parseBody at h
  split at h
  · simp at h
  · split at h
    · rename_i hi
      exact Or.inr (Or.inl hi)
    · cases h1 : consumePrefix ['n', 'a', 'n'] (asciiLower t) with
      | some r =>
        simp only [h1] at h
        split at h
        · rename_i hr
          rw [consumePrefix_eq_some] at h1
          obtain ⟨a, b, rfl, ha, hb⟩ := asciiLower_eq_append h1
          have hb' := asciiLower_eq_plain hb (Digs.of_all hr).plain
          subst hb'
          exact Or.inr (Or.inr ⟨a, b, rfl, Or.inl ha, Digs.of_all hr⟩)
        · simp at h
      | none =>
        simp only [h1] at h
        cases h2 : consumePrefix ['s', 'n', 'a', 'n'] (asciiLower t) with
        | some r =>
          simp only [h2] at h
          split at h
          · rename_i hr
            rw [consumePrefix_eq_some] at h2
            obtain ⟨a, b, rfl, ha, hb⟩ := asciiLower_eq_append h2
            have hb' := asciiLower_eq_plain hb (Digs.of_all hr).plain
            subst hb'
            exact Or.inr (Or.inr ⟨a, b, rfl, Or.inr ha, Digs.of_all hr⟩)
          · simp at h
        | none =>
          simp only [h2] at h
          exact Or.inl (parseNumeric_some_finBody h)

theorem parseL_some_numericString {l : List Char} (h : (parseL l).isSome = true) : numericString l = true := by
  rw [numericString_iff]
  obtain ⟨sg, h1, h2⟩ := splitSign_spec l
  rw [parseL_eq] at h
  exact ⟨sg, (splitSign l).2, h1, h2, parseBody_some_body h⟩

/-! ## direction 2: on a string of the grammar the parser fails only on the exponent range -/

/-- no indicator character -/
def NoE (s : List Char) : Prop := ∀ c ∈ s, c ≠ 'e' ∧ c ≠ 'E'

theorem NoE.append {a b : List Char} (ha : NoE a) (hb : NoE b) : NoE (a ++ b) := by
  intro c hc; rcases List.mem_append.mp hc with h | h
  · exact ha c h
  · exact hb c h
theorem NoE.nil : NoE [] := by intro c hc; simp at hc
theorem NoE.cons {c : Char} {a : List Char} (h1 : c ≠ 'e') (h2 : c ≠ 'E') (ha : NoE a) : NoE (c :: a) := by
  intro x hx; rcases List.mem_cons.mp hx with h | h
  · rw [h]; exact ⟨h1, h2⟩
  · exact ha x h
theorem NoE.not_mem {a : List Char} (h : NoE a) : 'e' ∉ a := fun hm => (h _ hm).1 rfl

theorem _root_.Apd.TextL.Digs.noE {s : List Char} (h : Digs s) : NoE s :=
  fun c hc => ⟨isDigit_ne (h c hc) (by decide), isDigit_ne (h c hc) (by decide)⟩

theorem OptSign.noE {sg : List Char} (h : OptSign sg) : NoE sg := by
  rcases h with rfl | rfl | rfl
  · exact NoE.nil
  · exact NoE.cons (by decide) (by decide) NoE.nil
  · exact NoE.cons (by decide) (by decide) NoE.nil

theorem DecPart.noE {m : List Char} (h : DecPart m) : NoE m := by
  rcases h with ⟨_, h2⟩ | ⟨a, b, rfl, ha, hb, _⟩
  · exact h2.noE
  · exact ha.noE.append (NoE.cons (by decide) (by decide) hb.noE)

theorem noE_of_lower {t w : List Char} (h : asciiLower t = w) (hw : 'e' ∉ w) : NoE t := by
  intro c hc
  have hm : c.toLower ∈ w := by
    rw [← h]; unfold Text.asciiLower; exact List.mem_map_of_mem hc
  constructor
  · rintro rfl; exact hw hm
  · rintro rfl; exact hw hm

theorem noE_pred {a : List Char} (h : NoE a) : ∀ c ∈ a, (c != 'e' && c != 'E') = true := by
  intro c hc
  simp [(h c hc).1, (h c hc).2]

theorem afterIndicator_noE {s : List Char} (h : NoE s) : afterIndicator s = none := by
  unfold afterIndicator
  have : s.dropWhile (fun c => c != 'e' && c != 'E') = [] := by
    have := List.dropWhile_append_of_pos (p := fun c => c != 'e' && c != 'E') (l₂ := []) (noE_pred h)
    simpa using this
  rw [this]

theorem afterIndicator_append {a : List Char} {i : Char} (r : List Char) (h : NoE a) (hi : i = 'e' ∨ i = 'E') :
    afterIndicator (a ++ i :: r) = some r := by
  unfold afterIndicator
  have : (a ++ i :: r).dropWhile (fun c => c != 'e' && c != 'E') = i :: r := by
    rw [List.dropWhile_append_of_pos (p := fun c => c != 'e' && c != 'E') (noE_pred h)]
    apply List.dropWhile_cons_of_neg
    rcases hi with rfl | rfl <;> decide
  rw [this]

theorem digitsValue_eq (s : List Char) : Spec.digitsValue s = digitsVal s := rfl

theorem writtenExp_noE {s : List Char} (h : NoE s) : writtenExp s = 0 := by
  unfold writtenExp; rw [afterIndicator_noE h]

theorem writtenExp_of_after {s esg eds : List Char} (h : afterIndicator s = some (esg ++ eds))
    (hs : OptSign esg) (hd : Digs eds) (hne : eds ≠ []) : writtenExp s = signedVal esg eds := by
  unfold writtenExp signedVal
  rw [h]
  rcases hs with rfl | rfl | rfl
  · cases eds with
    | nil => exact absurd rfl hne
    | cons c r =>
      have h1 := digit_ne_minus hd.head
      have h2 := digit_ne_plus hd.head
      simp only [List.nil_append]
      split
      · rename_i heq; simp at heq
      · rename_i heq; simp at heq; exact absurd heq.1 h1
      · rename_i heq; simp at heq; exact absurd heq.1 h2
      · rename_i heq; simp at heq; subst heq; simp [digitsValue_eq]
  · simp [digitsValue_eq]
  · simp [digitsValue_eq]

/-- every character is its own lower case -/
def Fixed (s : List Char) : Prop := ∀ c ∈ s, c.toLower = c

theorem Fixed.asciiLower {s : List Char} (h : Fixed s) : asciiLower s = s := asciiLower_fixed h
theorem _root_.Apd.TextL.Digs.fixed {s : List Char} (h : Digs s) : Fixed s := fun c hc => isDigit_toLower (h c hc)
theorem Fixed.append {a b : List Char} (ha : Fixed a) (hb : Fixed b) : Fixed (a ++ b) := by
  intro c hc; rcases List.mem_append.mp hc with h | h
  · exact ha c h
  · exact hb c h
theorem Fixed.cons {c : Char} {a : List Char} (hc : c.toLower = c) (ha : Fixed a) : Fixed (c :: a) := by
  intro x hx; rcases List.mem_cons.mp hx with h | h
  · rw [h]; exact hc
  · exact ha x h
theorem Fixed.nil : Fixed [] := by intro c hc; simp at hc
theorem OptSign.fixed {sg : List Char} (h : OptSign sg) : Fixed sg := by
  rcases h with rfl | rfl | rfl
  · exact Fixed.nil
  · exact Fixed.cons (by decide) Fixed.nil
  · exact Fixed.cons (by decide) Fixed.nil
theorem DecPart.fixed {m : List Char} (h : DecPart m) : Fixed m := by
  rcases h with ⟨_, h2⟩ | ⟨a, b, rfl, ha, hb, _⟩
  · exact h2.fixed
  · exact ha.fixed.append (Fixed.cons (by decide) hb.fixed)

/-- the first character is not a sign -/
def HeadOK (t : List Char) : Prop := ∃ c r, t = c :: r ∧ c ≠ '+' ∧ c ≠ '-'

theorem splitSign_optSign {sg t : List Char} (hs : OptSign sg) (ht : HeadOK t) :
    splitSign (sg ++ t) = (decide (sg = ['-']), t) := by
  obtain ⟨c, r, rfl, h1, h2⟩ := ht
  rcases hs with rfl | rfl | rfl
  · simpa using splitSign_other r h2 h1
  · simpa using splitSign_plus (c :: r)
  · simpa using splitSign_minus (c :: r)

theorem DecPart.head {m : List Char} (h : DecPart m) : ∃ c r, m = c :: r ∧ (c.isDigit = true ∨ c = '.') := by
  rcases h with ⟨h1, h2⟩ | ⟨a, b, rfl, ha, hb, _⟩
  · cases m with
    | nil => exact absurd rfl h1
    | cons c r => exact ⟨c, r, rfl, Or.inl h2.head⟩
  · cases a with
    | nil => exact ⟨'.', b, rfl, Or.inr rfl⟩
    | cons c r => exact ⟨c, r ++ '.' :: b, rfl, Or.inl ha.head⟩

theorem parseBody_numeric (neg : Bool) {c : Char} (r : List Char)
    (h1 : c ≠ '+') (h2 : c ≠ '-') (h3 : c ≠ 'i') (h4 : c ≠ 'n') (h5 : c ≠ 's') :
    parseBody neg (c :: r) = parseNumeric neg (c :: r) := by
  unfold parseBody
  rw [startsWithSign_other _ h2 h1]
  simp [h3, consumePrefix_cons_ne _ _ h4.symm, consumePrefix_cons_ne _ _ h5.symm]

theorem finBody_parse {neg : Bool} {t : List Char} (h : FinBody t) (pre : List Char) (hpre : NoE pre) :
    (parseBody neg (asciiLower t)).isSome = true ↔
      (-2147483648 ≤ writtenExp (pre ++ t) ∧ writtenExp (pre ++ t) ≤ 2147483647) := by
  obtain ⟨m, x, rfl, hm, hx⟩ := h
  obtain ⟨c, r, hcr, hc⟩ := hm.head
  have hne : ∀ y : Char, y.isDigit = false → y ≠ '.' → c ≠ y := by
    intro y hy hy2
    rcases hc with hc | rfl
    · exact isDigit_ne hc hy
    · exact fun e => hy2 e.symm
  have hbody : ∀ z, parseBody neg (m ++ z) = parseNumeric neg (m ++ z) := by
    intro z
    rw [hcr]
    exact parseBody_numeric neg _ (hne _ (by decide) (by decide)) (hne _ (by decide) (by decide))
      (hne _ (by decide) (by decide)) (hne _ (by decide) (by decide)) (hne _ (by decide) (by decide))
  rw [asciiLower_append, hm.fixed.asciiLower]
  rcases hx with rfl | ⟨i, esg, eds, rfl, hi, hsg, hne', hds⟩
  · have : asciiLower [] = [] := rfl
    rw [this, hbody, List.append_nil, parseNumeric_noexp neg hm.noE.not_mem,
      writtenExp_noE (hpre.append hm.noE)]
    simp [hm.finishMant_isSome neg 0]
  · have hil : i.toLower = 'e' := toLower_eq_e.mpr hi
    rw [asciiLower_cons, hil, (hsg.fixed.append hds.fixed).asciiLower, hbody,
      parseNumeric_exp neg _ hm.noE.not_mem, parseInt32_optSign hsg hds hne']
    have hw : writtenExp (pre ++ (m ++ i :: (esg ++ eds))) = signedVal esg eds := by
      rw [← List.append_assoc]
      exact writtenExp_of_after (afterIndicator_append _ (hpre.append hm.noE) hi) hsg hds hne'
    rw [hw]
    by_cases hr : -2147483648 ≤ signedVal esg eds ∧ signedVal esg eds ≤ 2147483647
    · simp only [hr, and_self, if_true, hm.finishMant_isSome neg _]
    · simp only [hr, if_false]
      simp

theorem infBody_parse {neg : Bool} {t : List Char} (h : InfBody t) : (parseBody neg (asciiLower t)).isSome = true := by
  rcases h with h | h <;> rw [h] <;> cases neg <;> rfl

theorem infBody_noE {t : List Char} (h : InfBody t) : NoE t := by
  rcases h with h | h
  · exact noE_of_lower h (by decide)
  · exact noE_of_lower h (by decide)

theorem nanBody_parse {neg : Bool} {t : List Char} (h : NanBody t) : (parseBody neg (asciiLower t)).isSome = true := by
  obtain ⟨a, b, rfl, ha, hb⟩ := h
  rw [asciiLower_append, hb.fixed.asciiLower]
  unfold parseBody
  rcases ha with ha | ha
  · rw [ha]
    simp [startsWithSign, consumePrefix, hb.all]
  · rw [ha]
    simp [startsWithSign, consumePrefix, hb.all]

theorem nanBody_noE {t : List Char} (h : NanBody t) : NoE t := by
  obtain ⟨a, b, rfl, ha, hb⟩ := h
  rcases ha with ha | ha
  · exact (noE_of_lower ha (by decide)).append hb.noE
  · exact (noE_of_lower ha (by decide)).append hb.noE

theorem headOK_of_lower {t : List Char} {c' : Char} {w : List Char} (h : asciiLower t = c' :: w)
    (h1 : c' ≠ '+') (h2 : c' ≠ '-') : HeadOK t := by
  obtain ⟨c, b, rfl, hc, _⟩ := asciiLower_eq_cons h
  refine ⟨c, b, rfl, ?_, ?_⟩
  · rintro rfl; exact h1 hc.symm
  · rintro rfl; exact h2 hc.symm

theorem body_headOK {t : List Char} (h : FinBody t ∨ InfBody t ∨ NanBody t) : HeadOK t := by
  rcases h with ⟨m, x, rfl, hm, _⟩ | h | ⟨a, b, rfl, ha, _⟩
  · obtain ⟨c, r, rfl, hc⟩ := hm.head
    refine ⟨c, r ++ x, rfl, ?_, ?_⟩
    · rcases hc with hc | rfl
      · exact digit_ne_plus hc
      · decide
    · rcases hc with hc | rfl
      · exact digit_ne_minus hc
      · decide
  · rcases h with h | h
    · exact headOK_of_lower h (by decide) (by decide)
    · exact headOK_of_lower h (by decide) (by decide)
  · rcases ha with ha | ha
    · obtain ⟨c, r, rfl, hc, _⟩ := asciiLower_eq_cons ha
      refine ⟨c, r ++ b, rfl, ?_, ?_⟩
      · rintro rfl; exact absurd hc (by decide)
      · rintro rfl; exact absurd hc (by decide)
    · obtain ⟨c, r, rfl, hc, _⟩ := asciiLower_eq_cons ha
      refine ⟨c, r ++ b, rfl, ?_, ?_⟩
      · rintro rfl; exact absurd hc (by decide)
      · rintro rfl; exact absurd hc (by decide)

/-- the written exponent fits `strconv.ParseInt(_, 10, 32)` -/
def ExpInt32L (l : List Char) : Prop := -2147483648 ≤ writtenExp l ∧ writtenExp l ≤ 2147483647
instance (l : List Char) : Decidable (ExpInt32L l) := by unfold ExpInt32L; exact inferInstance

theorem numericString_parse {l : List Char} (h : numericString l = true) :
    (parseL l).isSome = true ↔ ExpInt32L l := by
  rw [numericString_iff] at h
  obtain ⟨sg, t, rfl, hsg, hb⟩ := h
  rw [parseL_eq, splitSign_optSign hsg (body_headOK hb)]
  simp only []
  unfold ExpInt32L
  rcases hb with hf | hi | hn
  · exact finBody_parse hf sg hsg.noE
  · rw [writtenExp_noE (hsg.noE.append (infBody_noE hi))]
    simp [infBody_parse hi]
  · rw [writtenExp_noE (hsg.noE.append (nanBody_noE hn))]
    simp [nanBody_parse hn]

theorem parseL_isSome_iff (l : List Char) :
    (parseL l).isSome = true ↔ (numericString l = true ∧ ExpInt32L l) := by
  constructor
  · intro h
    have hg := parseL_some_numericString h
    exact ⟨hg, (numericString_parse hg).mp h⟩
  · rintro ⟨hg, hr⟩
    exact (numericString_parse hg).mpr hr

/-! ## what the parser returns on a string of the grammar -/

/-- number of characters after the point -/
def fracOf (m : List Char) : Nat :=
  match m.dropWhile (· != '.') with
  | [] => 0
  | _ :: t => t.length

theorem digs_ne_dot {a : List Char} (h : Digs a) : ∀ c ∈ a, (c != '.') = true := by
  intro c hc
  have : c ≠ '.' := isDigit_ne (h c hc) (by decide)
  simp [this]

theorem fracOf_digs {m : List Char} (h : Digs m) : fracOf m = 0 := by
  unfold fracOf
  have := List.dropWhile_append_of_pos (p := (· != '.')) (l₂ := []) (digs_ne_dot h)
  simp at this
  rw [this]

theorem fracOf_dot {a : List Char} (b : List Char) (h : Digs a) : fracOf (a ++ '.' :: b) = b.length := by
  unfold fracOf
  rw [List.dropWhile_append_of_pos (p := (· != '.')) (digs_ne_dot h), List.dropWhile_cons_of_neg (by decide)]

theorem filter_digs {m : List Char} (h : Digs m) : m.filter (· != '.') = m :=
  List.filter_eq_self.mpr (digs_ne_dot h)

theorem filter_dot {a b : List Char} (ha : Digs a) (hb : Digs b) : (a ++ '.' :: b).filter (· != '.') = a ++ b := by
  rw [List.filter_append, filter_digs ha, List.filter_cons_of_neg (by decide), filter_digs hb]

theorem DecPart.finishMant_val {m : List Char} (h : DecPart m) (neg : Bool) (x : Int) :
    finishMant neg m x =
      some ({ form := .finite, neg := neg, exp := 0, coeff := digitsVal (m.filter (· != '.')) }, x - (fracOf m : Int)) := by
  rcases h with ⟨h1, h2⟩ | ⟨a, b, rfl, ha, hb, hne⟩
  · rw [finishMant_nodot neg x h2 h1, filter_digs h2, fracOf_digs h2]; simp
  · rw [finishMant_dot neg x ha hb hne, filter_dot ha hb, fracOf_dot b ha]

theorem takeWhile_noE {m : List Char} (x : List Char) (hm : NoE m) (hx : x = [] ∨ ExpPart x) :
    (m ++ x).takeWhile (fun c => c != 'e' && c != 'E') = m := by
  rw [List.takeWhile_append_of_pos (noE_pred hm)]
  rcases hx with rfl | ⟨i, esg, eds, rfl, hi, _⟩
  · simp
  · rw [List.takeWhile_cons_of_neg]
    · simp
    · rcases hi with rfl | rfl <;> decide

theorem beforeIndicator_eq {sg m x : List Char} (hs : OptSign sg) (hm : DecPart m) (hx : x = [] ∨ ExpPart x) :
    beforeIndicator (sg ++ (m ++ x)) = m := by
  unfold beforeIndicator
  rcases hs with rfl | rfl | rfl
  · obtain ⟨c, r, rfl, hc⟩ := hm.head
    have h1 : c ≠ '+' := by
      rcases hc with hc | rfl
      · exact digit_ne_plus hc
      · decide
    have h2 : c ≠ '-' := by
      rcases hc with hc | rfl
      · exact digit_ne_minus hc
      · decide
    simp only [List.nil_append, List.cons_append]
    split
    · rename_i heq; simp at heq; exact absurd heq.1 h1
    · rename_i heq; simp at heq; exact absurd heq.1 h2
    · rw [← List.cons_append]; exact takeWhile_noE x hm.noE hx
  · simp only [List.singleton_append]
    exact takeWhile_noE x hm.noE hx
  · simp only [List.singleton_append]
    exact takeWhile_noE x hm.noE hx

theorem finBody_parse_val {neg : Bool} {sg t : List Char} (hsg : OptSign sg) (h : FinBody t)
    (hr : ExpInt32L (sg ++ t)) :
    parseBody neg (asciiLower t) =
        some ({ form := .finite, neg := neg, exp := 0, coeff := coeffOf (sg ++ t) }, denotedExp (sg ++ t)) := by
  obtain ⟨m, x, rfl, hm, hx⟩ := h
  have hbi := beforeIndicator_eq hsg hm hx
  obtain ⟨c, r, hcr, hc⟩ := hm.head
  have hne : ∀ y : Char, y.isDigit = false → y ≠ '.' → c ≠ y := by
    intro y hy hy2
    rcases hc with hc | rfl
    · exact isDigit_ne hc hy
    · exact fun e => hy2 e.symm
  have hbody : ∀ z, parseBody neg (m ++ z) = parseNumeric neg (m ++ z) := by
    intro z
    rw [hcr]
    exact parseBody_numeric neg _ (hne _ (by decide) (by decide)) (hne _ (by decide) (by decide))
      (hne _ (by decide) (by decide)) (hne _ (by decide) (by decide)) (hne _ (by decide) (by decide))
  unfold ExpInt32L at hr
  unfold coeffOf denotedExp fracDigits
  rw [hbi, asciiLower_append, hm.fixed.asciiLower, digitsValue_eq]
  change _ = some (_, writtenExp (sg ++ (m ++ x)) - (fracOf m : Int))
  rcases hx with rfl | ⟨i, esg, eds, rfl, hi, hsg', hne', hds⟩
  · have : asciiLower [] = [] := rfl
    rw [this, hbody, List.append_nil, parseNumeric_noexp neg hm.noE.not_mem,
      writtenExp_noE (hsg.noE.append hm.noE), hm.finishMant_val]
  · have hil : i.toLower = 'e' := toLower_eq_e.mpr hi
    have hw : writtenExp (sg ++ (m ++ i :: (esg ++ eds))) = signedVal esg eds := by
      rw [← List.append_assoc]
      exact writtenExp_of_after (afterIndicator_append _ (hsg.noE.append hm.noE) hi) hsg' hds hne'
    rw [hw] at hr ⊢
    rw [asciiLower_cons, hil, (hsg'.fixed.append hds.fixed).asciiLower, hbody,
      parseNumeric_exp neg _ hm.noE.not_mem, parseInt32_optSign hsg' hds hne', if_pos hr]
    simp only [hm.finishMant_val]

/-- a special value parses to a non-finite decimal -/
theorem special_parse_val {neg : Bool} {t : List Char} (h : InfBody t ∨ NanBody t) :
    ∃ d, parseBody neg (asciiLower t) = some (d, 0) ∧ d.form ≠ .finite ∧ d.exp = 0 ∧ d.coeff = 0 := by
  rcases h with h | ⟨a, b, rfl, ha, hb⟩
  · rcases h with h | h <;> rw [h] <;>
      exact ⟨{ form := .infinite, neg := neg, exp := 0, coeff := 0 }, by cases neg <;> rfl, by simp, rfl, rfl⟩
  · rw [asciiLower_append, hb.fixed.asciiLower]
    unfold parseBody
    rcases ha with ha | ha
    · rw [ha]
      exact ⟨{ form := .nan, neg := neg, exp := 0, coeff := 0 }, by simp [startsWithSign, consumePrefix, hb.all], by simp, rfl, rfl⟩
    · rw [ha]
      exact ⟨{ form := .nanSignaling, neg := neg, exp := 0, coeff := 0 }, by simp [startsWithSign, consumePrefix, hb.all], by simp, rfl, rfl⟩

/-- `isSpecial` in Prop form -/
theorem isSpecial_iff (l : List Char) :
    isSpecial l = true ↔ ∃ sg t, l = sg ++ t ∧ OptSign sg ∧ (InfBody t ∨ NanBody t) := by
  unfold isSpecial Spec.nan infinity InfBody NanBody
  simp only [alt_iff, seq_iff]
  simp only [optSign_iff, optDigits_iff]
  simp only [anyCase_iff]
  constructor
  · rintro (⟨sg, t, rfl, hs, h⟩ | ⟨sg, t, rfl, hs, h⟩)
    · exact ⟨sg, t, rfl, hs, Or.inl h⟩
    · refine ⟨sg, t, rfl, hs, Or.inr ?_⟩
      rcases h with ⟨a, b, rfl, ha, hb⟩ | ⟨a, b, rfl, ha, hb⟩
      · exact ⟨a, b, rfl, Or.inl ha, hb⟩
      · exact ⟨a, b, rfl, Or.inr ha, hb⟩
  · rintro ⟨sg, t, rfl, hs, h | ⟨a, b, rfl, ha | ha, hb⟩⟩
    · exact Or.inl ⟨sg, t, rfl, hs, h⟩
    · exact Or.inr ⟨sg, _, rfl, hs, Or.inl ⟨a, b, rfl, ha, hb⟩⟩
    · exact Or.inr ⟨sg, _, rfl, hs, Or.inr ⟨a, b, rfl, ha, hb⟩⟩

end Apd.GramL
