import ApdVerif.Oracle.Interval
import ApdVerif.Lemmas.Digits
import Mathlib.Analysis.SpecialFunctions.Exp
import Mathlib.Analysis.SpecialFunctions.Log.Basic
import Mathlib.Tactic.Ring
import Mathlib.Tactic.Linarith
import Mathlib.Tactic.NormNum
import Mathlib.Tactic.Positivity
/-!
# Helper lemmas for the soundness of the interval arithmetic (C12)
-/
namespace Apd.C12IL
open Apd Apd.Oracle.Iv

/-! ## fastDigits -/

theorem fastDigitsAux_spec : ∀ (fuel n k : Nat), 1 ≤ k → 10 ^ (k - 1) ≤ n → n < 10 ^ (k + fuel) →
    10 ^ (fastDigitsAux fuel n k - 1) ≤ n ∧ n < 10 ^ (fastDigitsAux fuel n k) ∧ 1 ≤ fastDigitsAux fuel n k := by
  intro fuel
  induction fuel with
  | zero => intro n k hk h1 h2; simpa [fastDigitsAux] using ⟨h1, h2, hk⟩
  | succ f ih =>
    intro n k hk h1 h2
    simp only [fastDigitsAux]
    split
    · rename_i h
      apply ih n (k + 1) (by omega)
      · simpa using h
      · have : k + 1 + f = k + (f + 1) := by omega
        rw [this]; exact h2
    · rename_i h
      exact ⟨h1, by omega, hk⟩

set_option exponentiation.threshold 5000 in
theorem pow10_le_pow2 (e b : Nat) (h : 4096 * e ≤ 1233 * b) : 10 ^ e ≤ 2 ^ b := by
  have key : (10:Nat) ^ 1233 ≤ 2 ^ 4096 := by norm_num
  rw [← Nat.pow_le_pow_iff_left (n := 4096) (by decide)]
  calc (10 ^ e) ^ 4096 = 10 ^ (4096 * e) := by rw [← Nat.pow_mul, Nat.mul_comm]
    _ ≤ 10 ^ (1233 * b) := Nat.pow_le_pow_right (by decide) h
    _ = (10 ^ 1233) ^ b := Nat.pow_mul ..
    _ ≤ (2 ^ 4096) ^ b := Nat.pow_le_pow_left key b
    _ = (2 ^ b) ^ 4096 := by rw [← Nat.pow_mul, ← Nat.pow_mul, Nat.mul_comm]

set_option exponentiation.threshold 5000 in
theorem pow2_le_pow10 (e b : Nat) (h : 146 * b ≤ 485 * e) : 2 ^ b ≤ 10 ^ e := by
  have key : (2:Nat) ^ 485 ≤ 10 ^ 146 := by norm_num
  rw [← Nat.pow_le_pow_iff_left (n := 485) (by decide)]
  calc (2 ^ b) ^ 485 = (2 ^ 485) ^ b := by rw [← Nat.pow_mul, ← Nat.pow_mul, Nat.mul_comm]
    _ ≤ (10 ^ 146) ^ b := Nat.pow_le_pow_left key b
    _ = 10 ^ (146 * b) := by rw [← Nat.pow_mul]
    _ ≤ 10 ^ (485 * e) := Nat.pow_le_pow_right (by decide) h
    _ = (10 ^ e) ^ 485 := by rw [← Nat.pow_mul, Nat.mul_comm]

theorem ndigits_small (n : Nat) (h : n < 10) : ndigits n = 1 := by
  rcases Nat.eq_zero_or_pos n with h0 | h0
  · subst h0; rfl
  · exact ndigits_unique n 1 (by omega) (by simp; omega) (by simpa using h)

/-- `fastDigits` is exact: the estimate `bitlen·1233/4096` never exceeds the digit count and falls
short of it by at most `bitlen/100000 + 4` -/
theorem fastDigits_eq (n : Nat) : fastDigits n = ndigits n := by
  unfold fastDigits
  split
  · rename_i h; exact (ndigits_small n h).symm
  · rename_i h
    simp only []
    have hn0 : n ≠ 0 := by omega
    have hlo : 2 ^ Nat.log2 n ≤ n := Nat.log2_self_le hn0
    have hhi : n < 2 ^ (Nat.log2 n + 1) := Nat.lt_log2_self
    generalize hb : Nat.log2 n + 1 = b at *
    have hb1 : Nat.log2 n = b - 1 := by omega
    rw [hb1] at hlo
    generalize he : b * 1233 / 4096 = e
    generalize hc : b / 100000 = c
    have he1 : 4096 * e ≤ 1233 * b := by omega
    have he2 : 1233 * b ≤ 4096 * e + 4095 := by omega
    have hk1 : 1 ≤ max e 1 := by omega
    have h10 : 10 ^ (max e 1 - 1) ≤ n := by
      by_cases h1 : e ≤ 1
      · have : max e 1 - 1 = 0 := by omega
        rw [this]; simp; omega
      · have : max e 1 - 1 = e - 1 := by omega
        rw [this]
        have h3 := pow10_le_pow2 e b he1
        have h4 : 10 ^ e = 10 ^ (e - 1) * 10 := by
          rw [← Nat.pow_succ]; congr 1; omega
        have h5 : 2 ^ b = 2 ^ (b - 1) * 2 := by
          rw [← Nat.pow_succ]; congr 1; omega
        omega
    have h11 : n < 10 ^ (max e 1 + (c + 4)) := by
      have h3 := pow2_le_pow10 (e + (c + 4)) b (by omega)
      have h4 : 10 ^ (e + (c + 4)) ≤ 10 ^ (max e 1 + (c + 4)) :=
        Nat.pow_le_pow_right (by decide) (by omega)
      omega
    obtain ⟨a1, a2, a3⟩ := fastDigitsAux_spec (c + 4) n (max e 1) hk1 h10 h11
    exact (ndigits_unique n _ a3 a1 a2).symm

/-! ## values -/

noncomputable def bv (x : BF) : ℝ := (x.m : ℝ) * (10 : ℝ) ^ x.e

/-- `fastDigits` is exact on the mantissa -/
def FD (x : BF) : Prop := fastDigits x.m.natAbs = ndigits x.m.natAbs

theorem fd (x : BF) : FD x := fastDigits_eq _

theorem p10_pos (e : ℤ) : (0:ℝ) < (10:ℝ) ^ e := by positivity

theorem fdiv_le (a b : ℤ) (hb : b ≠ 0) : ((Int.fdiv a b : ℤ) : ℝ) ≤ (a:ℝ) / (b:ℝ) := by
  rcases lt_or_gt_of_ne hb with h | h
  · -- b < 0
    have e : Int.fdiv a b = (-a) / (-b) := by
      rw [← Int.neg_fdiv_neg, Int.fdiv_eq_ediv_of_nonneg _ (by omega)]
    rw [e]
    have h1 : (-a) / (-b) * (-b) ≤ -a := Int.ediv_mul_le _ (by omega)
    have h2 : (((-a) / (-b) : ℤ) : ℝ) * (-(b:ℝ)) ≤ -(a:ℝ) := by exact_mod_cast h1
    have hb' : (0:ℝ) < -(b:ℝ) := by
      have : (b:ℝ) < 0 := by exact_mod_cast h
      linarith
    have : (a:ℝ) / (b:ℝ) = (-(a:ℝ)) / (-(b:ℝ)) := by rw [neg_div_neg_eq]
    rw [this, le_div_iff₀ hb']
    exact h2
  · have e : Int.fdiv a b = a / b := Int.fdiv_eq_ediv_of_nonneg _ (by omega)
    rw [e]
    have h1 : a / b * b ≤ a := Int.ediv_mul_le _ (by omega)
    have h2 : ((a / b : ℤ) : ℝ) * (b:ℝ) ≤ (a:ℝ) := by exact_mod_cast h1
    have hb' : (0:ℝ) < (b:ℝ) := by exact_mod_cast h
    rw [le_div_iff₀ hb']
    exact h2

theorem le_cdiv (a b : ℤ) (hb : b ≠ 0) : (a:ℝ) / (b:ℝ) ≤ ((-(Int.fdiv (-a) b) : ℤ) : ℝ) := by
  have := fdiv_le (-a) b hb
  push_cast at this ⊢
  rw [neg_div] at this
  linarith

theorem p10_cast_ne (k : ℕ) : ((10 ^ k : ℕ) : ℤ) ≠ 0 := by
  have := Nat.pow_pos (n := k) (by decide : 0 < 10)
  omega

theorem bv_floor_le (m e : ℤ) (k : ℕ) : bv ⟨floorDiv m (10 ^ k), e + k⟩ ≤ bv ⟨m, e⟩ := by
  unfold bv floorDiv
  simp only []
  have h := fdiv_le m ((10 ^ k : ℕ) : ℤ) (p10_cast_ne k)
  rw [zpow_add₀ (by norm_num : (10:ℝ) ≠ 0), zpow_natCast]
  have hp : (0:ℝ) < (10:ℝ) ^ k := by positivity
  have he := p10_pos e
  push_cast at h
  rw [le_div_iff₀ hp] at h
  calc ((Int.fdiv m ((10 ^ k : ℕ) : ℤ) : ℤ) : ℝ) * ((10:ℝ) ^ e * (10:ℝ) ^ k)
      = (((Int.fdiv m ((10 ^ k : ℕ) : ℤ) : ℤ) : ℝ) * (10:ℝ) ^ k) * (10:ℝ) ^ e := by ring
    _ ≤ (m:ℝ) * (10:ℝ) ^ e := by
      apply mul_le_mul_of_nonneg_right _ he.le
      exact_mod_cast h

theorem bv_le_ceil (m e : ℤ) (k : ℕ) : bv ⟨m, e⟩ ≤ bv ⟨ceilDiv m (10 ^ k), e + k⟩ := by
  unfold bv ceilDiv
  simp only []
  have h := le_cdiv m ((10 ^ k : ℕ) : ℤ) (p10_cast_ne k)
  rw [zpow_add₀ (by norm_num : (10:ℝ) ≠ 0), zpow_natCast]
  have hp : (0:ℝ) < (10:ℝ) ^ k := by positivity
  have he := p10_pos e
  push_cast at h
  rw [div_le_iff₀ hp] at h
  calc (m:ℝ) * (10:ℝ) ^ e ≤ (((-(Int.fdiv (-m) ((10 ^ k : ℕ) : ℤ)) : ℤ) : ℝ) * (10:ℝ) ^ k) * (10:ℝ) ^ e := by
        apply mul_le_mul_of_nonneg_right _ he.le
        exact_mod_cast h
    _ = _ := by push_cast; ring

theorem rnd_down (W : Nat) (x : BF) : bv (rnd W true x) ≤ bv x := by
  unfold rnd
  simp only []
  split
  · exact le_refl _
  · simp only [if_true]
    exact bv_floor_le x.m x.e _

theorem rnd_up (W : Nat) (x : BF) : bv x ≤ bv (rnd W false x) := by
  unfold rnd
  simp only []
  split
  · exact le_refl _
  · simp only [Bool.false_eq_true, if_false]
    exact bv_le_ceil x.m x.e _

theorem bv_mul (a b : BF) : bv ⟨a.m * b.m, a.e + b.e⟩ = bv a * bv b := by
  unfold bv
  simp only []
  rw [zpow_add₀ (by norm_num : (10:ℝ) ≠ 0)]
  push_cast
  ring

theorem mulDir_down (W : Nat) (a b : BF) : bv (mulDir W true a b) ≤ bv a * bv b := by
  unfold mulDir
  rw [← bv_mul]
  exact rnd_down _ _

theorem mulDir_up (W : Nat) (a b : BF) : bv a * bv b ≤ bv (mulDir W false a b) := by
  unfold mulDir
  rw [← bv_mul]
  exact rnd_up _ _

theorem bv_zero : bv BF.zero = 0 := by simp [bv, BF.zero]

theorem bv_eq_zero_of_m (a : BF) (h : a.m = 0) : bv a = 0 := by simp [bv, h]

theorem bv_div_scale (a b : BF) (s : ℕ) (hb : b.m ≠ 0) :
    ((a.m * 10 ^ s : ℤ) : ℝ) / (b.m : ℝ) * (10:ℝ) ^ (a.e - b.e - s) = bv a / bv b := by
  unfold bv
  have hb' : (b.m : ℝ) ≠ 0 := by exact_mod_cast hb
  have h10 : (10:ℝ) ≠ 0 := by norm_num
  rw [zpow_sub₀ h10, zpow_sub₀ h10, zpow_natCast]
  have h1 := (p10_pos b.e).ne'
  have h2 : ((10:ℝ) ^ s) ≠ 0 := by positivity
  push_cast
  field_simp

theorem divDir_down (W : Nat) (a b : BF) (hb : b.m ≠ 0) : bv (divDir W true a b) ≤ bv a / bv b := by
  unfold divDir
  split
  · rename_i h
    have : a.m = 0 := by simpa using h
    rw [bv_zero, bv_eq_zero_of_m a this]; simp
  · simp only [if_true]
    refine le_trans (rnd_down _ _) ?_
    rw [← bv_div_scale a b (fastDigits b.m.natAbs + W + 2) hb]
    unfold bv
    simp only []
    apply mul_le_mul_of_nonneg_right _ (p10_pos _).le
    have := fdiv_le (a.m * 10 ^ (fastDigits b.m.natAbs + W + 2)) b.m hb
    exact this

theorem divDir_up (W : Nat) (a b : BF) (hb : b.m ≠ 0) : bv a / bv b ≤ bv (divDir W false a b) := by
  unfold divDir
  split
  · rename_i h
    have : a.m = 0 := by simpa using h
    rw [bv_zero, bv_eq_zero_of_m a this]; simp
  · simp only [Bool.false_eq_true, if_false]
    refine le_trans ?_ (rnd_up _ _)
    rw [← bv_div_scale a b (fastDigits b.m.natAbs + W + 2) hb]
    unfold bv
    simp only []
    apply mul_le_mul_of_nonneg_right _ (p10_pos _).le
    have := le_cdiv (a.m * 10 ^ (fastDigits b.m.natAbs + W + 2)) b.m hb
    exact this

/-! ## comparison -/

noncomputable def mag (x : BF) : ℝ := (x.m.natAbs : ℝ) * (10 : ℝ) ^ x.e

theorem h10 : (10:ℝ) ≠ 0 := by norm_num

theorem natAbs_cast_of_nonneg (m : ℤ) (h : 0 ≤ m) : ((m.natAbs : ℕ) : ℝ) = (m : ℝ) := by
  have : ((m.natAbs : ℕ) : ℤ) = m := Int.natAbs_of_nonneg h
  rw [← Int.cast_natCast, this]

theorem natAbs_cast_of_nonpos (m : ℤ) (h : m ≤ 0) : ((m.natAbs : ℕ) : ℝ) = -(m : ℝ) := by
  have : ((m.natAbs : ℕ) : ℤ) = -m := by omega
  rw [← Int.cast_natCast, this, Int.cast_neg]

theorem bv_of_nonneg (x : BF) (h : 0 ≤ x.m) : bv x = mag x := by
  unfold bv mag; rw [natAbs_cast_of_nonneg _ h]

theorem bv_of_nonpos (x : BF) (h : x.m ≤ 0) : bv x = -mag x := by
  unfold bv mag; rw [natAbs_cast_of_nonpos _ h]; ring

theorem mag_nonneg (x : BF) : 0 ≤ mag x := by unfold mag; positivity

theorem mag_eq_abs (x : BF) : mag x = |bv x| := by
  unfold mag bv
  rw [abs_mul, abs_of_pos (p10_pos _)]
  congr 1
  rcases le_total 0 x.m with h | h
  · rw [natAbs_cast_of_nonneg _ h, abs_of_nonneg]; exact_mod_cast h
  · rw [natAbs_cast_of_nonpos _ h, abs_of_nonpos]; exact_mod_cast h

theorem mag_bounds (x : BF) (h0 : x.m ≠ 0) (hfd : FD x) :
    (10:ℝ) ^ x.adj ≤ mag x ∧ mag x < (10:ℝ) ^ (x.adj + 1) := by
  have hn : 0 < x.m.natAbs := Int.natAbs_pos.2 h0
  obtain ⟨h1, h2⟩ := ndigits_spec _ hn
  have hp := ndigits_pos x.m.natAbs
  unfold BF.adj mag
  rw [hfd]
  have e1 : ((ndigits x.m.natAbs : ℕ) : ℤ) - 1 + x.e = ((ndigits x.m.natAbs - 1 : ℕ) : ℤ) + x.e := by omega
  have e2 : ((ndigits x.m.natAbs : ℕ) : ℤ) - 1 + x.e + 1 = ((ndigits x.m.natAbs : ℕ) : ℤ) + x.e := by omega
  rw [e2, e1, zpow_add₀ h10, zpow_add₀ h10, zpow_natCast, zpow_natCast]
  constructor
  · apply mul_le_mul_of_nonneg_right _ (p10_pos _).le; exact_mod_cast h1
  · apply mul_lt_mul_of_pos_right _ (p10_pos _); exact_mod_cast h2

theorem mag_align (x : BF) (e : ℤ) (he : e ≤ x.e) :
    mag x = ((x.m.natAbs * 10 ^ (x.e - e).toNat : ℕ) : ℝ) * (10:ℝ) ^ e := by
  unfold mag
  push_cast
  rw [mul_assoc, ← zpow_natCast, ← zpow_add₀ h10]
  congr 2
  omega

def magCmp (a b : BF) : Int :=
  if a.adj != b.adj then (if a.adj < b.adj then -1 else 1)
  else
    let e := min a.e b.e
    let x := a.m.natAbs * 10 ^ (a.e - e).toNat
    let y := b.m.natAbs * 10 ^ (b.e - e).toNat
    if x < y then -1 else if x > y then 1 else 0

theorem cmp_eq (a b : BF) : a.cmp b =
    if a.sgn != b.sgn then (if a.sgn < b.sgn then -1 else 1)
    else if a.sgn == 0 then 0
    else if a.sgn > 0 then magCmp a b else -magCmp a b := rfl

theorem magCmp_spec (a b : BF) (ha0 : a.m ≠ 0) (hb0 : b.m ≠ 0) (ha : FD a) (hb : FD b) :
    (magCmp a b = -1 ∧ mag a < mag b) ∨ (magCmp a b = 0 ∧ mag a = mag b) ∨
      (magCmp a b = 1 ∧ mag b < mag a) := by
  obtain ⟨a1, a2⟩ := mag_bounds a ha0 ha
  obtain ⟨b1, b2⟩ := mag_bounds b hb0 hb
  unfold magCmp
  by_cases hadj : a.adj = b.adj
  · simp only [hadj, bne_self_eq_false, Bool.false_eq_true, if_false]
    have ea := mag_align a (min a.e b.e) (min_le_left _ _)
    have eb := mag_align b (min a.e b.e) (min_le_right _ _)
    have hp := p10_pos (min a.e b.e)
    generalize a.m.natAbs * 10 ^ (a.e - min a.e b.e).toNat = x at *
    generalize b.m.natAbs * 10 ^ (b.e - min a.e b.e).toNat = y at *
    rw [ea, eb]
    rcases Nat.lt_trichotomy x y with h | h | h
    · left
      refine ⟨by simp [h], ?_⟩
      apply mul_lt_mul_of_pos_right _ hp; exact_mod_cast h
    · right; left
      subst h
      exact ⟨by simp, rfl⟩
    · right; right
      have h' : ¬ x < y := by omega
      refine ⟨by simp [h, h'], ?_⟩
      apply mul_lt_mul_of_pos_right _ hp; exact_mod_cast h
  · have hne : (a.adj != b.adj) = true := by simpa using hadj
    simp only [hne, if_true]
    by_cases hlt : a.adj < b.adj
    · simp only [hlt, if_true]
      left
      refine ⟨by trivial, ?_⟩
      calc mag a < (10:ℝ) ^ (a.adj + 1) := a2
        _ ≤ (10:ℝ) ^ b.adj := zpow_le_zpow_right₀ (by norm_num) (by omega)
        _ ≤ mag b := b1
    · simp only [hlt, if_false]
      right; right
      refine ⟨by trivial, ?_⟩
      calc mag b < (10:ℝ) ^ (b.adj + 1) := b2
        _ ≤ (10:ℝ) ^ a.adj := zpow_le_zpow_right₀ (by norm_num) (by omega)
        _ ≤ mag a := a1

theorem mag_pos (x : BF) (h : x.m ≠ 0) : 0 < mag x := by
  unfold mag
  have : 0 < x.m.natAbs := Int.natAbs_pos.2 h
  have h2 : (0:ℝ) < (x.m.natAbs : ℝ) := by exact_mod_cast this
  exact mul_pos h2 (p10_pos _)

/-- three-way comparison is exact when the digit counts are -/
theorem cmp_spec (a b : BF) (ha : FD a) (hb : FD b) :
    (a.cmp b = -1 ∧ bv a < bv b) ∨ (a.cmp b = 0 ∧ bv a = bv b) ∨ (a.cmp b = 1 ∧ bv b < bv a) := by
  rw [cmp_eq]
  rcases lt_trichotomy a.m 0 with h1 | h1 | h1 <;> rcases lt_trichotomy b.m 0 with h2 | h2 | h2
  · -- both negative
    have sa : a.sgn = -1 := by unfold BF.sgn; simp [h1]; omega
    have sb : b.sgn = -1 := by unfold BF.sgn; simp [h2]; omega
    rw [sa, sb]
    simp only [bne_self_eq_false, Bool.false_eq_true, if_false]
    have e1 := bv_of_nonpos a h1.le
    have e2 := bv_of_nonpos b h2.le
    rcases magCmp_spec a b (by omega) (by omega) ha hb with ⟨h, k⟩ | ⟨h, k⟩ | ⟨h, k⟩
    · right; right; rw [h, e1, e2]; exact ⟨by decide, by linarith⟩
    · right; left; rw [h, e1, e2]; exact ⟨by decide, by linarith⟩
    · left; rw [h, e1, e2]; exact ⟨by decide, by linarith⟩
  · have sa : a.sgn = -1 := by unfold BF.sgn; simp [h1]; omega
    have sb : b.sgn = 0 := by unfold BF.sgn; simp [h2]
    rw [sa, sb]
    left
    refine ⟨by simp, ?_⟩
    rw [bv_of_nonpos a h1.le, bv_eq_zero_of_m b h2]
    have := mag_pos a (by omega); linarith
  · have sa : a.sgn = -1 := by unfold BF.sgn; simp [h1]; omega
    have sb : b.sgn = 1 := by unfold BF.sgn; simp [h2]
    rw [sa, sb]
    left
    refine ⟨by simp, ?_⟩
    rw [bv_of_nonpos a h1.le, bv_of_nonneg b h2.le]
    have := mag_pos a (by omega); have := mag_pos b (by omega); linarith
  · have sa : a.sgn = 0 := by unfold BF.sgn; simp [h1]
    have sb : b.sgn = -1 := by unfold BF.sgn; simp [h2]; omega
    rw [sa, sb]
    right; right
    refine ⟨by simp, ?_⟩
    rw [bv_of_nonpos b h2.le, bv_eq_zero_of_m a h1]
    have := mag_pos b (by omega); linarith
  · have sa : a.sgn = 0 := by unfold BF.sgn; simp [h1]
    have sb : b.sgn = 0 := by unfold BF.sgn; simp [h2]
    rw [sa, sb]
    right; left
    refine ⟨by simp, ?_⟩
    rw [bv_eq_zero_of_m a h1, bv_eq_zero_of_m b h2]
  · have sa : a.sgn = 0 := by unfold BF.sgn; simp [h1]
    have sb : b.sgn = 1 := by unfold BF.sgn; simp [h2]
    rw [sa, sb]
    left
    refine ⟨by simp, ?_⟩
    rw [bv_of_nonneg b h2.le, bv_eq_zero_of_m a h1]
    exact mag_pos b (by omega)
  · have sa : a.sgn = 1 := by unfold BF.sgn; simp [h1]
    have sb : b.sgn = -1 := by unfold BF.sgn; simp [h2]; omega
    rw [sa, sb]
    right; right
    refine ⟨by simp, ?_⟩
    rw [bv_of_nonpos b h2.le, bv_of_nonneg a h1.le]
    have := mag_pos a (by omega); have := mag_pos b (by omega); linarith
  · have sa : a.sgn = 1 := by unfold BF.sgn; simp [h1]
    have sb : b.sgn = 0 := by unfold BF.sgn; simp [h2]
    rw [sa, sb]
    right; right
    refine ⟨by simp, ?_⟩
    rw [bv_of_nonneg a h1.le, bv_eq_zero_of_m b h2]
    exact mag_pos a (by omega)
  · have sa : a.sgn = 1 := by unfold BF.sgn; simp [h1]
    have sb : b.sgn = 1 := by unfold BF.sgn; simp [h2]
    rw [sa, sb]
    simp only [bne_self_eq_false, Bool.false_eq_true, if_false]
    have e1 := bv_of_nonneg a h1.le
    have e2 := bv_of_nonneg b h2.le
    rcases magCmp_spec a b (by omega) (by omega) ha hb with ⟨h, k⟩ | ⟨h, k⟩ | ⟨h, k⟩
    · left; rw [h, e1, e2]; exact ⟨by decide, k⟩
    · right; left; rw [h, e1, e2]; exact ⟨by decide, k⟩
    · right; right; rw [h, e1, e2]; exact ⟨by decide, k⟩

theorem le_iff (a b : BF) (ha : FD a) (hb : FD b) : a.le b = true ↔ bv a ≤ bv b := by
  unfold BF.le
  rcases cmp_spec a b ha hb with ⟨h, k⟩ | ⟨h, k⟩ | ⟨h, k⟩ <;> rw [h] <;> simp <;> linarith

theorem lt_iff (a b : BF) (ha : FD a) (hb : FD b) : a.lt b = true ↔ bv a < bv b := by
  unfold BF.lt
  rcases cmp_spec a b ha hb with ⟨h, k⟩ | ⟨h, k⟩ | ⟨h, k⟩ <;> rw [h] <;> simp <;> linarith

theorem minB_spec (a b : BF) (ha : FD a) (hb : FD b) :
    (BF.minB a b = a ∨ BF.minB a b = b) ∧ bv (BF.minB a b) ≤ bv a ∧ bv (BF.minB a b) ≤ bv b := by
  unfold BF.minB
  by_cases h : a.le b = true
  · have := (le_iff a b ha hb).1 h
    rw [if_pos h]
    exact ⟨Or.inl rfl, le_refl _, this⟩
  · have h' := mt (le_iff a b ha hb).2 h
    rw [if_neg h]
    exact ⟨Or.inr rfl, by linarith, le_refl _⟩

theorem maxB_spec (a b : BF) (ha : FD a) (hb : FD b) :
    (BF.maxB a b = a ∨ BF.maxB a b = b) ∧ bv a ≤ bv (BF.maxB a b) ∧ bv b ≤ bv (BF.maxB a b) := by
  unfold BF.maxB
  by_cases h : a.le b = true
  · have := (le_iff a b ha hb).1 h
    rw [if_pos h]
    exact ⟨Or.inr rfl, this, le_refl _⟩
  · have h' := mt (le_iff a b ha hb).2 h
    rw [if_neg h]
    exact ⟨Or.inl rfl, le_refl _, by linarith⟩


/-! ## floor / ceiling division -/

theorem floorDiv_eq (m : ℤ) (p : ℕ) : floorDiv m p = m / (p : ℤ) :=
  Int.fdiv_eq_ediv_of_nonneg _ (by omega)

theorem ceilDiv_eq (m : ℤ) (p : ℕ) : ceilDiv m p = -((-m) / (p : ℤ)) := by
  unfold ceilDiv; rw [Int.fdiv_eq_ediv_of_nonneg _ (by omega)]

theorem ediv_abs_ge (m : ℤ) (p c : ℕ) (hp : 0 < p) (h : c * p ≤ m.natAbs) :
    c ≤ (m / (p : ℤ)).natAbs := by
  have hp' : (0:ℤ) < (p:ℤ) := by exact_mod_cast hp
  have hh : (c:ℤ) * (p:ℤ) ≤ (m.natAbs : ℤ) := by exact_mod_cast h
  rcases le_total 0 m with hm | hm
  · have h1 : (c:ℤ) ≤ m / (p:ℤ) := Int.le_ediv_of_mul_le hp' (by omega)
    omega
  · have h1 : m / (p:ℤ) ≤ -(c:ℤ) := Int.ediv_le_of_le_mul hp' (by rw [Int.neg_mul]; omega)
    omega

theorem floorDiv_abs_ge (m : ℤ) (p c : ℕ) (hp : 0 < p) (h : c * p ≤ m.natAbs) :
    c ≤ (floorDiv m p).natAbs := by
  rw [floorDiv_eq]; exact ediv_abs_ge m p c hp h

theorem ceilDiv_abs_ge (m : ℤ) (p c : ℕ) (hp : 0 < p) (h : c * p ≤ m.natAbs) :
    c ≤ (ceilDiv m p).natAbs := by
  rw [ceilDiv_eq, Int.natAbs_neg]; exact ediv_abs_ge (-m) p c hp (by rw [Int.natAbs_neg]; exact h)

/-! ## addDir -/

def far (W : Nat) (down : Bool) (big small : BF) : BF :=
  let bigW := rnd (W + 3) down big
  let d := fastDigits bigW.m.natAbs
  let pad := if d < W + 3 then W + 3 - d else 0
  let m := bigW.m * 10 ^ pad
  let e := bigW.e - pad
  let nudged : Int := if small.m > 0 then (if down then m else m + 1) else (if down then m - 1 else m)
  rnd W down ⟨nudged, e⟩

def aligned (a b : BF) : BF :=
  let e := min a.e b.e
  ⟨a.m * 10 ^ (a.e - e).toNat + b.m * 10 ^ (b.e - e).toNat, e⟩

theorem addDir_eq (W : Nat) (down : Bool) (a b : BF) : addDir W down a b =
    if a.m == 0 then rnd W down b else if b.m == 0 then rnd W down a else
    if a.adj ≥ b.adj then
      (if a.adj - b.adj > (W : Int) + 5 then far W down a b else rnd W down (aligned a b))
    else
      (if b.adj - a.adj > (W : Int) + 5 then far W down b a else rnd W down (aligned a b)) := by
  unfold addDir far aligned
  split
  · rfl
  · split
    · rfl
    · by_cases h : a.adj ≥ b.adj
      · simp only [h, if_true]
      · simp only [h, if_false]

theorem scale_cast (m : ℤ) (xe e : ℤ) (he : e ≤ xe) :
    ((m * 10 ^ (xe - e).toNat : ℤ) : ℝ) * (10:ℝ) ^ e = (m : ℝ) * (10:ℝ) ^ xe := by
  push_cast
  rw [mul_assoc, ← zpow_natCast, ← zpow_add₀ h10]
  congr 2
  omega

theorem bv_aligned (a b : BF) : bv (aligned a b) = bv a + bv b := by
  unfold aligned bv
  simp only []
  rw [Int.cast_add, add_mul, scale_cast _ _ _ (min_le_left _ _), scale_cast _ _ _ (min_le_right _ _)]

/-- the two outcomes of `rnd` -/
theorem rnd_cases (W : Nat) (hW : 1 ≤ W) (dn : Bool) (x : BF) (h0 : x.m ≠ 0) :
    (ndigits x.m.natAbs ≤ W ∧ rnd W dn x = x) ∨
    (W < ndigits x.m.natAbs ∧ (rnd W dn x).e = x.e + ((ndigits x.m.natAbs - W : ℕ) : ℤ) ∧
      10 ^ (W - 1) ≤ (rnd W dn x).m.natAbs) := by
  unfold rnd
  simp only []
  rw [fd x]
  by_cases hle : ndigits x.m.natAbs ≤ W
  · left; exact ⟨hle, by rw [if_pos hle]⟩
  · right
    rw [if_neg hle]
    refine ⟨by omega, rfl, ?_⟩
    simp only []
    have hn : 0 < x.m.natAbs := Int.natAbs_pos.2 h0
    have hd := (ndigits_spec _ hn).1
    have hp : 0 < 10 ^ (ndigits x.m.natAbs - W) := Nat.pow_pos (by decide)
    have hd' : 10 ^ (W - 1) * 10 ^ (ndigits x.m.natAbs - W) ≤ x.m.natAbs := by
      rw [← Nat.pow_add]
      have : W - 1 + (ndigits x.m.natAbs - W) = ndigits x.m.natAbs - 1 := by omega
      rw [this]; exact hd
    cases dn
    · exact ceilDiv_abs_ge _ _ _ hp hd'
    · exact floorDiv_abs_ge _ _ _ hp hd'

theorem far_exp (W : Nat) (dn : Bool) (big : BF) (hb0 : big.m ≠ 0) :
    (rnd (W + 3) dn big).e -
      (((if fastDigits (rnd (W + 3) dn big).m.natAbs < W + 3
          then W + 3 - fastDigits (rnd (W + 3) dn big).m.natAbs else 0) : ℕ) : ℤ)
      = big.adj - ((W : ℤ) + 2) := by
  rw [fd (rnd (W + 3) dn big)]
  have hp := ndigits_pos big.m.natAbs
  rcases rnd_cases (W + 3) (by omega) dn big hb0 with ⟨h1, h2⟩ | ⟨h1, h2, h3⟩
  · rw [h2]
    unfold BF.adj
    rw [fd big]
    split <;> omega
  · have hd : ¬ ndigits (rnd (W + 3) dn big).m.natAbs < W + 3 := by
      intro hlt
      have hpos : 0 < (rnd (W + 3) dn big).m.natAbs :=
        Nat.lt_of_lt_of_le (Nat.pow_pos (by decide)) h3
      have := (ndigits_le_iff _ (W + 2) hpos (by omega)).1 (by omega)
      have e : W + 3 - 1 = W + 2 := by omega
      rw [e] at h3
      omega
    rw [if_neg hd, h2]
    unfold BF.adj
    rw [fd big]
    omega

theorem bv_pad (m e : ℤ) (pad : ℕ) : bv ⟨m * 10 ^ pad, e - pad⟩ = bv ⟨m, e⟩ := by
  unfold bv
  simp only []
  push_cast
  rw [zpow_sub₀ h10, zpow_natCast]
  have : ((10:ℝ) ^ pad) ≠ 0 := by positivity
  field_simp

theorem bv_add_one (m e : ℤ) : bv ⟨m + 1, e⟩ = bv ⟨m, e⟩ + (10:ℝ) ^ e := by
  unfold bv; push_cast; ring

theorem bv_sub_one (m e : ℤ) : bv ⟨m - 1, e⟩ = bv ⟨m, e⟩ - (10:ℝ) ^ e := by
  unfold bv; push_cast; ring

theorem far_sound (W : Nat) (big small : BF) (hb0 : big.m ≠ 0) (hs0 : small.m ≠ 0)
    (hgap : big.adj - small.adj > (W : ℤ) + 5) :
    bv (far W true big small) ≤ bv big + bv small ∧ bv big + bv small ≤ bv (far W false big small) := by
  have hms := (mag_bounds small hs0 (fd small)).2
  have unit : ∀ dn, mag small ≤ (10:ℝ) ^ ((rnd (W + 3) dn big).e -
      (((if fastDigits (rnd (W + 3) dn big).m.natAbs < W + 3
          then W + 3 - fastDigits (rnd (W + 3) dn big).m.natAbs else 0) : ℕ) : ℤ)) := by
    intro dn
    rw [far_exp W dn big hb0]
    refine le_trans hms.le ?_
    exact zpow_le_zpow_right₀ (by norm_num) (by omega)
  constructor
  · unfold far
    simp only [if_true]
    refine le_trans (rnd_down _ _) ?_
    have hd := rnd_down (W + 3) big
    by_cases hpos : small.m > 0
    · rw [if_pos hpos, bv_pad]
      have : 0 ≤ bv small := by rw [bv_of_nonneg small (by omega)]; exact mag_nonneg _
      show bv (rnd (W + 3) true big) ≤ _
      linarith
    · rw [if_neg hpos, bv_sub_one, bv_pad]
      have e1 : bv small = -mag small := bv_of_nonpos small (by omega)
      have := unit true
      show bv (rnd (W + 3) true big) - _ ≤ _
      linarith
  · unfold far
    simp only [Bool.false_eq_true, if_false]
    refine le_trans ?_ (rnd_up _ _)
    have hd := rnd_up (W + 3) big
    by_cases hpos : small.m > 0
    · rw [if_pos hpos, bv_add_one, bv_pad]
      have e1 : bv small = mag small := bv_of_nonneg small (by omega)
      have := unit false
      show _ ≤ bv (rnd (W + 3) false big) + _
      linarith
    · rw [if_neg hpos, bv_pad]
      have : bv small ≤ 0 := by
        rw [bv_of_nonpos small (by omega)]; have := mag_nonneg small; linarith
      show _ ≤ bv (rnd (W + 3) false big)
      linarith

theorem addDir_sound (W : Nat) (a b : BF) :
    bv (addDir W true a b) ≤ bv a + bv b ∧ bv a + bv b ≤ bv (addDir W false a b) := by
  rw [addDir_eq, addDir_eq]
  by_cases ha0 : a.m = 0
  · have : (a.m == 0) = true := by simpa using ha0
    rw [if_pos this, if_pos this, bv_eq_zero_of_m a ha0, zero_add]
    exact ⟨rnd_down _ _, rnd_up _ _⟩
  · have h1 : ¬ (a.m == 0) = true := by simpa using ha0
    rw [if_neg h1, if_neg h1]
    by_cases hb0 : b.m = 0
    · have : (b.m == 0) = true := by simpa using hb0
      rw [if_pos this, if_pos this, bv_eq_zero_of_m b hb0, add_zero]
      exact ⟨rnd_down _ _, rnd_up _ _⟩
    · have h2 : ¬ (b.m == 0) = true := by simpa using hb0
      rw [if_neg h2, if_neg h2]
      have hal : bv (rnd W true (aligned a b)) ≤ bv a + bv b ∧
          bv a + bv b ≤ bv (rnd W false (aligned a b)) := by
        rw [← bv_aligned]; exact ⟨rnd_down _ _, rnd_up _ _⟩
      by_cases hge : a.adj ≥ b.adj
      · rw [if_pos hge, if_pos hge]
        by_cases hgap : a.adj - b.adj > (W : ℤ) + 5
        · rw [if_pos hgap, if_pos hgap]
          exact far_sound W a b ha0 hb0 hgap
        · rw [if_neg hgap, if_neg hgap]; exact hal
      · rw [if_neg hge, if_neg hge]
        by_cases hgap : b.adj - a.adj > (W : ℤ) + 5
        · rw [if_pos hgap, if_pos hgap, add_comm (bv a)]
          exact far_sound W b a hb0 ha0 hgap
        · rw [if_neg hgap, if_neg hgap]; exact hal

/-! ## interval operations -/

def Enc (a : I) (r : ℝ) : Prop := bv a.lo ≤ r ∧ r ≤ bv a.hi

theorem add_sound (W : Nat) (a b : I) (r s : ℝ) (hr : Enc a r) (hs : Enc b s) :
    Enc (I.add W a b) (r + s) := by
  unfold I.add Enc
  simp only []
  have h1 := (addDir_sound W a.lo b.lo).1
  have h2 := (addDir_sound W a.hi b.hi).2
  obtain ⟨r1, r2⟩ := hr
  obtain ⟨s1, s2⟩ := hs
  constructor <;> linarith

theorem corner_lo (al ah bl bh r s : ℝ) (h1 : al ≤ r) (h2 : r ≤ ah) (h3 : bl ≤ s) (h4 : s ≤ bh) :
    al * bl ≤ r * s ∨ al * bh ≤ r * s ∨ ah * bl ≤ r * s ∨ ah * bh ≤ r * s := by
  rcases le_total 0 s with hs | hs
  · have k1 : al * s ≤ r * s := mul_le_mul_of_nonneg_right h1 hs
    rcases le_total 0 al with ha | ha
    · left; exact le_trans (mul_le_mul_of_nonneg_left h3 ha) k1
    · right; left; exact le_trans (mul_le_mul_of_nonpos_left h4 ha) k1
  · have k1 : ah * s ≤ r * s := mul_le_mul_of_nonpos_right h2 hs
    rcases le_total 0 ah with ha | ha
    · right; right; left; exact le_trans (mul_le_mul_of_nonneg_left h3 ha) k1
    · right; right; right; exact le_trans (mul_le_mul_of_nonpos_left h4 ha) k1

theorem corner_hi (al ah bl bh r s : ℝ) (h1 : al ≤ r) (h2 : r ≤ ah) (h3 : bl ≤ s) (h4 : s ≤ bh) :
    r * s ≤ al * bl ∨ r * s ≤ al * bh ∨ r * s ≤ ah * bl ∨ r * s ≤ ah * bh := by
  rcases corner_lo (-ah) (-al) bl bh (-r) s (by linarith) (by linarith) h3 h4 with h | h | h | h
  · right; right; left; linarith
  · right; right; right; linarith
  · left; linarith
  · right; left; linarith

def min4 (a b c d : BF) : BF := BF.minB (BF.minB (BF.minB (BF.minB a a) b) c) d
def max4 (a b c d : BF) : BF := BF.maxB (BF.maxB (BF.maxB (BF.maxB a a) b) c) d

theorem min4_spec (a b c d : BF) :
    bv (min4 a b c d) ≤ bv a ∧ bv (min4 a b c d) ≤ bv b ∧ bv (min4 a b c d) ≤ bv c ∧
      bv (min4 a b c d) ≤ bv d := by
  unfold min4
  obtain ⟨_, l1, _⟩ := minB_spec a a (fd _) (fd _)
  obtain ⟨_, l2, l2'⟩ := minB_spec (BF.minB a a) b (fd _) (fd _)
  obtain ⟨_, l3, l3'⟩ := minB_spec (BF.minB (BF.minB a a) b) c (fd _) (fd _)
  obtain ⟨_, l4, l4'⟩ := minB_spec (BF.minB (BF.minB (BF.minB a a) b) c) d (fd _) (fd _)
  exact ⟨by linarith, by linarith, by linarith, l4'⟩

theorem max4_spec (a b c d : BF) :
    bv a ≤ bv (max4 a b c d) ∧ bv b ≤ bv (max4 a b c d) ∧ bv c ≤ bv (max4 a b c d) ∧
      bv d ≤ bv (max4 a b c d) := by
  unfold max4
  obtain ⟨_, l1, _⟩ := maxB_spec a a (fd _) (fd _)
  obtain ⟨_, l2, l2'⟩ := maxB_spec (BF.maxB a a) b (fd _) (fd _)
  obtain ⟨_, l3, l3'⟩ := maxB_spec (BF.maxB (BF.maxB a a) b) c (fd _) (fd _)
  obtain ⟨_, l4, l4'⟩ := maxB_spec (BF.maxB (BF.maxB (BF.maxB a a) b) c) d (fd _) (fd _)
  exact ⟨by linarith, by linarith, by linarith, l4'⟩

theorem mul_eq (W : Nat) (a b : I) : I.mul W a b =
    if a.lo.sgn ≥ 0 && b.lo.sgn ≥ 0 then ⟨mulDir W true a.lo b.lo, mulDir W false a.hi b.hi⟩ else
    if a.lo == a.hi && b.lo == b.hi then ⟨mulDir W true a.lo b.lo, mulDir W false a.lo b.lo⟩ else
    ⟨min4 (mulDir W true a.lo b.lo) (mulDir W true a.lo b.hi) (mulDir W true a.hi b.lo)
        (mulDir W true a.hi b.hi),
     max4 (mulDir W false a.lo b.lo) (mulDir W false a.lo b.hi) (mulDir W false a.hi b.lo)
        (mulDir W false a.hi b.hi)⟩ := by
  unfold I.mul min4 max4
  simp only [List.map_cons, List.map_nil, List.foldl_cons, List.foldl_nil, List.headD_cons]

theorem sgn_nonneg_iff (x : BF) : x.sgn ≥ 0 ↔ 0 ≤ x.m := by
  unfold BF.sgn
  split
  · omega
  · split <;> omega

theorem sgn_nonpos_iff (x : BF) : x.sgn ≤ 0 ↔ x.m ≤ 0 := by
  unfold BF.sgn
  split
  · omega
  · split <;> omega

theorem bv_nonneg (x : BF) (h : 0 ≤ x.m) : 0 ≤ bv x := by
  rw [bv_of_nonneg x h]; exact mag_nonneg x

theorem bv_nonpos (x : BF) (h : x.m ≤ 0) : bv x ≤ 0 := by
  rw [bv_of_nonpos x h]; have := mag_nonneg x; linarith

theorem mul_sound (W : Nat) (a b : I) (r s : ℝ) (hr : Enc a r) (hs : Enc b s) :
    Enc (I.mul W a b) (r * s) := by
  obtain ⟨r1, r2⟩ := hr
  obtain ⟨s1, s2⟩ := hs
  rw [mul_eq]
  split
  · rename_i h
    simp only [Bool.and_eq_true, decide_eq_true_eq] at h
    have p1 := bv_nonneg _ ((sgn_nonneg_iff _).1 h.1)
    have p2 := bv_nonneg _ ((sgn_nonneg_iff _).1 h.2)
    constructor
    · refine le_trans (mulDir_down _ _ _) ?_
      exact mul_le_mul r1 s1 p2 (by linarith)
    · refine le_trans ?_ (mulDir_up _ _ _)
      exact mul_le_mul r2 s2 (by linarith) (by linarith)
  · split
    · rename_i h
      simp only [Bool.and_eq_true, beq_iff_eq] at h
      have er : r = bv a.lo := by rw [← h.1] at r2; linarith
      have es : s = bv b.lo := by rw [← h.2] at s2; linarith
      rw [er, es]
      exact ⟨mulDir_down _ _ _, mulDir_up _ _ _⟩
    · constructor
      · obtain ⟨m1, m2, m3, m4⟩ := min4_spec (mulDir W true a.lo b.lo) (mulDir W true a.lo b.hi)
          (mulDir W true a.hi b.lo) (mulDir W true a.hi b.hi)
        show bv (min4 _ _ _ _) ≤ r * s
        rcases corner_lo _ _ _ _ r s r1 r2 s1 s2 with h | h | h | h
        · exact le_trans m1 (le_trans (mulDir_down _ _ _) h)
        · exact le_trans m2 (le_trans (mulDir_down _ _ _) h)
        · exact le_trans m3 (le_trans (mulDir_down _ _ _) h)
        · exact le_trans m4 (le_trans (mulDir_down _ _ _) h)
      · obtain ⟨m1, m2, m3, m4⟩ := max4_spec (mulDir W false a.lo b.lo) (mulDir W false a.lo b.hi)
          (mulDir W false a.hi b.lo) (mulDir W false a.hi b.hi)
        show r * s ≤ bv (max4 _ _ _ _)
        rcases corner_hi _ _ _ _ r s r1 r2 s1 s2 with h | h | h | h
        · exact le_trans h (le_trans (mulDir_up _ _ _) m1)
        · exact le_trans h (le_trans (mulDir_up _ _ _) m2)
        · exact le_trans h (le_trans (mulDir_up _ _ _) m3)
        · exact le_trans h (le_trans (mulDir_up _ _ _) m4)

theorem divPos_eq (W : Nat) (a b : I) : I.divPos W a b =
    if a.lo.sgn ≥ 0 then ⟨divDir W true a.lo b.hi, divDir W false a.hi b.lo⟩ else
    if a.hi.sgn ≤ 0 then ⟨divDir W true a.lo b.lo, divDir W false a.hi b.hi⟩ else
    ⟨min4 (divDir W true a.lo b.lo) (divDir W true a.lo b.hi) (divDir W true a.hi b.lo)
        (divDir W true a.hi b.hi),
     max4 (divDir W false a.lo b.lo) (divDir W false a.lo b.hi) (divDir W false a.hi b.lo)
        (divDir W false a.hi b.hi)⟩ := by
  unfold I.divPos min4 max4
  simp only [List.map_cons, List.map_nil, List.foldl_cons, List.foldl_nil, List.headD_cons]

theorem m_pos_of_bv_pos (x : BF) (h : 0 < bv x) : 0 < x.m := by
  by_contra hc
  have := bv_nonpos x (by omega)
  linarith

theorem divPos_sound (W : Nat) (a b : I) (r s : ℝ) (hr : Enc a r) (hs : Enc b s)
    (hpos : 0 < bv b.lo) : Enc (I.divPos W a b) (r / s) := by
  obtain ⟨r1, r2⟩ := hr
  obtain ⟨s1, s2⟩ := hs
  have hs0 : 0 < s := by linarith
  have hbh : 0 < bv b.hi := by linarith
  have nl : b.lo.m ≠ 0 := by have := m_pos_of_bv_pos _ hpos; omega
  have nh : b.hi.m ≠ 0 := by have := m_pos_of_bv_pos _ hbh; omega
  have i1 : (bv b.hi)⁻¹ ≤ s⁻¹ := inv_anti₀ hs0 s2
  have i2 : s⁻¹ ≤ (bv b.lo)⁻¹ := inv_anti₀ hpos s1
  have i0 : 0 ≤ s⁻¹ := (inv_pos.2 hs0).le
  have i3 : 0 ≤ (bv b.hi)⁻¹ := (inv_pos.2 hbh).le
  have dll := divDir_down W a.lo b.lo nl
  have dlh := divDir_down W a.lo b.hi nh
  have dhl := divDir_down W a.hi b.lo nl
  have dhh := divDir_down W a.hi b.hi nh
  have ull := divDir_up W a.lo b.lo nl
  have ulh := divDir_up W a.lo b.hi nh
  have uhl := divDir_up W a.hi b.lo nl
  have uhh := divDir_up W a.hi b.hi nh
  rw [div_eq_mul_inv] at dll dlh dhl dhh ull ulh uhl uhh
  rw [divPos_eq, div_eq_mul_inv]
  split
  · rename_i h
    have p1 := bv_nonneg _ ((sgn_nonneg_iff _).1 h)
    constructor
    · refine le_trans dlh ?_
      exact mul_le_mul r1 i1 i3 (by linarith)
    · refine le_trans ?_ uhl
      exact mul_le_mul r2 i2 i0 (by linarith)
  · split
    · rename_i h
      have p1 := bv_nonpos _ ((sgn_nonpos_iff _).1 h)
      constructor
      · refine le_trans dll ?_
        calc bv a.lo * (bv b.lo)⁻¹ ≤ bv a.lo * s⁻¹ := mul_le_mul_of_nonpos_left i2 (by linarith)
          _ ≤ r * s⁻¹ := mul_le_mul_of_nonneg_right r1 i0
      · refine le_trans ?_ uhh
        calc r * s⁻¹ ≤ bv a.hi * s⁻¹ := mul_le_mul_of_nonneg_right r2 i0
          _ ≤ bv a.hi * (bv b.hi)⁻¹ := mul_le_mul_of_nonpos_left i1 p1
    · constructor
      · obtain ⟨m1, m2, m3, m4⟩ := min4_spec (divDir W true a.lo b.lo) (divDir W true a.lo b.hi)
          (divDir W true a.hi b.lo) (divDir W true a.hi b.hi)
        show bv (min4 _ _ _ _) ≤ r * s⁻¹
        rcases corner_lo _ _ _ _ r s⁻¹ r1 r2 i1 i2 with h | h | h | h
        · exact le_trans m2 (le_trans dlh h)
        · exact le_trans m1 (le_trans dll h)
        · exact le_trans m4 (le_trans dhh h)
        · exact le_trans m3 (le_trans dhl h)
      · obtain ⟨m1, m2, m3, m4⟩ := max4_spec (divDir W false a.lo b.lo) (divDir W false a.lo b.hi)
          (divDir W false a.hi b.lo) (divDir W false a.hi b.hi)
        show r * s⁻¹ ≤ bv (max4 _ _ _ _)
        rcases corner_hi _ _ _ _ r s⁻¹ r1 r2 i1 i2 with h | h | h | h
        · exact le_trans h (le_trans ulh m2)
        · exact le_trans h (le_trans ull m1)
        · exact le_trans h (le_trans uhh m4)
        · exact le_trans h (le_trans uhl m3)

/-! ## certainlyOff -/

theorem bv_neg (x : BF) : bv x.neg = -bv x := by
  unfold bv BF.neg; push_cast; ring

theorem certainlyOff_sound (W : Nat) (v : BF) (enc : I) (tol : BF) (r : ℝ) (hr : Enc enc r)
    (h : certainlyOff W v enc tol = true) : bv tol < |bv v - r| := by
  unfold certainlyOff at h
  obtain ⟨r1, r2⟩ := hr
  have s1 := addDir_sound W v tol
  have s2 := addDir_sound W v tol.neg
  rw [bv_neg] at s2
  rw [Bool.or_eq_true] at h
  rcases h with h | h
  · have := (lt_iff _ _ (fd _) (fd _)).1 h
    rw [abs_sub_comm]
    exact lt_of_lt_of_le (by linarith) (le_abs_self _)
  · have := (lt_iff _ _ (fd _) (fd _)).1 h
    exact lt_of_lt_of_le (by linarith) (le_abs_self _)

end Apd.C12IL
