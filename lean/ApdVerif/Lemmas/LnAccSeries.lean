import ApdVerif.Lemmas.LnAccMath
/-!
# L2 (series branch): the loop `tmp3 *= y²; tmp4 = tmp3/(2n+1); tmp1 += tmp4` with every operation perturbed

`u` unit roundoff, `v = u/(1-u)` its logarithmic size.  All terms have the sign of `y`, so the partial sums are
dominated by the limit `M = |L2 y|`; the `n`-th term enters with a relative error `≤ e^{(2n+2)v} - 1`, negligible
against the geometric decay `(y²)^n ≤ 324^-n`; the `n+1` additions each contribute `u·M`.
-/
namespace Apd.LnAcc
open Real Apd.ExpAcc Apd.C12IL

/-- `Σ_{j=1}^{n} 100^-j` -/
noncomputable def cc (n : ℕ) : ℝ := (1 - (1 / 100 : ℝ) ^ n) / 99

theorem cc_succ (n : ℕ) : cc n + (1 / 100 : ℝ) ^ (n + 1) = cc (n + 1) := by
  unfold cc; rw [pow_succ]; ring

theorem cc_bounds (n : ℕ) : 0 ≤ cc n ∧ cc n ≤ 1 / 99 := by
  unfold cc
  have h1 : (0 : ℝ) ≤ (1 / 100 : ℝ) ^ n := by positivity
  have h2 : (1 / 100 : ℝ) ^ n ≤ 1 := pow_le_one₀ (by norm_num) (by norm_num)
  constructor
  · apply div_nonneg <;> linarith
  · apply div_le_div_of_nonneg_right _ (by norm_num); linarith

theorem v_bounds (u : ℝ) (hu : 0 ≤ u) (hu1 : u ≤ 1 / 200) : u ≤ u / (1 - u) ∧ u / (1 - u) ≤ 200 / 199 * u := by
  have h1 : 0 < 1 - u := by linarith
  constructor
  · rw [le_div_iff₀ h1]; nlinarith
  · rw [div_le_iff₀ h1]; nlinarith

theorem exp_two_v (u : ℝ) (hu : 0 ≤ u) (hu1 : u ≤ 1 / 200) : exp (2 * (u / (1 - u))) - 1 ≤ 2031 / 1000 * u := by
  obtain ⟨v1, v2⟩ := v_bounds u hu hu1
  set v := u / (1 - u)
  have hv0 : 0 ≤ v := le_trans hu v1
  have hx : |2 * v| ≤ 1 := by rw [abs_of_nonneg (by linarith)]; nlinarith
  have h := abs_le.1 (Real.abs_exp_sub_one_sub_id_le hx)
  have : (2 * v) ^ 2 ≤ 2 * v * (2 * (200 / 199 * (1 / 200))) := by nlinarith
  nlinarith [h.2]

/-- growth of the accumulated relative error of the `n`-th term -/
theorem exp_kv (u : ℝ) (hu : 0 ≤ u) (hu1 : u ≤ 1 / 200) (n : ℕ) :
    exp (((2 * n + 2 : ℕ) : ℝ) * (u / (1 - u))) - 1 ≤ 3 * u * (324 / 100 : ℝ) ^ n := by
  have h2 := exp_two_v u hu hu1
  set v := u / (1 - u)
  induction n with
  | zero =>
    have : ((2 * 0 + 2 : ℕ) : ℝ) * v = 2 * v := by norm_num
    rw [this]; simp only [pow_zero, mul_one]; linarith
  | succ n ih =>
    have e : ((2 * (n + 1) + 2 : ℕ) : ℝ) * v = 2 * v + ((2 * n + 2 : ℕ) : ℝ) * v := by push_cast; ring
    rw [e, exp_add]
    have hq : (1 : ℝ) ≤ (324 / 100 : ℝ) ^ n := one_le_pow₀ (by norm_num)
    have hE : 0 ≤ exp (((2 * n + 2 : ℕ) : ℝ) * v) - 1 := by
      have : 0 ≤ ((2 * n + 2 : ℕ) : ℝ) * v := by
        have := (v_bounds u hu hu1).1
        have hv0 : 0 ≤ v := le_trans hu this
        positivity
      linarith [add_one_le_exp (((2 * n + 2 : ℕ) : ℝ) * v)]
    have hA : exp (2 * v) ≤ 1 + 2031 / 1000 * (1 / 200) := by linarith
    -- exp(2v) * (X+1) - 1 = exp(2v) * X + (exp(2v) - 1)
    have id : exp (2 * v) * exp (((2 * n + 2 : ℕ) : ℝ) * v) - 1 =
        exp (2 * v) * (exp (((2 * n + 2 : ℕ) : ℝ) * v) - 1) + (exp (2 * v) - 1) := by ring
    rw [id, pow_succ]
    have t1 : exp (2 * v) * (exp (((2 * n + 2 : ℕ) : ℝ) * v) - 1) ≤
        (1 + 2031 / 1000 * (1 / 200)) * (3 * u * (324 / 100 : ℝ) ^ n) :=
      mul_le_mul hA ih hE (by norm_num)
    nlinarith [mul_nonneg hu (le_trans zero_le_one hq)]

theorem lterm_bound (y : ℝ) (hy : |y| ≤ 1 / 18) (n : ℕ) (hn : 1 ≤ n) :
    |lterm y n| ≤ |L2 y| * (1 / 324 : ℝ) ^ n / 3 := by
  have hy1 : |y| < 1 := by linarith
  have hM := two_abs_le_L2 y hy1
  unfold lterm
  rw [abs_div, abs_mul, abs_two, abs_pow, abs_of_pos (by positivity : (0 : ℝ) < ((2 * n + 1 : ℕ) : ℝ))]
  have e : |y| ^ (2 * n + 1) = |y| * (|y| ^ 2) ^ n := by rw [← pow_mul, pow_succ]; ring
  rw [e]
  have h2 : (|y| ^ 2) ^ n ≤ (1 / 324 : ℝ) ^ n := by
    apply pow_le_pow_left₀ (by positivity)
    have : |y| ^ 2 ≤ (1 / 18) ^ 2 := pow_le_pow_left₀ (abs_nonneg _) hy 2
    norm_num at this ⊢; linarith
  have h3 : (3 : ℝ) ≤ ((2 * n + 1 : ℕ) : ℝ) := by
    have : (1 : ℝ) ≤ n := by exact_mod_cast hn
    push_cast; linarith
  have hp : (0 : ℝ) ≤ (1 / 324 : ℝ) ^ n := by positivity
  rw [div_le_div_iff₀ (by positivity) (by norm_num)]
  have hy0 := abs_nonneg y
  have hq0 : 0 ≤ (|y| ^ 2) ^ n := by positivity
  have a1 : 2 * (|y| * (|y| ^ 2) ^ n) ≤ |L2 y| * (1 / 324 : ℝ) ^ n := by
    calc 2 * (|y| * (|y| ^ 2) ^ n) = (2 * |y|) * (|y| ^ 2) ^ n := by ring
      _ ≤ |L2 y| * (1 / 324 : ℝ) ^ n := mul_le_mul hM h2 hq0 (abs_nonneg _)
  nlinarith [mul_nonneg (abs_nonneg (L2 y)) hp]

/-- the error of the `n`-th computed term, `n ≥ 1` -/
theorem qerr (y u qh : ℝ) (n : ℕ) (hn : 1 ≤ n) (hy : |y| ≤ 1 / 18) (hu : 0 ≤ u) (hu1 : u ≤ 1 / 200)
    (hq : RelW (((2 * n + 2 : ℕ) : ℝ) * (u / (1 - u))) (lterm y n) qh) :
    |qh - lterm y n| ≤ u * |L2 y| * (1 / 100 : ℝ) ^ n := by
  have hv0 : 0 ≤ u / (1 - u) := le_trans hu (v_bounds u hu hu1).1
  have h1 := hq.abs_sub_le (by positivity)
  have h2 := exp_kv u hu hu1 n
  have h3 := lterm_bound y hy n hn
  have hE : 0 ≤ exp (((2 * n + 2 : ℕ) : ℝ) * (u / (1 - u))) - 1 := by
    linarith [add_one_le_exp (((2 * n + 2 : ℕ) : ℝ) * (u / (1 - u))),
      (by positivity : 0 ≤ ((2 * n + 2 : ℕ) : ℝ) * (u / (1 - u)))]
  have h4 : |lterm y n| * (exp (((2 * n + 2 : ℕ) : ℝ) * (u / (1 - u))) - 1) ≤
      (|L2 y| * (1 / 324 : ℝ) ^ n / 3) * (3 * u * (324 / 100 : ℝ) ^ n) :=
    mul_le_mul h3 h2 hE (by positivity)
  have e : (|L2 y| * (1 / 324 : ℝ) ^ n / 3) * (3 * u * (324 / 100 : ℝ) ^ n) = u * |L2 y| * (1 / 100 : ℝ) ^ n := by
    have : (1 / 324 : ℝ) ^ n * (324 / 100 : ℝ) ^ n = (1 / 100 : ℝ) ^ n := by
      rw [← mul_pow]; norm_num
    calc (|L2 y| * (1 / 324 : ℝ) ^ n / 3) * (3 * u * (324 / 100 : ℝ) ^ n)
        = u * |L2 y| * ((1 / 324 : ℝ) ^ n * (324 / 100 : ℝ) ^ n) := by ring
      _ = _ := by rw [this]
  linarith

/-- L2, one round of the series loop (adding the term of index `m+1`) -/
theorem series_step (y u Th sh α β γ ε : ℝ) (m : ℕ) (hy : |y| ≤ 1 / 18) (hu : 0 ≤ u) (hu1 : u ≤ 1 / 200)
    (hα : |α| ≤ u) (hβ : |β| ≤ u) (hγ : |γ| ≤ u) (hε : |ε| ≤ u)
    (hT : RelW (((2 * m + 1 : ℕ) : ℝ) * (u / (1 - u))) (2 * y ^ (2 * m + 1)) Th)
    (hs : |sh - lsum y (m + 1)| ≤ u * |L2 y| * (1 + u) ^ m * ((m : ℝ) + 1 + cc m)) :
    RelW (((2 * m + 3 : ℕ) : ℝ) * (u / (1 - u))) (2 * y ^ (2 * m + 3)) (Th * y * (1 + α) * y * (1 + β)) ∧
    RelW (((2 * m + 4 : ℕ) : ℝ) * (u / (1 - u))) (lterm y (m + 1))
      (Th * y * (1 + α) * y * (1 + β) / ((2 * (m + 1) + 1 : ℕ) : ℝ) * (1 + γ)) ∧
    |(sh + Th * y * (1 + α) * y * (1 + β) / ((2 * (m + 1) + 1 : ℕ) : ℝ) * (1 + γ)) * (1 + ε) - lsum y (m + 2)| ≤
      u * |L2 y| * (1 + u) ^ (m + 1) * ((m : ℝ) + 2 + cc (m + 1)) := by
  have hu' : u < 1 := by linarith
  set v := u / (1 - u) with hv
  set M := |L2 y| with hM
  have hM0 : 0 ≤ M := abs_nonneg _
  -- the power
  have r1 : RelW (((2 * m + 1 : ℕ) : ℝ) * v + v + v) (2 * y ^ (2 * m + 1) * y * y) (Th * y * (1 + α) * y * (1 + β)) := by
    have a1 := (hT.mul (RelW.refl y)).step α u hα hu'
    have a2 := (a1.mul (RelW.refl y)).step β u hβ hu'
    simp only [add_zero] at a2
    exact a2
  have e1 : 2 * y ^ (2 * m + 1) * y * y = 2 * y ^ (2 * m + 3) := by ring
  have e2 : ((2 * m + 1 : ℕ) : ℝ) * v + v + v = ((2 * m + 3 : ℕ) : ℝ) * v := by push_cast; ring
  rw [e1, e2] at r1
  -- the term
  have r2 : RelW (((2 * m + 4 : ℕ) : ℝ) * v) (lterm y (m + 1))
      (Th * y * (1 + α) * y * (1 + β) / ((2 * (m + 1) + 1 : ℕ) : ℝ) * (1 + γ)) := by
    have a1 := (r1.div_const ((2 * (m + 1) + 1 : ℕ) : ℝ)).step γ u hγ hu'
    have e3 : ((2 * m + 3 : ℕ) : ℝ) * v + v = ((2 * m + 4 : ℕ) : ℝ) * v := by push_cast; ring
    have e4 : 2 * y ^ (2 * m + 3) / ((2 * (m + 1) + 1 : ℕ) : ℝ) = lterm y (m + 1) := by
      unfold lterm; congr 2
    rw [e3, e4] at a1
    exact a1
  refine ⟨r1, r2, ?_⟩
  set qh := Th * y * (1 + α) * y * (1 + β) / ((2 * (m + 1) + 1 : ℕ) : ℝ) * (1 + γ) with hqh
  have r2' : RelW (((2 * (m + 1) + 2 : ℕ) : ℝ) * v) (lterm y (m + 1)) qh := by
    have : ((2 * (m + 1) + 2 : ℕ) : ℝ) = ((2 * m + 4 : ℕ) : ℝ) := by push_cast; ring
    rw [this]; exact r2
  have hq := qerr y u qh (m + 1) (by omega) hy hu hu1 r2'
  have hy1 : |y| < 1 := by linarith
  have hS : |lsum y (m + 2)| ≤ M := lsum_abs_le y hy1 (m + 2)
  rw [show m + 2 = (m + 1) + 1 from rfl, lsum_succ]
  have id : (sh + qh) * (1 + ε) - (lsum y (m + 1) + lterm y (m + 1)) =
      (1 + ε) * ((sh - lsum y (m + 1)) + (qh - lterm y (m + 1))) + ε * (lsum y (m + 1) + lterm y (m + 1)) := by ring
  rw [id]
  have hS' : |lsum y (m + 1) + lterm y (m + 1)| ≤ M := by rw [← lsum_succ]; exact hS
  have h1e : |1 + ε| ≤ 1 + u := by
    calc |1 + ε| ≤ |(1 : ℝ)| + |ε| := abs_add_le _ _
      _ ≤ 1 + u := by rw [abs_one]; linarith
  have hA := abs_add_le (sh - lsum y (m + 1)) (qh - lterm y (m + 1))
  have hpow1 : (1 : ℝ) ≤ (1 + u) ^ m := one_le_pow₀ (by linarith)
  have hpow : (1 : ℝ) ≤ (1 + u) ^ (m + 1) := one_le_pow₀ (by linarith)
  have hpow2 : (1 + u) ^ (m + 1) = (1 + u) ^ m * (1 + u) := pow_succ _ _
  have hcc := cc_succ m
  have hcc0 := (cc_bounds m).1
  have hr0 : (0 : ℝ) ≤ (1 / 100 : ℝ) ^ (m + 1) := by positivity
  have huM : 0 ≤ u * M := mul_nonneg hu hM0
  -- total
  have b1 : |(1 + ε) * ((sh - lsum y (m + 1)) + (qh - lterm y (m + 1)))| ≤
      (1 + u) * (u * M * (1 + u) ^ m * ((m : ℝ) + 1 + cc m) + u * M * (1 / 100 : ℝ) ^ (m + 1)) := by
    rw [abs_mul]
    exact mul_le_mul h1e (le_trans hA (add_le_add hs hq)) (abs_nonneg _) (by linarith)
  have b2 : |ε * (lsum y (m + 1) + lterm y (m + 1))| ≤ u * M := by
    rw [abs_mul]; exact mul_le_mul hε hS' (abs_nonneg _) hu
  refine le_trans (abs_add_le _ _) (le_trans (add_le_add b1 b2) ?_)
  -- (1+u)[uM(1+u)^m (m+1+cc m) + uM r^(m+1)] + uM ≤ uM (1+u)^(m+1) (m+2+cc(m+1))
  have k1 : (1 + u) * (u * M * (1 / 100 : ℝ) ^ (m + 1)) ≤ u * M * (1 + u) ^ (m + 1) * (1 / 100 : ℝ) ^ (m + 1) := by
    have : (1 + u) ≤ (1 + u) ^ (m + 1) := by
      rw [hpow2]; nlinarith
    have h0 : 0 ≤ u * M * (1 / 100 : ℝ) ^ (m + 1) := mul_nonneg huM hr0
    nlinarith
  have k2 : u * M ≤ u * M * (1 + u) ^ (m + 1) := by nlinarith
  have k3 : (1 + u) * (u * M * (1 + u) ^ m * ((m : ℝ) + 1 + cc m)) = u * M * (1 + u) ^ (m + 1) * ((m : ℝ) + 1 + cc m) := by
    rw [hpow2]; ring
  have : u * M * (1 + u) ^ (m + 1) * ((m : ℝ) + 2 + cc (m + 1)) =
      u * M * (1 + u) ^ (m + 1) * ((m : ℝ) + 1 + cc m) + u * M * (1 + u) ^ (m + 1) * (1 / 100 : ℝ) ^ (m + 1) +
        u * M * (1 + u) ^ (m + 1) := by
    rw [← hcc]; ring
  rw [this]
  linarith

/-- L2, the start: `tmp1 = tmp3 = 2y` (one rounded doubling) -/
theorem series_start (y u δ : ℝ) (hy : |y| ≤ 1 / 18) (hu : 0 ≤ u) (hu1 : u ≤ 1 / 200) (hδ : |δ| ≤ u) :
    RelW (((2 * 0 + 1 : ℕ) : ℝ) * (u / (1 - u))) (2 * y ^ (2 * 0 + 1)) (2 * y * (1 + δ)) ∧
    |2 * y * (1 + δ) - lsum y (0 + 1)| ≤ u * |L2 y| * (1 + u) ^ 0 * (((0 : ℕ) : ℝ) + 1 + cc 0) := by
  have hu' : u < 1 := by linarith
  constructor
  · have := (RelW.refl (2 * y)).step δ u hδ hu'
    simpa using this
  · rw [lsum_one]
    have hM := two_abs_le_L2 y (by linarith)
    have : 2 * y * (1 + δ) - 2 * y = 2 * y * δ := by ring
    rw [this, abs_mul, abs_mul, abs_two]
    have : cc 0 = 0 := by unfold cc; simp
    rw [this]
    simp only [pow_zero, Nat.cast_zero, zero_add, add_zero, mul_one]
    calc 2 * |y| * |δ| ≤ |L2 y| * u := mul_le_mul hM hδ (abs_nonneg _) (abs_nonneg _)
      _ = u * |L2 y| := by ring

/-- L2, the stopping rule `|tmp4| ≤ 10^-p = u/5` after the term of index `m+1`: distance to the limit -/
theorem series_final (y u sh qh : ℝ) (m : ℕ) (hy : |y| ≤ 1 / 18) (hu : 0 ≤ u) (hu1 : u ≤ 1 / 200)
    (hk : ((2 * m + 4 : ℕ) : ℝ) * (u / (1 - u)) ≤ 1 / 5)
    (hq : RelW (((2 * m + 4 : ℕ) : ℝ) * (u / (1 - u))) (lterm y (m + 1)) qh)
    (hstop : |qh| ≤ u / 5)
    (hs : |sh - lsum y (m + 2)| ≤ u * |L2 y| * (1 + u) ^ (m + 1) * ((m : ℝ) + 2 + cc (m + 1))) :
    |sh - L2 y| ≤ u * |L2 y| * ((1 + u) ^ (m + 1) * ((m : ℝ) + 2 + 1 / 99) + 7 / 1000) := by
  have hy1 : |y| < 1 := by linarith
  set M := |L2 y| with hM
  have hM0 : 0 ≤ M := abs_nonneg _
  have hMy := two_abs_le_L2 y hy1
  have hrem := lsum_remainder y hy1 (m + 2)
  -- |lterm (m+1)| ≤ |qh| e^{1/5} ≤ u/4
  have ht1 : |lterm y (m + 1)| ≤ u / 4 := by
    have h1 := hq.abs_le.2
    have hE : exp (((2 * m + 4 : ℕ) : ℝ) * (u / (1 - u))) ≤ 5 / 4 := by
      have h2 : exp (((2 * m + 4 : ℕ) : ℝ) * (u / (1 - u))) ≤ exp (1 / 5) := exp_le_exp.2 hk
      have h3 : exp (1 / 5 : ℝ) ≤ 5 / 4 := by
        have := Real.exp_bound_div_one_sub_of_interval (x := 1 / 5) (by norm_num) (by norm_num)
        norm_num at this ⊢; linarith
      linarith
    calc |lterm y (m + 1)| ≤ |qh| * exp (((2 * m + 4 : ℕ) : ℝ) * (u / (1 - u))) := h1
      _ ≤ (u / 5) * (5 / 4) := mul_le_mul hstop hE (exp_pos _).le (by linarith)
      _ = u / 4 := by ring
  -- |lterm (m+2)| ≤ |lterm (m+1)| y²
  have ht2 : |lterm y (m + 2)| ≤ |lterm y (m + 1)| * y ^ 2 := by
    unfold lterm
    rw [abs_div, abs_div, abs_mul, abs_mul, abs_two, abs_pow, abs_pow,
      abs_of_pos (by positivity : (0 : ℝ) < ((2 * (m + 2) + 1 : ℕ) : ℝ)),
      abs_of_pos (by positivity : (0 : ℝ) < ((2 * (m + 1) + 1 : ℕ) : ℝ))]
    have e : |y| ^ (2 * (m + 2) + 1) = |y| ^ (2 * (m + 1) + 1) * y ^ 2 := by
      rw [← sq_abs y, ← pow_add]; congr 1
    rw [e]
    have hd : ((2 * (m + 1) + 1 : ℕ) : ℝ) ≤ ((2 * (m + 2) + 1 : ℕ) : ℝ) := by push_cast; linarith
    have hnum : 0 ≤ 2 * (|y| ^ (2 * (m + 1) + 1) * y ^ 2) := by positivity
    calc 2 * (|y| ^ (2 * (m + 1) + 1) * y ^ 2) / ((2 * (m + 2) + 1 : ℕ) : ℝ)
        ≤ 2 * (|y| ^ (2 * (m + 1) + 1) * y ^ 2) / ((2 * (m + 1) + 1 : ℕ) : ℝ) :=
          div_le_div_of_nonneg_left hnum (by positivity) hd
      _ = 2 * |y| ^ (2 * (m + 1) + 1) / ((2 * (m + 1) + 1 : ℕ) : ℝ) * y ^ 2 := by ring
  have hy2 : y ^ 2 ≤ |y| * (1 / 18) := by
    rw [← sq_abs y, sq]; exact mul_le_mul_of_nonneg_left hy (abs_nonneg _)
  have hy2' : y ^ 2 ≤ 1 / 324 := by
    have : |y| ^ 2 ≤ (1 / 18) ^ 2 := pow_le_pow_left₀ (abs_nonneg _) hy 2
    rw [sq_abs] at this; norm_num at this ⊢; linarith
  have hinv : (1 - y ^ 2)⁻¹ ≤ 324 / 323 := by
    rw [inv_le_comm₀ (by linarith) (by norm_num)]
    norm_num; linarith
  have hR : |L2 y - lsum y (m + 2)| ≤ 7 / 1000 * (u * M) := by
    have a1 : |lterm y (m + 2)| ≤ (u / 4) * (|y| * (1 / 18)) :=
      le_trans ht2 (mul_le_mul ht1 hy2 (sq_nonneg _) (by linarith))
    have a2 : |lterm y (m + 2)| * (1 - y ^ 2)⁻¹ ≤ (u / 4) * (|y| * (1 / 18)) * (324 / 323) :=
      mul_le_mul a1 hinv (by rw [inv_nonneg]; linarith) (by positivity)
    have a3 : (u / 4) * (|y| * (1 / 18)) * (324 / 323) ≤ 7 / 1000 * (u * M) := by
      have : u * |y| ≤ u * (M / 2) := mul_le_mul_of_nonneg_left (by linarith) hu
      nlinarith
    linarith
  have id : sh - L2 y = (sh - lsum y (m + 2)) - (L2 y - lsum y (m + 2)) := by ring
  rw [id]
  have hcc := (cc_bounds (m + 1)).2
  have hpow : (0 : ℝ) ≤ (1 + u) ^ (m + 1) := by positivity
  have huM : 0 ≤ u * M := mul_nonneg hu hM0
  have hs' : u * M * (1 + u) ^ (m + 1) * ((m : ℝ) + 2 + cc (m + 1)) ≤
      u * M * (1 + u) ^ (m + 1) * ((m : ℝ) + 2 + 1 / 99) :=
    mul_le_mul_of_nonneg_left (by linarith) (by positivity)
  calc |sh - lsum y (m + 2) - (L2 y - lsum y (m + 2))|
      ≤ |sh - lsum y (m + 2)| + |L2 y - lsum y (m + 2)| := abs_sub _ _
    _ ≤ u * M * (1 + u) ^ (m + 1) * ((m : ℝ) + 2 + 1 / 99) + 7 / 1000 * (u * M) := add_le_add (le_trans hs hs') hR
    _ = _ := by ring

end Apd.LnAcc
