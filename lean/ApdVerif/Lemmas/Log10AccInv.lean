import ApdVerif.Lemmas.LnAccPre
/-!
# `Log10`: the `1/ln 10` table
-/
namespace Apd.LnAcc
open Apd Apd.Oracle Apd.ExpAcc Apd.C12IL Cond

/-- the two digit strings of const.go are reciprocal to 2997 digits -/
theorem inv_product :
    ln10Coeff * invLn10Coeff ≤ 10 ^ 6005 + 10 ^ 3008 ∧ 10 ^ 6005 ≤ ln10Coeff * invLn10Coeff + 10 ^ 3008 := by
  decide +kernel

theorem ten_ne : (10 : ℝ) ≠ 0 := by norm_num

theorem prod_abs (AB X Y s r : ℝ) (hp1 : AB ≤ X + Y) (hp2 : X ≤ AB + Y) (hs : 0 < s) (e1 : X * s = 1)
    (e2 : Y * s = r) : |AB * s - 1| ≤ r := by
  have h1 := mul_le_mul_of_nonneg_right hp1 hs.le
  have h2 := mul_le_mul_of_nonneg_right hp2 hs.le
  rw [abs_le]
  constructor <;> nlinarith

theorem scale_le_one (B X s : ℝ) (h : B ≤ X) (hs : 0 < s) (e : X * s = 1) : B * s ≤ 1 := by
  have := mul_le_mul_of_nonneg_right h hs.le
  linarith

/-- the product of the two values is 1 to 2997 digits -/
theorem inv_product_real :
    |((ln10Coeff : ℝ) * (10 : ℝ) ^ ln10Exp) * ((invLn10Coeff : ℝ) * (10 : ℝ) ^ invLn10Exp) - 1| ≤
      (10 : ℝ) ^ (-(2997 : ℤ)) := by
  obtain ⟨p1, p2⟩ := inv_product
  have hp1 : ((ln10Coeff * invLn10Coeff : ℕ) : ℝ) ≤ (10 : ℝ) ^ (6005 : ℕ) + (10 : ℝ) ^ (3008 : ℕ) := by exact_mod_cast p1
  have hp2 : (10 : ℝ) ^ (6005 : ℕ) ≤ ((ln10Coeff * invLn10Coeff : ℕ) : ℝ) + (10 : ℝ) ^ (3008 : ℕ) := by exact_mod_cast p2
  have hprod : ((ln10Coeff : ℝ) * (10 : ℝ) ^ ln10Exp) * ((invLn10Coeff : ℝ) * (10 : ℝ) ^ invLn10Exp) =
      ((ln10Coeff * invLn10Coeff : ℕ) : ℝ) * (10 : ℝ) ^ (-(6005 : ℤ)) := by
    unfold ln10Exp invLn10Exp
    push_cast
    rw [show (-(6005 : ℤ)) = -3010 + -2995 by norm_num, zpow_add₀ ten_ne]
    ring
  have hs : (0 : ℝ) < (10 : ℝ) ^ (-(6005 : ℤ)) := zpow_pos (by norm_num) _
  have e1 : (10 : ℝ) ^ (6005 : ℕ) * (10 : ℝ) ^ (-(6005 : ℤ)) = 1 := by
    rw [zpow_neg, zpow_ofNat]
    exact mul_inv_cancel₀ (pow_ne_zero _ ten_ne)
  have e2 : (10 : ℝ) ^ (3008 : ℕ) * (10 : ℝ) ^ (-(6005 : ℤ)) = (10 : ℝ) ^ (-(2997 : ℤ)) := by
    rw [← zpow_natCast (10 : ℝ) 3008, ← zpow_add₀ ten_ne]
    congr 1
  rw [hprod]
  exact prod_abs _ _ _ _ _ hp1 hp2 hs e1 e2

theorem inv_iota_le_one : (invLn10Coeff : ℝ) * (10 : ℝ) ^ invLn10Exp ≤ 1 := by
  have : invLn10Coeff ≤ 10 ^ 2995 := by decide +kernel
  have h' : (invLn10Coeff : ℝ) ≤ (10 : ℝ) ^ (2995 : ℕ) := by exact_mod_cast this
  unfold invLn10Exp
  have e : (10 : ℝ) ^ (2995 : ℕ) * (10 : ℝ) ^ (-(2995 : ℤ)) = 1 := by
    rw [zpow_neg, zpow_ofNat]
    exact mul_inv_cancel₀ (pow_ne_zero _ ten_ne)
  have hs2 : (0 : ℝ) < (10 : ℝ) ^ (-(2995 : ℤ)) := zpow_pos (by norm_num) _
  exact scale_le_one _ _ _ h' hs2 e

/-- `invLn10Coeff·10^-2995` is `1/ln 10` to 94 digits -/
theorem invLn10_cert : |(invLn10Coeff : ℝ) * (10 : ℝ) ^ invLn10Exp - 1 / Real.log 10| ≤ (10 : ℝ) ^ (-(94 : ℤ)) := by
  have hη := inv_product_real
  have hc := ln10_cert
  have hι1 := inv_iota_le_one
  obtain ⟨l1, l2⟩ := log10_bounds
  have hι0 : 0 ≤ (invLn10Coeff : ℝ) * (10 : ℝ) ^ invLn10Exp := by positivity
  generalize (ln10Coeff : ℝ) * (10 : ℝ) ^ ln10Exp = Lh at hη hc
  generalize (invLn10Coeff : ℝ) * (10 : ℝ) ^ invLn10Exp = ι at hη hι1 hι0 ⊢
  have hlog : 0 < Real.log 10 := lt_of_lt_of_le (by norm_num) l1
  have id : ι - 1 / Real.log 10 = ((Lh * ι - 1) + ι * (Real.log 10 - Lh)) / Real.log 10 := by
    field_simp; ring
  rw [id, abs_div, abs_of_pos hlog, div_le_iff₀ hlog]
  have hc' : |Real.log 10 - Lh| ≤ (10 : ℝ) ^ (-(95 : ℤ)) := by rw [abs_sub_comm]; exact hc
  have h3 : |ι * (Real.log 10 - Lh)| ≤ (10 : ℝ) ^ (-(95 : ℤ)) := by
    rw [abs_mul, abs_of_nonneg hι0]
    calc ι * |Real.log 10 - Lh| ≤ 1 * (10 : ℝ) ^ (-(95 : ℤ)) := mul_le_mul hι1 hc' (abs_nonneg _) (by norm_num)
      _ = _ := one_mul _
  have h4 : (10 : ℝ) ^ (-(2997 : ℤ)) ≤ (10 : ℝ) ^ (-(95 : ℤ)) := zpow_le_zpow_right₀ (by norm_num) (by norm_num)
  have h5 : (10 : ℝ) ^ (-(94 : ℤ)) = 10 * (10 : ℝ) ^ (-(95 : ℤ)) := by
    rw [show (-(94 : ℤ)) = 1 + -(95 : ℤ) by norm_num, zpow_add₀ ten_ne]; norm_num
  have hp95 : (0 : ℝ) < (10 : ℝ) ^ (-(95 : ℤ)) := zpow_pos (by norm_num) _
  rw [h5]
  generalize (10 : ℝ) ^ (-(95 : ℤ)) = a95 at *
  generalize (10 : ℝ) ^ (-(2997 : ℤ)) = a2997 at *
  calc |Lh * ι - 1 + ι * (Real.log 10 - Lh)| ≤ |Lh * ι - 1| + |ι * (Real.log 10 - Lh)| := abs_add_le _ _
    _ ≤ 2 * a95 := by linarith
    _ ≤ 10 * a95 * Real.log 10 := by nlinarith

/-- the eight `1/ln 10` entries for `p ≤ 128` -/
theorem inv_table8 (i : Nat) (hi : i < 8) :
    let d := constAt invLn10Coeff invLn10Exp invLn10StrLen i
    d.form = .finite ∧ d.neg = false ∧ d.exp = -((2 ^ i : Nat) : Int) ∧
    2 * (d.coeff * 10 ^ (2995 - 2 ^ i)) ≤ 2 * invLn10Coeff + 10 ^ (2995 - 2 ^ i) ∧
    2 * invLn10Coeff ≤ 2 * (d.coeff * 10 ^ (2995 - 2 ^ i)) + 10 ^ (2995 - 2 ^ i) := by
  interval_cases i <;> decide +kernel

theorem invLn10At_eq (p : Nat) : invLn10At p = constAt invLn10Coeff invLn10Exp invLn10StrLen (constIdx p) := rfl

/-- the `1/ln 10` table value at `3 ≤ p ≤ 90`: within `u/10·1.001` of `1/ln 10`, and between 0.43 and 0.44 -/
theorem invLn10At_near (p : Nat) (hp1 : 3 ≤ p) (hp : p ≤ 90) :
    (invLn10At p).form = .finite ∧ |rv (invLn10At p) - 1 / Real.log 10| ≤ 1001 / 10000 * uR p ∧
    43 / 100 ≤ rv (invLn10At p) ∧ rv (invLn10At p) ≤ 44 / 100 := by
  rw [invLn10At_eq]
  obtain ⟨hi8, hpi⟩ := constIdx_bounds p (by omega) (by omega)
  obtain ⟨hf, hn, he, hlo, hhi⟩ := inv_table8 (constIdx p) hi8
  set i := constIdx p with hidef
  set d := constAt invLn10Coeff invLn10Exp invLn10StrLen i with hd
  have hcert := invLn10_cert
  have hpow : 2 ^ i ≤ 128 := by
    have : 2 ^ i ≤ 2 ^ 7 := Nat.pow_le_pow_right (by decide) (by omega)
    simpa using this
  have hrv : rv d = (d.coeff : ℝ) * (10 : ℝ) ^ (-((2 ^ i : ℕ) : ℤ)) := by
    unfold rv Dec.toRat
    rw [hn, he]; push_cast; simp
  have hloR : (2 : ℝ) * ((d.coeff : ℝ) * (10 : ℝ) ^ (2995 - 2 ^ i)) ≤ 2 * (invLn10Coeff : ℝ) + (10 : ℝ) ^ (2995 - 2 ^ i) := by
    exact_mod_cast hlo
  have hhiR : (2 : ℝ) * (invLn10Coeff : ℝ) ≤ 2 * ((d.coeff : ℝ) * (10 : ℝ) ^ (2995 - 2 ^ i)) + (10 : ℝ) ^ (2995 - 2 ^ i) := by
    exact_mod_cast hhi
  have hs : (0 : ℝ) < (10 : ℝ) ^ invLn10Exp := zpow_pos (by norm_num) _
  have escale : (10 : ℝ) ^ (2995 - 2 ^ i) * (10 : ℝ) ^ invLn10Exp = (10 : ℝ) ^ (-((2 ^ i : ℕ) : ℤ)) := by
    rw [← zpow_natCast (10 : ℝ) (2995 - 2 ^ i), ← zpow_add₀ (by norm_num : (10 : ℝ) ≠ 0)]
    congr 1
    rw [Nat.cast_sub (by omega)]
    unfold invLn10Exp
    push_cast; ring
  have hd1 : |rv d - (invLn10Coeff : ℝ) * (10 : ℝ) ^ invLn10Exp| ≤ (10 : ℝ) ^ (-((2 ^ i : ℕ) : ℤ)) / 2 := by
    rw [hrv, ← escale]
    rw [abs_le]
    constructor <;> nlinarith
  have hmono : (10 : ℝ) ^ (-((2 ^ i : ℕ) : ℤ)) ≤ (10 : ℝ) ^ (-(p : ℤ)) := by
    apply zpow_le_zpow_right₀ (by norm_num)
    have : (p : ℤ) ≤ ((2 ^ i : ℕ) : ℤ) := by exact_mod_cast hpi
    omega
  have hu : uR p = (10 : ℝ) ^ (1 - (p : ℤ)) / 2 := rfl
  have e10 : (10 : ℝ) ^ (1 - (p : ℤ)) = 10 * (10 : ℝ) ^ (-(p : ℤ)) := by
    rw [sub_eq_add_neg, zpow_add₀ (by norm_num : (10 : ℝ) ≠ 0), zpow_one]
  have hA0 : (0 : ℝ) < (10 : ℝ) ^ (-(p : ℤ)) := zpow_pos (by norm_num) _
  have h90 : (10 : ℝ) ^ (-(90 : ℤ)) ≤ (10 : ℝ) ^ (-(p : ℤ)) := zpow_le_zpow_right₀ (by norm_num) (by omega)
  have e94 : (10 : ℝ) ^ (-(94 : ℤ)) = (10 : ℝ) ^ (-(90 : ℤ)) / 10000 := by
    rw [show (-(94 : ℤ)) = -(90 : ℤ) - 4 by norm_num, zpow_sub₀ (by norm_num : (10 : ℝ) ≠ 0)]
    norm_num
  have tri : |rv d - 1 / Real.log 10| ≤ |rv d - (invLn10Coeff : ℝ) * (10 : ℝ) ^ invLn10Exp| +
      |(invLn10Coeff : ℝ) * (10 : ℝ) ^ invLn10Exp - 1 / Real.log 10| := by
    have : rv d - 1 / Real.log 10 = (rv d - (invLn10Coeff : ℝ) * (10 : ℝ) ^ invLn10Exp) +
      ((invLn10Coeff : ℝ) * (10 : ℝ) ^ invLn10Exp - 1 / Real.log 10) := by ring
    rw [this]; exact abs_add_le _ _
  have hnear : |rv d - 1 / Real.log 10| ≤ 1001 / 10000 * uR p := by
    rw [e94] at hcert
    rw [hu, e10]
    generalize (10 : ℝ) ^ (-(p : ℤ)) = A at *
    generalize (10 : ℝ) ^ (-(90 : ℤ)) = B at *
    generalize (10 : ℝ) ^ (-((2 ^ i : ℕ) : ℤ)) = C at *
    linarith
  refine ⟨hf, hnear, ?_, ?_⟩
  · obtain ⟨l1, l2⟩ := log10_bounds
    have hu1 := uR_small p hp1
    have hinv : 433 / 1000 ≤ 1 / Real.log 10 := by
      rw [le_div_iff₀ (by linarith)]; nlinarith
    have := (abs_le.1 hnear).1
    linarith
  · obtain ⟨l1, l2⟩ := log10_bounds
    have hu1 := uR_small p hp1
    have hinv : 1 / Real.log 10 ≤ 436 / 1000 := by
      rw [div_le_iff₀ (by linarith)]; nlinarith
    have := (abs_le.1 hnear).2
    linarith

end Apd.LnAcc
