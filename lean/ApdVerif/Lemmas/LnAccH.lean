import ApdVerif.Lemmas.LnAccS1
/-!
# `Ln`: the Halley path H
-/
namespace Apd.LnAcc
open Apd Apd.Oracle Apd.ExpAcc Apd.C12IL Apd.Props Cond

/-- the error of the inner `Exp` in units of `u` -/
theorem omegaE_le (p : Nat) (hp : 3 ≤ p) : omegaE p ≤ 114 / 100 * uR p := by
  unfold omegaE uL
  have hu1 := uR_small p hp
  have hu0 := uR_pos p
  have h1 : (10 : ℝ) ^ (-(p : ℤ)) = uR p / 5 := by
    rw [uR_eq, zpow_neg, zpow_natCast]; field_simp
  rw [h1]
  have h2 := (v_bounds (uR p) hu0.le hu1).2
  linarith

/-- the last iterate: `|t - L| ≤ u(3.495 + ξb)` -/
theorem h_real_t (L t u ωE ξb : ℝ) (hu0 : 0 ≤ u) (hu1 : u ≤ 1 / 200)
    (hξ : 266 * u + 23300 * u ^ 2 ≤ ξb) (hξb : ξb ≤ 2) (hω : ωE ≤ 114 / 100 * u)
    (ht : |t - L| ≤ ωE + u * (100503 / 100000 * |t| + 266 * u + 23300 * u ^ 2)) (ht3 : |t| ≤ 3)
    (hL : |L| ≤ 23081 / 10000) : |t - L| ≤ u * (34950 / 10000 + ξb) := by
  have ht1 : |t - L| ≤ u * 7 := by
    have h2 : u * (100503 / 100000 * |t| + 266 * u + 23300 * u ^ 2) ≤ u * (100503 / 100000 * 3 + ξb) :=
      mul_le_mul_of_nonneg_left (by linarith) hu0
    have h3 : u * (100503 / 100000 * 3 + ξb) ≤ u * (100503 / 100000 * 3 + 2) :=
      mul_le_mul_of_nonneg_left (by linarith) hu0
    linarith
  have htabs : |t| ≤ 23431 / 10000 := by
    have : |t| ≤ |L| + |t - L| := by
      have := abs_sub_abs_le_abs_sub t L; linarith
    linarith
  have h2 : u * (100503 / 100000 * |t| + 266 * u + 23300 * u ^ 2) ≤ u * (100503 / 100000 * (23431 / 10000) + ξb) :=
    mul_le_mul_of_nonneg_left (by linarith) hu0
  have e : u * (34950 / 10000 + ξb) = 114 / 100 * u + u * (23550 / 10000 + ξb) := by ring
  rw [e]
  have h4 : u * (100503 / 100000 * (23431 / 10000) + ξb) ≤ u * (23550 / 10000 + ξb) :=
    mul_le_mul_of_nonneg_left (by norm_num) hu0
  linarith

/-- `|F - R| ≤ u·c0 + 2.4496·u·|R|`, `c0 = 6.85332 + 1.005 ξb` -/
theorem h_real_B (L R er t A F u δf ξb : ℝ) (hu0 : 0 ≤ u) (hu1 : u ≤ 1 / 200) (hξb0 : 0 ≤ ξb)
    (ht2 : |t - L| ≤ u * (34950 / 10000 + ξb))
    (hL : |L| ≤ 23081 / 10000) (hR : R = L + er * Real.log 10)
    (hA : |A - er * Real.log 10| ≤ 33142 / 10000 * |er| * u)
    (hδf : |δf| ≤ u) (hF : F = (t + A) * (1 + δf)) :
    |F - R| ≤ u * (68582 / 10000 + 1005 / 1000 * ξb) + 24496 / 10000 * u * |R| := by
  obtain ⟨l1, l2⟩ := log10_bounds
  have id : F - R = ((t - L) + (A - er * Real.log 10)) * (1 + δf) + δf * R := by rw [hF, hR]; ring
  have h1f : |1 + δf| ≤ 1 + u := by
    calc |1 + δf| ≤ |(1 : ℝ)| + |δf| := abs_add_le _ _
      _ ≤ 1 + u := by rw [abs_one]; linarith
  have her0 := abs_nonneg er
  have hR0 := abs_nonneg R
  have hsum0 : 0 ≤ u * (34950 / 10000 + ξb) + 33142 / 10000 * |er| * u := by
    have : 0 ≤ u * (34950 / 10000 + ξb) := mul_nonneg hu0 (by linarith)
    have : 0 ≤ 33142 / 10000 * |er| * u := by positivity
    linarith
  have hb1 : |F - R| ≤ (u * (34950 / 10000 + ξb) + 33142 / 10000 * |er| * u) * (1 + u) + u * |R| := by
    rw [id]
    have a1 : |((t - L) + (A - er * Real.log 10)) * (1 + δf)| ≤
        (u * (34950 / 10000 + ξb) + 33142 / 10000 * |er| * u) * (1 + u) := by
      rw [abs_mul]
      exact mul_le_mul (le_trans (abs_add_le _ _) (add_le_add ht2 hA)) h1f (abs_nonneg _) hsum0
    have a2 : |δf * R| ≤ u * |R| := by rw [abs_mul]; exact mul_le_mul_of_nonneg_right hδf (abs_nonneg _)
    exact le_trans (abs_add_le _ _) (add_le_add a1 a2)
  have her : |er| * (22979 / 10000) ≤ |R| + 23081 / 10000 := by
    have h3 : |er * Real.log 10| ≤ |R| + |L| := by
      have : er * Real.log 10 = R - L := by rw [hR]; ring
      rw [this]; exact abs_sub _ _
    rw [abs_mul, abs_of_nonneg (by linarith : (0:ℝ) ≤ Real.log 10)] at h3
    have : |er| * (22979 / 10000) ≤ |er| * Real.log 10 := mul_le_mul_of_nonneg_left l1 (abs_nonneg _)
    linarith
  have her2 : 33142 / 10000 * |er| ≤ 14423 / 10000 * |R| + 33290 / 10000 := by linarith
  have e1 : (u * (34950 / 10000 + ξb) + 33142 / 10000 * |er| * u) ≤
      u * (34950 / 10000 + ξb + (14423 / 10000 * |R| + 33290 / 10000)) := by
    have : (u * (34950 / 10000 + ξb) + 33142 / 10000 * |er| * u) = u * (34950 / 10000 + ξb + 33142 / 10000 * |er|) := by ring
    rw [this]
    exact mul_le_mul_of_nonneg_left (by linarith) hu0
  have e2 : (u * (34950 / 10000 + ξb) + 33142 / 10000 * |er| * u) * (1 + u) ≤
      u * (34950 / 10000 + ξb + (14423 / 10000 * |R| + 33290 / 10000)) * (1 + 1 / 200) :=
    mul_le_mul e1 (by linarith) (by linarith) (by
      apply mul_nonneg hu0; linarith)
  have hX : 0 ≤ u * |R| := mul_nonneg hu0 hR0
  have hY : 0 ≤ u * ξb := mul_nonneg hu0 hξb0
  have expand : u * (34950 / 10000 + ξb + (14423 / 10000 * |R| + 33290 / 10000)) * (1 + 1 / 200) =
      u * (68240 / 10000 * (201 / 200)) + (201 / 200) * (u * ξb) + 14423 / 10000 * (201 / 200) * (u * |R|) := by ring
  rw [expand] at e2
  have : u * (68582 / 10000 + 1005 / 1000 * ξb) = u * (68582 / 10000) + 1005 / 1000 * (u * ξb) := by ring
  rw [this]
  nlinarith

/-- the sum `F = (t + A)(1+δf)` of the Halley path against `R = L + e·ln 10` -/
theorem h_real (L R er t A F u ωE δf ξb C : ℝ) (hu0 : 0 ≤ u) (hu1 : u ≤ 1 / 200)
    (hξ : 266 * u + 23300 * u ^ 2 ≤ ξb) (hξb : ξb ≤ 2) (hω : ωE ≤ 114 / 100 * u)
    (ht : |t - L| ≤ ωE + u * (100503 / 100000 * |t| + 266 * u + 23300 * u ^ 2)) (ht3 : |t| ≤ 3)
    (hL : |L| ≤ 23081 / 10000) (hR : R = L + er * Real.log 10)
    (hA : |A - er * Real.log 10| ≤ 33142 / 10000 * |er| * u)
    (hδf : |δf| ≤ u) (hF : F = (t + A) * (1 + δf))
    (hC : 10124 / 10000 * (68582 / 10000 + 1005 / 1000 * ξb) ≤ C) :
    |F - R| ≤ C * u + 5 / 2 * u * |F| := by
  have hξ0 : 0 ≤ 266 * u + 23300 * u ^ 2 := by positivity
  have hξb0 : 0 ≤ ξb := le_trans hξ0 hξ
  have ht2 := h_real_t L t u ωE ξb hu0 hu1 hξ hξb hω ht ht3 hL
  have hb2 := h_real_B L R er t A F u δf ξb hu0 hu1 hξb0 ht2 hL hR hA hδf hF
  generalize hc0 : (68582 / 10000 + 1005 / 1000 * ξb : ℝ) = c0 at hb2 hC
  have hc00 : 0 ≤ c0 := by rw [← hc0]; linarith
  have hF0 := abs_nonneg F
  have hR0 := abs_nonneg R
  have hRF : |R| ≤ |F| + |F - R| := by
    have := abs_sub_abs_le_abs_sub R F
    rw [abs_sub_comm] at this; linarith
  have hX : 0 ≤ u * |R| := mul_nonneg hu0 hR0
  have hRb : |R| ≤ 10124 / 10000 * (|F| + c0 * u) := by
    have h6 : |R| ≤ |F| + u * c0 + 24496 / 10000 * (u * |R|) := by linarith
    have h7 : u * |R| ≤ 1 / 200 * |R| := mul_le_mul_of_nonneg_right hu1 hR0
    linarith
  have hX1 : 0 ≤ u * |F| := mul_nonneg hu0 hF0
  have hX2 : 0 ≤ u * c0 := mul_nonneg hu0 hc00
  have h8 : 24496 / 10000 * u * |R| ≤ 24496 / 10000 * u * (10124 / 10000 * (|F| + c0 * u)) :=
    mul_le_mul_of_nonneg_left hRb (by positivity)
  have h9 : u * (u * c0) ≤ 1 / 200 * (u * c0) := mul_le_mul_of_nonneg_right hu1 hX2
  have hCu : 10124 / 10000 * (u * c0) ≤ C * u := by
    have := mul_le_mul_of_nonneg_right hC hu0
    linarith
  have e : 24496 / 10000 * u * (10124 / 10000 * (|F| + c0 * u)) =
      24496 / 10000 * (10124 / 10000) * (u * |F|) + 24496 / 10000 * (10124 / 10000) * (u * (u * c0)) := by ring
  rw [e] at h8
  linarith

theorem lnHalleyOK_nf (nc : Ctx) (prec : Int) (mi : Nat) (z : Dec) (fuel : Nat) (e : ED) (t : Dec) (l : LoopSt)
    (tape : Tape) (h : lnHalleyOK nc prec mi z fuel e t l tape = true) : e.failed = false := by
  cases fuel with
  | zero => simp [lnHalleyOK] at h
  | succ fuel =>
    unfold lnHalleyOK at h
    simp only [Bool.and_eq_true, Bool.not_eq_true'] at h
    exact h.1

theorem lnTail_nf (c : Ctx) (ed : ED) (tmp1 resAdjust : Dec) (tape r' : Tape) (o : Out)
    (h : lnTail c ed tmp1 resAdjust tape = some (o, r'))
    (hd : o.err = .none ∨ (o.err = .trap ∧ (o.fl &&& c.traps).any = true)) : ed.failed = false := by
  unfold lnTail at h
  simp only [] at h
  by_cases hf : (ed.step tmp1 (fun k => addOp k tmp1 resAdjust false)).1.failed = true
  · rw [if_pos hf] at h
    simp only [Option.some.injEq, Prod.mk.injEq] at h
    obtain ⟨rfl, _⟩ := h
    exact (TL.not_deliv_of_failed (TL.failed_of_ed _ hf) hd).elim
  · have hf' : (ed.step tmp1 (fun k => addOp k tmp1 resAdjust false)).1.failed = false := by simpa using hf
    exact (step_ok _ _ _ hf').1

/-- path H (Halley's iteration): `(ρ + 1/8)` units in the last place plus `C·u`, `u = 10^(-P-1)/2`;
`C` from a bound `ξb` on `266u + 23300u²` -/
theorem ln_path_H (c : Ctx) (hc : c.WF) (x : Dec) (hx : PosFin x) (hp2 : c.prec + 2 ≤ 100000)
    (hp90 : lnExpDelta x = 0 ∨ c.prec + 2 ≤ 90)
    (hsp : logSpecials c x = none) (h0 : ¬ (lnA1 c x).2.absD.cmp lnTenth ≤ 0)
    (h1 : ¬ (lnA3 c x).2.absD.cmp lnTenth ≤ 0) (d : Dec) (tape r' : Tape) (o : Out)
    (hOK : lnHalleyOK (lnNc c) ((c.prec : Int) + 1) (10 + (c.prec + 1)) (lnZ x) (10 + (c.prec + 1) + 2)
      (lnA3 c x).1 d {} tape = true)
    (h : lnT c x (.est d :: tape) = some (o, r'))
    (hd : o.err = .none ∨ (o.err = .trap ∧ (o.fl &&& c.traps).any = true)) (hf : o.d.form = .finite)
    (ξb C : ℝ) (hξ : 266 * uR (c.prec + 2) + 23300 * uR (c.prec + 2) ^ 2 ≤ ξb) (hξb : ξb ≤ 2)
    (hC : 10124 / 10000 * (68582 / 10000 + 1005 / 1000 * ξb) ≤ C) :
    |rv o.d - Real.log (rv x)| ≤
      (((rhoMode c.mode : ℚ) : ℝ) + 1 / 8) * (10 : ℝ) ^ (ulpExp c o.d) + C * uR (c.prec + 2) := by
  have hc1 : 1 ≤ c.prec := hc.1
  have hw := lnNc_wide c hc1 hp2
  rw [lnT_H c x d tape hsp h0 h1] at h
  unfold lnFinish at h
  cases hH : lnHalley (lnNc c) ((c.prec : Int) + 1) (10 + (c.prec + 1)) (lnZ x) (10 + (c.prec + 1) + 2)
      (lnA3 c x).1 d {} tape with
  | none => rw [hH] at h; simp at h
  | some q =>
    obtain ⟨e', r, tp⟩ := q
    rw [hH] at h
    cases r with
    | inl er =>
      simp only [Option.some.injEq, Prod.mk.injEq] at h
      obtain ⟨rfl, _⟩ := h
      have hne := TL.lnHalley_inl _ _ _ _ _ _ _ _ _ _ _ _ hH
      exact (TL.not_deliv_of_failed (TL.failed_mk _ hne) hd).elim
    | inr t =>
      simp only [] at h
      have enf := lnTail_nf c e' t _ tp r' o h hd
      have nf3 := lnHalleyOK_nf _ _ _ _ _ _ _ _ _ hOK
      obtain ⟨C3, _, Af, _, ⟨δm, hδm, Av⟩⟩ := pre_ok c hc1 hp2 x hx nf3
      have hzp := lnZ_posFin x hx
      have hprec : ((c.prec : Int) + 1) = (((lnNc c).prec : ℕ) : Int) - 1 := by
        show ((c.prec : Int) + 1) = ((c.prec + 2 : ℕ) : Int) - 1
        push_cast; ring
      obtain ⟨ec, tf, t3, tb⟩ := halley_loop (lnNc c) hw rfl (by show 3 ≤ c.prec + 2; omega) _ hprec
        (10 + (c.prec + 1)) (lnZ x) hzp.fin hzp.rv_pos _ _ d {} tape C3 (by intro hh; simp at hh) hOK e' t tp hH enf
      obtain ⟨F, Ff, ⟨δf, hδf, Fv⟩, hod, hns⟩ := lnTail_ok c hc hp2 e' ec t _ tf Af tp r' o h hd
      set u := uR (c.prec + 2) with hu
      have hu1 : u ≤ 1 / 200 := uR_small _ (by omega)
      have hu0 : 0 < u := uR_pos _
      set L := Real.log (rv (lnZ x)) with hL
      set R := Real.log (rv x) with hR
      have hRL : R = L + (lnExpDelta x : ℝ) * Real.log 10 := log_scale x hx
      obtain ⟨z1, z2⟩ := lnZ_range x hx
      obtain ⟨l1, l2⟩ := log10_bounds
      have hLabs : |L| ≤ 23081 / 10000 := by
        have hneg : L ≤ 0 := Real.log_nonpos hzp.rv_pos.le z2.le
        have hge : -Real.log 10 ≤ L := by
          have : Real.log (1 / 10) ≤ L := Real.log_le_log (by norm_num) z1
          rw [one_div, Real.log_inv] at this; exact this
        rw [abs_of_nonpos hneg]; linarith
      have hA : |rv (lnA2 c x).2 - (lnExpDelta x : ℝ) * Real.log 10| ≤ 33142 / 10000 * |(lnExpDelta x : ℝ)| * u := by
        rw [Av]
        rcases hp90 with he0 | h90
        · rw [he0]; simp
        · exact adjust_err _ _ δm u hu0.le hu1 hδm (ln10At_near _ (by omega) h90).2
      have hω : omegaE (c.prec + 2) ≤ 114 / 100 * u := omegaE_le _ (by omega)
      have tb' : |rv t - L| ≤ omegaE (c.prec + 2) + u * (100503 / 100000 * |rv t| + 266 * u + 23300 * u ^ 2) := tb
      have hFR := h_real L R (lnExpDelta x : ℝ) (rv t) (rv (lnA2 c x).2) (rv F) u (omegaE (c.prec + 2)) δf ξb C
        hu0.le hu1 hξ hξb hω tb' t3 hLabs hRL hA hδf Fv hC
      have hC0 : 0 ≤ C := by
        have h0' : 0 ≤ 266 * u + 23300 * u ^ 2 := by positivity
        have : 0 ≤ ξb := le_trans h0' hξ
        nlinarith
      have hρ := rhoMode_nonneg c.mode
      rw [hod] at hf ⊢
      by_cases hF0 : rv F = 0
      · -- the sum is exactly zero: so is the result
        have hA0 := C01_roundCore c hc F Ff hns
        have hcoef : F.coeff = 0 := (rv_eq_zero_iff F).1 hF0
        have hd0 : rv (ctxRound c F).1 = 0 := rv_zero_of_agrees c _ _ _ hA0 hf hcoef
        rw [hd0]
        rw [hF0] at hFR
        simp only [abs_zero, mul_zero, add_zero] at hFR
        have : (0 : ℝ) ≤ (((rhoMode c.mode : ℚ) : ℝ) + 1 / 8) * (10 : ℝ) ^ (ulpExp c (ctxRound c F).1) := by positivity
        linarith
      · obtain ⟨q, hq1, hq3, hq4⟩ := ln_final_abs c hc F Ff hF0 R _ hFR hns hf
        have hmono : (10 : ℝ) ^ q ≤ (10 : ℝ) ^ (ulpExp c (ctxRound c F).1) := zpow_le_zpow_right₀ (by norm_num) hq1
        have hup := uR_pow c.prec
        have e3 : (10 : ℝ) ^ (q + (c.prec : ℤ)) = (10 : ℝ) ^ c.prec * (10 : ℝ) ^ q := by
          rw [zpow_add₀ (by norm_num : (10 : ℝ) ≠ 0), zpow_natCast]; ring
        rw [e3] at hq3
        have h5 : 5 / 2 * u * |rv F| ≤ 1 / 8 * (10 : ℝ) ^ q := by
          have : u * |rv F| ≤ u * ((10 : ℝ) ^ c.prec * (10 : ℝ) ^ q) := mul_le_mul_of_nonneg_left hq3.le hu0.le
          have e4 : u * ((10 : ℝ) ^ c.prec * (10 : ℝ) ^ q) = (u * (10 : ℝ) ^ c.prec) * (10 : ℝ) ^ q := by ring
          rw [e4, hup] at this
          linarith
        have hcoef : 0 ≤ ((rhoMode c.mode : ℚ) : ℝ) + 1 / 8 := by linarith
        have := mul_le_mul_of_nonneg_left hmono hcoef
        linarith

end Apd.LnAcc
