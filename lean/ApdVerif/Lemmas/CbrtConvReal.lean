import ApdVerif.Lemmas.CbrtNewton
import Mathlib.Tactic.Ring
import Mathlib.Tactic.Linarith
import Mathlib.Tactic.NormNum
import Mathlib.Tactic.Positivity
import Mathlib.Tactic.FieldSimp
import Mathlib.Tactic.IntervalCases
/-!
# `Context.Cbrt` converges — the numerical core

* `poly_bound`: Turkowski's quadratic first estimate `p(t) = (c1·t + c2)·t + c3` is within 3 % of `∛t` on `[0.1249, 1]`
  (stated on cubes, over `ℚ`; proved by cutting the interval into 36 pieces on which the monotone `p` is compared with
  the end points);
* `pow_one_add_le`, `pow_one_sub_ge`: `K` roundings of relative size `ε` with `K·ε ≤ β` stay within `1/(1-β)`, `1-β`;
  `pow_block`: with `K·ε ≤ 4` they stay within `[1/65, 65]` (64 blocks); `chain_cube`: the cube of the first iterate;
* `newton_wide`: one Newton step from anywhere in `[L, U]` lands in `[1, max (n L) (n U)]`; `Near`, `near_step`: the
  intervals `[0.24, 4.15] → [0.997, 5.963] → 3.995 → 2.692 → 1.846 → 1.332 → 1.079 → 1 ± 0.009` for the first seven
  rounds, then `Ebound`;
* `newton_step`: one exact Newton step from within `E ≤ 0.073` of the root lands within `1.11·E²` above it, the five
  rounded operations add `Θ`; `Ebound`: the resulting error sequence `0.07·10^(-k) + 0.3·t²`;
* `stop_ok`: once `k ≥ P + 1` two consecutive iterates differ by less than the stopping threshold.
-/
set_option linter.unusedVariables false

namespace Apd.CbrtR

/-! ## many roundings -/

theorem pow_one_sub_ge (ε : ℚ) (K : ℕ) (h0 : 0 ≤ ε) (h1 : ε ≤ 1) : 1 - K * ε ≤ (1 - ε) ^ K := by
  have := one_add_mul_le_pow (show (-2 : ℚ) ≤ -ε by linarith) K
  have e : (1 + -ε) = 1 - ε := by ring
  rw [e] at this
  linarith

theorem pow_one_add_le (ε β : ℚ) (K : ℕ) (h0 : 0 ≤ ε) (hβ : (K : ℚ) * ε ≤ β) (hβ1 : β < 1) :
    (1 + ε) ^ K ≤ 1 / (1 - β) := by
  have hb : 0 < 1 - β := by linarith
  rcases Nat.eq_zero_or_pos K with hK | hK
  · subst hK
    simp only [pow_zero]
    rw [le_div_iff₀ hb]
    simp at hβ
    linarith
  · have hK1 : (1 : ℚ) ≤ K := by exact_mod_cast hK
    have hε1 : ε ≤ β := by nlinarith
    have h1 := pow_one_sub_ge ε K h0 (by linarith)
    have hpos : 0 < (1 - ε) ^ K := by apply pow_pos; linarith
    have hprod : (1 + ε) ^ K * (1 - ε) ^ K ≤ 1 := by
      rw [← mul_pow]
      apply pow_le_one₀
      · nlinarith
      · nlinarith
    rw [le_div_iff₀ hb]
    have h2 : 1 - β ≤ (1 - ε) ^ K := by linarith
    have h3 : 0 ≤ (1 + ε) ^ K := by positivity
    calc (1 + ε) ^ K * (1 - β) ≤ (1 + ε) ^ K * (1 - ε) ^ K := mul_le_mul_of_nonneg_left h2 h3
      _ ≤ 1 := hprod

/-! ## the first estimate -/

/-- Turkowski's polynomial with the constants of `context.go` -/
def pc (t : ℚ) : ℚ := (-(46946116 / 100000000) * t + 1072302 / 1000000) * t + 3812513 / 10000000

theorem pc_mono (u v : ℚ) (h0 : 0 ≤ u) (huv : u ≤ v) (hv : v ≤ 1) : pc u ≤ pc v := by
  unfold pc
  nlinarith [mul_nonneg (sub_nonneg.2 huv) h0, mul_nonneg (sub_nonneg.2 huv) (sub_nonneg.2 hv)]

theorem pc_pos (t : ℚ) (h0 : 0 ≤ t) (h1 : t ≤ 1) : 0 < pc t := by
  unfold pc
  nlinarith [mul_nonneg h0 (sub_nonneg.2 h1)]

theorem poly_seg (u v t : ℚ) (hu : 0 ≤ u) (hut : u ≤ t) (htv : t ≤ v) (hv : v ≤ 1)
    (h1 : pc v ^ 3 ≤ (103 / 100) ^ 3 * u) (h2 : (97 / 100) ^ 3 * v ≤ pc u ^ 3) :
    (97 / 100) ^ 3 * t ≤ pc t ^ 3 ∧ pc t ^ 3 ≤ (103 / 100) ^ 3 * t := by
  have m1 := pc_mono u t hu hut (le_trans htv hv)
  have m2 := pc_mono t v (le_trans hu hut) htv hv
  have p1 := pc_pos u hu (le_trans hut (le_trans htv hv))
  have p2 := pc_pos t (le_trans hu hut) (le_trans htv hv)
  have c1 : pc u ^ 3 ≤ pc t ^ 3 := pow_le_pow_left₀ p1.le m1 3
  have c2 : pc t ^ 3 ≤ pc v ^ 3 := pow_le_pow_left₀ p2.le m2 3
  constructor
  · calc (97 / 100) ^ 3 * t ≤ (97 / 100) ^ 3 * v := mul_le_mul_of_nonneg_left htv (by norm_num)
      _ ≤ pc u ^ 3 := h2
      _ ≤ pc t ^ 3 := c1
  · calc pc t ^ 3 ≤ pc v ^ 3 := c2
      _ ≤ (103 / 100) ^ 3 * u := h1
      _ ≤ (103 / 100) ^ 3 * t := mul_le_mul_of_nonneg_left hut (by norm_num)

/-- **the first estimate is within 3 % of the cube root** on `[0.1249, 1]` (on cubes) -/
theorem poly_bound (t : ℚ) (h0 : 1249 / 10000 ≤ t) (h1 : t ≤ 1) :
    (97 / 100) ^ 3 * t ≤ pc t ^ 3 ∧ pc t ^ 3 ≤ (103 / 100) ^ 3 * t := by
  rcases le_or_gt t (661/5000 : ℚ) with g0 | g0
  · exact poly_seg (1249/10000 : ℚ) (661/5000 : ℚ) t (by norm_num) h0 g0 (by norm_num) (by norm_num [pc]) (by norm_num [pc])
  rcases le_or_gt t (713/5000 : ℚ) with g1 | g1
  · exact poly_seg (661/5000 : ℚ) (713/5000 : ℚ) t (by norm_num) (le_of_lt g0) g1 (by norm_num) (by norm_num [pc]) (by norm_num [pc])
  rcases le_or_gt t (157/1000 : ℚ) with g2 | g2
  · exact poly_seg (713/5000 : ℚ) (157/1000 : ℚ) t (by norm_num) (le_of_lt g1) g2 (by norm_num) (by norm_num [pc]) (by norm_num [pc])
  rcases le_or_gt t (853/5000 : ℚ) with g3 | g3
  · exact poly_seg (157/1000 : ℚ) (853/5000 : ℚ) t (by norm_num) (le_of_lt g2) g3 (by norm_num) (by norm_num [pc]) (by norm_num [pc])
  rcases le_or_gt t (457/2500 : ℚ) with g4 | g4
  · exact poly_seg (853/5000 : ℚ) (457/2500 : ℚ) t (by norm_num) (le_of_lt g3) g4 (by norm_num) (by norm_num [pc]) (by norm_num [pc])
  rcases le_or_gt t (97/500 : ℚ) with g5 | g5
  · exact poly_seg (457/2500 : ℚ) (97/500 : ℚ) t (by norm_num) (le_of_lt g4) g5 (by norm_num) (by norm_num [pc]) (by norm_num [pc])
  rcases le_or_gt t (1023/5000 : ℚ) with g6 | g6
  · exact poly_seg (97/500 : ℚ) (1023/5000 : ℚ) t (by norm_num) (le_of_lt g5) g6 (by norm_num) (by norm_num [pc]) (by norm_num [pc])
  rcases le_or_gt t (537/2500 : ℚ) with g7 | g7
  · exact poly_seg (1023/5000 : ℚ) (537/2500 : ℚ) t (by norm_num) (le_of_lt g6) g7 (by norm_num) (by norm_num [pc]) (by norm_num [pc])
  rcases le_or_gt t (2249/10000 : ℚ) with g8 | g8
  · exact poly_seg (537/2500 : ℚ) (2249/10000 : ℚ) t (by norm_num) (le_of_lt g7) g8 (by norm_num) (by norm_num [pc]) (by norm_num [pc])
  rcases le_or_gt t (47/200 : ℚ) with g9 | g9
  · exact poly_seg (2249/10000 : ℚ) (47/200 : ℚ) t (by norm_num) (le_of_lt g8) g9 (by norm_num) (by norm_num [pc]) (by norm_num [pc])
  rcases le_or_gt t (1227/5000 : ℚ) with g10 | g10
  · exact poly_seg (47/200 : ℚ) (1227/5000 : ℚ) t (by norm_num) (le_of_lt g9) g10 (by norm_num) (by norm_num [pc]) (by norm_num [pc])
  rcases le_or_gt t (1281/5000 : ℚ) with g11 | g11
  · exact poly_seg (1227/5000 : ℚ) (1281/5000 : ℚ) t (by norm_num) (le_of_lt g10) g11 (by norm_num) (by norm_num [pc]) (by norm_num [pc])
  rcases le_or_gt t (2677/10000 : ℚ) with g12 | g12
  · exact poly_seg (1281/5000 : ℚ) (2677/10000 : ℚ) t (by norm_num) (le_of_lt g11) g12 (by norm_num) (by norm_num [pc]) (by norm_num [pc])
  rcases le_or_gt t (2801/10000 : ℚ) with g13 | g13
  · exact poly_seg (2677/10000 : ℚ) (2801/10000 : ℚ) t (by norm_num) (le_of_lt g12) g13 (by norm_num) (by norm_num [pc]) (by norm_num [pc])
  rcases le_or_gt t (367/1250 : ℚ) with g14 | g14
  · exact poly_seg (2801/10000 : ℚ) (367/1250 : ℚ) t (by norm_num) (le_of_lt g13) g14 (by norm_num) (by norm_num [pc]) (by norm_num [pc])
  rcases le_or_gt t (3087/10000 : ℚ) with g15 | g15
  · exact poly_seg (367/1250 : ℚ) (3087/10000 : ℚ) t (by norm_num) (le_of_lt g14) g15 (by norm_num) (by norm_num [pc]) (by norm_num [pc])
  rcases le_or_gt t (3259/10000 : ℚ) with g16 | g16
  · exact poly_seg (3087/10000 : ℚ) (3259/10000 : ℚ) t (by norm_num) (le_of_lt g15) g16 (by norm_num) (by norm_num [pc]) (by norm_num [pc])
  rcases le_or_gt t (1729/5000 : ℚ) with g17 | g17
  · exact poly_seg (3259/10000 : ℚ) (1729/5000 : ℚ) t (by norm_num) (le_of_lt g16) g17 (by norm_num) (by norm_num [pc]) (by norm_num [pc])
  rcases le_or_gt t (923/2500 : ℚ) with g18 | g18
  · exact poly_seg (1729/5000 : ℚ) (923/2500 : ℚ) t (by norm_num) (le_of_lt g17) g18 (by norm_num) (by norm_num [pc]) (by norm_num [pc])
  rcases le_or_gt t (1987/5000 : ℚ) with g19 | g19
  · exact poly_seg (923/2500 : ℚ) (1987/5000 : ℚ) t (by norm_num) (le_of_lt g18) g19 (by norm_num) (by norm_num [pc]) (by norm_num [pc])
  rcases le_or_gt t (4319/10000 : ℚ) with g20 | g20
  · exact poly_seg (1987/5000 : ℚ) (4319/10000 : ℚ) t (by norm_num) (le_of_lt g19) g20 (by norm_num) (by norm_num [pc]) (by norm_num [pc])
  rcases le_or_gt t (4653/10000 : ℚ) with g21 | g21
  · exact poly_seg (4319/10000 : ℚ) (4653/10000 : ℚ) t (by norm_num) (le_of_lt g20) g21 (by norm_num) (by norm_num [pc]) (by norm_num [pc])
  rcases le_or_gt t (621/1250 : ℚ) with g22 | g22
  · exact poly_seg (4653/10000 : ℚ) (621/1250 : ℚ) t (by norm_num) (le_of_lt g21) g22 (by norm_num) (by norm_num [pc]) (by norm_num [pc])
  rcases le_or_gt t (2633/5000 : ℚ) with g23 | g23
  · exact poly_seg (621/1250 : ℚ) (2633/5000 : ℚ) t (by norm_num) (le_of_lt g22) g23 (by norm_num) (by norm_num [pc]) (by norm_num [pc])
  rcases le_or_gt t (5549/10000 : ℚ) with g24 | g24
  · exact poly_seg (2633/5000 : ℚ) (5549/10000 : ℚ) t (by norm_num) (le_of_lt g23) g24 (by norm_num) (by norm_num [pc]) (by norm_num [pc])
  rcases le_or_gt t (5821/10000 : ℚ) with g25 | g25
  · exact poly_seg (5549/10000 : ℚ) (5821/10000 : ℚ) t (by norm_num) (le_of_lt g24) g25 (by norm_num) (by norm_num [pc]) (by norm_num [pc])
  rcases le_or_gt t (3043/5000 : ℚ) with g26 | g26
  · exact poly_seg (5821/10000 : ℚ) (3043/5000 : ℚ) t (by norm_num) (le_of_lt g25) g26 (by norm_num) (by norm_num [pc]) (by norm_num [pc])
  rcases le_or_gt t (127/200 : ℚ) with g27 | g27
  · exact poly_seg (3043/5000 : ℚ) (127/200 : ℚ) t (by norm_num) (le_of_lt g26) g27 (by norm_num) (by norm_num [pc]) (by norm_num [pc])
  rcases le_or_gt t (3309/5000 : ℚ) with g28 | g28
  · exact poly_seg (127/200 : ℚ) (3309/5000 : ℚ) t (by norm_num) (le_of_lt g27) g28 (by norm_num) (by norm_num [pc]) (by norm_num [pc])
  rcases le_or_gt t (6899/10000 : ℚ) with g29 | g29
  · exact poly_seg (3309/5000 : ℚ) (6899/10000 : ℚ) t (by norm_num) (le_of_lt g28) g29 (by norm_num) (by norm_num [pc]) (by norm_num [pc])
  rcases le_or_gt t (1801/2500 : ℚ) with g30 | g30
  · exact poly_seg (6899/10000 : ℚ) (1801/2500 : ℚ) t (by norm_num) (le_of_lt g29) g30 (by norm_num) (by norm_num [pc]) (by norm_num [pc])
  rcases le_or_gt t (472/625 : ℚ) with g31 | g31
  · exact poly_seg (1801/2500 : ℚ) (472/625 : ℚ) t (by norm_num) (le_of_lt g30) g31 (by norm_num) (by norm_num [pc]) (by norm_num [pc])
  rcases le_or_gt t (7979/10000 : ℚ) with g32 | g32
  · exact poly_seg (472/625 : ℚ) (7979/10000 : ℚ) t (by norm_num) (le_of_lt g31) g32 (by norm_num) (by norm_num [pc]) (by norm_num [pc])
  rcases le_or_gt t (4283/5000 : ℚ) with g33 | g33
  · exact poly_seg (7979/10000 : ℚ) (4283/5000 : ℚ) t (by norm_num) (le_of_lt g32) g33 (by norm_num) (by norm_num [pc]) (by norm_num [pc])
  rcases le_or_gt t (597/625 : ℚ) with g34 | g34
  · exact poly_seg (4283/5000 : ℚ) (597/625 : ℚ) t (by norm_num) (le_of_lt g33) g34 (by norm_num) (by norm_num [pc]) (by norm_num [pc])
  exact poly_seg (597/625 : ℚ) (1 : ℚ) t (by norm_num) (le_of_lt g34) h1 (by norm_num) (by norm_num [pc]) (by norm_num [pc])


/-! ## the four rounded operations of the first estimate -/

theorem rel_lo_hi {d v ε : ℚ} (hv : 0 < v) (h : |d - v| ≤ ε * |v|) : v * (1 - ε) ≤ d ∧ d ≤ v * (1 + ε) := by
  rw [abs_of_pos hv] at h
  obtain ⟨l, u⟩ := abs_le.mp h
  constructor <;> linarith

theorem rel_chain_lo {a b c ε : ℚ} (n : ℕ) (h1 : a * (1 - ε) ^ n ≤ b) (h2 : b * (1 - ε) ≤ c) (hε : ε ≤ 1) :
    a * (1 - ε) ^ (n + 1) ≤ c := by
  have : a * (1 - ε) ^ n * (1 - ε) ≤ b * (1 - ε) := mul_le_mul_of_nonneg_right h1 (by linarith)
  rw [pow_succ, ← mul_assoc]; linarith

theorem rel_chain_hi {a b c ε : ℚ} (n : ℕ) (h1 : b ≤ a * (1 + ε) ^ n) (h2 : c ≤ b * (1 + ε)) (hε : 0 ≤ ε) :
    c ≤ a * (1 + ε) ^ (n + 1) := by
  have : b * (1 + ε) ≤ a * (1 + ε) ^ n * (1 + ε) := mul_le_mul_of_nonneg_right h1 (by linarith)
  rw [pow_succ, ← mul_assoc]; linarith

/-- `m1 = c1·z`, `a2 = m1 + c2`, `m3 = a2·z`, `a4 = m3 + c3`, each within relative `ε` of the exact result -/
theorem est_real (z m1 a2 m3 a4 ε : ℚ) (hz0 : 0 < z) (hz1 : z ≤ 1) (hε0 : 0 ≤ ε) (hε : ε ≤ 1 / 2000)
    (h1 : |m1 - z * -(46946116 / 100000000)| ≤ ε * |z * -(46946116 / 100000000)|)
    (h2 : |a2 - (m1 + 1072302 / 1000000)| ≤ ε * |m1 + 1072302 / 1000000|)
    (h3 : |m3 - a2 * z| ≤ ε * |a2 * z|)
    (h4 : |a4 - (m3 + 3812513 / 10000000)| ≤ ε * |m3 + 3812513 / 10000000|) :
    pc z * (1 - ε) ^ 4 ≤ a4 ∧ a4 ≤ pc z * (1 + ε) ^ 4 ∧
    -(47 / 100) ≤ m1 ∧ m1 ≤ -(46 / 100) * z ∧ 6 / 10 ≤ a2 ∧ a2 ≤ 11 / 10 ∧ 59 / 100 * z ≤ m3 ∧
    m3 ≤ 111 / 100 := by
  have hneg : z * -(46946116 / 100000000) < 0 := by nlinarith
  rw [abs_of_neg hneg] at h1
  obtain ⟨l1, u1⟩ := abs_le.mp h1
  obtain ⟨Q, hQ⟩ : ∃ Q, Q = z * -(46946116 / 100000000) + 1072302 / 1000000 := ⟨_, rfl⟩
  have hQlo : 602 / 1000 ≤ Q := by rw [hQ]; linarith
  have hQhi : Q ≤ 1072302 / 1000000 := by rw [hQ]; linarith
  have hεz : 0 ≤ ε * z := mul_nonneg hε0 hz0.le
  have hεz1 : ε * z ≤ ε := by nlinarith only [hε0, hz1]
  have s1 : Q * (1 - ε) ^ 1 ≤ m1 + 1072302 / 1000000 := by rw [hQ]; nlinarith only [l1, hεz, hεz1, hε0]
  have s2 : m1 + 1072302 / 1000000 ≤ Q * (1 + ε) ^ 1 := by rw [hQ]; nlinarith only [u1, hεz, hεz1, hε0]
  have hm1a : -(47 / 100) ≤ m1 := by nlinarith only [l1, hεz1, hε, hz1, hεz]
  have hm1b : m1 ≤ -(46 / 100) * z := by nlinarith only [u1, hεz1, hε, hz0, hεz]
  have hS0 : 0 < m1 + 1072302 / 1000000 := by linarith only [hm1a]
  obtain ⟨l2, u2⟩ := rel_lo_hi hS0 h2
  have a2lo := rel_chain_lo 1 s1 l2 (by linarith)
  have a2hi := rel_chain_hi 1 s2 u2 hε0
  have h1e : 0 < 1 - ε := by linarith
  have h1e' : 0 < 1 + ε := by linarith
  have hsq1 : 999 / 1000 ≤ (1 - ε) ^ (1 + 1) := by nlinarith only [hε0, hε]
  have hsq2 : (1 + ε) ^ (1 + 1) ≤ 1002 / 1000 := by nlinarith only [hε0, hε]
  have ha2a : 6 / 10 ≤ a2 := by
    have : 602 / 1000 * (999 / 1000) ≤ Q * (1 - ε) ^ (1 + 1) := mul_le_mul hQlo hsq1 (by norm_num) (by linarith)
    exact le_trans (le_trans (by norm_num) this) a2lo
  have ha2b : a2 ≤ 11 / 10 := by
    have : Q * (1 + ε) ^ (1 + 1) ≤ 1072302 / 1000000 * (1002 / 1000) :=
      mul_le_mul hQhi hsq2 (by positivity) (by norm_num)
    exact le_trans a2hi (le_trans this (by norm_num))
  have ha20 : 0 < a2 := by linarith
  have hP0 : 0 < a2 * z := mul_pos ha20 hz0
  obtain ⟨l3, u3⟩ := rel_lo_hi hP0 h3
  have e3a : Q * z * (1 - ε) ^ (1 + 1) ≤ a2 * z := by
    have := mul_le_mul_of_nonneg_right a2lo hz0.le
    rwa [mul_right_comm] at this
  have e3b : a2 * z ≤ Q * z * (1 + ε) ^ (1 + 1) := by
    have := mul_le_mul_of_nonneg_right a2hi hz0.le
    rwa [mul_right_comm] at this
  have m3lo := rel_chain_lo (1 + 1) e3a l3 (by linarith)
  have m3hi := rel_chain_hi (1 + 1) e3b u3 hε0
  have hm3a : 59 / 100 * z ≤ m3 := by
    have t1 : 6 / 10 * z ≤ a2 * z := mul_le_mul_of_nonneg_right ha2a hz0.le
    have t2 : 6 / 10 * z * (1999 / 2000) ≤ a2 * z * (1 - ε) :=
      mul_le_mul t1 (by linarith) (by norm_num) hP0.le
    linarith
  have hm3b : m3 ≤ 111 / 100 := by
    have t1 : a2 * z ≤ 11 / 10 * 1 := mul_le_mul ha2b hz1 hz0.le (by norm_num)
    have t2 : a2 * z * (1 + ε) ≤ 11 / 10 * 1 * (2001 / 2000) :=
      mul_le_mul t1 (by linarith) h1e'.le (by norm_num)
    linarith
  have hm30 : 0 < m3 := by nlinarith only [hm3a, hz0]
  have hT0 : 0 < m3 + 3812513 / 10000000 := by linarith
  obtain ⟨l4, u4⟩ := rel_lo_hi hT0 h4
  have hQz0 : 0 ≤ Q * z := mul_nonneg (by linarith) hz0.le
  have p3a : (1 - ε) ^ (1 + 1 + 1) ≤ 1 := pow_le_one₀ h1e.le (by linarith)
  have p3b : 1 ≤ (1 + ε) ^ (1 + 1 + 1) := one_le_pow₀ (by linarith)
  have hpc : pc z = Q * z + 3812513 / 10000000 := by unfold pc; rw [hQ]; ring
  have t4lo : pc z * (1 - ε) ^ (1 + 1 + 1) ≤ m3 + 3812513 / 10000000 := by
    rw [hpc, add_mul]
    have : 3812513 / 10000000 * (1 - ε) ^ (1 + 1 + 1) ≤ 3812513 / 10000000 * 1 :=
      mul_le_mul_of_nonneg_left p3a (by norm_num)
    generalize (1 - ε) ^ (1 + 1 + 1) = A at *
    linarith
  have t4hi : m3 + 3812513 / 10000000 ≤ pc z * (1 + ε) ^ (1 + 1 + 1) := by
    rw [hpc, add_mul]
    have : 3812513 / 10000000 * 1 ≤ 3812513 / 10000000 * (1 + ε) ^ (1 + 1 + 1) :=
      mul_le_mul_of_nonneg_left p3b (by norm_num)
    generalize (1 + ε) ^ (1 + 1 + 1) = A at *
    linarith
  exact ⟨rel_chain_lo (1 + 1 + 1) t4lo l4 (by linarith), rel_chain_hi (1 + 1 + 1) t4hi u4 hε0,
    hm1a, hm1b, ha2a, ha2b, hm3a, hm3b⟩

/-! ## Newton's map near the root -/

/-- one Newton step, normalised to root `1`: `a` within `E` of the root, `n` the exact step, `w` the computed one -/
theorem newton_step (a n w E Θ : ℝ) (hE : E ≤ 73 / 1000) (ha : |a - 1| ≤ E)
    (hn : 3 * a ^ 2 * n = 2 * a ^ 3 + 1) (hΘ0 : 0 ≤ Θ) (hΘ : Θ ≤ 3 / 1000) (hw : |w - n| ≤ Θ * n) :
    |w - 1| ≤ 112 / 100 * E ^ 2 + Θ := by
  have hE0 : 0 ≤ E := le_trans (abs_nonneg _) ha
  obtain ⟨a1, a2⟩ := abs_le.mp ha
  have ha0 : 0 < a := by linarith
  have ha2 : 0 < a ^ 2 := by positivity
  have e4 : 3 * a ^ 2 * (n - 1) = (a - 1) ^ 2 * (2 * a + 1) := by linear_combination hn
  have hsq : (a - 1) ^ 2 ≤ E ^ 2 := by
    have := sq_abs (a - 1)
    rw [← this]
    exact pow_le_pow_left₀ (abs_nonneg _) ha 2
  have hn1 : 0 ≤ n - 1 := by
    have h : 0 ≤ 3 * a ^ 2 * (n - 1) := by rw [e4]; positivity
    by_contra hneg
    have hneg := lt_of_not_ge hneg
    nlinarith
  have hq : 2 * a + 1 ≤ 111 / 100 * (3 * a ^ 2) := by nlinarith
  have h5 : 3 * a ^ 2 * (n - 1) ≤ 3 * a ^ 2 * (111 / 100 * (a - 1) ^ 2) := by
    rw [e4]
    have := mul_le_mul_of_nonneg_left hq (sq_nonneg (a - 1))
    linarith
  have h6 : n - 1 ≤ 111 / 100 * (a - 1) ^ 2 := le_of_mul_le_mul_left h5 (by positivity)
  have h7 : n - 1 ≤ 111 / 100 * E ^ 2 := by linarith
  obtain ⟨w1, w2⟩ := abs_le.mp hw
  have hE2 : E ^ 2 ≤ 1 := by nlinarith
  have hΘn : Θ * (n - 1) ≤ 3 / 1000 * (111 / 100 * E ^ 2) := by
    calc Θ * (n - 1) ≤ 3 / 1000 * (n - 1) := mul_le_mul_of_nonneg_right hΘ hn1
      _ ≤ 3 / 1000 * (111 / 100 * E ^ 2) := mul_le_mul_of_nonneg_left h7 (by norm_num)
  have hΘn0 : 0 ≤ Θ * (n - 1) := mul_nonneg hΘ0 hn1
  have hE20 : 0 ≤ E ^ 2 := sq_nonneg E
  rw [abs_le]
  constructor
  · nlinarith
  · nlinarith

/-- the bound on the relative error of the `k`-th iterate (`t = 10^(-P)`) -/
noncomputable def Ebound (k : ℕ) (t : ℝ) : ℝ := 7 / 100 * (1 / 10) ^ k + 3 / 10 * t ^ 2

theorem Ebound_le (k : ℕ) (t : ℝ) (ht0 : 0 ≤ t) (ht : t ≤ 1 / 10) : 0 ≤ Ebound k t ∧ Ebound k t ≤ 73 / 1000 := by
  unfold Ebound
  have h1 : (0 : ℝ) < (1 / 10) ^ k := by positivity
  have h2 : ((1 : ℝ) / 10) ^ k ≤ 1 := pow_le_one₀ (by norm_num) (by norm_num)
  have h3 : t ^ 2 ≤ 1 / 100 := by nlinarith
  have h4 : 0 ≤ t ^ 2 := sq_nonneg t
  constructor <;> nlinarith

theorem Ebound_step (k : ℕ) (t : ℝ) (ht0 : 0 ≤ t) (ht : t ≤ 1 / 10) :
    112 / 100 * Ebound k t ^ 2 + 251 / 1000 * t ^ 2 ≤ Ebound (k + 1) t := by
  obtain ⟨e0, e1⟩ := Ebound_le k t ht0 ht
  have hsq : Ebound k t ^ 2 ≤ 73 / 1000 * Ebound k t := by nlinarith
  unfold Ebound at *
  have h1 : (0 : ℝ) < (1 / 10) ^ k := by positivity
  have h4 : 0 ≤ t ^ 2 := sq_nonneg t
  have h5 : ((1 : ℝ) / 10) ^ (k + 1) = (1 / 10) ^ k * (1 / 10) := pow_succ _ _
  rw [h5]
  generalize ((1 : ℝ) / 10) ^ k = s at *
  generalize t ^ 2 = T at *
  nlinarith

/-- **the stopping rule fires**: from round `P + 1` on, two consecutive iterates differ by less than a tenth of
`10^(-P)` times the new one (with room for the rounding of the difference) -/
theorem stop_ok (a w t s : ℝ) (ht0 : 0 < t) (ht : t ≤ 1 / 10) (hs0 : 0 ≤ s) (hs : s ≤ t / 10)
    (ha : |a - 1| ≤ 7 / 100 * s + 3 / 10 * t ^ 2) (hw : |w - 1| ≤ 7 / 100 * (s * (1 / 10)) + 3 / 10 * t ^ 2) :
    |a - w| * (2001 / 2000) ≤ w * (t / 10) := by
  obtain ⟨a1, a2⟩ := abs_le.mp ha
  obtain ⟨w1, w2⟩ := abs_le.mp hw
  have ht2 : t ^ 2 ≤ t / 10 := by nlinarith
  have ht20 : 0 ≤ t ^ 2 := sq_nonneg t
  have habs : |a - w| ≤ 7 / 100 * s + 7 / 100 * (s * (1 / 10)) + 6 / 10 * t ^ 2 := by
    rw [abs_le]; constructor <;> linarith
  have hw0 : 1 - 4 / 1000 ≤ w := by nlinarith
  nlinarith


/-! ## the first iterate, on cubes -/

/-- scaling (`N` roundings, factor `S`), estimate (4 roundings), scaling back (`M` roundings, factor `T`, `T³·S = 1`):
the cube of the result is within `[0.97³·lo, 1.03³·hi]` of the operand, `lo ≤ (1-ε)^K`, `(1+ε)^K ≤ hi` for the
`K = N + 12 + 3M` roundings involved -/
theorem chain_cube (X z2 y w ε S T lo hi : ℚ) (N M : ℕ) (hX : 0 < X) (hS : 0 < S) (hT : 0 < T) (hST : T ^ 3 * S = 1)
    (hε0 : 0 ≤ ε) (hε : ε ≤ 1 / 2000)
    (hlo : lo ≤ (1 - ε) ^ (N + 12 + 3 * M)) (hhi : (1 + ε) ^ (N + 12 + 3 * M) ≤ hi)
    (h2lo : X * S * (1 - ε) ^ N ≤ z2) (h2hi : z2 ≤ X * S * (1 + ε) ^ N)
    (hz1 : 1249 / 10000 ≤ z2) (hz2 : z2 ≤ 1)
    (hylo : pc z2 * (1 - ε) ^ 4 ≤ y) (hyhi : y ≤ pc z2 * (1 + ε) ^ 4)
    (hwlo : y * T * (1 - ε) ^ M ≤ w) (hwhi : w ≤ y * T * (1 + ε) ^ M) :
    (97 / 100) ^ 3 * lo * X ≤ w ^ 3 ∧ w ^ 3 ≤ (103 / 100) ^ 3 * hi * X := by
  obtain ⟨pb1, pb2⟩ := poly_bound z2 hz1 hz2
  have hpc := pc_pos z2 (by linarith) hz2
  have h1e : 0 < 1 - ε := by linarith
  have h1e' : 0 < 1 + ε := by linarith
  have hy0 : 0 < y := lt_of_lt_of_le (by positivity) hylo
  have hT3 : 0 < T ^ 3 := by positivity
  constructor
  · have a1 : (pc z2 * (1 - ε) ^ 4 * T * (1 - ε) ^ M) ^ 3 ≤ w ^ 3 := by
      apply pow_le_pow_left₀ (by positivity)
      calc pc z2 * (1 - ε) ^ 4 * T * (1 - ε) ^ M ≤ y * T * (1 - ε) ^ M := by
            apply mul_le_mul_of_nonneg_right _ (by positivity)
            exact mul_le_mul_of_nonneg_right hylo hT.le
        _ ≤ w := hwlo
    have a2 : (pc z2 * (1 - ε) ^ 4 * T * (1 - ε) ^ M) ^ 3 = pc z2 ^ 3 * (T ^ 3 * (1 - ε) ^ (12 + 3 * M)) := by ring
    have a3 : (97 / 100) ^ 3 * (X * S * (1 - ε) ^ N) * (T ^ 3 * (1 - ε) ^ (12 + 3 * M)) ≤
        pc z2 ^ 3 * (T ^ 3 * (1 - ε) ^ (12 + 3 * M)) := by
      apply mul_le_mul_of_nonneg_right _ (by positivity)
      calc (97 / 100) ^ 3 * (X * S * (1 - ε) ^ N) ≤ (97 / 100) ^ 3 * z2 :=
            mul_le_mul_of_nonneg_left h2lo (by norm_num)
        _ ≤ pc z2 ^ 3 := pb1
    have a4 : (97 / 100) ^ 3 * (X * S * (1 - ε) ^ N) * (T ^ 3 * (1 - ε) ^ (12 + 3 * M)) =
        (97 / 100) ^ 3 * X * (T ^ 3 * S) * (1 - ε) ^ (N + 12 + 3 * M) := by ring
    rw [a2] at a1
    rw [a4, hST, mul_one] at a3
    have a7 : (97 / 100) ^ 3 * X * lo ≤ (97 / 100) ^ 3 * X * (1 - ε) ^ (N + 12 + 3 * M) :=
      mul_le_mul_of_nonneg_left hlo (by positivity)
    have e : (97 / 100 : ℚ) ^ 3 * lo * X = (97 / 100) ^ 3 * X * lo := by ring
    rw [e]
    linarith
  · have a1 : w ^ 3 ≤ (pc z2 * (1 + ε) ^ 4 * T * (1 + ε) ^ M) ^ 3 := by
      apply pow_le_pow_left₀ (le_trans (by positivity) hwlo)
      calc w ≤ y * T * (1 + ε) ^ M := hwhi
        _ ≤ pc z2 * (1 + ε) ^ 4 * T * (1 + ε) ^ M := by
            apply mul_le_mul_of_nonneg_right _ (by positivity)
            exact mul_le_mul_of_nonneg_right hyhi hT.le
    have a2 : (pc z2 * (1 + ε) ^ 4 * T * (1 + ε) ^ M) ^ 3 = pc z2 ^ 3 * (T ^ 3 * (1 + ε) ^ (12 + 3 * M)) := by ring
    have a3 : pc z2 ^ 3 * (T ^ 3 * (1 + ε) ^ (12 + 3 * M)) ≤
        (103 / 100) ^ 3 * (X * S * (1 + ε) ^ N) * (T ^ 3 * (1 + ε) ^ (12 + 3 * M)) := by
      apply mul_le_mul_of_nonneg_right _ (by positivity)
      calc pc z2 ^ 3 ≤ (103 / 100) ^ 3 * z2 := pb2
        _ ≤ (103 / 100) ^ 3 * (X * S * (1 + ε) ^ N) := mul_le_mul_of_nonneg_left h2hi (by norm_num)
    have a4 : (103 / 100) ^ 3 * (X * S * (1 + ε) ^ N) * (T ^ 3 * (1 + ε) ^ (12 + 3 * M)) =
        (103 / 100) ^ 3 * X * (T ^ 3 * S) * (1 + ε) ^ (N + 12 + 3 * M) := by ring
    rw [a2] at a1
    rw [a4, hST, mul_one] at a3
    have a7 : (103 / 100) ^ 3 * X * (1 + ε) ^ (N + 12 + 3 * M) ≤ (103 / 100) ^ 3 * X * hi :=
      mul_le_mul_of_nonneg_left hhi (by positivity)
    have e : (103 / 100 : ℚ) ^ 3 * hi * X = (103 / 100) ^ 3 * X * hi := by ring
    rw [e]
    linarith

/-- many roundings, in blocks: `K·ε ≤ 4` keeps `(1 ± ε)^K` within `[1/65, 65]` -/
theorem pow_block (ε : ℚ) (K : ℕ) (hε0 : 0 ≤ ε) (hε : ε ≤ 1 / 2000) (hK : (K : ℚ) * ε ≤ 4) :
    1 / 65 ≤ (1 - ε) ^ K ∧ (1 + ε) ^ K ≤ 65 := by
  obtain ⟨m, hm⟩ : ∃ m, m = K / 64 + 1 := ⟨_, rfl⟩
  have hKm : K ≤ 64 * m := by omega
  have hmε : (m : ℚ) * ε ≤ 63 / 1000 := by
    have h1 : ((K / 64 : ℕ) : ℚ) ≤ (K : ℚ) / 64 := by
      rw [le_div_iff₀ (by norm_num)]
      have : K / 64 * 64 ≤ K := Nat.div_mul_le_self K 64
      exact_mod_cast this
    have h2 : (m : ℚ) = ((K / 64 : ℕ) : ℚ) + 1 := by rw [hm]; push_cast; ring
    rw [h2]
    have h3 : ((K / 64 : ℕ) : ℚ) * ε ≤ (K : ℚ) / 64 * ε := mul_le_mul_of_nonneg_right h1 hε0
    nlinarith
  have a1 := pow_one_sub_ge ε m hε0 (by linarith)
  have a2 := pow_one_add_le ε (63 / 1000) m hε0 hmε (by norm_num)
  have h1e : 0 ≤ 1 - ε := by linarith
  constructor
  · have b1 : (1 - ε) ^ (64 * m) ≤ (1 - ε) ^ K := pow_le_pow_of_le_one h1e (by linarith) hKm
    have b2 : (937 / 1000 : ℚ) ^ 64 ≤ ((1 - ε) ^ m) ^ 64 := pow_le_pow_left₀ (by norm_num) (by linarith) 64
    have b3 : ((1 - ε) ^ m) ^ 64 = (1 - ε) ^ (64 * m) := by rw [← pow_mul, mul_comm]
    have b4 : (1 / 65 : ℚ) ≤ (937 / 1000) ^ 64 := by norm_num
    linarith
  · have b1 : (1 + ε) ^ K ≤ (1 + ε) ^ (64 * m) := pow_le_pow_right₀ (by linarith) hKm
    have b2 : ((1 + ε) ^ m) ^ 64 ≤ (1 / (1 - 63 / 1000) : ℚ) ^ 64 := pow_le_pow_left₀ (by positivity) a2 64
    have b3 : ((1 + ε) ^ m) ^ 64 = (1 + ε) ^ (64 * m) := by rw [← pow_mul, mul_comm]
    have b4 : (1 / (1 - 63 / 1000) : ℚ) ^ 64 ≤ 65 := by norm_num
    linarith

/-- from the cube to the relative distance from the real root -/
theorem start_close (z X : ℚ) (r : ℝ) (hr : 0 < r) (hr3 : (X : ℝ) = r ^ 3) (hz : 0 < z)
    (h1 : (97 / 100) ^ 3 * (9 / 10) * X ≤ z ^ 3) (h2 : z ^ 3 ≤ (103 / 100) ^ 3 * (10 / 9) * X) :
    |(z : ℝ) / r - 1| ≤ 7 / 100 := by
  have hzr : (0 : ℝ) < (z : ℝ) := by exact_mod_cast hz
  have k1 : (97 / 100 : ℝ) ^ 3 * (9 / 10) * r ^ 3 ≤ (z : ℝ) ^ 3 := by
    rw [← hr3]
    have : (((97 / 100) ^ 3 * (9 / 10) * X : ℚ) : ℝ) ≤ ((z ^ 3 : ℚ) : ℝ) := by exact_mod_cast h1
    push_cast at this; exact this
  have k2 : (z : ℝ) ^ 3 ≤ (103 / 100 : ℝ) ^ 3 * (10 / 9) * r ^ 3 := by
    rw [← hr3]
    have : ((z ^ 3 : ℚ) : ℝ) ≤ (((103 / 100) ^ 3 * (10 / 9) * X : ℚ) : ℝ) := by exact_mod_cast h2
    push_cast at this; exact this
  obtain ⟨q, hq⟩ : ∃ q : ℝ, q = (z : ℝ) / r := ⟨_, rfl⟩
  have hq0 : 0 < q := by rw [hq]; positivity
  have hzq : (z : ℝ) = q * r := by rw [hq]; field_simp
  rw [← hq]
  rw [hzq, mul_pow] at k1 k2
  have hr3p : 0 < r ^ 3 := by positivity
  have c1 : (97 / 100 : ℝ) ^ 3 * (9 / 10) ≤ q ^ 3 := le_of_mul_le_mul_right (by linarith) hr3p
  have c2 : q ^ 3 ≤ (103 / 100 : ℝ) ^ 3 * (10 / 9) := le_of_mul_le_mul_right (by linarith) hr3p
  rw [abs_le]
  constructor
  · by_contra h
    have h := lt_of_not_ge h
    have : q < 93 / 100 := by linarith
    have : q ^ 3 < (93 / 100 : ℝ) ^ 3 := pow_lt_pow_left₀ this hq0.le (by norm_num)
    norm_num at this c1
    linarith
  · by_contra h
    have h := lt_of_not_ge h
    have : (107 / 100 : ℝ) < q := by linarith
    have : (107 / 100 : ℝ) ^ 3 < q ^ 3 := pow_lt_pow_left₀ this (by norm_num) (by norm_num)
    norm_num at this c2
    linarith


/-! ## a far first iterate: the wide basin -/

/-- from the cube (within `[0.97³/65, 1.03³·65]`) to the ratio to the real root -/
theorem start_wide (z X : ℚ) (r : ℝ) (hr : 0 < r) (hr3 : (X : ℝ) = r ^ 3) (hz : 0 < z)
    (h1 : (97 / 100) ^ 3 * (1 / 65) * X ≤ z ^ 3) (h2 : z ^ 3 ≤ (103 / 100) ^ 3 * 65 * X) :
    24 / 100 ≤ (z : ℝ) / r ∧ (z : ℝ) / r ≤ 415 / 100 := by
  have hzr : (0 : ℝ) < (z : ℝ) := by exact_mod_cast hz
  have k1 : (97 / 100 : ℝ) ^ 3 * (1 / 65) * r ^ 3 ≤ (z : ℝ) ^ 3 := by
    rw [← hr3]
    have : (((97 / 100) ^ 3 * (1 / 65) * X : ℚ) : ℝ) ≤ ((z ^ 3 : ℚ) : ℝ) := by exact_mod_cast h1
    push_cast at this; exact this
  have k2 : (z : ℝ) ^ 3 ≤ (103 / 100 : ℝ) ^ 3 * 65 * r ^ 3 := by
    rw [← hr3]
    have : ((z ^ 3 : ℚ) : ℝ) ≤ (((103 / 100) ^ 3 * 65 * X : ℚ) : ℝ) := by exact_mod_cast h2
    push_cast at this; exact this
  obtain ⟨q, hq⟩ : ∃ q : ℝ, q = (z : ℝ) / r := ⟨_, rfl⟩
  have hq0 : 0 < q := by rw [hq]; positivity
  have hzq : (z : ℝ) = q * r := by rw [hq]; field_simp
  rw [← hq]
  rw [hzq, mul_pow] at k1 k2
  have hr3p : 0 < r ^ 3 := by positivity
  have c1 : (97 / 100 : ℝ) ^ 3 * (1 / 65) ≤ q ^ 3 := le_of_mul_le_mul_right (by linarith) hr3p
  have c2 : q ^ 3 ≤ (103 / 100 : ℝ) ^ 3 * 65 := le_of_mul_le_mul_right (by linarith) hr3p
  constructor
  · by_contra h
    have h := lt_of_not_ge h
    have : q ^ 3 < (24 / 100 : ℝ) ^ 3 := pow_lt_pow_left₀ h hq0.le (by norm_num)
    norm_num at this c1
    linarith
  · by_contra h
    have h := lt_of_not_ge h
    have : (415 / 100 : ℝ) ^ 3 < q ^ 3 := pow_lt_pow_left₀ h (by norm_num) (by norm_num)
    norm_num at this c2
    linarith

/-- one Newton step from anywhere in `[L, U]`: the exact step is at most `V ≥ max (n L) (n U)` (the map
`a ↦ (2a³+1)/(3a²)` decreases up to the root and increases after it), and at least 1 -/
theorem newton_wide (a n w L U V Θ : ℝ) (hL : 0 < L) (hLa : L ≤ a) (haU : a ≤ U)
    (hfL : 2 * L ^ 3 + 1 ≤ 3 * V * L ^ 2) (hfU : 2 * U ^ 3 + 1 ≤ 3 * V * U ^ 2)
    (hn : 3 * a ^ 2 * n = 2 * a ^ 3 + 1) (hΘ0 : 0 ≤ Θ) (hΘ1 : Θ ≤ 1) (hw : |w - n| ≤ Θ * n) :
    (1 - Θ) ≤ w ∧ w ≤ V * (1 + Θ) := by
  have ha0 : 0 < a := lt_of_lt_of_le hL hLa
  have ha2 : 0 < a ^ 2 := by positivity
  have e4 : 3 * a ^ 2 * (n - 1) = (a - 1) ^ 2 * (2 * a + 1) := by linear_combination hn
  have hn1 : 0 ≤ n - 1 := by
    have h : 0 ≤ 3 * a ^ 2 * (n - 1) := by rw [e4]; positivity
    by_contra hneg
    have hneg := lt_of_not_ge hneg
    nlinarith
  have hV0 : 0 < V := by
    by_contra h
    have h := le_of_not_gt h
    have : 3 * V * L ^ 2 ≤ 0 := by
      have := mul_nonneg (neg_nonneg.2 h) (sq_nonneg L)
      nlinarith
    have : 0 < 2 * L ^ 3 + 1 := by positivity
    linarith
  have hfa : 2 * a ^ 3 + 1 ≤ 3 * V * a ^ 2 := by
    rcases le_total a V with h | h
    · -- decreasing part: compare with `L`
      have key : 0 ≤ (a - L) * (3 * V * (a + L) - 2 * (a ^ 2 + a * L + L ^ 2)) := by
        apply mul_nonneg (by linarith)
        have hLV : L ≤ V := le_trans hLa h
        nlinarith [mul_nonneg (sub_nonneg.2 h) ha0.le, mul_nonneg (sub_nonneg.2 hLV) hL.le,
          mul_nonneg (sub_nonneg.2 h) hL.le, mul_nonneg (sub_nonneg.2 hLV) ha0.le]
      nlinarith
    · -- increasing part: compare with `U`
      have hU0 : 0 < U := lt_of_lt_of_le ha0 haU
      have key : 0 ≤ (U - a) * (2 * (U ^ 2 + U * a + a ^ 2) - 3 * V * (U + a)) := by
        apply mul_nonneg (by linarith)
        have hVU : V ≤ U := le_trans h haU
        nlinarith [mul_nonneg (sub_nonneg.2 h) ha0.le, mul_nonneg (sub_nonneg.2 hVU) hU0.le,
          mul_nonneg (sub_nonneg.2 h) hU0.le, mul_nonneg (sub_nonneg.2 hVU) ha0.le]
      nlinarith
  have hnV : n ≤ V := by
    have : 3 * a ^ 2 * n ≤ 3 * a ^ 2 * V := by rw [hn]; linarith
    exact le_of_mul_le_mul_left this (by positivity)
  obtain ⟨w1, w2⟩ := abs_le.mp hw
  have hn0 : 0 ≤ n := by linarith
  constructor
  · nlinarith [mul_nonneg hn1 (sub_nonneg.2 hΘ1)]
  · nlinarith [mul_le_mul_of_nonneg_right hnV (by linarith : (0 : ℝ) ≤ 1 + Θ)]

/-- upper ends of the intervals that contain `z_k / r` during the first seven rounds -/
noncomputable def Whi : ℕ → ℝ
  | 0 => 415 / 100
  | 1 => 5963 / 1000
  | 2 => 3995 / 1000
  | 3 => 2692 / 1000
  | 4 => 1846 / 1000
  | 5 => 1332 / 1000
  | _ => 1079 / 1000

/-- where `a = z_k / r` lies: in the wide intervals for `k < 7`, then within `Ebound (k - 7)` of 1 -/
def Near (k : ℕ) (t a : ℝ) : Prop :=
  if k < 7 then (if k = 0 then (24 / 100 : ℝ) else 997 / 1000) ≤ a ∧ a ≤ Whi k else |a - 1| ≤ Ebound (k - 7) t

theorem near_range (k : ℕ) (t a : ℝ) (ht0 : 0 ≤ t) (ht : t ≤ 1 / 10) (h : Near k t a) :
    24 / 100 ≤ a ∧ a ≤ 5963 / 1000 := by
  unfold Near at h
  by_cases hk : k < 7
  · rw [if_pos hk] at h
    obtain ⟨h1, h2⟩ := h
    have hlo : (24 / 100 : ℝ) ≤ (if k = 0 then (24 / 100 : ℝ) else 997 / 1000) := by split_ifs <;> norm_num
    have hhi : Whi k ≤ 5963 / 1000 := by
      interval_cases k <;> simp only [Whi] <;> norm_num
    constructor <;> linarith
  · rw [if_neg hk] at h
    obtain ⟨e0, e1⟩ := Ebound_le (k - 7) t ht0 ht
    obtain ⟨l, u⟩ := abs_le.mp h
    constructor <;> linarith

/-- **one round, anywhere**: the five rounded operations (`Θ = 0.251·t²`) move `a = z_k/r` to the next interval -/
theorem near_step (k : ℕ) (t a n w : ℝ) (ht0 : 0 ≤ t) (ht : t ≤ 1 / 10) (h : Near k t a)
    (hn : 3 * a ^ 2 * n = 2 * a ^ 3 + 1) (hw : |w - n| ≤ 251 / 1000 * t ^ 2 * n) : Near (k + 1) t w := by
  have hΘ0 : (0 : ℝ) ≤ 251 / 1000 * t ^ 2 := by positivity
  have hΘ : 251 / 1000 * t ^ 2 ≤ 251 / 100000 := by nlinarith
  by_cases hk : k < 7
  · have h' := h
    unfold Near at h'
    rw [if_pos hk] at h'
    obtain ⟨h1, h2⟩ := h'
    have step : ∀ (L U V : ℝ), 0 < L → L ≤ a → a ≤ U → 2 * L ^ 3 + 1 ≤ 3 * V * L ^ 2 → 2 * U ^ 3 + 1 ≤ 3 * V * U ^ 2 →
        V * (1 + 251 / 100000) ≤ (if k + 1 < 7 then Whi (k + 1) else 1009 / 1000) →
        (997 / 1000 ≤ w ∧ w ≤ (if k + 1 < 7 then Whi (k + 1) else 1009 / 1000)) := by
      intro L U V hL hLa haU hfL hfU hV
      obtain ⟨c1, c2⟩ := newton_wide a n w L U V _ hL hLa haU hfL hfU hn hΘ0 (by linarith) hw
      have hV0 : 0 ≤ V := by
        by_contra hc
        have hc := lt_of_not_ge hc
        have : 3 * V * L ^ 2 < 0 := by
          have : 0 < L ^ 2 := by positivity
          nlinarith
        have : 0 < 2 * L ^ 3 + 1 := by positivity
        linarith
      constructor
      · linarith
      · have : V * (1 + 251 / 1000 * t ^ 2) ≤ V * (1 + 251 / 100000) := mul_le_mul_of_nonneg_left (by linarith) hV0
        linarith
    unfold Near
    interval_cases k
    · simp only [if_true] at h1
      have := step (24 / 100) (415 / 100) (59471 / 10000) (by norm_num) h1 (by simpa [Whi] using h2)
        (by norm_num) (by norm_num) (by simp [Whi]; norm_num)
      simpa [Whi] using this
    · simp only [Nat.one_ne_zero, if_false] at h1
      have := step (997 / 1000) (5963 / 1000) (4981 / 1250) (by norm_num) h1 (by simpa [Whi] using h2)
        (by norm_num) (by norm_num) (by simp [Whi]; norm_num)
      simpa [Whi] using this
    · simp only [OfNat.ofNat_ne_zero, if_false] at h1
      have := step (997 / 1000) (3995 / 1000) (26843 / 10000) (by norm_num) h1 (by simpa [Whi] using h2)
        (by norm_num) (by norm_num) (by simp [Whi]; norm_num)
      simpa [Whi] using this
    · simp only [OfNat.ofNat_ne_zero, if_false] at h1
      have := step (997 / 1000) (2692 / 1000) (18407 / 10000) (by norm_num) h1 (by simpa [Whi] using h2)
        (by norm_num) (by norm_num) (by simp [Whi]; norm_num)
      simpa [Whi] using this
    · simp only [OfNat.ofNat_ne_zero, if_false] at h1
      have := step (997 / 1000) (1846 / 1000) (2657 / 2000) (by norm_num) h1 (by simpa [Whi] using h2)
        (by norm_num) (by norm_num) (by simp [Whi]; norm_num)
      simpa [Whi] using this
    · simp only [OfNat.ofNat_ne_zero, if_false] at h1
      have := step (997 / 1000) (1332 / 1000) (10759 / 10000) (by norm_num) h1 (by simpa [Whi] using h2)
        (by norm_num) (by norm_num) (by simp [Whi]; norm_num)
      simpa [Whi] using this
    · simp only [OfNat.ofNat_ne_zero, if_false] at h1
      have := step (997 / 1000) (1079 / 1000) (10057 / 10000) (by norm_num) h1 (by simpa [Whi] using h2)
        (by norm_num) (by norm_num) (by norm_num)
      have hlt : ¬ (6 + 1 < 7) := by norm_num
      rw [if_neg hlt] at this ⊢
      obtain ⟨c1, c2⟩ := this
      show |w - 1| ≤ Ebound (6 + 1 - 7) t
      unfold Ebound
      have : (0 : ℝ) ≤ 3 / 10 * t ^ 2 := by positivity
      rw [abs_le]
      constructor <;> norm_num <;> linarith
  · have h' := h
    unfold Near at h' ⊢
    rw [if_neg hk] at h'
    have hk1 : ¬ (k + 1 < 7) := by omega
    rw [if_neg hk1]
    obtain ⟨e0, e1⟩ := Ebound_le (k - 7) t ht0 ht
    have := newton_step a n w (Ebound (k - 7) t) (251 / 1000 * t ^ 2) e1 h' hn hΘ0 (by linarith) hw
    have e : k + 1 - 7 = k - 7 + 1 := by omega
    rw [e]
    exact le_trans this (Ebound_step (k - 7) t ht0 ht)

end Apd.CbrtR

#print axioms Apd.CbrtR.poly_bound
#print axioms Apd.CbrtR.newton_step
#print axioms Apd.CbrtR.Ebound_step
#print axioms Apd.CbrtR.stop_ok
