import ApdVerif.Model.Conv
import ApdVerif.Lemmas.Digits
/-! # Table path of `NumDigits`: correct for every bit length (generic argument, no case split) -/
namespace Apd

/-! NumDigits table path, exactly as table.go: entry i holds ndigits(2^(i-1)) and 10^that. -/

/-- model of the ≤128-bit path for a positive magnitude a with bit length bl (2^(bl-1) ≤ a < 2^bl) -/
def numDigitsTable (a bl : Nat) : Nat :=
  if bl < 128 ∧ tblDigits (bl + 1) = tblDigits bl then tblDigits bl
  else if a < tblBorder bl then tblDigits bl else tblDigits bl + 1

theorem numDigitsTable_correct (a bl : Nat) (hbl : 1 ≤ bl) (h1 : 2 ^ (bl - 1) ≤ a) (h2 : a < 2 ^ bl) :
    numDigitsTable a bl = ndigits a := by
  have hpos : 0 < 2 ^ (bl - 1) := Nat.pow_pos (by decide)
  have ha : 0 < a := Nat.lt_of_lt_of_le hpos h1
  have lo : tblDigits bl ≤ ndigits a := ndigits_mono hpos h1
  have e2 : 2 ^ bl = 2 * 2 ^ (bl - 1) := by
    rw [← Nat.pow_succ']; congr 1; omega
  have hi : ndigits a ≤ ndigits (2 ^ bl) := ndigits_mono ha (Nat.le_of_lt h2)
  have hi2 : ndigits (2 ^ bl) ≤ tblDigits bl + 1 := by rw [e2]; exact ndigits_double _ hpos
  unfold numDigitsTable
  split
  · rename_i h
    have : tblDigits (bl + 1) = ndigits (2 ^ bl) := by simp [tblDigits]
    omega
  · split
    · rename_i h
      have := (ndigits_le_iff a (tblDigits bl) ha (ndigits_pos _)).2 h
      omega
    · rename_i h
      have : ¬ ndigits a ≤ tblDigits bl := fun hle =>
        h ((ndigits_le_iff a (tblDigits bl) ha (ndigits_pos _)).1 hle)
      omega

end Apd
