import ApdVerif.Model.Trans
import ApdVerif.Spec.Defs
import ApdVerif.Lemmas.Digits
import ApdVerif.Lemmas.RoundCoreLemmas
import ApdVerif.Lemmas.MulLemmas
import Mathlib.Tactic.Ring
import Mathlib.Tactic.Linarith
import Mathlib.Tactic.NormNum
import Mathlib.Tactic.SplitIfs
/-!
# Lemmas for C12: exact integer powers through `integerPower`
-/
namespace Apd.C12L
open Apd Cond

theorem empty_or (a : Cond) : (({} : Cond) ||| a) = a := by
  cases a; rfl

theorem goError_empty (t : Cond) : goError t {} = .none := by
  cases t; rfl

/-- the exact integer power of a finite decimal (same as `Apd.Props.exactPow`) -/
def xpow (x : Dec) (n : Nat) : Dec :=
  { form := .finite, neg := x.neg && n % 2 == 1, exp := x.exp * n, coeff := x.coeff ^ n }

theorem xpow_zero (x : Dec) : xpow x 0 = decOne := by
  simp [xpow, decOne]

/-- a product that fits the precision, inside the package's exponent range, is returned exactly
with no flags -/
theorem mulOp_exact (c : Ctx) (a b : Dec) (ha : a.form = .finite) (hb : b.form = .finite)
    (hp : 1 ≤ c.prec) (hemin : c.emin = -100000) (hemax : c.emax = 100000)
    (hnd : ndigits (a.coeff * b.coeff) ≤ c.prec)
    (ha1 : -100000 ≤ a.exp) (ha2 : a.exp ≤ 100000) (hb1 : -100000 ≤ b.exp) (hb2 : b.exp ≤ 100000)
    (hlo : -100000 ≤ a.exp + b.exp)
    (hhi : a.exp + b.exp + (ndigits (a.coeff * b.coeff) : Int) - 1 ≤ 100000) :
    mulOp c a b = { d := { form := .finite, neg := a.neg != b.neg, exp := a.exp + b.exp,
                           coeff := a.coeff * b.coeff } } := by
  have hnp := ndigits_pos (a.coeff * b.coeff)
  have hnan : shouldSetAsNaN a (some b) = false := by
    simp [shouldSetAsNaN, Dec.isNaN, ha, hb]
  have hck : checkXs [a.exp, b.exp] = none := MulL.checkXs_two _ _ ha1 ha2 hb1 hb2
  have hsum : sumInts [a.exp, b.exp] = a.exp + b.exp := by simp [sumInts]
  have hse : setExponent c { form := .finite, neg := a.neg != b.neg, exp := 0, coeff := a.coeff * b.coeff } {}
      [a.exp, b.exp] = ({ form := .finite, neg := a.neg != b.neg, exp := a.exp + b.exp,
                           coeff := a.coeff * b.coeff }, {}) := by
    rw [setExponent_normal c _ {} _ hck (by simp [seAdj, hsum]; omega) (by simp [seAdj, hsum]; omega)
      (by simp [seAdj, hsum]; omega) (by omega), hsum]
    simp [seFinish]
  have hrd : ∀ r : Dec, r = { form := .finite, neg := a.neg != b.neg, exp := a.exp + b.exp, coeff := a.coeff * b.coeff } →
      ctxRound c r = (r, {}) := by
    intro r hr
    have hf : r.form = .finite := by rw [hr]
    have he : r.exp = a.exp + b.exp := by rw [hr]
    have hc : r.coeff = a.coeff * b.coeff := by rw [hr]
    rw [ctxRound_finite _ _ hf]
    exact roundX_id c _ true hf hp (by rw [hc]; exact hnd) (by omega) (by omega)
      (by rw [hc, he]; omega) (by rw [hc, he]; omega) (by rw [he]; omega)
  unfold mulOp
  simp only [hnan, ha, hb]
  simp [hse, hrd _ rfl, finish, empty_or, goError_empty]

/-- the hypotheses under which every intermediate of square-and-multiply is exact -/
structure PowHyp (nc : Ctx) (x : Dec) (N : Nat) : Prop where
  hemin : nc.emin = -100000
  hemax : nc.emax = 100000
  hx : 0 < x.coeff
  hfit : ndigits (x.coeff ^ N) ≤ nc.prec
  hrange : ∀ k : Nat, k ≤ N → -90000 ≤ x.exp * (k : Int) ∧ x.exp * (k : Int) + (ndigits (x.coeff ^ k) : Int) ≤ 90000

theorem xpow_mul (x : Dec) (j k : Nat) :
    ({ form := .finite, neg := (xpow x j).neg != (xpow x k).neg, exp := (xpow x j).exp + (xpow x k).exp,
       coeff := (xpow x j).coeff * (xpow x k).coeff } : Dec) = xpow x (j + k) := by
  have hneg : ((x.neg && j % 2 == 1) != (x.neg && k % 2 == 1)) = (x.neg && (j + k) % 2 == 1) := by
    rcases Nat.mod_two_eq_zero_or_one j with h1 | h1 <;> rcases Nat.mod_two_eq_zero_or_one k with h2 | h2 <;>
      (have h3 : (j + k) % 2 = (j % 2 + k % 2) % 2 := Nat.add_mod _ _ _
       rw [h3, h1, h2]; cases x.neg <;> simp)
  simp only [xpow, hneg, Dec.mk.injEq, true_and]
  constructor
  · push_cast; ring
  · rw [pow_add]

theorem mul_xpow {nc : Ctx} {x : Dec} {N : Nat} (h : PowHyp nc x N) (j k : Nat) (hjk : j + k ≤ N) :
    mulOp nc (xpow x j) (xpow x k) = { d := xpow x (j + k) } := by
  have hpos : 0 < x.coeff ^ (j + k) := Nat.pow_pos h.hx
  have hle : x.coeff ^ (j + k) ≤ x.coeff ^ N := Nat.pow_le_pow_right h.hx hjk
  have hnd : ndigits (x.coeff ^ (j + k)) ≤ nc.prec := le_trans (ndigits_mono hpos hle) h.hfit
  have hp : 1 ≤ nc.prec := le_trans (ndigits_pos _) hnd
  have rj := h.hrange j (by omega)
  have rk := h.hrange k (by omega)
  have rjk := h.hrange (j + k) hjk
  have nj := ndigits_pos (x.coeff ^ j)
  have nk := ndigits_pos (x.coeff ^ k)
  have hcoef : (xpow x j).coeff * (xpow x k).coeff = x.coeff ^ (j + k) := by simp [xpow, pow_add]
  have hexp : (xpow x j).exp + (xpow x k).exp = x.exp * ((j + k : Nat) : Int) := by
    simp only [xpow]; push_cast; ring
  have hej : (xpow x j).exp = x.exp * (j : Int) := rfl
  have hek : (xpow x k).exp = x.exp * (k : Int) := rfl
  rw [mulOp_exact nc (xpow x j) (xpow x k) rfl rfl hp h.hemin h.hemax (by rw [hcoef]; exact hnd)
    (by rw [hej]; omega) (by rw [hej]; omega) (by rw [hek]; omega) (by rw [hek]; omega)
    (by rw [hexp]; omega) (by rw [hexp, hcoef]; omega), xpow_mul]

theorem failed_clean (nc : Ctx) : ({ c := nc } : ED).failed = false := by
  simp [ED.failed, goError_empty]

theorem step_clean (nc : Ctx) (cur d : Dec) (op : Ctx → Out) (h : op nc = { d := d }) :
    ({ c := nc } : ED).step cur op = ({ c := nc }, d) := by
  simp [ED.step, failed_clean, h, empty_or]

/-- the square-and-multiply loop computes the exact power: `z = x^a`, `n = x^m`, `a + b*m = N` -/
theorem intPowLoop_exact {nc : Ctx} {x : Dec} {N : Nat} (h : PowHyp nc x N) :
    ∀ (fuel b a m : Nat), b < 2 ^ fuel → a + b * m = N → 1 ≤ m →
      intPowLoop fuel { c := nc } b (xpow x a) (xpow x m) = ({ c := nc }, xpow x N) := by
  intro fuel
  induction fuel with
  | zero =>
    intro b a m hb hN hm
    have : b = 0 := by simpa using hb
    subst this
    simp at hN; subst hN
    simp [intPowLoop]
  | succ f ih =>
    intro b a m hb hN hm
    unfold intPowLoop
    by_cases hb0 : b = 0
    · subst hb0; simp at hN; subst hN; simp
    · have hbne : (b == 0) = false := by simpa using hb0
      simp only [hbne]
      have hbpos : 0 < b := Nat.pos_of_ne_zero hb0
      have hbm : m ≤ b * m := Nat.le_mul_of_pos_left m hbpos
      -- the multiply step
      have hr1 : (if b % 2 == 1 then ({ c := nc } : ED).step (xpow x a) (fun c => mulOp c (xpow x a) (xpow x m))
            else (({ c := nc } : ED), xpow x a)) = (({ c := nc } : ED), xpow x (if b % 2 = 1 then a + m else a)) := by
        by_cases hodd : b % 2 = 1
        · simp only [hodd, beq_self_eq_true, if_true]
          exact step_clean nc _ _ _ (mul_xpow h a m (by omega))
        · have : (b % 2 == 1) = false := by simpa using hodd
          simp [this, hodd]
      rw [hr1]
      simp only []
      -- the squaring step
      have hr2 : (if b / 2 > 0 then ({ c := nc } : ED).step (xpow x m) (fun c => mulOp c (xpow x m) (xpow x m))
            else (({ c := nc } : ED), xpow x m)) = (({ c := nc } : ED), xpow x (if b / 2 > 0 then m + m else m)) := by
        by_cases hh : b / 2 > 0
        · simp only [hh, if_true]
          have h2 : 2 ≤ b := by omega
          have : 2 * m ≤ b * m := Nat.mul_le_mul_right m h2
          exact step_clean nc _ _ _ (mul_xpow h m m (by omega))
        · simp [hh]
      rw [hr2]
      simp only [failed_clean]
      apply ih
      · have : 2 ^ (f + 1) = 2 * 2 ^ f := by rw [Nat.pow_succ]; ring
        omega
      · by_cases hh : b / 2 > 0
        · simp only [hh, if_true]
          have hdm := Nat.div_add_mod b 2
          by_cases hodd : b % 2 = 1
          · simp only [hodd, if_true]
            have : b = 2 * (b / 2) + 1 := by omega
            calc a + m + b / 2 * (m + m) = a + (2 * (b / 2) + 1) * m := by ring
              _ = a + b * m := by rw [← this]
              _ = N := hN
          · simp only [hodd, if_false]
            have : b = 2 * (b / 2) := by omega
            calc a + b / 2 * (m + m) = a + (2 * (b / 2)) * m := by ring
              _ = a + b * m := by rw [← this]
              _ = N := hN
        · have hb1 : b = 1 := by omega
          subst hb1
          simp at hN ⊢
          exact hN
      · split_ifs <;> omega

theorem xpow_one (x : Dec) (hx : x.form = .finite) : xpow x 1 = x := by
  cases x; simp_all [xpow]

theorem integerPower_exact {nc : Ctx} {x : Dec} {N : Nat} (h : PowHyp nc x N) (hx : x.form = .finite) :
    integerPower nc x (N : Int) = (xpow x N, {}, .none) := by
  have hl : intPowLoop (Nat.log2 N + 2) { c := nc } N decOne x = (({ c := nc } : ED), xpow x N) := by
    have := intPowLoop_exact h (Nat.log2 N + 2) N 0 1
      (lt_trans Nat.lt_log2_self (Nat.pow_lt_pow_right (by decide) (by omega))) (by simp) (le_refl _)
    rwa [xpow_zero, xpow_one x hx] at this
  have hneg : decide ((N : Int) < 0) = false := by simp
  unfold integerPower
  simp only [Int.natAbs_natCast, hl, hneg, failed_clean]
  simp [ED.errOf, goError_empty]

theorem powSpecials_none (c : Ctx) (x : Dec) (n : Nat) (hx : x.form = .finite) (hxc : x.coeff ≠ 0) (hn : 0 < n) :
    powSpecials c x { form := .finite, neg := false, exp := 0, coeff := n } = none := by
  have hn' : n ≠ 0 := by omega
  have hm : (modf { form := .finite, neg := false, exp := 0, coeff := n }).2.isZero = true := by
    simp [modf, Dec.isZero]
    split_ifs <;> first | omega | simp [Nat.mod_one]
  unfold powSpecials
  simp only [hm]
  simp [shouldSetAsNaN, Dec.isNaN, Dec.sign, hx, hxc, hn']
  cases x.neg <;> simp

theorem powIntOp_exact (c : Ctx) (x : Dec) (n : Nat) (hx : x.form = .finite) (hxc : x.coeff ≠ 0) (hn : 0 < n)
    (hfit : ndigits (x.coeff ^ n) ≤ (if c.prec < ndigits x.coeff then ndigits x.coeff else c.prec) + 10)
    (hrange : ∀ k : Nat, k ≤ n → -90000 ≤ x.exp * (k : Int) ∧ x.exp * (k : Int) + (ndigits (x.coeff ^ k) : Int) ≤ 90000) :
    powIntOp c x { form := .finite, neg := false, exp := 0, coeff := n } =
      some (finish c (ctxRound c (xpow x n))) := by
  have hm : modf { form := .finite, neg := false, exp := 0, coeff := n } =
      ({ form := .finite, neg := false, exp := 0, coeff := n }, { form := .finite, neg := false, exp := 0, coeff := 0 }) := by
    have : ¬ ((ndigits n : Int) < 0) := by omega
    simp [modf, this, Nat.mod_one]
  have hq : ∀ v : Dec, v.exp = 0 → quantizeCore c v 0 = (v, {}) := by
    intro v hv
    cases v
    simp_all [quantizeCore]
  have hyp : PowHyp { baseCtx with prec := (if c.prec < ndigits x.coeff then ndigits x.coeff else c.prec) + 10 } x n :=
    { hemin := rfl, hemax := rfl, hx := Nat.pos_of_ne_zero hxc, hfit := hfit, hrange := hrange }
  have hip := integerPower_exact hyp hx
  unfold powIntOp
  rw [powSpecials_none c x n hx hxc hn]
  have hq' := hq { form := .finite, neg := false, exp := 0, coeff := n } rfl
  simp only [hm, hq']
  simp [Dec.isZero, hip, empty_or]

end Apd.C12L
