import ApdVerif.Lemmas.LnAccHalleyLoop
import ApdVerif.Lemmas.LnAccLn10
/-!
# `Ln`: the final rounding in the caller's mode, the `ln 10` adjustment, and the common tail
-/
namespace Apd.LnAcc
open Apd Apd.Oracle Apd.Props Apd.RatSpec Apd.ExpAcc Cond

/-- half a unit for the three half modes, a full unit for the directed modes -/
noncomputable def rhoMode (m : Mode) : ℚ :=
  if m = .halfUp ∨ m = .halfDown ∨ m = .halfEven then 1 / 2 else 1

theorem roundInt_err (mode : Mode) (neg : Bool) (t : ℚ) :
    |((roundInt mode neg t : ℤ) : ℚ) - t| ≤ rhoMode mode := by
  unfold rhoMode
  split_ifs with h
  · exact Rat_roundInt_half_nearest mode h neg t
  · have f1 := Int.floor_le t
    have f2 := Int.lt_floor_add_one t
    rcases roundInt_floor_or_succ mode neg t with h1 | h1 <;> rw [h1, abs_le] <;> push_cast <;>
      constructor <;> linarith

/-- a non-zero value rounded to the caller's context in any mode: within `rhoMode` units `10^q`, `|v| < 10^(q+prec)`,
and `q` is at most the ulp exponent read off the result -/
theorem final_round_gen' (c : Ctx) (hc : c.WF) (v : Dec) (hv : v.form = .finite)
    (hv0 : v.toRat ≠ 0) (hns : NoSys (ctxRound c v).2) (hf : (ctxRound c v).1.form = .finite) :
    ∃ q : ℤ, q ≤ ulpExp c (ctxRound c v).1 ∧ |(ctxRound c v).1.toRat - v.toRat| ≤ rhoMode c.mode * (10 : ℚ) ^ q ∧
      |v.toRat| < (10 : ℚ) ^ (q + (c.prec : ℤ)) ∧
      (ndigits v.coeff : ℤ) - 1 + v.exp - (c.prec : ℤ) + 1 ≤ q := by
  have hA := Props.C01_roundCore c hc v hv hns
  set d := (ctxRound c v).1 with hd
  have hcoeff : v.coeff ≠ 0 := by
    intro h0; apply hv0; unfold Dec.toRat; simp [h0]
  set ex := exactRound v with hex
  have hn : 0 < ex.num := Nat.pos_of_ne_zero hcoeff
  have hden : 0 < ex.den := Nat.one_pos
  have ha := mag_isAdj ex hn hden
  set a : ℤ := adjRat ex.num ex.den + ex.e10 with haDef
  obtain ⟨hval, _, _, _⟩ := Rat_agrees_finite c ex d _ hn hden ha hA hf
  have hmagv : ex.mag = |v.toRat| := by
    rw [← Exact.abs_toRat, Rat_exactRound_toRat]
  have hvsgn : v.toRat = (if ex.neg then -1 else 1) * ex.mag := by
    rw [← Exact.toRat_eq, Rat_exactRound_toRat]
  set q : ℤ := quantum c a with hq
  have hqpos : (0 : ℚ) < (10 : ℚ) ^ q := zpow_pos (by norm_num) _
  have ten1 : (1 : ℚ) < 10 := by norm_num
  have hr := roundInt_err c.mode ex.neg (ex.mag / (10 : ℚ) ^ q)
  have hsg : |(if ex.neg then (-1 : ℚ) else 1)| = 1 := by cases ex.neg <;> simp
  have hdabs : |d.toRat| = roundedMag c ex.neg ex.mag a := by
    rw [hval, abs_mul, hsg, one_mul]
    apply abs_of_nonneg
    unfold roundedMag
    have : 0 ≤ roundInt c.mode ex.neg (ex.mag / (10 : ℚ) ^ quantum c a) := by
      apply roundInt_nonneg
      have : 0 ≤ ex.mag := by rw [hmagv]; exact abs_nonneg _
      positivity
    have h2 : (0 : ℚ) ≤ ((roundInt c.mode ex.neg (ex.mag / (10 : ℚ) ^ quantum c a) : ℤ) : ℚ) := by exact_mod_cast this
    positivity
  refine ⟨q, ?_, ?_, ?_, ?_⟩
  · rw [ulpExp_eq]
    by_cases hcase : a - (c.prec : ℤ) + 1 ≤ c.emin - (c.prec : ℤ) + 1
    · have : q = c.emin - (c.prec : ℤ) + 1 := by rw [hq]; unfold quantum; exact max_eq_right hcase
      rw [this]; exact le_max_right _ _
    · have hqa : q = a - (c.prec : ℤ) + 1 := by
        rw [hq]; unfold quantum; exact max_eq_left (by omega)
      have hP : 1 ≤ c.prec := hc.1
      have hfloor : ((10 : ℤ) ^ (c.prec - 1) : ℤ) ≤ ⌊ex.mag / (10 : ℚ) ^ q⌋ := by
        rw [Int.le_floor, le_div_iff₀ hqpos]
        push_cast
        rw [← zpow_natCast (10 : ℚ) (c.prec - 1), ← zpow_add₀ (by norm_num : (10 : ℚ) ≠ 0)]
        have : ((c.prec - 1 : ℕ) : ℤ) + q = a := by rw [hqa, Nat.cast_sub hP]; push_cast; ring
        rw [this]; exact ha.1
      have hri : ((10 : ℤ) ^ (c.prec - 1) : ℤ) ≤ roundInt c.mode ex.neg (ex.mag / (10 : ℚ) ^ q) := by
        rcases roundInt_floor_or_succ c.mode ex.neg (ex.mag / (10 : ℚ) ^ q) with h | h <;> rw [h] <;> omega
      have hdge : (10 : ℚ) ^ a ≤ |d.toRat| := by
        rw [hdabs]
        unfold roundedMag
        rw [← hq]
        have e1 : (10 : ℚ) ^ a = (((10 : ℤ) ^ (c.prec - 1) : ℤ) : ℚ) * (10 : ℚ) ^ q := by
          push_cast
          rw [← zpow_natCast (10 : ℚ) (c.prec - 1), ← zpow_add₀ (by norm_num : (10 : ℚ) ≠ 0)]
          congr 1
          rw [hqa, Nat.cast_sub hP]; push_cast; ring
        rw [e1]
        apply mul_le_mul_of_nonneg_right _ hqpos.le
        exact_mod_cast hri
      have hdpos : 0 < |d.toRat| := lt_of_lt_of_le (zpow_pos (by norm_num) _) hdge
      have hdc : 0 < d.coeff := by
        rcases Nat.eq_zero_or_pos d.coeff with h0 | h0
        · exfalso
          have : d.toRat = 0 := by unfold Dec.toRat; simp [h0]
          rw [this, abs_zero] at hdpos; exact lt_irrefl _ hdpos
        · exact h0
      have hdlt : |d.toRat| < (10 : ℚ) ^ ((ndigits d.coeff : ℤ) + d.exp) := by
        have h1 : |d.toRat| = (d.coeff : ℚ) * (10 : ℚ) ^ d.exp := by
          rw [← absD_toRat]; unfold Dec.absD Dec.toRat; simp
        have h2 : (d.coeff : ℚ) < (10 : ℚ) ^ (ndigits d.coeff) := by
          exact_mod_cast (ndigits_spec d.coeff hdc).2
        have h3 : (0 : ℚ) < (10 : ℚ) ^ d.exp := zpow_pos (by norm_num) _
        rw [h1]
        calc (d.coeff : ℚ) * (10 : ℚ) ^ d.exp < (10 : ℚ) ^ (ndigits d.coeff) * (10 : ℚ) ^ d.exp :=
              mul_lt_mul_of_pos_right h2 h3
          _ = (10 : ℚ) ^ ((ndigits d.coeff : ℤ) + d.exp) := by
              rw [← zpow_natCast (10 : ℚ) (ndigits d.coeff), ← zpow_add₀ (by norm_num : (10 : ℚ) ≠ 0)]
      have hlt : (10 : ℚ) ^ a < (10 : ℚ) ^ ((ndigits d.coeff : ℤ) + d.exp) := lt_of_le_of_lt hdge hdlt
      rw [zpow_lt_zpow_iff_right₀ ten1] at hlt
      rw [hqa]
      apply le_trans _ (le_max_left _ _)
      omega
  · rw [hval, hvsgn]
    have : (if ex.neg then (-1 : ℚ) else 1) * roundedMag c ex.neg ex.mag a - (if ex.neg then (-1 : ℚ) else 1) * ex.mag =
        (if ex.neg then (-1 : ℚ) else 1) * (roundedMag c ex.neg ex.mag a - ex.mag) := by ring
    rw [this, abs_mul, hsg, one_mul]
    unfold roundedMag
    rw [← hq]
    have e : ((roundInt c.mode ex.neg (ex.mag / (10 : ℚ) ^ q) : ℤ) : ℚ) * (10 : ℚ) ^ q - ex.mag =
        (((roundInt c.mode ex.neg (ex.mag / (10 : ℚ) ^ q) : ℤ) : ℚ) - ex.mag / (10 : ℚ) ^ q) * (10 : ℚ) ^ q := by
      field_simp
    rw [e, abs_mul, abs_of_pos hqpos]
    exact mul_le_mul_of_nonneg_right hr hqpos.le
  · rw [← hmagv]
    have h1 : a + 1 ≤ q + (c.prec : ℤ) := by
      have : a - (c.prec : ℤ) + 1 ≤ q := by rw [hq]; unfold quantum; exact le_max_left _ _
      omega
    exact lt_of_lt_of_le ha.2 (zpow_le_zpow_right₀ ten1.le h1)
  · have ha1 : a = (ndigits v.coeff : ℤ) - 1 + v.exp := by
      rw [haDef]
      show adjRat v.coeff 1 + v.exp = _
      rw [adjRat_one v.coeff (Nat.pos_of_ne_zero hcoeff)]
    have : a - (c.prec : ℤ) + 1 ≤ q := by rw [hq]; unfold quantum; exact le_max_left _ _
    omega

theorem final_round_gen (c : Ctx) (hc : c.WF) (v : Dec) (hv : v.form = .finite)
    (hv0 : v.toRat ≠ 0) (hns : NoSys (ctxRound c v).2) (hf : (ctxRound c v).1.form = .finite) :
    ∃ q : ℤ, q ≤ ulpExp c (ctxRound c v).1 ∧ |(ctxRound c v).1.toRat - v.toRat| ≤ rhoMode c.mode * (10 : ℚ) ^ q ∧
      |v.toRat| < (10 : ℚ) ^ (q + (c.prec : ℤ)) := by
  obtain ⟨q, h1, h2, h3, _⟩ := final_round_gen' c hc v hv hv0 hns hf
  exact ⟨q, h1, h2, h3⟩

/-- Mul in a wide half-even context, zero operands included -/
theorem mul_rel_gen (c : Ctx) (hw : Wide c) (hm : c.mode = .halfEven) (x y : Dec)
    (hx : x.form = .finite) (hy : y.form = .finite) (he : (mulOp c x y).err = .none) :
    (mulOp c x y).d.form = .finite ∧ ∃ δ : ℝ, |δ| ≤ uR c.prec ∧ rv (mulOp c x y).d = rv x * rv y * (1 + δ) := by
  by_cases h0 : rv x = 0 ∨ rv y = 0
  · obtain ⟨hf, _⟩ := mulOp_wide c hw x y hx hy he
    refine ⟨hf, 0, by simpa using (uR_pos c.prec).le, ?_⟩
    have hA := C01_mul c hw.wf x y hx hy (Or.inl he)
    have hz : rv x * rv y = 0 := by rcases h0 with h | h <;> simp [h]
    rw [hz, zero_mul]
    apply rv_zero_of_agrees c _ _ _ hA hf
    show x.coeff * y.coeff = 0
    rcases h0 with h | h
    · rw [(rv_eq_zero_iff x).1 h, Nat.zero_mul]
    · rw [(rv_eq_zero_iff y).1 h, Nat.mul_zero]
  · push_neg at h0
    exact mul_rel c hw hm x y hx hy h0.1 h0.2 he

end Apd.LnAcc
