import ApdVerif.Lemmas.Log10AccInv
import ApdVerif.Oracle.Log10TapeOK
/-!
# `Log10` on the model: `Ln` at `P+2` digits (half-even, wide), one multiplication at `P` digits, final rounding
-/
namespace Apd.LnAcc
open Apd Apd.Oracle Apd.Props Apd.RatSpec Apd.ExpAcc Apd.C12IL Cond

/-- rounding to a wide half-even context: a factor `(1+δ)`, zero included -/
theorem round_rel_gen (c : Ctx) (hw : Wide c) (hm : c.mode = .halfEven) (F : Dec) (hFf : F.form = .finite)
    (hns : NoSys (ctxRound c F).2) :
    (ctxRound c F).1.form = .finite ∧ ∃ δ : ℝ, |δ| ≤ uR c.prec ∧ rv (ctxRound c F).1 = rv F * (1 + δ) := by
  obtain ⟨rf, rsub⟩ := ctxRound_wide c hw F hFf hns
  refine ⟨rf, ?_⟩
  have hA := C01_roundCore c hw.wf F hFf hns
  by_cases h0 : rv F = 0
  · refine ⟨0, by simpa using (uR_pos c.prec).le, ?_⟩
    rw [h0, zero_mul]
    exact rv_zero_of_agrees c _ _ _ hA rf ((rv_eq_zero_iff F).1 h0)
  · exact rel_of_agrees c hm (exactRound F) _ _ (rv F) Nat.one_pos hA rf rsub
      (by rw [Rat_exactRound_toRat]; rfl) h0

/-- a delivered finite non-subnormal half-even result: within half a unit `10^(a-P+1)` of the exact value whose
adjusted exponent is `a`, and itself of magnitude at least `10^a` -/
theorem agrees_abs (c : Ctx) (hP : 1 ≤ c.prec) (hm : c.mode = .halfEven) (ex : Exact) (d : Dec) (fl : Cond)
    (hn : 0 < ex.num) (hd : 0 < ex.den) (hA : Agrees c ex d fl) (hf : d.form = .finite)
    (hsub : fl.subnormal = false) :
    ∃ a : ℤ, (10 : ℚ) ^ a ≤ |ex.toRat| ∧ |ex.toRat| < (10 : ℚ) ^ (a + 1) ∧
      |d.toRat - ex.toRat| ≤ (10 : ℚ) ^ (a - (c.prec : ℤ) + 1) / 2 ∧ (10 : ℚ) ^ a ≤ |d.toRat| := by
  have ha := mag_isAdj ex hn hd
  set a : ℤ := adjRat ex.num ex.den + ex.e10 with haDef
  obtain ⟨hval, _, hsubiff, _⟩ := Rat_agrees_finite c ex d fl hn hd ha hA hf
  have ten1 : (1 : ℚ) < 10 := by norm_num
  have hmag : (10 : ℚ) ^ c.emin ≤ ex.mag := by
    by_contra hcon
    have := hsubiff.2 (by rw [Exact.abs_toRat]; exact lt_of_not_ge hcon)
    rw [hsub] at this; cases this
  have hae : c.emin ≤ a := by
    have h1 : (10 : ℚ) ^ c.emin < (10 : ℚ) ^ (a + 1) := lt_of_le_of_lt hmag ha.2
    rw [zpow_lt_zpow_iff_right₀ ten1] at h1
    omega
  have hq : quantum c a = a - (c.prec : ℤ) + 1 := by
    unfold quantum; exact max_eq_left (by omega)
  have hqpos : (0 : ℚ) < (10 : ℚ) ^ (a - (c.prec : ℤ) + 1) := zpow_pos (by norm_num) _
  have hr := Rat_roundInt_half_nearest c.mode (Or.inr (Or.inr hm)) ex.neg (ex.mag / (10 : ℚ) ^ (a - (c.prec : ℤ) + 1))
  have hsg : |(if ex.neg then (-1 : ℚ) else 1)| = 1 := by cases ex.neg <;> simp
  refine ⟨a, by rw [Exact.abs_toRat]; exact ha.1, by rw [Exact.abs_toRat]; exact ha.2, ?_, ?_⟩
  · rw [hval, Exact.toRat_eq]
    have : (if ex.neg then (-1 : ℚ) else 1) * roundedMag c ex.neg ex.mag a - (if ex.neg then (-1 : ℚ) else 1) * ex.mag =
        (if ex.neg then (-1 : ℚ) else 1) * (roundedMag c ex.neg ex.mag a - ex.mag) := by ring
    rw [this, abs_mul, hsg, one_mul]
    unfold roundedMag
    rw [hq]
    have e : ((roundInt c.mode ex.neg (ex.mag / (10 : ℚ) ^ (a - (c.prec : ℤ) + 1)) : ℤ) : ℚ) * (10 : ℚ) ^ (a - (c.prec : ℤ) + 1) - ex.mag =
        (((roundInt c.mode ex.neg (ex.mag / (10 : ℚ) ^ (a - (c.prec : ℤ) + 1)) : ℤ) : ℚ) - ex.mag / (10 : ℚ) ^ (a - (c.prec : ℤ) + 1)) *
          (10 : ℚ) ^ (a - (c.prec : ℤ) + 1) := by
      field_simp
    rw [e, abs_mul, abs_of_pos hqpos]
    calc _ ≤ 1 / 2 * (10 : ℚ) ^ (a - (c.prec : ℤ) + 1) := mul_le_mul_of_nonneg_right hr hqpos.le
      _ = _ := by ring
  · have hfloor : ((10 : ℤ) ^ (c.prec - 1) : ℤ) ≤ ⌊ex.mag / (10 : ℚ) ^ (a - (c.prec : ℤ) + 1)⌋ := by
      rw [Int.le_floor, le_div_iff₀ hqpos]
      push_cast
      rw [← zpow_natCast (10 : ℚ) (c.prec - 1), ← zpow_add₀ (by norm_num : (10 : ℚ) ≠ 0)]
      have : ((c.prec - 1 : ℕ) : ℤ) + (a - (c.prec : ℤ) + 1) = a := by rw [Nat.cast_sub hP]; push_cast; ring
      rw [this]; exact ha.1
    have hri : ((10 : ℤ) ^ (c.prec - 1) : ℤ) ≤ roundInt c.mode ex.neg (ex.mag / (10 : ℚ) ^ (a - (c.prec : ℤ) + 1)) := by
      rcases roundInt_floor_or_succ c.mode ex.neg (ex.mag / (10 : ℚ) ^ (a - (c.prec : ℤ) + 1)) with h | h <;>
        rw [h] <;> omega
    rw [hval, abs_mul, hsg, one_mul]
    unfold roundedMag
    rw [hq]
    have hnn : (0 : ℚ) ≤ ((roundInt c.mode ex.neg (ex.mag / (10 : ℚ) ^ (a - (c.prec : ℤ) + 1)) : ℤ) : ℚ) := by
      have : (0 : ℤ) ≤ roundInt c.mode ex.neg (ex.mag / (10 : ℚ) ^ (a - (c.prec : ℤ) + 1)) :=
        le_trans (by positivity) hri
      exact_mod_cast this
    rw [abs_of_nonneg (mul_nonneg hnn hqpos.le)]
    have e1 : (10 : ℚ) ^ a = (((10 : ℤ) ^ (c.prec - 1) : ℤ) : ℚ) * (10 : ℚ) ^ (a - (c.prec : ℤ) + 1) := by
      push_cast
      rw [← zpow_natCast (10 : ℚ) (c.prec - 1), ← zpow_add₀ (by norm_num : (10 : ℚ) ≠ 0)]
      congr 1
      rw [Nat.cast_sub hP]; push_cast; ring
    rw [e1]
    apply mul_le_mul_of_nonneg_right _ hqpos.le
    exact_mod_cast hri

/-- Mul in a wide half-even context with an absolute half-unit bound -/
theorem mul_abs (c : Ctx) (hw : Wide c) (hm : c.mode = .halfEven) (x y : Dec)
    (hx : x.form = .finite) (hy : y.form = .finite) (hx0 : rv x ≠ 0) (hy0 : rv y ≠ 0)
    (he : (mulOp c x y).err = .none) :
    (mulOp c x y).d.form = .finite ∧ ∃ a : ℤ, (10 : ℝ) ^ a ≤ |rv x * rv y| ∧ |rv x * rv y| < (10 : ℝ) ^ (a + 1) ∧
      |rv (mulOp c x y).d - rv x * rv y| ≤ (10 : ℝ) ^ (a - (c.prec : ℤ) + 1) / 2 ∧
      (10 : ℝ) ^ a ≤ |rv (mulOp c x y).d| := by
  obtain ⟨hf, hs⟩ := mulOp_wide c hw x y hx hy he
  refine ⟨hf, ?_⟩
  have hA := C01_mul c hw.wf x y hx hy (Or.inl he)
  have hxc : x.coeff ≠ 0 := fun h => hx0 ((rv_eq_zero_iff x).2 h)
  have hyc : y.coeff ≠ 0 := fun h => hy0 ((rv_eq_zero_iff y).2 h)
  have hn : 0 < (exactMul x y).num := Nat.mul_pos (Nat.pos_of_ne_zero hxc) (Nat.pos_of_ne_zero hyc)
  obtain ⟨a, h1, h2, h3, h4⟩ := agrees_abs c hw.prec1 hm (exactMul x y) _ _ hn Nat.one_pos hA hf hs
  rw [Rat_exactMul_toRat] at h1 h2 h3
  refine ⟨a, ?_, ?_, ?_, ?_⟩
  · unfold rv
    have : (((10 : ℚ) ^ a : ℚ) : ℝ) ≤ ((|x.toRat * y.toRat| : ℚ) : ℝ) := by exact_mod_cast h1
    push_cast at this; exact this
  · unfold rv
    have : ((|x.toRat * y.toRat| : ℚ) : ℝ) < (((10 : ℚ) ^ (a + 1) : ℚ) : ℝ) := by exact_mod_cast h2
    push_cast at this; exact this
  · unfold rv
    have : ((|(mulOp c x y).d.toRat - x.toRat * y.toRat| : ℚ) : ℝ) ≤ (((10 : ℚ) ^ (a - (c.prec : ℤ) + 1) / 2 : ℚ) : ℝ) := by
      exact_mod_cast h3
    push_cast at this; exact this
  · unfold rv
    have : (((10 : ℚ) ^ a : ℚ) : ℝ) ≤ ((|(mulOp c x y).d.toRat| : ℚ) : ℝ) := by exact_mod_cast h4
    push_cast at this; exact this

/-! ## the inner `Ln` of `Log10` -/

theorem log10Nc_wf (c : Ctx) (h : c.prec + 2 ≤ 100000) : (log10Nc c).WF := by
  unfold Ctx.WF log10Nc baseCtx
  simp only [MaxExponent, MinExponent]
  omega

theorem log10Nc_wide (c : Ctx) (h : c.prec + 2 ≤ 100000) : Wide (log10Nc c) :=
  ⟨rfl, rfl, by show 1 ≤ c.prec + 2; omega, by show ((c.prec + 2 : ℕ) : ℤ) ≤ 100000; omega⟩

theorem uR_add_two (p : Nat) : uR (p + 2) = uR p / 100 := by
  rw [uR_eq, uR_eq, pow_add]; field_simp; ring

theorem logSpecials_none_indep (c c' : Ctx) (x : Dec) (h : logSpecials c x = none) : logSpecials c' x = none := by
  unfold logSpecials at h ⊢
  split_ifs at h ⊢ <;> first | rfl | (simp at h)

/-- the relative size of the error of the inner `Ln` result, in units of `u₂ = uR (P+2)` -/
noncomputable def lnRelE (u2 : ℝ) (N : Nat) : ℝ := u2 * (1031 / 1000 + 12564 / 1000000 * ((N : ℝ) + 5))

/-- real part, series paths: `F` relative-`ε` close to `Λ`, `l = F(1+δ)` -/
theorem wide_series_real (F l Λ ε δr u2 : ℝ) (N : ℕ) (hu0 : 0 < u2) (hu1 : u2 ≤ 1 / 200)
    (hFL : |F - Λ| ≤ ε * |Λ|) (hε0 : 0 ≤ ε) (hε1 : ε ≤ 21 / 200)
    (hK : ε / (1 - ε) ≤ ((N : ℝ) + 5) / 16 * (20 * (u2 / 100)))
    (hδr : |δr| ≤ u2) (hl : l = F * (1 + δr)) :
    |l - Λ| ≤ lnRelE u2 N * |l| + 9 / 100 * u2 := by
  have hdr := abs_le.1 hδr
  have hΛF : |Λ| * (1 - ε) ≤ |F| := by
    have : |Λ| ≤ |F| + |F - Λ| := by
      have := abs_sub_abs_le_abs_sub Λ F
      rw [abs_sub_comm] at this; linarith
    nlinarith [abs_nonneg Λ]
  have hN0 : (0 : ℝ) ≤ ((N : ℝ) + 5) / 16 * (20 * (u2 / 100)) := by positivity
  have hκ : ε * |Λ| ≤ (((N : ℝ) + 5) / 16 * (20 * (u2 / 100))) * |F| := by
    have h1 : ε ≤ (((N : ℝ) + 5) / 16 * (20 * (u2 / 100))) * (1 - ε) := by
      rwa [div_le_iff₀ (by linarith)] at hK
    calc ε * |Λ| ≤ ((((N : ℝ) + 5) / 16 * (20 * (u2 / 100))) * (1 - ε)) * |Λ| :=
          mul_le_mul_of_nonneg_right h1 (abs_nonneg _)
      _ = (((N : ℝ) + 5) / 16 * (20 * (u2 / 100))) * (|Λ| * (1 - ε)) := by ring
      _ ≤ _ := mul_le_mul_of_nonneg_left hΛF hN0
  have hFl : |F| * (1 - u2) ≤ |l| := by
    rw [hl, abs_mul]
    apply mul_le_mul_of_nonneg_left _ (abs_nonneg _)
    rw [abs_of_nonneg (by linarith [hdr.1])]; linarith [hdr.1]
  have hlF : |l - F| ≤ u2 * |F| := by
    have : l - F = F * δr := by rw [hl]; ring
    rw [this, abs_mul, mul_comm]
    exact mul_le_mul_of_nonneg_right hδr (abs_nonneg _)
  have tri : |l - Λ| ≤ |l - F| + |F - Λ| := by
    have : l - Λ = (l - F) + (F - Λ) := by ring
    rw [this]; exact abs_add_le _ _
  have hF0 := abs_nonneg F
  have hl0 := abs_nonneg l
  have hFle : |F| ≤ 200 / 199 * |l| := by nlinarith
  have hc0 : 0 ≤ u2 + ((N : ℝ) + 5) / 16 * (20 * (u2 / 100)) := by positivity
  have hcoef : |l - Λ| ≤ (u2 + ((N : ℝ) + 5) / 16 * (20 * (u2 / 100))) * |F| := by
    calc |l - Λ| ≤ u2 * |F| + ε * |Λ| := by linarith
      _ ≤ u2 * |F| + (((N : ℝ) + 5) / 16 * (20 * (u2 / 100))) * |F| := by linarith
      _ = _ := by ring
  have h2 : (u2 + ((N : ℝ) + 5) / 16 * (20 * (u2 / 100))) * |F| ≤
      (u2 + ((N : ℝ) + 5) / 16 * (20 * (u2 / 100))) * (200 / 199 * |l|) := mul_le_mul_of_nonneg_left hFle hc0
  unfold lnRelE
  have hNn : (0 : ℝ) ≤ N := by positivity
  have hX : 0 ≤ u2 * |l| := mul_nonneg hu0.le hl0
  have hY : 0 ≤ (N : ℝ) * (u2 * |l|) := mul_nonneg hNn hX
  have h9 : (0 : ℝ) ≤ 9 / 100 * u2 := by positivity
  have expand : (u2 + ((N : ℝ) + 5) / 16 * (20 * (u2 / 100))) * (200 / 199 * |l|) =
      200 / 199 * (u2 * |l|) + 200 / 199 * (1 / 80) * ((N : ℝ) * (u2 * |l|)) + 200 / 199 * (5 / 80) * (u2 * |l|) := by ring
  have target : u2 * (1031 / 1000 + 12564 / 1000000 * ((N : ℝ) + 5)) * |l| =
      1031 / 1000 * (u2 * |l|) + 12564 / 1000000 * ((N : ℝ) * (u2 * |l|)) + 12564 / 1000000 * 5 * (u2 * |l|) := by ring
  rw [target]
  rw [expand] at h2
  nlinarith

/-- real part, Halley path -/
theorem wide_halley_real (F l Λ δr u2 : ℝ) (hu0 : 0 < u2) (hu1 : u2 ≤ 1 / 200)
    (hFR : |F - Λ| ≤ 9 * (u2 / 100) + 5 / 2 * (u2 / 100) * |F|)
    (hδr : |δr| ≤ u2) (hl : l = F * (1 + δr)) :
    |l - Λ| ≤ lnRelE u2 0 * |l| + 9 / 100 * u2 := by
  have hdr := abs_le.1 hδr
  have hFl : |F| * (1 - u2) ≤ |l| := by
    rw [hl, abs_mul]
    apply mul_le_mul_of_nonneg_left _ (abs_nonneg _)
    rw [abs_of_nonneg (by linarith [hdr.1])]; linarith [hdr.1]
  have hlF : |l - F| ≤ u2 * |F| := by
    have : l - F = F * δr := by rw [hl]; ring
    rw [this, abs_mul, mul_comm]
    exact mul_le_mul_of_nonneg_right hδr (abs_nonneg _)
  have tri : |l - Λ| ≤ |l - F| + |F - Λ| := by
    have : l - Λ = (l - F) + (F - Λ) := by ring
    rw [this]; exact abs_add_le _ _
  have hF0 := abs_nonneg F
  have hl0 := abs_nonneg l
  have hFle : |F| ≤ 200 / 199 * |l| := by nlinarith
  unfold lnRelE
  have hX : 0 ≤ u2 * |l| := mul_nonneg hu0.le hl0
  have hZ : u2 * |F| ≤ 200 / 199 * (u2 * |l|) := by
    have := mul_le_mul_of_nonneg_left hFle hu0.le
    linarith
  push_cast
  nlinarith

/-- `Ln` in the wide half-even context of `Log10`: `|l - ln x| ≤ e₁·|l| + 0.09·u₂` -/
theorem ln_wide_result (c : Ctx) (hc1 : 1 ≤ c.prec) (hp : c.prec + 4 ≤ 90) (x : Dec) (tape tp : Tape) (l : Out)
    (hok : LnTapeOK (log10Nc c) x tape = true) (hsp : logSpecials (log10Nc c) x = none)
    (hl : lnT (log10Nc c) x tape = some (l, tp)) (he : l.err = .none) :
    l.d.form = .finite ∧
      |rv l.d - Real.log (rv x)| ≤ lnRelE (uR (c.prec + 2)) (lnTermsN (log10Nc c) x) * |rv l.d| +
        9 / 100 * uR (c.prec + 2) := by
  set nc := log10Nc c with hnc
  have hwf := log10Nc_wf c (by omega)
  have hw := log10Nc_wide c (by omega)
  have hprec : nc.prec = c.prec + 2 := rfl
  have hd : l.err = .none ∨ (l.err = .trap ∧ (l.fl &&& nc.traps).any = true) := Or.inl he
  set u2 := uR (c.prec + 2) with hu2
  have hu2pos : 0 < u2 := uR_pos _
  have hu2small : u2 ≤ 1 / 200 := uR_small _ (by omega)
  have hu4 : uR (nc.prec + 2) = u2 / 100 := by rw [hprec, uR_add_two]
  have hx : PosFin x := by
    unfold LnTapeOK at hok
    simp only [Bool.and_eq_true, beq_iff_eq, Bool.not_eq_true', bne_iff_ne, ne_eq, decide_eq_true_eq] at hok
    exact ⟨hok.1.1.1.1.1, hok.1.1.1.1.2, hok.1.1.1.2⟩
  have hp2 : nc.prec + 2 ≤ 100000 := by rw [hprec]; omega
  have hok' := hok
  unfold LnTapeOK at hok'
  simp only [Bool.and_eq_true] at hok'
  obtain ⟨_, hrest⟩ := hok'
  have hp90 : lnExpDelta x = 0 ∨ nc.prec + 2 ≤ 90 := Or.inr (by rw [hprec]; omega)
  have series_case : ∀ (F : Dec) (ε : ℝ) (N : ℕ), F.form = .finite → l.d = (ctxRound nc F).1 → NoSys (ctxRound nc F).2 →
      |rv F - Real.log (rv x)| ≤ ε * |Real.log (rv x)| → 0 ≤ ε → ε ≤ 21 / 200 →
      ε / (1 - ε) ≤ ((N : ℝ) + 5) / 16 * (20 * uR (nc.prec + 2)) →
      l.d.form = .finite ∧ |rv l.d - Real.log (rv x)| ≤ lnRelE u2 N * |rv l.d| + 9 / 100 * u2 := by
    intro F ε N Ff hod hns hFL hε0 hε1 hK
    obtain ⟨rf, δr, hδr, rv'⟩ := round_rel_gen nc hw rfl F Ff hns
    rw [← hod] at rf rv'
    rw [hprec] at hδr
    rw [hu4] at hK
    exact ⟨rf, wide_series_real _ _ _ ε δr u2 N hu2pos hu2small hFL hε0 hε1 hK hδr rv'⟩
  unfold lnTermsN
  by_cases h0 : (lnA1 nc x).2.absD.cmp lnTenth ≤ 0
  · rw [if_pos h0]
    obtain ⟨F, ε, Ff, hod, hns, hFL, hε0, hε1, hK⟩ := ln_pre_S0 nc hwf x hx hp2 hsp h0 tape tp l hl hd
    exact series_case F ε _ Ff hod hns hFL hε0 hε1 hK
  · rw [if_neg h0] at hrest ⊢
    simp only [Bool.and_eq_true] at hrest
    obtain ⟨_, hrest2⟩ := hrest
    by_cases h1 : (lnA3 nc x).2.absD.cmp lnTenth ≤ 0
    · rw [if_pos h1]
      obtain ⟨F, ε, Ff, hod, hns, hFL, hε0, hε1, hK⟩ := ln_pre_S1 nc hwf x hx hp2 hp90 hsp h0 h1 tape tp l hl hd
      exact series_case F ε _ Ff hod hns hFL hε0 hε1 hK
    · rw [if_neg h1] at hrest2 ⊢
      match tape, hrest2, hl with
      | .est d :: tape', hH, hl =>
        have hu4s : uR (nc.prec + 2) ≤ 1 / 200 := by rw [hu4]; linarith
        have hu4p : 0 < uR (nc.prec + 2) := uR_pos _
        obtain ⟨F, Ff, hod, hns, hFR⟩ := ln_pre_H nc hwf x hx hp2 hp90 hsp h0 h1 d tape' tp l hH hl hd
          (19125 / 10000) 9 (by nlinarith) (by norm_num) (by norm_num)
        obtain ⟨rf, δr, hδr, rv'⟩ := round_rel_gen nc hw rfl F Ff hns
        rw [← hod] at rf rv'
        rw [hprec] at hδr
        rw [hu4] at hFR
        exact ⟨rf, wide_halley_real _ _ _ δr u2 hu2pos hu2small hFR hδr rv'⟩
      | [], hH, _ => simp at hH
      | .cp _ :: _, hH, _ => simp at hH
      | .n _ :: _, hH, _ => simp at hH

/-! ## the product with `1/ln 10` and the final rounding -/

theorem log10_real (Λ Λh T e1 b τ : ℝ) (h : |Λh - Λ| ≤ e1 * |Λh| + b) (he1 : 0 ≤ e1) (hb : 0 ≤ b)
    (hτ : |T - 1 / Real.log 10| ≤ τ) (hT0 : 0 ≤ T) :
    |Λh * T - Λ / Real.log 10| ≤ |Λh| * (e1 * T + (1 + e1) * τ) + b * (T + τ) := by
  have hτ0 : 0 ≤ τ := le_trans (abs_nonneg _) hτ
  have id : Λh * T - Λ / Real.log 10 = (Λh - Λ) * T + Λ * (T - 1 / Real.log 10) := by ring
  have hΛ : |Λ| ≤ |Λh| * (1 + e1) + b := by
    have : |Λ| ≤ |Λh| + |Λh - Λ| := by
      have := abs_sub_abs_le_abs_sub Λ Λh
      rw [abs_sub_comm] at this; linarith
    linarith
  rw [id]
  have h1 : |(Λh - Λ) * T| ≤ (e1 * |Λh| + b) * T := by
    rw [abs_mul, abs_of_nonneg hT0]; exact mul_le_mul_of_nonneg_right h hT0
  have h2 : |Λ * (T - 1 / Real.log 10)| ≤ (|Λh| * (1 + e1) + b) * τ := by
    rw [abs_mul]; exact mul_le_mul hΛ hτ (abs_nonneg _) (by positivity)
  calc _ ≤ |(Λh - Λ) * T| + |Λ * (T - 1 / Real.log 10)| := abs_add_le _ _
    _ ≤ (e1 * |Λh| + b) * T + (|Λh| * (1 + e1) + b) * τ := add_le_add h1 h2
    _ = _ := by ring

theorem lnTermsN_le (c : Ctx) (x : Dec) : lnTermsN c x ≤ c.prec + 2 + 11 := by
  unfold lnTermsN
  split_ifs
  · exact lnSerN_le _ _ _
  · exact lnSerN_le _ _ _
  · omega

/-- `e₁ ≤ 7/1000` -/
theorem lnRelE_small (c : Ctx) (hc1 : 1 ≤ c.prec) (x : Dec) :
    lnRelE (uR (c.prec + 2)) (lnTermsN (log10Nc c) x) ≤ 7 / 1000 ∧
      0 ≤ lnRelE (uR (c.prec + 2)) (lnTermsN (log10Nc c) x) := by
  have hN := lnTermsN_le (log10Nc c) x
  have hprec : (log10Nc c).prec = c.prec + 2 := rfl
  rw [hprec] at hN
  have hb := budget_u (c.prec + 2) (by omega)
  have hu1 := uR_small (c.prec + 2) (by omega)
  have hu0 := uR_pos (c.prec + 2)
  have hNr : ((lnTermsN (log10Nc c) x : ℕ) : ℝ) ≤ ((c.prec + 2 + 2 + 11 : ℕ) : ℝ) := by exact_mod_cast hN
  have hNn : (0 : ℝ) ≤ ((lnTermsN (log10Nc c) x : ℕ) : ℝ) := by positivity
  unfold lnRelE
  generalize ((lnTermsN (log10Nc c) x : ℕ) : ℝ) = N at hNr hNn ⊢
  push_cast at hb hNr
  have hNu : (N + 5) * uR (c.prec + 2) ≤ 105 / 1000 := by nlinarith
  constructor
  · nlinarith
  · apply mul_nonneg hu0.le; nlinarith

end Apd.LnAcc
