import ApdVerif.Lemmas.C14Lemmas
import ApdVerif.Lemmas.RoundCoreLemmas
import ApdVerif.Props.RoundCore
/-!
# Lemmas for C01Parse: `setExponent` followed by `Context.round` is one rounding
-/
namespace Apd.C01P
open Apd Apd.Oracle Apd.Spec Apd.Text Apd.TextL Apd.GramL Cond

/-! ## the sign the parser returns -/

theorem head_optSign {sg t : List Char} (hs : OptSign sg) (ht : HeadOK t) :
    ((sg ++ t).head? == some '-') = decide (sg = ['-']) := by
  obtain ⟨c, r, rfl, h1, h2⟩ := ht
  rcases hs with rfl | rfl | rfl
  · simp [h2]
  · simp
  · simp

/-! ## `setExponent` ignores the exponent field of its operand (outside the system-limit exits) -/

/-- the finite decimal `(-1)^n · co · 10^e` -/
abbrev mk (n : Bool) (e : Int) (co : Nat) : Dec := { form := .finite, neg := n, exp := e, coeff := co }

theorem checkXs_pair (e : Int) : checkXs [e, 0] = checkXs [e] := by
  simp only [checkXs, MaxExponent, MinExponent]
  split_ifs <;> first | rfl | omega

theorem sumInts_pair (e : Int) : sumInts [e, 0] = e := by simp [sumInts]
theorem sumInts_one (e : Int) : sumInts [e] = e := by simp [sumInts]

theorem setExponent_exp_irrel (c : Ctx) (n : Bool) (a b : Int) (co : Nat) (res : Cond) (e : Int)
    (h1 : -100000 ≤ e) (h2 : e ≤ 100000)
    (h3 : -100000 ≤ e + (ndigits co : Int) - 1) (h4 : e + (ndigits co : Int) - 1 ≤ 100000) :
    setExponent c (mk n a co) res [e, 0] = setExponent c (mk n b co) res [e] := by
  have hck : checkXs [e] = none := by rw [checkXs_none_iff]; simp; omega
  unfold setExponent
  rw [checkXs_pair, hck]
  simp only [sumInts_pair, sumInts_one, MaxExponent, MinExponent]
  have a1 : ¬ (e + (ndigits co : Int) - 1 > 100000) := by omega
  have a2 : ¬ (e + (ndigits co : Int) - 1 < -100000) := by omega
  simp only [a1, a2, if_false]
  simp [seFinish, Dec.isZero]

/-! ## flags -/

theorem or_empty (a : Cond) : a ||| ({} : Cond) = a := by
  cases a; simp [HOr.hOr, OrOp.or, Cond.or]
theorem empty_or (a : Cond) : ({} : Cond) ||| a = a := by
  cases a; simp [HOr.hOr, OrOp.or, Cond.or]

/-! ## a decimal that already fits the context is left alone by `Context.round` -/

theorem round_fits_id (c : Ctx) (hc : c.WF) (n : Bool) (e1 : Int) (m : Nat)
    (hnd : ndigits m ≤ c.prec) (he1 : -100000 ≤ e1) (hmax : e1 + (ndigits m : Int) - 1 ≤ c.emax)
    (het : c.etiny ≤ e1) :
    ctxRound c (mk n e1 m) =
      (mk n e1 m, if m ≠ 0 ∧ e1 + (ndigits m : Int) - 1 < c.emin then cSubnormal else {}) := by
  obtain ⟨hp1, hpe, hemax, hemin, hemin0⟩ := hc
  have hnp := ndigits_pos m
  rw [ctxRound_finite c _ rfl]
  unfold ctxRoundFin
  by_cases hlo : c.emin ≤ e1 + (ndigits m : Int) - 1
  · rw [roundX_id c (mk n e1 m) true rfl hp1 hnd hemin hemax hlo hmax he1]
    have : ¬ (m ≠ 0 ∧ e1 + (ndigits m : Int) - 1 < c.emin) := by omega
    rw [if_neg this]
  · by_cases hm : m = 0
    · subst hm
      have hnd0 : ndigits 0 = 1 := rfl
      rw [hnd0] at hlo hmax
      rw [roundX_short c (mk n e1 0) true rfl hp1 hnd (Or.inl rfl)]
      have hck : checkXs [e1, 0] = none := by rw [checkXs_none_iff]; simp; omega
      rw [setExponent_subnormal_exact c _ {} _ hck (by simp [seAdj, sumInts_pair, hnd0]; omega)
        (by simp [seAdj, sumInts_pair, hnd0]; omega) (by omega) (by rw [sumInts_pair]; exact het), sumInts_pair]
      simp [seFinish, Dec.isZero]
    · have q1 : (mk n e1 m).exp + (ndigits (mk n e1 m).coeff : Int) - 1 < c.emin := by
        show e1 + (ndigits m : Int) - 1 < c.emin; omega
      have q2 : -100000 ≤ (mk n e1 m).exp + (ndigits (mk n e1 m).coeff : Int) - 1 := by
        show -100000 ≤ e1 + (ndigits m : Int) - 1; omega
      have q3 : (mk n e1 m).exp ≤ 100000 := by show e1 ≤ 100000; omega
      rw [roundX_subnormal_id c (mk n e1 m) true rfl hp1 hm (by omega) q1 q2 het he1 q3]
      have : (m ≠ 0 ∧ e1 + (ndigits m : Int) - 1 < c.emin) := ⟨hm, by omega⟩
      rw [if_pos this]

/-! ## the oracle above `emax` -/

theorem roundAt_div_ge (mode : Mode) (neg : Bool) (n : Nat) (e q : Int) (h : e ≤ q) :
    n / 10 ^ (q - e).toNat ≤ (roundAt mode neg n 1 e q).1 := by
  rw [roundAt_div mode neg n e q h]
  simp only []
  split_ifs <;> simp

theorem specRound_overflow (c : Ctx) (hc : c.WF) (n : Bool) (co : Nat) (e : Int) (hco : 0 < co)
    (hadj : c.emax < e + (ndigits co : Int) - 1) :
    specRound c { neg := n, num := co, den := 1, e10 := e } =
      { inf := true, neg := n, inexact := true, subnormal := false, overflow := true } := by
  obtain ⟨hp1, hpe, hemax, hemin, hemin0⟩ := hc
  have hnp := ndigits_pos co
  rw [specRound_pos c n co e hco]
  have hq : max ((ndigits co : Int) - 1 + e - (c.prec : Int) + 1) c.etiny
      = (ndigits co : Int) - 1 + e - (c.prec : Int) + 1 := by unfold Ctx.etiny; omega
  have hsub : decide ((ndigits co : Int) - 1 + e < c.emin) = false := by simp; omega
  simp only [hq, hsub]
  generalize hqq : (ndigits co : Int) - 1 + e - (c.prec : Int) + 1 = q
  have key : 0 < (roundAt c.mode n co 1 e q).1 ∧ c.prec ≤ ndigits (roundAt c.mode n co 1 e q).1 := by
    by_cases hs : ndigits co ≤ c.prec
    · rw [roundAt_scale _ _ _ _ _ (by omega)]
      simp only [ndigits_mul_pow _ _ hco]
      exact ⟨Nat.mul_pos hco (Nat.pow_pos (by decide)), by omega⟩
    · have hge := roundAt_div_ge c.mode n co e q (by omega)
      have hD : (q - e).toNat = ndigits co - c.prec := by omega
      rw [hD] at hge
      have hyd : ndigits (co / 10 ^ (ndigits co - c.prec)) = c.prec := ndigits_div_pow _ _ hco hp1 (by omega)
      have hy : 0 < co / 10 ^ (ndigits co - c.prec) := by
        apply Nat.div_pos _ (Nat.pow_pos (by decide))
        calc 10 ^ (ndigits co - c.prec) ≤ 10 ^ (ndigits co - 1) := Nat.pow_le_pow_right (by decide) (by omega)
          _ ≤ co := (ndigits_spec _ hco).1
      have := ndigits_mono hy hge
      exact ⟨by omega, by omega⟩
  obtain ⟨k1, k2⟩ := key
  have c1 : ((roundAt c.mode n co 1 e q).1 != 0) = true := by simp; omega
  have c2 : q + (ndigits (roundAt c.mode n co 1 e q).1 : Int) - 1 > c.emax := by omega
  simp [c1, c2]

/-! ## `setExponent` then `Context.round` = one rounding -/

theorem noSys_or {a b : Cond} (ha : NoSys a) (hb : NoSys b) : NoSys (a ||| b) := by
  obtain ⟨a1, a2⟩ := ha
  obtain ⟨b1, b2⟩ := hb
  exact ⟨by rw [Cond.or_sysOverflow, a1, b1]; rfl, by rw [Cond.or_sysUnderflow, a2, b2]; rfl⟩

theorem via (c : Ctx) (hc : c.WF) (x : Dec) (hx : x.form = .finite) (D : Dec) (F : Cond)
    (hC : ctxRound c x = (D, F)) (hn : NoSys F) : Agrees c (exactRound x) D F := by
  have := Apd.Props.C01_roundCore c hc x hx (by rw [hC]; exact hn)
  rw [hC] at this
  exact this

theorem setThenRound_zero (c : Ctx) (hc : c.WF) (n : Bool) (e : Int)
    (h1 : NoSys (setExponent c (mk n 0 0) {} [e]).2) :
    ctxRound c (setExponent c (mk n 0 0) {} [e]).1 = ((setExponent c (mk n 0 0) {} [e]).1, {}) ∧
    ctxRound c (mk n e 0) = setExponent c (mk n 0 0) {} [e] := by
  have hc' := hc
  obtain ⟨hp1, hpe, hemax, hemin, hemin0⟩ := hc
  obtain ⟨hck, ha1, ha2⟩ := setExponent_noSys _ _ _ _ h1
  have hnd0 : ndigits 0 = 1 := rfl
  have hadj : seAdj (mk n 0 0) [e] = e := by simp [seAdj, sumInts_one, hnd0]
  rw [hadj] at ha1 ha2
  have hz : (mk n 0 0).isZero = true := by simp [Dec.isZero]
  constructor
  · by_cases c1 : e < c.emin
    · by_cases c2 : e < c.etiny
      · rw [setExponent_subnormal_round c _ {} _ hck (by rw [hadj]; omega) (by rw [hadj]; omega) (by omega)
          (by rw [sumInts_one]; exact c2), sumInts_one]
        have hra : roundAt c.mode n 0 1 e c.etiny = (0, false) := by
          rw [roundAt_div _ _ _ _ _ (by omega)]; simp
        simp only [hra, hz, seFinish]
        have := round_fits_id c hc' n c.etiny 0 (by rw [hnd0]; exact hp1) (by omega)
          (by rw [hnd0]; unfold Ctx.etiny; omega) (le_refl _)
        simpa using this
      · rw [setExponent_subnormal_exact c _ {} _ hck (by rw [hadj]; omega) (by rw [hadj]; omega) (by omega)
          (by rw [sumInts_one]; omega), sumInts_one]
        simp only [hz, seFinish]
        have := round_fits_id c hc' n e 0 (by rw [hnd0]; exact hp1) (by omega)
          (by rw [hnd0]; omega) (by omega)
        simpa using this
    · by_cases c3 : c.emax < e
      · rw [setExponent_clampZero c _ {} _ hck (by rw [hadj]; omega) (by rw [hadj]; omega) (by omega) hemin hz]
        simp only [seFinish]
        have := round_fits_id c hc' n c.emax 0 (by rw [hnd0]; exact hp1) (by omega)
          (by rw [hnd0]; omega) (by unfold Ctx.etiny; omega)
        simpa using this
      · rw [setExponent_normal c _ {} _ hck (by rw [hadj]; omega) (by rw [hadj]; omega) (by rw [hadj]; omega) hemin,
          sumInts_one]
        simp only [seFinish]
        have := round_fits_id c hc' n e 0 (by rw [hnd0]; exact hp1) (by omega)
          (by rw [hnd0]; omega) (by unfold Ctx.etiny; omega)
        simpa using this
  · rw [ctxRound_finite c _ rfl]
    unfold ctxRoundFin
    rw [roundX_short c (mk n e 0) true rfl hp1 (by rw [hnd0]; exact hp1) (Or.inl rfl)]
    exact setExponent_exp_irrel c n e 0 0 {} e (by omega) (by omega) (by rw [hnd0]; omega) (by rw [hnd0]; omega)

theorem setThenRound_pos (c : Ctx) (hc : c.WF) (n : Bool) (co : Nat) (e : Int) (hco : co ≠ 0)
    (h1 : NoSys (setExponent c (mk n 0 co) {} [e]).2)
    (h2 : NoSys (ctxRound c (setExponent c (mk n 0 co) {} [e]).1).2) :
    Agrees c { neg := n, num := co, den := 1, e10 := e }
      (ctxRound c (setExponent c (mk n 0 co) {} [e]).1).1
      ((setExponent c (mk n 0 co) {} [e]).2 ||| (ctxRound c (setExponent c (mk n 0 co) {} [e]).1).2) := by
  have hc' := hc
  obtain ⟨hp1, hpe, hemax, hemin, hemin0⟩ := hc
  obtain ⟨hck, ha1, ha2⟩ := setExponent_noSys _ _ _ _ h1
  have hadj : seAdj (mk n 0 co) [e] = e + (ndigits co : Int) - 1 := by simp [seAdj, sumInts_one]
  rw [hadj] at ha1 ha2
  have hebd : -100000 ≤ e ∧ e ≤ 100000 := by
    have := (checkXs_none_iff [e]).mp hck e (by simp); exact this
  have hz : (mk n 0 co).isZero = false := by simp [Dec.isZero, hco]
  have hpos : 0 < co := Nat.pos_of_ne_zero hco
  have hnp := ndigits_pos co
  have hex : ({ neg := n, num := co, den := 1, e10 := e } : Exact) = exactRound (mk n e co) := rfl
  by_cases c1 : e + (ndigits co : Int) - 1 < c.emin
  · by_cases c2 : e < c.etiny
    · -- rounded into the subnormal range
      have hx1 : (mk n e co).exp + (ndigits (mk n e co).coeff : Int) - 1 < c.emin := c1
      have hrx : ctxRound c (mk n e co) = ((setExponent c (mk n e co) cSubnormal [(mk n e co).exp]).1,
          cSubnormal ||| (setExponent c (mk n e co) cSubnormal [(mk n e co).exp]).2) := by
        rw [ctxRound_finite c _ rfl]; unfold ctxRoundFin
        exact roundX_subnormal c (mk n e co) true rfl hp1 hco hx1
      have hck' : checkXs [(mk n e co).exp] = none := hck
      rw [setExponent_subnormal_round c (mk n e co) cSubnormal _ hck' (by simpa [seAdj, sumInts_one] using ha1)
        (by simpa [seAdj, sumInts_one] using c1) (by omega) (by rw [sumInts_one]; exact c2), sumInts_one] at hrx
      rw [setExponent_subnormal_round c _ {} _ hck (by rw [hadj]; omega) (by rw [hadj]; omega) (by omega)
        (by rw [sumInts_one]; exact c2), sumInts_one] at h1 h2 ⊢
      have hz' : (mk n e co).isZero = false := by simp [Dec.isZero, hco]
      have hle := roundAt_div_le c.mode n co e c.etiny (by omega)
      have hlt : co < 10 ^ (c.emin - e).toNat := lt_pow_of_ndigits_le _ _ (by omega)
      have het : c.etiny = c.emin - (c.prec : Int) + 1 := rfl
      have hk : (c.emin - e).toNat = (c.prec - 1) + (c.etiny - e).toNat := by omega
      have hdiv : co / 10 ^ (c.etiny - e).toNat < 10 ^ (c.prec - 1) := by
        rw [Nat.div_lt_iff_lt_mul (Nat.pow_pos (by decide)), ← Nat.pow_add, ← hk]; exact hlt
      have hpow : 10 ^ (c.prec - 1) < 10 ^ c.prec := Nat.pow_lt_pow_right (by decide) (by omega)
      have hndr : ndigits (roundAt c.mode n co 1 e c.etiny).1 ≤ c.prec :=
        ndigits_le_of_lt_pow _ _ hp1 (by omega)
      have hndr' : (roundAt c.mode n co 1 e c.etiny).1 ≠ 0 →
          c.etiny + (ndigits (roundAt c.mode n co 1 e c.etiny).1 : Int) - 1 ≤ c.emin := by
        intro hne
        have : ndigits (roundAt c.mode n co 1 e c.etiny).1 ≤ c.prec := hndr
        have het : c.etiny = c.emin - (c.prec : Int) + 1 := rfl
        omega
      simp only [hz, hz'] at hrx h1 h2 ⊢
      show Agrees c _ (ctxRound c _).1 (_ ||| (ctxRound c _).2)
      rcases hra : roundAt c.mode n co 1 e c.etiny with ⟨m, ix⟩
      rw [hra] at hrx h1 h2 hndr hndr'
      simp only [] at hndr hndr'
      simp only [hra]
      simp only [seFinish] at hrx h1 h2 ⊢
      have hfit := round_fits_id c hc' n c.etiny m hndr (by omega)
        (by
          by_cases hm : m = 0
          · subst hm; have : ndigits 0 = 1 := rfl; rw [this]; omega
          · have := hndr' hm; omega) (le_refl _)
      have hD : ({ form := Form.finite, neg := n, exp := c.etiny, coeff := m } : Dec) = mk n c.etiny m := rfl
      simp only [hD] at hrx h1 h2 ⊢
      rw [hfit] at h2 ⊢
      simp only []
      rw [hex]
      apply via c hc' (mk n e co) rfl
      · rw [hrx]
        refine Prod.ext rfl ?_
        simp only []
        by_cases hm : m = 0
        · subst hm
          cases ix <;> simp <;> decide
        · by_cases hs2 : c.etiny + (ndigits m : Int) - 1 < c.emin
          · cases ix <;> simp [hm, hs2] <;> decide
          · cases ix <;> simp [hm, hs2] <;> decide
      · exact noSys_or h1 h2
    · -- subnormal, no rounding: only the exponent is set
      have het : c.etiny = c.emin - (c.prec : Int) + 1 := rfl
      have hr : setExponent c (mk n 0 co) {} [e] = (mk n e co, ({} : Cond) ||| cSubnormal) := by
        rw [setExponent_subnormal_exact c _ {} _ hck (by rw [hadj]; omega) (by rw [hadj]; omega) (by omega)
          (by rw [sumInts_one]; omega), sumInts_one]
        simp [hz, seFinish, cSubnormal]
      have hrx : ctxRound c (mk n e co) = (mk n e co, cSubnormal) := by
        rw [ctxRound_finite c _ rfl]; unfold ctxRoundFin
        exact roundX_subnormal_id c (mk n e co) true rfl hp1 hco (by omega) c1 ha1 (by show c.etiny ≤ e; omega)
          hebd.1 hebd.2
      rw [hr] at h1 h2 ⊢
      simp only [] at h1 h2 ⊢
      rw [hrx] at h2 ⊢
      rw [hex]
      apply via c hc' (mk n e co) rfl
      · rw [hrx]; refine Prod.ext rfl ?_
        show cSubnormal = ({} : Cond) ||| cSubnormal ||| cSubnormal
        decide
      · exact noSys_or h1 h2
  · by_cases c3 : c.emax < e + (ndigits co : Int) - 1
    · -- overflow
      have hr : setExponent c (mk n 0 co) {} [e] =
          ({ form := .infinite, neg := n, exp := e, coeff := co }, ({} : Cond) ||| cOverflow ||| cInexact) := by
        rw [setExponent_overflow c _ {} _ hck (by rw [hadj]; omega) (by rw [hadj]; omega) (by omega) hemin hz,
          sumInts_one]
        simp [seFinish, cOverflow, cInexact]
      rw [hr]
      simp only []
      rw [ctxRound_nonfinite c _ (by simp)]
      simp only []
      have hs := specRound_overflow c hc' n co e hpos c3
      apply agrees_inf c _ _ hs <;> simp [cOverflow, cInexact]
    · -- normal range: `setExponent` only sets the exponent
      have hr : setExponent c (mk n 0 co) {} [e] = (mk n e co, {}) := by
        rw [setExponent_normal c _ {} _ hck (by rw [hadj]; omega) (by rw [hadj]; omega) (by rw [hadj]; omega) hemin,
          sumInts_one]
        simp [seFinish]
      rw [hr] at h2 ⊢
      simp only [] at h2 ⊢
      rw [empty_or, hex]
      exact Apd.Props.C01_roundCore c hc' (mk n e co) rfl h2

theorem noSys_of_or {a b : Cond} (h : NoSys (a ||| b)) : NoSys a ∧ NoSys b := by
  obtain ⟨h1, h2⟩ := h
  rw [Cond.or_sysOverflow, Bool.or_eq_false_iff] at h1
  rw [Cond.or_sysUnderflow, Bool.or_eq_false_iff] at h2
  exact ⟨⟨h1.1, h2.1⟩, ⟨h1.2, h2.2⟩⟩

theorem goError_empty (t : Cond) : goError t {} = .none := by
  cases t; rfl

/-- **`setExponent` (the parser's range check, which rounds subnormals and overflows) followed by
`Context.round` is one rounding of `co · 10^e`** -/
theorem setThenRound (c : Ctx) (hc : c.WF) (n : Bool) (co : Nat) (e : Int)
    (h : NoSys ((setExponent c (mk n 0 co) {} [e]).2 ||| (ctxRound c (setExponent c (mk n 0 co) {} [e]).1).2)) :
    Agrees c { neg := n, num := co, den := 1, e10 := e }
      (ctxRound c (setExponent c (mk n 0 co) {} [e]).1).1
      ((setExponent c (mk n 0 co) {} [e]).2 ||| (ctxRound c (setExponent c (mk n 0 co) {} [e]).1).2) := by
  obtain ⟨h1, h2⟩ := noSys_of_or h
  by_cases hco : co = 0
  · subst hco
    obtain ⟨e1, e2⟩ := setThenRound_zero c hc n e h1
    rw [e1]
    simp only []
    rw [or_empty]
    have hex : ({ neg := n, num := 0, den := 1, e10 := e } : Exact) = exactRound (mk n e 0) := rfl
    rw [hex]
    exact via c hc (mk n e 0) rfl _ _ (by rw [e2]) h1
  · exact setThenRound_pos c hc n co e hco h1 h2

end Apd.C01P
