import ApdVerif.Model.Decompose
/-!
# Helper lemmas for C13 `Decompose` / `Compose` (core Lean only)
-/
namespace Apd.Decomp

/-! ## bit length -/

theorem bitLen_zero : bitLen 0 = 0 := rfl

theorem bitLen_pos {n : Nat} (h : n ≠ 0) : 0 < bitLen n := by
  unfold bitLen; rw [if_neg h]; omega

/-- `bitLen n` is the least `k` with `n < 2^k` -/
theorem bitLen_le_iff (n k : Nat) : bitLen n ≤ k ↔ n < 2 ^ k := by
  unfold bitLen
  by_cases h : n = 0
  · subst h; simp [Nat.pow_pos]
  · rw [if_neg h]
    constructor
    · intro hk
      exact Nat.lt_of_lt_of_le Nat.lt_log2_self (Nat.pow_le_pow_right (by decide) hk)
    · intro hk
      have h1 : 2 ^ Nat.log2 n ≤ n := Nat.log2_self_le h
      have h2 : 2 ^ Nat.log2 n < 2 ^ k := Nat.lt_of_le_of_lt h1 hk
      have := (Nat.pow_lt_pow_iff_right (a := 2) (by decide)).1 h2
      omega

/-- dropping the low byte drops eight bits -/
theorem bitLen_div_256 (n : Nat) : bitLen (n / 256) = bitLen n - 8 := by
  have key : ∀ k, bitLen (n / 256) ≤ k ↔ bitLen n ≤ k + 8 := by
    intro k
    rw [bitLen_le_iff, bitLen_le_iff, Nat.pow_add, Nat.div_lt_iff_lt_mul (by decide)]
  have h1 := key (bitLen (n / 256))
  have h2 := key (bitLen n - 8)
  omega

theorem byteLen_step (n : Nat) (h : n ≠ 0) : (bitLen (n / 256) + 7) / 8 + 1 = (bitLen n + 7) / 8 := by
  have := bitLen_div_256 n
  have := bitLen_pos h
  omega

/-! ## bytes -/

theorem natBytesAux_zero (fuel : Nat) (acc : List UInt8) : natBytesAux fuel 0 acc = acc := by
  cases fuel <;> simp [natBytesAux]

theorem bytesNat_cons (b : UInt8) (l : List UInt8) :
    bytesNat (b :: l) = b.toNat * 256 ^ l.length + bytesNat l := by
  have gen : ∀ (l : List UInt8) (a : Nat),
      l.foldl (fun a b => a * 256 + b.toNat) a = a * 256 ^ l.length + l.foldl (fun a b => a * 256 + b.toNat) 0 := by
    intro l
    induction l with
    | nil => intro a; simp
    | cons c l ih =>
      intro a
      simp only [List.foldl_cons, List.length_cons]
      rw [ih (a * 256 + c.toNat), ih (0 * 256 + c.toNat), Nat.pow_succ]
      simp only [Nat.zero_mul, Nat.zero_add, Nat.add_mul, Nat.mul_assoc, Nat.add_assoc]
      rw [Nat.mul_comm (256 ^ l.length) 256]
  unfold bytesNat
  rw [List.foldl_cons, gen]
  simp

theorem toNat_ofNat_mod (n : Nat) : (UInt8.ofNat (n % 256)).toNat = n % 256 := by
  simp

theorem bytesNat_natBytesAux (fuel : Nat) : ∀ (n : Nat) (acc : List UInt8), n ≤ fuel →
    bytesNat (natBytesAux fuel n acc) = n * 256 ^ acc.length + bytesNat acc := by
  induction fuel with
  | zero => intro n acc h; have : n = 0 := by omega
            subst this; simp [natBytesAux]
  | succ fuel ih =>
    intro n acc h
    unfold natBytesAux
    by_cases hn : n = 0
    · subst hn; simp
    · rw [if_neg hn, ih _ _ (by omega), bytesNat_cons, toNat_ofNat_mod, List.length_cons, Nat.pow_succ]
      have := Nat.div_add_mod n 256
      generalize 256 ^ acc.length = p
      generalize bytesNat acc = q
      generalize n / 256 = a at *
      generalize n % 256 = r at *
      subst this
      simp only [Nat.add_mul, Nat.add_assoc]
      ac_rfl

theorem length_natBytesAux (fuel : Nat) : ∀ (n : Nat) (acc : List UInt8), n ≤ fuel →
    (natBytesAux fuel n acc).length = (bitLen n + 7) / 8 + acc.length := by
  induction fuel with
  | zero => intro n acc h; have : n = 0 := by omega
            subst this; simp [natBytesAux, bitLen]
  | succ fuel ih =>
    intro n acc h
    unfold natBytesAux
    by_cases hn : n = 0
    · subst hn; simp [bitLen]
    · rw [if_neg hn, ih _ _ (by omega), List.length_cons, ← byteLen_step n hn]
      omega

theorem head_natBytesAux (fuel : Nat) : ∀ (n : Nat) (acc : List UInt8), n ≤ fuel → n ≠ 0 →
    (natBytesAux fuel n acc).head? ≠ some 0 := by
  induction fuel with
  | zero => intro n acc h hn; omega
  | succ fuel ih =>
    intro n acc h hn
    unfold natBytesAux
    rw [if_neg hn]
    by_cases hq : n / 256 = 0
    · rw [hq, natBytesAux_zero]
      have hlt : n < 256 := by omega
      simp only [List.head?_cons, ne_eq, Option.some.injEq]
      intro h0
      have := congrArg UInt8.toNat h0
      rw [toNat_ofNat_mod] at this
      simp at this
      omega
    · exact ih _ _ (by omega) hq

theorem bitLen_eq_zero {n : Nat} (h : (bitLen n + 7) / 8 = 0) : n = 0 := by
  by_cases hn : n = 0
  · exact hn
  · have := bitLen_pos hn; omega

theorem fillBytesAux_eq (len : Nat) : ∀ (fuel n : Nat) (acc : List UInt8), n ≤ fuel →
    (bitLen n + 7) / 8 ≤ len →
    fillBytesAux len n acc = List.replicate (len - (bitLen n + 7) / 8) 0 ++ natBytesAux fuel n acc := by
  induction len with
  | zero =>
    intro fuel n acc _ hl
    have : n = 0 := bitLen_eq_zero (by omega)
    subst this
    simp [fillBytesAux, natBytesAux_zero]
  | succ len ih =>
    intro fuel n acc hf hl
    unfold fillBytesAux
    by_cases hn : n = 0
    · subst hn
      rw [ih fuel _ _ (by omega) (by simp [bitLen])]
      simp only [Nat.zero_div, natBytesAux_zero, bitLen_zero, Nat.zero_add, Nat.reduceDiv, Nat.sub_zero,
        Nat.zero_mod]
      rw [List.replicate_succ', List.append_assoc]
      rfl
    · obtain ⟨fuel', rfl⟩ : ∃ f, fuel = f + 1 := ⟨fuel - 1, by omega⟩
      have hs := byteLen_step n hn
      rw [ih fuel' _ _ (by omega) (by omega)]
      conv => rhs; unfold natBytesAux
      rw [if_neg hn]
      congr 2
      omega

end Apd.Decomp
