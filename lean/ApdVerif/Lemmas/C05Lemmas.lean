import ApdVerif.Imp.Ops
import ApdVerif.Spec.Defs
import Mathlib.Tactic.SplitIfs
/-!
# Run lemmas for the store-level programs of `Imp/Ops.lean`

Each building block gets an equation `run (prog …) h = (value-level result, h.set d (value-level destination))`
that holds for EVERY choice of cells (so for every aliasing pattern); they are used as rewrite rules for calls.
-/
set_option linter.unusedSimpArgs false
namespace Apd.Imp
open Apd Apd.Cond Prog

/-- `by_cases` followed by rewriting every `if` on that condition -/
macro "bcases " h:ident " : " t:term : tactic =>
  `(tactic| by_cases $h : $t <;>
      simp only [$h:ident, if_true, if_false, Bool.false_eq_true, Bool.true_and, Bool.false_and, Bool.and_true,
        Bool.and_false, ↓reduceIte])

/-- `simp only` with the given facts plus Boolean / `if` clean-up -/
macro "bsimp " "[" ts:Lean.Parser.Tactic.simpLemma,* "]" : tactic =>
  `(tactic| simp only [$ts,*, Bool.or_self, Bool.or_true, Bool.true_or, Bool.or_false, Bool.false_or,
      Bool.and_self, Bool.false_and, Bool.true_and, Bool.and_false, Bool.and_true, if_true, if_false,
      Bool.false_eq_true, Bool.not_true, Bool.not_false, ↓reduceIte])

/-! ## operand pointers -/

@[simp] theorem Src.val_cell (c : Cell) (h : Heap) : (Src.cell c).val h = h c := rfl
@[simp] theorem Src.val_const (v : Dec) (h : Heap) : (Src.const v).val h = v := rfl

theorem Src.val_set_of_ne {s : Src} {d : Cell} (hne : s ≠ .cell d) (h : Heap) (v : Dec) :
    s.val (h.set d v) = s.val h := by
  cases s with
  | cell c =>
    have : c ≠ d := fun e => hne (by rw [e])
    simp [Heap.set_other, this]
  | const w => rfl

@[simp] theorem Src.val_set_val_self (s : Src) (d : Cell) (h : Heap) : s.val (h.set d (s.val h)) = s.val h := by
  by_cases hs : s = .cell d
  · subst hs; simp
  · exact Src.val_set_of_ne hs h _

/-- an operand pointer is the destination or it is not affected by writes to the destination -/
theorem Src.alias_cases (s : Src) (d : Cell) : s = .cell d ∨ s ≠ .cell d := Decidable.em _

/-! ## primitive accesses -/

@[simp] theorem run_rdForm (s : Src) (h : Heap) : run (rdForm s) h = ((s.val h).form, h) := by cases s <;> rfl
@[simp] theorem run_rdNeg (s : Src) (h : Heap) : run (rdNeg s) h = ((s.val h).neg, h) := by cases s <;> rfl
@[simp] theorem run_rdExp (s : Src) (h : Heap) : run (rdExp s) h = ((s.val h).exp, h) := by cases s <;> rfl
@[simp] theorem run_rdCoeff (s : Src) (h : Heap) : run (rdCoeff s) h = ((s.val h).coeff, h) := by cases s <;> rfl

@[simp] theorem run_wrForm (d : Cell) (v : Form) (h : Heap) :
    run (wrForm d v) h = ((), h.set d { h d with form := v }) := by
  show ((), upd h d _) = _; rw [upd_eq_set]
@[simp] theorem run_wrNeg (d : Cell) (v : Bool) (h : Heap) :
    run (wrNeg d v) h = ((), h.set d { h d with neg := v }) := by
  show ((), upd h d _) = _; rw [upd_eq_set]
@[simp] theorem run_wrExp (d : Cell) (v : Int) (h : Heap) :
    run (wrExp d v) h = ((), h.set d { h d with exp := v }) := by
  show ((), upd h d _) = _; rw [upd_eq_set]
@[simp] theorem run_wrCoeff (d : Cell) (v : Nat) (h : Heap) :
    run (wrCoeff d v) h = ((), h.set d { h d with coeff := v }) := by
  show ((), upd h d _) = _; rw [upd_eq_set]

/-- value of a `*BigInt` returned by `upscale(a, b, &tmp)` -/
def BRef.get (a b : Src) : BRef → Heap → Nat
  | .val n, _ => n
  | .fst, h => (a.val h).coeff
  | .snd, h => (b.val h).coeff

@[simp] theorem run_rdB (a b : Src) (r : BRef) (h : Heap) : run (rdB a b r) h = (r.get a b h, h) := by
  cases r <;> simp [rdB, BRef.get]

@[simp] theorem BRef.get_val (a b : Src) (n : Nat) (h : Heap) : (BRef.val n).get a b h = n := rfl
@[simp] theorem BRef.get_fst (a b : Src) (h : Heap) : BRef.fst.get a b h = (a.val h).coeff := rfl
@[simp] theorem BRef.get_snd (a b : Src) (h : Heap) : BRef.snd.get a b h = (b.val h).coeff := rfl

/-! ## read-only methods -/

theorem ite_pair_heap {α : Type} (c : Prop) [Decidable c] (a b : α) (h : Heap) :
    (if c then (a, h) else (b, h)) = ((if c then a else b), h) := by split <;> rfl

@[simp] theorem run_signP (s : Src) (h : Heap) : run (signP s) h = ((s.val h).sign, h) := by
  unfold signP Dec.sign
  simp only [run_bind, run_rdForm, run_rdCoeff, run_rdNeg, run_ite, run_pure]
  cases hf : (s.val h).form <;> simp
  by_cases hc : (s.val h).coeff = 0 <;> simp [hc]

theorem sign_eq_zero_iff (x : Dec) : (x.sign == 0) = x.isZero := by
  unfold Dec.sign Dec.isZero
  by_cases h : (x.form == .finite && x.coeff == 0) = true
  · simp [h]
  · simp only [h]; cases x.neg <;> simp

@[simp] theorem run_isZeroP (s : Src) (h : Heap) : run (isZeroP s) h = ((s.val h).isZero, h) := by
  unfold isZeroP
  simp only [run_bind, run_signP, run_pure, sign_eq_zero_iff]

@[simp] theorem run_numDigitsP (s : Src) (h : Heap) : run (numDigitsP s) h = (ndigits (s.val h).coeff, h) := by
  unfold numDigitsP
  simp only [run_bind, run_rdCoeff, run_pure]

@[simp] theorem run_isNaNP (s : Src) (h : Heap) : run (isNaNP s) h = ((s.val h).isNaN, h) := by
  unfold isNaNP Dec.isNaN
  simp only [run_bind, run_rdForm, run_ite, run_pure]
  cases (s.val h).form <;> simp

@[simp] theorem run_shouldSetAsNaNP (x : Src) (y : Option Src) (h : Heap) :
    run (shouldSetAsNaNP x y) h = (shouldSetAsNaN (x.val h) (y.map (·.val h)), h) := by
  unfold shouldSetAsNaNP shouldSetAsNaN
  simp only [run_bind, run_isNaNP, run_ite, run_pure]
  cases y with
  | none => cases (x.val h).isNaN <;> simp
  | some y => cases (x.val h).isNaN <;> simp

@[simp] theorem run_cmpP (d x : Src) (h : Heap) : run (cmpP d x) h = ((d.val h).cmp (x.val h), h) := by
  unfold cmpP Dec.cmp
  simp only [run_bind, run_signP, run_rdForm, run_rdExp, run_rdCoeff, run_numDigitsP, run_ite, run_pure,
    ite_pair_heap]
  congr 1
  by_cases h1 : (d.val h).sign < (x.val h).sign <;> simp only [h1, if_true, if_false]
  by_cases h2 : (d.val h).sign > (x.val h).sign <;> simp only [h2, if_true, if_false]
  by_cases h3 : ((d.val h).sign == 0 && (x.val h).sign == 0) = true <;> simp only [h3, if_true, if_false]
  by_cases h4 : ((d.val h).form == Form.infinite) = true <;> simp only [h4, if_true, if_false]
  by_cases h5 : ((x.val h).form == Form.infinite) = true <;> simp only [h5, if_true, if_false]
  by_cases h6 : ((d.val h).exp == (x.val h).exp) = true <;> simp only [h6, if_true, if_false]
  split_ifs <;> rfl

/-! ## writers -/

@[simp] theorem run_setDec (d : Cell) (x : Src) (h : Heap) : run (setDec d x) h = ((), h.set d (x.val h)) := by
  unfold setDec
  by_cases hx : x = .cell d
  · subst hx; simp
  · simp [hx, Src.val_set_of_ne hx]

@[simp] theorem run_setInt64P (d : Cell) (v : Int) (h : Heap) :
    run (setInt64P d v) h = ((), h.set d (decOfInt v)) := by
  unfold setInt64P decOfInt
  simp

@[simp] theorem run_negDec (d : Cell) (x : Src) (h : Heap) : run (negDec d x) h = ((), h.set d (x.val h).negD) := by
  unfold negDec Dec.negD
  simp only [run_bind, run_setDec, run_isZeroP, run_ite, run_wrNeg, run_rdNeg, Src.val_cell, Heap.set_same,
    Heap.set_set]
  split_ifs <;> rfl

@[simp] theorem run_absDec (d : Cell) (x : Src) (h : Heap) : run (absDec d x) h = ((), h.set d (x.val h).absD) := by
  unfold absDec Dec.absD
  simp

theorem stripZerosAux_count (fuel n k : Nat) :
    k ≤ (stripZerosAux fuel n k).2 ∧ ((stripZerosAux fuel n k).2 = k → (stripZerosAux fuel n k).1 = n) := by
  induction fuel generalizing n k with
  | zero => simp [stripZerosAux]
  | succ f ih =>
    unfold stripZerosAux
    split
    · have := ih (n / 10) (k + 1)
      constructor
      · omega
      · intro e; omega
    · simp

theorem run_reduceDec (d : Cell) (x : Src) (h : Heap) :
    run (reduceDec d x) h = (((reduceD (x.val h)).2 : Int), h.set d (reduceD (x.val h)).1) := by
  unfold reduceDec reduceD
  simp only [run_bind, run_rdForm, run_ite, run_setDec, run_pure, run_signP, run_numDigitsP, run_setInt64P,
    run_rdCoeff, run_rdExp, run_rdNeg, run_wrExp, run_wrCoeff, run_wrNeg, Src.val_cell, Heap.set_same, Heap.set_set]
  by_cases h1 : ((x.val h).form != Form.finite) = true
  · simp [h1]
  · simp only [h1, if_false]
    have hf : (x.val h).form = .finite := by simpa using h1
    by_cases h2 : (x.val h).coeff = 0
    · have hs : (x.val h).sign = 0 := by simp [Dec.sign, hf, h2]
      simp [hs, h2, decOfInt]
    · have hs : (x.val h).sign ≠ 0 := by
        unfold Dec.sign; simp [hf, h2]; cases (x.val h).neg <;> simp
      have hn : decide ((x.val h).sign = -1) = (x.val h).neg := by
        unfold Dec.sign; simp [hf, h2]
      simp only [hs, if_false, hn]
      have hc : ((x.val h).coeff == 0) = false := by simpa using h2
      simp only [hc]
      by_cases h3 : (x.val h).coeff < 2 ^ 64
      · simp only [h3, if_true]
        by_cases h4 : ((stripZeros (x.val h).coeff).2 != 0) = true
        · simp [h4]
        · simp only [h4, if_false]
          have h5 : (stripZeros (x.val h).coeff).2 = 0 := by simpa using h4
          have h6 : (stripZeros (x.val h).coeff).1 = (x.val h).coeff :=
            (stripZerosAux_count _ _ _).2 h5
          simp [h5, h6]
      · simp [h3]

theorem run_modfLocFrac (d : Src) (i : Cell) (h : Heap) :
    run (modfLocFrac d i) h = ((modf (d.val h)).2, h.set i (modf (d.val h)).1) := by
  unfold modfLocFrac modf
  simp only [run_bind, run_rdNeg, run_rdExp, run_ite, run_setDec, run_pure, run_numDigitsP, run_rdForm, run_rdCoeff,
    run_wrForm, run_wrNeg, run_wrExp, run_wrCoeff, Heap.set_same, Heap.set_set]
  by_cases h1 : (d.val h).exp > 0
  · simp only [h1, if_true]
  · simp only [h1, if_false]
    by_cases h2 : -(d.val h).exp > (ndigits (d.val h).coeff : Int)
    · simp only [h2, if_true]
    · simp only [h2, if_false]
      rcases d.alias_cases i with rfl | hd
      · simp
      · simp [Src.val_set_of_ne hd]

/-- `Decimal.Modf`: for EVERY choice of the receiver and the two outputs (either may be nil, either may be the
receiver) with `integ ≠ frac`, the outputs are the value-level `modf` of the receiver's prior value and no other
cell changes. -/
theorem modfP_spec (d : Src) (integ frac : Option Cell) (h : Heap)
    (hne : ∀ i, integ = some i → frac ≠ some i) :
    let h' := (run (modfP d integ frac) h).2
    (∀ i, integ = some i → h' i = (modf (d.val h)).1) ∧
    (∀ f, frac = some f → h' f = (modf (d.val h)).2) ∧
    ∀ c, integ ≠ some c → frac ≠ some c → h' c = h c := by
  unfold modfP modf
  cases integ with
  | none =>
    cases frac with
    | none => simp
    | some f =>
      simp only [run_bind, run_rdNeg, run_rdExp, run_ite, run_setDec, run_pure, run_numDigitsP, run_rdForm,
        run_rdCoeff, run_wrForm, run_wrNeg, run_wrExp, run_wrCoeff, Heap.set_same, Heap.set_set]
      by_cases h1 : (d.val h).exp > 0
      · simp [h1]; intro c hc; simp [Heap.set_other _ _ (Ne.symm hc)]
      · by_cases h2 : -(d.val h).exp > (ndigits (d.val h).coeff : Int)
        · simp [h1, h2]; intro c hc; simp [Heap.set_other _ _ (Ne.symm hc)]
        · simp [h1, h2]; intro c hc; simp [Heap.set_other _ _ (Ne.symm hc)]
  | some i =>
    cases frac with
    | none =>
      simp only [run_bind, run_rdNeg, run_rdExp, run_ite, run_setDec, run_pure, run_numDigitsP, run_rdForm,
        run_rdCoeff, run_wrForm, run_wrNeg, run_wrExp, run_wrCoeff, Heap.set_same, Heap.set_set]
      by_cases h1 : (d.val h).exp > 0
      · simp [h1]; intro c hc; simp [Heap.set_other _ _ (Ne.symm hc)]
      · by_cases h2 : -(d.val h).exp > (ndigits (d.val h).coeff : Int)
        · simp [h1, h2]; intro c hc; simp [Heap.set_other _ _ (Ne.symm hc)]
        · rcases d.alias_cases i with rfl | hd
          · simp only [Src.val_cell] at h1 h2
            simp [h1, h2]; intro c hc; simp [Heap.set_other _ _ (Ne.symm hc)]
          · simp [h1, h2, Src.val_set_of_ne hd]; intro c hc; simp [Heap.set_other _ _ (Ne.symm hc)]
    | some f =>
      have hif : i ≠ f := fun e => hne i rfl (by rw [e])
      have hfi : f ≠ i := Ne.symm hif
      simp only [run_bind, run_rdNeg, run_rdExp, run_ite, run_setDec, run_pure, run_numDigitsP, run_rdForm,
        run_rdCoeff, run_wrForm, run_wrNeg, run_wrExp, run_wrCoeff, Heap.set_same, Heap.set_set]
      by_cases h1 : (d.val h).exp > 0
      · simp [h1, Heap.set_other _ _ hif, Heap.set_other _ _ hfi]
        intro c hc hc'; simp [Heap.set_other _ _ (Ne.symm hc), Heap.set_other _ _ (Ne.symm hc')]
      · by_cases h2 : -(d.val h).exp > (ndigits (d.val h).coeff : Int)
        · simp [h1, h2, Heap.set_other _ _ hif, Heap.set_other _ _ hfi]
          intro c hc hc'; simp [Heap.set_other _ _ (Ne.symm hc), Heap.set_other _ _ (Ne.symm hc')]
        · rcases d.alias_cases i with rfl | hd
          · simp only [Src.val_cell] at h1 h2
            simp [h1, h2, Heap.set_other _ _ hif, Heap.set_other _ _ hfi]
            intro c hc hc'; simp [Heap.set_other _ _ (Ne.symm hc), Heap.set_other _ _ (Ne.symm hc')]
          · simp [h1, h2, Src.val_set_of_ne hd, Heap.set_other _ _ hif, Heap.set_other _ _ hfi]
            intro c hc hc'; simp [Heap.set_other _ _ (Ne.symm hc), Heap.set_other _ _ (Ne.symm hc')]

/-! ## `setExponent`, `Round` -/

@[simp] theorem run_seFinishP (d : Cell) (r : Int) (res : Cond) (h : Heap) :
    run (seFinishP d r res) h = ((seFinish (h d) r res).2, h.set d (seFinish (h d) r res).1) := by
  unfold seFinishP seFinish
  simp

/-- `setExponent` on the destination cell is the value-level `setExponent` (also on the system-limit exits),
provided the digit count passed in is `unknownNumDigits` or the right one. -/
theorem run_setExponentP (c : Ctx) (d : Cell) (nd : Option Nat) (res : Cond) (xs : List Int) (h : Heap)
    (hnd : ∀ n, nd = some n → n = ndigits (h d).coeff) :
    run (setExponentP c d nd res xs) h =
      ((setExponent c (h d) res xs).2, h.set d (setExponent c (h d) res xs).1) := by
  have hnd' : run (ndOrCountP d nd) h = (ndigits (h d).coeff, h) := by
    unfold ndOrCountP
    cases nd with
    | none => simp
    | some n => simp [hnd n rfl]
  unfold setExponentP setExponent
  cases checkXs xs with
  | some fl => simp
  | none =>
    simp only [run_bind, hnd', run_ite, run_pure, run_isZeroP, run_rdCoeff, run_rdNeg, run_wrCoeff, run_wrForm,
      run_seFinishP, Src.val_cell, Heap.set_same, Heap.set_set]
    by_cases c1 : sumInts xs + ↑(ndigits (h d).coeff) - 1 > MaxExponent
    · simp only [c1, if_true, Heap.set_self]
    simp only [c1, if_false]
    by_cases c2 : sumInts xs + ↑(ndigits (h d).coeff) - 1 < MinExponent
    · simp only [c2, if_true, Heap.set_self]
    simp only [c2, if_false]
    by_cases c3 : sumInts xs + ↑(ndigits (h d).coeff) - 1 < c.emin
    · simp only [c3, if_true]
      by_cases c4 : sumInts xs < c.emin - (↑c.prec - 1)
      · simp only [c4, if_true]
      · simp only [c4, if_false]
    simp only [c3, if_false]
    by_cases c5 : sumInts xs + ↑(ndigits (h d).coeff) - 1 > c.emax
    · simp only [c5, if_true]
      by_cases c6 : (h d).isZero = true
      · simp only [c6, if_true]
      · simp only [c6, if_false, Bool.false_eq_true]
    · simp only [c5, if_false]

@[simp] theorem run_setExponentP_none (c : Ctx) (d : Cell) (res : Cond) (xs : List Int) (h : Heap) :
    run (setExponentP c d none res xs) h =
      ((setExponent c (h d) res xs).2, h.set d (setExponent c (h d) res xs).1) :=
  run_setExponentP c d none res xs h (fun _ e => by cases e)

theorem run_setExponentP_some (c : Ctx) (d : Cell) (n : Nat) (res : Cond) (xs : List Int) (h : Heap)
    (hn : n = ndigits (h d).coeff) :
    run (setExponentP c d (some n) res xs) h =
      ((setExponent c (h d) res xs).2, h.set d (setExponent c (h d) res xs).1) :=
  run_setExponentP c d (some n) res xs h (fun _ e => by cases e; exact hn)

@[simp] theorem run_roundTailP (c : Ctx) (d : Cell) (res : Cond) (yd : Nat × Int) (h : Heap) :
    run (roundTailP c d res yd) h =
      (res ||| (setExponent c { h d with coeff := yd.1 } res [(h d).exp, yd.2]).2,
       h.set d (setExponent c { h d with coeff := yd.1 } res [(h d).exp, yd.2]).1) := by
  unfold roundTailP
  simp

/-- the finite part of `Rounder.Round`, run right after `d.Set(x)` -/
theorem run_roundFinP (c : Ctx) (d : Cell) (x : Src) (dis : Bool) (h : Heap) :
    run (roundFinP c d x dis) (h.set d (x.val h)) =
      ((roundXFin c (x.val h) dis).2, h.set d (roundXFin c (x.val h) dis).1) := by
  have hx : x.val (h.set d (x.val h)) = x.val h := Src.val_set_val_self x d h
  unfold roundFinP roundXFin
  simp only [run_bind, run_numDigitsP, run_signP, run_ite, run_pure, run_rdExp, run_rdCoeff,
    run_rdNeg, run_roundTailP, Src.val_cell, Heap.set_same, Heap.set_set, hx]
  have hse : ∀ res xs, run (setExponentP c d (some (ndigits (x.val h).coeff)) res xs) (h.set d (x.val h))
      = ((setExponent c (x.val h) res xs).2, h.set d (setExponent c (x.val h) res xs).1) := by
    intro res xs; rw [run_setExponentP_some _ _ _ _ _ _ (by simp)]; simp
  simp only [hse]
  bcases c1 : (dis && c.prec == 0) = true
  bcases c2 : ((x.val h).sign != 0 && decide ((x.val h).exp + ↑(ndigits (x.val h).coeff) - 1 < c.emin)) = true
  bcases c3 : (ndigits (x.val h).coeff : Int) - ↑c.prec > 0
  bcases c4 : (ndigits (x.val h).coeff : Int) - ↑c.prec > MaxExponent
  bcases c5 : ((x.val h).coeff % 10 ^ (↑(ndigits (x.val h).coeff) - (c.prec : Int)).toNat != 0) = true
  bcases c6 : shouldAddOne c.mode ((x.val h).coeff / 10 ^ (↑(ndigits (x.val h).coeff) - (c.prec : Int)).toNat)
                      (x.val h).neg
                      (cmpNat (2 * ((x.val h).coeff % 10 ^ (↑(ndigits (x.val h).coeff) - (c.prec : Int)).toNat))
                        (10 ^ (↑(ndigits (x.val h).coeff) - (c.prec : Int)).toNat)) = true

/-- `Rounder.Round(c, d, x, flag)` for EVERY `d`, `x` (in particular `x = d`): the value-level `roundX` of the
operand's prior value, also on the system-limit exits. -/
theorem run_roundP (c : Ctx) (d : Cell) (x : Src) (dis : Bool) (h : Heap) :
    run (roundP c d x dis) h = ((roundX c (x.val h) dis).2, h.set d (roundX c (x.val h) dis).1) := by
  unfold roundP roundX
  simp only [run_bind, run_setDec, run_rdForm, run_ite, run_pure, Src.val_set_val_self, run_roundFinP]
  bcases hf : ((x.val h).form != Form.finite) = true

/-! ## NaN handling -/

theorem run_setAsNaNP (c : Ctx) (d : Cell) (x : Src) (y : Option Src) (h : Heap)
    (hn : shouldSetAsNaN (x.val h) (y.map (·.val h)) = true) :
    run (setAsNaNP c d x y) h =
      (((setAsNaN c (x.val h) (y.map (·.val h))).fl, (setAsNaN c (x.val h) (y.map (·.val h))).err),
       h.set d (setAsNaN c (x.val h) (y.map (·.val h))).d) := by
  unfold setAsNaNP setAsNaN
  unfold shouldSetAsNaN Dec.isNaN at hn
  cases y with
  | none =>
    simp only [run_bind, run_rdForm, run_ite, run_pure, Option.map_none] at hn ⊢
    cases hxf : (x.val h).form <;> simp [hxf] at hn ⊢
  | some y =>
    simp only [run_bind, run_rdForm, run_ite, run_pure, Option.map_some] at hn ⊢
    cases hxf : (x.val h).form <;> cases hyf : (y.val h).form <;> simp [hxf, hyf] at hn ⊢

/-! ## the contract of a `Context` method -/

/-- `run p h` returns the error class of the value-level outcome `m`, writes only `d`, and whenever the outcome
is delivered it returns the flags and aux value of `m` and leaves the value-level result in `d` -/
def OpRun (p : Prog Res) (d : Cell) (h : Heap) (m : Out) : Prop :=
  ∃ fl aux v, run p h = ((fl, m.err, aux), h.set d v) ∧ (Delivered m.err → fl = m.fl ∧ aux = m.aux ∧ v = m.d)

/-- close an `OpRun` goal whose two sides are syntactically the model's outcome -/
macro "op_exact" : tactic => `(tactic| exact ⟨_, _, _, rfl, fun _ => ⟨rfl, rfl, rfl⟩⟩)

/-- the statement of C05 / C06 for one run -/
def OpSpec (p : Prog Res) (d : Cell) (h : Heap) (m : Out) : Prop :=
  (run p h).1.2.1 = m.err ∧
  (Delivered (run p h).1.2.1 → (run p h).1.1 = m.fl ∧ (run p h).2 d = m.d ∧ (run p h).1.2.2 = m.aux) ∧
  ∀ cell, cell ≠ d → (run p h).2 cell = h cell

theorem OpRun.spec {p : Prog Res} {d : Cell} {h : Heap} {m : Out} (hr : OpRun p d h m) : OpSpec p d h m := by
  obtain ⟨fl, aux, v, hv, hd⟩ := hr
  unfold OpSpec
  rw [hv]
  refine ⟨rfl, fun hdel => ?_, fun cell hc => Heap.set_other _ _ hc⟩
  obtain ⟨h1, h2, h3⟩ := hd hdel
  simp [h1, h2, h3]

theorem not_delivered_sys : ¬ Delivered ErrKind.sys := by simp [Delivered]
theorem not_delivered_zeroPrec : ¬ Delivered ErrKind.zeroPrec := by simp [Delivered]

@[simp] theorem run_retFlags (c : Ctx) (res : Cond) (h : Heap) :
    run (retFlags c res) h = ((res, goError c.traps res, 0), h) := rfl

/-! ## writes to one field do not change the other fields of any operand -/

theorem Src.val_set_cases (s : Src) (d : Cell) (h : Heap) (v : Dec) :
    s.val (h.set d v) = if s = .cell d then v else s.val h := by
  by_cases hs : s = .cell d
  · subst hs; simp
  · simp [hs, Src.val_set_of_ne hs]

/-- if the new contents of `d` agree with the old ones on a field, so does every operand -/
theorem Src.coeff_set (s : Src) (d : Cell) (h : Heap) (v : Dec) (hv : v.coeff = (h d).coeff) :
    (s.val (h.set d v)).coeff = (s.val h).coeff := by
  rw [Src.val_set_cases]; split
  · next e => subst e; simpa using hv
  · rfl
theorem Src.exp_set (s : Src) (d : Cell) (h : Heap) (v : Dec) (hv : v.exp = (h d).exp) :
    (s.val (h.set d v)).exp = (s.val h).exp := by
  rw [Src.val_set_cases]; split
  · next e => subst e; simpa using hv
  · rfl
theorem Src.neg_set (s : Src) (d : Cell) (h : Heap) (v : Dec) (hv : v.neg = (h d).neg) :
    (s.val (h.set d v)).neg = (s.val h).neg := by
  rw [Src.val_set_cases]; split
  · next e => subst e; simpa using hv
  · rfl
theorem Src.form_set (s : Src) (d : Cell) (h : Heap) (v : Dec) (hv : v.form = (h d).form) :
    (s.val (h.set d v)).form = (s.val h).form := by
  rw [Src.val_set_cases]; split
  · next e => subst e; simpa using hv
  · rfl

/-- `upscale` on operand pointers: the value-level `upscale`, returned as `*BigInt`s whose values stay right
as long as the operands' coefficients are not overwritten. -/
theorem run_upscaleP (a b : Src) (h : Heap) :
    (upscale (a.val h) (b.val h) = none ∧ run (upscaleP a b) h = (none, h)) ∨
    ∃ ra rb av bv s, upscale (a.val h) (b.val h) = some (av, bv, s) ∧
      run (upscaleP a b) h = (some (ra, rb, s), h) ∧
      (∀ h' : Heap, (a.val h').coeff = (a.val h).coeff → ra.get a b h' = av) ∧
      (∀ h' : Heap, (b.val h').coeff = (b.val h).coeff → rb.get a b h' = bv) := by
  unfold upscaleP upscale
  simp only [run_bind, run_rdExp, run_ite, run_pure, run_rdCoeff]
  bcases h1 : ((a.val h).exp == (b.val h).exp) = true
  · exact Or.inr ⟨_, _, _, _, _, rfl, rfl, fun h' e => e, fun h' e => e⟩
  bcases h2 : (a.val h).exp < (b.val h).exp
  · bcases h3 : (b.val h).exp - (a.val h).exp > MaxExponent
    · simp
    · exact Or.inr ⟨_, _, _, _, _, rfl, rfl, fun h' e => e, fun h' _ => rfl⟩
  · bcases h3 : (a.val h).exp - (b.val h).exp > MaxExponent
    · simp
    · exact Or.inr ⟨_, _, _, _, _, rfl, rfl, fun h' _ => rfl, fun h' e => e⟩

/-- the exact sum / difference formed by `Context.add` before rounding -/
def addCoreD (m : Mode) (xn yn : Bool) (a b : Nat) (s : Int) : Dec :=
  if xn == yn then { form := .finite, neg := xn, exp := s, coeff := a + b }
  else if a < b then { form := .finite, neg := !xn, exp := s, coeff := b - a }
  else if a == b then { form := .finite, neg := (m == .floor), exp := s, coeff := 0 }
  else { form := .finite, neg := xn, exp := s, coeff := a - b }

theorem run_addFiniteP (c : Ctx) (d : Cell) (x y : Src) (xn yn : Bool) (ra rb : BRef) (s : Int) (h : Heap)
    (a b : Nat)
    (ha : ∀ v : Dec, v.coeff = (h d).coeff → ra.get x y (h.set d v) = a)
    (hb : ∀ v : Dec, v.coeff = (h d).coeff → rb.get x y (h.set d v) = b) :
    run (addFiniteP c d x y xn yn (ra, rb, s)) h =
      (((ctxRound c (addCoreD c.mode xn yn a b s)).2, goError c.traps (ctxRound c (addCoreD c.mode xn yn a b s)).2, 0),
       h.set d (ctxRound c (addCoreD c.mode xn yn a b s)).1) := by
  have ha' := ha { h d with neg := xn } rfl
  have hb' := hb { h d with neg := xn } rfl
  unfold addFiniteP addCoreD ctxRound
  simp only [run_bind, run_wrNeg, run_ite, run_rdB, ha', hb', run_wrCoeff, run_rdNeg, run_rdCoeff, run_pure,
    run_wrExp, run_wrForm, run_roundP, run_retFlags, Src.val_cell, Heap.set_same, Heap.set_set]
  bcases h1 : (xn == yn) = true
  · simp
  bcases h2 : a < b
  · simp
  bcases h3 : (a == b) = true
  · have : a - b = 0 := by have := eq_of_beq h3; omega
    simp [this]
  · have : ((a - b == 0) = true) = False := by
      have : a ≠ b := fun e => h3 (by simp [e])
      simp; omega
    simp [this]

@[simp] theorem setAsNaN_aux (c : Ctx) (x : Dec) (y : Option Dec) : (setAsNaN c x y).aux = 0 := by
  unfold setAsNaN; simp only [apply_ite Out.aux, ite_self]

/-- the NaN prologue shared by the `Context` methods -/
theorem nanPrologue_run (c : Ctx) (d : Cell) (x : Src) (y : Option Src) (h : Heap)
    (hn : shouldSetAsNaN (x.val h) (y.map (·.val h)) = true) :
    ∃ fl aux v, (((run (setAsNaNP c d x y) h).1.1, (run (setAsNaNP c d x y) h).1.2, (0 : Int)),
          (run (setAsNaNP c d x y) h).2) =
        ((fl, (setAsNaN c (x.val h) (y.map (·.val h))).err, aux), h.set d v) ∧
      (Delivered (setAsNaN c (x.val h) (y.map (·.val h))).err →
        fl = (setAsNaN c (x.val h) (y.map (·.val h))).fl ∧ aux = (setAsNaN c (x.val h) (y.map (·.val h))).aux ∧
        v = (setAsNaN c (x.val h) (y.map (·.val h))).d) := by
  rw [run_setAsNaNP c d x y h hn]
  exact ⟨_, _, _, rfl, fun _ => ⟨rfl, by simp, rfl⟩⟩

/-! ## the stale exponent of the destination does not matter to `setExponent` -/

theorem checkXs_some {xs : List Int} {fl : Cond} (hx : checkXs xs = some fl) :
    fl = cSysOverflow ||| cOverflow ∨ fl = cSysUnderflow ||| cUnderflow := by
  induction xs with
  | nil => simp [checkXs] at hx
  | cons x xs ih =>
    unfold checkXs at hx
    split at hx
    · left; exact (Option.some.inj hx).symm
    · split at hx
      · right; exact (Option.some.inj hx).symm
      · exact ih hx

theorem not_noSys_over : ¬ NoSys (cSysOverflow ||| cOverflow) := by
  intro h; exact absurd h.1 (by decide)
theorem not_noSys_under : ¬ NoSys (cSysUnderflow ||| cUnderflow) := by
  intro h; exact absurd h.2 (by decide)

theorem setExponent_exp (c : Ctx) (d : Dec) (e : Int) (res : Cond) (xs : List Int) :
    (setExponent c { d with exp := e } res xs).2 = (setExponent c d res xs).2 ∧
    (NoSys (setExponent c d res xs).2 →
      (setExponent c { d with exp := e } res xs).1 = (setExponent c d res xs).1) := by
  unfold setExponent
  cases hx : checkXs xs with
  | some fl =>
    simp only []
    refine ⟨trivial, fun hns => ?_⟩
    rcases checkXs_some hx with rfl | rfl
    · exact absurd hns not_noSys_over
    · exact absurd hns not_noSys_under
  | none =>
    simp only [Dec.isZero]
    bcases c1 : sumInts xs + ↑(ndigits d.coeff) - 1 > MaxExponent
    · exact ⟨trivial, fun hns => absurd hns not_noSys_over⟩
    bcases c2 : sumInts xs + ↑(ndigits d.coeff) - 1 < MinExponent
    · exact ⟨trivial, fun hns => absurd hns not_noSys_under⟩
    bcases c3 : sumInts xs + ↑(ndigits d.coeff) - 1 < c.emin
    · bcases c4 : sumInts xs < c.emin - (↑c.prec - 1)
      · exact ⟨rfl, fun _ => rfl⟩
      · exact ⟨rfl, fun _ => rfl⟩
    bcases c5 : sumInts xs + ↑(ndigits d.coeff) - 1 > c.emax
    · bcases c6 : (d.form == Form.finite && d.coeff == 0) = true
      · exact ⟨rfl, fun _ => rfl⟩
      · exact ⟨rfl, fun _ => rfl⟩
    · exact ⟨rfl, fun _ => rfl⟩

@[simp] theorem Cond.or_sysOverflow (a b : Cond) : (a ||| b).sysOverflow = (a.sysOverflow || b.sysOverflow) := rfl
@[simp] theorem Cond.or_sysUnderflow (a b : Cond) : (a ||| b).sysUnderflow = (a.sysUnderflow || b.sysUnderflow) := rfl

theorem goError_sys_left (t a b : Cond) (ha : ¬ NoSys a) : goError t (a ||| b) = .sys := by
  unfold goError NoSys at *
  have : (a.sysOverflow || a.sysUnderflow) = true := by
    cases h1 : a.sysOverflow <;> cases h2 : a.sysUnderflow <;> simp_all
  cases h1 : a.sysOverflow <;> cases h2 : a.sysUnderflow <;> simp_all

theorem goError_sys_right (t a b : Cond) (hb : ¬ NoSys b) : goError t (a ||| b) = .sys := by
  unfold goError NoSys at *
  cases h1 : b.sysOverflow <;> cases h2 : b.sysUnderflow <;> simp_all

theorem goError_sys_of_not_noSys (t a : Cond) (ha : ¬ NoSys a) : goError t a = .sys := by
  unfold goError NoSys at *
  cases h1 : a.sysOverflow <;> cases h2 : a.sysUnderflow <;> simp_all

/-- end of `Mul` / `Quo`: `setExponent` runs on a destination whose exponent field is stale (`e`); the value-level
model uses exponent 0.  Only the system-limit exits can tell the difference, and they are not delivered. -/
theorem stale_exp_tail (c : Ctx) (d : Cell) (h : Heap) (D : Dec) (e : Int) (res : Cond) (xs : List Int) :
    ∃ fl aux v,
      ((res ||| (setExponent c { D with exp := e } res xs).2,
        goError c.traps (res ||| (setExponent c { D with exp := e } res xs).2), (0 : Int)),
        h.set d (setExponent c { D with exp := e } res xs).1) =
      ((fl, goError c.traps (res ||| (setExponent c D res xs).2), aux), h.set d v) ∧
      (Delivered (goError c.traps (res ||| (setExponent c D res xs).2)) →
        fl = res ||| (setExponent c D res xs).2 ∧ aux = 0 ∧ v = (setExponent c D res xs).1) := by
  obtain ⟨e2, e1⟩ := setExponent_exp c D e res xs
  rw [e2]
  by_cases hns : NoSys (setExponent c D res xs).2
  · rw [e1 hns]; exact ⟨_, _, _, rfl, fun _ => ⟨rfl, rfl, rfl⟩⟩
  · rw [goError_sys_right _ _ _ hns]
    exact ⟨_, _, _, rfl, fun hd => absurd hd not_delivered_sys⟩

theorem stale_exp_tail0 (c : Ctx) (d : Cell) (h : Heap) (D : Dec) (e : Int) (res : Cond) (xs : List Int) :
    ∃ fl aux v,
      (((setExponent c { D with exp := e } res xs).2,
        goError c.traps (setExponent c { D with exp := e } res xs).2, (0 : Int)),
        h.set d (setExponent c { D with exp := e } res xs).1) =
      ((fl, goError c.traps (setExponent c D res xs).2, aux), h.set d v) ∧
      (Delivered (goError c.traps (setExponent c D res xs).2) →
        fl = (setExponent c D res xs).2 ∧ aux = 0 ∧ v = (setExponent c D res xs).1) := by
  obtain ⟨e2, e1⟩ := setExponent_exp c D e res xs
  rw [e2]
  by_cases hns : NoSys (setExponent c D res xs).2
  · rw [e1 hns]; exact ⟨_, _, _, rfl, fun _ => ⟨rfl, rfl, rfl⟩⟩
  · rw [goError_sys_of_not_noSys _ _ hns]
    exact ⟨_, _, _, rfl, fun hd => absurd hd not_delivered_sys⟩

end Apd.Imp
