import ApdVerif.Model.Conv
import ApdVerif.Lemmas.Digits
import ApdVerif.Lemmas.NumDigitsTable
/-! # Helper lemmas for C19 (NumDigits, Reduce) — core only -/
namespace Apd.C19L
/-- `bitLen` characterisation: 2^(bl-1) ≤ a < 2^bl for a ≠ 0 -/
theorem bitLen_spec (a : Nat) (ha : a ≠ 0) :
    1 ≤ bitLen a ∧ 2 ^ (bitLen a - 1) ≤ a ∧ a < 2 ^ bitLen a := by
  unfold bitLen
  rw [if_neg ha]
  refine ⟨by omega, ?_, Nat.lt_log2_self⟩
  have : Nat.log2 a + 1 - 1 = Nat.log2 a := by omega
  rw [this]
  exact Nat.log2_self_le ha

/-- estimate path: correct for every bit length -/
theorem numDigitsEst_correct (a bl : Nat) (hbl : 1 ≤ bl) (h1 : 2 ^ (bl - 1) ≤ a) (h2 : a < 2 ^ bl) :
    (if a ≥ 10 ^ estDigits bl then estDigits bl + 1 else estDigits bl) = ndigits a := by
  have hpos : 0 < 2 ^ (bl - 1) := Nat.pow_pos (by decide)
  have ha : 0 < a := Nat.lt_of_lt_of_le hpos h1
  have lo : ndigits (2 ^ (bl - 1)) ≤ ndigits a := ndigits_mono hpos h1
  have e2 : 2 ^ bl = 2 * 2 ^ (bl - 1) := by
    rw [← Nat.pow_succ']; congr 1; omega
  have hi : ndigits a ≤ ndigits (2 ^ bl) := ndigits_mono ha (Nat.le_of_lt h2)
  have hi2 : ndigits (2 ^ bl) ≤ ndigits (2 ^ (bl - 1)) + 1 := by rw [e2]; exact ndigits_double _ hpos
  have hp := ndigits_pos (2 ^ bl)
  have hpa := ndigits_pos a
  unfold estDigits
  generalize hN : ndigits (2 ^ bl) = N at *
  split
  · rename_i h
    -- a ≥ 10^(N-1): ndigits a > N-1
    rcases Nat.eq_or_lt_of_le hp with h0 | h0
    · omega
    · have : ¬ ndigits a ≤ N - 1 := fun hle =>
        absurd ((ndigits_le_iff a (N - 1) ha (by omega)).1 hle) (by omega)
      omega
  · rename_i h
    have hlt : a < 10 ^ (N - 1) := by omega
    rcases Nat.eq_or_lt_of_le hp with h0 | h0
    · exfalso
      have : N - 1 = 0 := by omega
      rw [this] at hlt
      simp at hlt
      omega
    · have := (ndigits_le_iff a (N - 1) ha (by omega)).2 hlt
      omega

theorem numDigitsImpl_correct (b : Int) : numDigitsImpl b = ndigits b.natAbs := by
  unfold numDigitsImpl
  simp only []
  generalize b.natAbs = a
  by_cases ha : a = 0
  · subst ha; simp [bitLen]; decide
  · obtain ⟨h0, h1, h2⟩ := bitLen_spec a ha
    rw [if_neg (by omega)]
    split
    · exact numDigitsTable_correct a (bitLen a) h0 h1 h2
    · exact numDigitsEst_correct a (bitLen a) h0 h1 h2

/-! ## stripZeros -/

theorem stripZerosAux_spec : ∀ (fuel n k : Nat), 0 < n → n ≤ fuel →
    (stripZerosAux fuel n k).1 * 10 ^ ((stripZerosAux fuel n k).2 - k) = n ∧
    k ≤ (stripZerosAux fuel n k).2 ∧ (stripZerosAux fuel n k).1 % 10 ≠ 0 := by
  intro fuel
  induction fuel with
  | zero => intro n k h1 h2; omega
  | succ f ih =>
    intro n k hn hf
    simp only [stripZerosAux]
    by_cases hm : n % 10 = 0
    · have hne : n ≠ 0 := by omega
      have hc : (n != 0 && n % 10 == 0) = true := by simp [hne, hm]
      rw [if_pos hc]
      have hq : 0 < n / 10 := by omega
      have hle : n / 10 ≤ f := by omega
      obtain ⟨a, b, c⟩ := ih (n / 10) (k + 1) hq hle
      refine ⟨?_, by omega, c⟩
      generalize (stripZerosAux f (n / 10) (k + 1)).1 = s at *
      generalize (stripZerosAux f (n / 10) (k + 1)).2 = t at *
      have : t - k = (t - (k + 1)) + 1 := by omega
      rw [this, Nat.pow_succ, ← Nat.mul_assoc, a]
      omega
    · have hc : ¬ (n != 0 && n % 10 == 0) = true := by simp [hm]
      rw [if_neg hc]
      simp [hm]

theorem stripZeros_spec (n : Nat) (hn : n ≠ 0) :
    (stripZeros n).1 * 10 ^ (stripZeros n).2 = n ∧ (stripZeros n).1 % 10 ≠ 0 := by
  have := stripZerosAux_spec n n 0 (by omega) (Nat.le_refl n)
  unfold stripZeros
  simpa using And.intro this.1 this.2.2

end Apd.C19L
