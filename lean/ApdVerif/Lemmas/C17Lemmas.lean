import ApdVerif.Model.Conv
import ApdVerif.Lemmas.Digits
import Mathlib.Tactic.Ring
import Mathlib.Tactic.Linarith
import Mathlib.Tactic.SplitIfs
import Mathlib.Tactic.NormNum
/-!
# Helper lemmas for C17 (Int64 / Modf)
-/
namespace Apd.C17L
/-! ## wrap64 -/

theorem wrap64_id (z : Int) (h1 : -2 ^ 63 ≤ z) (h2 : z < 2 ^ 63) : wrap64 z = z := by
  unfold wrap64; omega

theorem wrap64_mul10 (a : Int) : wrap64 (wrap64 a * 10) = wrap64 (a * 10) := by
  unfold wrap64; omega

theorem wrap64_neg (a : Int) : wrap64 (-wrap64 a) = wrap64 (-a) := by
  unfold wrap64; omega

theorem wrap64_mod (n : Nat) : wrap64 ((n % 2 ^ 64 : Nat) : Int) = wrap64 (n : Int) := by
  unfold wrap64; omega

theorem mul10Loop_wrap (k : Nat) (z : Int) : mul10Loop k (wrap64 z) = wrap64 (z * 10 ^ k) := by
  induction k generalizing z with
  | zero => simp [mul10Loop]
  | succ k ih =>
    simp only [mul10Loop]
    rw [wrap64_mul10, ih]
    congr 1
    ring

/-! ## magnitude comparison through digit counts -/

theorem mag_lt (C Y E : Nat) (hC : 0 < C) (hY : 0 < Y) (h : ndigits C + E < ndigits Y) :
    C * 10 ^ E < Y := by
  have a := (ndigits_spec C hC).2
  have b := (ndigits_spec Y hY).1
  have h1 : 10 ^ (ndigits C + E) ≤ 10 ^ (ndigits Y - 1) := Nat.pow_le_pow_right (by decide) (by omega)
  have h2 : C * 10 ^ E < 10 ^ ndigits C * 10 ^ E := Nat.mul_lt_mul_of_pos_right a (Nat.pow_pos (by decide))
  rw [← Nat.pow_add] at h2
  omega

theorem mag_gt (C Y E : Nat) (hC : 0 < C) (hY : 0 < Y) (h : ndigits C + E > ndigits Y) :
    C * 10 ^ E > Y := by
  have a := (ndigits_spec C hC).1
  have b := (ndigits_spec Y hY).2
  have hp := ndigits_pos C
  have h1 : 10 ^ ndigits Y ≤ 10 ^ (ndigits C - 1 + E) := Nat.pow_le_pow_right (by decide) (by omega)
  have h2 : 10 ^ (ndigits C - 1) * 10 ^ E ≤ C * 10 ^ E := Nat.mul_le_mul_right _ a
  rw [← Nat.pow_add] at h2
  omega

/-! ## `Dec.cmp` against an integer constant -/

def sval (neg : Bool) (N : Nat) : Int := (if neg then -1 else 1) * (N : Int)

theorem cmp_intExp (neg : Bool) (E : Int) (C : Nat) (yneg : Bool) (Y : Nat) (hE : 0 ≤ E) (hY : 0 < Y) :
    Dec.cmp { form := .finite, neg := neg, exp := E, coeff := C }
            { form := .finite, neg := yneg, exp := 0, coeff := Y }
      = cmpInt (sval neg (C * 10 ^ E.toNat)) (sval yneg Y) := by
  have hYne : Y ≠ 0 := by omega
  by_cases hC : C = 0
  · subst hC
    cases neg <;> cases yneg <;> simp [Dec.cmp, Dec.sign, cmpInt, sval, hYne] <;> omega
  · have hCpos : 0 < C := by omega
    have hl := mag_lt C Y E.toNat hCpos hY
    have hg := mag_gt C Y E.toNat hCpos hY
    have hNpos : 0 < C * 10 ^ E.toNat := Nat.mul_pos hCpos (Nat.pow_pos (by decide))
    have h0 : E = 0 → C * 10 ^ E.toNat = C := by intro h; subst h; simp
    unfold Dec.cmp
    simp only [Int.sub_zero]
    generalize C * 10 ^ E.toNat = N at *
    cases neg <;> cases yneg <;> simp [Dec.sign, cmpInt, cmpNat, sval, hYne, hC] <;>
      split_ifs <;> omega

end Apd.C17L
