import ApdVerif.Model.Trans
import ApdVerif.Lemmas.C11Lemmas
import ApdVerif.Lemmas.C15Lemmas
import ApdVerif.Lemmas.RoundCoreLemmas
import Mathlib.Tactic.Ring
import Mathlib.Tactic.NormNum
import Mathlib.Tactic.SplitIfs
/-!
# Helper lemmas for the settling step of Sqrt (Props/C11Settle.lean)

* `midSq_cmp_ge` / `midSq_cmp_lt`: the comparison `sqrtSettle` makes — the square of the midpoint
  `(10m+5)·10^(q-1)` against the operand — is the integer comparison of `(2m+1)²·den` with `4·num`,
  where `num/den = x / 10^(2q)`.
* `roundDown_digits`: a truncation (`mode = down`) to a precision `≥ 1` that reports Inexact
  delivers at most `prec` digits.
-/
namespace Apd.C11S
open Apd Apd.C15L Cond

/-- the square of the midpoint above `m·10^q` -/
def midSq (m : Nat) (q : Int) : Dec := { coeff := (m * 10 + 5) * (m * 10 + 5), exp := 2 * (q - 1) }

theorem midSq_cmp_spec (m : Nat) (q : Int) (x : Dec) (hx : x.form = .finite) (e : Int)
    (h1 : e ≤ 2 * (q - 1)) (h2 : e ≤ x.exp) :
    (midSq m q).cmp x = cmpInt (signedScaled (midSq m q) e) (signedScaled x e) := by
  rw [cmp_finite _ _ rfl hx, ← specCmp_finite _ _ rfl hx]
  exact specCmp_finite_at _ _ rfl hx e h1 h2

/-- `x.exp ≥ 2q`: `x / 10^(2q) = x.coeff·10^sh` -/
theorem midSq_cmp_ge (m : Nat) (q : Int) (x : Dec) (hx : x.form = .finite) (hn : x.neg = false)
    (hs : x.exp - 2 * q ≥ 0) :
    (midSq m q).cmp x =
      cmpInt (((2 * m + 1) * (2 * m + 1) * 1 : Nat) : Int) ((4 * (x.coeff * 10 ^ (x.exp - 2 * q).toNat) : Nat) : Int) := by
  rw [midSq_cmp_spec m q x hx (2 * (q - 1)) (Int.le_refl _) (by omega)]
  unfold signedScaled
  have e1 : ((midSq m q).exp - 2 * (q - 1)).toNat = 0 := by
    show (2 * (q - 1) - 2 * (q - 1)).toNat = 0
    omega
  have e2 : (x.exp - 2 * (q - 1)).toNat = (x.exp - 2 * q).toNat + 2 := by omega
  rw [e1, e2, hn]
  show cmpInt (1 * (((m * 10 + 5) * (m * 10 + 5) * 10 ^ 0 : Nat) : Int))
      (1 * ((x.coeff * 10 ^ ((x.exp - 2 * q).toNat + 2) : Nat) : Int)) = _
  generalize (x.exp - 2 * q).toNat = s
  rw [← cmpInt_mul_pos (((2 * m + 1) * (2 * m + 1) * 1 : Nat) : Int) _ 25 (by decide)]
  congr 1
  · push_cast; ring
  · push_cast; ring

/-- `x.exp < 2q`: `x / 10^(2q) = x.coeff / 10^(-sh)` -/
theorem midSq_cmp_lt (m : Nat) (q : Int) (x : Dec) (hx : x.form = .finite) (hn : x.neg = false)
    (hs : ¬ x.exp - 2 * q ≥ 0) :
    (midSq m q).cmp x =
      cmpInt (((2 * m + 1) * (2 * m + 1) * 10 ^ (-(x.exp - 2 * q)).toNat : Nat) : Int) ((4 * x.coeff : Nat) : Int) := by
  rw [midSq_cmp_spec m q x hx (x.exp - 2) (by omega) (by omega)]
  unfold signedScaled
  have e1 : ((midSq m q).exp - (x.exp - 2)).toNat = (-(x.exp - 2 * q)).toNat := by
    show (2 * (q - 1) - (x.exp - 2)).toNat = _
    omega
  have e2 : (x.exp - (x.exp - 2)).toNat = 2 := by omega
  rw [e1, e2, hn]
  show cmpInt (1 * (((m * 10 + 5) * (m * 10 + 5) * 10 ^ (-(x.exp - 2 * q)).toNat : Nat) : Int))
      (1 * ((x.coeff * 10 ^ 2 : Nat) : Int)) = _
  generalize (-(x.exp - 2 * q)).toNat = s
  rw [← cmpInt_mul_pos (((2 * m + 1) * (2 * m + 1) * 10 ^ s : Nat) : Int) _ 25 (by decide)]
  congr 1
  · push_cast; ring
  · push_cast; ring

/-! ## digits delivered by a truncation -/

theorem ndigits_div_le (a p : Nat) : ndigits (a / p) ≤ ndigits a := by
  rcases Nat.eq_zero_or_pos (a / p) with h | h
  · rw [h]; exact ndigits_pos a
  · exact ndigits_mono h (Nat.div_le_self a p)

theorem setExponent_down_digits (c : Ctx) (d : Dec) (res : Cond) (xs : List Int) (hm : c.mode = .down)
    (P : Nat) (h : ndigits d.coeff ≤ P) : ndigits (setExponent c d res xs).1.coeff ≤ P := by
  have hdiv : ∀ k, ndigits (d.coeff / 10 ^ k) ≤ P := fun k => Nat.le_trans (ndigits_div_le _ _) h
  unfold setExponent
  split
  · exact h
  · simp only [seFinish, hm, shouldAddOne, Bool.and_false, Bool.false_eq_true, if_false]
    split_ifs <;> first | exact h | exact hdiv _

theorem checkXs_some_inexact {xs : List Int} {fl : Cond} (h : checkXs xs = some fl) : fl.inexact = false := by
  induction xs with
  | nil => simp [checkXs] at h
  | cons x xs ih =>
    simp only [checkXs] at h
    split_ifs at h
    · injection h with h; subst h; rfl
    · injection h with h; subst h; rfl
    · exact ih h

/-- digits left by a truncation at `Etiny` of a subnormal value -/
theorem sub_trunc_digits (n P : Nat) (r emin : Int) (hP : 1 ≤ P) (hadj : r + (ndigits n : Int) - 1 < emin) :
    ndigits (n / 10 ^ (emin - ((P : Int) - 1) - r).toNat) ≤ P := by
  apply ndigits_le_of_lt_pow _ _ hP
  have hpos : 0 < 10 ^ (emin - ((P : Int) - 1) - r).toNat := Nat.pow_pos (by decide)
  rw [Nat.div_lt_iff_lt_mul hpos, ← Nat.pow_add]
  have h1 := lt_pow_of_ndigits_le n (ndigits n) (Nat.le_refl _)
  have h2 : 10 ^ ndigits n ≤ 10 ^ (P + (emin - ((P : Int) - 1) - r).toNat) :=
    Nat.pow_le_pow_right (by decide) (by omega)
  omega

theorem setExponent_sub_digits (c : Ctx) (d : Dec) (res : Cond) (xs : List Int) (hm : c.mode = .down)
    (hp : 1 ≤ c.prec) (hres : res.inexact = false)
    (hadj : sumInts xs + (ndigits d.coeff : Int) - 1 < c.emin)
    (hin : (setExponent c d res xs).2.inexact = true) :
    ndigits (setExponent c d res xs).1.coeff ≤ c.prec := by
  unfold setExponent at hin ⊢
  cases hck : checkXs xs with
  | some fl =>
    rw [hck] at hin
    rw [checkXs_some_inexact hck] at hin
    exact absurd hin (by decide)
  | none =>
    rw [hck] at hin
    simp only [] at hin ⊢
    by_cases a1 : sumInts xs + (ndigits d.coeff : Int) - 1 > MaxExponent
    · simp only [a1, if_true] at hin
      exact absurd hin (by decide)
    by_cases a2 : sumInts xs + (ndigits d.coeff : Int) - 1 < MinExponent
    · simp only [a1, a2, if_true, if_false] at hin
      exact absurd hin (by decide)
    simp only [a1, a2, hadj, if_true, if_false] at hin ⊢
    by_cases a4 : sumInts xs < c.emin - ((c.prec : Int) - 1)
    · simp only [a4, if_true, seFinish, hm, shouldAddOne, Bool.and_false, Bool.false_eq_true, if_false]
      exact sub_trunc_digits _ _ _ _ hp hadj
    · simp only [a4, if_false, seFinish] at hin
      exfalso
      revert hin
      cases d.isZero <;> simp [hres, cSubnormal]

theorem round_long_digits (c : Ctx) (x : Dec) (hm : c.mode = .down) (hp : 1 ≤ c.prec)
    (h2 : (ndigits x.coeff : Int) - (c.prec : Int) > 0) (res : Cond) :
    ndigits (setExponent c { x with coeff := x.coeff / 10 ^ ((ndigits x.coeff : Int) - (c.prec : Int)).toNat } res
      [x.exp, (ndigits x.coeff : Int) - (c.prec : Int)]).1.coeff ≤ c.prec := by
  apply setExponent_down_digits c _ _ _ hm
  show ndigits (x.coeff / 10 ^ ((ndigits x.coeff : Int) - (c.prec : Int)).toNat) ≤ c.prec
  have hc : 0 < x.coeff := by
    rcases Nat.eq_zero_or_pos x.coeff with h0 | h0
    · rw [h0, ndigits_zero] at h2; omega
    · exact h0
  have e : ((ndigits x.coeff : Int) - (c.prec : Int)).toNat = ndigits x.coeff - c.prec := by omega
  rw [e, ndigits_div_pow x.coeff c.prec hc hp (by omega)]

/-- a truncation to a precision `≥ 1` that reports Inexact delivers at most `prec` digits -/
theorem roundDown_digits (c : Ctx) (x : Dec) (hm : c.mode = .down) (hp : 1 ≤ c.prec)
    (hin : (ctxRound c x).2.inexact = true) : ndigits (ctxRound c x).1.coeff ≤ c.prec := by
  by_cases hx : x.form = .finite
  swap
  · rw [ctxRound_nonfinite c x hx] at hin
    simp at hin
  rw [ctxRound_finite c x hx] at hin ⊢
  unfold ctxRoundFin roundXFin at hin ⊢
  have hp0 : (c.prec == 0) = false := by simp; omega
  simp only [hp0, hm, shouldAddOne, Bool.and_false, Bool.false_eq_true, if_false] at hin ⊢
  split_ifs at hin ⊢ with h1 h2 h3
  · -- subnormal
    simp only [Cond.or_inexact] at hin
    have hin' : (setExponent c x cSubnormal [x.exp]).2.inexact = true := by simpa [cSubnormal] using hin
    have h1' := h1
    simp only [Bool.and_eq_true, decide_eq_true_eq] at h1'
    exact setExponent_sub_digits c x cSubnormal [x.exp] hm hp rfl (by simp only [sumInts]; omega) hin'
  · simp [cSysOverflow, cOverflow] at hin
  · exact round_long_digits c x hm hp h2 _
  · exact round_long_digits c x hm hp h2 _
  · exact setExponent_down_digits c _ _ _ hm _ (by omega)

end Apd.C11S
