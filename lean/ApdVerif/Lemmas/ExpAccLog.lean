import ApdVerif.Lemmas.ExpAccHorner
/-!
# S3 and the error budget: relative errors on the logarithmic scale

`LogNear ω a b` : `a·e^{-ω} ≤ b ≤ a·e^{ω}`.  Products add the `ω`s, a `k`-th power multiplies `ω` by `k`.
-/
namespace Apd.ExpAcc
open Real

def LogNear (ω a b : ℝ) : Prop := a * exp (-ω) ≤ b ∧ b ≤ a * exp ω

theorem LogNear.refl (a : ℝ) : LogNear 0 a a := by simp [LogNear]

theorem LogNear.mono {ω ω' a b : ℝ} (h : LogNear ω a b) (ha : 0 ≤ a) (hω : ω ≤ ω') : LogNear ω' a b := by
  refine ⟨le_trans ?_ h.1, le_trans h.2 ?_⟩
  · exact mul_le_mul_of_nonneg_left (exp_le_exp.2 (by linarith)) ha
  · exact mul_le_mul_of_nonneg_left (exp_le_exp.2 hω) ha

theorem LogNear.pos {ω a b : ℝ} (h : LogNear ω a b) (ha : 0 < a) : 0 < b :=
  lt_of_lt_of_le (mul_pos ha (exp_pos _)) h.1

theorem LogNear.trans {ω1 ω2 a b c : ℝ} (h1 : LogNear ω1 a b) (h2 : LogNear ω2 b c) :
    LogNear (ω1 + ω2) a c := by
  constructor
  · have : a * exp (-(ω1 + ω2)) = a * exp (-ω1) * exp (-ω2) := by
      rw [neg_add, exp_add]; ring
    rw [this]
    exact le_trans (mul_le_mul_of_nonneg_right h1.1 (exp_pos _).le) h2.1
  · have : a * exp (ω1 + ω2) = a * exp ω1 * exp ω2 := by rw [exp_add]; ring
    rw [this]
    exact le_trans h2.2 (mul_le_mul_of_nonneg_right h1.2 (exp_pos _).le)

theorem LogNear.mul {ω1 ω2 a b c d : ℝ} (h1 : LogNear ω1 a b) (h2 : LogNear ω2 c d)
    (ha : 0 ≤ a) (hc : 0 ≤ c) : LogNear (ω1 + ω2) (a * c) (b * d) := by
  have hb : 0 ≤ b := le_trans (mul_nonneg ha (exp_pos _).le) h1.1
  have hd : 0 ≤ d := le_trans (mul_nonneg hc (exp_pos _).le) h2.1
  constructor
  · have : a * c * exp (-(ω1 + ω2)) = (a * exp (-ω1)) * (c * exp (-ω2)) := by
      rw [neg_add, exp_add]; ring
    rw [this]
    exact mul_le_mul h1.1 h2.1 (mul_nonneg hc (exp_pos _).le) hb
  · have : a * c * exp (ω1 + ω2) = (a * exp ω1) * (c * exp ω2) := by rw [exp_add]; ring
    rw [this]
    exact mul_le_mul h1.2 h2.2 hd (mul_nonneg ha (exp_pos _).le)

theorem LogNear.pow {ω a b : ℝ} (h : LogNear ω a b) (ha : 0 ≤ a) (k : ℕ) :
    LogNear ((k : ℝ) * ω) (a ^ k) (b ^ k) := by
  induction k with
  | zero => simpa using LogNear.refl 1
  | succ k ih =>
    have := LogNear.mul ih h (pow_nonneg ha k) ha
    rw [pow_succ, pow_succ]
    have e : ((k + 1 : ℕ) : ℝ) * ω = (k : ℝ) * ω + ω := by push_cast; ring
    rw [e]; exact this

/-- a relative perturbation `(1+δ)`, `|δ| ≤ u < 1` -/
theorem LogNear.of_rel (a δ u : ℝ) (ha : 0 ≤ a) (hδ : |δ| ≤ u) (hu : u < 1) :
    LogNear (u / (1 - u)) a (a * (1 + δ)) := by
  have hu0 : 0 ≤ u := le_trans (abs_nonneg _) hδ
  have h1 : 0 < 1 - u := by linarith
  obtain ⟨d1, d2⟩ := abs_le.1 hδ
  have hω : 0 ≤ u / (1 - u) := div_nonneg hu0 h1.le
  constructor
  · apply mul_le_mul_of_nonneg_left _ ha
    -- exp(-ω) ≤ 1 - u
    have h2 : 1 + u / (1 - u) ≤ exp (u / (1 - u)) := by linarith [add_one_le_exp (u / (1 - u))]
    have h3 : 1 + u / (1 - u) = 1 / (1 - u) := by field_simp; ring
    rw [exp_neg]
    have h4 : (exp (u / (1 - u)))⁻¹ ≤ (1 / (1 - u))⁻¹ :=
      inv_anti₀ (by positivity) (by rw [← h3]; exact h2)
    have h5 : (1 / (1 - u))⁻¹ = 1 - u := by rw [one_div, inv_inv]
    linarith
  · apply mul_le_mul_of_nonneg_left _ ha
    have h2 : u / (1 - u) + 1 ≤ exp (u / (1 - u)) := add_one_le_exp _
    have h3 : u ≤ u / (1 - u) := by
      rw [le_div_iff₀ h1]; nlinarith
    linarith

/-- from an absolute error that is a small fraction of the exact value -/
theorem LogNear.of_abs (a b ρ : ℝ) (ha : 0 < a) (hρ : ρ < 1) (h : |b - a| ≤ ρ * a) :
    LogNear (ρ / (1 - ρ)) a b := by
  have hρ0 : 0 ≤ ρ := by
    by_contra hn
    have : ρ * a < 0 := mul_neg_of_neg_of_pos (not_le.1 hn) ha
    linarith [abs_nonneg (b - a)]
  have e : b = a * (1 + (b - a) / a) := by field_simp; ring
  rw [e]
  apply LogNear.of_rel a _ ρ ha.le _ hρ
  rw [abs_div, abs_of_pos ha, div_le_iff₀ ha]; exact h

/-- back to an absolute error, relative to the approximation `b` -/
theorem LogNear.abs_sub_le {ω a b : ℝ} (h : LogNear ω a b) (hb : 0 ≤ b) :
    |b - a| ≤ b * (exp ω - 1) := by
  obtain ⟨h1, h2⟩ := h
  have e1 : a ≤ b * exp ω := by
    have := mul_le_mul_of_nonneg_right h1 (exp_pos ω).le
    rwa [mul_assoc, ← exp_add, neg_add_cancel, exp_zero, mul_one] at this
  have e2 : b * exp (-ω) ≤ a := by
    have := mul_le_mul_of_nonneg_right h2 (exp_pos (-ω)).le
    rwa [mul_assoc, ← exp_add, add_neg_cancel, exp_zero, mul_one] at this
  have e3 : 2 ≤ exp ω + exp (-ω) := by
    linarith [add_one_le_exp ω, add_one_le_exp (-ω)]
  rw [abs_le]
  constructor
  · nlinarith
  · nlinarith

/-! ## S3: square and multiply -/

/-- one round of square-and-multiply: `b = 2b' + bit` -/
theorem pow_combine (z n z' n' res u' : ℝ) (b' bit : ℕ) (hz0 : 0 < z) (hn0 : 0 < n)
    (hz : LogNear ((bit : ℝ) * u') (z * n ^ bit) z')
    (hn : 0 < b' → LogNear u' (n * n) n')
    (hres : LogNear ((b' : ℝ) * u') (z' * n' ^ b') res) :
    LogNear (((2 * b' + bit : ℕ) : ℝ) * u') (z * n ^ (2 * b' + bit)) res := by
  have hzn : 0 < z * n ^ bit := by positivity
  have hpow : LogNear ((b' : ℝ) * u') ((n * n) ^ b') (n' ^ b') := by
    rcases Nat.eq_zero_or_pos b' with h0 | hpos
    · subst h0; simpa using LogNear.refl 1
    · exact (hn hpos).pow (by positivity) b'
  have h1 : LogNear ((bit : ℝ) * u' + (b' : ℝ) * u') (z * n ^ bit * (n * n) ^ b') (z' * n' ^ b') :=
    hz.mul hpow hzn.le (by positivity)
  have h2 := h1.trans hres
  have e1 : z * n ^ (2 * b' + bit) = z * n ^ bit * (n * n) ^ b' := by
    rw [pow_add, pow_mul, ← sq]; ring
  have e2 : ((2 * b' + bit : ℕ) : ℝ) * u' = (bit : ℝ) * u' + (b' : ℝ) * u' + (b' : ℝ) * u' := by
    push_cast; ring
  rw [e1, e2]; exact h2

/-- the loop of `integerPower` on reals with a rounded multiplication `fl` -/
noncomputable def powLoopR (fl : ℝ → ℝ → ℝ) : ℕ → ℕ → ℝ → ℝ → ℝ
  | 0, _, z, _ => z
  | fuel+1, b, z, n =>
    if b = 0 then z else
    powLoopR fl fuel (b / 2) (if b % 2 = 1 then fl z n else z) (if b / 2 > 0 then fl n n else n)

/-- S3. Square-and-multiply with every product perturbed by at most `u'` (log scale) computes `z·n^b`
within `b·u'`: the error exponent is `b`, not `log b` — the errors of the squarings are squared along. -/
theorem pow_loop_rounded (fl : ℝ → ℝ → ℝ) (u' : ℝ)
    (hfl : ∀ a b, 0 < a → 0 < b → LogNear u' (a * b) (fl a b)) :
    ∀ (fuel b : ℕ) (z n : ℝ), b < 2 ^ fuel → 0 < z → 0 < n →
      LogNear ((b : ℝ) * u') (z * n ^ b) (powLoopR fl fuel b z n) := by
  intro fuel
  induction fuel with
  | zero =>
    intro b z n hb hz hn
    have : b = 0 := by simpa using hb
    subst this
    simpa [powLoopR] using LogNear.refl z
  | succ fuel ih =>
    intro b z n hb hz hn
    unfold powLoopR
    by_cases h0 : b = 0
    · subst h0; simpa using LogNear.refl z
    · rw [if_neg h0]
      have hb' : b / 2 < 2 ^ fuel := by
        rw [pow_succ] at hb; omega
      have hbit : b % 2 = 0 ∨ b % 2 = 1 := by omega
      have hdecomp : b = 2 * (b / 2) + b % 2 := by omega
      set z' := (if b % 2 = 1 then fl z n else z) with hz'
      set n' := (if b / 2 > 0 then fl n n else n) with hn'
      have hzL : LogNear (((b % 2 : ℕ) : ℝ) * u') (z * n ^ (b % 2)) z' := by
        rcases hbit with hb0 | hb1
        · rw [hz', hb0]; simpa using LogNear.refl z
        · rw [hz', hb1, if_pos rfl]; simpa using hfl z n hz hn
      have hnL : 0 < b / 2 → LogNear u' (n * n) n' := by
        intro hp; rw [hn', if_pos hp]; exact hfl n n hn hn
      have hz'pos : 0 < z' := hzL.pos (by positivity)
      have hn'pos : 0 < n' := by
        by_cases hp : 0 < b / 2
        · exact (hnL hp).pos (by positivity)
        · rw [hn', if_neg hp]; exact hn
      have := pow_combine z n z' n' _ u' (b / 2) (b % 2) hz hn hzL hnL (ih (b / 2) z' n' hb' hz'pos hn'pos)
      rw [← hdecomp] at this
      exact this

end Apd.ExpAcc
